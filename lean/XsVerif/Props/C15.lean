/-
  C15 — schema build accepts a content model exactly when it is deterministic.
  ONLY the specification, the property theorems and non-vacuity examples live here.

  S  `UPA Σ v11 p`  no prefix of children can be continued by one child name attributed to two
                    competing particles (attributed words = words of `p.toRx` under the marked
                    matcher `mm`; names range over the finite alphabet Σ supplied by the harness);
     `EDC T p`      declarations with the same name (directly or through substitution groups) have
                    the same type.
  O  `upaOracle` / `edcCheck`   (Model/Upa.lean), proved sound below: a `cert` answer implies UPA, a
                    `witness` answer implies ¬UPA; `unknown` (fuel) is never a verdict.
  M  `Ctx.checkModel`           (Model/CheckModel.lean), port of the pinned heuristic `check_model`.

  The full-strength statement  `∀ M p, M.accepts p = true ↔ UPA Σ v11 p ∧ EDC T p`  is FALSE for the
  algorithm in both directions (known finding C15-F0), for the pinned code and for every combination of the
  proposed repairs.  `M.fx : Fixes` says which repairs (notes/fixes/C15-*.patch) the modelled tree contains;
  the harness detects it on the tree under test.  Theorems without a hypothesis on `M.fx` hold for every
  variant.

  exact (accepts ⇔ UPA ∧ EDC), any size, both versions, every variant
    * `checkModel_refines_partial`            every flat choice `{lo,hi}` of plain element particles
    * `checkModel_refines_flat_seq_partial`   every flat sequence `{lo,1}` of plain element particles
    * `checkModel_empty_root_exact`           every model whose root has `maxOccurs = 0` (former C15-F2)
  refusal ⇒ violation, every variant
    * `checkModel_flat_seq_refusal_sound`     every flat sequence, ANY root range (repeating or not)
    * `checkModel_edc_error_sound`            ALL models: an EDC refusal is a real EDC violation (with the repair
                                              of C15-F4; false for the code as it is:
                                              `checkModel_edc_loop_variable_counterexample` (hd, b, md))
  structure of refusals / acceptances on ALL models, every variant
    * `checkModel_upa_error_overlap`, `checkModel_accepts_edc_direct`,
      `checkModel_v11_element_wildcard_never_error`
  where exactness stops — `decide` witnesses, replayed on the real code on every run with the outcome the
  theorem states for the detected variant (corpus/C15/theorem-witnesses.json)
    pinned algorithm only (`ctxOf … {}`), removed by a repair (`checkModel_repairs_effective`):
      `checkModel_missed_counterexample` (a,a*)+, `checkModel_flat_seq_repeated_counterexample` (a,a?){1,2}
                                                                          [repeated-sequence repair]
      `checkModel_shared_particle_missed_counterexample` (G,G), G=(a?)    [shared-group repair, C15-F3]
      `checkModel_edc_missed_counterexample` XSD 1.0 (h, s:int)           [EDC repair]
      `checkModel_local_head_false_alarm_counterexample` XSD 1.0 (h:string | s)   [head guard]
    every variant (`∀ fx`):
      `checkModel_flat_seq_repeated_patched_counterexample` (a,a,a*)*     accepted, nondeterministic
      `checkModel_seq_of_choices_counterexample` (a,(c?|b),b), `checkModel_choice_of_seqs_counterexample`
      ((a,a)|a)                                                           accepted, nondeterministic
      `checkModel_indirect_member_missed_counterexample` XSD 1.0 (h|d)    accepted, nondeterministic
      `checkModel_false_alarm_counterexample` (b,(b{1,2}){1,2},a)*, `checkModel_false_alarm_norepeat_counterexample`
      (((a)?,c),a)                                                        refused, deterministic
-/
import XsVerif.Lemmas.Upa
import XsVerif.Lemmas.CheckModel
import XsVerif.Lemmas.CheckModelFlat
import XsVerif.Lemmas.CheckModelSeq
import XsVerif.Lemmas.CheckModelErr
import XsVerif.Lemmas.CheckModelSeqRep

namespace XsVerif.Props.C15
open XsVerif XsVerif.CM XsVerif.Wildcard

/-! ### S -/

/-- the names of an attributed word lie in Σ -/
def OverNames (sigma : List QN) (w : List ASym) : Prop := ∀ c ∈ w, c.1 ∈ sigma

/-- S: Unique Particle Attribution relative to the alphabet Σ.  `u` is a sequence of children already
    attributed to particles; the next child `a` must not be attributable both to particle `x` and to a
    competing particle `y` (each choice being completable to a word of the model). -/
def UPA (sigma : List QN) (v11 : Bool) (p : Particle) : Prop :=
  ∀ (u v1 v2 : List ASym) (a : QN) (x y : Nat),
    OverNames sigma u → OverNames sigma v1 → OverNames sigma v2 → a ∈ sigma →
    competing v11 p x y = true →
    Rx.Lang mm p.toRx (u ++ (a, x) :: v1) → Rx.Lang mm p.toRx (u ++ (a, y) :: v2) → False

/-- S: Element Declarations Consistent over the declarations (name, type id) that the particles of
    the model (those not switched off by `maxOccurs = 0`) contain directly or through their
    substitution groups. -/
def EDC (T : TypeTable) (p : Particle) : Prop :=
  ∀ d1 ∈ declsOf T p, ∀ d2 ∈ declsOf T p, d1.1 = d2.1 → d1.2 = d2.2

/-! ### O is correct -/

/-- The emptiness test used by the oracle is exact: for every expression, `inhabited` holds iff the
    attributed language contains a word over the given symbols. -/
theorem inhabited_iff (syms : List ASym) (r : Rx Leaf) :
    Rx.inhabited mm syms r = true ↔ ∃ w, Rx.Over syms w ∧ Rx.Lang mm r w :=
  Rx.inhabited_iff mm syms r

/-- The state normaliser preserves the language (so exploring normalised derivatives explores the
    left quotients of the model's language). -/
theorem norm_preserves_language (r : Rx Leaf) (w : List ASym) :
    Rx.Lang mm (Rx.norm r) w ↔ Rx.Lang mm r w :=
  Rx.norm_iff mm r w

/-- The spec, stated with names, coincides with the generic automaton-level statement the
    certificate theorem is about. -/
theorem upa_iff_rx (sigma : List QN) (v11 : Bool) (p : Particle) :
    UPA sigma v11 p ↔ Rx.Upa mm (symsOf sigma p) (compete v11 p) p.toRx := by
  constructor
  · intro h u hu ⟨c1, hc1, c2, hc2, hcmp, v1, v2, hv1, hv2, hl1, hl2⟩
    obtain ⟨a, x⟩ := c1
    obtain ⟨b, y⟩ := c2
    simp only [compete, Bool.and_eq_true, beq_iff_eq] at hcmp
    obtain ⟨hab, hcomp⟩ := hcmp
    subst hab
    have names : ∀ {w : List ASym}, Rx.Over (symsOf sigma p) w → OverNames sigma w :=
      fun hw c hc => (mem_symsOf.mp (hw c hc)).1
    exact h u v1 v2 a x y (names hu) (names hv1) (names hv2) (mem_symsOf.mp hc1).1 hcomp hl1 hl2
  · intro h u v1 v2 a x y hu hv1 hv2 ha hcomp hl1 hl2
    have hn1 : ∀ c ∈ u ++ (a, x) :: v1, c.1 ∈ sigma := by
      intro c hc
      rcases List.mem_append.mp hc with hc | hc
      · exact hu c hc
      · rcases List.mem_cons.mp hc with rfl | hc
        · exact ha
        · exact hv1 c hc
    have hn2 : ∀ c ∈ u ++ (a, y) :: v2, c.1 ∈ sigma := by
      intro c hc
      rcases List.mem_append.mp hc with hc | hc
      · exact hu c hc
      · rcases List.mem_cons.mp hc with rfl | hc
        · exact ha
        · exact hv2 c hc
    have o1 := Rx.over_append.mp (lang_over_syms hl1 hn1)
    have o2 := Rx.over_append.mp (lang_over_syms hl2 hn2)
    have o1' := Rx.over_cons.mp o1.2
    have o2' := Rx.over_cons.mp o2.2
    refine h u o1.1 ⟨(a, x), o1'.1, (a, y), o2'.1, ?_, v1, v2, o1'.2, o2'.2, hl1, hl2⟩
    simp [compete, hcomp]

/-- **The alphabet only matters through the names some particle matches**: enlarging Σ by names that
    no particle of the model matches does not change UPA.  In particular, for a model without
    wildcards, Σ = the element names of the model (with their substitution members) decides UPA over
    every larger alphabet; the choice of one representative name per wildcard region remains an
    assumption of the harness. -/
theorem upa_alphabet_complete (sigma sigma' : List QN) (v11 : Bool) (p : Particle)
    (hsub : ∀ a ∈ sigma, a ∈ sigma')
    (hcov : ∀ a ∈ sigma', (∃ l ∈ p.leaves, l.matches a = true) → a ∈ sigma) :
    UPA sigma v11 p ↔ UPA sigma' v11 p := by
  have matched : ∀ {w : List ASym}, Rx.Lang mm p.toRx w → OverNames sigma' w → OverNames sigma w := by
    intro w hl ho c hc
    obtain ⟨l, hlm, hm⟩ := Rx.lang_syms mm p.toRx w hl c hc
    rw [Particle.leaves_toRx] at hlm
    simp only [mm, Bool.and_eq_true] at hm
    exact hcov c.1 (ho c hc) ⟨l, hlm, hm.2⟩
  constructor
  · intro h u v1 v2 a x y hu hv1 hv2 ha hcomp hl1 hl2
    have o1 : OverNames sigma' (u ++ (a, x) :: v1) := by
      intro c hc
      rcases List.mem_append.mp hc with hc | hc
      · exact hu c hc
      · rcases List.mem_cons.mp hc with rfl | hc
        · exact ha
        · exact hv1 c hc
    have o2 : OverNames sigma' (u ++ (a, y) :: v2) := by
      intro c hc
      rcases List.mem_append.mp hc with hc | hc
      · exact hu c hc
      · rcases List.mem_cons.mp hc with rfl | hc
        · exact ha
        · exact hv2 c hc
    have m1 := matched hl1 o1
    have m2 := matched hl2 o2
    exact h u v1 v2 a x y (fun c hc => m1 c (by simp [hc])) (fun c hc => m1 c (by simp [hc]))
      (fun c hc => m2 c (by simp [hc])) (m1 (a, x) (by simp)) hcomp hl1 hl2
  · intro h u v1 v2 a x y hu hv1 hv2 ha hcomp hl1 hl2
    exact h u v1 v2 a x y (fun c hc => hsub _ (hu c hc)) (fun c hc => hsub _ (hv1 c hc))
      (fun c hc => hsub _ (hv2 c hc)) (hsub _ ha) hcomp hl1 hl2

/-- **Representatives suffice**: let `rep` map every name of a larger alphabet Σ' to a name of Σ that
    every particle of the model treats in the same way (matches both or neither).  Then UPA relative to
    Σ implies UPA relative to Σ'.  This is the precise form of the harness' assumption "one
    representative name per region": it is an assumption only about the name-matching of the leaves,
    not about the structure of the model. -/
theorem upa_representatives (sigma sigma' : List QN) (v11 : Bool) (p : Particle) (rep : QN → QN)
    (hrep : ∀ a ∈ sigma', rep a ∈ sigma)
    (hsame : ∀ l ∈ p.leaves, ∀ a ∈ sigma', l.matches (rep a) = l.matches a)
    (h : UPA sigma v11 p) : UPA sigma' v11 p := by
  intro u v1 v2 a x y hu hv1 hv2 ha hcomp hl1 hl2
  let f : ASym → ASym := fun c => (rep c.1, c.2)
  have over : ∀ {w : List ASym}, OverNames sigma' w → OverNames sigma (w.map f) := by
    intro w hw c hc
    obtain ⟨d, hd, rfl⟩ := List.mem_map.mp hc
    exact hrep d.1 (hw d hd)
  have keep : ∀ {w : List ASym}, OverNames sigma' w → Rx.Lang mm p.toRx w → Rx.Lang mm p.toRx (w.map f) := by
    intro w hw hl
    refine Rx.lang_map mm f p.toRx w ?_ hl
    intro l hlm c hc
    rw [Particle.leaves_toRx] at hlm
    simp only [mm, f, hsame l hlm c.1 (hw c hc)]
  have o1 : OverNames sigma' (u ++ (a, x) :: v1) := by
    intro c hc
    rcases List.mem_append.mp hc with hc | hc
    · exact hu c hc
    · rcases List.mem_cons.mp hc with rfl | hc
      · exact ha
      · exact hv1 c hc
  have o2 : OverNames sigma' (u ++ (a, y) :: v2) := by
    intro c hc
    rcases List.mem_append.mp hc with hc | hc
    · exact hu c hc
    · rcases List.mem_cons.mp hc with rfl | hc
      · exact ha
      · exact hv2 c hc
  have k1 := keep o1 hl1
  have k2 := keep o2 hl2
  simp only [List.map_append, List.map_cons] at k1 k2
  exact h (u.map f) (v1.map f) (v2.map f) (rep a) x y (over hu) (over hv1) (over hv2) (hrep a ha) hcomp k1 k2

/-- **Certificates are sound**: if the finite set `S` of expressions contains the model, is closed
    under live normalised derivatives by every attributed symbol and no state of `S` lets two
    competing symbols continue, then the model satisfies UPA — for every prefix, of any length. -/
theorem upa_certificate_sound (sigma : List QN) (v11 : Bool) (p : Particle) (S : List (Rx Leaf))
    (h : Rx.certOk mm (symsOf sigma p) (compete v11 p) p.toRx S = true) : UPA sigma v11 p :=
  (upa_iff_rx sigma v11 p).mpr (Rx.certOk_sound mm _ _ _ S h)

/-- **Witnesses are sound**: a validated witness `(u, c1, c2)` is a real violation of UPA. -/
theorem upa_witness_sound (sigma : List QN) (v11 : Bool) (p : Particle) (u : List ASym) (c1 c2 : ASym)
    (h : Rx.witnessOk mm (symsOf sigma p) (compete v11 p) p.toRx u c1 c2 = true) : ¬ UPA sigma v11 p :=
  fun hu => Rx.witnessOk_sound mm _ _ _ u c1 c2 h ((upa_iff_rx sigma v11 p).mp hu)

/-- The oracle's positive answer is a proof of UPA (whatever the fuel). -/
theorem upaOracle_det_sound (sigma : List QN) (v11 : Bool) (p : Particle) (fuel : Nat) (S : List (Rx Leaf))
    (h : upaOracle sigma v11 p fuel = .cert S) : UPA sigma v11 p :=
  (upa_iff_rx sigma v11 p).mpr (Rx.upaCheck_cert mm _ _ _ fuel S h)

/-- The oracle's negative answer is a refutation of UPA. -/
theorem upaOracle_nondet_sound (sigma : List QN) (v11 : Bool) (p : Particle) (fuel : Nat)
    (u : List ASym) (c1 c2 : ASym)
    (h : upaOracle sigma v11 p fuel = .witness u c1 c2) : ¬ UPA sigma v11 p :=
  fun hu => Rx.upaCheck_witness mm _ _ _ fuel u c1 c2 h ((upa_iff_rx sigma v11 p).mp hu)

/-- `edcCheck` decides Element Declarations Consistent. -/
theorem edc_spec (T : TypeTable) (p : Particle) : edcCheck T p = true ↔ EDC T p := by
  simp only [edcCheck, EDC, List.all_eq_true, Bool.or_eq_true, bne_iff_ne, beq_iff_eq]
  constructor
  · intro h d1 h1 d2 h2 hn
    rcases h d1 h1 d2 h2 with h | h
    · exact absurd hn h
    · exact h
  · intro h d1 h1 d2 h2
    by_cases hn : d1.1 = d2.1
    · exact .inr (h d1 h1 d2 h2 hn)
    · exact .inl hn

/-! ### M: what holds for every model -/

/-- An accepted model has no two (visited) element particles with the same name and different types:
    the EDC clause "two same-named elements have different types ⇒ the build fails", for both XSD
    versions, every shape and size of model.  (`M.visited p` are the particles `check_model` visits,
    i.e. those not below a `maxOccurs = 0` item.) -/
theorem checkModel_accepts_edc_direct (M : Ctx) (p : Particle) (h : M.accepts p = true) :
    ∀ v1 ∈ (M.visited p).map (·.1), ∀ v2 ∈ (M.visited p).map (·.1),
      M.isElem v1 = true → M.isElem v2 = true →
      (M.info v1).name = (M.info v2).name → (M.info v1).ty = (M.info v2).ty :=
  accepts_edc_direct M p h

theorem tableCovers_spec {M : Ctx} {T : TypeTable} {p : Particle} (h : M.tableCovers T p = true) :
    ∀ i ∈ (M.visited p).map (·.1), M.isElem i = true →
      ((M.info i).name, (M.info i).ty) ∈ declsOf T p ∧ ∀ s ∈ (M.info i).subs, s ∈ declsOf T p := by
  intro i hi he
  simp only [Ctx.tableCovers, List.all_eq_true] at h
  have := h i hi
  simp only [he, Bool.not_true, Bool.false_or, Bool.and_eq_true, List.contains_iff_mem, List.all_eq_true] at this
  exact this

/-- **An EDC refusal is always right**: whenever the port of `check_model` raises "Element Declarations
    Consistent violation" — any model, any nesting, wildcards and substitution groups included, both XSD
    versions — the model does violate EDC: two declarations it contains (directly or through a substitution
    group) have the same name and different types.  Holds for the algorithm with the repair of finding C15-F4
    (`fx.edcLoop`, notes/fixes/C15-edc-loop-variable.patch) and every combination of the other repairs, and for
    the XSD 1.0 name-only test; for the code as it is the statement is FALSE when substitutes are walked:
    `checkModel_edc_loop_variable_counterexample`. -/
theorem checkModel_edc_error_sound (M : Ctx) (T : TypeTable) (p : Particle) (hT : M.tableCovers T p = true)
    (hfix : M.fx.edcLoop = true ∨ (M.v11 = false ∧ M.fx.edc10 = false)) (e pe : Nat)
    (h : (M.checkModel p).err = some (.edc e pe)) : ¬ EDC T p := by
  obtain ⟨he, hpe, hc⟩ := checkModel_edc_pair M p e pe h
  intro hedc
  unfold Ctx.consistent at hc
  by_cases hel : (M.isElem e && M.isElem pe) = true
  · simp only [hel, Bool.not_true, Bool.false_eq_true, if_false] at hc
    simp only [Bool.and_eq_true] at hel
    obtain ⟨da, sa⟩ := tableCovers_spec hT e he hel.1
    obtain ⟨db, sb⟩ := tableCovers_spec hT pe hpe hel.2
    by_cases hv : (!M.v11 && !M.fx.edc10) = true
    · simp only [hv, if_true, Bool.or_eq_false_iff, bne_eq_false_iff_eq, beq_eq_false_iff_ne] at hc
      exact hc.2 (hedc _ da _ db hc.1)
    · simp only [hv, Bool.false_eq_true, if_false] at hc
      split at hc
      · rename_i hn
        have : (M.info e).ty = (M.info pe).ty := hedc _ da _ db (by simpa using hn)
        simp [this] at hc
      · split at hc
        · rename_i e1 hf
          have hm := sa e1 (List.mem_of_find?_eq_some hf)
          have hn := List.find?_some hf
          have : e1.2 = (M.info pe).ty := hedc _ hm _ db (by simpa using hn)
          simp [this] at hc
        · split at hc
          · rename_i e2 hf
            have hm := sb e2 (List.mem_of_find?_eq_some hf)
            have hn := List.find?_some hf
            have hn' : e2.1 = (M.info e).name := by simpa using hn
            have : (M.info e).ty = e2.2 := hedc _ da _ hm hn'.symm
            have hl : M.fx.edcLoop = true := by
              rcases hfix with hf | ⟨h1, h2⟩
              · exact hf
              · simp [h1, h2] at hv
            simp [this, hl] at hc
          · cases hc
  · simp [hel] at hc

/-- **A UPA refusal always concerns two overlapping particles**: whenever the port of `check_model` raises a
    UPA error (either message) — any model, any nesting, both XSD versions, every variant `M.fx` — the two
    particles it names were visited by `check_model` (not below a `maxOccurs = 0` item), `is_overlap` holds
    for them and `is_consistent` holds; they are two *different* objects unless the shared-group repair is
    in the tree (then one particle object that sits at two places of the model is compared with itself).  (The converse direction, that the competition is real, is
    false from depth 3 on: `checkModel_false_alarm_norepeat_counterexample`.) -/
theorem checkModel_upa_error_overlap (M : Ctx) (p : Particle) (pe e : Nat)
    (h : (M.checkModel p).err = some (.upa pe e) ∨ (M.checkModel p).err = some (.sameGroup pe e)) :
    pe ∈ (M.visited p).map (·.1) ∧ e ∈ (M.visited p).map (·.1) ∧ (M.fx.shared = false → pe ≠ e) ∧
      M.overlap pe e = true ∧ M.consistent e pe = true :=
  checkModel_upa_pair M p pe e h

/-- **XSD 1.1 precedence clause**: in XSD 1.1 the pinned algorithm never refuses a model because of
    an element particle competing with a wildcard — whenever `check_model` raises a UPA error (either
    form), the two particles are of the same kind; element/wildcard competitions are recorded as
    precedences instead.  Every model, every shape. -/
theorem checkModel_v11_element_wildcard_never_error (M : Ctx) (hv : M.v11 = true) (p : Particle) (pe e : Nat)
    (h : (M.checkModel p).err = some (.upa pe e) ∨ (M.checkModel p).err = some (.sameGroup pe e)) :
    M.isAny pe = M.isAny e := by
  rcases h with h | h
  · exact outer_err M hv _ _ _ _ h
  · exact outer_err M hv _ _ _ _ h

/-- The same clause on the specification side: under XSD 1.1 an element particle and a wildcard never
    compete, so they can never be the two particles of a UPA violation. -/
theorem spec_v11_element_wildcard_never_compete (p : Particle) (x y : Nat)
    (h : isAnyId p x ≠ isAnyId p y) : competing true p x y = false := by
  simp [competing, h]

/-- Spec sanity: a model in which no two different particles (particles switched off by
    `maxOccurs = 0` do not count) match a common name of Σ is deterministic, whatever its shape and
    occurrence ranges. -/
theorem upa_of_disjoint (sigma : List QN) (v11 : Bool) (p : Particle)
    (h : ∀ l1 ∈ p.liveLeaves, ∀ l2 ∈ p.liveLeaves, l1.id ≠ l2.id → ∀ a ∈ sigma,
      ¬ (l1.matches a = true ∧ l2.matches a = true)) : UPA sigma v11 p := by
  intro u v1 v2 a x y _ _ _ ha hcomp hl1 hl2
  obtain ⟨l1, hm1, hx⟩ := Rx.lang_syms_live mm p.toRx _ hl1 (a, x) (by simp)
  obtain ⟨l2, hm2, hy⟩ := Rx.lang_syms_live mm p.toRx _ hl2 (a, y) (by simp)
  rw [Particle.liveLeaves_toRx] at hm1 hm2
  simp only [mm, Bool.and_eq_true, beq_iff_eq] at hx hy
  have hne : l1.id ≠ l2.id := by
    rw [hx.1, hy.1]
    simp only [competing, Bool.and_eq_true, bne_iff_ne] at hcomp
    exact hcomp.1
  exact h l1 hm1 l2 hm2 hne a ha ⟨hx.2, hy.2⟩

/-! ### M refines S on the flat fragment

  Full statement (false for the pinned algorithm, see the counter-examples below):
      `∀ M p, M.accepts p = true ↔ UPA Σ v11 p ∧ EDC T p`.
  Proved: the statement for every `choice(e1 … en){lo,hi}` (hi ≠ 0) of plain element particles with
  arbitrary occurrence ranges (both XSD versions, no substitution groups), any number of members. -/

/-- guard of the partial refinement theorem: the model is `flatChoice r lo hi items` (root occurrence
    range well formed and not `maxOccurs = 0`), the context `M` returns the data of the items, the names
    are in Σ, the occurrence ranges are well formed and the type table lists the declaration of each item -/
structure Frag15 (M : Ctx) (sigma : List QN) (T : TypeTable) (r lo : Nat) (hi : Option Nat)
    (items : List FItem) : Prop where
  ctx : FlatCtx M r items
  rootHi : hi ≠ some 0
  rootOcc : Rx.loLeHi lo hi = true
  names : ∀ it ∈ items, it.name ∈ sigma
  occ : ∀ it ∈ items, Rx.loLeHi it.lo it.hi = true
  types : ∀ it ∈ items, T.decls it.id = [(it.name, (M.info it.id).ty)]

theorem declsOf_flat {M : Ctx} {sigma : List QN} {T : TypeTable} {r lo : Nat} {hi : Option Nat} {items : List FItem}
    (h : Frag15 M sigma T r lo hi items) (d : QN × Nat) :
    d ∈ declsOf T (flatChoice r lo hi items) ↔ ∃ it ∈ live items, d = (it.name, (M.info it.id).ty) := by
  simp only [declsOf, liveLeaves_flatChoice r lo h.rootHi, List.mem_flatMap, List.mem_map]
  constructor
  · rintro ⟨l, ⟨it, hit, rfl⟩, hd⟩
    have hmem : it ∈ items := (List.mem_filter.mp hit).1
    simp only [FItem.leaf, h.types it hmem, List.mem_singleton] at hd
    exact ⟨it, hit, hd⟩
  · rintro ⟨it, hit, rfl⟩
    have hmem : it ∈ items := (List.mem_filter.mp hit).1
    exact ⟨it.leaf, ⟨it, hit, rfl⟩, by simp [FItem.leaf, h.types it hmem]⟩

/-- **The pinned `check_model` is exact on flat choices**: for every choice group (any occurrence range
    other than `maxOccurs = 0`) whose members are plain element particles (any number of members, any
    occurrence ranges, both XSD versions), the port accepts the model iff it satisfies Unique Particle
    Attribution and Element Declarations Consistent. -/
theorem checkModel_refines_partial {M : Ctx} {sigma : List QN} {T : TypeTable} {r lo : Nat} {hi : Option Nat}
    {items : List FItem} (h : Frag15 M sigma T r lo hi items) :
    M.accepts (flatChoice r lo hi items) = true ↔
      UPA sigma M.v11 (flatChoice r lo hi items) ∧ EDC T (flatChoice r lo hi items) := by
  rw [accepts_flat h.ctx lo h.rootHi]
  have hnoany : ∀ x, isAnyId (flatChoice r lo hi items) x = false := by
    intro x
    simp only [isAnyId, flatChoice, Particle.leaves, leaves_mkParticles, List.any_eq_false, List.mem_map]
    rintro l ⟨it, _, rfl⟩
    simp [FItem.leaf, Leaf.isAny]
  have hsub : (live items).Sublist items := List.filter_sublist
  have hids : (live items).Pairwise (fun a b => a.id ≠ b.id) := h.ctx.ids.sublist hsub
  constructor
  · intro hpw
    have hdiff : ∀ it ∈ live items, ∀ jt ∈ live items, it.name = jt.name → it = jt := by
      intro it hit jt hjt hn
      apply Classical.byContradiction
      intro hne
      exact pairwise_forall (fun a b hab => Ne.symm hab) hpw it hit jt hjt hne hn
    refine ⟨?_, ?_⟩
    · apply upa_of_disjoint
      intro l1 h1 l2 h2 hne a _ ⟨hm1, hm2⟩
      rw [liveLeaves_flatChoice r lo h.rootHi] at h1 h2
      obtain ⟨it, hit, rfl⟩ := List.mem_map.mp h1
      obtain ⟨jt, hjt, rfl⟩ := List.mem_map.mp h2
      simp only [FItem.leaf, Leaf.matches, List.contains_cons, List.contains_nil, Bool.or_false,
        beq_iff_eq] at hm1 hm2
      have := hdiff it hit jt hjt (hm1.symm.trans hm2)
      subst this
      exact hne rfl
    · intro d1 h1 d2 h2 hn
      obtain ⟨it, hit, rfl⟩ := (declsOf_flat h d1).mp h1
      obtain ⟨jt, hjt, rfl⟩ := (declsOf_flat h d2).mp h2
      have := hdiff it hit jt hjt hn
      subst this
      rfl
  · rintro ⟨hupa, _⟩
    refine hids.imp_of_mem ?_
    intro it jt hit hjt hid hn
    have hm1 : it ∈ items := hsub.subset hit
    have hm2 : jt ∈ items := hsub.subset hjt
    obtain ⟨v1, v2, hv1, hv2, hl1, hl2⟩ :=
      conflict_flat (r := r) h.rootHi h.rootOcc hit hjt (h.occ it hm1) (h.occ jt hm2) hn
    have hin : it.name ∈ sigma := h.names it hm1
    refine hupa [] v1 v2 it.name it.id jt.id (fun c hc => nomatch hc)
      (fun c hc => by rw [hv1 c hc]; exact hin) (fun c hc => by rw [hv2 c hc]; exact hin) hin ?_
      (by simpa using hl1) (by simpa using hl2)
    simp [competing, hid, hnoany]

/-! ### M refines S on flat sequences with `maxOccurs = 1`

  Proved: the full statement for every `sequence(e1 … en){lo,1}` (lo ≤ 1) of plain element particles with
  arbitrary occurrence ranges (both XSD versions, no substitution groups, same name ⇒ same declaration),
  any number of members.  The `paths` dict of `check_model` keeps only the *last* particle of every name;
  `badLast_of_bad` shows that on this fragment nothing is lost by that.  The fragment cannot be widened to
  `maxOccurs > 1` (`checkModel_flat_seq_repeated_counterexample`) nor to one level of nesting, even when every
  group is `{1,1}` (`checkModel_seq_of_choices_counterexample`, `checkModel_choice_of_seqs_counterexample`). -/

/-- guard of `checkModel_refines_flat_seq_partial` -/
structure FragSeq15 (M : Ctx) (sigma : List QN) (T : TypeTable) (r lo : Nat) (items : List FItem) : Prop where
  ctx : SeqCtx M r items
  rootLo : lo ≤ 1
  names : ∀ it ∈ items, it.name ∈ sigma
  occ : ∀ it ∈ items, Rx.loLeHi it.lo it.hi = true
  types : ∀ it ∈ items, T.decls it.id = [(it.name, (M.info it.id).ty)]

theorem lang_flatSeq_iff {r lo : Nat} (hlo : lo ≤ 1) (items : List FItem) {w : List ASym} (hw : w ≠ []) :
    Rx.Lang mm (flatSeq r lo (some 1) items).toRx w ↔ SeqW items w := by
  rw [← lang_toSeq_iff]
  simp only [flatSeq, Particle.toRx, Rx.Lang]
  constructor
  · rintro ⟨ws, rfl, _, hhi, hall⟩
    simp only [Rx.leHi] at hhi
    match ws, hhi, hall, hw with
    | [], _, _, hw => simp at hw
    | [x], _, hall, _ => simpa using hall x (by simp)
    | _ :: _ :: _, hhi, _, _ => simp at hhi
  · intro h
    exact ⟨[w], by simp, by simpa using hlo, by simp [Rx.leHi], by simpa using h⟩

/-- **The pinned `check_model` is exact on flat sequences that do not repeat**: for every sequence group
    `{lo,1}` whose members are plain element particles (any number of members, any occurrence ranges, both
    XSD versions; equal names refer to the same declaration), the port accepts the model iff it satisfies
    Unique Particle Attribution and Element Declarations Consistent. -/
theorem checkModel_refines_flat_seq_partial {M : Ctx} {sigma : List QN} {T : TypeTable} {r lo : Nat}
    {items : List FItem} (h : FragSeq15 M sigma T r lo items) :
    M.accepts (flatSeq r lo (some 1) items) = true ↔
      UPA sigma M.v11 (flatSeq r lo (some 1) items) ∧ EDC T (flatSeq r lo (some 1) items) := by
  rw [h.ctx.accepts_seq lo]
  have hnoany : ∀ x, isAnyId (flatSeq r lo (some 1) items) x = false := by
    intro x
    simp only [isAnyId, flatSeq, Particle.leaves, leaves_mkParticles, List.any_eq_false, List.mem_map]
    rintro l ⟨it, _, rfl⟩
    simp [FItem.leaf, Leaf.isAny]
  constructor
  · intro hnb
    refine ⟨?_, ?_⟩
    · intro u v1 v2 a x y _ _ _ _ hcomp hl1 hl2
      have hxy : x ≠ y := by
        simp only [competing, Bool.and_eq_true, bne_iff_ne] at hcomp
        exact hcomp.1
      exact hnb (seqW_conflict items h.ctx.ids u v1 v2 a x y hxy
        ((lang_flatSeq_iff h.rootLo items (by simp)).mp hl1) ((lang_flatSeq_iff h.rootLo items (by simp)).mp hl2))
    · intro d1 h1 d2 h2 hn
      simp only [declsOf, flatSeq, Particle.liveLeaves, liveLeaves_mkParticles, List.mem_flatMap] at h1 h2
      simp only [show ((some 1 : Option Nat) == some 0) = false from rfl, Bool.false_eq_true, if_false,
        List.mem_map] at h1 h2
      obtain ⟨l1, ⟨it, hit, rfl⟩, hd1⟩ := h1
      obtain ⟨l2, ⟨jt, hjt, rfl⟩, hd2⟩ := h2
      have hi : it ∈ items := (List.mem_filter.mp hit).1
      have hj : jt ∈ items := (List.mem_filter.mp hjt).1
      simp only [FItem.leaf, h.types it hi, h.types jt hj, List.mem_singleton] at hd1 hd2
      subst hd1 hd2
      exact h.ctx.sameDecl it hi jt hj hn
  · rintro ⟨hupa, _⟩ hbad
    obtain ⟨u, v1, v2, a, x, y, hxy, w1, w2⟩ := badS_conflict h.occ h.ctx.ids hbad
    have names : ∀ {w : List ASym}, SeqW items w → OverNames sigma w := by
      intro w hw c hc
      obtain ⟨it, hit, rfl⟩ := seqW_syms hw c hc
      exact h.names it hit
    have n1 := names w1
    have n2 := names w2
    refine hupa u v1 v2 a x y (fun c hc => n1 c (by simp [hc])) (fun c hc => n1 c (by simp [hc]))
      (fun c hc => n2 c (by simp [hc])) (n1 (a, x) (by simp)) (by simp [competing, hxy, hnoany])
      ((lang_flatSeq_iff h.rootLo items (by simp)).mpr w1) ((lang_flatSeq_iff h.rootLo items (by simp)).mpr w2)

/-! ### flat sequences that repeat: refusals are sound (every variant of the algorithm)

  For `sequence(e1 … en){lo,hi}` with any root range other than `maxOccurs = 0` the port — the pinned
  algorithm and every combination of the proposed repairs — refuses only models that violate UPA: an
  in-iteration conflict (`Bad1`) or, when the sequence repeats, a wrap-around conflict (`Bad2`: the last
  particle of the pair once more, or a new iteration that starts with the first one).  The converse fails for
  the pinned algorithm (`checkModel_flat_seq_repeated_counterexample`, removed by the repeated-sequence repair:
  `checkModel_repairs_effective`) and, for names that occur three times, for every variant
  (`checkModel_flat_seq_repeated_patched_counterexample`). -/

/-- guard of `checkModel_flat_seq_refusal_sound` -/
structure FragSeqRep15 (M : Ctx) (sigma : List QN) (r lo : Nat) (rhi : Option Nat) (items : List FItem) : Prop where
  ctx : SeqCtxR M r rhi items
  rootHi0 : rhi ≠ some 0
  rootOcc : Rx.loLeHi lo rhi = true
  names : ∀ it ∈ items, it.name ∈ sigma
  occ : ∀ it ∈ items, Rx.loLeHi it.lo it.hi = true

/-- **On flat sequences a refusal is always right**: for every sequence group `{lo,hi}` (hi ≠ 0, repeating or
    not) whose members are plain element particles (any number, any occurrence ranges, both XSD versions,
    equal names referring to the same declaration) and for every variant `M.fx` of the algorithm: if the port
    of `check_model` refuses the model, the model violates Unique Particle Attribution. -/
theorem checkModel_flat_seq_refusal_sound {M : Ctx} {sigma : List QN} {r lo : Nat} {rhi : Option Nat}
    {items : List FItem} (h : FragSeqRep15 M sigma r lo rhi items)
    (hacc : M.accepts (flatSeq r lo rhi items) = false) : ¬ UPA sigma M.v11 (flatSeq r lo rhi items) := by
  intro hupa
  obtain ⟨p1, it, midl, jt, p2, hsplit, hil, hjl, hn, hb⟩ := h.ctx.refused_bad h.rootHi0 lo hacc
  obtain ⟨u, v1, v2, a, x, y, hxy, w1, w2⟩ :=
    flatSeq_conflict (r := r) (lo := lo) h.occ h.ctx.ids h.rootHi0 h.rootOcc hsplit hil hjl hn hb
  have hnoany : ∀ z, isAnyId (flatSeq r lo rhi items) z = false := by
    intro z
    simp only [isAnyId, flatSeq, Particle.leaves, leaves_mkParticles, List.any_eq_false, List.mem_map]
    rintro l ⟨k, _, rfl⟩
    simp [FItem.leaf, Leaf.isAny]
  have names : ∀ {w : List ASym}, Rx.Lang mm (flatSeq r lo rhi items).toRx w → OverNames sigma w := by
    intro w hw c hc
    obtain ⟨k, hk, rfl⟩ := lang_flatSeq_syms hw c hc
    exact h.names k hk
  have n1 := names w1
  have n2 := names w2
  exact hupa u v1 v2 a x y (fun c hc => n1 c (by simp [hc])) (fun c hc => n1 c (by simp [hc]))
    (fun c hc => n2 c (by simp [hc])) (n1 (a, x) (by simp)) (by simp [competing, hxy, hnoany]) w1 w2

/-! ### M deviates from S (known finding C15-F0): concrete witnesses, replayed on the real code -/

def qa : QN := ⟨"urn:t", "a"⟩
def qb : QN := ⟨"urn:t", "b"⟩
def qh : QN := ⟨"urn:t", "h"⟩
def qs : QN := ⟨"urn:t", "s"⟩

/-- a context for a model whose elements are references to global declarations of type 0 -/
def ctxOf (v11 : Bool) (n : Nat) (p : Particle) (infos : List (Nat × EInfo)) (fx : Fixes := {}) : Ctx :=
  mkCtx v11 n p.flatten infos [qa, qb, qh, qs] fx

/-- finite case analysis over the thirty-two combinations of the proposed repairs -/
macro "all_fx " fx:ident : tactic =>
  `(tactic| (obtain ⟨a, b, c, d, e⟩ := $fx; cases a <;> cases b <;> cases c <;> cases d <;> cases e <;> decide))

/-- `(a, a*)+` -/
def pMissed : Particle :=
  .group 0 .seq 1 none (.cons (.leaf (.elem 1 [qa]) 1 (some 1)) (.cons (.leaf (.elem 2 [qa]) 0 none) .nil))
def iMissed : List (Nat × EInfo) := [(1, { name := qa, ty := 0 }), (2, { name := qa, ty := 0 })]

/-- The pinned `check_model` accepts `(a, a*)+` although after `a` the next `a` can be attributed to
    the second particle or (new iteration) to the first one.  Both XSD versions. -/
theorem checkModel_missed_counterexample (v11 : Bool) :
    (ctxOf v11 3 pMissed iMissed).accepts pMissed = true ∧ ¬ UPA [qa] v11 pMissed := by
  refine ⟨by cases v11 <;> decide, ?_⟩
  apply upa_witness_sound [qa] v11 pMissed [(qa, 1)] (qa, 1) (qa, 2)
  cases v11 <;> decide

/-- `(b, (b{1,2}){1,2}, a)*` -/
def pAlarm : Particle :=
  .group 0 .seq 0 none (.cons (.leaf (.elem 1 [qb]) 1 (some 1))
    (.cons (.group 2 .seq 1 (some 2) (.cons (.leaf (.elem 3 [qb]) 1 (some 2)) .nil))
      (.cons (.leaf (.elem 4 [qa]) 1 (some 1)) .nil)))
def iAlarm : List (Nat × EInfo) :=
  [(1, { name := qb, ty := 0 }), (3, { name := qb, ty := 0 }), (4, { name := qa, ty := 0 })]

def isCert : Rx.UpaRes Leaf ASym → Bool | .cert _ => true | _ => false

theorem upa_of_isCert (sigma : List QN) (v11 : Bool) (p : Particle) (fuel : Nat)
    (h : isCert (upaOracle sigma v11 p fuel) = true) : UPA sigma v11 p := by
  cases hc : upaOracle sigma v11 p fuel with
  | cert S => exact upaOracle_det_sound sigma v11 p fuel S hc
  | witness u c1 c2 => rw [hc] at h; cases h
  | unknown => rw [hc] at h; cases h

/-- The pinned `check_model` refuses `(b, (b{1,2}){1,2}, a)*` (UPA error) although it is
    deterministic: the first `b` of an iteration belongs to particle 1, every further `b` to particle 3. -/
theorem checkModel_false_alarm_counterexample (fx : Fixes) :
    (ctxOf false 5 pAlarm iAlarm fx).accepts pAlarm = false ∧ UPA [qa, qb] false pAlarm ∧
      EDC [(1, [(qb, 0)]), (3, [(qb, 0)]), (4, [(qa, 0)])] pAlarm := by
  refine ⟨by all_fx fx, upa_of_isCert _ _ _ 40 (by decide), (edc_spec _ _).mp (by decide)⟩

/-- `(a | a){0,0}` -/
def pRoot0 : Particle :=
  .group 0 .choice 0 (some 0) (.cons (.leaf (.elem 1 [qa]) 1 (some 1)) (.cons (.leaf (.elem 2 [qa]) 1 (some 1)) .nil))

theorem toRx_of_maxIsZero {p : Particle} (h : p.maxIsZero = true) : ∃ r lo, p.toRx = .rep r lo (some 0) := by
  cases p with
  | leaf l lo hi =>
    simp only [Particle.maxIsZero, beq_iff_eq] at h
    subst h
    exact ⟨_, lo, rfl⟩
  | group i k lo hi ps =>
    simp only [Particle.maxIsZero, beq_iff_eq] at h
    subst h
    cases k
    · exact ⟨_, lo, rfl⟩
    · exact ⟨_, lo, rfl⟩
    · exact ⟨_, lo, rfl⟩

/-- **An empty content model is accepted, and rightly so** (former finding C15-F2, repaired by commit
    3bbfd3c): for every model whose root has `maxOccurs = 0` — whatever is inside — the port of
    `check_model` accepts, and the model satisfies UPA and EDC (its only word is the empty one). -/
theorem checkModel_empty_root_exact (M : Ctx) (sigma : List QN) (T : TypeTable) (p : Particle)
    (h : p.maxIsZero = true) : M.accepts p = true ∧ UPA sigma M.v11 p ∧ EDC T p := by
  refine ⟨by simp [Ctx.accepts, Ctx.checkModel, Ctx.visited, h, Ctx.outer], ?_, ?_⟩
  · intro u v1 v2 a x y _ _ _ _ _ hl1 _
    obtain ⟨r, lo, hr⟩ := toRx_of_maxIsZero h
    rw [hr] at hl1
    obtain ⟨ws, hw, _, hhi, _⟩ := hl1
    simp only [Rx.leHi, Nat.le_zero, List.length_eq_zero_iff] at hhi
    subst hhi
    simp at hw
  · intro d1 h1
    have : p.liveLeaves = [] := by
      cases p with
      | leaf l lo hi => simp only [Particle.maxIsZero] at h; simp [Particle.liveLeaves, h]
      | group i k lo hi ps => simp only [Particle.maxIsZero] at h; simp [Particle.liveLeaves, h]
    simp [declsOf, this] at h1

/-- the hypothesis is met by `(a | a){0,0}`, which the pinned code refused before the repair -/
example : pRoot0.maxIsZero = true ∧ (ctxOf false 3 pRoot0 iMissed).accepts pRoot0 = true := by decide

/-- `(h, s)` with `s` a *local* declaration of another type than the global `s` that substitutes `h` -/
def pEdc : Particle :=
  .group 0 .seq 1 (some 1) (.cons (.leaf (.elem 1 [qh, qs]) 1 (some 1)) (.cons (.leaf (.elem 2 [qs]) 1 (some 1)) .nil))
def iEdc : List (Nat × EInfo) :=
  [(1, { name := qh, ty := 0, direct := [qs], subs := [(qs, 0)] }), (2, { name := qs, ty := 1 })]

/-- XSD 1.0 `is_consistent` compares declared names only: a head whose substitution group contains a
    global `s : T0` next to a local `s : T1` is accepted (XSD 1.1 refuses it). -/
theorem checkModel_edc_missed_counterexample :
    (ctxOf false 3 pEdc iEdc).accepts pEdc = true ∧ (ctxOf true 3 pEdc iEdc).accepts pEdc = false ∧
      ¬ EDC [(1, [(qh, 0), (qs, 0)]), (2, [(qs, 1)])] pEdc := by
  refine ⟨by decide, by decide, ?_⟩
  rw [← edc_spec]
  decide

def qd : QN := ⟨"urn:t", "d"⟩
def qq : QN := ⟨"urn:t", "q"⟩

/-- `(h | d)` where `d` substitutes `h` through the intermediate (abstract) member `q` -/
def pTrans : Particle :=
  .group 0 .choice 1 (some 1) (.cons (.leaf (.elem 1 [qh, qd, qs]) 1 (some 1)) (.cons (.leaf (.elem 2 [qd]) 1 (some 1)) .nil))
def iTrans : List (Nat × EInfo) :=
  [(1, { name := qh, ty := 0, direct := [qq, qs], subs := [(qs, 0), (qd, 0)] }),
   (2, { name := qd, ty := 0, sgHead := some qq })]

/-- XSD 1.0 `is_overlap` looks at the *direct* substitution-group head only: a head and an indirect
    member of its substitution group are accepted side by side in a choice although both match the
    indirect member's name (XSD 1.1, which walks `iter_substitutes`, refuses the model). -/
theorem checkModel_indirect_member_missed_counterexample (fx : Fixes) :
    (ctxOf false 3 pTrans iTrans fx).accepts pTrans = true ∧ (ctxOf true 3 pTrans iTrans fx).accepts pTrans = false ∧
      ¬ UPA [qh, qd, qs] false pTrans := by
  refine ⟨by all_fx fx, by all_fx fx, ?_⟩
  exact upa_witness_sound _ false pTrans [] (qd, 1) (qd, 2) (by decide)

/-- `(G, G)` with the named group `G = (a?)` referenced twice.  As `check_model` iterates it: each
    reference (ids 1, 4) has the *same* named-group object (id 2) as its only member, whose member is
    the same element object (id 3). -/
def pSharedM : Particle :=
  let g : Particle := .group 2 .seq 1 (some 1) (.cons (.leaf (.elem 3 [qa]) 0 (some 1)) .nil)
  .group 0 .seq 1 (some 1) (.cons (.group 1 .seq 1 (some 1) (.cons g .nil))
    (.cons (.group 4 .seq 1 (some 1) (.cons g .nil)) .nil))
/-- the same content model as validation reads it (`group.content`), with one id per occurrence -/
def pSharedS : Particle :=
  .group 0 .seq 1 (some 1) (.cons (.group 1 .seq 1 (some 1) (.cons (.leaf (.elem 2 [qa]) 0 (some 1)) .nil))
    (.cons (.group 3 .seq 1 (some 1) (.cons (.leaf (.elem 4 [qa]) 0 (some 1)) .nil)) .nil))

/-- `check_model` never compares a particle object with itself (`pe is e`, models.py:141): a model that
    references one named group twice, `(a?)(a?)`, is accepted although the first `a` can be attributed
    to either occurrence; written inline (`pSharedS` as the iterated tree) it is refused. -/
theorem checkModel_shared_particle_missed_counterexample :
    (ctxOf false 5 pSharedM [(3, { name := qa, ty := 0 })]).accepts pSharedM = true ∧
      (ctxOf false 5 pSharedS [(2, { name := qa, ty := 0 }), (4, { name := qa, ty := 0 })]).accepts pSharedS = false ∧
      ¬ UPA [qa] false pSharedS := by
  refine ⟨by decide, by decide, ?_⟩
  exact upa_witness_sound _ false pSharedS [] (qa, 2) (qa, 4) (by decide)

/-! ### where exactness stops: boundary witnesses (each replayed on the real code) -/

def qc : QN := ⟨"urn:t", "c"⟩
def el (i : Nat) (q : QN) (lo : Nat := 1) (hi : Option Nat := some 1) : Particle := .leaf (.elem i [q]) lo hi
def ei (i : Nat) (q : QN) : Nat × EInfo := (i, { name := q, ty := 0 })

/-- `(a, a?){1,2}` -/
def pSeqRep : Particle := .group 0 .seq 1 (some 2) (.cons (el 1 qa) (.cons (el 2 qa 0) .nil))

/-- **Boundary of `checkModel_refines_flat_seq_partial`, root `maxOccurs > 1`**: the flat sequence
    `(a, a?){1,2}` is accepted (the same-parent shortcut `pe.is_univocal() → continue`, models.py:166, ignores
    that the parent repeats) although after `a` the next `a` belongs to the second particle or, in a new
    iteration, to the first one.  Both XSD versions. -/
theorem checkModel_flat_seq_repeated_counterexample (v11 : Bool) :
    (ctxOf v11 3 pSeqRep [ei 1 qa, ei 2 qa]).accepts pSeqRep = true ∧ ¬ UPA [qa] v11 pSeqRep := by
  refine ⟨by cases v11 <;> decide, ?_⟩
  apply upa_witness_sound [qa] v11 pSeqRep [(qa, 1)] (qa, 2) (qa, 1)
  cases v11 <;> decide

/-- `(a, (c? | b), b)` — every group `{1,1}` -/
def pSeqCh : Particle :=
  .group 0 .seq 1 (some 1) (.cons (el 1 qa)
    (.cons (.group 2 .choice 1 (some 1) (.cons (el 3 qc 0) (.cons (el 4 qb) .nil))) (.cons (el 5 qb) .nil)))

/-- **Boundary, one level of nesting (sequence of choices, every group `{1,1}`)**: `(a, (c? | b), b)` is
    accepted — a required particle before the choice makes `distinguishable_paths` ignore that the choice
    is emptiable — although after `a` the child `b` belongs to the `b` of the choice or to the last `b`. -/
theorem checkModel_seq_of_choices_counterexample (v11 : Bool) (fx : Fixes) :
    (ctxOf v11 6 pSeqCh [ei 1 qa, ei 3 qc, ei 4 qb, ei 5 qb] fx).accepts pSeqCh = true ∧
      ¬ UPA [qa, qb, qc] v11 pSeqCh := by
  refine ⟨by cases v11 <;> all_fx fx, ?_⟩
  apply upa_witness_sound [qa, qb, qc] v11 pSeqCh [(qa, 1)] (qb, 4) (qb, 5)
  cases v11 <;> decide

/-- `((a, a) | a)` — every group `{1,1}` -/
def pChSeq : Particle :=
  .group 0 .choice 1 (some 1) (.cons (.group 1 .seq 1 (some 1) (.cons (el 2 qa) (.cons (el 3 qa) .nil))) (.cons (el 4 qa) .nil))

/-- **Boundary, one level of nesting (choice of sequences, every group `{1,1}`)**: `((a, a) | a)` is
    accepted because `paths` is a dict keyed by name (models.py:179): when the last `a` is visited the first
    `a` has been replaced by the second one, which is distinguishable; the first and the last `a` both
    start the model. -/
theorem checkModel_choice_of_seqs_counterexample (v11 : Bool) (fx : Fixes) :
    (ctxOf v11 5 pChSeq [ei 2 qa, ei 3 qa, ei 4 qa] fx).accepts pChSeq = true ∧ ¬ UPA [qa] v11 pChSeq := by
  refine ⟨by cases v11 <;> all_fx fx, ?_⟩
  apply upa_witness_sound [qa] v11 pChSeq [] (qa, 2) (qa, 4)
  cases v11 <;> decide

/-- `(((a)?, c), a)` — no group repeats -/
def pDeep : Particle :=
  .group 0 .seq 1 (some 1) (.cons (.group 1 .seq 1 (some 1)
    (.cons (.group 2 .seq 0 (some 1) (.cons (el 3 qa) .nil)) (.cons (el 4 qc) .nil))) (.cons (el 5 qa) .nil))

/-- **Refusals are not sound even without any repetition, from depth 3 on**: `(((a)?, c), a)` is refused
    (UPA error) although the required `c` separates the two `a`. -/
theorem checkModel_false_alarm_norepeat_counterexample (fx : Fixes) :
    (ctxOf false 6 pDeep [ei 3 qa, ei 4 qc, ei 5 qa] fx).accepts pDeep = false ∧ UPA [qa, qc] false pDeep := by
  refine ⟨by all_fx fx, upa_of_isCert _ _ _ 20 (by decide)⟩

def qhd : QN := ⟨"urn:t", "hd"⟩
def qmd : QN := ⟨"urn:t", "md"⟩
def qmd2 : QN := ⟨"urn:t", "md2"⟩
/-- `(hd, b, md)`: references to the head `hd : T0`, to `b`, and to the member `md : T1` of the group of `hd`,
    which has a member `md2 : T2` of its own -/
def pLoop : Particle :=
  .group 0 .seq 1 (some 1) (.cons (.leaf (.elem 1 [qhd, qmd, qmd2]) 1 (some 1))
    (.cons (el 2 qb) (.cons (.leaf (.elem 3 [qmd, qmd2]) 1 (some 1)) .nil)))
def iLoop : List (Nat × EInfo) :=
  [(1, { name := qhd, ty := 0, direct := [qmd], subs := [(qmd, 1), (qmd2, 2)] }), ei 2 qb,
   (3, { name := qmd, ty := 1, sgHead := some qhd, direct := [qmd2], subs := [(qmd2, 2)] })]
def tLoop : TypeTable := [(1, [(qhd, 0), (qmd, 1), (qmd2, 2)]), (2, [(qb, 0)]), (3, [(qmd, 1), (qmd2, 2)])]

/-- **Finding C15-F4** — `is_consistent` lets the loop variable of its first, unsuccessful search leak into the type
    comparison: for `md` against the earlier `hd` it compares the type of `md2` (the last substitute of `md`)
    with the type of the `md` found among the substitutes of `hd`.  `(hd, b, md)` is refused with an EDC error
    although it is deterministic and consistent (and the type table covers the port's data: only the guard
    `fx.edcLoop` of `checkModel_edc_error_sound` fails).  XSD 1.1, and XSD 1.0 since the EDC repair; with the
    repair of the loop (`fx.edcLoop`) the model is accepted. -/
theorem checkModel_edc_loop_variable_counterexample :
    ((ctxOf true 4 pLoop iLoop).checkModel pLoop).err = some (.edc 3 1) ∧
    ((ctxOf false 4 pLoop iLoop { edc10 := true }).checkModel pLoop).err = some (.edc 3 1) ∧
    (ctxOf true 4 pLoop iLoop { edcLoop := true }).accepts pLoop = true ∧
    (ctxOf false 4 pLoop iLoop { edc10 := true, edcLoop := true }).accepts pLoop = true ∧
    (ctxOf true 4 pLoop iLoop).tableCovers tLoop pLoop = true ∧
    UPA [qhd, qmd, qmd2, qb] true pLoop ∧ EDC tLoop pLoop := by
  refine ⟨by decide, by decide, by decide, by decide, by decide, upa_of_isCert _ _ _ 20 (by decide),
    (edc_spec _ _).mp (by decide)⟩

/-! ### the proposed repairs (notes/fixes/C15-*.patch) on the witnesses

  The counter-examples above marked "pinned" (`ctxOf … {}`) describe the code as it is.  With the repair in
  the tree (`Ctx.fx`, detected by the harness on the real code) the port refuses them — rightly, they
  violate UPA / EDC.  The other counter-examples are stated for every combination of the repairs: no
  proposed repair touches them. -/

/-- `(a, a, a*)*` -/
def pSeqRep3 : Particle := .group 0 .seq 0 none (.cons (el 1 qa) (.cons (el 2 qa) (.cons (el 3 qa 0 none) .nil)))

/-- the models whose defect a repair removes are refused once the repair is in the tree -/
theorem checkModel_repairs_effective (v11 : Bool) (fx : Fixes) :
    (fx.repSeq = true → (ctxOf v11 3 pMissed iMissed fx).accepts pMissed = false ∧
        (ctxOf v11 3 pSeqRep [ei 1 qa, ei 2 qa] fx).accepts pSeqRep = false) ∧
    (fx.shared = true → (ctxOf v11 5 pSharedM [(3, { name := qa, ty := 0 })] fx).accepts pSharedM = false) ∧
    (fx.edc10 = true → (ctxOf v11 3 pEdc iEdc fx).accepts pEdc = false) := by
  obtain ⟨a, b, c, d, e⟩ := fx
  cases v11 <;> cases a <;> cases b <;> cases c <;> cases d <;> cases e <;> decide

/-- **What the repeated-sequence repair leaves open on flat sequences**: `(a, a, a*)*` is accepted by every
    variant although after `a a` the next `a` belongs to the third particle or, in a new iteration, to the
    first one — `paths` keeps only the last particle of a name, the third `a` is never compared with the
    first.  (On the patched tree no deviation was observed on repeated flat sequences in which no name occurs
    more than twice, and no false alarm at all; see `checkModel_flat_seq_refusal_sound` for
    the proved direction.) -/
theorem checkModel_flat_seq_repeated_patched_counterexample (v11 : Bool) (fx : Fixes) :
    (ctxOf v11 4 pSeqRep3 [ei 1 qa, ei 2 qa, ei 3 qa] fx).accepts pSeqRep3 = true ∧ ¬ UPA [qa] v11 pSeqRep3 := by
  refine ⟨by cases v11 <;> all_fx fx, ?_⟩
  apply upa_witness_sound [qa] v11 pSeqRep3 [(qa, 1), (qa, 2)] (qa, 3) (qa, 1)
  cases v11 <;> decide

def qs2 : QN := ⟨"urn:t", "s2"⟩
/-- XSD 1.0 `(h:string | s)` with a LOCAL `h` of another type and `s` a member of the substitution group of the
    global `h` -/
def pLocalHead : Particle :=
  .group 0 .choice 1 (some 1) (.cons (.leaf (.elem 1 [qh]) 1 (some 1)) (.cons (.leaf (.elem 2 [qs, qs2]) 1 (some 1)) .nil))
def iLocalHead : List (Nat × EInfo) :=
  [(1, { name := qh, ty := 1, direct := [qq, qs], headOk := false }),
   (2, { name := qs, ty := 0, sgHead := some qh, direct := [qs2], subs := [(qs2, 0)] })]

/-- XSD 1.0 `is_overlap` compares `other.substitution_group` with `self.name` whatever `self` is: a local
    element merely *named* like a substitution-group head is treated as overlapping with the members of the
    group, so `(h:string | s)` is refused although deterministic and consistent.  With the head guard of
    notes/fixes/C15-repeated-sequence.patch (`fx.head10`) it is accepted. -/
theorem checkModel_local_head_false_alarm_counterexample (fx : Fixes) :
    (ctxOf false 3 pLocalHead iLocalHead fx).accepts pLocalHead = fx.head10 ∧
      UPA [qh, qs, qs2] false pLocalHead ∧ EDC [(1, [(qh, 1)]), (2, [(qs, 0), (qs2, 0)])] pLocalHead := by
  refine ⟨by all_fx fx, upa_of_isCert _ _ _ 20 (by decide), (edc_spec _ _).mp (by decide)⟩

/-! ### non-vacuity -/

/-- a deterministic model with overlapping particles for which the oracle produces a certificate,
    and on which the pinned algorithm agrees -/
example : isCert (upaOracle [qa, qb] false pAlarm 40) = true := by decide

/-- `(a, b?, a)` : accepted by the port and certified by the oracle -/
def pOk : Particle :=
  .group 0 .seq 1 (some 1) (.cons (.leaf (.elem 1 [qa]) 1 (some 1))
    (.cons (.leaf (.elem 2 [qb]) 0 (some 1)) (.cons (.leaf (.elem 3 [qa]) 1 (some 1)) .nil)))
example : (ctxOf false 4 pOk [(1, { name := qa, ty := 0 }), (2, { name := qb, ty := 0 }), (3, { name := qa, ty := 0 })]).accepts pOk = true ∧
    UPA [qa, qb] false pOk :=
  ⟨by decide, upa_of_isCert _ _ _ 20 (by decide)⟩

/-- XSD 1.1: `(any[##any]? | a)` is a conflict in 1.0 and none in 1.1 (element takes precedence) -/
def pPrec : Particle :=
  .group 0 .choice 1 (some 1) (.cons (.leaf (.any 1 { ns := .any, tns := "urn:t" }) 0 (some 1))
    (.cons (.leaf (.elem 2 [qa]) 1 (some 1)) .nil))
example : ¬ UPA [qa] false pPrec ∧ UPA [qa] true pPrec :=
  ⟨upa_witness_sound [qa] false pPrec [] (qa, 1) (qa, 2) (by decide), upa_of_isCert _ _ _ 10 (by decide)⟩

/-- `(any[##other] | any[urn:o])` in XSD 1.1: a UPA error between two wildcards (hypotheses of
    `checkModel_v11_element_wildcard_never_error` are met) -/
def pTwoAny : Particle :=
  .group 0 .choice 1 (some 1) (.cons (.leaf (.any 1 { ns := .other, tns := "urn:t" }) 1 (some 1))
    (.cons (.leaf (.any 2 { ns := .set ["urn:o"], tns := "urn:t" }) 1 (some 1)) .nil))
example : ((ctxOf true 3 pTwoAny []).checkModel pTwoAny).err = some (.sameGroup 1 2) := by decide

/-- `(a, b?, a)`: Σ = {a, b} is complete w.r.t. Σ' = {a, b, h, s} (hypotheses of `upa_alphabet_complete`) -/
example : (∀ a ∈ [qa, qb], a ∈ [qa, qb, qh, qs]) ∧
    (∀ a ∈ [qa, qb, qh, qs], (∃ l ∈ pOk.leaves, l.matches a = true) → a ∈ [qa, qb]) := by decide

/-- `(any[##any]? | a)`: with Σ = {a, b}, every name of Σ' = {a, b, h, s} has a representative
    (hypotheses of `upa_representatives`: b represents the names the wildcard alone matches) -/
example : (∀ a ∈ [qa, qb, qh, qs], (if a = qa then qa else qb) ∈ [qa, qb]) ∧
    (∀ l ∈ pPrec.leaves, ∀ a ∈ [qa, qb, qh, qs], l.matches (if a = qa then qa else qb) = l.matches a) := by decide

/-- `(a, b)`: the hypothesis of `upa_of_disjoint` holds -/
example : ∀ l1 ∈ pOk.liveLeaves, ∀ l2 ∈ pOk.liveLeaves, l1.id ≠ l2.id → ∀ a ∈ [qb], ¬ (l1.matches a = true ∧ l2.matches a = true) := by
  decide

/-- `(a{1,2} | b? | a{0,0})*`: a member of the fragment of `checkModel_refines_partial` (guard holds),
    accepted; and `(a{1,2} | b? | a)*`: a member that is refused -/
def fragItems (hi3 : Option Nat) : List FItem := [⟨1, qa, 1, some 2⟩, ⟨2, qb, 0, some 1⟩, ⟨3, qa, 0, hi3⟩]
def fragInfos : List (Nat × EInfo) := [(1, { name := qa, ty := 0 }), (2, { name := qb, ty := 0 }), (3, { name := qa, ty := 0 })]
def fragT : TypeTable := [(1, [(qa, 0)]), (2, [(qb, 0)]), (3, [(qa, 0)])]
def fragP (hi3 : Option Nat) : Particle := flatChoice 0 0 none (fragItems hi3)
example : Frag15 (ctxOf false 4 (fragP (some 0)) fragInfos) [qa, qb] fragT 0 0 none (fragItems (some 0)) :=
  ⟨⟨by decide, by decide, by decide, by decide, by decide, by decide⟩, by decide, by decide, by decide, by decide, by decide⟩
example : (ctxOf false 4 (fragP (some 0)) fragInfos).accepts (fragP (some 0)) = true := by decide
example : Frag15 (ctxOf true 4 (fragP (some 0)) fragInfos) [qa, qb] fragT 0 0 none (fragItems (some 0)) :=
  ⟨⟨by decide, by decide, by decide, by decide, by decide, by decide⟩, by decide, by decide, by decide, by decide, by decide⟩
example : Frag15 (ctxOf false 4 (fragP (some 1)) fragInfos) [qa, qb] fragT 0 0 none (fragItems (some 1)) ∧
    (ctxOf false 4 (fragP (some 1)) fragInfos).accepts (fragP (some 1)) = false :=
  ⟨⟨⟨by decide, by decide, by decide, by decide, by decide, by decide⟩, by decide, by decide, by decide, by decide, by decide⟩,
    by decide⟩

/-- the hypotheses of `checkModel_accepts_edc_direct` are met by a model with two same-named elements -/
example : (ctxOf false 4 pOk [(1, { name := qa, ty := 0 }), (2, { name := qb, ty := 0 }), (3, { name := qa, ty := 0 })]).accepts pOk = true ∧
    (1 ∈ ((ctxOf false 4 pOk []).visited pOk).map (·.1) ∧ 3 ∈ ((ctxOf false 4 pOk []).visited pOk).map (·.1)) := by decide

/-- `(a, a?){1,2}` with the repeated-sequence repair: a member of the fragment of
    `checkModel_flat_seq_refusal_sound` that is refused (wrap-around conflict); `(a?, a)+` is a member that every
    variant refuses (in-iteration conflict) -/
def repItems : List FItem := [⟨1, qa, 1, some 1⟩, ⟨2, qa, 0, some 1⟩]
example : FragSeqRep15 (ctxOf false 3 pSeqRep [ei 1 qa, ei 2 qa] { repSeq := true }) [qa] 0 1 (some 2) repItems ∧
    pSeqRep = flatSeq 0 1 (some 2) repItems ∧
    (ctxOf false 3 pSeqRep [ei 1 qa, ei 2 qa] { repSeq := true }).accepts pSeqRep = false :=
  ⟨⟨⟨by decide, by decide, by decide, by decide, by decide, by decide, by decide, by decide, by decide,
    by decide, by decide, by decide⟩, by decide, by decide, by decide, by decide⟩, rfl, by decide⟩
def repItems2 : List FItem := [⟨1, qa, 0, some 1⟩, ⟨2, qa, 1, some 1⟩]
example (fx : Fixes) : (ctxOf false 3 (flatSeq 0 1 none repItems2) [ei 1 qa, ei 2 qa] fx).accepts (flatSeq 0 1 none repItems2) = false := by
  all_fx fx

/-- the hypothesis of `checkModel_upa_error_overlap` is met by `(((a)?, c), a)` (UPA error between particles 3 and 5) -/
example : ((ctxOf false 6 pDeep [ei 3 qa, ei 4 qc, ei 5 qa]).checkModel pDeep).err = some (.upa 3 5) := by decide

/-- the hypotheses of `checkModel_edc_error_sound` are met: XSD 1.1 refuses `(h, s:int)` with an EDC error and
    the type table covers the port's data -/
example : ((ctxOf true 3 pEdc iEdc { edcLoop := true }).checkModel pEdc).err = some (.edc 2 1) ∧
    (ctxOf true 3 pEdc iEdc { edcLoop := true }).tableCovers [(1, [(qh, 0), (qs, 0)]), (2, [(qs, 1)])] pEdc = true ∧
    (ctxOf true 3 pEdc iEdc { edcLoop := true }).fx.edcLoop = true := by decide

/-- `(a?, b, a{2,2}, a+)?` is a member of the fragment of `checkModel_refines_flat_seq_partial` (guard holds) and
    is accepted; `(a?, c?, a)` is a member that is refused -/
def seqItems : List FItem := [⟨1, qa, 0, some 1⟩, ⟨2, qb, 1, some 1⟩, ⟨3, qa, 2, some 2⟩, ⟨4, qa, 1, none⟩]
def seqInfos : List (Nat × EInfo) := [ei 1 qa, ei 2 qb, ei 3 qa, ei 4 qa]
def seqT : TypeTable := [(1, [(qa, 0)]), (2, [(qb, 0)]), (3, [(qa, 0)]), (4, [(qa, 0)])]
def seqP : Particle := flatSeq 0 0 (some 1) seqItems
example (v11 : Bool) : FragSeq15 (ctxOf v11 5 seqP seqInfos) [qa, qb] seqT 0 0 seqItems := by
  cases v11 <;>
  exact ⟨⟨by decide, by decide, by decide, by decide, by decide, by decide, by decide, by decide, by decide,
    by decide, by decide, by decide⟩, by decide, by decide, by decide, by decide⟩
example : (ctxOf false 5 seqP seqInfos).accepts seqP = true := by decide
def seqItems2 : List FItem := [⟨1, qa, 0, some 1⟩, ⟨2, qc, 0, some 1⟩, ⟨3, qa, 1, some 1⟩]
def seqP2 : Particle := flatSeq 0 1 (some 1) seqItems2
example : FragSeq15 (ctxOf false 4 seqP2 [ei 1 qa, ei 2 qc, ei 3 qa]) [qa, qc] [(1, [(qa, 0)]), (2, [(qc, 0)]), (3, [(qa, 0)])] 0 1 seqItems2 ∧
    (ctxOf false 4 seqP2 [ei 1 qa, ei 2 qc, ei 3 qa]).accepts seqP2 = false :=
  ⟨⟨⟨by decide, by decide, by decide, by decide, by decide, by decide, by decide, by decide, by decide,
    by decide, by decide, by decide⟩, by decide, by decide, by decide, by decide⟩, by decide⟩

end XsVerif.Props.C15
