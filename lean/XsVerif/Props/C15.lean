/-
  C15 — schema build accepts a content model exactly when it is deterministic.
  ONLY the specification, the property theorems and non-vacuity examples live here.

  S  `UPA Σ v11 p`  no prefix of children can be continued by one child name attributed to two
                    competing particles (attributed words = words of `p.toRx` under the marked
                    matcher `mm`; names range over the finite alphabet Σ supplied by the harness);
     `EDC T p`      declarations with the same name (directly or through substitution groups) have
                    the same type.
  O  `upaOracle` / `edcCheck`   (Model/Upa.lean), proved sound below: a `cert` answer implies UPA, a
                    `witness` answer implies ¬UPA; `unknown` (fuel) is never a verdict.
  M  `Ctx.checkModel`           (Model/CheckModel.lean), port of the pinned heuristic `check_model`.

  The full-strength statement  `∀ M p, M.accepts p = true ↔ UPA Σ v11 p ∧ EDC T p`  is FALSE for the
  pinned algorithm in both directions (known finding C15-F0): see
  `checkModel_missed_counterexample`, `checkModel_false_alarm_counterexample`,
  `checkModel_false_alarm_root_counterexample`, `checkModel_edc_missed_counterexample`,
  `checkModel_indirect_member_missed_counterexample`, `checkModel_shared_particle_missed_counterexample`.
  What is proved about M: `checkModel_refines_partial` (the equivalence holds on every flat choice of
  plain element particles), and for all models: `checkModel_accepts_edc_direct` (an accepted model has no
  two visited element particles with the same name and different types) and
  `checkModel_v11_element_wildcard_never_error` (XSD 1.1: no UPA error between an element and a wildcard).
-/
import XsVerif.Lemmas.Upa
import XsVerif.Lemmas.CheckModel
import XsVerif.Lemmas.CheckModelFlat

namespace XsVerif.Props.C15
open XsVerif XsVerif.CM XsVerif.Wildcard

/-! ### S -/

/-- the names of an attributed word lie in Σ -/
def OverNames (sigma : List QN) (w : List ASym) : Prop := ∀ c ∈ w, c.1 ∈ sigma

/-- S: Unique Particle Attribution relative to the alphabet Σ.  `u` is a sequence of children already
    attributed to particles; the next child `a` must not be attributable both to particle `x` and to a
    competing particle `y` (each choice being completable to a word of the model). -/
def UPA (sigma : List QN) (v11 : Bool) (p : Particle) : Prop :=
  ∀ (u v1 v2 : List ASym) (a : QN) (x y : Nat),
    OverNames sigma u → OverNames sigma v1 → OverNames sigma v2 → a ∈ sigma →
    competing v11 p x y = true →
    Rx.Lang mm p.toRx (u ++ (a, x) :: v1) → Rx.Lang mm p.toRx (u ++ (a, y) :: v2) → False

/-- S: Element Declarations Consistent over the declarations (name, type id) that the particles of
    the model (those not switched off by `maxOccurs = 0`) contain directly or through their
    substitution groups. -/
def EDC (T : TypeTable) (p : Particle) : Prop :=
  ∀ d1 ∈ declsOf T p, ∀ d2 ∈ declsOf T p, d1.1 = d2.1 → d1.2 = d2.2

/-! ### O is correct -/

/-- The emptiness test used by the oracle is exact: for every expression, `inhabited` holds iff the
    attributed language contains a word over the given symbols. -/
theorem inhabited_iff (syms : List ASym) (r : Rx Leaf) :
    Rx.inhabited mm syms r = true ↔ ∃ w, Rx.Over syms w ∧ Rx.Lang mm r w :=
  Rx.inhabited_iff mm syms r

/-- The state normaliser preserves the language (so exploring normalised derivatives explores the
    left quotients of the model's language). -/
theorem norm_preserves_language (r : Rx Leaf) (w : List ASym) :
    Rx.Lang mm (Rx.norm r) w ↔ Rx.Lang mm r w :=
  Rx.norm_iff mm r w

/-- The spec, stated with names, coincides with the generic automaton-level statement the
    certificate theorem is about. -/
theorem upa_iff_rx (sigma : List QN) (v11 : Bool) (p : Particle) :
    UPA sigma v11 p ↔ Rx.Upa mm (symsOf sigma p) (compete v11 p) p.toRx := by
  constructor
  · intro h u hu ⟨c1, hc1, c2, hc2, hcmp, v1, v2, hv1, hv2, hl1, hl2⟩
    obtain ⟨a, x⟩ := c1
    obtain ⟨b, y⟩ := c2
    simp only [compete, Bool.and_eq_true, beq_iff_eq] at hcmp
    obtain ⟨hab, hcomp⟩ := hcmp
    subst hab
    have names : ∀ {w : List ASym}, Rx.Over (symsOf sigma p) w → OverNames sigma w :=
      fun hw c hc => (mem_symsOf.mp (hw c hc)).1
    exact h u v1 v2 a x y (names hu) (names hv1) (names hv2) (mem_symsOf.mp hc1).1 hcomp hl1 hl2
  · intro h u v1 v2 a x y hu hv1 hv2 ha hcomp hl1 hl2
    have hn1 : ∀ c ∈ u ++ (a, x) :: v1, c.1 ∈ sigma := by
      intro c hc
      rcases List.mem_append.mp hc with hc | hc
      · exact hu c hc
      · rcases List.mem_cons.mp hc with rfl | hc
        · exact ha
        · exact hv1 c hc
    have hn2 : ∀ c ∈ u ++ (a, y) :: v2, c.1 ∈ sigma := by
      intro c hc
      rcases List.mem_append.mp hc with hc | hc
      · exact hu c hc
      · rcases List.mem_cons.mp hc with rfl | hc
        · exact ha
        · exact hv2 c hc
    have o1 := Rx.over_append.mp (lang_over_syms hl1 hn1)
    have o2 := Rx.over_append.mp (lang_over_syms hl2 hn2)
    have o1' := Rx.over_cons.mp o1.2
    have o2' := Rx.over_cons.mp o2.2
    refine h u o1.1 ⟨(a, x), o1'.1, (a, y), o2'.1, ?_, v1, v2, o1'.2, o2'.2, hl1, hl2⟩
    simp [compete, hcomp]

/-- **The alphabet only matters through the names some particle matches**: enlarging Σ by names that
    no particle of the model matches does not change UPA.  In particular, for a model without
    wildcards, Σ = the element names of the model (with their substitution members) decides UPA over
    every larger alphabet; the choice of one representative name per wildcard region remains an
    assumption of the harness. -/
theorem upa_alphabet_complete (sigma sigma' : List QN) (v11 : Bool) (p : Particle)
    (hsub : ∀ a ∈ sigma, a ∈ sigma')
    (hcov : ∀ a ∈ sigma', (∃ l ∈ p.leaves, l.matches a = true) → a ∈ sigma) :
    UPA sigma v11 p ↔ UPA sigma' v11 p := by
  have matched : ∀ {w : List ASym}, Rx.Lang mm p.toRx w → OverNames sigma' w → OverNames sigma w := by
    intro w hl ho c hc
    obtain ⟨l, hlm, hm⟩ := Rx.lang_syms mm p.toRx w hl c hc
    rw [Particle.leaves_toRx] at hlm
    simp only [mm, Bool.and_eq_true] at hm
    exact hcov c.1 (ho c hc) ⟨l, hlm, hm.2⟩
  constructor
  · intro h u v1 v2 a x y hu hv1 hv2 ha hcomp hl1 hl2
    have o1 : OverNames sigma' (u ++ (a, x) :: v1) := by
      intro c hc
      rcases List.mem_append.mp hc with hc | hc
      · exact hu c hc
      · rcases List.mem_cons.mp hc with rfl | hc
        · exact ha
        · exact hv1 c hc
    have o2 : OverNames sigma' (u ++ (a, y) :: v2) := by
      intro c hc
      rcases List.mem_append.mp hc with hc | hc
      · exact hu c hc
      · rcases List.mem_cons.mp hc with rfl | hc
        · exact ha
        · exact hv2 c hc
    have m1 := matched hl1 o1
    have m2 := matched hl2 o2
    exact h u v1 v2 a x y (fun c hc => m1 c (by simp [hc])) (fun c hc => m1 c (by simp [hc]))
      (fun c hc => m2 c (by simp [hc])) (m1 (a, x) (by simp)) hcomp hl1 hl2
  · intro h u v1 v2 a x y hu hv1 hv2 ha hcomp hl1 hl2
    exact h u v1 v2 a x y (fun c hc => hsub _ (hu c hc)) (fun c hc => hsub _ (hv1 c hc))
      (fun c hc => hsub _ (hv2 c hc)) (hsub _ ha) hcomp hl1 hl2

/-- **Representatives suffice**: let `rep` map every name of a larger alphabet Σ' to a name of Σ that
    every particle of the model treats in the same way (matches both or neither).  Then UPA relative to
    Σ implies UPA relative to Σ'.  This is the precise form of the harness' assumption "one
    representative name per region": it is an assumption only about the name-matching of the leaves,
    not about the structure of the model. -/
theorem upa_representatives (sigma sigma' : List QN) (v11 : Bool) (p : Particle) (rep : QN → QN)
    (hrep : ∀ a ∈ sigma', rep a ∈ sigma)
    (hsame : ∀ l ∈ p.leaves, ∀ a ∈ sigma', l.matches (rep a) = l.matches a)
    (h : UPA sigma v11 p) : UPA sigma' v11 p := by
  intro u v1 v2 a x y hu hv1 hv2 ha hcomp hl1 hl2
  let f : ASym → ASym := fun c => (rep c.1, c.2)
  have over : ∀ {w : List ASym}, OverNames sigma' w → OverNames sigma (w.map f) := by
    intro w hw c hc
    obtain ⟨d, hd, rfl⟩ := List.mem_map.mp hc
    exact hrep d.1 (hw d hd)
  have keep : ∀ {w : List ASym}, OverNames sigma' w → Rx.Lang mm p.toRx w → Rx.Lang mm p.toRx (w.map f) := by
    intro w hw hl
    refine Rx.lang_map mm f p.toRx w ?_ hl
    intro l hlm c hc
    rw [Particle.leaves_toRx] at hlm
    simp only [mm, f, hsame l hlm c.1 (hw c hc)]
  have o1 : OverNames sigma' (u ++ (a, x) :: v1) := by
    intro c hc
    rcases List.mem_append.mp hc with hc | hc
    · exact hu c hc
    · rcases List.mem_cons.mp hc with rfl | hc
      · exact ha
      · exact hv1 c hc
  have o2 : OverNames sigma' (u ++ (a, y) :: v2) := by
    intro c hc
    rcases List.mem_append.mp hc with hc | hc
    · exact hu c hc
    · rcases List.mem_cons.mp hc with rfl | hc
      · exact ha
      · exact hv2 c hc
  have k1 := keep o1 hl1
  have k2 := keep o2 hl2
  simp only [List.map_append, List.map_cons] at k1 k2
  exact h (u.map f) (v1.map f) (v2.map f) (rep a) x y (over hu) (over hv1) (over hv2) (hrep a ha) hcomp k1 k2

/-- **Certificates are sound**: if the finite set `S` of expressions contains the model, is closed
    under live normalised derivatives by every attributed symbol and no state of `S` lets two
    competing symbols continue, then the model satisfies UPA — for every prefix, of any length. -/
theorem upa_certificate_sound (sigma : List QN) (v11 : Bool) (p : Particle) (S : List (Rx Leaf))
    (h : Rx.certOk mm (symsOf sigma p) (compete v11 p) p.toRx S = true) : UPA sigma v11 p :=
  (upa_iff_rx sigma v11 p).mpr (Rx.certOk_sound mm _ _ _ S h)

/-- **Witnesses are sound**: a validated witness `(u, c1, c2)` is a real violation of UPA. -/
theorem upa_witness_sound (sigma : List QN) (v11 : Bool) (p : Particle) (u : List ASym) (c1 c2 : ASym)
    (h : Rx.witnessOk mm (symsOf sigma p) (compete v11 p) p.toRx u c1 c2 = true) : ¬ UPA sigma v11 p :=
  fun hu => Rx.witnessOk_sound mm _ _ _ u c1 c2 h ((upa_iff_rx sigma v11 p).mp hu)

/-- The oracle's positive answer is a proof of UPA (whatever the fuel). -/
theorem upaOracle_det_sound (sigma : List QN) (v11 : Bool) (p : Particle) (fuel : Nat) (S : List (Rx Leaf))
    (h : upaOracle sigma v11 p fuel = .cert S) : UPA sigma v11 p :=
  (upa_iff_rx sigma v11 p).mpr (Rx.upaCheck_cert mm _ _ _ fuel S h)

/-- The oracle's negative answer is a refutation of UPA. -/
theorem upaOracle_nondet_sound (sigma : List QN) (v11 : Bool) (p : Particle) (fuel : Nat)
    (u : List ASym) (c1 c2 : ASym)
    (h : upaOracle sigma v11 p fuel = .witness u c1 c2) : ¬ UPA sigma v11 p :=
  fun hu => Rx.upaCheck_witness mm _ _ _ fuel u c1 c2 h ((upa_iff_rx sigma v11 p).mp hu)

/-- `edcCheck` decides Element Declarations Consistent. -/
theorem edc_spec (T : TypeTable) (p : Particle) : edcCheck T p = true ↔ EDC T p := by
  simp only [edcCheck, EDC, List.all_eq_true, Bool.or_eq_true, bne_iff_ne, beq_iff_eq]
  constructor
  · intro h d1 h1 d2 h2 hn
    rcases h d1 h1 d2 h2 with h | h
    · exact absurd hn h
    · exact h
  · intro h d1 h1 d2 h2
    by_cases hn : d1.1 = d2.1
    · exact .inr (h d1 h1 d2 h2 hn)
    · exact .inl hn

/-! ### M: what holds for every model -/

/-- An accepted model has no two (visited) element particles with the same name and different types:
    the EDC clause "two same-named elements have different types ⇒ the build fails", for both XSD
    versions, every shape and size of model.  (`M.visited p` are the particles `check_model` visits,
    i.e. those not below a `maxOccurs = 0` item.) -/
theorem checkModel_accepts_edc_direct (M : Ctx) (p : Particle) (h : M.accepts p = true) :
    ∀ v1 ∈ (M.visited p).map (·.1), ∀ v2 ∈ (M.visited p).map (·.1),
      M.isElem v1 = true → M.isElem v2 = true →
      (M.info v1).name = (M.info v2).name → (M.info v1).ty = (M.info v2).ty :=
  accepts_edc_direct M p h

/-- **XSD 1.1 precedence clause**: in XSD 1.1 the pinned algorithm never refuses a model because of
    an element particle competing with a wildcard — whenever `check_model` raises a UPA error (either
    form), the two particles are of the same kind; element/wildcard competitions are recorded as
    precedences instead.  Every model, every shape. -/
theorem checkModel_v11_element_wildcard_never_error (M : Ctx) (hv : M.v11 = true) (p : Particle) (pe e : Nat)
    (h : (M.checkModel p).err = some (.upa pe e) ∨ (M.checkModel p).err = some (.sameGroup pe e)) :
    M.isAny pe = M.isAny e := by
  rcases h with h | h
  · exact outer_err M hv _ _ _ _ h
  · exact outer_err M hv _ _ _ _ h

/-- The same clause on the specification side: under XSD 1.1 an element particle and a wildcard never
    compete, so they can never be the two particles of a UPA violation. -/
theorem spec_v11_element_wildcard_never_compete (p : Particle) (x y : Nat)
    (h : isAnyId p x ≠ isAnyId p y) : competing true p x y = false := by
  simp [competing, h]

/-- Spec sanity: a model in which no two different particles (particles switched off by
    `maxOccurs = 0` do not count) match a common name of Σ is deterministic, whatever its shape and
    occurrence ranges. -/
theorem upa_of_disjoint (sigma : List QN) (v11 : Bool) (p : Particle)
    (h : ∀ l1 ∈ p.liveLeaves, ∀ l2 ∈ p.liveLeaves, l1.id ≠ l2.id → ∀ a ∈ sigma,
      ¬ (l1.matches a = true ∧ l2.matches a = true)) : UPA sigma v11 p := by
  intro u v1 v2 a x y _ _ _ ha hcomp hl1 hl2
  obtain ⟨l1, hm1, hx⟩ := Rx.lang_syms_live mm p.toRx _ hl1 (a, x) (by simp)
  obtain ⟨l2, hm2, hy⟩ := Rx.lang_syms_live mm p.toRx _ hl2 (a, y) (by simp)
  rw [Particle.liveLeaves_toRx] at hm1 hm2
  simp only [mm, Bool.and_eq_true, beq_iff_eq] at hx hy
  have hne : l1.id ≠ l2.id := by
    rw [hx.1, hy.1]
    simp only [competing, Bool.and_eq_true, bne_iff_ne] at hcomp
    exact hcomp.1
  exact h l1 hm1 l2 hm2 hne a ha ⟨hx.2, hy.2⟩

/-! ### M refines S on the flat fragment

  Full statement (false for the pinned algorithm, see the counter-examples below):
      `∀ M p, M.accepts p = true ↔ UPA Σ v11 p ∧ EDC T p`.
  Proved: the statement for every `choice(e1 … en){lo,hi}` (hi ≠ 0) of plain element particles with
  arbitrary occurrence ranges (both XSD versions, no substitution groups), any number of members. -/

/-- guard of the partial refinement theorem: the model is `flatChoice r lo hi items` (root occurrence
    range well formed and not `maxOccurs = 0`), the context `M` returns the data of the items, the names
    are in Σ, the occurrence ranges are well formed and the type table lists the declaration of each item -/
structure Frag15 (M : Ctx) (sigma : List QN) (T : TypeTable) (r lo : Nat) (hi : Option Nat)
    (items : List FItem) : Prop where
  ctx : FlatCtx M r items
  rootHi : hi ≠ some 0
  rootOcc : Rx.loLeHi lo hi = true
  names : ∀ it ∈ items, it.name ∈ sigma
  occ : ∀ it ∈ items, Rx.loLeHi it.lo it.hi = true
  types : ∀ it ∈ items, T.decls it.id = [(it.name, (M.info it.id).ty)]

theorem declsOf_flat {M : Ctx} {sigma : List QN} {T : TypeTable} {r lo : Nat} {hi : Option Nat} {items : List FItem}
    (h : Frag15 M sigma T r lo hi items) (d : QN × Nat) :
    d ∈ declsOf T (flatChoice r lo hi items) ↔ ∃ it ∈ live items, d = (it.name, (M.info it.id).ty) := by
  simp only [declsOf, liveLeaves_flatChoice r lo h.rootHi, List.mem_flatMap, List.mem_map]
  constructor
  · rintro ⟨l, ⟨it, hit, rfl⟩, hd⟩
    have hmem : it ∈ items := (List.mem_filter.mp hit).1
    simp only [FItem.leaf, h.types it hmem, List.mem_singleton] at hd
    exact ⟨it, hit, hd⟩
  · rintro ⟨it, hit, rfl⟩
    have hmem : it ∈ items := (List.mem_filter.mp hit).1
    exact ⟨it.leaf, ⟨it, hit, rfl⟩, by simp [FItem.leaf, h.types it hmem]⟩

/-- **The pinned `check_model` is exact on flat choices**: for every choice group (any occurrence range
    other than `maxOccurs = 0`) whose members are plain element particles (any number of members, any
    occurrence ranges, both XSD versions), the port accepts the model iff it satisfies Unique Particle
    Attribution and Element Declarations Consistent. -/
theorem checkModel_refines_partial {M : Ctx} {sigma : List QN} {T : TypeTable} {r lo : Nat} {hi : Option Nat}
    {items : List FItem} (h : Frag15 M sigma T r lo hi items) :
    M.accepts (flatChoice r lo hi items) = true ↔
      UPA sigma M.v11 (flatChoice r lo hi items) ∧ EDC T (flatChoice r lo hi items) := by
  rw [accepts_flat h.ctx lo h.rootHi]
  have hnoany : ∀ x, isAnyId (flatChoice r lo hi items) x = false := by
    intro x
    simp only [isAnyId, flatChoice, Particle.leaves, leaves_mkParticles, List.any_eq_false, List.mem_map]
    rintro l ⟨it, _, rfl⟩
    simp [FItem.leaf, Leaf.isAny]
  have hsub : (live items).Sublist items := List.filter_sublist
  have hids : (live items).Pairwise (fun a b => a.id ≠ b.id) := h.ctx.ids.sublist hsub
  constructor
  · intro hpw
    have hdiff : ∀ it ∈ live items, ∀ jt ∈ live items, it.name = jt.name → it = jt := by
      intro it hit jt hjt hn
      apply Classical.byContradiction
      intro hne
      exact pairwise_forall (fun a b hab => Ne.symm hab) hpw it hit jt hjt hne hn
    refine ⟨?_, ?_⟩
    · apply upa_of_disjoint
      intro l1 h1 l2 h2 hne a _ ⟨hm1, hm2⟩
      rw [liveLeaves_flatChoice r lo h.rootHi] at h1 h2
      obtain ⟨it, hit, rfl⟩ := List.mem_map.mp h1
      obtain ⟨jt, hjt, rfl⟩ := List.mem_map.mp h2
      simp only [FItem.leaf, Leaf.matches, List.contains_cons, List.contains_nil, Bool.or_false,
        beq_iff_eq] at hm1 hm2
      have := hdiff it hit jt hjt (hm1.symm.trans hm2)
      subst this
      exact hne rfl
    · intro d1 h1 d2 h2 hn
      obtain ⟨it, hit, rfl⟩ := (declsOf_flat h d1).mp h1
      obtain ⟨jt, hjt, rfl⟩ := (declsOf_flat h d2).mp h2
      have := hdiff it hit jt hjt hn
      subst this
      rfl
  · rintro ⟨hupa, _⟩
    refine hids.imp_of_mem ?_
    intro it jt hit hjt hid hn
    have hm1 : it ∈ items := hsub.subset hit
    have hm2 : jt ∈ items := hsub.subset hjt
    obtain ⟨v1, v2, hv1, hv2, hl1, hl2⟩ :=
      conflict_flat (r := r) h.rootHi h.rootOcc hit hjt (h.occ it hm1) (h.occ jt hm2) hn
    have hin : it.name ∈ sigma := h.names it hm1
    refine hupa [] v1 v2 it.name it.id jt.id (fun c hc => nomatch hc)
      (fun c hc => by rw [hv1 c hc]; exact hin) (fun c hc => by rw [hv2 c hc]; exact hin) hin ?_
      (by simpa using hl1) (by simpa using hl2)
    simp [competing, hid, hnoany]

/-! ### M deviates from S (known finding C15-F0): concrete witnesses, replayed on the real code -/

def qa : QN := ⟨"urn:t", "a"⟩
def qb : QN := ⟨"urn:t", "b"⟩
def qh : QN := ⟨"urn:t", "h"⟩
def qs : QN := ⟨"urn:t", "s"⟩

/-- a context for a model whose elements are references to global declarations of type 0 -/
def ctxOf (v11 : Bool) (n : Nat) (p : Particle) (infos : List (Nat × EInfo)) : Ctx :=
  mkCtx v11 n p.flatten infos [qa, qb, qh, qs]

/-- `(a, a*)+` -/
def pMissed : Particle :=
  .group 0 .seq 1 none (.cons (.leaf (.elem 1 [qa]) 1 (some 1)) (.cons (.leaf (.elem 2 [qa]) 0 none) .nil))
def iMissed : List (Nat × EInfo) := [(1, { name := qa, ty := 0 }), (2, { name := qa, ty := 0 })]

/-- The pinned `check_model` accepts `(a, a*)+` although after `a` the next `a` can be attributed to
    the second particle or (new iteration) to the first one.  Both XSD versions. -/
theorem checkModel_missed_counterexample (v11 : Bool) :
    (ctxOf v11 3 pMissed iMissed).accepts pMissed = true ∧ ¬ UPA [qa] v11 pMissed := by
  refine ⟨by cases v11 <;> decide, ?_⟩
  apply upa_witness_sound [qa] v11 pMissed [(qa, 1)] (qa, 1) (qa, 2)
  cases v11 <;> decide

/-- `(b, (b{1,2}){1,2}, a)*` -/
def pAlarm : Particle :=
  .group 0 .seq 0 none (.cons (.leaf (.elem 1 [qb]) 1 (some 1))
    (.cons (.group 2 .seq 1 (some 2) (.cons (.leaf (.elem 3 [qb]) 1 (some 2)) .nil))
      (.cons (.leaf (.elem 4 [qa]) 1 (some 1)) .nil)))
def iAlarm : List (Nat × EInfo) :=
  [(1, { name := qb, ty := 0 }), (3, { name := qb, ty := 0 }), (4, { name := qa, ty := 0 })]

def isCert : Rx.UpaRes Leaf ASym → Bool | .cert _ => true | _ => false

theorem upa_of_isCert (sigma : List QN) (v11 : Bool) (p : Particle) (fuel : Nat)
    (h : isCert (upaOracle sigma v11 p fuel) = true) : UPA sigma v11 p := by
  cases hc : upaOracle sigma v11 p fuel with
  | cert S => exact upaOracle_det_sound sigma v11 p fuel S hc
  | witness u c1 c2 => rw [hc] at h; cases h
  | unknown => rw [hc] at h; cases h

/-- The pinned `check_model` refuses `(b, (b{1,2}){1,2}, a)*` (UPA error) although it is
    deterministic: the first `b` of an iteration belongs to particle 1, every further `b` to particle 3. -/
theorem checkModel_false_alarm_counterexample :
    (ctxOf false 5 pAlarm iAlarm).accepts pAlarm = false ∧ UPA [qa, qb] false pAlarm ∧
      EDC [(1, [(qb, 0)]), (3, [(qb, 0)]), (4, [(qa, 0)])] pAlarm := by
  refine ⟨by decide, upa_of_isCert _ _ _ 40 (by decide), (edc_spec _ _).mp (by decide)⟩

/-- `(a | a){0,0}` -/
def pRoot0 : Particle :=
  .group 0 .choice 0 (some 0) (.cons (.leaf (.elem 1 [qa]) 1 (some 1)) (.cons (.leaf (.elem 2 [qa]) 1 (some 1)) .nil))

/-- The `maxOccurs = 0` skip is applied to nested particles only: a *root* group with `maxOccurs = 0`
    (an empty content model) is still refused when its members overlap. -/
theorem checkModel_false_alarm_root_counterexample :
    (ctxOf false 3 pRoot0 iMissed).accepts pRoot0 = false ∧ UPA [qa] false pRoot0 := by
  refine ⟨by decide, upa_of_isCert _ _ _ 10 (by decide)⟩

/-- with the proposed repair (notes/fixes/C15-root-maxoccurs-zero.patch) the same model is accepted -/
example : ({ ctxOf false 3 pRoot0 iMissed with skipEmptyRoot := true }).accepts pRoot0 = true := by decide

/-- `(h, s)` with `s` a *local* declaration of another type than the global `s` that substitutes `h` -/
def pEdc : Particle :=
  .group 0 .seq 1 (some 1) (.cons (.leaf (.elem 1 [qh, qs]) 1 (some 1)) (.cons (.leaf (.elem 2 [qs]) 1 (some 1)) .nil))
def iEdc : List (Nat × EInfo) :=
  [(1, { name := qh, ty := 0, direct := [qs], subs := [(qs, 0)] }), (2, { name := qs, ty := 1 })]

/-- XSD 1.0 `is_consistent` compares declared names only: a head whose substitution group contains a
    global `s : T0` next to a local `s : T1` is accepted (XSD 1.1 refuses it). -/
theorem checkModel_edc_missed_counterexample :
    (ctxOf false 3 pEdc iEdc).accepts pEdc = true ∧ (ctxOf true 3 pEdc iEdc).accepts pEdc = false ∧
      ¬ EDC [(1, [(qh, 0), (qs, 0)]), (2, [(qs, 1)])] pEdc := by
  refine ⟨by decide, by decide, ?_⟩
  rw [← edc_spec]
  decide

def qd : QN := ⟨"urn:t", "d"⟩
def qq : QN := ⟨"urn:t", "q"⟩

/-- `(h | d)` where `d` substitutes `h` through the intermediate (abstract) member `q` -/
def pTrans : Particle :=
  .group 0 .choice 1 (some 1) (.cons (.leaf (.elem 1 [qh, qd, qs]) 1 (some 1)) (.cons (.leaf (.elem 2 [qd]) 1 (some 1)) .nil))
def iTrans : List (Nat × EInfo) :=
  [(1, { name := qh, ty := 0, direct := [qq, qs], subs := [(qs, 0), (qd, 0)] }),
   (2, { name := qd, ty := 0, sgHead := some qq })]

/-- XSD 1.0 `is_overlap` looks at the *direct* substitution-group head only: a head and an indirect
    member of its substitution group are accepted side by side in a choice although both match the
    indirect member's name (XSD 1.1, which walks `iter_substitutes`, refuses the model). -/
theorem checkModel_indirect_member_missed_counterexample :
    (ctxOf false 3 pTrans iTrans).accepts pTrans = true ∧ (ctxOf true 3 pTrans iTrans).accepts pTrans = false ∧
      ¬ UPA [qh, qd, qs] false pTrans := by
  refine ⟨by decide, by decide, ?_⟩
  exact upa_witness_sound _ false pTrans [] (qd, 1) (qd, 2) (by decide)

/-- `(G, G)` with the named group `G = (a?)` referenced twice.  As `check_model` iterates it: each
    reference (ids 1, 4) has the *same* named-group object (id 2) as its only member, whose member is
    the same element object (id 3). -/
def pSharedM : Particle :=
  let g : Particle := .group 2 .seq 1 (some 1) (.cons (.leaf (.elem 3 [qa]) 0 (some 1)) .nil)
  .group 0 .seq 1 (some 1) (.cons (.group 1 .seq 1 (some 1) (.cons g .nil))
    (.cons (.group 4 .seq 1 (some 1) (.cons g .nil)) .nil))
/-- the same content model as validation reads it (`group.content`), with one id per occurrence -/
def pSharedS : Particle :=
  .group 0 .seq 1 (some 1) (.cons (.group 1 .seq 1 (some 1) (.cons (.leaf (.elem 2 [qa]) 0 (some 1)) .nil))
    (.cons (.group 3 .seq 1 (some 1) (.cons (.leaf (.elem 4 [qa]) 0 (some 1)) .nil)) .nil))

/-- `check_model` never compares a particle object with itself (`pe is e`, models.py:141): a model that
    references one named group twice, `(a?)(a?)`, is accepted although the first `a` can be attributed
    to either occurrence; written inline (`pSharedS` as the iterated tree) it is refused. -/
theorem checkModel_shared_particle_missed_counterexample :
    (ctxOf false 5 pSharedM [(3, { name := qa, ty := 0 })]).accepts pSharedM = true ∧
      (ctxOf false 5 pSharedS [(2, { name := qa, ty := 0 }), (4, { name := qa, ty := 0 })]).accepts pSharedS = false ∧
      ¬ UPA [qa] false pSharedS := by
  refine ⟨by decide, by decide, ?_⟩
  exact upa_witness_sound _ false pSharedS [] (qa, 2) (qa, 4) (by decide)

/-! ### non-vacuity -/

/-- a deterministic model with overlapping particles for which the oracle produces a certificate,
    and on which the pinned algorithm agrees -/
example : isCert (upaOracle [qa, qb] false pAlarm 40) = true := by decide

/-- `(a, b?, a)` : accepted by the port and certified by the oracle -/
def pOk : Particle :=
  .group 0 .seq 1 (some 1) (.cons (.leaf (.elem 1 [qa]) 1 (some 1))
    (.cons (.leaf (.elem 2 [qb]) 0 (some 1)) (.cons (.leaf (.elem 3 [qa]) 1 (some 1)) .nil)))
example : (ctxOf false 4 pOk [(1, { name := qa, ty := 0 }), (2, { name := qb, ty := 0 }), (3, { name := qa, ty := 0 })]).accepts pOk = true ∧
    UPA [qa, qb] false pOk :=
  ⟨by decide, upa_of_isCert _ _ _ 20 (by decide)⟩

/-- XSD 1.1: `(any[##any]? | a)` is a conflict in 1.0 and none in 1.1 (element takes precedence) -/
def pPrec : Particle :=
  .group 0 .choice 1 (some 1) (.cons (.leaf (.any 1 { ns := .any, tns := "urn:t" }) 0 (some 1))
    (.cons (.leaf (.elem 2 [qa]) 1 (some 1)) .nil))
example : ¬ UPA [qa] false pPrec ∧ UPA [qa] true pPrec :=
  ⟨upa_witness_sound [qa] false pPrec [] (qa, 1) (qa, 2) (by decide), upa_of_isCert _ _ _ 10 (by decide)⟩

/-- `(any[##other] | any[urn:o])` in XSD 1.1: a UPA error between two wildcards (hypotheses of
    `checkModel_v11_element_wildcard_never_error` are met) -/
def pTwoAny : Particle :=
  .group 0 .choice 1 (some 1) (.cons (.leaf (.any 1 { ns := .other, tns := "urn:t" }) 1 (some 1))
    (.cons (.leaf (.any 2 { ns := .set ["urn:o"], tns := "urn:t" }) 1 (some 1)) .nil))
example : ((ctxOf true 3 pTwoAny []).checkModel pTwoAny).err = some (.sameGroup 1 2) := by decide

/-- `(a, b?, a)`: Σ = {a, b} is complete w.r.t. Σ' = {a, b, h, s} (hypotheses of `upa_alphabet_complete`) -/
example : (∀ a ∈ [qa, qb], a ∈ [qa, qb, qh, qs]) ∧
    (∀ a ∈ [qa, qb, qh, qs], (∃ l ∈ pOk.leaves, l.matches a = true) → a ∈ [qa, qb]) := by decide

/-- `(any[##any]? | a)`: with Σ = {a, b}, every name of Σ' = {a, b, h, s} has a representative
    (hypotheses of `upa_representatives`: b represents the names the wildcard alone matches) -/
example : (∀ a ∈ [qa, qb, qh, qs], (if a = qa then qa else qb) ∈ [qa, qb]) ∧
    (∀ l ∈ pPrec.leaves, ∀ a ∈ [qa, qb, qh, qs], l.matches (if a = qa then qa else qb) = l.matches a) := by decide

/-- `(a, b)`: the hypothesis of `upa_of_disjoint` holds -/
example : ∀ l1 ∈ pOk.liveLeaves, ∀ l2 ∈ pOk.liveLeaves, l1.id ≠ l2.id → ∀ a ∈ [qb], ¬ (l1.matches a = true ∧ l2.matches a = true) := by
  decide

/-- `(a{1,2} | b? | a{0,0})*`: a member of the fragment of `checkModel_refines_partial` (guard holds),
    accepted; and `(a{1,2} | b? | a)*`: a member that is refused -/
def fragItems (hi3 : Option Nat) : List FItem := [⟨1, qa, 1, some 2⟩, ⟨2, qb, 0, some 1⟩, ⟨3, qa, 0, hi3⟩]
def fragInfos : List (Nat × EInfo) := [(1, { name := qa, ty := 0 }), (2, { name := qb, ty := 0 }), (3, { name := qa, ty := 0 })]
def fragT : TypeTable := [(1, [(qa, 0)]), (2, [(qb, 0)]), (3, [(qa, 0)])]
def fragP (hi3 : Option Nat) : Particle := flatChoice 0 0 none (fragItems hi3)
example : Frag15 (ctxOf false 4 (fragP (some 0)) fragInfos) [qa, qb] fragT 0 0 none (fragItems (some 0)) :=
  ⟨⟨by decide, by decide, by decide, by decide, by decide, by decide⟩, by decide, by decide, by decide, by decide, by decide⟩
example : (ctxOf false 4 (fragP (some 0)) fragInfos).accepts (fragP (some 0)) = true := by decide
example : Frag15 (ctxOf true 4 (fragP (some 0)) fragInfos) [qa, qb] fragT 0 0 none (fragItems (some 0)) :=
  ⟨⟨by decide, by decide, by decide, by decide, by decide, by decide⟩, by decide, by decide, by decide, by decide, by decide⟩
example : Frag15 (ctxOf false 4 (fragP (some 1)) fragInfos) [qa, qb] fragT 0 0 none (fragItems (some 1)) ∧
    (ctxOf false 4 (fragP (some 1)) fragInfos).accepts (fragP (some 1)) = false :=
  ⟨⟨⟨by decide, by decide, by decide, by decide, by decide, by decide⟩, by decide, by decide, by decide, by decide, by decide⟩,
    by decide⟩

/-- the hypotheses of `checkModel_accepts_edc_direct` are met by a model with two same-named elements -/
example : (ctxOf false 4 pOk [(1, { name := qa, ty := 0 }), (2, { name := qb, ty := 0 }), (3, { name := qa, ty := 0 })]).accepts pOk = true ∧
    (1 ∈ ((ctxOf false 4 pOk []).visited pOk).map (·.1) ∧ 3 ∈ ((ctxOf false 4 pOk []).visited pOk).map (·.1)) := by decide

end XsVerif.Props.C15
