/-
  C20 — schema paths match instance paths; partial validation/decoding equals the full result.
  ONLY property theorems and non-vacuity examples (helper lemmas: Lemmas/Lazy.lean).

    * `find_is_governing` / `find_some_of_gov`: on a schema without substitution groups and wildcards on the
      path, where equally named children of one declaration have one type (EDC) and the content depends on the
      type only, every declaration selected by the path of child steps — in particular the first one, which
      `find` returns — has the name and the type of the declaration that governs the element.
      Dropped hypotheses: `find_subst_counterexample`, `find_wildcard_counterexample` (finding C20-F1).
    * `partial_equals_full`: validating the elements selected at depth `k` one by one against the declaration
      found by the schema path reports exactly the errors of the whole document that are owned by the selected
      parts, in the same order (when the path lookup is the governing declaration: `PathLocal`).
      `part_is_block`: the errors of each selected part form one contiguous block of the whole's errors.
    * `depth_cut_errors`, `depth_cut_data`: `max_depth = k` changes nothing above the cut.
-/
import XsVerif.Model.SchemaPaths
import XsVerif.Model.Lazy
import XsVerif.Model.PathEval
import XsVerif.Model.IdentScope
import XsVerif.Lemmas.Lazy
import XsVerif.Lemmas.PathEval

namespace XsVerif.Props.C20
open XsVerif.SchemaPaths XsVerif.Lazy XsVerif.PathEval
set_option linter.unusedSimpArgs false

/-! ### schema path lookup -/

theorem mem_dedup (l : List Decl) (y : Decl) : y ∈ dedup l ↔ y ∈ l := by
  induction l with
  | nil => simp [dedup]
  | cons x xs ih =>
    simp only [dedup, List.mem_cons, List.mem_filter, ih]
    constructor
    · rintro (h | ⟨h, _⟩)
      · exact Or.inl h
      · exact Or.inr h
    · intro h
      by_cases hy : y = x
      · exact Or.inl hy
      · rcases h with h | h
        · exact Or.inl h
        · exact Or.inr ⟨h, by simpa using hy⟩

/-- No substitution groups and no wildcards among the children of any declaration (and among globals). -/
def Plain (S : Schema) : Prop :=
  (∀ d, ∀ c ∈ S.kids d, c.name.isSome ∧ c.subst = []) ∧ (∀ g ∈ S.globals, g.name.isSome ∧ g.subst = [])

/-- Element Declarations Consistent: equally named children of one declaration have the same type. -/
def EDC (S : Schema) : Prop := ∀ d c1 c2, c1 ∈ S.kids d → c2 ∈ S.kids d → c1.name = c2.name → c1.ty = c2.ty

/-- The children of a declaration depend on its type only. -/
def TypeKids (S : Schema) : Prop := ∀ d1 d2 : Decl, d1.ty = d2.ty → S.kids d1 = S.kids d2

/-- Global element names are unique. -/
def GlobalsUnique (S : Schema) : Prop := ∀ g1 ∈ S.globals, ∀ g2 ∈ S.globals, g1.name = g2.name → g1 = g2

theorem matchName_plain {c : Decl} {n : String} (h1 : c.name.isSome) (h2 : c.subst = []) :
    matchName c n = true ↔ c.name = some n := by
  unfold matchName
  cases hn : c.name with
  | none => simp [hn] at h1
  | some x => simp [h2]

theorem step_sound (S : Schema) (hP : Plain S) (hE : EDC S) (n : String) (d gc : Decl)
    (hgc : gc ∈ S.kids d) (hgn : gc.name = some n) :
    ∀ x ∈ step S n d, x.name = gc.name ∧ x.ty = gc.ty := by
  intro x hx
  simp only [step, List.mem_filterMap] at hx
  obtain ⟨c, hc, hcx⟩ := hx
  obtain ⟨h1, h2⟩ := hP.1 d c hc
  by_cases hm : matchName c n = true
  · simp only [hm, if_true, Option.some.injEq] at hcx
    have hcn := (matchName_plain h1 h2).mp hm
    have hres : resolve S c n = c := by
      unfold resolve; rw [hcn]
    rw [hres] at hcx
    have hx' : x = c := hcx.symm
    subst hx'
    exact ⟨hcn.trans hgn.symm, hE d x gc hc hgc (hcn.trans hgn.symm)⟩
  · simp [hm] at hcx

theorem findFrom_sound (S : Schema) (hP : Plain S) (hE : EDC S) (hT : TypeKids S) :
    ∀ (ns : List String) (g gd : Decl) (cur : List Decl), govFrom S g ns = some gd →
      (∀ d ∈ cur, d.name = g.name ∧ d.ty = g.ty) →
      ∀ d ∈ findFrom S cur ns, d.name = gd.name ∧ d.ty = gd.ty
  | [], g, gd, cur, hg, hc => by
    simp only [govFrom, Option.some.injEq] at hg
    subst hg
    simpa [findFrom] using hc
  | n :: ns, g, gd, cur, hg, hc => by
    simp only [govFrom] at hg
    cases hf : (S.kids g).find? (fun c => c.name == some n) with
    | none => simp [hf] at hg
    | some gc =>
      simp only [hf] at hg
      have hgc : gc ∈ S.kids g := List.mem_of_find?_eq_some hf
      have hgn : gc.name = some n := by
        have := List.find?_some hf
        simpa using this
      simp only [findFrom]
      apply findFrom_sound S hP hE hT ns gc gd _ hg
      intro x hx
      rw [mem_dedup] at hx
      simp only [List.mem_flatMap] at hx
      obtain ⟨d, hd, hxd⟩ := hx
      have hk : S.kids d = S.kids g := hT d g (hc d hd).2
      have hgc' : gc ∈ S.kids d := hk ▸ hgc
      exact step_sound S hP hE n d gc hgc' hgn x hxd

/-- Every declaration selected by the path has the name and the type of the governing declaration. -/
theorem find_is_governing (S : Schema) (hP : Plain S) (hE : EDC S) (hT : TypeKids S) (hU : GlobalsUnique S)
    (path : List String) (gd : Decl) (hg : gov S path = some gd) :
    ∀ d ∈ findAll S path, d.name = gd.name ∧ d.ty = gd.ty := by
  cases path with
  | nil => simp [gov] at hg
  | cons r ns =>
    simp only [gov] at hg
    cases hr : globalGet S r with
    | none => simp [hr] at hg
    | some g =>
      simp only [hr] at hg
      have hgm : g ∈ S.globals := List.mem_of_find?_eq_some hr
      have hgn : g.name = some r := by
        have := List.find?_some hr
        simpa using this
      simp only [findAll]
      apply findFrom_sound S hP hE hT ns g gd _ hg
      intro d hd
      rw [mem_dedup] at hd
      simp only [List.mem_filter] at hd
      obtain ⟨h1, h2⟩ := hP.2 d hd.1
      have hdn := (matchName_plain h1 h2).mp hd.2
      have : d = g := hU d hd.1 g hgm (hdn.trans hgn.symm)
      subst this
      exact ⟨rfl, rfl⟩

theorem findFrom_nonempty (S : Schema) (hP : Plain S) (hE : EDC S) (hT : TypeKids S) :
    ∀ (ns : List String) (g gd : Decl) (cur : List Decl), govFrom S g ns = some gd →
      (∀ d ∈ cur, d.name = g.name ∧ d.ty = g.ty) → cur ≠ [] → findFrom S cur ns ≠ []
  | [], _, _, cur, _, _, hne => by simpa [findFrom] using hne
  | n :: ns, g, gd, cur, hg, hc, hne => by
    simp only [govFrom] at hg
    cases hf : (S.kids g).find? (fun c => c.name == some n) with
    | none => simp [hf] at hg
    | some gc =>
      simp only [hf] at hg
      have hgc : gc ∈ S.kids g := List.mem_of_find?_eq_some hf
      have hgn : gc.name = some n := by
        have := List.find?_some hf
        simpa using this
      simp only [findFrom]
      obtain ⟨d0, hd0⟩ := List.exists_mem_of_ne_nil cur hne
      have hk : S.kids d0 = S.kids g := hT d0 g (hc d0 hd0).2
      obtain ⟨h1, h2⟩ := hP.1 g gc hgc
      have hm : matchName gc n = true := (matchName_plain h1 h2).mpr hgn
      have hres : resolve S gc n = gc := by unfold resolve; rw [hgn]
      have hin : gc ∈ dedup (cur.flatMap (step S n)) := by
        rw [mem_dedup, List.mem_flatMap]
        refine ⟨d0, hd0, ?_⟩
        simp only [step, List.mem_filterMap]
        exact ⟨gc, hk ▸ hgc, by simp [hm, hres]⟩
      apply findFrom_nonempty S hP hE hT ns gc gd _ hg
      · intro x hx
        rw [mem_dedup, List.mem_flatMap] at hx
        obtain ⟨d, hd, hxd⟩ := hx
        have hk' : S.kids d = S.kids g := hT d g (hc d hd).2
        exact step_sound S hP hE n d gc (hk' ▸ hgc) hgn x hxd
      · exact List.ne_nil_of_mem hin

/-- …and the lookup does find something: `find` returns a declaration with the governing name and type. -/
theorem find_some_of_gov (S : Schema) (hP : Plain S) (hE : EDC S) (hT : TypeKids S) (hU : GlobalsUnique S)
    (path : List String) (gd : Decl) (hg : gov S path = some gd) :
    ∃ d, find S path = some d ∧ d.name = gd.name ∧ d.ty = gd.ty := by
  have hall := find_is_governing S hP hE hT hU path gd hg
  have hne : findAll S path ≠ [] := by
    cases path with
    | nil => simp [gov] at hg
    | cons r ns =>
      simp only [gov] at hg
      cases hr : globalGet S r with
      | none => simp [hr] at hg
      | some g =>
        simp only [hr] at hg
        have hgm : g ∈ S.globals := List.mem_of_find?_eq_some hr
        have hgn : g.name = some r := by
          have := List.find?_some hr
          simpa using this
        obtain ⟨h1, h2⟩ := hP.2 g hgm
        have hm : matchName g r = true := (matchName_plain h1 h2).mpr hgn
        have hin : g ∈ dedup (S.globals.filter fun g => matchName g r) := by
          rw [mem_dedup, List.mem_filter]; exact ⟨hgm, hm⟩
        simp only [findAll]
        apply findFrom_nonempty S hP hE hT ns g gd _ hg
        · intro d hd
          rw [mem_dedup] at hd
          simp only [List.mem_filter] at hd
          obtain ⟨k1, k2⟩ := hP.2 d hd.1
          have hdn := (matchName_plain k1 k2).mp hd.2
          have : d = g := hU d hd.1 g hgm (hdn.trans hgn.symm)
          subst this
          exact ⟨rfl, rfl⟩
        · exact List.ne_nil_of_mem hin
  cases hfa : findAll S path with
  | nil => exact absurd hfa hne
  | cons d rest =>
    refine ⟨d, by simp [find, hfa], hall d (by simp [hfa])⟩

/-! witnesses -/

def dInt : Nat := 1
def dShort : Nat := 2
def gH : Decl := ⟨1, some "h", ["m"], [], dInt⟩
def gM : Decl := ⟨2, some "m", [], [], dShort⟩
def gS : Decl := ⟨3, some "s", [], [], 10⟩
def refH : Decl := ⟨4, some "h", ["m"], [], dInt⟩
def gW : Decl := ⟨5, some "w", [], [], 11⟩
def anyW : Decl := ⟨6, none, [], ["h", "m", "zz"], 0⟩
def gR : Decl := ⟨7, some "r", [], [], 12⟩
def lA : Decl := ⟨8, some "a", [], [], 13⟩
def lX1 : Decl := ⟨9, some "x", [], [], dInt⟩
def lB : Decl := ⟨10, some "b", [], [], 14⟩
def lX2 : Decl := ⟨11, some "x", [], [], dShort⟩

/-- s(h+) with m substituting h; w(any*); r(a(x:int), b(x:short)) — one local name, two types -/
def wS : Schema where
  globals := [gH, gM, gS, gW, gR]
  kids := fun d => if d.id = 3 then [refH] else if d.id = 5 then [anyW] else if d.id = 7 then [lA, lB]
                   else if d.id = 8 then [lX1] else if d.id = 10 then [lX2] else []

/-- non-vacuity: repeated local name `x` with different types in different contexts is looked up correctly -/
example : find wS ["r", "a", "x"] = some lX1 ∧ find wS ["r", "b", "x"] = some lX2 ∧
    gov wS ["r", "b", "x"] = some lX2 := by decide

/-- FULL statement without `Plain`: false.  The path of a substitution-group member selects the *head*
    (type int) while the member's own declaration (type short) governs the element (finding C20-F1). -/
theorem find_subst_counterexample :
    find wS ["s", "m"] = some refH ∧ refH.ty ≠ gM.ty ∧ getElement wS "m" ["s"] true = some refH := by decide

/-- An element admitted by a wildcard: the path selects the first global element that *matches* the name,
    which for a substitution member is again the head. -/
theorem find_wildcard_counterexample :
    find wS ["w", "m"] = some gH ∧ getElement wS "m" ["w"] true = some gH ∧
    find wS ["w", "zz"] = some anyW ∧ getElement wS "zz" ["w"] true = none := by decide


/-! ### the generated path forms: in-model evaluation on instance trees and on the schema graph -/

/-- `get_element(tag, path)` for a path that ends with a NAME (not `*`): whatever it returns carries the element's
    own name — a substitution-group member selected by `…/m` is never answered with the head's declaration
    (the `*` branch has no such test: `find_subst_counterexample`). -/
theorem getElement_name (S : Schema) (tag : String) (steps : List String) (d : Decl)
    (h : getElement S tag steps false = some d) : d.name = some tag := by
  have hg : ∀ d, globalGet S tag = some d → d.name = some tag := by
    intro d hd
    have := List.find?_some hd
    simpa using this
  unfold getElement at h
  by_cases he : steps.isEmpty = true
  · simp only [he, Bool.not_false, Bool.and_self, if_true] at h
    exact hg d h
  · simp only [he, Bool.false_and, Bool.false_eq_true, if_false] at h
    cases hf : find S steps with
    | none => simp [hf] at h
    | some x =>
      simp only [hf] at h
      by_cases hx : x.isElem = true
      · simp only [hx, Bool.not_true, Bool.false_eq_true, if_false] at h
        by_cases hn : x.name = some tag
        · simp only [hn, bne_self_eq_false, Bool.false_eq_true, if_false, Option.some.injEq] at h
          subst h; exact hn
        · have : (x.name != some tag) = true := by simpa using hn
          simp only [this, if_true] at h
          exact hg d h
      · simp [hx] at h

example : getElement wS "m" ["s", "m"] false = some gM ∧ find wS ["s", "m"] = some refH := by decide

/-- Every element selected by a path on an instance tree has a tag chain that matches the path read as a pattern
    (child step = one tag, `//` step = any tags then one, `*` = any tag, predicates only remove elements):
    the in-model reading of `resource.iterfind(path)`, absolute and relative, all step kinds. -/
theorem sel_chain_matches (abs : Bool) (t : Tree) (p : List Step) :
    ∀ c ∈ selC abs t p, (if abs then matchesB p c.1 else matchesRel t.tag p c.1) = true := by
  intro c hc
  cases p with
  | nil =>
    cases abs with
    | true => simp [selC] at hc
    | false =>
      simp only [selC, Bool.false_eq_true, if_false, List.mem_singleton] at hc
      subst hc
      simp [matchesRel]
  | cons s ss =>
    cases abs with
    | true =>
      simp only [selC, if_true] at hc
      obtain ⟨c0, hc0, suf, hx, hs⟩ := selFrom_chain ss _ c hc
      obtain ⟨mid, tg, h1, h2, h3⟩ := firstAbs_chain s t c0 hc0
      simp only [if_true, hx, h1]
      exact matchesB_step s ss mid tg suf h2 h3 hs
    | false =>
      simp only [selC, Bool.false_eq_true, if_false] at hc
      obtain ⟨c0, hc0, suf, hx, hs⟩ := selFrom_chain (s :: ss) _ c hc
      simp only [List.mem_singleton] at hc0
      subst hc0
      simp only [Bool.false_eq_true, if_false, hx]
      simp [matchesRel, hs]

/-- non-vacuity: `//x` on r(a(x), b(x), x) selects the three x in document order; `b//x[1]`-like forms select one -/
example : selI true (.node 0 "r" [] [.node 1 "a" [] [.node 2 "x" [] []], .node 3 "b" [] [.node 4 "x" [] []],
    .node 5 "x" [] []]) [⟨true, some "x", none⟩] = [2, 4, 5] ∧
    selI true (.node 0 "r" [] [.node 1 "a" [] [.node 2 "x" [] []], .node 3 "b" [] [.node 4 "x" [] []],
    .node 5 "x" [] []]) [⟨false, some "r", none⟩, ⟨true, some "x", none⟩] = [5, 2, 4] := by decide

/-- no `//` step -/
def NoDesc (p : List Step) : Prop := ∀ s ∈ p, s.desc = false

/-- the invariant of the schema-side evaluation: every current declaration has the name and the type of the
    declaration that governs SOME tag chain matching the steps done so far -/
def Inv (S : Schema) (done : List Step) (cur : List Decl) : Prop :=
  ∀ d ∈ cur, ∃ ch g, matchesB done ch = true ∧ gov S ch = some g ∧ Same d g

theorem stepS_inv (S : Schema) (hP : Plain S) (hE : EDC S) (hT : TypeKids S) (done : List Step) (hne : done ≠ [])
    (cur : List Decl) (s : Step) (_hd : s.desc = false) (hI : Inv S done cur) :
    Inv S (done ++ [s]) (stepS S s cur) := by
  intro x hx
  have hx' := mem_dedupS _ _ hx
  simp only [List.mem_flatMap] at hx'
  obtain ⟨d, hdc, hxd⟩ := hx'
  obtain ⟨ch, g, hm, hg, hsame⟩ := hI d hdc
  have hxk := mem_pickS _ _ _ hxd
  -- x is a child of d that passes the name test
  have key : x ∈ S.kids d ∧ ∃ m, x.name = some m ∧ nameOk s m = true := by
    cases hn : s.name with
    | none =>
      simp only [hn] at hxk
      obtain ⟨h1, _⟩ := hP.1 d x hxk
      obtain ⟨m, hm'⟩ := Option.isSome_iff_exists.mp h1
      exact ⟨hxk, m, hm', by simp [nameOk, hn]⟩
    | some n =>
      simp only [hn, step, List.mem_filterMap] at hxk
      obtain ⟨c, hc, hcx⟩ := hxk
      obtain ⟨h1, h2⟩ := hP.1 d c hc
      by_cases hmn : matchName c n = true
      · simp only [hmn, if_true, Option.some.injEq] at hcx
        have hcn := (matchName_plain h1 h2).mp hmn
        have hres : resolve S c n = c := by unfold resolve; rw [hcn]
        rw [hres] at hcx
        subst hcx
        exact ⟨hc, n, hcn, by simp [nameOk, hn]⟩
      · simp [hmn] at hcx
  obtain ⟨hxin, m, hxm, hok⟩ := key
  have hk : S.kids d = S.kids g := hT d g hsame.2
  have hxg : x ∈ S.kids g := hk ▸ hxin
  have hch : ch ≠ [] := by
    intro h0
    subst h0
    exact hne (matchesB_nil_right done hm)
  -- the first particle of g with that name governs; EDC gives it the type of x
  have hsome : ((S.kids g).find? (fun c => c.name == some m)).isSome = true := by
    rw [List.find?_isSome]
    exact ⟨x, hxg, by simp [hxm]⟩
  obtain ⟨gc, hgc⟩ := Option.isSome_iff_exists.mp hsome
  have hgcin : gc ∈ S.kids g := List.mem_of_find?_eq_some hgc
  have hgcn : gc.name = some m := by
    have := List.find?_some hgc
    simpa using this
  refine ⟨ch ++ [m], gc, matchesB_snoc s m hok done ch hm, ?_, ?_⟩
  · rw [gov_snoc S ch m hch, hg]
    simpa [Option.bind] using hgc
  · exact ⟨hxm.trans hgcn.symm, hE g x gc hxg hgcin (hxm.trans hgcn.symm)⟩

theorem findFromP_inv (S : Schema) (hP : Plain S) (hE : EDC S) (hT : TypeKids S) :
    ∀ (ss done : List Step) (cur : List Decl), done ≠ [] → NoDesc ss → Inv S done cur →
      Inv S (done ++ ss) (findFromP S cur ss)
  | [], done, cur, _, _, hI => by simpa [findFromP] using hI
  | s :: ss, done, cur, hne, hnd, hI => by
    simp only [findFromP]
    have h1 := stepS_inv S hP hE hT done hne cur s (hnd s (by simp)) hI
    have h2 := findFromP_inv S hP hE hT ss (done ++ [s]) (stepS S s cur) (by simp)
      (fun x hx => hnd x (by simp [hx])) h1
    simpa using h2

/-- Schema side, paths of child steps with names, `*` and positional predicates (SchemaFindParser's rule), on a schema
    without substitution groups and wildcards (Plain, EDC, type-determined content, unique globals): every
    declaration selected by the path has the name and the type of the declaration governing some tag chain that the
    path matches — the lookup never leaves the set of declarations that govern elements the path can select. -/
theorem findP_sound (S : Schema) (hP : Plain S) (hE : EDC S) (hT : TypeKids S) (hU : GlobalsUnique S)
    (p : List Step) (hnd : NoDesc p) :
    ∀ d ∈ findAllP S p, ∃ ch g, matchesB p ch = true ∧ gov S ch = some g ∧ Same d g := by
  cases p with
  | nil => intro d hd; simp [findAllP] at hd
  | cons s ss =>
    simp only [findAllP]
    have h0 : Inv S [s] (dedup (globalsS S s)) := by
      intro d hd
      have hd' := mem_pickS _ _ _ (mem_dedupS _ _ hd)
      have key : d ∈ S.globals ∧ ∃ m, d.name = some m ∧ nameOk s m = true := by
        cases hn : s.name with
        | none =>
          simp only [hn] at hd'
          obtain ⟨h1, _⟩ := hP.2 d hd'
          obtain ⟨m, hm'⟩ := Option.isSome_iff_exists.mp h1
          exact ⟨hd', m, hm', by simp [nameOk, hn]⟩
        | some n =>
          simp only [hn, List.mem_filter] at hd'
          obtain ⟨h1, h2⟩ := hP.2 d hd'.1
          exact ⟨hd'.1, n, (matchName_plain h1 h2).mp hd'.2, by simp [nameOk, hn]⟩
      obtain ⟨hdin, m, hdm, hok⟩ := key
      have hsome : (S.globals.find? (fun g => g.name == some m)).isSome = true := by
        rw [List.find?_isSome]
        exact ⟨d, hdin, by simp [hdm]⟩
      obtain ⟨g, hg⟩ := Option.isSome_iff_exists.mp hsome
      have hgin : g ∈ S.globals := List.mem_of_find?_eq_some hg
      have hgn : g.name = some m := by
        have := List.find?_some hg
        simpa using this
      have hdg : d = g := hU d hdin g hgin (hdm.trans hgn.symm)
      subst hdg
      refine ⟨[m], d, by simp [matchesB, hok], ?_, rfl, rfl⟩
      simp only [gov, globalGet, hg, govFrom]
    have h5 : Inv S (s :: ss) (findFromP S (dedup (globalsS S s)) ss) := by
      simpa using findFromP_inv S hP hE hT ss [s] _ (by simp) (fun x hx => hnd x (by simp [hx])) h0
    exact h5

/-- paths made of plain NAME steps (predicates allowed) -/
def NamesOnly (p : List Step) : Prop := ∀ s ∈ p, s.desc = false ∧ ∃ n, s.name = some n

theorem matches_unique : ∀ (p : List Step), NamesOnly p → ∀ ch ch' : List String,
    matchesB p ch = true → matchesB p ch' = true → ch = ch'
  | [], _, [], [], _, _ => rfl
  | [], _, [], _ :: _, _, h => by simp [matchesB] at h
  | [], _, _ :: _, _, h, _ => by simp [matchesB] at h
  | _ :: _, _, [], _, h, _ => by simp [matchesB] at h
  | _ :: _, _, _ :: _, [], _, h => by simp [matchesB] at h
  | s :: ss, hn, a :: as, b :: bs, h1, h2 => by
    obtain ⟨hd, n, hsn⟩ := hn s (by simp)
    simp only [matchesB, hd, Bool.false_and, Bool.or_false, Bool.and_eq_true, nameOk, hsn, beq_iff_eq] at h1 h2
    have := matches_unique ss (fun x hx => hn x (by simp [hx])) as bs h1.2 h2.2
    rw [h1.1, h2.1, this]

/-- AGREEMENT of the two evaluations (name paths, with or without positional predicates, Plain schemas): every
    declaration that the path selects on the schema has the name and the type of the declaration that governs
    every element the same path selects on the instance. -/
theorem paths_agree (S : Schema) (hP : Plain S) (hE : EDC S) (hT : TypeKids S) (hU : GlobalsUnique S)
    (t : Tree) (p : List Step) (hn : NamesOnly p) :
    ∀ c ∈ selC true t p, ∀ g, gov S c.1 = some g → ∀ d ∈ findAllP S p, Same d g := by
  intro c hc g hg d hd
  have h1 := sel_chain_matches true t p c hc
  simp only [if_true] at h1
  obtain ⟨ch, g', h2, h3, h4⟩ := findP_sound S hP hE hT hU p (fun s hs => (hn s hs).1) d hd
  have := matches_unique p hn ch c.1 h2 h1
  subst this
  rw [h3] at hg
  cases hg
  exact h4

/-- one name has one type wherever it is governed -/
def UniformNames (S : Schema) : Prop :=
  ∀ ch1 ch2 g1 g2, gov S ch1 = some g1 → gov S ch2 = some g2 → g1.name = g2.name → g1.ty = g2.ty

/-- FULL statement for paths with `*` steps (`paths_agree` without `NamesOnly`): false
    (`paths_agree_star_counterexample`, finding C20-F4).  Proved with the guards: the selected declaration carries the
    element's name (the test `get_element` makes) and the schema gives one type to one name. -/
theorem paths_agree_star_partial (S : Schema) (hP : Plain S) (hE : EDC S) (hT : TypeKids S) (hU : GlobalsUnique S)
    (hN : UniformNames S) (t : Tree) (p : List Step) (hnd : NoDesc p) :
    ∀ c ∈ selC true t p, ∀ g, gov S c.1 = some g → ∀ d ∈ findAllP S p, d.name = g.name → Same d g := by
  intro c _ g hg d hd hname
  obtain ⟨ch, g', _, h3, h4⟩ := findP_sound S hP hE hT hU p hnd d hd
  exact ⟨hname, h4.2.trans (hN ch c.1 g' g h3 hg (h4.1.symm.trans hname))⟩

def wStarPath : List Step := [⟨false, some "r", none⟩, ⟨false, none, none⟩, ⟨false, some "x", none⟩]
def wStarDoc : Tree := .node 0 "r" [] [.node 1 "b" [] [.node 2 "x" [] []]]

/-- `/r/*/x` on r(a(x:int), b(x:short)): the schema side answers with a's x (int) for the x inside b (short) -/
theorem paths_agree_star_counterexample :
    (selC true wStarDoc wStarPath).map (fun c => (c.1, c.2.id)) = [(["r", "b", "x"], 2)] ∧
    gov wS ["r", "b", "x"] = some lX2 ∧
    findP wS wStarPath = some lX1 ∧ lX1.name = lX2.name ∧ lX1.ty ≠ lX2.ty := by decide

/-- a path of name steps without predicates is evaluated exactly as by the child-step model of `findAll` -/
theorem findAllP_names (S : Schema) : ∀ (p : List Step) (ns : List String), (∀ s ∈ p, s.pos = none) →
    namesOf p = some ns → findAllP S p = findAll S ns := by
  have hstep : ∀ (s : Step) (n : String) (cur : List Decl), s.pos = none → s.name = some n →
      stepS S s cur = dedup (cur.flatMap (step S n)) := by
    intro s n cur h1 h2
    have : kidsS S s = step S n := by
      funext d
      simp only [kidsS, h1, h2, pickS]
    simp only [stepS, this]
  have hfrom : ∀ (p : List Step) (ns : List String) (cur : List Decl), (∀ s ∈ p, s.pos = none) →
      namesOf p = some ns → findFromP S cur p = findFrom S cur ns := by
    intro p
    induction p with
    | nil =>
      intro ns cur _ h
      simp only [namesOf, Option.some.injEq] at h
      subst h; rfl
    | cons s ss ih =>
      intro ns cur hp h
      simp only [namesOf] at h
      cases hn : s.name with
      | none => simp [hn] at h
      | some n =>
        cases hr : namesOf ss with
        | none => simp [hn, hr] at h
        | some ms =>
          simp only [hn, hr] at h
          by_cases hd : s.desc = true
          · simp [hd] at h
          · simp only [hd, Bool.false_eq_true, if_false, Option.some.injEq] at h
            subst h
            simp only [findFromP, findFrom, hstep s n cur (hp s (by simp)) hn]
            exact ih ms _ (fun x hx => hp x (by simp [hx])) hr
  intro p ns hp h
  cases p with
  | nil =>
    simp only [namesOf, Option.some.injEq] at h
    subst h; rfl
  | cons s ss =>
    simp only [namesOf] at h
    cases hn : s.name with
    | none => simp [hn] at h
    | some n =>
      cases hr : namesOf ss with
      | none => simp [hn, hr] at h
      | some ms =>
        simp only [hn, hr] at h
        by_cases hd : s.desc = true
        · simp [hd] at h
        · simp only [hd, Bool.false_eq_true, if_false, Option.some.injEq] at h
          subst h
          simp only [findAllP, findAll, globalsS, hn, hp s (by simp), pickS]
          exact hfrom ss ms _ (fun x hx => hp x (by simp [hx])) hr

/-- non-vacuity of `paths_agree` / `findP_sound`: positional predicates on both sides, one local name with two types -/
example : findAllP wS [⟨false, some "r", none⟩, ⟨false, some "b", some 2⟩, ⟨false, some "x", some 1⟩] = [lX2] ∧
    selI true (.node 0 "r" [] [.node 1 "b" [] [], .node 2 "b" [] [.node 3 "x" [] []]])
      [⟨false, some "r", none⟩, ⟨false, some "b", some 2⟩, ⟨false, some "x", some 1⟩] = [3] := by decide


/-! ### identity constraints in a path-driven run -/

section Ident
open XsVerif.IdentScope

theorem loop_group (isKey : Bool) (s : Nat) : ∀ (nodes : List (Nat × Option Int)) (seen : List Int) (rest : List IdentScope.Ev),
    ∃ seen2, loop isKey (some s) seen (evsOf (s, nodes) ++ rest) =
      scopeErrs isKey seen nodes ++ loop isKey (some s) seen2 rest
  | [], seen, rest => ⟨seen, by simp [evsOf, scopeErrs]⟩
  | (n, none) :: ns, seen, rest => by
    obtain ⟨seen2, h⟩ := loop_group isKey s ns seen rest
    refine ⟨seen2, ?_⟩
    simp only [evsOf, List.map_cons, List.cons_append, loop, beq_self_eq_true, if_true, scopeErrs] at h ⊢
    rw [h, List.append_assoc]
  | (n, some v) :: ns, seen, rest => by
    obtain ⟨seen2, h⟩ := loop_group isKey s ns (v :: seen) rest
    refine ⟨seen2, ?_⟩
    simp only [evsOf, List.map_cons, List.cons_append, loop, beq_self_eq_true, if_true, scopeErrs] at h ⊢
    rw [h, List.append_assoc]

theorem loop_rebind (isKey : Bool) (cur : Option Nat) (seen : List Int) (e : IdentScope.Ev) (rest : List IdentScope.Ev)
    (h : cur ≠ some e.scope) : loop isKey cur seen (e :: rest) = loop isKey (some e.scope) [] (e :: rest) := by
  have h1 : (cur == some e.scope) = false := by simpa using h
  simp only [loop, h1, Bool.false_eq_true, if_false, beq_self_eq_true, if_true]

theorem loop_eq_spec_aux (isKey : Bool) : ∀ (groups : List (Nat × List (Nat × Option Int))) (cur : Option Nat)
    (seen : List Int), (∀ g ∈ groups, cur ≠ some g.1) → groups.Pairwise (fun a b => a.1 ≠ b.1) →
    loop isKey cur seen (flatten groups) = spec isKey groups
  | [], cur, seen, _, _ => by simp [flatten, spec, loop]
  | (s, []) :: gs, cur, seen, hc, hp => by
    have ih := loop_eq_spec_aux isKey gs cur seen (fun g hg => hc g (by simp [hg])) (List.Pairwise.of_cons hp)
    simpa [flatten, spec, evsOf, scopeErrs] using ih
  | (s, n :: ns) :: gs, cur, seen, hc, hp => by
    have hcs : cur ≠ some s := hc (s, n :: ns) (by simp)
    have hfl : flatten ((s, n :: ns) :: gs) = (⟨s, n.1, n.2⟩ : IdentScope.Ev) :: (evsOf (s, ns) ++ flatten gs) := by
      simp [flatten, evsOf]
    rw [hfl, loop_rebind isKey cur seen ⟨s, n.1, n.2⟩ _ hcs]
    have hfl2 : (⟨s, n.1, n.2⟩ : IdentScope.Ev) :: (evsOf (s, ns) ++ flatten gs) = evsOf (s, n :: ns) ++ flatten gs := by
      simp [evsOf]
    rw [hfl2]
    obtain ⟨seen2, h⟩ := loop_group isKey s (n :: ns) [] (flatten gs)
    rw [h]
    have hrel : ∀ g ∈ gs, s ≠ g.1 := fun g hg => List.rel_of_pairwise_cons hp hg
    have ih := loop_eq_spec_aux isKey gs (some s) seen2
      (fun g hg => by
        have := hrel g hg
        simpa using this)
      (List.Pairwise.of_cons hp)
    rw [ih]
    simp [spec]

/-- The run over the selected parts reports, for a key / unique whose scope is an ancestor of the selection, exactly
    the errors of every scope instance taken separately over its selected nodes — provided the nodes of one scope
    instance are processed together (the instances met in processing order are pairwise distinct). -/
theorem loop_eq_spec (isKey : Bool) (groups : List (Nat × List (Nat × Option Int)))
    (hp : groups.Pairwise (fun a b => a.1 ≠ b.1)) :
    loop isKey none [] (flatten groups) = spec isKey groups :=
  loop_eq_spec_aux isKey groups none [] (fun _ _ => by simp) hp

example : spec true [(1, [(2, some 1), (3, some 2)]), (5, [(6, some 1), (7, some 3), (8, some 3), (9, none)])] =
    [Err.dup 8, Err.missing 9] := by decide

/-- a scope instance whose nodes all lie in the selected parts: the partial run reports all of its errors -/
theorem scope_inside_all (isKey : Bool) (inPart : Nat × Option Int → Bool) (seen : List Int)
    (nodes : List (Nat × Option Int)) (h : ∀ x ∈ nodes, inPart x = true) :
    scopeErrs isKey seen (nodes.filter inPart) = scopeErrs isKey seen nodes := by
  rw [List.filter_eq_self.mpr h]

/-- FULL statement "the loop as written (`loopC`: chains of ancestors, index `k`) = spec": false when the selection
    mixes depths under one scope instance.  `k` is `min - 1` instead of `min` when one chain is a prefix of the
    other, so the counter of the UNCHANGED deepest common ancestor is emptied (finding C20-F7). -/
theorem loopC_mixed_depth_counterexample :
    kOf [0, 1, 3] [0, 1] = 1 ∧
    loopC true 1 [] [] [⟨[0, 1], 2, some 5⟩, ⟨[0, 1, 3], 4, some 5⟩] = [] ∧
    spec true [(1, [(2, some 5), (4, some 5)])] = [Err.dup 4] := by decide

/-- for chains of EQUAL length that differ, `k` is the index of the first difference: the chains agree before it
    (no counter of an unchanged ancestor is emptied) -/
theorem kOf_common_prefix : ∀ (a p : List Nat), a.length = p.length →
    a.take (kOf a p) = p.take (kOf a p)
  | [], _, _ => by simp [kOf]
  | _ :: _, [], h => by simp at h
  | a :: as, p :: ps, h => by
    simp only [kOf]
    by_cases hne : (a != p) = true
    · simp [hne]
    · simp only [hne, Bool.false_eq_true, if_false]
      have hap : a = p := by simpa using hne
      have hl : as.length = ps.length := by simpa using h
      cases as with
      | nil => simp
      | cons a2 as2 =>
        cases ps with
        | nil => simp at hl
        | cons p2 ps2 =>
          have ih := kOf_common_prefix (a2 :: as2) (p2 :: ps2) hl
          simp only [Nat.add_comm 1, List.take_succ_cons, hap, ih]

end Ident

/-! ### partial validation = restriction of the whole; depth cut -/

def wValP : Val Nat Nat where
  seg := fun d t j => if d = 0 then (if j = 0 then [100] else []) else if j = 0 then [t.id] else []
  gov := fun _ _ _ => some 1

def wDocP : Tree := .node 0 "r" [] [.node 1 "a" [] [], .node 2 "a" [] []]

variable {D E : Type}

/-- The declaration used for a selected part is the one found by the schema path (`lookup`, a function of the
    element); `PathLocal`: for every selected element it is the governing declaration of the full run. -/
def PathLocal (v : Val D E) (lookup : Tree → Option D) (k : Nat) (d : D) (t : Tree) : Prop :=
  ∀ p ∈ chunkPairs v k [] (some d) t, lookup p.2.2 = p.2.1

/-- Errors of `iter_errors(doc, path)` for a select-all path of depth `k`: every selected element, in document
    order, validated against the declaration found by the schema path. -/
def partialErrors (v : Val D E) (lookup : Tree → Option D) (k : Nat) (d : D) (t : Tree) : List (List Nat × E) :=
  chunkErrs v (fun _ c => lookup c) k [] (some d) t

theorem flatMap_congr'' {α β : Type} (l : List α) (f g : α → List β) (h : ∀ a ∈ l, f a = g a) :
    l.flatMap f = l.flatMap g := by
  induction l with
  | nil => rfl
  | cons a l ih =>
    simp only [List.flatMap_cons]
    rw [h a (by simp), ih (fun b hb => h b (by simp [hb]))]

/-- Partial validation reports exactly the errors of the whole document that are owned by elements of the
    selected parts (depth ≥ k), in the same order. -/
theorem partial_equals_full (v : Val D E) (lookup : Tree → Option D) (k : Nat) (d : D) (t : Tree)
    (hloc : PathLocal v lookup k d t) :
    partialErrors v lookup k d t = (eagerT v [] d t).filter (fun e => !decide (e.1.length < k)) := by
  have h2 := deep_eq_chunks v t k [] d
  simp only [List.length_nil, Nat.zero_add] at h2
  rw [h2]
  unfold partialErrors
  rw [chunkErrs_def, chunkErrs_def]
  apply flatMap_congr''
  intro p hp
  simp only [chunkF, hloc p hp, govPick]

/-- The errors of one selected part form a contiguous block of the errors of the whole document. -/
theorem part_is_block (v : Val D E) (k : Nat) (d : D) (t : Tree)
    (p : List Nat × Option D × Tree) (hp : p ∈ chunkPairs v k [] (some d) t) :
    ∃ A B, (eagerT v [] d t).filter (fun e => !decide (e.1.length < k)) = A ++ chunkF v govPick p ++ B := by
  have h2 := deep_eq_chunks v t k [] d
  simp only [List.length_nil, Nat.zero_add] at h2
  rw [h2, chunkErrs_def]
  obtain ⟨l1, l2, hl⟩ := List.append_of_mem hp
  rw [hl]
  exact ⟨l1.flatMap (chunkF v govPick), l2.flatMap (chunkF v govPick), by simp [List.flatMap_append]⟩

example : partialErrors XsVerif.Props.C20.wValP (fun _ => some 1) 1 0 XsVerif.Props.C20.wDocP = [([0], 1), ([1], 2)] := by
  decide

/-- `max_depth = k` (k ≥ 1): exactly the errors owned by elements above the cut, in the same order. -/
theorem depth_cut_errors (v : Val D E) (d : D) (t : Tree) (k : Nat) (hk : 1 ≤ k) :
    cutT v k [] d t = (eagerT v [] d t).filter (fun e => decide (e.1.length < k)) := by
  have := cut_eq_filter v t k [] d hk
  simpa using this.symm

/-- `max_depth = k`: the decoded value is the full value with everything below level `k` replaced by the filler. -/
theorem depth_cut_data {A : Type} (v : Dec D A) (t : Tree) (k : Nat) (d : D) :
    decodeCut v k d t = prune k (decode v d t) := decode_cut_prune_aux v t k d

end XsVerif.Props.C20
