/-
  C19 — a single fault at an element with a FIXED value and mixed complex content is reported at that element.
  ONLY property theorems (continuation of Props/C19.lean); the model is Model/FixedCC.lean (port of the decision of
  XsdElement.raw_decode), tied to the library by the driver op `fixedcc` on every generated case of the family
  `fx_family` of harness/props/c19.py.

  `SpecOk` is Element Locally Valid 5.2.2 (XSD Part 1) as the library reads it: an element with a fixed value has NO
  element children, and its text is absent / empty (the fixed value is supplied) or equals the fixed string (compared
  after trimming).
-/
import XsVerif.Model.FixedCC

namespace XsVerif.Props.C19
open XsVerif.FixedCC

def SpecOk (fixed : String) (e : El) : Prop :=
  e.kids = 0 ∧ (e.text = none ∨ e.text = some "" ∨ ∃ t, e.text = some t ∧ strip t = fixed)

/-- the ported decision raises no error exactly on the elements the rule allows -/
theorem fixed_lib_iff_spec (fixed : String) (e : El) : libErr fixed e = false ↔ SpecOk fixed e := by
  obtain ⟨text, kids⟩ := e
  cases text with
  | none =>
    simp [libErr, fixedValue, SpecOk]
  | some t =>
    by_cases ht : t = ""
    · subst ht
      simp [libErr, fixedValue, SpecOk]
    · by_cases hk : kids = 0
      · subst hk
        simp [libErr, fixedValue, SpecOk, ht]
        constructor
        · intro h; exact h.symm
        · intro h; exact h.symm
      · simp [libErr, fixedValue, SpecOk, ht, hk]

/-- "extra child" at an element with a fixed value is ALWAYS reported at that element: whatever the text, whatever the
    child (admitted by the type or not), however many children there were -/
theorem fixed_extra_child_reported (fixed : String) (e : El) : libErr fixed (addChild e) = true := by
  simp [libErr, addChild]

/-- "bad value": a non-empty text that is not the fixed string (after trimming) is always reported -/
theorem fixed_text_change_reported (fixed : String) (e : El) (t : String) (hk : e.kids = 0) (ht : t ≠ "")
    (hne : strip t ≠ fixed) : libErr fixed (setText e t) = true := by
  simp [libErr, fixedValue, setText, hk, ht]
  intro h; exact hne h.symm

-- non-vacuity (evaluated): the valid base elements of the family are accepted, an added child is an error
#guard libErr "see below" ⟨some "see below", 0⟩ == false
#guard libErr "see below" ⟨some " see below ", 0⟩ == false
#guard libErr "see below" ⟨none, 0⟩ == false
#guard libErr "see below" ⟨some "  ", 0⟩ == true
#guard libErr "see below" ⟨some "see below", 1⟩ == true

end XsVerif.Props.C19
