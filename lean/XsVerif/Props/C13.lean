/-
  C13 — defused parsing refuses every entity declaration before any expansion.
  ONLY property theorems and non-vacuity examples live here.
-/
import XsVerif.Model.Defuse
import XsVerif.Lemmas.Defuse
import XsVerif.Generated.C13

namespace XsVerif.Props.C13
open XsVerif.Defuse

/-! ## the modes of the code are exactly the modes of the model -/

def modeName : Mode → String
  | .never => "never" | .remote => "remote" | .nonlocal => "nonlocal" | .always => "always"

def allModes : List Mode := [.never, .remote, .nonlocal, .always]

/-- `DEFUSE_MODES` of xmlschema/arguments.py (regenerated on every run) = the constructors of `Mode` -/
theorem modes_exact :
    (allModes.map modeName).all (XsVerif.Generated.C13.defuseModes.contains ·) = true ∧
    XsVerif.Generated.C13.defuseModes.all ((allModes.map modeName).contains ·) = true ∧
    ∀ m : Mode, m ∈ allModes := by
  refine ⟨by decide, by decide, fun m => by cases m <;> decide⟩

/-! ## S: when defusing applies -/

/-- S: "always; or for non-local / remote data under the 'nonlocal' and 'remote' settings" -/
def Applies (m : Mode) (b : BaseClass) : Prop :=
  m = .always ∨ (m = .nonlocal ∧ b ≠ .loc) ∨ (m = .remote ∧ b = .remote)

theorem isDefused_iff_applies (m : Mode) (b : BaseClass) : isDefused m b = true ↔ Applies m b := by
  cases m <;> cases b <;> simp [isDefused, Applies]

/-! ## the decision table of `open` -/

/-- The stream reaches the parser without a scan exactly when defusing does not apply —
    for every mode, base class and channel (seekable or not, raw/buffered/text, with or without
    URL and custom opener). -/
theorem plan_noDefuse_iff (m : Mode) (b : BaseClass) (ch : Chan) :
    plan m b ch = .noDefuse ↔ isDefused m b = false := by
  unfold plan
  cases hd : isDefused m b <;> simp
  repeat' split
  all_goals simp

/-- When defusing applies, a document that must be refused never reaches the parser, on any
    channel: the outcome is the forbidden-resource error or (on channels that cannot be defused
    at all) a resource OS error raised before anything is parsed. -/
theorem defused_entities_never_parsed (m : Mode) (b : BaseClass) (ch : Chan) (scanEnd bufLen : Nat)
    (h : isDefused m b = true) : outcome (plan m b ch) true scanEnd bufLen ≠ .parsed := by
  have hp : plan m b ch ≠ .noDefuse := fun e => by have := (plan_noDefuse_iff m b ch).mp e; simp [h] at this
  cases hpl : plan m b ch <;> simp_all [outcome]

/-- … and it is the forbidden-resource error on every channel except the one that `open`
    refuses outright (non-seekable stream that is neither raw nor buffered and has no URL). -/
theorem defused_entities_forbidden (m : Mode) (b : BaseClass) (ch : Chan) (scanEnd bufLen : Nat)
    (h : isDefused m b = true) (hr : plan m b ch ≠ .refuse) :
    outcome (plan m b ch) true scanEnd bufLen = .forbidden := by
  have hp : plan m b ch ≠ .noDefuse := fun e => by have := (plan_noDefuse_iff m b ch).mp e; simp [h] at this
  cases hpl : plan m b ch <;> simp_all [outcome]

/-- The refusing channel is exactly: not seekable, and (neither raw nor buffered, or a custom
    opener with a URL) and no URL to open a second time. -/
theorem plan_refuse_iff (m : Mode) (b : BaseClass) (ch : Chan) :
    plan m b ch = .refuse ↔
      isDefused m b = true ∧ ch.seekable = false ∧ ch.hasUrl = false ∧ ch.io = .other := by
  obtain ⟨sk, io, op, url⟩ := ch
  unfold plan
  cases hd : isDefused m b <;> cases sk <;> cases io <;> cases op <;> cases url <;> simp

/-- Where defusing does not apply the document always reaches the parser. -/
theorem undefused_transparent (m : Mode) (b : BaseClass) (ch : Chan) (mr : Bool) (scanEnd bufLen : Nat)
    (h : isDefused m b = false) : outcome (plan m b ch) mr scanEnd bufLen = .parsed := by
  rw [(plan_noDefuse_iff m b ch).mpr h]; rfl

/-
  FULL STATEMENT (second sentence of the property), false for the code as it is:
    theorem clean_parsed : isDefused m b = true → outcome (plan m b ch) false scanEnd bufLen = .parsed
  It fails on two channels of the repaired code (and on a third one, non-seekable raw streams, of the
  current tree: finding C13-F1, repaired by notes/fixes/C13-raw-stream-defusable-reader.patch, which
  the model already describes), all as safe refusals (see the counter-examples below).
-/

/-- decidable guard: the channels on which a clean document survives defusing -/
def cleanGuard (pl : Plan) (scanEnd bufLen : Nat) : Bool :=
  pl != .refuse && ((pl != .wrapBuffered && pl != .wrapRaw) || decide (scanEnd ≤ bufLen))

/-- Documents without entity declarations are handed to the parser (from the start of the stream,
    see `scan_then_rewind`) on every channel satisfying the guard. -/
theorem clean_parsed_partial (m : Mode) (b : BaseClass) (ch : Chan) (scanEnd bufLen : Nat)
    (hg : cleanGuard (plan m b ch) scanEnd bufLen = true) :
    outcome (plan m b ch) false scanEnd bufLen = .parsed := by
  unfold cleanGuard at hg
  cases hpl : plan m b ch <;> simp_all [outcome]

/-- C13-F2 on a raw stream: same buffer edge -/
theorem clean_refused_counterexample_raw_bigprolog :
    outcome (plan .always .absent ⟨false, .raw, false, false⟩) false 81820 65536 = .oserror := by decide

/-- C13-F2: a clean document on a non-seekable buffered stream whose first start tag lies beyond
    the 64 KiB buffer is refused -/
theorem clean_refused_counterexample_bigprolog :
    outcome (plan .always .absent ⟨false, .buffered, false, false⟩) false 81820 65536 = .oserror := by decide

/-- C13-F3: any document on a non-seekable stream that is neither raw nor buffered (a text stream)
    is refused -/
theorem clean_refused_counterexample_text :
    outcome (plan .always .absent ⟨false, .other, false, false⟩) false 100 65536 = .oserror := by decide

example : cleanGuard (plan .always .absent ⟨true, .buffered, false, false⟩) 100 65536 = true := by decide
example : isDefused .nonlocal .absent = true := by decide

/-! ## DefusableReader is a transparent, partially rewindable view of the byte stream -/

/-- outputs agree with the plain byte list, or stop at some point with an OS error: the reader
    never returns different bytes and never silently skips any -/
def Agrees (l ref : List Out) : Prop := l = ref ∨ ∃ k, l = ref.take k ++ [.oserror]

/-- Refinement: any script of read/seek/tell operations on the reader built over stream `s`
    behaves exactly like the same script on the byte list `s` with a cursor, up to the first
    OS error (for every stream, buffer size and script — unbounded). -/
theorem run_refines (s : List Nat) (ops : List Op) (r : Reader) (h : Inv s r) :
    Agrees (r.run ops) (absRun s ops r.pos) := by
  induction ops generalizing r with
  | nil => exact Or.inl rfl
  | cons op ops ih =>
    cases op with
    | read n =>
      obtain ⟨h1, h2, h3, -⟩ := read_refines h n
      have := ih (r.read n).2 h2
      cases n with
      | some k =>
        simp only [Reader.run, absRun]
        simp only at h1
        rw [h3, h1] at this
        rw [h1]
        rcases this with e | ⟨j, e⟩
        · exact Or.inl (by rw [e])
        · exact Or.inr ⟨j + 1, by rw [e]; simp⟩
      | none =>
        simp only [Reader.run, absRun]
        simp only at h1
        rw [h3, h1] at this
        rw [h1]
        rcases this with e | ⟨j, e⟩
        · exact Or.inl (by rw [e])
        · exact Or.inr ⟨j + 1, by rw [e]; simp⟩
    | tell =>
      simp only [Reader.run, absRun]
      rcases ih r h with e | ⟨j, e⟩
      · exact Or.inl (by rw [e])
      · exact Or.inr ⟨j + 1, by rw [e]; simp⟩
    | seek p =>
      simp only [Reader.run, absRun]
      cases hs : r.seek p with
      | none => exact Or.inr ⟨0, by simp⟩
      | some r' =>
        obtain ⟨h1, h2, -⟩ := seek_refines h hs
        simp only
        have := ih r' h1
        rw [h2] at this
        rcases this with e | ⟨j, e⟩
        · exact Or.inl (by rw [e])
        · exact Or.inr ⟨j + 1, by rw [e]; simp⟩

/-- The reader built by `defuse_xml` satisfies the invariant for whatever the stream contains. -/
theorem init_refines (size : Nat) (s : List Nat) (ops : List Op) :
    Agrees ((Reader.init size s).run ops) (absRun s ops 0) :=
  run_refines s ops _ (init_inv size s)

/-- After a scan that stayed within the initial buffer, `seek(0)` succeeds and the parser then
    receives exactly the original byte stream. -/
theorem scan_then_rewind (s : List Nat) (r : Reader) (h : Inv s r) (hp : r.pos ≤ r.buf.length) :
    ∃ r', r.seek 0 = some r' ∧ (r'.read none).1 = s := by
  refine ⟨{ r with pos := 0 }, by simp [Reader.seek]; omega, ?_⟩
  have hs : r.seek 0 = some { r with pos := 0 } := by simp [Reader.seek]; omega
  obtain ⟨hi, -, -⟩ := seek_refines h hs
  have := (read_refines hi none).1
  simpa using this

/-- A seek is refused exactly when the scan went beyond the buffer (or asks for a position beyond
    it): the bytes between are gone, and the reader says so instead of delivering a gap (C13-F2). -/
theorem seek_refused_iff (r : Reader) (p : Nat) :
    r.seek p = none ↔ r.buf.length < p ∨ r.buf.length < r.pos := by
  unfold Reader.seek
  by_cases h1 : r.buf.length < p <;> by_cases h2 : r.buf.length < r.pos <;> simp [h1, h2]

example : (Reader.init 8192 [1, 2, 3]).run [.read (some 2), .seek 0, .read none] =
    [.data [1, 2], .at 0, .data [1, 2, 3]] := by decide

end XsVerif.Props.C13
