/-
  C13 — defused parsing refuses every entity declaration before any expansion.
  ONLY property theorems and non-vacuity examples live here.
-/
import XsVerif.Model.Defuse
import XsVerif.Model.Prolog
import XsVerif.Model.OpenFlow
import XsVerif.Lemmas.Defuse
import XsVerif.Lemmas.Prolog
import XsVerif.Generated.C13

namespace XsVerif.Props.C13
open XsVerif.Defuse

/-! ## the modes of the code are exactly the modes of the model -/

def modeName : Mode → String
  | .never => "never" | .remote => "remote" | .nonlocal => "nonlocal" | .always => "always"

def allModes : List Mode := [.never, .remote, .nonlocal, .always]

/-- `DEFUSE_MODES` of xmlschema/arguments.py (regenerated on every run) = the constructors of `Mode` -/
theorem modes_exact :
    (allModes.map modeName).all (XsVerif.Generated.C13.defuseModes.contains ·) = true ∧
    XsVerif.Generated.C13.defuseModes.all ((allModes.map modeName).contains ·) = true ∧
    ∀ m : Mode, m ∈ allModes := by
  refine ⟨by decide, by decide, fun m => by cases m <;> decide⟩

/-! ## S: when defusing applies -/

/-- S: "always; or for non-local / remote data under the 'nonlocal' and 'remote' settings" -/
def Applies (m : Mode) (b : BaseClass) : Prop :=
  m = .always ∨ (m = .nonlocal ∧ b ≠ .loc) ∨ (m = .remote ∧ b = .remote)

theorem isDefused_iff_applies (m : Mode) (b : BaseClass) : isDefused m b = true ↔ Applies m b := by
  cases m <;> cases b <;> simp [isDefused, Applies]

/-! ## the decision table of `open` -/

/-- The stream reaches the parser without a scan exactly when defusing does not apply —
    for every mode, base class and channel (seekable or not, raw/buffered/text/other, with or without
    URL and custom opener), on the tree as it is and with the repairs. -/
theorem plan_noDefuse_iff (v : Variant) (m : Mode) (b : BaseClass) (ch : Chan) :
    plan v m b ch = .noDefuse ↔ isDefused m b = false := by
  unfold plan
  cases hd : isDefused m b <;> simp
  repeat' split
  all_goals simp

/-- When defusing applies, a document that must be refused never reaches the parser, on any
    channel: the outcome is the forbidden-resource error or (on channels that cannot be defused
    at all) a resource OS error raised before anything is parsed. -/
theorem defused_entities_never_parsed (v : Variant) (m : Mode) (b : BaseClass) (ch : Chan) (scanEnd bufLen : Nat)
    (h : isDefused m b = true) : outcome (plan v m b ch) true scanEnd bufLen ≠ .parsed := by
  have hp : plan v m b ch ≠ .noDefuse := fun e => by have := (plan_noDefuse_iff v m b ch).mp e; simp [h] at this
  cases hpl : plan v m b ch <;> simp_all [outcome]

/-- … and it is the forbidden-resource error on every channel except the one that `open`
    refuses outright (see `plan_refuse_iff`). -/
theorem defused_entities_forbidden (v : Variant) (m : Mode) (b : BaseClass) (ch : Chan) (scanEnd bufLen : Nat)
    (h : isDefused m b = true) (hr : plan v m b ch ≠ .refuse) :
    outcome (plan v m b ch) true scanEnd bufLen = .forbidden := by
  have hp : plan v m b ch ≠ .noDefuse := fun e => by have := (plan_noDefuse_iff v m b ch).mp e; simp [h] at this
  cases hpl : plan v m b ch <;> simp_all [outcome]

/-- The refusing channel is exactly: not seekable, no URL to open a second time, and a stream that
    `defuse_xml` cannot wrap in a replay reader. -/
theorem plan_refuse_iff (v : Variant) (m : Mode) (b : BaseClass) (ch : Chan) :
    plan v m b ch = .refuse ↔
      isDefused m b = true ∧ ch.seekable = false ∧ ch.hasUrl = false ∧ wrappable v ch.io = false := by
  obtain ⟨sk, io, op, url⟩ := ch
  unfold plan
  cases hd : isDefused m b <;> cases sk <;> cases hw : wrappable v io <;> cases op <;> cases url <;> simp
  all_goals (repeat' split) <;> simp_all [wrappable]

/-- on the tree as it is the refusing channel is: non-seekable text streams (C13-F3) and non-seekable
    objects outside the io class hierarchy; with the repair of C13-F3 only the latter -/
theorem unwrappable_iff (v : Variant) (io : IoKind) :
    wrappable v io = false ↔ io = .other ∨ (io = .text ∧ v.wrapText = false) := by
  cases io <;> cases h : v.wrapText <;> simp [wrappable, h]

/-- Where defusing does not apply the document always reaches the parser. -/
theorem undefused_transparent (v : Variant) (m : Mode) (b : BaseClass) (ch : Chan) (mr : Bool) (scanEnd bufLen : Nat)
    (h : isDefused m b = false) : outcome (plan v m b ch) mr scanEnd bufLen = .parsed := by
  rw [(plan_noDefuse_iff v m b ch).mpr h]; rfl

/-
  FULL STATEMENT (second sentence of the property), false for the code as it is (`Variant.current`):
    theorem clean_parsed : isDefused m b = true → outcome (plan v m b ch) false scanEnd bufLen = .parsed
  It fails on two kinds of channels, both as safe refusals (see the counter-examples below, and
  `clean_parsed_iff` for the exact characterisation).  Non-seekable raw streams behave like buffered
  ones since fix 1d3fb41 (former finding C13-F1).  With both repairs (notes/fixes/C13-defusable-reader-
  grows-during-scan.patch, C13-text-stream-defusable-reader.patch) it holds for every stream of the io
  class hierarchy: `clean_parsed_repaired`.
-/

/-- decidable guard: the channels on which a clean document survives defusing -/
def cleanGuard (pl : Plan) (scanEnd bufLen : Nat) : Bool :=
  pl != .refuse && ((pl != .wrapBuffered && pl != .wrapRaw && pl != .wrapText) || decide (scanEnd ≤ bufLen))

/-- Documents without entity declarations are handed to the parser (from the start of the stream,
    see `scan_then_rewind`) on every channel satisfying the guard. -/
theorem clean_parsed_partial (v : Variant) (m : Mode) (b : BaseClass) (ch : Chan) (scanEnd bufLen : Nat)
    (hg : cleanGuard (plan v m b ch) scanEnd bufLen = true) :
    outcome (plan v m b ch) false scanEnd bufLen = .parsed := by
  unfold cleanGuard at hg
  cases hpl : plan v m b ch <;> simp_all [outcome]

/-- C13-F2 on a raw stream: same buffer edge -/
theorem clean_refused_counterexample_raw_bigprolog :
    outcome (plan .current .always .absent ⟨false, .raw, false, false⟩) false 81820 65536 = .oserror := by decide

/-- C13-F2: a clean document on a non-seekable buffered stream whose first start tag lies beyond
    the 64 KiB buffer is refused -/
theorem clean_refused_counterexample_bigprolog :
    outcome (plan .current .always .absent ⟨false, .buffered, false, false⟩) false 81820 65536 = .oserror := by decide

/-- C13-F3: any document on a non-seekable text stream is refused on the tree as it is -/
theorem clean_refused_counterexample_text :
    outcome (plan .current .always .absent ⟨false, .text, false, false⟩) false 100 65536 = .oserror := by decide

example : cleanGuard (plan .current .always .absent ⟨true, .buffered, false, false⟩) 100 65536 = true := by decide
example : isDefused .nonlocal .absent = true := by decide
example : plan .repaired .always .absent ⟨false, .text, false, false⟩ = .wrapText := by decide

/-! ## DefusableReader is a transparent, partially rewindable view of the byte stream -/

/-- outputs agree with the plain byte list, or stop at some point with an OS error: the reader
    never returns different bytes and never silently skips any -/
def Agrees (l ref : List Out) : Prop := l = ref ∨ ∃ k, l = ref.take k ++ [.oserror]

/-- Refinement: any script of read/seek/tell operations on the reader built over stream `s`
    behaves exactly like the same script on the byte list `s` with a cursor, up to the first
    OS error (for every stream, buffer size and script — unbounded; growing buffer or not). -/
theorem run_refines (s : List Nat) (ops : List Op) (r : Reader) (h : Inv s r) :
    Agrees (r.run ops) (absRun s ops r.pos) := by
  induction ops generalizing r with
  | nil => exact Or.inl rfl
  | cons op ops ih =>
    cases op with
    | read n =>
      obtain ⟨h1, h2, h3, -, -⟩ := read_refines h n
      have := ih (r.read n).2 h2
      cases n with
      | some k =>
        simp only [Reader.run, absRun]
        simp only at h1
        rw [h3, h1] at this
        rw [h1]
        rcases this with e | ⟨j, e⟩
        · exact Or.inl (by rw [e])
        · exact Or.inr ⟨j + 1, by rw [e]; simp⟩
      | none =>
        simp only [Reader.run, absRun]
        simp only at h1
        rw [h3, h1] at this
        rw [h1]
        rcases this with e | ⟨j, e⟩
        · exact Or.inl (by rw [e])
        · exact Or.inr ⟨j + 1, by rw [e]; simp⟩
    | tell =>
      simp only [Reader.run, absRun]
      rcases ih r h with e | ⟨j, e⟩
      · exact Or.inl (by rw [e])
      · exact Or.inr ⟨j + 1, by rw [e]; simp⟩
    | seek p =>
      simp only [Reader.run, absRun]
      cases hs : r.seek p with
      | none => exact Or.inr ⟨0, by simp⟩
      | some r' =>
        obtain ⟨h1, h2, -, -⟩ := seek_refines h hs
        simp only
        have := ih r' h1
        rw [h2] at this
        rcases this with e | ⟨j, e⟩
        · exact Or.inl (by rw [e])
        · exact Or.inr ⟨j + 1, by rw [e]; simp⟩

/-- The reader built by `defuse_xml` satisfies the invariant for whatever the stream contains. -/
theorem init_refines (g : Bool) (size : Nat) (s : List Nat) (ops : List Op) :
    Agrees ((Reader.init g size s).run ops) (absRun s ops 0) :=
  run_refines s ops _ (init_inv g size s)

/-- After a scan that stayed within the buffer, `seek(0)` succeeds and the parser then
    receives exactly the original byte stream. -/
theorem scan_then_rewind (s : List Nat) (r : Reader) (h : Inv s r) (hp : r.pos ≤ r.buf.length) :
    ∃ r', r.seek 0 = some r' ∧ (r'.read none).1 = s := by
  have hs : r.seek 0 = some { r with pos := 0, grow := false } := by simp [Reader.seek]; omega
  refine ⟨_, hs, ?_⟩
  obtain ⟨hi, -, -⟩ := seek_refines h hs
  have := (read_refines hi none).1
  simpa using this

/-- A seek is refused exactly when the scan went beyond the buffer (or asks for a position beyond
    it): the bytes between are gone, and the reader says so instead of delivering a gap (C13-F2). -/
theorem seek_refused_iff (r : Reader) (p : Nat) :
    r.seek p = none ↔ r.buf.length < p ∨ r.buf.length < r.pos := by
  unfold Reader.seek
  by_cases h1 : r.buf.length < p <;> by_cases h2 : r.buf.length < r.pos <;> simp [h1, h2]

example : (Reader.init false 8192 [1, 2, 3]).run [.read (some 2), .seek 0, .read none] =
    [.data [1, 2], .at 0, .data [1, 2, 3]] := by decide

/-! ## exactness of the rewind: the parser is fed EXACTLY the bytes the scan saw

  What seeded change C13-3 (`elif pos > self._buffer_size` instead of `self._pos` in
  DefusableReader.seek) broke, stated for the reader model and proved for both variants of the
  reader (fixed buffer / buffer growing until the first seek).  `ks` = the sizes of the reads of the
  scan (pulldom blocks), `ms` = the sizes of the reads of the parser after the rewind. -/

/-- **rewind_exact.**  On the reader `defuse_xml` builds over ANY stream `s` (any initial buffer
    size, growing or not): whatever reads the scan makes, if the rewind `seek(0)` succeeds then
    (1) the scan was fed exactly a prefix of the stream, (2) whatever block sizes the parser then
    uses it is fed exactly a prefix of the stream — the two byte sequences coincide as far as both
    go — and (3) reading to the end delivers the whole stream: nothing skipped, nothing repeated. -/
theorem rewind_exact (s : List Nat) (g : Bool) (size : Nat) (ks ms : List Nat) (r1 : Reader)
    (hs : ((Reader.init g size s).readMany ks).2.seek 0 = some r1) :
    ((Reader.init g size s).readMany ks).1 = s.take ks.sum ∧
    (r1.readMany ms).1 = s.take ms.sum ∧ (r1.read none).1 = s := by
  obtain ⟨h1, h2, -, -⟩ := readMany_refines ks (init_inv g size s)
  obtain ⟨i1, i2, -, -⟩ := seek_refines h2 hs
  obtain ⟨j1, -, -, -⟩ := readMany_refines ms i1
  refine ⟨by simpa [Reader.init] using h1, by simpa [i2] using j1, ?_⟩
  have := (read_refines i1 none).1
  simpa [i2] using this

/-- … in particular, a parser that reads with the same block sizes as the scan receives the very
    same bytes. -/
theorem rewind_same_blocks (s : List Nat) (g : Bool) (size : Nat) (ks : List Nat) (r1 : Reader)
    (hs : ((Reader.init g size s).readMany ks).2.seek 0 = some r1) :
    (r1.readMany ks).1 = ((Reader.init g size s).readMany ks).1 := by
  obtain ⟨h1, h2, -⟩ := rewind_exact s g size ks ks r1 hs
  rw [h1, h2]

/-- **rewind_exact_any_history.**  The same for EVERY read/seek/tell history of the reader (not
    only a sequential scan): if the history raised no OS error and the rewind succeeds, every
    later script behaves as on the original stream from position 0 (up to a later OS error),
    block reads deliver prefixes of the stream and reading to the end delivers all of it. -/
theorem rewind_exact_any_history (s : List Nat) (g : Bool) (size : Nat) (hist : List Op) (r r1 : Reader)
    (he : (Reader.init g size s).exec hist = some r) (hs : r.seek 0 = some r1) :
    (∀ ms, (r1.readMany ms).1 = s.take ms.sum) ∧ (r1.read none).1 = s ∧
    ∀ ops, Agrees (r1.run ops) (absRun s ops 0) := by
  have hi := exec_inv hist (init_inv g size s) he
  obtain ⟨i1, i2, -, -⟩ := seek_refines hi hs
  refine ⟨fun ms => ?_, ?_, fun ops => ?_⟩
  · have := (readMany_refines ms i1).1
    simpa [i2] using this
  · have := (read_refines i1 none).1
    simpa [i2] using this
  · have := run_refines s ops r1 i1
    rwa [i2] at this

/-- The guard that seeded change C13-3 replaced is necessary: with `seekSeeded` (the test on the
    target position instead of the current one) a reader that satisfies the invariant and has read
    beyond its buffer rewinds "successfully" and then delivers a stream with a gap. -/
example : Inv [1, 2, 3] ⟨[1], [], 3, false⟩ ∧
    (Reader.seekSeeded ⟨[1], [], 3, false⟩ 0).map (fun r => (r.read none).1) = some [1] ∧
    Reader.seek ⟨[1], [], 3, false⟩ 0 = none := by
  refine ⟨⟨by decide, by decide, by decide⟩, by decide, by decide⟩

example : ((Reader.init true 8192 [1, 2, 3, 4]).readMany [3]).2.seek 0 =
    some ⟨[1, 2, 3, 4], [], 0, false⟩ := by decide

/-- **grow_scan_never_refused** (the repair of C13-F2).  A reader whose buffer grows until the first
    seek can always be rewound after a sequential scan, however far the scan read: the refusal of
    `scan_rewind_refused_iff` is gone, the exactness of `rewind_exact` stays. -/
theorem grow_scan_never_refused (s : List Nat) (size : Nat) (ks : List Nat) :
    ∃ r1, ((Reader.init true size s).readMany ks).2.seek 0 = some r1 ∧ (r1.read none).1 = s := by
  obtain ⟨-, h2, -, h4⟩ := readMany_refines ks (init_inv true size s)
  have hg : ((Reader.init true size s).readMany ks).2.grow = true := by rw [h4]; rfl
  exact scan_then_rewind s _ h2 (h2.2.2 hg)

/-! ## the second sentence, with the scan end predicted instead of measured -/

/-- The scan of `k` blocks followed by `seek(0)` on the reader that `defuse_xml` builds over ANY
    stream `s` fails exactly when the reader has the fixed buffer, the stream is longer than the
    64 KiB buffer and the scan read beyond it. -/
theorem scan_rewind_refused_iff (g : Bool) (s : List Nat) (k : Nat) :
    ((Reader.init g bufferSize s).readBlocks k).seek 0 = none ↔
      g = false ∧ bufferSize < s.length ∧ bufferSize < k * blockSize := by
  have hi := init_inv g bufferSize s
  have hp : (Reader.init g bufferSize s).pos ≤ s.length := by simp [Reader.init]
  obtain ⟨-, h2, -, h4⟩ := readBlocks_refines k hi hp
  rw [seek_refused_iff, h4, h2]
  cases g <;> simp [Reader.init, bufferSize, blockSize] <;> omega

/-- the position of the reader and the length of its buffer when the scan stops are the two
    numbers the outcome function compares (and the harness records at the real `seek(0)`) -/
theorem scan_state (g : Bool) (s : List Nat) (tagEnd : Nat) :
    ((Reader.init g bufferSize s).readBlocks (blocksFor tagEnd)).pos = scanEndOf s.length tagEnd ∧
    ((Reader.init g bufferSize s).readBlocks (blocksFor tagEnd)).buf.length = bufLenAfter g s.length tagEnd := by
  have hi := init_inv g bufferSize s
  have hp : (Reader.init g bufferSize s).pos ≤ s.length := by simp [Reader.init]
  obtain ⟨-, h2, -, h4⟩ := readBlocks_refines (blocksFor tagEnd) hi hp
  rw [h4, h2]
  cases g <;> simp [Reader.init, bufferSize, scanEndOf, bufLenAfter, bufLenOf] <;> omega

/-- `outcomeDoc` compares exactly the two quantities of the reader: position after the scan and
    length of the buffer. -/
theorem outcomeDoc_reader (g : Bool) (s : List Nat) (tagEnd : Nat) :
    ((Reader.init g bufferSize s).readBlocks (blocksFor tagEnd)).seek 0 = none ↔
      bufLenAfter g s.length tagEnd < scanEndOf s.length tagEnd := by
  rw [seek_refused_iff, (scan_state g s tagEnd).1, (scan_state g s tagEnd).2]
  omega

/-- Exact characterisation of the second sentence: when defusing applies, a document without
    entity declarations reaches the parser iff the channel is not the refusing one and, on
    non-seekable streams that go through a replay reader, the reader grows, or the document fits
    the 64 KiB buffer, or its first start tag ends within the first four blocks (65456 bytes). -/
theorem clean_parsed_iff (v : Variant) (m : Mode) (b : BaseClass) (ch : Chan) (total tagEnd : Nat)
    (h : isDefused m b = true) :
    outcomeDoc v (plan v m b ch) false total tagEnd = .parsed ↔
      plan v m b ch ≠ .refuse ∧
      ((plan v m b ch).wraps = true →
        growOf v (plan v m b ch) = true ∨ total ≤ bufferSize ∨ tagEnd ≤ 4 * blockSize) := by
  have hp : plan v m b ch ≠ .noDefuse := fun e => by have := (plan_noDefuse_iff v m b ch).mp e; simp [h] at this
  have key : bufLenOf total < scanEndOf total tagEnd ↔ bufferSize < total ∧ 4 * blockSize < tagEnd := by
    simp only [bufLenOf, scanEndOf, blocksFor, bufferSize, blockSize]
    omega
  have key2 : ¬ (max (bufLenOf total) (scanEndOf total tagEnd) < scanEndOf total tagEnd) := by omega
  cases hpl : plan v m b ch <;> simp only [outcomeDoc, outcome, Plan.wraps, growOf, bufLenAfter] <;> try simp_all
  · by_cases hg : v.growBuf = true <;> simp [hg, key, key2] <;> omega
  · by_cases hg : v.growBuf = true <;> simp [hg, key, key2] <;> omega
  · by_cases hg : v.growText = true <;> simp [hg, key, key2] <;> omega

/-- every document of at most 64 KiB without entity declarations is parsed on every channel
    except the refusing one -/
theorem clean_small_parsed (v : Variant) (m : Mode) (b : BaseClass) (ch : Chan) (total tagEnd : Nat)
    (h : isDefused m b = true) (hr : plan v m b ch ≠ .refuse) (hs : total ≤ bufferSize) :
    outcomeDoc v (plan v m b ch) false total tagEnd = .parsed :=
  (clean_parsed_iff v m b ch total tagEnd h).mpr ⟨hr, fun _ => Or.inr (Or.inl hs)⟩

/-- **clean_parsed_repaired** — the second sentence at full strength for the repaired readers: when
    both replay readers grow, every document without entity declarations reaches the parser on
    every channel that is not refused outright, whatever its length and the position of its
    first start tag; with the text repair the refused channel is only a non-seekable object
    outside the io class hierarchy without URL (`plan_refuse_iff`, `unwrappable_iff`). -/
theorem clean_parsed_repaired (v : Variant) (m : Mode) (b : BaseClass) (ch : Chan) (total tagEnd : Nat)
    (hb : v.growBuf = true) (ht : v.growText = true)
    (h : isDefused m b = true) (hr : plan v m b ch ≠ .refuse) :
    outcomeDoc v (plan v m b ch) false total tagEnd = .parsed := by
  refine (clean_parsed_iff v m b ch total tagEnd h).mpr ⟨hr, fun hw => Or.inl ?_⟩
  cases hpl : plan v m b ch <;> simp_all [Plan.wraps, growOf]

/-- … and on every stream of the io class hierarchy (binary or text, seekable or not) the repaired
    tree parses every clean document when defusing applies -/
theorem clean_parsed_repaired_streams (m : Mode) (b : BaseClass) (ch : Chan) (total tagEnd : Nat)
    (h : isDefused m b = true) (hio : ch.io ≠ .other) :
    outcomeDoc .repaired (plan .repaired m b ch) false total tagEnd = .parsed := by
  refine clean_parsed_repaired .repaired m b ch total tagEnd rfl rfl h ?_
  intro hr
  obtain ⟨-, -, -, hw⟩ := (plan_refuse_iff .repaired m b ch).mp hr
  rcases (unwrappable_iff .repaired ch.io).mp hw with e | ⟨-, e⟩
  · exact hio e
  · simp [Variant.repaired] at e

/-- C13-F2 with the numbers of the replayed witness (payload `big-comment-clean` as an instance:
    70036 bytes, first start tag ends at offset 70031); the repaired reader parses it -/
theorem clean_refused_counterexample_doc :
    outcomeDoc .current (plan .current .always .absent ⟨false, .buffered, false, false⟩) false 70036 70031 = .oserror ∧
    outcomeDoc .current (plan .current .always .absent ⟨false, .raw, false, false⟩) false 70036 70031 = .oserror ∧
    outcomeDoc .repaired (plan .repaired .always .absent ⟨false, .buffered, false, false⟩) false 70036 70031 = .parsed := by
  decide

example : outcomeDoc .current (plan .current .always .absent ⟨false, .raw, false, false⟩) false 70036 30 = .parsed := by decide
example : scanEndOf 70036 70031 = 70036 ∧ bufLenOf 70036 = 65536 ∧ bufLenAfter true 70036 70031 = 70036 := by decide
example : outcomeDoc .repaired (plan .repaired .always .absent ⟨false, .text, false, false⟩) false 70036 70031 = .parsed := by decide

/-! ## the prolog grammar: what the handlers of the safe parser react to -/

open XsVerif.Prolog

/-- **classify_render.**  For every prolog of the grammar (any XML declaration, comments,
    processing instructions, DOCTYPE with external identifier and internal subset of ENTITY /
    NOTATION / ELEMENT / ATTLIST declarations, comments, PIs, PE references; arbitrary names,
    literal and comment contents within XML's lexical rules) followed by the start tag of the root
    element, the byte-level scanner reaches exactly the handler that the syntax tree says. -/
theorem classify_render (p : Prolog) (root : Bytes) (hwf : p.wf = true) (hr : startsTag root = true) :
    classify (p.render ++ root) = firstHandler p := by
  obtain ⟨bom, xd, m1, dt, m2⟩ := p
  simp only [Prolog.wf, Bool.and_eq_true] at hwf
  obtain ⟨⟨⟨hx, hm1⟩, hd⟩, hm2⟩ := hwf
  have hroot : ∀ f, run (.text f false) root = .done .clean := by
    intro f
    match root, hr with
    | 60 :: c :: rest, hr =>
      simp only [startsTag] at hr
      have h33 : c ≠ 33 ∧ c ≠ 63 := by
        simp only [isNameStart, Bool.or_eq_true, Bool.and_eq_true, decide_eq_true_eq, beq_iff_eq] at hr
        omega
      simp [step, isWs, hr, h33.1, h33.2]
  have hbom : run st0 (if bom then [239, 187, 191] else []) = st0 := by
    cases bom <;> simp [st0, step, isWs]
  have hxd : run st0 (xmlDeclBytes xd) =
      .text { flags0 with sa := Prolog.standalone ⟨bom, xd, m1, dt, m2⟩ } false := by
    cases xd with
    | none => rfl
    | some x => simpa [xmlDeclBytes, Prolog.standalone] using run_xmlDecl x hx
  simp only [classify, Prolog.render, run_append, hbom, hxd, run_miscs _ m1 hm1]
  cases dt with
  | none =>
    simp [doctypeBytes, run_miscs _ m2 hm2, hroot, verdictOf, firstHandler]
  | some d =>
    simp only [doctypeBytes]
    rw [run_doctype _ d hd rfl rfl]
    simp only [firstHandler]
    cases firstLive (Prolog.standalone ⟨bom, xd, m1, some d, m2⟩) true (d.subset.getD []) with
    | some v => simp [verdictOf]
    | none => simp [verdictOf]

/-- The scanner never reports `malformed` on a rendered prolog (the verdict is always one of the
    four a handler can produce). -/
theorem render_never_malformed (p : Prolog) (root : Bytes) (hwf : p.wf = true) (hr : startsTag root = true) :
    classify (p.render ++ root) ≠ .malformed := by
  rw [classify_render p root hwf hr]
  unfold firstHandler
  cases p.doctype with
  | none => simp
  | some d =>
    simp only
    cases hfl : firstLive p.standalone true (d.subset.getD []) with
    | some v => exact (firstLive_ne_clean _ _ _ _ hfl).2.1
    | none => simp only; split <;> simp

/-- No false refusal: a prolog that declares no entity and has no external identifier reaches no
    handler — for every prolog, without guard (second sentence of the property, scanner side). -/
theorem clean_never_refused (p : Prolog) (root : Bytes) (hwf : p.wf = true) (hr : startsTag root = true)
    (hc : mustRefuse p = false) : classify (p.render ++ root) = .clean := by
  rw [classify_render p root hwf hr]
  unfold firstHandler
  unfold mustRefuse at hc
  cases hd : p.doctype with
  | none => rfl
  | some d =>
    simp only [hd, Bool.or_eq_false_iff] at hc
    simp only
    cases hfl : firstLive p.standalone true (d.subset.getD []) with
    | some v =>
      have := (firstLive_ne_clean _ _ _ _ hfl).2.2
      simp [hc.2] at this
    | none => simp [hc.1]

/-
  FULL STATEMENT (first sentence, scanner side), false for the parser configuration in use:
    theorem classify_render_mustRefuse : p.wf → startsTag root →
        (classify (p.render ++ root) != .clean) = mustRefuse p
  It fails for (a) standalone="yes" with an external identifier and no processed entity declaration
  (XML_PARAM_ENTITY_PARSING_UNLESS_STANDALONE: the external subset is not loaded, the handler is not
  reached) and (b) entity declarations that follow a reference to an undeclared parameter entity in
  a document that is not standalone (expat stops processing declarations, XML 1.0 §5.1).  In both
  cases nothing is expanded or fetched by the parser either.  Findings C13-F4 and C13-F5.
-/

/-- On regular prologs (no standalone="yes" together with an external identifier, no PE reference
    in the internal subset) a handler is reached exactly when the document declares an entity of
    any of the four kinds or references an external DTD subset. -/
theorem classify_render_mustRefuse_partial (p : Prolog) (root : Bytes) (hwf : p.wf = true)
    (hr : startsTag root = true) (hg : regular p = true) :
    (classify (p.render ++ root) != .clean) = mustRefuse p := by
  rw [classify_render p root hwf hr]
  unfold firstHandler mustRefuse
  unfold regular at hg
  cases hd : p.doctype with
  | none => rfl
  | some d =>
    simp only [hd, Bool.and_eq_true, Bool.not_eq_true', Bool.and_eq_false_iff] at hg
    simp only
    cases hfl : firstLive p.standalone true (d.subset.getD []) with
    | some v =>
      obtain ⟨h1, -, h3⟩ := firstLive_ne_clean _ _ _ _ hfl
      simp [h1, h3]
    | none =>
      have hne := (firstLive_none_iff p.standalone _ hg.2).mp hfl
      simp only [hne, Bool.or_false]
      rcases hg.1 with hs | he
      · cases hx : d.ext.isSome <;> simp [hs]
      · simp [he]

/-- (a) `<?xml version="1.0" standalone="yes"?><!DOCTYPE r SYSTEM "x">` -/
def witnessStandalone : Prolog :=
  { bom := false, xmlDecl := some ⟨none, some true⟩, misc1 := [],
    doctype := some ⟨[114], some (.system ⟨.dq, [120]⟩), none⟩, misc2 := [] }

/-- (b) `<!DOCTYPE r [%p;<!ENTITY e "v">]>` -/
def witnessPeRef : Prolog :=
  { bom := false, xmlDecl := none, misc1 := [],
    doctype := some ⟨[114], none, some [.peRef [112], .entity false [101] (.value ⟨.dq, [118]⟩)]⟩, misc2 := [] }

/-- C13-F4: an external DTD subset referenced by a standalone="yes" document reaches no handler -/
theorem standalone_external_counterexample :
    witnessStandalone.wf = true ∧ mustRefuse witnessStandalone = true ∧
    classify (witnessStandalone.render ++ [60, 114, 47, 62]) = .clean := by decide +kernel

/-- C13-F5: an entity declared after a reference to an undeclared parameter entity reaches no handler -/
theorem entity_after_peref_counterexample :
    witnessPeRef.wf = true ∧ mustRefuse witnessPeRef = true ∧
    classify (witnessPeRef.render ++ [60, 114, 47, 62]) = .clean := by decide +kernel

/-- a rich prolog meeting the hypotheses of `classify_render` (BOM, XML declaration with encoding,
    comment with a dash, DOCTYPE with PUBLIC identifier, ATTLIST default containing `>` and `]`,
    comment and PI containing `<!ENTITY`, external parameter entity) -/
def samplePrology : Prolog :=
  { bom := true, xmlDecl := some ⟨some [85, 84, 70, 45, 56], some false⟩,
    misc1 := [.comment [32, 97, 45, 98, 32], .space [10]],
    doctype := some ⟨[114], some (.pub ⟨.dq, [45, 47, 47, 88]⟩ ⟨.sq, [120, 34, 121]⟩),
      some [.element [120] [40, 35, 80, 67, 68, 65, 84, 65, 41],
            .attlist [120] [⟨[97], [67, 68, 65, 84, 65], .lit ⟨.dq, [97, 62, 98, 93, 62]⟩⟩],
            .comment [60, 33, 69, 78, 84, 73, 84, 89, 32, 101, 32, 34, 120, 34, 62],
            .pi [112] [60, 33, 69, 78, 84, 73, 84, 89, 32, 63],
            .entity true [112, 101] (.ext (.system ⟨.dq, [117]⟩))]⟩,
    misc2 := [.pi [113] []] }

example : samplePrology.wf = true ∧ regular samplePrology = true ∧
    classify (samplePrology.render ++ [60, 114, 47, 62]) = .entity [112, 101] := by decide +kernel

/-- a prolog with one entity of each kind and an external identifier -/
def samplePrologyEv : Prolog :=
  { bom := false, xmlDecl := none, misc1 := [],
    doctype := some ⟨[114], some (.system ⟨.dq, [100]⟩),
      some [.entity false [101] (.value ⟨.dq, [118]⟩),
            .entity false [117] (.ndata (.system ⟨.dq, [103]⟩) [110]),
            .entity false [120] (.ext (.system ⟨.dq, [102]⟩)),
            .peRef [112],
            .entity false [122] (.value ⟨.dq, [119]⟩)]⟩, misc2 := [] }

/-! ## the event model: refusal at the first thing the parser would report; nothing expanded or
      fetched where no handler is reached (what IS guaranteed for C13-F4 / C13-F5) -/

/-- **scan_verdict_is_first_event.**  The verdict of the scan is read off the FIRST event of the
    prolog: the handlers of the safe parser raise at the first entity declaration the parser
    processes, or at the request for the external subset — before any later event. -/
theorem scan_verdict_is_first_event (p : Prolog) : firstHandler p = verdictOfEvents (prologEvents p) := by
  unfold firstHandler prologEvents XsVerif.Prolog.Prolog.liveEnts XsVerif.Prolog.Prolog.extRequested
  cases hd : p.doctype with
  | none => rfl
  | some d =>
    simp only [firstLive_eq_head]
    cases hl : XsVerif.Prolog.liveEnts p.standalone true (d.subset.getD []) with
    | nil => by_cases hx : (d.ext.isSome && !p.standalone) = true <;> simp [verdictOfEvents, hx]
    | cons e es => simp [verdictOfEvents]

/-- **scan_refuses_iff.**  For every prolog of the grammar: the scan of the rendered document
    reaches a handler (the document is refused where defusing applies) iff the internal subset
    contains an entity declaration that the parser processes, or the DOCTYPE has an external
    identifier and the document is not standalone="yes" — i.e. iff the parser would report
    anything at all. -/
theorem scan_refuses_iff (p : Prolog) (root : Bytes) (hwf : p.wf = true) (hr : startsTag root = true) :
    classify (p.render ++ root) ≠ .clean ↔ p.liveEnts ≠ [] ∨ p.extRequested = true := by
  rw [classify_render p root hwf hr, scan_verdict_is_first_event]
  unfold prologEvents
  cases hl : p.liveEnts with
  | nil => by_cases hx : p.extRequested = true <;> simp [verdictOfEvents, hx]
  | cons e es =>
    have := (entityVerdict_ne_clean e.2.1 e.2.2).1
    simp [verdictOfEvents, this]

/-- **clean_scan_nothing_hot** (C13-F4, C13-F5 restated).  Whenever the scan reaches no handler —
    in particular for a standalone="yes" document with an external subset, and for entity
    declarations that follow a reference to an unreadable parameter entity — the parser processes
    no entity declaration, does not request the external subset, and EVERY entity reference in the
    content is an "undefined entity" error: nothing is expanded, nothing is fetched. -/
theorem clean_scan_nothing_hot (p : Prolog) (root : Bytes) (refs : List Bytes) (hwf : p.wf = true)
    (hr : startsTag root = true) (hc : classify (p.render ++ root) = .clean) :
    docEvents p refs = refs.map .undefinedRef := by
  have h : ¬ (p.liveEnts ≠ [] ∨ p.extRequested = true) := fun hh => ((scan_refuses_iff p root hwf hr).mpr hh) hc
  simp only [not_or, ne_eq, Decidable.not_not, Bool.not_eq_true] at h
  simp [docEvents, prologEvents, refEvent, h.1, h.2, lookupGeneral]

/-- … conversely: a document in which the parser would expand an entity or request the external
    subset is always refused by the scan, and (scan_verdict_is_first_event) at the first event. -/
theorem hot_implies_refused (p : Prolog) (root : Bytes) (refs : List Bytes) (e : PEv) (hwf : p.wf = true)
    (hr : startsTag root = true) (he : e ∈ docEvents p refs) (hh : e.hot = true) :
    classify (p.render ++ root) ≠ .clean := by
  intro hc
  rw [clean_scan_nothing_hot p root refs hwf hr hc] at he
  obtain ⟨n, -, rfl⟩ := List.mem_map.mp he
  simp [PEv.hot] at hh

example : docEvents witnessStandalone [[101]] = [.undefinedRef [101]] ∧
    docEvents witnessPeRef [[101]] = [.undefinedRef [101]] := by decide
example : docEvents samplePrologyEv [[101], [117], [120], [122]] =
    [.declared (.entity [101]), .declared (.unparsed [117]), .declared (.entity [120]), .extSubset,
     .expanded [101], .binaryRef [117], .undefinedRef [120], .undefinedRef [122]] := by decide

/-! ## first sentence, end to end: scanner verdict + decision table -/

/-- When defusing applies, a regular prolog that declares an entity or references an external
    subset never reaches the parser, whatever the channel, the length of the document and the
    position of its first start tag. -/
theorem defused_prolog_never_parsed (v : Variant) (m : Mode) (b : BaseClass) (ch : Chan) (p : Prolog) (root : Bytes)
    (total tagEnd : Nat) (h : isDefused m b = true) (hwf : p.wf = true) (hr : startsTag root = true)
    (hg : regular p = true) (hm : mustRefuse p = true) :
    outcomeDoc v (plan v m b ch) (classify (p.render ++ root) != .clean) total tagEnd ≠ .parsed := by
  rw [classify_render_mustRefuse_partial p root hwf hr hg, hm]
  exact defused_entities_never_parsed v m b ch _ _ h

/-! ## the included-schema role: every resource of a build goes through the scan -/

/-- **every_parse_scanned.**  In the trace of a schema build (main schema, includes, redefines,
    overrides, imports, nested to any depth), every resource that is handed to the parser while
    defusing applies to it was scanned immediately before, and is not a document that must be
    refused. -/
theorem every_parse_scanned (v : Variant) (m : Mode) (f : Forest) (pre post : List Ev) (r : Res)
    (ht : (build v m f).1 = pre ++ .parsed r :: post) (hd : isDefused m r.base = true) :
    r.mustRefuse = false ∧ ∃ pre', pre = pre' ++ [.scanned r] := by
  have h := build_ok v m f none
  rw [ht] at h
  obtain ⟨h1, h2⟩ := okFrom_spec m r post hd pre none h
  exact ⟨h1, lastOr_some_iff pre _ h2⟩

/-- a document that must be refused is never parsed in a build when defusing applies to it -/
theorem build_refused_never_parsed (v : Variant) (m : Mode) (f : Forest) (r : Res)
    (hd : isDefused m r.base = true) (hm : r.mustRefuse = true) : .parsed r ∉ (build v m f).1 := by
  intro hmem
  obtain ⟨pre, post, ht⟩ := List.append_of_mem hmem
  have := (every_parse_scanned v m f pre post r ht hd).1
  simp [hm] at this

/-- the included-schema role: a refused include (redefine, override) aborts the build of the
    including schema with the forbidden-resource error; nothing after it is loaded -/
theorem include_forbidden_raises (v : Variant) (m : Mode) (r : Res) (c s : Forest)
    (h : resOutcome v m r = .forbidden) :
    build v m (.cons r .incl c s) = (resEvents v m r, .raised .forbidden) := by
  simp [build, h, swallowed]

/-- … and the main schema that includes it raises the same error -/
theorem main_include_forbidden_raises (v : Variant) (m : Mode) (r0 r : Res) (c s : Forest)
    (h0 : resOutcome v m r0 = .parsed) (h : resOutcome v m r = .forbidden) :
    (build v m (.cons r0 .main (.cons r .incl c s) .nil)).2 = .raised .forbidden := by
  simp [build, h0, h, swallowed]

/-- characterisation of the other role: a refused *import* is not loaded either, but the loader
    turns the error into a warning and goes on (loaders.py:188-201) -/
theorem import_forbidden_skipped (v : Variant) (m : Mode) (r : Res) (c s : Forest)
    (h : resOutcome v m r = .forbidden) :
    build v m (.cons r .imp c s) = (resEvents v m r ++ (build v m s).1, (build v m s).2) := by
  simp [build, h, swallowed]

def resA : Res := ⟨0, .absent, ⟨true, .other, false, false⟩, false, 100, 40⟩
def resB : Res := ⟨1, .loc, ⟨true, .buffered, false, true⟩, false, 100, 40⟩
def resC : Res := ⟨2, .remote, ⟨false, .buffered, false, true⟩, true, 100, 40⟩

example : build .current .remote (.cons resA .main (.cons resB .incl (.cons resC .incl .nil .nil) .nil) .nil) =
    ([.opened resA, .parsed resA, .opened resB, .parsed resB, .opened resC, .scanned resC,
      .failed resC .forbidden], .raised .forbidden) := by decide

/-! ## the caller: a file-like source in ANY initial state

  The reader theorems above (`rewind_exact` …) are about the wrapper `defuse_xml` builds; these are about
  `XMLResource.open()` itself: whatever position the stream is at when the library opens it (sniffed by
  the application, used before by another call), what the parser is fed is what the scan was fed.
  Seeded change C13-5 (no rewind before the scan when defusing applies) is what they exclude. -/

open XsVerif.OpenFlow

/-- **open_scanned_eq_parsed.**  For every stream (seekable or not, any content) and every initial
    position: the bytes the scan is fed are the bytes the parser is fed. -/
theorem open_scanned_eq_parsed (st : Stream) : st.scanned = st.parsed := by
  cases h : st.seekable <;> simp [Stream.scanned, Stream.parsed, Stream.afterGuard, Stream.parseFrom, h]

/-- … and for a seekable stream both are the WHOLE document, for every initial position. -/
theorem open_seekable_whole (st : Stream) (h : st.seekable = true) :
    st.scanned = st.data ∧ st.parsed = st.data := by
  simp [Stream.scanned, Stream.parsed, Stream.afterGuard, Stream.parseFrom, h]

/-- Whatever `open()` hands to the parser while defusing applies has itself gone through the scan
    and reached no handler. -/
theorem open_parsed_was_scanned (st : Stream) (b : List Nat) (h : openResult true st = some b) :
    b = st.scanned ∧ scanPasses (classify b) = true := by
  unfold openResult at h
  by_cases hp : scanPasses (classify st.scanned) = true
  · simp [hp] at h
    rw [open_scanned_eq_parsed]
    exact ⟨h.symm, by rw [← h, ← open_scanned_eq_parsed]; exact hp⟩
  · simp [hp] at h

/-- The initial position of a seekable stream has no influence on the result of `open()`. -/
theorem open_position_irrelevant (d : Bool) (st : Stream) (k : Nat) (h : st.seekable = true) :
    openResult d { st with pos := k } = openResult d st := by
  simp [openResult, Stream.scanned, Stream.parsed, Stream.afterGuard, Stream.parseFrom, h]

/-- **open_refuses_at_any_position.**  A document of the grammar whose prolog reaches a handler is
    refused when it is given as a seekable stream at ANY position (inside the XML declaration,
    inside the DOCTYPE, after it, at the end, …). -/
theorem open_refuses_at_any_position (p : Prolog) (root : Bytes) (k : Nat) (hwf : p.wf = true)
    (hr : startsTag root = true) (hne : firstHandler p ≠ .clean) :
    openResult true ⟨true, p.render ++ root, k⟩ = none := by
  have hm := render_never_malformed p root hwf hr
  have hc := classify_render p root hwf hr
  have hs : Stream.scanned ⟨true, p.render ++ root, k⟩ = p.render ++ root := by
    simp [Stream.scanned, Stream.afterGuard]
  unfold openResult
  rw [hs]
  cases hv : classify (p.render ++ root) <;> simp_all [scanPasses]

/-- a non-seekable stream at position `k` (`scanned` = the rest of the stream): the wrapper is built over it; after any
    scan and a successful rewind the parser is fed exactly `parsed` (instance of `rewind_exact`) -/
theorem open_nonseekable_exact (st : Stream) (g : Bool) (size : Nat) (ks : List Nat) (r1 : Reader)
    (hs : ((Reader.init g size st.scanned).readMany ks).2.seek 0 = some r1) :
    (r1.read none).1 = st.parsed := by
  rw [← open_scanned_eq_parsed]
  exact (rewind_exact st.scanned g size ks [] r1 hs).2.2

/-- `<!DOCTYPE r [<!ENTITY e "v">]><r/>` -/
def entityDoc : Bytes :=
  (⟨false, none, [], some ⟨[114], none, some [.entity false [101] (.value ⟨.dq, [118]⟩)]⟩, []⟩ : Prolog).render ++
    [60, 114, 47, 62]

/-- the code refuses the document at position 5; without the guard (seeded change C13-5) the scan
    starts at `CTYPE …`, ends in a syntax error that is swallowed, and the whole document — entity
    declaration included — goes to the parser -/
example : openResult true ⟨true, entityDoc, 5⟩ = none ∧
    openResultSeeded true ⟨true, entityDoc, 5⟩ = some entityDoc ∧
    classify entityDoc = .entity [101] := by decide +kernel
example : openResult true ⟨false, entityDoc, 30⟩ = some [60, 114, 47, 62] := by decide +kernel

/-! ## the caller: a file-like source that declares a URL is scanned ITSELF

  Seeded change C13-6 (the defuse decision of open() consults the `url` attribute of the given stream and
  scans a second resource opened from it) is what these exclude. -/

/-- a file-like source never takes the "double opening" branch, whatever it is and declares -/
theorem given_never_second_open (v : Variant) (m : Mode) (b : BaseClass) (g : Given) :
    plan v m b g.chan ≠ .secondOpen := by
  unfold plan Given.chan Given.selfUrl
  simp only [Option.isSome_none]
  repeat' split
  all_goals simp_all

/-- **given_scan_ignores_declared_url.**  The bytes scanned (and the bytes parsed) do not depend on the
    URL the object declares nor on what is reachable at any URL. -/
theorem given_scan_ignores_declared_url (v : Variant) (m : Mode) (b : BaseClass) (web web' : Nat → List Nat)
    (g : Given) (u : Option Nat) :
    scanInput v m b web { g with declared := u } = scanInput v m b web' g ∧
    parseInput v m b { g with declared := u } = parseInput v m b g := by
  have h1 := given_never_second_open v m b g
  have hc : Given.chan { g with declared := u } = g.chan := rfl
  unfold scanInput parseInput
  rw [hc]
  cases hp : plan v m b g.chan <;> simp_all

/-- **given_scanned_is_parsed.**  When a stream is given and defusing applies, whatever reaches the
    parser is exactly what the scan was fed — the content of THAT stream (for a seekable one the
    whole of it, `open_seekable_whole`). -/
theorem given_scanned_is_parsed (v : Variant) (m : Mode) (b : BaseClass) (web : Nat → List Nat) (g : Given)
    (hd : isDefused m b = true) (bs : List Nat) (hp : parseInput v m b g = some bs) :
    scanInput v m b web g = some bs ∧ bs = g.st.scanned := by
  have h1 := given_never_second_open v m b g
  have h2 : plan v m b g.chan ≠ .noDefuse := fun e => by
    have := (plan_noDefuse_iff v m b g.chan).mp e; simp [hd] at this
  unfold scanInput
  unfold parseInput at hp
  cases hpl : plan v m b g.chan <;> simp_all [open_scanned_eq_parsed]

/-- a source given as a URL: the double opening scans what the same URL delivers (equal to what is parsed
    as long as the location answers the same twice — the documented limit of that branch) -/
example (web : Nat → List Nat) (u : Nat) : urlScanInput web u = urlParseInput web u := rfl

/-- the seeded variant scans the content at the declared URL instead of the stream: a non-seekable
    buffered stream with a custom opener that declares URL 7 (clean content there) while it carries
    `entityDoc` itself -/
example :
    let g : Given := ⟨⟨false, entityDoc, 0⟩, .buffered, true, some 7⟩
    let web : Nat → List Nat := fun _ => [60, 114, 47, 62]
    scanInput .repaired .always .absent web g = some entityDoc ∧
    scanInputSeeded .repaired .always .absent web g = some [60, 114, 47, 62] ∧
    parseInput .repaired .always .absent g = some entityDoc := by decide +kernel

end XsVerif.Props.C13
