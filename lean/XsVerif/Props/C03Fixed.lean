/-
  C03 — the validity clause for BOTH variants of the fixed-value test (the code before and after the repair of
  finding C03-F3, Model/AttrFixed.lean), and the strengthened value-space theorem that the repair makes true:

    * `attrs_valid_iff_variants`   errorsX … = [] ⇔ Ok, for any marking `q` of context-dependent types; the
                                   fixed-value test has to be reflexive, and the value constraints valid in
                                   the instance context, only for the unmarked types
    * `variants_agree_unmarked`    with no marked type the variant chain is `Attributes.errors`
                                   (so `attrs_valid_iff` is the instance `q = fun _ => false`)
    * `attrs_valid_iff_cat_variants` the same with the concrete catalogue semantics `semCatV byValue`
    * `fixed_test_value`           byValue = true: for EVERY catalogue type, xs:QName included, the fixed-value
                                   test holds iff both literals denote the same value (QName: same namespace
                                   name and local part, each literal resolved in its own namespace context)
    * the two QName counter-examples of Props/C03Types.lean are about `semCat` = `semCatV false`
      (`semCatV_false`).
-/
import XsVerif.Props.C03Types
import XsVerif.Lemmas.AttrFixed

namespace XsVerif.Props.C03Fixed
open XsVerif.Wildcard XsVerif.Attributes XsVerif.AttrTypes XsVerif.Datatypes XsVerif.Props.C03
open XsVerif.Props.C03Types

/-- schema-build guarantee needed for the unmarked types only: their value constraints are valid -/
def WFq (s : Sem) (q : Nat → Bool) (G : Group) : Prop :=
  ∀ d ∈ G.decls, q d.ty = false →
    (∀ f, d.fixed = some f → s.validT d.ty f = true) ∧ (∀ f, d.dflt = some f → s.validT d.ty f = true)

theorem anyErrsX_nil_iff (s : Sem) (q : Nat → Bool) (hrefl : ∀ t x, q t = false → s.valueEq t x x = true)
    (env : Attributes.Env) (hg : (env.globals.map (·.name)).Nodup) (a : AnyAttr) (n : QN) (v : String) :
    anyErrsX s q env a n v = [] ↔ (anyMatches env a n = true ∧ PcOk s env a.pc n v) := by
  unfold anyErrsX PcOk
  simp only [List.append_eq_nil_iff]
  have hdo := declErrsX_nil_iff s q hrefl
  cases hm : anyMatches env a n
  · simp
  · simp only [if_true, true_and]
    cases hpc : a.pc
    · -- strict
      simp only [show (PC.strict == PC.skip) = false from rfl, show (PC.strict == PC.strict) = true from rfl]
      by_cases hl : n.ns ∈ env.loaded
      · have : env.loaded.contains n.ns = true := by simpa using hl
        simp only [this, if_true, hl, true_and]
        cases hlk : lookup env.globals n with
        | none =>
          simp only [Bool.false_eq_true, if_false, if_true]
          have := lookup_none_iff.mp hlk
          constructor
          · intro h; cases h
          · rintro ⟨g, hg1, hg2, -⟩; exact absurd hg2 (this g hg1)
        | some g =>
          obtain ⟨hg1, hg2⟩ := lookup_some_mem hlk
          simp only [Bool.false_eq_true, if_false]
          rw [hdo]
          constructor
          · intro h; exact ⟨g, hg1, hg2, h⟩
          · rintro ⟨g', hg1', hg2', h⟩
            have e1 := lookup_of_nodup hg hg1'
            rw [hg2', hlk] at e1
            cases e1; exact h
      · have : env.loaded.contains n.ns = false := by simpa using hl
        simp [this, hl]
    · -- lax
      simp only [show (PC.lax == PC.skip) = false from rfl, show (PC.lax == PC.strict) = false from rfl]
      by_cases hl : n.ns ∈ env.loaded
      · have : env.loaded.contains n.ns = true := by simpa using hl
        simp only [this, if_true, hl, true_imp_iff]
        cases hlk : lookup env.globals n with
        | none =>
          have := lookup_none_iff.mp hlk
          simp only [Bool.false_eq_true, if_false, true_iff]
          intro g hg1 hg2; exact absurd hg2 (this g hg1)
        | some g =>
          obtain ⟨hg1, hg2⟩ := lookup_some_mem hlk
          simp only [Bool.false_eq_true, if_false]
          rw [hdo]
          constructor
          · intro h g' hg1' hg2'
            have e1 := lookup_of_nodup hg hg1'
            rw [hg2', hlk] at e1
            cases e1; exact h
          · intro h; exact h g hg1 hg2
      · have : env.loaded.contains n.ns = false := by simpa using hl
        simp [this, hl]
    · simp

/-- an injected value constraint never produces an error -/
theorem stepErrsX_additional (s : Sem) (q : Nat → Bool) (env : Attributes.Env) (o : Opts) (G : Group)
    (A : List Attr) (hleg : o.legacy = false) (hwf : WFq s q G) (hnd : (G.decls.map (·.name)).Nodup)
    (a : Attr) (ha : a ∈ additional o G A) : stepErrsX s q env true G a = [] := by
  obtain ⟨d, hd, -, hc, hn⟩ := mem_additional.mp ha
  obtain ⟨n, v⟩ := a
  simp only at hc hn
  subst hn
  unfold stepErrsX
  simp only [lookup_of_nodup hnd hd]
  obtain ⟨hu, hv⟩ := (constraintOf_some_iff o hleg d v).mp hc
  have hb : (d.use == Use.prohibited) = false := by simpa using hu
  unfold declaredErrsX
  simp only [hb, Bool.false_eq_true, if_false]
  unfold declErrsX
  cases hq : q d.ty with
  | true => simp
  | false =>
    obtain ⟨w1, w2⟩ := hwf d hd hq
    simp only [Bool.and_false, Bool.false_eq_true, if_false, Bool.false_or]
    rcases hv with hv | ⟨hv1, -, hv3⟩
    · simp [hv, w1 v hv]
    · simp [hv1, w2 v hv3]

theorem stepErrsX_nil_iff (s : Sem) (q : Nat → Bool) (hrefl : ∀ t x, q t = false → s.valueEq t x x = true)
    (env : Attributes.Env) (G : Group) (hnd : (G.decls.map (·.name)).Nodup)
    (hg : (env.globals.map (·.name)).Nodup) (hxsi : ∀ d ∈ G.decls, d.name.ns ≠ xsiNs)
    (a : Attr) : stepErrsX s q env false G a = [] ↔ AttrOk s env G a.1 a.2 := by
  obtain ⟨n, v⟩ := a
  simp only
  unfold stepErrsX AttrOk
  simp only
  have hdo := declErrsX_nil_iff s q hrefl
  have hao := anyErrsX_nil_iff s q hrefl env hg
  cases hlk : lookup G.decls n with
  | some d =>
    obtain ⟨hd1, hd2⟩ := lookup_some_mem hlk
    simp only
    unfold declaredErrsX
    by_cases hu : d.use = .prohibited
    · have hno : ¬ ∃ d', Uses G n d' := by
        rintro ⟨d', hd'⟩
        have := uses_unique hnd hlk hd'
        subst this
        exact hd'.2.2 hu
      have hnx : ¬ XsiBuiltin env n := by
        rintro ⟨h, -⟩; exact hxsi d hd1 (hd2 ▸ h)
      simp only [hu, beq_self_eq_true, if_true]
      have hsimp : ((∃ d', Uses G n d' ∧ DeclOk s d' v) ∨ (¬ ∃ d', Uses G n d') ∧
          ((XsiBuiltin env n ∧ ∃ g ∈ env.globals, g.name = n ∧ DeclOk s g v) ∨
           (¬ XsiBuiltin env n ∧ WildOk s env G n v))) ↔ WildOk s env G n v := by
        constructor
        · rintro (⟨d', h1, -⟩ | ⟨-, (⟨h, -⟩ | ⟨-, h⟩)⟩)
          · exact absurd ⟨d', h1⟩ hno
          · exact absurd h hnx
          · exact h
        · intro h; exact Or.inr ⟨hno, Or.inr ⟨hnx, h⟩⟩
      rw [hsimp]
      unfold WildOk
      cases hany : G.any with
      | none => simp
      | some w =>
        simp only [Option.some.injEq, exists_eq_left']
        cases hm : anyMatches env w n
        · simp
        · simp only [if_true]
          rw [hao, hm]; simp
    · have hb : (d.use == Use.prohibited) = false := by simpa using hu
      simp only [hb, Bool.false_eq_true, if_false]
      rw [hdo]
      constructor
      · intro h; exact Or.inl ⟨d, ⟨hd1, hd2, hu⟩, h⟩
      · rintro (⟨d', h1, h2⟩ | ⟨hno, -⟩)
        · have := uses_unique hnd hlk h1; subst this; exact h2
        · exact absurd ⟨d, hd1, hd2, hu⟩ hno
  | none =>
    have hnone := lookup_none_iff.mp hlk
    have hno : ¬ ∃ d', Uses G n d' := by
      rintro ⟨d', h1, h2, -⟩; exact hnone d' h1 h2
    simp only
    have hsimp : ∀ P Q : Prop, ((∃ d', Uses G n d' ∧ DeclOk s d' v) ∨ (¬ ∃ d', Uses G n d') ∧ (P ∨ Q)) ↔ (P ∨ Q) := by
      intro P Q
      constructor
      · rintro (⟨d', h1, -⟩ | ⟨-, h⟩)
        · exact absurd ⟨d', h1⟩ hno
        · exact h
      · intro h; exact Or.inr ⟨hno, h⟩
    rw [hsimp]
    have hwild : (match G.any with
        | some w => anyErrsX s q env w n v
        | none => [Err.notAllowed n]) = [] ↔ WildOk s env G n v := by
      unfold WildOk
      cases hany : G.any with
      | none => simp
      | some w => simp only [Option.some.injEq, exists_eq_left']; rw [hao]
    have hwild' : (match G.any with
        | some w => anyErrsX s q env w n v
        | none => [Err.notXsi n]) = [] ↔ WildOk s env G n v := by
      unfold WildOk
      cases hany : G.any with
      | none => simp
      | some w => simp only [Option.some.injEq, exists_eq_left']; rw [hao]
    by_cases hx : n.ns = xsiNs
    · simp only [hx, beq_self_eq_true, if_true]
      cases hgl : lookup env.globals n with
      | some g =>
        obtain ⟨hg1, hg2⟩ := lookup_some_mem hgl
        have hb : XsiBuiltin env n := ⟨hx, g, hg1, hg2⟩
        simp only
        rw [hdo]
        constructor
        · intro h; exact Or.inl ⟨hb, g, hg1, hg2, h⟩
        · rintro (⟨-, g', h1, h2, h3⟩ | ⟨h, -⟩)
          · have e1 := lookup_of_nodup hg h1
            rw [h2, hgl] at e1
            cases e1; exact h3
          · exact absurd hb h
      | none =>
        have hgn := lookup_none_iff.mp hgl
        have hb : ¬ XsiBuiltin env n := by
          rintro ⟨-, g, h1, h2⟩; exact hgn g h1 h2
        simp only
        refine hwild'.trans ?_
        constructor
        · intro h; exact Or.inr ⟨hb, h⟩
        · rintro (⟨h, -⟩ | ⟨-, h⟩)
          · exact absurd h hb
          · exact h
    · have hb : ¬ XsiBuiltin env n := fun h => hx h.1
      have hbe : (n.ns == xsiNs) = false := by simpa using hx
      simp only [hbe, Bool.false_eq_true, if_false]
      refine hwild.trans ?_
      constructor
      · intro h; exact Or.inr ⟨hb, h⟩
      · rintro (⟨h, -⟩ | ⟨-, h⟩)
        · exact absurd h hb
        · exact h

/-- **C03, validity clause, both variants of the fixed-value test.**  `q` marks the context-dependent types
    (none before the repair of C03-F3, xs:QName after it): the decoder reports no error exactly when the
    attribute set is valid. -/
theorem attrs_valid_iff_variants (s : Sem) (q : Nat → Bool) (env : Attributes.Env) (o : Opts) (G : Group)
    (A : List Attr) (hleg : o.legacy = false) (hrefl : ∀ t x, q t = false → s.valueEq t x x = true)
    (hwf : WFq s q G) (hnd : (G.decls.map (·.name)).Nodup) (hg : (env.globals.map (·.name)).Nodup)
    (hxsi : ∀ d ∈ G.decls, d.name.ns ≠ xsiNs) :
    errorsX s q env o G A = [] ↔ Ok s env G A := by
  unfold errorsX Ok
  simp only [List.append_eq_nil_iff, List.flatMap_eq_nil_iff]
  rw [missing_nil_iff]
  constructor
  · rintro ⟨⟨h1, h2⟩, -⟩
    exact ⟨h1, fun a ha => (stepErrsX_nil_iff s q hrefl env G hnd hg hxsi a).mp (h2 a ha)⟩
  · rintro ⟨h1, h2⟩
    exact ⟨⟨h1, fun a ha => (stepErrsX_nil_iff s q hrefl env G hnd hg hxsi a).mpr (h2 a ha)⟩,
      fun a ha => stepErrsX_additional s q env o G A hleg hwf hnd a ha⟩

/-- with no marked type the variant chain is the chain of Model/Attributes.lean, which `attrs_valid_iff`
    and every other theorem of Props/C03.lean is about -/
theorem variants_agree_unmarked (s : Sem) (env : Attributes.Env) (o : Opts) (hleg : o.legacy = false) (G : Group)
    (A : List Attr) : errorsX s (fun _ => false) env o G A = errors s env o G A :=
  errorsX_eq_errors s env o hleg G A

/-- "missing required attribute" is located in both variants -/
theorem required_error_located_variants (s : Sem) (q : Nat → Bool) (env : Attributes.Env) (o : Opts)
    (G : Group) (A : List Attr) (n : QN) (h : ∃ d ∈ G.decls, d.name = n ∧ d.use = .required ∧ ∀ v, (n, v) ∉ A) :
    Err.missing n ∈ errorsX s q env o G A := by
  obtain ⟨d, hd, hn, hu, hab⟩ := h
  unfold errorsX
  simp only [List.mem_append]
  refine Or.inl (Or.inl ?_)
  unfold missing
  simp only [List.mem_map, List.mem_filter, Bool.and_eq_true, beq_iff_eq, Bool.not_eq_true',
    Err.missing.injEq]
  exact ⟨d, ⟨hd, hu, hn ▸ present_false_iff.mpr hab⟩, hn⟩

/-! ## the catalogue semantics in both variants -/

theorem semCatV_false (inst schema : NsCtx) : semCatV false inst schema = semCat inst := by
  unfold semCatV semCat
  simp

theorem ofIdx_qname {t : Nat} {ty : CatTy} (h : CatTy.ofIdx t = some ty) : (t == CatTy.qname.toIdx) = (ty == .qname) := by
  unfold CatTy.ofIdx at h
  split at h <;> first | (cases h; rfl) | cases h

theorem semCatV_refl (bv : Bool) (inst schema : NsCtx) :
    ∀ t x, qStrict bv t = false → (semCatV bv inst schema).valueEq t x x = true := by
  intro t x hq
  simp only [semCatV]
  cases hty : CatTy.ofIdx t with
  | none => simp
  | some ty =>
    simp only
    have : (bv && ty == .qname) = false := by
      rw [← ofIdx_qname hty]; exact hq
    simp only [this, Bool.false_eq_true, if_false]
    exact sv_refl _

/-- **C03, validity clause, concrete types, both variants** (`byValue` = the tree has the repair of C03-F3) -/
theorem attrs_valid_iff_cat_variants (bv : Bool) (inst schema : NsCtx) (env : Attributes.Env) (o : Opts)
    (G : Group) (A : List Attr) (hleg : o.legacy = false)
    (hwf : WFq (semCatV bv inst schema) (qStrict bv) G)
    (hnd : (G.decls.map (·.name)).Nodup) (hg : (env.globals.map (·.name)).Nodup)
    (hxsi : ∀ d ∈ G.decls, d.name.ns ≠ xsiNs) :
    errorsX (semCatV bv inst schema) (qStrict bv) env o G A = [] ↔ Ok (semCatV bv inst schema) env G A :=
  attrs_valid_iff_variants _ _ env o G A hleg (semCatV_refl bv inst schema) hwf hnd hg hxsi

/-! ## xs:QName by value -/

/-- no namespace name of the context contains '}' (true of every URI) -/
def NoBrace (c : NsCtx) : Prop := ∀ b ∈ c, '}' ∉ b.2.toList

/-- the expanded name as the library writes it -/
def render (ns : String) (l : Str) : Str := if ns.isEmpty then l else '{' :: ns.toList ++ '}' :: l

theorem append_sep_inj : ∀ (a a' l l' : Str), '}' ∉ a → '}' ∉ a' → a ++ '}' :: l = a' ++ '}' :: l' →
    a = a' ∧ l = l'
  | [], [], l, l', _, _, h => by simpa using h
  | [], c :: a', l, l', _, h2, h => by
    simp only [List.nil_append, List.cons_append, List.cons.injEq] at h
    exact absurd (by simp [← h.1]) h2
  | c :: a, [], l, l', h1, _, h => by
    simp only [List.nil_append, List.cons_append, List.cons.injEq] at h
    exact absurd (by simp [h.1]) h1
  | c :: a, c' :: a', l, l', h1, h2, h => by
    simp only [List.cons_append, List.cons.injEq] at h
    obtain ⟨r1, r2⟩ := append_sep_inj a a' l l' (fun m => h1 (by simp [m])) (fun m => h2 (by simp [m])) h.2
    exact ⟨by rw [h.1, r1], r2⟩

theorem ncName_head {l : Str} (h : isNcName l = true) : ∃ c r, l = c :: r ∧ c ≠ '{' ∧ c ≠ ':' := by
  cases l with
  | nil => simp [isNcName] at h
  | cons c r =>
    simp only [isNcName, Bool.and_eq_true] at h
    refine ⟨c, r, rfl, ?_, ?_⟩ <;> (rintro rfl; exact absurd h.1 (by decide))

theorem render_inj {ns ns' : String} {l l' : Str} (h1 : '}' ∉ ns.toList) (h2 : '}' ∉ ns'.toList)
    (hl : isNcName l = true) (hl' : isNcName l' = true) :
    render ns l = render ns' l' ↔ ns = ns' ∧ l = l' := by
  obtain ⟨c, r, rfl, hc, -⟩ := ncName_head hl
  obtain ⟨c', r', rfl, hc', -⟩ := ncName_head hl'
  constructor
  · intro h
    unfold render at h
    by_cases e1 : ns.isEmpty = true <;> by_cases e2 : ns'.isEmpty = true
    · simp only [e1, e2, if_true] at h
      have : ns = ns' := by
        have a1 : ns = "" := by simpa [String.isEmpty_iff] using e1
        have a2 : ns' = "" := by simpa [String.isEmpty_iff] using e2
        rw [a1, a2]
      exact ⟨this, h⟩
    · simp only [e1, e2, if_true, Bool.false_eq_true, if_false, List.cons_append, List.cons.injEq] at h
      exact absurd h.1 hc
    · simp only [e1, e2, if_true, Bool.false_eq_true, if_false, List.cons_append, List.cons.injEq] at h
      exact absurd h.1.symm hc'
    · simp only [e1, e2, Bool.false_eq_true, if_false, List.cons_append, List.cons.injEq, true_and] at h
      obtain ⟨r1, r2⟩ := append_sep_inj _ _ _ _ h1 h2 h
      exact ⟨String.toList_inj.mp r1, r2⟩
  · rintro ⟨rfl, h⟩; rw [h]

theorem find_mem {c : NsCtx} {p : Str} {u : String} (h : c.find p = some u) : ∃ b ∈ c, b.2 = u := by
  unfold NsCtx.find at h
  cases hf : c.find? (fun b => b.1.toList == p) with
  | none => simp [hf] at h
  | some b =>
    simp only [hf, Option.map_some, Option.some.injEq] at h
    exact ⟨b, List.mem_of_find?_eq_some hf, h⟩

theorem splitColon_none {t l : Str} (h : splitColon t = (l, none)) : t = l := by
  unfold splitColon at h
  simp only [Prod.mk.injEq] at h
  obtain ⟨h1, h2⟩ := h
  cases hd : t.dropWhile (· != ':') with
  | nil =>
    have := List.takeWhile_append_dropWhile (p := (· != ':')) (l := t)
    rw [hd, List.append_nil, h1] at this
    exact this.symm
  | cons c r => simp [hd] at h2

theorem splitColon_head {t p : Str} {o : Option Str} {c : Char} {r : Str} (h : splitColon t = (p, o))
    (hp : p = c :: r) : t.head? = some c := by
  unfold splitColon at h
  simp only [Prod.mk.injEq] at h
  cases t with
  | nil => simp [hp] at h
  | cons x xs =>
    have h1 := h.1
    rw [List.takeWhile_cons, hp] at h1
    split at h1
    · simp only [List.cons.injEq] at h1; simp [h1.1]
    · cases h1

/-- a valid QName literal: the library's expanded text is the rendering of its value -/
theorem extQ_valid (c : NsCtx) (hc : NoBrace c) (t : Str) (hv : qnameOk c t = true) :
    ∃ ns l, qnameValue c t = some (ns, l) ∧ extQ c t = render ns l ∧ isNcName l = true ∧ '}' ∉ ns.toList := by
  unfold qnameOk at hv
  unfold qnameValue
  cases hp : qnameParts t with
  | none => simp [hp] at hv
  | some parts =>
    obtain ⟨pre, l⟩ := parts
    have hp0 := hp
    simp only [hp0] at hv ⊢
    unfold qnameParts at hp
    cases hs : splitColon t with
    | mk a b =>
      rw [hs] at hp
      cases b with
      | none =>
        simp only at hp
        split at hp
        · rename_i hnc
          simp only [Option.some.injEq, Prod.mk.injEq] at hp
          obtain ⟨rfl, rfl⟩ := hp
          have hta : t = a := splitColon_none hs
          subst hta
          obtain ⟨c0, r, hcr, hne, -⟩ := ncName_head hnc
          have hhead : t.head? = some c0 := by rw [hcr]; rfl
          have hne' : (t.head? == some '{') = false := by
            rw [hhead]; simpa using hne
          have htne : t.isEmpty = false := by rw [hcr]; rfl
          simp only
          cases hd : c.find [] with
          | none =>
            refine ⟨"", t, rfl, ?_, hnc, by simp⟩
            unfold extQ
            by_cases hce : c.isEmpty = true
            · simp [hce, render]
            · simp [hce, htne, hne', hs, hd, render]
          | some d =>
            obtain ⟨b, hb, hbd⟩ := find_mem hd
            have hnb : '}' ∉ d.toList := hbd ▸ hc b hb
            have hce : c.isEmpty = false := by
              cases c with
              | nil => simp [NsCtx.find] at hd
              | cons _ _ => rfl
            refine ⟨d, t, rfl, ?_, hnc, hnb⟩
            unfold extQ
            simp only [hce, htne, hne', hs, hd, Bool.false_eq_true, if_false, render]
        · cases hp
      | some nm =>
        simp only at hp
        split at hp
        · rename_i hnc
          simp only [Bool.and_eq_true] at hnc
          simp only [Option.some.injEq, Prod.mk.injEq] at hp
          obtain ⟨rfl, rfl⟩ := hp
          simp only at hv ⊢
          cases hd : c.find a with
          | none => simp [hd] at hv
          | some uri =>
            obtain ⟨b, hb, hbd⟩ := find_mem hd
            have hnb : '}' ∉ uri.toList := hbd ▸ hc b hb
            have hce : c.isEmpty = false := by
              cases c with
              | nil => simp [NsCtx.find] at hd
              | cons _ _ => rfl
            obtain ⟨c0, r, hcr, hne, -⟩ := ncName_head hnc.1
            have hhead := splitColon_head hs hcr
            have hne' : (t.head? == some '{') = false := by
              rw [hhead]; simpa using hne
            have htne : t.isEmpty = false := by
              cases t with
              | nil => simp at hhead
              | cons _ _ => rfl
            refine ⟨uri, nm, rfl, ?_, hnc.2, hnb⟩
            unfold extQ
            simp only [hce, htne, hne', hs, hd, Bool.false_eq_true, if_false, render]
        · cases hp

/-- **C03, "equal in value space to any fixed value", with the repair of C03-F3 — ALL catalogue types.**
    The test the repaired code makes between a valid attribute value (namespace context `inst` of the
    instance) and the valid fixed value (namespace context `schema`) holds exactly when both literals denote
    the same value; for xs:QName: the same namespace name and local part, whatever prefixes are used. -/
theorem fixed_test_value (inst schema : NsCtx) (hi : NoBrace inst) (hs : NoBrace schema) (ty : CatTy)
    (v f : String) (hv : validLex inst ty v.toList = true) (hf : validLex schema ty f.toList = true) :
    (semCatV true inst schema).valueEq ty.toIdx v f = true ↔ SameValue inst schema ty v.toList f.toList := by
  by_cases hq : ty = .qname
  · subst hq
    simp only [semCatV, ofIdx_toIdx, Bool.true_and, beq_self_eq_true, if_true, beq_iff_eq, SameValue, valueOf]
    simp only [validLex] at hv hf
    obtain ⟨n1, l1, e1, x1, c1, b1⟩ := extQ_valid inst hi _ hv
    obtain ⟨n2, l2, e2, x2, c2, b2⟩ := extQ_valid schema hs _ hf
    rw [x1, x2, render_inj b1 b2 c1 c2, e1, e2]
    constructor
    · rintro ⟨rfl, rfl⟩
      exact ⟨.qname n1 l1, .qname n1 l1, rfl, rfl, rfl, rfl⟩
    · rintro ⟨a, b, ha, hb, hs'⟩
      simp only [Option.map_some, Option.some.injEq] at ha hb
      subst ha; subst hb
      exact hs'
  · have : (semCatV true inst schema).valueEq ty.toIdx v f = (semCat inst).valueEq ty.toIdx v f := by
      have hb : (ty == CatTy.qname) = false := by simpa using hq
      simp only [semCatV, semCat, ofIdx_toIdx, hb, Bool.and_false, Bool.false_eq_true, if_false]
    rw [this]
    exact fixed_test_value_partial inst schema ty hq v f hv hf

/-! ## Non-vacuity: the C03-F3 witnesses under the repaired semantics -/

example : NoBrace ctxP ∧ NoBrace ctxT ∧ NoBrace ctxTo := by
  refine ⟨?_, ?_, ?_⟩ <;> (intro b hb; simp [ctxP, ctxT, ctxTo] at hb; rcases hb with rfl | rfl <;> decide) <;> skip
/-- witness 1: same value through another prefix — accepted with the repair -/
example : (semCatV true ctxP ctxT).valueEq CatTy.qname.toIdx "p:x" "t:x" = true := by decide
/-- witness 2: same text, prefix bound to another namespace — rejected with the repair (no text short-cut) -/
example : errorsX (semCatV true ctxTo ctxT) (qStrict true) envEmpty {}
    { decls := [{ name := ⟨"", "q"⟩, fixed := some "t:x", ty := CatTy.qname.toIdx }], any := none }
    [(⟨"", "q"⟩, "t:x")] = [.fixedMismatch ⟨"", "q"⟩] := by decide
example : errorsX (semCatV true ctxP ctxT) (qStrict true) envEmpty {}
    { decls := [{ name := ⟨"", "q"⟩, fixed := some "t:x", ty := CatTy.qname.toIdx }], any := none }
    [(⟨"", "q"⟩, "p:x")] = [] := by decide
/-- an ABSENT attribute with a fixed QName whose prefix the instance does not bind: nothing is reported with
    the repair; the code before it validates the injected literal in the instance context -/
example : errorsX (semCatV true ctxP ctxT) (qStrict true) envEmpty {}
    { decls := [{ name := ⟨"", "q"⟩, fixed := some "t:x", ty := CatTy.qname.toIdx }], any := none } [] = [] := by decide
example : errorsX (semCatV false ctxP ctxT) (qStrict false) envEmpty {}
    { decls := [{ name := ⟨"", "q"⟩, fixed := some "t:x", ty := CatTy.qname.toIdx }], any := none } [] =
    [.invalidValue ⟨"", "q"⟩] := by decide
/-- the counter-examples of Props/C03Types.lean are statements about the flag-false variant -/
example : (semCatV false ctxP ctxT).valueEq CatTy.qname.toIdx "p:x" "t:x" = false := by
  rw [semCatV_false]; exact fixed_qname_rejects_counterexample.2.2.2

end XsVerif.Props.C03Fixed
