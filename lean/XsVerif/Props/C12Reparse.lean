/-
  C12 — the settings of a resource object survive a rebuild: fetches made through `parse()` AFTER
  construction (xml_resource.py: `parse` = `self.__class__(**self.get_arguments(), source=..)`).

  The state of a resource object, as far as access control is concerned, is the record of settings
  every rebuild starts from (`get_arguments()`): allow mode, base URL, uri mapper.  It does not
  depend on the class of the object.  A `parse(loc)` step constructs a resource for `loc` with exactly
  these settings; a refused / undecided / unreadable step leaves the object alone; after a successful
  step `base_url` reads as the directory of the new URL (`BaseUrlOption.__get__`), nothing else moves.
  The harness (family `reparse`) compares every step of the real classes (XMLResource, XmlDocument,
  Wsdl11Document, user subclasses one and two levels deeper, mixins) with `parseStep`.
-/
import XsVerif.Props.C12

namespace XsVerif.Props.C12
open XsVerif.Access

/-- the access settings held by a resource object (what `get_arguments()` hands to a rebuild) -/
structure ResState where
  allow : Allow
  base : Option Bytes
  mapper : Mapper
  deriving DecidableEq, Repr

/-- one `parse(loc)`: the new state and the event of the one resource construction it makes -/
def parseStep (cwd : Bytes) (readable : Norm → Bool) (s : ResState) (loc : Bytes) : ResState × Event :=
  let loc' := applyMapper s.mapper (strip loc)
  let r := resolveWith s.allow cwd s.base loc'
  match r.decision with
  | some .ok =>
    if readable r.norm then
      match childBase cwd s.base loc' r.norm with
      | some cb => ({ s with base := some cb }, .opened s.base loc r.norm)
      | none => (s, .opened s.base loc r.norm)
    else (s, .opened s.base loc r.norm)
  | some d => (s, .blocked s.base loc d)
  | none => (s, .undecided s.base loc)

/-- a history of `parse()` calls on one object -/
def parseRun (cwd : Bytes) (readable : Norm → Bool) : ResState → List Bytes → ResState × List Event
  | s, [] => (s, [])
  | s, l :: ls =>
    let r1 := parseStep cwd readable s l
    let r2 := parseRun cwd readable r1.1 ls
    (r2.1, r1.2 :: r2.2)

theorem parseStep_keeps (cwd : Bytes) (readable : Norm → Bool) (s : ResState) (loc : Bytes) :
    (parseStep cwd readable s loc).1.allow = s.allow ∧ (parseStep cwd readable s loc).1.mapper = s.mapper := by
  unfold parseStep
  simp only
  split
  · split
    · split <;> exact ⟨rfl, rfl⟩
    · exact ⟨rfl, rfl⟩
  · exact ⟨rfl, rfl⟩
  · exact ⟨rfl, rfl⟩

/-- SETTINGS SURVIVE: after any history of parse() calls — permitted, refused, failed, in any order —
    the allow mode and the uri mapper of the object are the configured ones. -/
theorem parse_keeps_settings (cwd : Bytes) (readable : Norm → Bool) (ls : List Bytes) :
    ∀ s, (parseRun cwd readable s ls).1.allow = s.allow ∧ (parseRun cwd readable s ls).1.mapper = s.mapper := by
  induction ls with
  | nil => intro s; exact ⟨rfl, rfl⟩
  | cons l ls ih =>
    intro s
    have h1 := parseStep_keeps cwd readable s l
    have h2 := ih (parseStep cwd readable s l).1
    simp only [parseRun]
    exact ⟨h2.1.trans h1.1, h2.2.trans h1.2⟩

/-- induction principle for parse histories, same shape as `load_forall` -/
theorem parse_forall (a : Allow) (cwd : Bytes) (m : Mapper) (readable : Norm → Bool)
    (P : Event → Prop) (Inv : Option Bytes → Prop)
    (hstep : ∀ b loc, Inv b →
      let r := resolveWith a cwd b (applyMapper m (strip loc))
      (r.decision = some .ok → P (.opened b loc r.norm) ∧
        (readable r.norm = true → ∀ cb, childBase cwd b (applyMapper m (strip loc)) r.norm = some cb → Inv (some cb))) ∧
      (∀ d, r.decision = some d → d ≠ .ok → P (.blocked b loc d)) ∧ P (.undecided b loc))
    (ls : List Bytes) : ∀ s, s.allow = a → s.mapper = m → Inv s.base →
      ∀ e ∈ (parseRun cwd readable s ls).2, P e := by
  induction ls with
  | nil => intro s _ _ _ e he; simp [parseRun] at he
  | cons l ls ih =>
    intro s ha hm hb e he
    simp only [parseRun, List.mem_cons] at he
    have hk := parseStep_keeps cwd readable s l
    have hs := hstep s.base l hb
    simp only at hs
    obtain ⟨hok, hbl, hun⟩ := hs
    have key : P (parseStep cwd readable s l).2 ∧ Inv (parseStep cwd readable s l).1.base := by
      unfold parseStep
      simp only [ha, hm]
      split
      · rename_i hdec
        obtain ⟨hP, hch⟩ := hok hdec
        split
        · rename_i hr
          split
          · rename_i cb hcb
            exact ⟨hP, hch hr cb hcb⟩
          · exact ⟨hP, hb⟩
        · exact ⟨hP, hb⟩
      · rename_i d hne hdec
        exact ⟨hbl d hdec (fun hd => hne hd), hb⟩
      · exact ⟨hun, hb⟩
    rcases he with he | he
    · rw [he]; exact key.1
    · exact ih _ (hk.1.trans ha) (hk.2.trans hm) key.2 e he

/-- EVERY FETCH THROUGH parse() IS CHECKED under the allow mode the object was CONFIGURED with,
    whatever happened to the object before. -/
theorem parse_every_fetch_checked (cwd : Bytes) (readable : Norm → Bool) (s : ResState) (ls : List Bytes) :
    ∀ e ∈ (parseRun cwd readable s ls).2, Checked s.allow cwd s.mapper e := by
  refine parse_forall s.allow cwd s.mapper readable (Checked s.allow cwd s.mapper) (fun _ => True) ?_ ls s rfl rfl trivial
  intro b loc _
  refine ⟨fun h => ⟨⟨h, resolveWith_norm ..⟩, fun _ _ _ => trivial⟩, fun _ _ _ => trivial, trivial⟩

/-- allow='none': no history of parse() calls opens anything. -/
theorem parse_none_opens_nothing (cwd : Bytes) (readable : Norm → Bool) (s : ResState) (hs : s.allow = .none)
    (ls : List Bytes) : ∀ e ∈ (parseRun cwd readable s ls).2, e.isOpened = false := by
  refine parse_forall .none cwd s.mapper readable (fun e => e.isOpened = false) (fun _ => True) ?_ ls s hs rfl trivial
  intro b loc _
  refine ⟨fun h => ?_, fun _ _ _ => rfl, rfl⟩
  have := resolve_none_never_ok cwd b (applyMapper s.mapper (strip loc))
  rw [resolve_eq_resolveWith .none (by decide)] at this
  exact absurd h this

/-- allow='remote': whatever a history of parse() calls fetches has a non-local scheme. -/
theorem parse_remote_only_remote (cwd : Bytes) (hcwd : isAbsPath cwd = true) (readable : Norm → Bool)
    (s : ResState) (hs : s.allow = .remote) (ls : List Bytes) :
    ∀ e ∈ (parseRun cwd readable s ls).2, ∀ b' loc n, e = .opened b' loc n →
      ∃ sc nl j, n = .remote sc nl j ∧ isLocalScheme sc = false := by
  refine parse_forall .remote cwd s.mapper readable
    (fun e => ∀ b' loc n, e = .opened b' loc n → ∃ sc nl j, n = .remote sc nl j ∧ isLocalScheme sc = false)
    (fun _ => True) ?_ ls s hs rfl trivial
  intro b loc _
  refine ⟨fun h => ⟨?_, fun _ _ _ => trivial⟩, fun _ _ _ _ _ _ he => (by cases he), fun _ _ _ he => (by cases he)⟩
  intro b' loc' n he
  cases he
  have := resolve_remote_only_remote cwd b (applyMapper s.mapper (strip loc)) hcwd
  rw [resolve_eq_resolveWith .remote (by decide)] at this
  exact this h

/-- allow='local' / 'sandbox': whatever a history of parse() calls fetches is a local file. -/
theorem parse_local_only_files (a : Allow) (ha : a = .loc ∨ a = .sandbox) (cwd : Bytes) (readable : Norm → Bool)
    (s : ResState) (hs : s.allow = a) (ls : List Bytes) :
    ∀ e ∈ (parseRun cwd readable s ls).2, ∀ b' loc n, e = .opened b' loc n → ∃ p u, n = .file p u := by
  refine parse_forall a cwd s.mapper readable
    (fun e => ∀ b' loc n, e = .opened b' loc n → ∃ p u, n = .file p u) (fun _ => True) ?_ ls s hs rfl trivial
  intro b loc _
  refine ⟨fun h => ⟨?_, fun _ _ _ => trivial⟩, fun _ _ _ _ _ _ he => (by cases he), fun _ _ _ he => (by cases he)⟩
  intro b' loc' n he
  cases he
  exact resolveWith_local_only_files a ha cwd b _ h

/-- SANDBOX, ANY HISTORY OF parse() CALLS.  The configured base `b0` normalises to the directory `d0`
    (a directory, not a document: `hdir`).  Every successful step moves `base_url` to the directory
    of the loaded URL, so the sandbox the next step is checked against changes — it only narrows:
    everything fetched by any later step is a local file with real-name components inside `d0`. -/
theorem parse_sandbox_confined (cwd : Bytes) (hcwd : isAbsPath cwd = true) (readable : Norm → Bool)
    (s : ResState) (hs : s.allow = .sandbox) (b0 d0 du0 : Bytes) (hb : s.base = some b0)
    (hb0 : normalizeUrl cwd none b0 = .file d0 du0)
    (hdir : ∀ p u, comps p = comps d0 → readable (.file p u) = false) (ls : List Bytes) :
    ∀ e ∈ (parseRun cwd readable s ls).2, ∀ b loc n, e = .opened b loc n →
      ∃ p u, n = .file p u ∧ Under d0 p ∧ ∀ c ∈ comps p, CleanComp c := by
  refine parse_forall .sandbox cwd s.mapper readable
    (fun e => ∀ b loc n, e = .opened b loc n → ∃ p u, n = .file p u ∧ Under d0 p ∧ ∀ c ∈ comps p, CleanComp c)
    (fun b => ∃ b', b = some b' ∧ ∀ d du, normalizeUrl cwd none b' = .file d du → comps d0 <+: comps d)
    ?_ ls s hs rfl ⟨b0, hb, fun d du h => by rw [hb0] at h; cases h; exact List.prefix_refl _⟩
  rintro _ loc ⟨b', rfl, hinv⟩
  refine ⟨fun h => ?_, fun _ _ _ _ _ _ he => (by cases he), fun _ _ _ he => (by cases he)⟩
  have hc := resolve_sandbox_confined cwd b' (applyMapper s.mapper (strip loc)) hcwd
  rw [resolve_eq_resolveWith_some] at hc
  obtain ⟨p, u, d, du, hn, hd, hund, hclean⟩ := hc h
  have hd0p : comps d0 <+: comps p := List.IsPrefix.trans (hinv d du hd) hund
  refine ⟨?_, ?_⟩
  · intro b loc' n he
    cases he
    exact ⟨p, u, hn, hd0p, hclean⟩
  · intro hr cb hcb
    rw [hn] at hr hcb
    simp only [childBase, Option.some.injEq] at hcb
    subst hcb
    refine ⟨_, rfl, ?_⟩
    intro d' du' hd'
    have hne : comps d0 ≠ comps p := by
      intro e
      have := hdir p u e.symm
      rw [this] at hr; cases hr
    have hn' : normalizeUrl cwd (some b') (applyMapper s.mapper (strip loc)) = .file p u := by
      rw [← resolveWith_norm .sandbox]; exact hn
    obtain ⟨j, hj, hp, hu⟩ := normalizeUrl_file_shape cwd (some b') _ p u hcwd hn'
    subst hp; subst hu
    exact childBase_confined cwd j hj (comps d0) hd0p hne d' du' hd'

/-- A refused step leaves the object alone (settings and therefore everything a later step sees). -/
theorem parse_refused_unchanged (cwd : Bytes) (readable : Norm → Bool) (s : ResState) (loc : Bytes)
    (h : (resolveWith s.allow cwd s.base (applyMapper s.mapper (strip loc))).decision ≠ some .ok) :
    (parseStep cwd readable s loc).1 = s := by
  unfold parseStep
  simp only
  split
  · rename_i hdec; exact absurd hdec h
  · rfl
  · rfl

end XsVerif.Props.C12
