/-
  C06 — lazy (streaming) processing gives the same results as full loading.
  ONLY property theorems and non-vacuity examples live here (helper lemmas: Lemmas/Lazy.lean).

  Reading of the property on the model (Model/Lazy.lean):
    * in-scope namespaces of every element delivered by the lazy loader = the XML reading (ancestors'
      declarations, inner wins)                                   — `lazy_nsmaps_eq_inScope`
      and the eager loader assigns the same maps               — `eager_nsmaps_eq_lazy`, `eager_nsmaps_eq_inScope`
      (finding C06-F4, the eager loop without a pop in its 'end' branch, is fixed by commit 6d25df9)
    * lazy iteration yields every element exactly once, in document order, for the loop repaired by
      notes/fixes/C06-iter-document-order.patch                    — `iter_lazy_order`, `iter_lazy_doc`
      (for the loop as it is in /repo without that patch the full statement "in the order of the loaded tree" is
       false: below the lazy depth the order is reversed post-order, finding C06-F11 —
       `iter_lazy_order_pinned` is the exact law, `iter_lazy_perm_pinned` the multiset,
       `iter_lazy_order_pinned_counterexample` the witness; the harness detects which loop /repo has)
    * pruning (`_clear`, thin and not thin) never removes what is still to be yielded: every element yielded by
      `iter_depth` is the complete subtree of the document          — `live_chunks_complete`
      the pruned root yielded last is the document cut at the lazy depth — `live_nonthin_yields`, `live_final_nonthin`
      what IS lost in thin mode: the preceding siblings but the last one, hence the positions of error paths
      (finding C06-F12)      — `live_thin_yields`, `thin_position_partial`, `thin_position_counterexample`
    * the chunk selectors yield exactly the elements of the lazy depth in document order with the right
      ancestors                                                    — `iter_depth_spec`, `iterfind_spec`
    * lazy validation = eager validation as a multiset, with an exact order law, when every chunk is
      validated against the declaration that governs it (`Local`) — `lazy_errors_law`, `lazy_errors_perm`
      (full statement "same errors in the same order" is false for the code as it is:
       `lazy_order_counterexample`, finding C06-F1; without `Local` errors are lost:
       `lazy_nonlocal_counterexample`, finding C06-F2)
    * the identity-constraint tables of the two phases of lazy validation (chunks, then the pruned root) are merged by
      a union of counters: the merged table equals the table of the full run for EVERY partition of the selected
      nodes between the phases, so key references see the same keys   — `merge_counts`, `merge_counts_none`,
      `merge_dangling` (a first-wins merge is wrong: `merge_firstwins_counterexample`, seeded change C06-3);
      full statement "same duplicated-value errors" is false for the code as it is: a value counted once in each
      phase is never reported — `merge_dups_counterexample`, `merge_dups_cross` (finding C06-F13)
    * the boundary of `Local`: `lazy_errors_split` (no hypothesis), `lazy_errors_law_weak` (per-chunk error equality)
    * the depth-limited run used for the root reports exactly the errors above the cut and decodes exactly
      the data above the cut                                       — `depth_cut_prefix`, `decode_cut_prune`
-/
import XsVerif.Model.Lazy
import XsVerif.Model.LazyLive
import XsVerif.Lemmas.Lazy
import XsVerif.Lemmas.LazyLive

namespace XsVerif.Props.C06
set_option linter.unusedSimpArgs false
open XsVerif.Lazy

/-! ### in-scope namespaces -/

/-- The namespace map the lazy loader assigns to every element is the map of the declarations in scope
    (and the loader never pops an empty stack). Unbounded in depth, width and number of declarations. -/
theorem lazy_nsmaps_eq_inScope (t : Tree) : lazyNsmaps t = some (inScope [] t) := by
  obtain ⟨h1, _, _, h4⟩ := ns_inv t NsSt.init [] [] rfl rfl rfl
  simp only [NsSt.init] at h1 h4
  simp [lazyNsmaps, NsSt.init, h1, h4]

def wNs : Tree :=
  .node 0 "r" [] [.node 1 "a" [("q", "u2")] [.node 2 "b" [("p", "u3")] []], .node 3 "d" [] []]

example : lazyNsmaps wNs = some [(0, []), (1, [("q", "u2")]), (2, [("q", "u2"), ("p", "u3")]), (3, [])] := by
  decide

/-- The property for the in-scope namespaces, at full strength: for every document the fully loading loader
    (`_parse`, as it is since commit 6d25df9) assigns to every element the same namespace map as the lazy loader.
    The two loops are ported separately (`parseStep` / `nsStep true`); they agree event by event
    (`parseStep_eq`), hence on every event stream. -/
theorem eager_nsmaps_eq_lazy (t : Tree) : eagerNsmaps t = lazyNsmaps t := by
  simp only [eagerNsmaps, lazyNsmaps, parseRun_eq]

/-- …and that common map is the XML reading: the declarations of the ancestors-or-self, inner wins; the eager
    loop never pops an empty stack either.  (Finding C06-F4 — declarations of a closed element leaking to its
    following siblings — is repaired: this statement was false before 6d25df9, witness `wNs`.) -/
theorem eager_nsmaps_eq_inScope (t : Tree) : eagerNsmaps t = some (inScope [] t) := by
  rw [eager_nsmaps_eq_lazy, lazy_nsmaps_eq_inScope]

example : eagerNsmaps wNs = some [(0, []), (1, [("q", "u2")]), (2, [("q", "u2"), ("p", "u3")]), (3, [])] := by
  decide

/- why the pop in the 'end' branch is needed (the loop before 6d25df9; not a claim about the current code):
   after `<a xmlns:q=…><b xmlns:p=…/></a>` the sibling `<d/>` still saw `q` -/
example : unpoppedNsmaps wNs
    = some [(0, []), (1, [("q", "u2")]), (2, [("q", "u2"), ("p", "u3")]), (3, [("q", "u2")])] := by
  decide

/-! ### iteration -/

/-- Lazy `iter` (no tag filter) AS IT IS IN /repo WITHOUT notes/fixes/C06-iter-document-order.patch yields the
    elements in exactly the order `lazyOrder`: document order above the lazy depth, and below it each chunk followed
    by its descendants in reversed post-order (finding C06-F11). -/
theorem iter_lazy_order_pinned (d : Nat) (t : Tree) : iterRun d allTags t = lazyOrder d 0 t := by
  unfold iterRun
  rw [iter_top d t 0 [] (Nat.zero_le _)]
  simp

/-- …hence every element of the document is yielded exactly once (same multiset as the loaded tree). -/
theorem iter_lazy_perm_pinned (d : Nat) (t : Tree) : ((iterRun d allTags t).map Prod.fst).Perm (preorder t) := by
  rw [iter_lazy_order_pinned]
  exact lazyOrder_perm d t 0

def wIt : Tree := .node 0 "r" [] [.node 1 "a" [] [.node 2 "b" [] [.node 3 "c" [] []], .node 4 "b2" [] []]]

/-- FULL statement wanted by the property: the lazy iterator yields the elements in the order of the loaded tree
    (`preorder`).  False for the loop of /repo without the patch (finding C06-F11): -/
theorem iter_lazy_order_pinned_counterexample :
    (iterRun 1 allTags wIt).map Prod.fst = [0, 1, 4, 2, 3] ∧ preorder wIt = [0, 1, 2, 3, 4] := by decide

/-- The repaired loop (`yield from node.iter(tag)` at the lazy depth, notes/fixes/C06-iter-document-order.patch; the
    tree builder and `_clear` with the root-less `ancestors` of `iter` are part of the model): incomplete elements
    above the lazy depth, a full element at it, its descendants after it, all in document order; for every tree,
    every lazy depth ≥ 1, thin or not. -/
theorem iter_lazy_order (th : Bool) (d : Nat) (hd : 1 ≤ d) (t : Tree) :
    (liRun th d allTags t).out = docOrder d 0 t := by
  obtain ⟨i, tg, ds, cs⟩ := t
  unfold liRun
  rw [foldl_events_node', TB.init, li_startNs, li_endNs]
  have h0 : 0 < d := hd
  simp only [liStep, TB.ev, h0, decide_true, allTags, Bool.and_self, if_true, List.nil_append, Nat.zero_add]
  obtain ⟨p1, ps1, nk1, hy, hlen⟩ := li_topF th d cs 1 ⟨i, tg, ds, []⟩ [] 1 false [(i, Kind.incomplete)] hd
  rw [hy]
  simp [liStep, h0, docOrder]

/-- …which is the order of the loaded tree: the property clause at full strength for the repaired loop. -/
theorem iter_lazy_doc (th : Bool) (d : Nat) (hd : 1 ≤ d) (t : Tree) :
    (liRun th d allTags t).out.map Prod.fst = preorder t := by
  rw [iter_lazy_order th d hd, docOrder_perm]

example : (liRun true 1 allTags wIt).out.map Prod.fst = [0, 1, 2, 3, 4] := by decide

/-- `iter_depth(mode)` at lazy depth `d ≥ 1`: the elements at depth `d` in document order, each with the
    chain of its ancestors (modes 1, 2, 4, 5), the root before (mode 5) and after (modes 3, 4, 5). -/
theorem iter_depth_spec (mode d : Nat) (hd : 1 ≤ d) (t : Tree) :
    iterDepthRun mode d t
      = (if mode = 5 then [(t.id, [])] else [])
        ++ (if mode ≠ 3 then chunksAt d [] t else [])
        ++ (if 2 < mode then [(t.id, [t.id])] else []) := by
  obtain ⟨i, tg, ds, cs⟩ := t
  unfold iterDepthRun
  rw [foldl_events_node _ (idStep_ns mode d)]
  have h0 : 0 < d := hd
  have hk : d = (d - 1) + 1 := by omega
  simp only [idStep, beq_self_eq_true, Bool.true_and, h0, if_true, List.nil_append, Nat.zero_add]
  rw [idepth_subF mode d cs 1 [i] _ (Nat.le_refl _)]
  simp only [idStep, Nat.sub_self, beq_self_eq_true, if_true, hd, true_and, Tree.id]
  rw [hk]
  simp only [chunksAt, Nat.add_sub_cancel, List.nil_append]
  by_cases h5 : mode = 5
  · subst h5; simp
  · by_cases h3 : mode = 3
    · subst h3; simp
    · by_cases h2 : 2 < mode <;> simp [h5, h3, h2, bne_iff_ne]

example : iterDepthRun 4 1 wIt = [(1, [0]), (0, [0])] ∧ iterDepthRun 2 2 wIt = [(2, [0, 1]), (4, [0, 1])] := by
  decide

/-- `iterfind` with a select-all path of depth `pd` (e.g. `*/*`): the elements at depth `pd`, in document
    order, with their ancestors. -/
theorem iterfind_spec (pd : Nat) (t : Tree) : iterfindRun pd t = chunksAt pd [] t := by
  unfold iterfindRun
  rw [ifind_sub pd t 0 [] []]
  simp

/-! ### pruning: what `iter_depth` yields at the moment it yields it -/

/-- Not thin (modes 3-5, or `thin_lazy=False`), lazy depth `d ≥ 1`: the elements of the lazy depth are yielded
    complete, in document order, each with ALL its preceding siblings still in the tree (so that the positions of
    paths are those of the document); the root yielded last (modes 3-5) is the document cut at the lazy depth. -/
theorem live_nonthin_yields (th : Bool) (mode d : Nat) (hd : 1 ≤ d) (hth : (decide (mode ≤ 2) && th) = false)
    (t : Tree) :
    (ldRun th mode d t).out.map LYield.core
      = (if mode = 5 then [(stub t, [])] else [])
        ++ (if mode ≠ 3 then sibsAt keepAll d [] t else [])
        ++ (if 2 < mode then [(cutTree d t, [])] else [])
    ∧ ldFinal th mode d t = some (cutTree d t) := by
  obtain ⟨i, tg, ds, cs⟩ := t
  obtain ⟨k, hk⟩ : ∃ k, d = k + 1 := ⟨d - 1, by omega⟩
  subst hk
  unfold ldFinal ldRun
  rw [foldl_events_node', TB.init, ld_startNs, ld_endNs]
  have hstart : ldStep th mode (k + 1) ⟨0, ⟨[], [] ++ ds, 0, false⟩, []⟩ (.start i tg)
      = ⟨1, ⟨[⟨i, tg, ds, []⟩], [], 1, false⟩, if mode = 5 then [⟨.node i tg ds [], [], 1⟩] else []⟩ := by
    simp [ldStep, TB.ev]
  rw [hstart]
  obtain ⟨ys, hy, hc⟩ := ld_ntF th mode (k + 1) hth cs 1 ⟨i, tg, ds, []⟩ [] 1 false
    (if mode = 5 then [⟨.node i tg ds [], [], 1⟩] else []) (Nat.le_refl _) hd
  rw [hy]
  have hk1 : k + 1 - 1 = k := by omega
  rw [hk1] at hc
  simp only [List.map_nil] at hc
  simp only [ldStep, TB.ev, Nat.sub_self, beq_self_eq_true, if_true, List.map_append, hc,
    Frame.close, List.nil_append, cutTree, sibsAt, stub]
  constructor
  · by_cases h5 : mode = 5
    · subst h5; simp [LYield.core, hc]
    · by_cases h2 : 2 < mode <;> simp [h5, h2, LYield.core, hc]
  · by_cases h2 : 2 < mode <;> simp [h2, Frame.close]

/-- …in particular (the final state of the tree) `live_final_nonthin`: after the iteration the root holds exactly
    the document cut at the lazy depth — what the depth-limited validation of the root (`cutT`) works on. -/
theorem live_final_nonthin (th : Bool) (mode d : Nat) (hd : 1 ≤ d) (hth : (decide (mode ≤ 2) && th) = false)
    (t : Tree) : ldFinal th mode d t = some (cutTree d t) :=
  (live_nonthin_yields th mode d hd hth t).2

/-- Thin (modes 1, 2 of a resource with `thin_lazy=True`, the default; lazy decoding uses mode 2): the elements of
    the lazy depth are still yielded complete and in document order, but only the IMMEDIATELY preceding sibling is
    still in the tree when an element is yielded (finding C06-F12: positions of error paths are computed from
    these). -/
theorem live_thin_yields (th : Bool) (mode d : Nat) (hd : 1 ≤ d) (hth : (decide (mode ≤ 2) && th) = true)
    (t : Tree) :
    (ldRun th mode d t).out.map LYield.core = sibsAt keepOne d [] t := by
  obtain ⟨i, tg, ds, cs⟩ := t
  obtain ⟨k, hk⟩ : ∃ k, d = k + 1 := ⟨d - 1, by omega⟩
  subst hk
  have hm : mode ≤ 2 := by simp at hth; exact hth.1
  have h5 : (mode == 5) = false := by simp; omega
  have h2 : ¬ (2 < mode) := by omega
  unfold ldRun
  rw [foldl_events_node', TB.init, ld_startNs, ld_endNs]
  have hstart : ldStep th mode (k + 1) ⟨0, ⟨[], [] ++ ds, 0, false⟩, []⟩ (.start i tg)
      = ⟨1, ⟨[⟨i, tg, ds, []⟩], [], 1, false⟩, []⟩ := by
    simp [ldStep, TB.ev, h5]
  rw [hstart]
  obtain ⟨p1, ps1, nk1, ys, hy, hlen, hc, _⟩ := ld_thF th mode (k + 1) hth cs 1 ⟨i, tg, ds, []⟩ [] 1 false []
    (Nat.le_refl _) hd
  rw [hy]
  have hk1 : k + 1 - 1 = k := by omega
  rw [hk1] at hc
  simp only [List.map_nil] at hc
  match ps1, hlen with
  | [], _ =>
    simp only [ldStep, TB.ev, Nat.sub_self, beq_self_eq_true, if_true, h2, if_false, List.nil_append, hc, sibsAt]

/-- "Pruning never removes a node that is still to be yielded": in modes 1 and 2, thin or not, at every lazy
    depth, the yielded elements are exactly the complete subtrees of the document at that depth, in document order. -/
theorem live_chunks_complete (th : Bool) (mode d : Nat) (hd : 1 ≤ d) (hm : mode ≤ 2) (t : Tree) :
    (ldRun th mode d t).out.map LYield.elem = treesAt d t := by
  have h5 : mode ≠ 5 := by omega
  have h3 : mode ≠ 3 := by omega
  have h2 : ¬ (2 < mode) := by omega
  have hcore : ∀ l : List LYield, l.map LYield.elem = (l.map LYield.core).map Prod.fst := by
    intro l; simp [LYield.core, Function.comp_def]
  rw [hcore]
  cases hth : (decide (mode ≤ 2) && th)
  · rw [(live_nonthin_yields th mode d hd hth t).1]
    simp [h5, h3, h2, sibsAt_trees]
  · rw [live_thin_yields th mode d hd hth t, sibsAt_trees]

def wItems : Tree :=
  .node 0 "root" [] [.node 1 "item" [] [], .node 2 "item" [] [], .node 3 "item" [] [.node 4 "v" [] []],
                     .node 5 "item" [] []]

example : (ldRun true 2 1 wItems).out.map (fun y => (preorder y.elem, y.inner))
    = [([1], []), ([2], [1]), ([3, 4], [2]), ([5], [3])] := by decide

/-- What the thin tree still gives for positions: the position computed from the remembered siblings (`keepOne`:
    only the last one) is right whenever no EARLIER sibling has the tag — stated on the two memories:
    for a list of siblings and any tag, counting over the last remembered sibling never exceeds counting over all
    of them, and they agree when the forgotten ones (`all.dropLast`) do not carry the tag. -/
theorem thin_position_partial (tagOf : Nat → String) (tg : String) (all : List Nat)
    (hno : ∀ j ∈ all.dropLast, (tagOf j == tg) = false) :
    position tagOf tg (all.drop (all.length - 1)) = position tagOf tg all := by
  unfold position
  congr 2
  induction all with
  | nil => rfl
  | cons a rest ih =>
    cases rest with
    | nil => simp
    | cons b rest' =>
      have ha : (tagOf a == tg) = false := hno a (by simp)
      have := ih (fun j hj => hno j (by simp [hj]))
      simp only [List.length_cons, Nat.add_sub_cancel] at this ⊢
      rw [List.filter_cons, ha]
      simp only [Bool.false_eq_true, if_false]
      rw [← this]
      simp

/-- FULL statement wanted by the property: the positions in the paths of errors are those of the document
    (`keepAll`).  False for a thin resource (finding C06-F12): the 3rd and the 4th `item` are both at position 2. -/
theorem thin_position_counterexample :
    let tagOf := fun j => if j = 4 then "v" else if j = 0 then "root" else "item"
    ((ldRun true 2 1 wItems).out.map fun y => position tagOf y.elem.tag y.inner) = [1, 2, 2, 2] ∧
    ((ldRun false 2 1 wItems).out.map fun y => position tagOf y.elem.tag y.inner) = [1, 2, 3, 4] := by
  decide

/-! ### validation: depth cut, chunks, order law -/

variable {D E : Type}

/-- "limiting the depth changes nothing above the cut" (errors): the run with `max_depth = k` reports
    exactly the errors owned by elements at depth `< k`, in the same order. -/
theorem depth_cut_prefix (v : Val D E) (d : D) (t : Tree) (k : Nat) (hk : 1 ≤ k) :
    cutT v k [] d t = (eagerT v [] d t).filter (fun e => decide (e.1.length < k)) := by
  have := cut_eq_filter v t k [] d hk
  simpa using this.symm

theorem flatMap_congr' {α β : Type} (l : List α) (f g : α → List β) (h : ∀ a ∈ l, f a = g a) :
    l.flatMap f = l.flatMap g := by
  induction l with
  | nil => rfl
  | cons a l ih =>
    simp only [List.flatMap_cons]
    rw [h a (by simp), ih (fun b hb => h b (by simp [hb]))]

/-- Every chunk is validated against the declaration that governs it in the eager run. -/
def Local (v : Val D E) (static created : Tree → Option D) (k : Nat) (d : D) (t : Tree) : Prop :=
  ∀ p ∈ chunkPairs v k [] (some d) t, lazyPick static created p.2.1 p.2.2 = p.2.1

/-- Exact order law of the lazy driver at lazy depth `k ≥ 1`: the eager error sequence stably partitioned
    into "owned by an element at depth ≥ k" (first) and "owned by an element above" (then), followed by the
    unresolved IDREFs and the root's key-reference errors (in this order). -/
theorem lazy_errors_law (v : Val D E) (static created : Tree → Option D) (k : Nat) (hk : 1 ≤ k) (d : D)
    (t : Tree) (krefs idrefs : List E) (hloc : Local v static created k d t) :
    lazyErrors v static created k d t krefs idrefs
      = (((eagerT v [] d t).filter (fun e => !decide (e.1.length < k))).map Prod.snd)
        ++ (((eagerT v [] d t).filter (fun e => decide (e.1.length < k))).map Prod.snd)
        ++ idrefs ++ krefs := by
  unfold lazyErrors
  rw [depth_cut_prefix v d t k hk]
  have h2 := deep_eq_chunks v t k [] d
  simp only [List.length_nil, Nat.zero_add] at h2
  rw [h2, chunkErrs_def, chunkErrs_def]
  congr 4
  apply flatMap_congr' _ _ _
  intro p hp
  have := hloc p hp
  simp only [chunkF, this, govPick]

/-- The boundary of the `Local` hypothesis, part 1 (no hypothesis at all): whatever declaration the lazy driver
    picks for the chunks, the errors owned ABOVE the lazy depth and the reference errors are those of the eager
    run, in the eager order; only the block of the chunks depends on the picked declarations. -/
theorem lazy_errors_split (v : Val D E) (static created : Tree → Option D) (k : Nat) (hk : 1 ≤ k) (d : D)
    (t : Tree) (krefs idrefs : List E) :
    lazyErrors v static created k d t krefs idrefs
      = ((chunkErrs v (lazyPick static created) k [] (some d) t).map Prod.snd)
        ++ (((eagerT v [] d t).filter (fun e => decide (e.1.length < k))).map Prod.snd)
        ++ idrefs ++ krefs := by
  unfold lazyErrors
  rw [depth_cut_prefix v d t k hk]

/-- part 2: what the order law needs is weaker than `Local` — each chunk has to produce, under the declaration
    picked by the lazy driver, the errors it produces under its governing declaration (true e.g. for a
    substitution-group member validated as a head of the same type).  These are the error kinds that are a function
    of (declaration, subtree): content model, attributes, simple-type values.  Document-wide kinds (ID/IDREF tables,
    key scopes opened above the lazy depth) are the parameters `idrefs`/`krefs` of the model and are NOT covered:
    findings C06-F8, C06-F9 show where the real code loses them. -/
def LocalErr (v : Val D E) (static created : Tree → Option D) (k : Nat) (d : D) (t : Tree) : Prop :=
  ∀ p ∈ chunkPairs v k [] (some d) t, chunkF v (lazyPick static created) p = chunkF v govPick p

theorem local_imp_localErr (v : Val D E) (static created : Tree → Option D) (k : Nat) (d : D) (t : Tree)
    (h : Local v static created k d t) : LocalErr v static created k d t := by
  intro p hp
  simp only [chunkF, h p hp, govPick]

theorem lazy_errors_law_weak (v : Val D E) (static created : Tree → Option D) (k : Nat) (hk : 1 ≤ k) (d : D)
    (t : Tree) (krefs idrefs : List E) (hloc : LocalErr v static created k d t) :
    lazyErrors v static created k d t krefs idrefs
      = (((eagerT v [] d t).filter (fun e => !decide (e.1.length < k))).map Prod.snd)
        ++ (((eagerT v [] d t).filter (fun e => decide (e.1.length < k))).map Prod.snd)
        ++ idrefs ++ krefs := by
  rw [lazy_errors_split v static created k hk]
  have h2 := deep_eq_chunks v t k [] d
  simp only [List.length_nil, Nat.zero_add] at h2
  rw [h2, chunkErrs_def, chunkErrs_def]
  congr 4
  exact flatMap_congr' _ _ _ hloc

/-- Under `Local` the lazy run reports the same multiset of errors as the eager run. -/
theorem lazy_errors_perm (v : Val D E) (static created : Tree → Option D) (k : Nat) (hk : 1 ≤ k) (d : D)
    (t : Tree) (krefs idrefs : List E) (hloc : Local v static created k d t) :
    (lazyErrors v static created k d t krefs idrefs).Perm (eagerErrors v d t krefs idrefs) := by
  rw [lazy_errors_law v static created k hk d t krefs idrefs hloc]
  unfold eagerErrors
  simp only [List.append_assoc]
  rw [← List.append_assoc]
  refine List.Perm.append ?_ List.perm_append_comm
  rw [← List.map_append]
  apply List.Perm.map
  have h := List.filter_append_perm (fun e : List Nat × E => decide (e.1.length < k)) (eagerT v [] d t)
  exact (List.perm_append_comm).trans h

/-- witness validator: the root reports error 0 about itself before its children and error 9 after them,
    every child `c` reports its id; children are governed by declaration 1. -/
def wVal : Val Nat Nat where
  seg := fun d t j => if d = 0 then (if j = 0 then [100] else if j = t.cs.length then [900] else [])
                      else if j = 0 then [t.id] else []
  gov := fun _ _ _ => some 1

def wDoc : Tree := .node 0 "r" [] [.node 1 "a" [] [], .node 2 "a" [] []]

example : Local wVal (fun _ => some 1) (fun _ => none) 1 0 wDoc := by
  intro p hp
  simp [chunkPairs, chunkPairsF, wDoc] at hp
  rcases hp with rfl | rfl <;> rfl

/- `LocalErr` is strictly weaker than `Local`: the static lookup finds declaration 2 (not the governing 1), which
   reports the same errors -/
example : LocalErr wVal (fun _ => some 2) (fun _ => none) 1 0 wDoc ∧ ¬ Local wVal (fun _ => some 2) (fun _ => none) 1 0 wDoc := by
  constructor
  · intro p hp
    simp [chunkPairs, chunkPairsF, wDoc] at hp
    rcases hp with rfl | rfl <;> rfl
  · intro h
    have := h ([0], some 1, .node 1 "a" [] []) (by simp [chunkPairs, chunkPairsF, wDoc, wVal])
    simp [lazyPick] at this

/-- FULL statement wanted by the property: `lazyErrors … = eagerErrors …` (same order).  False for the
    driver as it is, even when every chunk is validated locally: errors of the root come after the
    errors of the chunks (finding C06-F1). -/
theorem lazy_order_counterexample :
    lazyErrors wVal (fun _ => some 1) (fun _ => none) 1 0 wDoc [] [] = [1, 2, 100, 900] ∧
    eagerErrors wVal 0 wDoc [] [] = [100, 1, 2, 900] := by
  decide

/-- Without `Local` the multiset is not preserved: a chunk whose static lookup finds nothing (and that
    carries no xsi:type) is skipped, so its errors are lost (finding C06-F2). -/
theorem lazy_nonlocal_counterexample :
    lazyErrors wVal (fun c => if c.id = 2 then none else some 1) (fun _ => none) 1 0 wDoc [] []
      = [1, 100, 900] ∧
    eagerErrors wVal 0 wDoc [] [] = [100, 1, 2, 900] := by
  decide

/-! ### identity-constraint tables: the two-phase merge -/

/-- The merge rule of schemas.py:1392-1399 is a UNION of counters: for every constraint, every list of selected
    nodes and EVERY partition of them between the chunk phase and the root pass, the merged table counts every value
    exactly as the table of the fully loaded run does.  (With `phase1 = some …`: a counter was initialised by a
    depth-level element; the `none` case is `merge_counts_none`.) -/
theorem merge_counts (sel : List (Bool × Nat)) (w : Nat) :
    (mergeTables (some (collect (phaseVals false sel)).1) (collect (phaseVals true sel)).1).get w
      = (collect (sel.map Prod.snd)).1.get w := by
  simp only [mergeTables]
  rw [Ctr.update_get, collect_get, collect_get]
  have : (collect (phaseVals true sel)).1.total w = (phaseVals true sel).count w := by
    simp [collect, collectFrom_total, Ctr.total]
  rw [this, count_phases]

/-- no depth-level element (e.g. `<r/>`): the root-pass table is the table (commit 851aaad) -/
theorem merge_counts_none (sel : List (Bool × Nat)) (hall : ∀ p ∈ sel, p.1 = true) (w : Nat) :
    (mergeTables none (collect (phaseVals true sel)).1).get w = (collect (sel.map Prod.snd)).1.get w := by
  simp only [mergeTables]
  rw [collect_get, collect_get, ← count_phases sel w]
  have : phaseVals false sel = [] := by
    simp only [phaseVals, List.map_eq_nil_iff, List.filter_eq_nil_iff]
    intro p hp; simp [hall p hp]
  simp [this]

/-- …hence the key references are checked against the same key table as in the full run: the dangling values are
    the same list, whatever the partition of the key's nodes between the phases. -/
theorem merge_dangling (keySel : List (Bool × Nat)) (refs : Ctr) :
    dangling (mergeTables (some (collect (phaseVals false keySel)).1) (collect (phaseVals true keySel)).1) refs
      = dangling (collect (keySel.map Prod.snd)).1 refs := by
  simp only [dangling]
  congr 1
  apply List.filter_congr
  intro p _
  rw [merge_counts]

/-- A first-wins merge (`identities.setdefault`, seeded change C06-3) is wrong: a key on the root itself (value 7,
    collected in the root pass) referenced from a streamed child is reported as dangling. -/
theorem merge_firstwins_counterexample :
    let keySel := [(true, 7)]                 -- <r k="7">: selector "."
    let refs : Ctr := [(7, 1)]                -- <e q="7"/>: keyref collected in the chunk phase
    dangling (mergeFirstWins (some []) (collect (phaseVals true keySel)).1) refs = [7] ∧
    dangling (mergeTables (some []) (collect (phaseVals true keySel)).1) refs = [] ∧
    dangling (collect (keySel.map Prod.snd)).1 refs = [] := by
  decide

/-- FULL statement wanted by the property: the "duplicated value" errors of a key/unique are those of the full run.
    False for the code as it is (finding C06-F13): `Counter.update` adds the counts of the root pass without raising,
    so a value that occurs once above the lazy depth and once inside a chunk is never reported. -/
theorem merge_dups_counterexample :
    let sel := [(true, 1), (false, 1), (false, 3)]      -- <r k="1"><e k="1"/><e k="3"/></r>, selector ".|e"
    (collect (sel.map Prod.snd)).2 = [1] ∧
    (collect (phaseVals false sel)).2 ++ (collect (phaseVals true sel)).2 = [] ∧
    (mergeTables (some (collect (phaseVals false sel)).1) (collect (phaseVals true sel)).1).get 1 = 2 := by
  decide

/-- …and what the merge has to report to repair it (notes/fixes/C06-lazy-identity-merge-duplicates.patch): exactly
    the values counted once in each phase — for these the merged count is 2 although no phase raised. -/
theorem merge_dups_cross (sel : List (Bool × Nat)) (w : Nat)
    (h1 : (phaseVals false sel).count w = 1) (h2 : (phaseVals true sel).count w = 1) :
    (mergeTables (some (collect (phaseVals false sel)).1) (collect (phaseVals true sel)).1).get w = 2 := by
  rw [merge_counts, collect_get, ← count_phases, h1, h2]

/-! ### what `_clear` keeps of the elements that stay in the tree (pruned placeholders, open ancestors) -/

/-- what an element itself carries (the id stands for its attributes and text: the correspondence run marks every
    element with an attribute holding its id and compares attributes, text and tail of every element left in the tree) -/
def framePayload (f : Frame) : Nat × String × List (String × String) := (f.id, f.tag, f.decls)

theorem stub_keeps_payload (t : Tree) :
    (stub t).id = t.id ∧ (stub t).tag = t.tag ∧ (stub t).decls = t.decls ∧ (stub t).cs = [] := by
  cases t; exact ⟨rfl, rfl, rfl, rfl⟩

theorem map_payload_clearKids (fs : List Frame) : (fs.map clearKids).map framePayload = fs.map framePayload := by
  induction fs with
  | nil => rfl
  | cons f fs ih => simp only [List.map_cons, ih]; rfl

theorem clear_keeps_payload (thin skipRoot : Bool) (b : TB) (h : Frame) (fs : List Frame) (e : Tree)
    (hb : b.frames = h :: fs) (he : h.kids.getLast? = some e) :
    ∃ h' fs', (b.clear thin skipRoot).frames = h' :: fs' ∧ framePayload h' = framePayload h ∧
      h'.kids.getLast? = some (stub e) ∧ fs'.map framePayload = fs.map framePayload ∧
      (thin = false → h'.kids.dropLast = h.kids.dropLast ∧ fs' = fs) := by
  unfold TB.clear
  rw [hb]
  simp only [he]
  split
  · rename_i hc
    refine ⟨_, _, rfl, rfl, by simp, ?_, ?_⟩
    · cases skipRoot
      · simp only [Bool.false_eq_true, if_false]; exact map_payload_clearKids fs
      · simp only [if_true, List.map_append, map_payload_clearKids]
        rw [← List.map_append]
        congr 1
        rw [List.dropLast_eq_take]
        exact List.take_append_drop _ _
    · intro ht; subst ht; simp at hc
  · refine ⟨_, _, rfl, rfl, by simp, rfl, ?_⟩
    intro _; simp

/-! ### decoded data above the cut -/

variable {A : Type}

/-- "limiting the depth changes nothing above the cut" (data): decoding with `max_depth = k` yields the
    full decoded value with everything below level `k` replaced by the filler. -/
theorem decode_cut_prune (v : Dec D A) (t : Tree) (k : Nat) (d : D) :
    decodeCut v k d t = prune k (decode v d t) := decode_cut_prune_aux v t k d

end XsVerif.Props.C06
