/-
  C06 — lazy (streaming) processing gives the same results as full loading.
  ONLY property theorems and non-vacuity examples live here (helper lemmas: Lemmas/Lazy.lean).

  Reading of the property on the model (Model/Lazy.lean):
    * in-scope namespaces of every element delivered by the lazy loader = the XML reading (ancestors'
      declarations, inner wins)                                   — `lazy_nsmaps_eq_inScope`
      and the eager loader assigns the same maps               — `eager_nsmaps_eq_lazy`, `eager_nsmaps_eq_inScope`
      (finding C06-F4, the eager loop without a pop in its 'end' branch, is fixed by commit 6d25df9)
    * lazy iteration yields every element exactly once             — `iter_lazy_order`, `iter_lazy_perm`
      (full statement "in the order of the loaded tree" is false for the code as it is: below the lazy depth
       the order is reversed post-order, witness `wIt`, finding C06-F11; `iter_lazy_order` is the exact law)
    * the chunk selectors yield exactly the elements of the lazy depth in document order with the right
      ancestors                                                    — `iter_depth_spec`, `iterfind_spec`
    * lazy validation = eager validation as a multiset, with an exact order law, when every chunk is
      validated against the declaration that governs it (`Local`) — `lazy_errors_law`, `lazy_errors_perm`
      (full statement "same errors in the same order" is false for the code as it is:
       `lazy_order_counterexample`, finding C06-F1; without `Local` errors are lost:
       `lazy_nonlocal_counterexample`, finding C06-F2)
    * the depth-limited run used for the root reports exactly the errors above the cut and decodes exactly
      the data above the cut                                       — `depth_cut_prefix`, `decode_cut_prune`
-/
import XsVerif.Model.Lazy
import XsVerif.Lemmas.Lazy

namespace XsVerif.Props.C06
set_option linter.unusedSimpArgs false
open XsVerif.Lazy

/-! ### in-scope namespaces -/

/-- The namespace map the lazy loader assigns to every element is the map of the declarations in scope
    (and the loader never pops an empty stack). Unbounded in depth, width and number of declarations. -/
theorem lazy_nsmaps_eq_inScope (t : Tree) : lazyNsmaps t = some (inScope [] t) := by
  obtain ⟨h1, _, _, h4⟩ := ns_inv t NsSt.init [] [] rfl rfl rfl
  simp only [NsSt.init] at h1 h4
  simp [lazyNsmaps, NsSt.init, h1, h4]

def wNs : Tree :=
  .node 0 "r" [] [.node 1 "a" [("q", "u2")] [.node 2 "b" [("p", "u3")] []], .node 3 "d" [] []]

example : lazyNsmaps wNs = some [(0, []), (1, [("q", "u2")]), (2, [("q", "u2"), ("p", "u3")]), (3, [])] := by
  decide

/-- The property for the in-scope namespaces, at full strength: for every document the fully loading loader
    (`_parse`, as it is since commit 6d25df9) assigns to every element the same namespace map as the lazy loader.
    The two loops are ported separately (`parseStep` / `nsStep true`); they agree event by event
    (`parseStep_eq`), hence on every event stream. -/
theorem eager_nsmaps_eq_lazy (t : Tree) : eagerNsmaps t = lazyNsmaps t := by
  simp only [eagerNsmaps, lazyNsmaps, parseRun_eq]

/-- …and that common map is the XML reading: the declarations of the ancestors-or-self, inner wins; the eager
    loop never pops an empty stack either.  (Finding C06-F4 — declarations of a closed element leaking to its
    following siblings — is repaired: this statement was false before 6d25df9, witness `wNs`.) -/
theorem eager_nsmaps_eq_inScope (t : Tree) : eagerNsmaps t = some (inScope [] t) := by
  rw [eager_nsmaps_eq_lazy, lazy_nsmaps_eq_inScope]

example : eagerNsmaps wNs = some [(0, []), (1, [("q", "u2")]), (2, [("q", "u2"), ("p", "u3")]), (3, [])] := by
  decide

/- why the pop in the 'end' branch is needed (the loop before 6d25df9; not a claim about the current code):
   after `<a xmlns:q=…><b xmlns:p=…/></a>` the sibling `<d/>` still saw `q` -/
example : unpoppedNsmaps wNs
    = some [(0, []), (1, [("q", "u2")]), (2, [("q", "u2"), ("p", "u3")]), (3, [("q", "u2")])] := by
  decide

/-! ### iteration -/

/-- Lazy `iter` (no tag filter) yields the elements in exactly the order `lazyOrder`: document order above
    the lazy depth, and below it each chunk followed by its descendants in reversed post-order. -/
theorem iter_lazy_order (d : Nat) (t : Tree) : iterRun d allTags t = lazyOrder d 0 t := by
  unfold iterRun
  rw [iter_top d t 0 [] (Nat.zero_le _)]
  simp

/-- …hence every element of the document is yielded exactly once (same multiset as the loaded tree). -/
theorem iter_lazy_perm (d : Nat) (t : Tree) : ((iterRun d allTags t).map Prod.fst).Perm (preorder t) := by
  rw [iter_lazy_order]
  exact lazyOrder_perm d t 0

def wIt : Tree := .node 0 "r" [] [.node 1 "a" [] [.node 2 "b" [] [.node 3 "c" [] []], .node 4 "b2" [] []]]

example : (iterRun 1 allTags wIt).map Prod.fst = [0, 1, 4, 2, 3] ∧ preorder wIt = [0, 1, 2, 3, 4] := by decide

/-- `iter_depth(mode)` at lazy depth `d ≥ 1`: the elements at depth `d` in document order, each with the
    chain of its ancestors (modes 1, 2, 4, 5), the root before (mode 5) and after (modes 3, 4, 5). -/
theorem iter_depth_spec (mode d : Nat) (hd : 1 ≤ d) (t : Tree) :
    iterDepthRun mode d t
      = (if mode = 5 then [(t.id, [])] else [])
        ++ (if mode ≠ 3 then chunksAt d [] t else [])
        ++ (if 2 < mode then [(t.id, [t.id])] else []) := by
  obtain ⟨i, tg, ds, cs⟩ := t
  unfold iterDepthRun
  rw [foldl_events_node _ (idStep_ns mode d)]
  have h0 : 0 < d := hd
  have hk : d = (d - 1) + 1 := by omega
  simp only [idStep, beq_self_eq_true, Bool.true_and, h0, if_true, List.nil_append, Nat.zero_add]
  rw [idepth_subF mode d cs 1 [i] _ (Nat.le_refl _)]
  simp only [idStep, Nat.sub_self, beq_self_eq_true, if_true, hd, true_and, Tree.id]
  rw [hk]
  simp only [chunksAt, Nat.add_sub_cancel, List.nil_append]
  by_cases h5 : mode = 5
  · subst h5; simp
  · by_cases h3 : mode = 3
    · subst h3; simp
    · by_cases h2 : 2 < mode <;> simp [h5, h3, h2, bne_iff_ne]

example : iterDepthRun 4 1 wIt = [(1, [0]), (0, [0])] ∧ iterDepthRun 2 2 wIt = [(2, [0, 1]), (4, [0, 1])] := by
  decide

/-- `iterfind` with a select-all path of depth `pd` (e.g. `*/*`): the elements at depth `pd`, in document
    order, with their ancestors. -/
theorem iterfind_spec (pd : Nat) (t : Tree) : iterfindRun pd t = chunksAt pd [] t := by
  unfold iterfindRun
  rw [ifind_sub pd t 0 [] []]
  simp

/-! ### validation: depth cut, chunks, order law -/

variable {D E : Type}

/-- "limiting the depth changes nothing above the cut" (errors): the run with `max_depth = k` reports
    exactly the errors owned by elements at depth `< k`, in the same order. -/
theorem depth_cut_prefix (v : Val D E) (d : D) (t : Tree) (k : Nat) (hk : 1 ≤ k) :
    cutT v k [] d t = (eagerT v [] d t).filter (fun e => decide (e.1.length < k)) := by
  have := cut_eq_filter v t k [] d hk
  simpa using this.symm

theorem flatMap_congr' {α β : Type} (l : List α) (f g : α → List β) (h : ∀ a ∈ l, f a = g a) :
    l.flatMap f = l.flatMap g := by
  induction l with
  | nil => rfl
  | cons a l ih =>
    simp only [List.flatMap_cons]
    rw [h a (by simp), ih (fun b hb => h b (by simp [hb]))]

/-- Every chunk is validated against the declaration that governs it in the eager run. -/
def Local (v : Val D E) (static created : Tree → Option D) (k : Nat) (d : D) (t : Tree) : Prop :=
  ∀ p ∈ chunkPairs v k [] (some d) t, lazyPick static created p.2.1 p.2.2 = p.2.1

/-- Exact order law of the lazy driver at lazy depth `k ≥ 1`: the eager error sequence stably partitioned
    into "owned by an element at depth ≥ k" (first) and "owned by an element above" (then), followed by the
    unresolved IDREFs and the root's key-reference errors (in this order). -/
theorem lazy_errors_law (v : Val D E) (static created : Tree → Option D) (k : Nat) (hk : 1 ≤ k) (d : D)
    (t : Tree) (krefs idrefs : List E) (hloc : Local v static created k d t) :
    lazyErrors v static created k d t krefs idrefs
      = (((eagerT v [] d t).filter (fun e => !decide (e.1.length < k))).map Prod.snd)
        ++ (((eagerT v [] d t).filter (fun e => decide (e.1.length < k))).map Prod.snd)
        ++ idrefs ++ krefs := by
  unfold lazyErrors
  rw [depth_cut_prefix v d t k hk]
  have h2 := deep_eq_chunks v t k [] d
  simp only [List.length_nil, Nat.zero_add] at h2
  rw [h2, chunkErrs_def, chunkErrs_def]
  congr 4
  apply flatMap_congr' _ _ _
  intro p hp
  have := hloc p hp
  simp only [chunkF, this, govPick]

/-- Under `Local` the lazy run reports the same multiset of errors as the eager run. -/
theorem lazy_errors_perm (v : Val D E) (static created : Tree → Option D) (k : Nat) (hk : 1 ≤ k) (d : D)
    (t : Tree) (krefs idrefs : List E) (hloc : Local v static created k d t) :
    (lazyErrors v static created k d t krefs idrefs).Perm (eagerErrors v d t krefs idrefs) := by
  rw [lazy_errors_law v static created k hk d t krefs idrefs hloc]
  unfold eagerErrors
  simp only [List.append_assoc]
  rw [← List.append_assoc]
  refine List.Perm.append ?_ List.perm_append_comm
  rw [← List.map_append]
  apply List.Perm.map
  have h := List.filter_append_perm (fun e : List Nat × E => decide (e.1.length < k)) (eagerT v [] d t)
  exact (List.perm_append_comm).trans h

/-- witness validator: the root reports error 0 about itself before its children and error 9 after them,
    every child `c` reports its id; children are governed by declaration 1. -/
def wVal : Val Nat Nat where
  seg := fun d t j => if d = 0 then (if j = 0 then [100] else if j = t.cs.length then [900] else [])
                      else if j = 0 then [t.id] else []
  gov := fun _ _ _ => some 1

def wDoc : Tree := .node 0 "r" [] [.node 1 "a" [] [], .node 2 "a" [] []]

example : Local wVal (fun _ => some 1) (fun _ => none) 1 0 wDoc := by
  intro p hp
  simp [chunkPairs, chunkPairsF, wDoc] at hp
  rcases hp with rfl | rfl <;> rfl

/-- FULL statement wanted by the property: `lazyErrors … = eagerErrors …` (same order).  False for the
    driver as it is, even when every chunk is validated locally: errors of the root come after the
    errors of the chunks (finding C06-F1). -/
theorem lazy_order_counterexample :
    lazyErrors wVal (fun _ => some 1) (fun _ => none) 1 0 wDoc [] [] = [1, 2, 100, 900] ∧
    eagerErrors wVal 0 wDoc [] [] = [100, 1, 2, 900] := by
  decide

/-- Without `Local` the multiset is not preserved: a chunk whose static lookup finds nothing (and that
    carries no xsi:type) is skipped, so its errors are lost (finding C06-F2). -/
theorem lazy_nonlocal_counterexample :
    lazyErrors wVal (fun c => if c.id = 2 then none else some 1) (fun _ => none) 1 0 wDoc [] []
      = [1, 100, 900] ∧
    eagerErrors wVal 0 wDoc [] [] = [100, 1, 2, 900] := by
  decide

/-! ### decoded data above the cut -/

variable {A : Type}

/-- "limiting the depth changes nothing above the cut" (data): decoding with `max_depth = k` yields the
    full decoded value with everything below level `k` replaced by the filler. -/
theorem decode_cut_prune (v : Dec D A) (t : Tree) (k : Nat) (d : D) :
    decodeCut v k d t = prune k (decode v d t) := decode_cut_prune_aux v t k d

end XsVerif.Props.C06
