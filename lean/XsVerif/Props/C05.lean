/-
  C05 — decoded data re-encodes to an equivalent document (converter part).
  ONLY property theorems and non-vacuity examples live here.

  Property text: "For every valid document, decoding with a lossless converter (JsonML, data elements, and
  the default/BadgerFish/GData conventions on content models whose same-named children are contiguous) and
  encoding the result yields XML that is ... equal to the original in element structure, attribute sets and
  typed values, and that decodes to the same data again."

  Formal reading: the validators hand every element to the converter as an `ElementData` tuple and build the
  XML tree back from the `ElementData` tuples returned by `element_encode` (elements.py:816-834, 937-1082,
  groups.py:1096-1214).  `decTree`/`encTree` are that recursion; the theorems say that the tree of
  ElementData tuples that comes back is the original one up to the documented normalisations
  (`normTree`: cdata parts renumbered from 1, the text of a mixed element moved to the first cdata part,
  xmlns kept only when the converter processes namespaces).  Element structure, attribute sets and typed
  values are fields of these tuples.
-/
import XsVerif.Lemmas.JsonML
import XsVerif.Lemmas.Tree
import XsVerif.Lemmas.ContentOrder

namespace XsVerif.Props.C05
open XsVerif.Conv

/-! ### JsonML -/

theorem shape_nil {α} {l : List (Item α)} (h : shape l = []) : l = [] := by
  cases l with
  | nil => rfl
  | cons a l => simp [shape, mapIt] at h

theorem mem_shape_cdata {α} {l : List (Item α)} {i v} (h : Item.cdata i v ∈ l) :
    Item.cdata i v ∈ shape l := by
  simp only [shape, mapIt, List.mem_map]
  exact ⟨_, h, rfl⟩

theorem mem_shape_child {α} {l : List (Item α)} {nm s v} (h : Item.child nm s v ∈ l) :
    Item.child nm s () ∈ shape l := by
  simp only [shape, mapIt, List.mem_map]
  exact ⟨_, h, rfl⟩

theorem jsonml_wf_of_shape {m : Mapper} {useNs f hd} {its : List (Item J)}
    (w : JsonML.WF1 m useNs f hd (shape its)) : JsonML.WF1 m useNs f hd its :=
  { tag := w.tag, attrsUm := w.attrsUm, attrsNodup := w.attrsNodup, attrsNodup' := w.attrsNodup',
    attrsNotXmlns := w.attrsNotXmlns, xmlnsNodup := w.xmlnsNodup, textOk := w.textOk, textStr := w.textStr,
    textAlone := fun h => shape_nil (w.textAlone h), groupIff := w.groupIff,
    simpleNoItems := fun h => shape_nil (w.simpleNoItems h),
    emptyNoItems := fun h => shape_nil (w.emptyNoItems h),
    cdataStr := fun i v h => w.cdataStr i v (mem_shape_cdata h),
    kidsUm := fun nm s _ h => w.kidsUm nm s () (mem_shape_child h) }

/-- **JsonML, one level** (jsonml.py:64-132): for every admissible `ElementData` whose converted children are
    JsonML lists, `element_encode (element_decode data)` returns the data again (attributes, typed text,
    content order, names), up to `norm1`.  Unbounded in the number of attributes and of content items. -/
theorem jsonml_level_roundtrip (m : Mapper) (useNs : Bool) (f : Facts) (hd : Hd) (its : List (Item J))
    (w : JsonML.WF1 m useNs f hd its) (hk : JsonML.Kids m its) :
    JsonML.enc m useNs f hd.tag (JsonML.dec m useNs f hd its) = .ok (JsonML.norm1 useNs f hd its) :=
  JsonML.level_roundtrip w hk

theorem renum_natural {α β} (g : α → β) (k : Nat) (l : List (Item α)) :
    renum k (mapIt g l) = mapIt g (renum k l) := by
  induction l generalizing k with
  | nil => rfl
  | cons a l ih => cases a <;> simp_all [renum, mapIt, Item.map]

theorem renum_children {α} (k : Nat) (l : List (Item α)) (nm : String) (s : Bool) (v : α)
    (h : Item.child nm s v ∈ renum k l) : ∃ s', Item.child nm s' v ∈ l := by
  induction l generalizing k with
  | nil => simp [renum] at h
  | cons a l ih =>
    cases a with
    | cdata i w =>
      simp only [renum, List.mem_cons] at h
      rcases h with h | h
      · cases h
      · obtain ⟨s', hs⟩ := ih _ h; exact ⟨s', by simp [hs]⟩
    | child nm' s'' w =>
      simp only [renum, List.mem_cons, Item.child.injEq] at h
      rcases h with ⟨rfl, _, rfl⟩ | h
      · exact ⟨s'', by simp⟩
      · obtain ⟨s', hs⟩ := ih _ h; exact ⟨s', by simp [hs]⟩

theorem jsonml_levelOK (m : Mapper) (useNs : Bool) :
    LevelOK (JsonML.conv m useNs) (JsonML.Inv m) (fun f hd sh => JsonML.WF1 m useNs f hd sh)
      (fun {_} f hd its => JsonML.norm1 useNs f hd its) where
  rt := fun f hd its w hk => JsonML.level_roundtrip (jsonml_wf_of_shape w) hk
  inv := fun f hd its _ _ => ⟨_, JsonML.dec_eq m useNs f hd its⟩
  natural := by
    intro α β g f hd its
    unfold JsonML.norm1
    by_cases hs : JsonML.shift f hd = true
    · cases hd.text <;> simp [hs, mapIt, Item.map]
    · have := renum_natural g 1 its
      simp only [mapIt] at this
      simp [hs, mapIt, this]
  children := by
    intro α f hd its nm s v h
    unfold JsonML.norm1 at h
    by_cases hs : JsonML.shift f hd = true
    · cases ht : hd.text <;> simp [hs, ht] at h
    · simp only [hs, Bool.false_eq_true, if_false] at h
      exact renum_children _ _ _ _ _ h

/-- **JsonML, whole documents**: for every typed tree of ElementData tuples (any depth, any width) whose
    levels are admissible, encoding the decoded data gives back the tree up to the documented normalisations
    — no element, attribute, text or cdata part is lost, duplicated, reordered or renamed — provided the
    fuel (a bound on the nesting depth that the encoder may explore) is at least the depth of the tree. -/
theorem jsonml_roundtrip (m : Mapper) (useNs : Bool) (sch : Nat → Option Facts) (n : Node)
    (hw : TreeWF (fun f hd sh => JsonML.WF1 m useNs f hd sh) sch n) (fuel : Nat) (hfuel : n.depth ≤ fuel) :
    encTree (JsonML.conv m useNs) sch fuel n.f n.hd.tag (decTree (JsonML.conv m useNs) n)
      = .ok (normTree (fun {_} f hd its => JsonML.norm1 useNs f hd its) n) :=
  (tree_rt (JsonML.conv m useNs) (jsonml_levelOK m useNs) sch n hw fuel hfuel).1

/-- identity mapper (a document without namespaces) -/
def idMapper : Mapper := ⟨id, id, id⟩

def exFacts : Facts :=
  { hasGroup := true, simple := false, mixed := true, emptyContent := false, complex := true,
    singleGroup := false, isList := false, anyType := false, attrs := ["id"],
    children := [{ name := "a", ty := 1, single := false }] }

def exHd : Hd := { tag := "root", text := none, attrs := [("id", .atom "i" "7")], xmlns := [("t", "urn:t")] }

def exItems : List (Item J) :=
  [.cdata 1 (.atom "s" "hello"), .child "a" false (.list [.atom "s" "a", .atom "i" "1"]),
   .cdata 2 (.atom "s" "mid"), .child "a" false (.list [.atom "s" "a", .atom "i" "2"])]

/-- non-vacuity of `jsonml_level_roundtrip`: a mixed element with an attribute, a namespace declaration,
    two cdata parts and a repeated child meets the hypotheses … -/
example : JsonML.WF1 idMapper true exFacts exHd exItems ∧ JsonML.Kids idMapper exItems := by
  have hc : ∀ i v, Item.cdata i v ∈ exItems → v.isSeq = false ∧ v.isMap = false := by
    intro i v h
    simp only [exItems, List.mem_cons, Item.cdata.injEq, List.mem_nil_iff, or_false] at h
    rcases h with ⟨_, rfl⟩ | h | ⟨_, rfl⟩ | h
    · exact ⟨rfl, rfl⟩
    · cases h
    · exact ⟨rfl, rfl⟩
    · cases h
  have hk : JsonML.Kids idMapper exItems := by
    intro nm s v h
    simp only [exItems, List.mem_cons, Item.child.injEq, List.mem_nil_iff, or_false] at h
    rcases h with h | ⟨rfl, _, rfl⟩ | h | ⟨rfl, _, rfl⟩
    · cases h
    · exact ⟨_, rfl⟩
    · cases h
    · exact ⟨_, rfl⟩
  have hx : isXmlnsKey "id" = false := by decide
  exact ⟨{ tag := rfl, attrsUm := by simp [idMapper], attrsNodup := by simp [JsonML.attrPairs, exHd],
           attrsNodup' := by simp [exHd], attrsNotXmlns := by simp [exHd, idMapper, hx],
           xmlnsNodup := by simp [xmlnsEntries, exHd], textOk := by simp [exHd], textStr := by simp [exHd],
           textAlone := by simp [exHd], groupIff := rfl, simpleNoItems := by simp [exFacts],
           emptyNoItems := by simp [exFacts], cdataStr := hc, kidsUm := fun _ _ _ _ => rfl }, hk⟩

/-- … and the round trip really exercises attributes, xmlns, cdata numbering and children -/
example : JsonML.dec idMapper true exFacts exHd exItems =
    .list [.atom "s" "root", .dict [("id", .atom "i" "7"), ("xmlns:t", .atom "s" "urn:t")],
           .atom "s" "hello", .list [.atom "s" "a", .atom "i" "1"], .atom "s" "mid",
           .list [.atom "s" "a", .atom "i" "2"]] := by
  simp [JsonML.dec, JsonML.header, JsonML.decAttrs, JsonML.attrPairs, JsonML.textPart, JsonML.itemJ, exHd, exItems,
    exFacts, idMapper, dictUpdate, dictSet, xmlnsEntries, J.isNull]

/-! ### content re-ordering helpers of the encoder (models.py:819-949)

  Property text: "… yields XML that is … equal to the original in element structure …".  Between
  `element_encode` and the emission of children the encoder may re-order the content
  (`iter_unordered_content` for dict content / `unordered=True`, `iter_collapsed_content` for every converter
  that is not `losslessly`).  Whatever the model visitor answers, these helpers neither drop nor duplicate
  nor alter an entry. -/

open XsVerif.Conv.Order in
/-- `iter_unordered_content`: the emitted sequence is a permutation of the cdata entries and of all bucket
    values, for every visitor, every visitor state, every number of entries. -/
theorem iter_unordered_is_permutation {σ : Type} (V : Visitor σ) (fuel : Nat) (s : σ) (c : List (Nat × J))
    (b : Buckets) (out : List (Item J)) (h : iterUnordered V fuel s c b = .ok out) :
    out.Perm (cdataItems c ++ flat b) :=
  iterUnordered_perm V fuel s c b out h

open XsVerif.Conv.Order in
/-- `iter_collapsed_content`: the emitted sequence is a permutation of the input content. -/
theorem iter_collapsed_is_permutation {σ : Type} (V : Visitor σ) (fuel : Nat) (s : σ)
    (content out : List (Item J)) (h : iterCollapsed V fuel s content = .ok out) :
    out.Perm (content.map clear) :=
  iterCollapsed_perm V fuel s content out h

open XsVerif.Conv.Order in
/-- non-vacuity: a run where the visitor forces a re-ordering (b is expected before a) -/
example : iterUnordered scriptVisitor 10 [some ["b"], some ["a"], none] [(1, .atom "s" "t")]
    [("a", [.atom "i" "1"]), ("b", [.atom "i" "2"])]
    = .ok [.cdata 1 (.atom "s" "t"), .child "b" false (.atom "i" "2"), .child "a" false (.atom "i" "1")] := by
  simp [iterUnordered, unorderedLoop, popC, findB, scriptVisitor, drain, cdataItems]

open XsVerif.Conv.Order in
/-- non-vacuity: a repeated name that does not match is buffered and emitted when the model asks for it -/
example : iterCollapsed scriptVisitor 10 [some ["a"], some ["b"], some ["a"], none]
    [.child "a" true (.atom "i" "1"), .child "a" true (.atom "i" "2"), .child "b" true (.atom "i" "3")]
    = .ok [.child "a" false (.atom "i" "1"), .child "b" false (.atom "i" "3"), .child "a" false (.atom "i" "2")] := by
  simp [iterCollapsed, collapsedLoop, collapsedStep, findB, scriptVisitor, bAppend, flat]

end XsVerif.Props.C05
