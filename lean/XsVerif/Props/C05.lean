/-
  C05 — decoded data re-encodes to an equivalent document (converter part).
  ONLY property theorems and non-vacuity examples live here.

  Property text: "For every valid document, decoding with a lossless converter (JsonML, data elements, and
  the default/BadgerFish/GData conventions on content models whose same-named children are contiguous) and
  encoding the result yields XML that is ... equal to the original in element structure, attribute sets and
  typed values, and that decodes to the same data again."

  Formal reading: the validators hand every element to the converter as an `ElementData` tuple and build the
  XML tree back from the `ElementData` tuples returned by `element_encode` (elements.py:816-834, 937-1082,
  groups.py:1096-1214).  `decTree`/`encTree` are that recursion; the theorems say that the tree of
  ElementData tuples that comes back is the original one up to the documented normalisations
  (`normTree`: cdata parts renumbered from 1, the text of a mixed element moved to the first cdata part,
  xmlns kept only when the converter processes namespaces).  Element structure, attribute sets and typed
  values are fields of these tuples.
-/
import XsVerif.Lemmas.JsonML
import XsVerif.Lemmas.Tree
import XsVerif.Lemmas.ContentOrder
import XsVerif.Lemmas.DataElement
import XsVerif.Lemmas.DefaultConv
import XsVerif.Lemmas.JsonMLScoped

namespace XsVerif.Props.C05
open XsVerif.Conv

/-! ### JsonML -/

theorem shape_nil {α} {l : List (Item α)} (h : shape l = []) : l = [] := by
  cases l with
  | nil => rfl
  | cons a l => simp [shape, mapIt] at h

theorem mem_shape_cdata {α} {l : List (Item α)} {i v} (h : Item.cdata i v ∈ l) :
    Item.cdata i v ∈ shape l := by
  simp only [shape, mapIt, List.mem_map]
  exact ⟨_, h, rfl⟩

theorem mem_shape_child {α} {l : List (Item α)} {nm s v} (h : Item.child nm s v ∈ l) :
    Item.child nm s () ∈ shape l := by
  simp only [shape, mapIt, List.mem_map]
  exact ⟨_, h, rfl⟩

theorem jsonml_wf_of_shape {m : Mapper} {useNs f hd} {its : List (Item J)}
    (w : JsonML.WF1 m useNs f hd (shape its)) : JsonML.WF1 m useNs f hd its :=
  { tag := w.tag, attrsUm := w.attrsUm, attrsNodup := w.attrsNodup, attrsNodup' := w.attrsNodup',
    attrsNotXmlns := w.attrsNotXmlns, xmlnsNodup := w.xmlnsNodup, textOk := w.textOk, textStr := w.textStr,
    textAlone := fun h => shape_nil (w.textAlone h), groupIff := w.groupIff,
    simpleNoItems := fun h => shape_nil (w.simpleNoItems h),
    emptyNoItems := fun h => shape_nil (w.emptyNoItems h),
    cdataStr := fun i v h => w.cdataStr i v (mem_shape_cdata h),
    kidsUm := fun nm s _ h => w.kidsUm nm s () (mem_shape_child h) }

/-- **JsonML, one level** (jsonml.py:64-132): for every admissible `ElementData` whose converted children are
    JsonML lists, `element_encode (element_decode data)` returns the data again (attributes, typed text,
    content order, names), up to `norm1`.  Unbounded in the number of attributes and of content items. -/
theorem jsonml_level_roundtrip (m : Mapper) (useNs : Bool) (f : Facts) (hd : Hd) (its : List (Item J))
    (w : JsonML.WF1 m useNs f hd its) (hk : JsonML.Kids m its) :
    JsonML.enc m useNs f hd.tag (JsonML.dec m useNs f hd its) = .ok (JsonML.norm1 useNs f hd its) :=
  JsonML.level_roundtrip w hk

theorem renum_natural {α β} (g : α → β) (k : Nat) (l : List (Item α)) :
    renum k (mapIt g l) = mapIt g (renum k l) := by
  induction l generalizing k with
  | nil => rfl
  | cons a l ih => cases a <;> simp_all [renum, mapIt, Item.map]

theorem renum_children {α} (k : Nat) (l : List (Item α)) (nm : String) (s : Bool) (v : α)
    (h : Item.child nm s v ∈ renum k l) : ∃ s', Item.child nm s' v ∈ l := by
  induction l generalizing k with
  | nil => simp [renum] at h
  | cons a l ih =>
    cases a with
    | cdata i w =>
      simp only [renum, List.mem_cons] at h
      rcases h with h | h
      · cases h
      · obtain ⟨s', hs⟩ := ih _ h; exact ⟨s', by simp [hs]⟩
    | child nm' s'' w =>
      simp only [renum, List.mem_cons, Item.child.injEq] at h
      rcases h with ⟨rfl, _, rfl⟩ | h
      · exact ⟨s'', by simp⟩
      · obtain ⟨s', hs⟩ := ih _ h; exact ⟨s', by simp [hs]⟩

theorem jsonml_levelOK (m : Mapper) (useNs : Bool) :
    LevelOK (JsonML.conv m useNs) (JsonML.Inv m) (fun f hd sh => JsonML.WF1 m useNs f hd sh)
      (fun {_} f hd its => JsonML.norm1 useNs f hd its) Eq where
  rt := fun f hd its w hk => ⟨_, JsonML.level_roundtrip (jsonml_wf_of_shape w) hk, ItemsRel.refl_eq _⟩
  encR := by intro f nm v v' h; rw [h]
  inv := fun f hd its _ _ => ⟨_, JsonML.dec_eq m useNs f hd its⟩
  natural := by
    intro α β g f hd its
    unfold JsonML.norm1
    by_cases hs : JsonML.shift f hd = true
    · cases hd.text <;> simp [hs, mapIt, Item.map]
    · have := renum_natural g 1 its
      simp only [mapIt] at this
      simp [hs, mapIt, this]
  children := by
    intro α f hd its nm s v h
    unfold JsonML.norm1 at h
    by_cases hs : JsonML.shift f hd = true
    · cases ht : hd.text <;> simp [hs, ht] at h
    · simp only [hs, Bool.false_eq_true, if_false] at h
      exact renum_children _ _ _ _ _ h

/-- **JsonML, whole documents**: for every typed tree of ElementData tuples (any depth, any width) whose
    levels are admissible, encoding the decoded data gives back the tree up to the documented normalisations
    — no element, attribute, text or cdata part is lost, duplicated, reordered or renamed — provided the
    fuel (a bound on the nesting depth that the encoder may explore) is at least the depth of the tree. -/
theorem jsonml_roundtrip (m : Mapper) (useNs : Bool) (sch : Nat → Option Facts) (n : Node)
    (hw : TreeWF (fun f hd sh => JsonML.WF1 m useNs f hd sh) sch n) (fuel : Nat) (hfuel : n.depth ≤ fuel) :
    encTree (JsonML.conv m useNs) sch fuel n.f n.hd.tag (decTree (JsonML.conv m useNs) n)
      = .ok (normTree (fun {_} f hd its => JsonML.norm1 useNs f hd its) n) :=
  (tree_rt (JsonML.conv m useNs) (jsonml_levelOK m useNs) sch n hw fuel hfuel).1

/-- identity mapper (a document without namespaces) -/
def idMapper : Mapper := { mp := id, um := id, umA := id }

def exFacts : Facts :=
  { hasGroup := true, simple := false, mixed := true, emptyContent := false, complex := true,
    singleGroup := false, isList := false, anyType := false, attrs := ["id"],
    children := [{ name := "a", ty := 1, single := false }] }

def exHd : Hd := { tag := "root", text := none, attrs := [("id", .atom "i" "7")], xmlns := [("t", "urn:t")] }

def exItems : List (Item J) :=
  [.cdata 1 (.atom "s" "hello"), .child "a" false (.list [.atom "s" "a", .atom "i" "1"]),
   .cdata 2 (.atom "s" "mid"), .child "a" false (.list [.atom "s" "a", .atom "i" "2"])]

/-- non-vacuity of `jsonml_level_roundtrip`: a mixed element with an attribute, a namespace declaration,
    two cdata parts and a repeated child meets the hypotheses … -/
example : JsonML.WF1 idMapper true exFacts exHd exItems ∧ JsonML.Kids idMapper exItems := by
  have hc : ∀ i v, Item.cdata i v ∈ exItems → v.isSeq = false ∧ v.isMap = false := by
    intro i v h
    simp only [exItems, List.mem_cons, Item.cdata.injEq, List.mem_nil_iff, or_false] at h
    rcases h with ⟨_, rfl⟩ | h | ⟨_, rfl⟩ | h
    · exact ⟨rfl, rfl⟩
    · cases h
    · exact ⟨rfl, rfl⟩
    · cases h
  have hk : JsonML.Kids idMapper exItems := by
    intro nm s v h
    simp only [exItems, List.mem_cons, Item.child.injEq, List.mem_nil_iff, or_false] at h
    rcases h with h | ⟨rfl, _, rfl⟩ | h | ⟨rfl, _, rfl⟩
    · cases h
    · exact ⟨_, rfl⟩
    · cases h
    · exact ⟨_, rfl⟩
  have hx : isXmlnsKey "id" = false := by decide
  exact ⟨{ tag := rfl, attrsUm := by simp [idMapper], attrsNodup := by simp [JsonML.attrPairs, exHd],
           attrsNodup' := by simp [exHd], attrsNotXmlns := by simp [exHd, idMapper, hx],
           xmlnsNodup := by simp [xmlnsEntries, exHd], textOk := by simp [exHd], textStr := by simp [exHd],
           textAlone := by simp [exHd], groupIff := rfl, simpleNoItems := by simp [exFacts],
           emptyNoItems := by simp [exFacts], cdataStr := hc, kidsUm := fun _ _ _ _ => rfl }, hk⟩

/-- … and the round trip really exercises attributes, xmlns, cdata numbering and children -/
example : JsonML.dec idMapper true exFacts exHd exItems =
    .list [.atom "s" "root", .dict [("id", .atom "i" "7"), ("xmlns:t", .atom "s" "urn:t")],
           .atom "s" "hello", .list [.atom "s" "a", .atom "i" "1"], .atom "s" "mid",
           .list [.atom "s" "a", .atom "i" "2"]] := by
  simp [JsonML.dec, JsonML.header, JsonML.decAttrs, JsonML.attrPairs, JsonML.textPart, JsonML.itemJ, exHd, exItems,
    exFacts, idMapper, dictUpdate, dictSet, xmlnsEntries, J.isNull]


/-! ### DataElementConverter (dataobjects.py:535-578) -/

theorem altOk_shape {α} (b : Bool) (l : List (Item α)) : DE.altOk b (shape l) = DE.altOk b l := by
  induction l generalizing b with
  | nil => rfl
  | cons a l ih => cases a <;> simp_all [shape, mapIt, Item.map, DE.altOk]

theorem hasChild_shape {α} (l : List (Item α)) : DE.hasChild (shape l) = DE.hasChild l := by
  induction l with
  | nil => rfl
  | cons a l ih => cases a <;> simp_all [shape, mapIt, Item.map, DE.hasChild]

theorem de_wf_of_shape {m : Mapper} {f hd} {its : List (Item J)}
    (w : DE.WF1 m f hd (shape its)) : DE.WF1 m f hd its :=
  { attrsUm := w.attrsUm, attrsNodup := w.attrsNodup, attrsNodup' := w.attrsNodup', textOk := w.textOk,
    textAlone := fun h => shape_nil (w.textAlone h), noGroup := fun h => shape_nil (w.noGroup h),
    notAlone := by
      rcases w.notAlone with h | h
      · exact .inl (shape_nil h)
      · exact .inr (by rw [← hasChild_shape]; exact h),
    alt := by rw [← altOk_shape]; exact w.alt,
    kidsName := fun nm s _ h => w.kidsName nm s () (mem_shape_child h) }

/-- **DataElement, one level** (dataobjects.py:535-578): for every admissible `ElementData` whose converted
    children are DataElements, `element_encode (element_decode data)` returns the same tag, text, attributes and
    xmlns, and the same content sequence (names, order, cdata parts renumbered from 1) in which every child
    value is the decoded child, possibly carrying the tail that `element_decode` attached to it.  Unbounded in
    the number of attributes and of content items. -/
theorem dataelement_level_roundtrip (m : Mapper) (f : Facts) (hd : Hd) (its : List (Item J))
    (w : DE.WF1 m f hd its) (hk : DE.Kids its) :
    ∃ its', DE.enc m f hd.tag (DE.dec m f hd its) = .ok (hd, its') ∧ ItemsRel DE.R (renum 1 its) its' :=
  DE.level_roundtrip w hk

theorem dataelement_levelOK (m : Mapper) :
    LevelOK (DE.conv m) DE.Inv (fun f hd sh => DE.WF1 m f hd sh) (fun {_} f hd its => DE.norm1 f hd its) DE.R where
  rt := fun f hd its w hk => DE.level_roundtrip (de_wf_of_shape w) hk
  encR := DE.encR m
  inv := fun f hd its w hk => DE.dec_inv (de_wf_of_shape w) hk
  natural := by
    intro α β g f hd its
    simp only [DE.norm1]
    rw [renum_natural]
  children := by
    intro α f hd its nm s v h
    exact renum_children _ _ _ _ _ h

/-- **DataElement, whole documents**: for every typed tree of ElementData tuples (any depth, any width) whose
    levels are admissible, encoding the decoded DataElement tree gives back the tree of ElementData tuples with
    the cdata parts renumbered from 1 — no element, attribute, text, tail or namespace declaration is lost,
    duplicated, reordered or renamed — provided the fuel is at least the depth of the tree.  Obtained from the
    same generic lifting `tree_rt` as the JsonML theorem. -/
theorem dataelement_roundtrip (m : Mapper) (sch : Nat → Option Facts) (n : Node)
    (hw : TreeWF (fun f hd sh => DE.WF1 m f hd sh) sch n) (fuel : Nat) (hfuel : n.depth ≤ fuel) :
    encTree (DE.conv m) sch fuel n.f n.hd.tag (decTree (DE.conv m) n)
      = .ok (normTree (fun {_} f hd its => DE.norm1 f hd its) n) :=
  (tree_rt (DE.conv m) (dataelement_levelOK m) sch n hw fuel hfuel).1

def deItems : List (Item J) :=
  [.cdata 1 (.atom "s" "hello"), .child "a" false (.elem "a" (.atom "i" "1") [] [] .null []),
   .cdata 2 (.atom "s" "mid"), .child "a" false (.elem "a" (.atom "i" "2") [] [] .null [])]

def deHd : Hd := { exHd with text := none }

/-- non-vacuity of `dataelement_level_roundtrip`: a mixed element with an attribute, namespace declarations,
    leading text, a tail and a repeated child meets the hypotheses … -/
example : DE.WF1 idMapper exFacts deHd deItems ∧ DE.Kids deItems := by
  have hk : DE.Kids deItems := by
    intro nm s v h
    simp only [deItems, List.mem_cons, Item.child.injEq, List.mem_nil_iff, or_false] at h
    rcases h with h | ⟨rfl, _, rfl⟩ | h | ⟨rfl, _, rfl⟩
    · cases h
    · exact ⟨_, _, _, _, rfl⟩
    · cases h
    · exact ⟨_, _, _, _, rfl⟩
  have hd : DE.isDigits "a" = false := by decide
  refine ⟨{ attrsUm := by simp [idMapper], attrsNodup := by simp [deHd, exHd], attrsNodup' := by simp [deHd, exHd],
            textOk := by simp [deHd], textAlone := by simp [deHd], noGroup := by simp [exFacts],
            notAlone := .inr rfl, alt := rfl, kidsName := ?_ }, hk⟩
  intro nm s v h
  simp only [deItems, List.mem_cons, Item.child.injEq, List.mem_nil_iff, or_false] at h
  rcases h with h | ⟨rfl, _, _⟩ | h | ⟨rfl, _, _⟩
  · cases h
  · exact hd
  · cases h
  · exact hd

/-- … and the decoded DataElement really carries value, attributes, xmlns, children and a tail -/
example : DE.dec idMapper exFacts deHd deItems =
    .elem "root" (.atom "s" "hello") [("id", .atom "i" "7")]
      [.elem "a" (.atom "i" "1") [] [] (.atom "s" "mid") [], .elem "a" (.atom "i" "2") [] [] .null []]
      .null [("t", "urn:t")] := by
  have hd : DE.isDigits "a" = false := by decide
  simp [DE.dec, DE.decLoop, DE.decStep, DE.decAttrs, DE.modifyLast, DE.setTail, deHd, exHd, deItems, exFacts, idMapper,
    dictUpdate, dictSet, hd]

/-- the guard "two character data parts are never adjacent" of `DE.WF1.alt` is necessary: `element_decode`
    keeps only the last of two adjacent parts (`data_element[-1].tail = value` twice), so the content that
    comes back is shorter.  (Full statement without the guard: false.)  Replayed on the real
    `DataElementConverter.element_decode/element_encode` by the harness. -/
theorem dataelement_roundtrip_counterexample :
    DE.enc idMapper exFacts "root"
      (DE.dec idMapper exFacts { tag := "root", text := none, attrs := [], xmlns := [] }
        [.child "a" false (.elem "a" (.atom "i" "1") [] [] .null []), .cdata 1 (.atom "s" "x"),
         .cdata 2 (.atom "s" "y")])
    = .ok ({ tag := "root", text := none, attrs := [], xmlns := [] },
           [.child "a" false (.elem "a" (.atom "i" "1") [] [] (.atom "s" "y") []), .cdata 1 (.atom "s" "y")]) := by
  have hd : DE.isDigits "a" = false := by decide
  simp [DE.dec, DE.decLoop, DE.decStep, DE.decAttrs, DE.modifyLast, DE.setTail, DE.enc, DE.encKids, exFacts, idMapper,
    dictUpdate, hd, J.isNull, bind, Except.bind, pure, Except.pure]

/-! ### the default convention, XMLSchemaConverter (converters/base.py:336-494)

  Full statement (FALSE for the code): "for every admissible ElementData, `element_encode (element_decode d)`
  is `d` up to `norm1`".  The default convention collapses same-named children into one dictionary entry,
  drops character data parts without a `cdata_prefix`, and puts attributes, text, declarations and children in
  one key space.  Proved: the statement under the decidable guards of `Dflt.WF1` (same-named children
  contiguous, no character data between children, no key collisions, no list-typed children, attributes/text
  not dropped by the options); the three `_counterexample`s below show what happens outside the guards and
  are replayed on the real converter by the harness.

  `element_encode` resolves the key of EACH child item with the declarations that the item itself carries
  (base.py:488-495, `Dflt.putValue`/`Dflt.kidsX`, `Mapper.umX`; the runs of a key whose items disagree are
  emitted item by item under the names the items denote).  The one-level theorems are stated for one mapper per
  level, so `Dflt.KidOK.umX` asks that the declarations carried by a child do not change what the child's key
  denotes. -/

theorem keysOf_shape {α} (m : Mapper) (l : List (Item α)) : Dflt.keysOf m (shape l) = Dflt.keysOf m l := by
  induction l with
  | nil => rfl
  | cons a l ih => cases a <;> simp_all [shape, mapIt, Item.map, Dflt.keysOf]

theorem noCdata_shape {α} (l : List (Item α)) : Dflt.noCdata (shape l) = Dflt.noCdata l := by
  induction l with
  | nil => rfl
  | cons a l ih => cases a <;> simp_all [shape, mapIt, Item.map, Dflt.noCdata]

theorem dflt_wf_of_shape {o : Dflt.Opts} {m : Mapper} {f hd} {its : List (Item J)}
    (w : Dflt.WF1 o m f hd (shape its)) : Dflt.WF1 o m f hd its :=
  { attrsUm := w.attrsUm, attrsNodup' := w.attrsNodup', attrPre := w.attrPre, attrClass := w.attrClass,
    attrsNodup := w.attrsNodup, xmlnsNodup := w.xmlnsNodup, xmlnsClass := w.xmlnsClass, xmlnsBack := w.xmlnsBack,
    textNotXmlns := w.textNotXmlns, textOk := w.textOk, textKeyOk := w.textKeyOk, textPlace := w.textPlace,
    textAlone := fun h => shape_nil (w.textAlone h), noGroup := fun h => shape_nil (w.noGroup h),
    noCd := by rw [← noCdata_shape]; exact w.noCd,
    contiguous := by rw [← keysOf_shape]; exact w.contiguous,
    kids := fun nm s _ h => w.kids nm s () (mem_shape_child h) }

/-- **default convention, one level, under guards** (base.py:336-494, `preserve_root=False`): for every
    options record, every name mapper and every `ElementData` that meets the guards `Dflt.WF1`, whose converted
    children are not sequences, `element_encode (element_decode data)` returns the tag, the text, the attribute
    dict (same keys, same typed values, same order), the namespace declarations and the children (same names,
    same values, same order) again, up to `Dflt.norm1`.  Unbounded in the number of attributes, declarations,
    children and in the length of the runs of same-named children. -/
theorem default_level_roundtrip_partial (o : Dflt.Opts) (m : Mapper) (f : Facts) (hd : Hd) (its : List (Item J))
    (w : Dflt.WF1 o m f hd its) (hk : Dflt.Kids its) :
    Dflt.enc o m f hd.tag (Dflt.dec o m f hd its) = .ok (Dflt.norm1 o f hd its) :=
  Dflt.level_roundtrip w hk

theorem mapIt_isEmpty {α β} (g : α → β) (l : List (Item α)) : (mapIt g l).isEmpty = l.isEmpty := by
  cases l <;> simp [mapIt]

theorem default_levelOK (o : Dflt.Opts) (m : Mapper) :
    LevelOK (Dflt.conv o m) Dflt.Inv (fun f hd sh => Dflt.WF1 o m f hd sh)
      (fun {_} f hd its => Dflt.norm1 o f hd its) Eq where
  rt := fun f hd its w hk => ⟨_, Dflt.level_roundtrip (dflt_wf_of_shape w) hk, ItemsRel.refl_eq _⟩
  encR := by intro f nm v v' h; rw [h]
  inv := fun f hd its w _ => Dflt.dec_inv (dflt_wf_of_shape w)
  natural := by
    intro α β g f hd its
    simp only [Dflt.norm1, mapIt_isEmpty]
    split
    · simp only [renum_natural]
    · split
      · rfl
      · split <;> try split
        all_goals rfl
  children := by
    intro α f hd its nm s v h
    simp only [Dflt.norm1] at h
    split at h
    · exact renum_children _ _ _ _ _ h
    · split at h
      · simp at h
      · split at h
        · split at h <;> simp at h
        · simp at h

/-- **default convention, whole documents, under guards**: for every typed tree of ElementData tuples (any
    depth, any width) all of whose levels meet the guards, encoding the decoded dictionaries gives the tree back
    up to the documented normalisations — provided the fuel is at least the depth of the tree.  Same generic
    lifting `tree_rt` as for JsonML and DataElement. -/
theorem default_roundtrip_partial (o : Dflt.Opts) (m : Mapper) (sch : Nat → Option Facts) (n : Node)
    (hw : TreeWF (fun f hd sh => Dflt.WF1 o m f hd sh) sch n) (fuel : Nat) (hfuel : n.depth ≤ fuel) :
    encTree (Dflt.conv o m) sch fuel n.f n.hd.tag (decTree (Dflt.conv o m) n)
      = .ok (normTree (fun {_} f hd its => Dflt.norm1 o f hd its) n) :=
  (tree_rt (Dflt.conv o m) (default_levelOK o m) sch n hw fuel hfuel).1

/-- keys of the content that comes back (`#` for a character data part) -/
def contentKeys : Except Err (Hd × List (Item J)) → List String
  | .ok (_, its) => its.map fun | .cdata _ _ => "#" | .child nm _ _ => nm
  | .error _ => ["!"]

def abFacts : Facts :=
  { hasGroup := true, simple := false, mixed := true, emptyContent := false, complex := true,
    singleGroup := false, isList := false, anyType := false, attrs := ["a"],
    children := [{ name := "a", ty := 1, single := false }, { name := "b", ty := 1, single := false }] }

def abHd : Hd := { tag := "root", text := none, attrs := [], xmlns := [] }

/-- outside the guard "same-named children are contiguous": `a b a` comes back as `a a b` -/
theorem default_roundtrip_counterexample_noncontiguous :
    contentKeys (Dflt.enc {} idMapper abFacts "root" (Dflt.dec {} idMapper abFacts abHd
      [.child "a" false (.atom "i" "1"), .child "b" false (.atom "i" "2"), .child "a" false (.atom "i" "3")]))
    = ["a", "a", "b"] := by decide

/-- outside the guard "no mixed text between children" (no `cdata_prefix`): the character data part is lost -/
theorem default_roundtrip_counterexample_mixed_text :
    contentKeys (Dflt.enc {} idMapper abFacts "root" (Dflt.dec {} idMapper abFacts abHd
      [.cdata 1 (.atom "s" "txt"), .child "a" false (.atom "i" "1")]))
    = ["a"] := by decide

/-- outside the guard "no attribute/child key collisions" (`attr_prefix=''`): the attribute `a` and the child
    `a` share one dictionary entry; two children `a` and no attribute come back -/
theorem default_roundtrip_counterexample_key_collision :
    contentKeys (Dflt.enc { attrPrefix := some "" } idMapper abFacts "root"
      (Dflt.dec { attrPrefix := some "" } idMapper abFacts { abHd with attrs := [("a", .atom "s" "x")] }
        [.child "a" false (.atom "i" "1")]))
    = ["a", "a"] := by decide

def dfItems : List (Item J) :=
  [.child "a" false (.dict [("@k", .atom "s" "v"), ("$", .atom "i" "1")]), .child "a" false (.atom "i" "2"),
   .child "b" false .null]

/-- non-vacuity of `default_level_roundtrip_partial`: an element with an attribute, a namespace declaration, a
    run of two `a` (one of them a dictionary) and a `b` meets the guards for the default options … -/
example : Dflt.WF1 {} idMapper abFacts exHd dfItems ∧ Dflt.Kids dfItems := by
  have hk : Dflt.Kids dfItems := by
    intro nm s v h
    simp only [dfItems, List.mem_cons, Item.child.injEq, List.mem_nil_iff, or_false] at h
    rcases h with ⟨_, _, rfl⟩ | ⟨_, _, rfl⟩ | ⟨_, _, rfl⟩ <;> rfl
  have ka : Dflt.KidOK {} idMapper abFacts "a" :=
    { cls := by decide, um := rfl, umX := fun _ => rfl,
      decl := ⟨{ name := "a", ty := 1, single := false }, by simp [findChild, abFacts], rfl⟩ }
  have kb : Dflt.KidOK {} idMapper abFacts "b" :=
    { cls := by decide, um := rfl, umX := fun _ => rfl,
      decl := ⟨{ name := "b", ty := 1, single := false }, by simp [findChild, abFacts], rfl⟩ }
  refine ⟨{ attrsUm := by simp [idMapper], attrsNodup' := by simp [exHd], attrPre := fun _ => rfl,
            attrClass := ?_, attrsNodup := by simp [Dflt.mapAttrs, exHd], xmlnsNodup := by simp [xmlnsEntries, exHd],
            xmlnsClass := ?_, xmlnsBack := by decide, textNotXmlns := ?_,
            textOk := by simp [exHd], textKeyOk := by simp [exHd], textPlace := by simp [exHd],
            textAlone := by simp [exHd], noGroup := by simp [abFacts], noCd := rfl, contiguous := by decide,
            kids := ?_ }, hk⟩
  · intro p hp kv hkv
    have : p = "@" := by cases hp; rfl
    subst this
    simp only [exHd, List.mem_singleton] at hkv
    subst hkv
    decide
  · intro kv hkv
    simp only [exHd, xmlnsEntries, List.map_cons, List.map_nil, List.mem_singleton] at hkv
    subst hkv
    decide
  · intro k hk'
    have : k = "$" := by cases hk'; rfl
    subst this
    decide
  · intro nm s v h
    simp only [dfItems, List.mem_cons, Item.child.injEq, List.mem_nil_iff, or_false] at h
    rcases h with ⟨rfl, _, _⟩ | ⟨rfl, _, _⟩ | ⟨rfl, _, _⟩
    · exact ka
    · exact ka
    · exact kb

/-- … and the dictionary really collapses the run -/
example : contentKeys (Dflt.enc {} idMapper abFacts "root" (Dflt.dec {} idMapper abFacts exHd dfItems))
    = ["a", "a", "b"] := by decide

/-! ### documents whose elements (re)declare namespaces below the root

  With namespace declarations on nested elements the converter's name mapping is no longer one function per
  document: `set_xmlns_context` (namespaces.py:192-251) pushes an element's declarations when the element is
  entered and restores the saved map when it is left (one context at a time on decode, possibly several at once
  on encode).  `decTreeS`/`encTreeS` (Model/Converters.lean) are the recursion of the validators with the
  discipline this implements — the mapping seen by an element is a function of the declarations written on its
  ancestors-or-self, whatever its earlier siblings and their descendants declared — and the theorems below lift
  the one-level round trips to whole documents under that discipline, for every family of mappers indexed by
  the declarations in scope.  The harness checks on the real converters that the mapping of every
  `element_decode`/`element_encode` call IS a function of that lexical scope (one table per scope, a second
  answer for the same scope is a mismatch) and replays the document through `decTreeS`/`encTreeS`. -/

/-- **JsonML, whole documents with nested namespace declarations** (namespaces processed): for every family of
    name mappers indexed by the declarations in scope and every typed tree of ElementData tuples (any depth, any
    width, any placement of declarations) whose levels are admissible in their own scope, encoding the decoded data
    gives the tree back up to the documented normalisations.  An element's own name and attribute names are
    un-mapped in the element's scope, a child's name in the scope extended with the child's declarations
    (jsonml.py:126-131) — so a child may be written with a prefix that only the child declares.  Later siblings
    are encoded in the scope of their parent: nothing that an earlier sibling or its descendants declare is
    visible to them. -/theorem jsonml_roundtrip_scoped (m : NsScope → Mapper) (sch : Nat → Option Facts) (sc : NsScope) (n : Node)
    (hw : TreeWFS (fun sc f hd sh => JsonML.WF1K (m sc) f hd sh) sch sc n) (fuel : Nat) (hfuel : n.depth ≤ fuel) :
    encTreeS (JsonML.sconv m) sch fuel sc n.f n.hd.tag (decTreeS (JsonML.sconv m) sc n)
      = .ok (normTree (fun {_} f hd its => JsonML.norm1 true f hd its) n) :=
  (tree_rt_scoped (JsonML.sconv m) (JsonML.jsonml_scopedOK m) sch n sc hw fuel hfuel).1

/-- a name mapping given by a table `[(extended, prefixed)…]` (names not listed map to themselves) -/
def tblMapper (t : List (String × String)) : Mapper :=
  let mp := fun k => match t.find? (·.1 == k) with | some p => p.2 | none => k
  let um := fun k => match t.find? (·.2 == k) with | some p => p.1 | none => k
  { mp, um, umA := um }

def sRoot : NsScope := [("", "urn:t")]
def sA : NsScope := [("p", "urn:t"), ("", "")] ++ sRoot
def sB : NsScope := [("q", "urn:q")] ++ sA

/-- under the root's declarations names of `urn:t` are written without prefix; inside `a` (which re-binds the
    default namespace and declares `p`) with the prefix `p` -/
def exM : NsScope → Mapper := fun sc =>
  if sc = sRoot then tblMapper [("{urn:t}root", "root"), ("{urn:t}a", "a"), ("{urn:t}b", "b"), ("{urn:t}c", "c")]
  else tblMapper [("{urn:t}a", "p:a"), ("{urn:t}b", "p:b"), ("{urn:t}c", "p:c")]

def leafF : Facts :=
  { hasGroup := false, simple := true, mixed := false, emptyContent := false, complex := false,
    singleGroup := false, isList := false, anyType := false, attrs := [], children := [] }
def aF : Facts :=
  { hasGroup := true, simple := false, mixed := false, emptyContent := false, complex := true,
    singleGroup := true, isList := false, anyType := false, attrs := [],
    children := [{ name := "{urn:t}b", ty := 0, single := true }] }
def rootF : Facts :=
  { hasGroup := true, simple := false, mixed := false, emptyContent := false, complex := true,
    singleGroup := true, isList := false, anyType := false, attrs := [],
    children := [{ name := "{urn:t}a", ty := 1, single := true }, { name := "{urn:t}c", ty := 0, single := true }] }
def exSch : Nat → Option Facts
  | 0 => some leafF
  | 1 => some aF
  | _ => none

def nB : Node := .mk leafF { tag := "{urn:t}b", text := some (.atom "i" "10"), attrs := [], xmlns := [("q", "urn:q")] } .nil
def nA : Node := .mk aF { tag := "{urn:t}a", text := none, attrs := [], xmlns := [("p", "urn:t"), ("", "")] }
  (.child "{urn:t}b" true nB .nil)
def nC : Node := .mk leafF { tag := "{urn:t}c", text := some (.atom "i" "20"), attrs := [], xmlns := [] } .nil
def exDoc : Node := .mk rootF { tag := "{urn:t}root", text := none, attrs := [], xmlns := [("", "urn:t")] }
  (.child "{urn:t}a" true nA (.child "{urn:t}c" true nC .nil))

example : decTreeS (JsonML.sconv exM) [] exDoc =
    .list [.atom "s" "root", .dict [("xmlns", .atom "s" "urn:t")],
      .list [.atom "s" "p:a", .dict [("xmlns:p", .atom "s" "urn:t"), ("xmlns", .atom "s" "")],
        .list [.atom "s" "p:b", .dict [("xmlns:q", .atom "s" "urn:q")], .atom "i" "10"]],
      .list [.atom "s" "c", .atom "i" "20"]] := by
  simp [decTreeS, decItemsS, exDoc, nA, nB, nC, JsonML.sconv, JsonML.dec, JsonML.header, JsonML.decAttrs,
    JsonML.attrPairs, JsonML.textPart, JsonML.itemJ, exM, sRoot, NsScope.push, tblMapper, dictUpdate, dictSet,
    xmlnsEntries, J.isNull, rootF, aF, leafF]

theorem wf1K_noAttrs {α : Type} (m : Mapper) (f : Facts) (tag : String) (text : Option J)
    (x : List (String × String)) (its : List (Item α))
    (htag : m.um (m.mp tag) = tag)
    (hx : ((xmlnsEntries "" x).map (·.1)).Nodup)
    (htext : ∀ t, text = some t → t.isMap = false ∧ t.isNull = false ∧ t.isSeq = false)
    (halone : text.isSome = true → its = [])
    (hg : f.hasGroup = !f.simple) (hs : f.simple = true → its = []) (he : f.emptyContent = true → its = [])
    (hc : ∀ i v, Item.cdata i v ∈ its → v.isSeq = false ∧ v.isMap = false) :
    JsonML.WF1K m f { tag, text, attrs := [], xmlns := x } its :=
  { tag := htag, attrsUm := by simp, attrsNodup := by simp [JsonML.attrPairs], attrsNodup' := by simp,
    attrsNotXmlns := by simp, xmlnsNodup := hx,
    textOk := fun t h => ⟨(htext t h).1, (htext t h).2.1⟩, textStr := fun t h _ => (htext t h).2.2,
    textAlone := halone, groupIff := hg, simpleNoItems := hs, emptyNoItems := he, cdataStr := hc }

/-- non-vacuity of `jsonml_roundtrip_scoped`: the document
    `<root xmlns="urn:t"><p:a xmlns:p="urn:t" xmlns=""><p:b xmlns:q="urn:q">10</p:b></p:a><c>20</c></root>`
    (declarations nested two deep, the outer one re-binding the default namespace, followed by a later sibling
    that relies on the root's default namespace) meets the hypotheses -/
example : TreeWFS (fun sc f hd sh => JsonML.WF1K (exM sc) f hd sh) exSch [] exDoc := by
  have hb : JsonML.WF1K (exM sB) leafF { tag := "{urn:t}b", text := some (.atom "i" "10"), attrs := [], xmlns := [("q", "urn:q")] }
      ([] : List (Item Unit)) :=
    wf1K_noAttrs _ _ _ _ _ _ (by decide) (by simp [xmlnsEntries]) (by intro t h; cases h; exact ⟨rfl, rfl, rfl⟩)
      (fun _ => rfl) rfl (fun _ => rfl) (fun _ => rfl) (by intro i v h; simp at h)
  have hc : JsonML.WF1K (exM sRoot) leafF { tag := "{urn:t}c", text := some (.atom "i" "20"), attrs := [], xmlns := [] }
      ([] : List (Item Unit)) :=
    wf1K_noAttrs _ _ _ _ _ _ (by decide) (by simp [xmlnsEntries]) (by intro t h; cases h; exact ⟨rfl, rfl, rfl⟩)
      (fun _ => rfl) rfl (fun _ => rfl) (fun _ => rfl) (by intro i v h; simp at h)
  have ha : JsonML.WF1K (exM sA) aF { tag := "{urn:t}a", text := none, attrs := [], xmlns := [("p", "urn:t"), ("", "")] }
      [Item.child "{urn:t}b" true ()] :=
    wf1K_noAttrs _ _ _ _ _ _ (by decide) (by simp [xmlnsEntries]) (by intro t h; cases h)
      (by simp) rfl (by simp [aF]) (by simp [aF]) (by intro i v h; simp at h)
  have hr : JsonML.WF1K (exM sRoot) rootF { tag := "{urn:t}root", text := none, attrs := [], xmlns := [("", "urn:t")] }
      [Item.child "{urn:t}a" true (), Item.child "{urn:t}c" true ()] :=
    wf1K_noAttrs _ _ _ _ _ _ (by decide) (by simp [xmlnsEntries]) (by intro t h; cases h)
      (by simp) rfl (by simp [rootF]) (by simp [rootF]) (by intro i v h; simp at h)
  refine ⟨hr, ⟨rfl, ⟨{ name := "{urn:t}a", ty := 1, single := true }, by simp [findChild, rootF], rfl⟩,
    ⟨ha, ⟨rfl, ⟨{ name := "{urn:t}b", ty := 0, single := true }, by simp [findChild, aF], rfl⟩, ⟨hb, trivial⟩, trivial⟩⟩,
    ⟨rfl, ⟨{ name := "{urn:t}c", ty := 0, single := true }, by simp [findChild, rootF], rfl⟩, ⟨hc, trivial⟩, trivial⟩⟩⟩


theorem de_enc_xmlns (m : Mapper) (f : Facts) (nm : String) (v : J) (hd : Hd) (its : List (Item J))
    (h : DE.enc m f nm v = .ok (hd, its)) : hd.xmlns = DE.xmlnsOfObj v := by
  unfold DE.enc at h
  split at h
  · split at h
    · cases h
    · split at h
      · cases h; rfl
      · split at h
        · simp only [bind, Except.bind] at h
          split at h
          · cases h
          · cases h; rfl
        · simp only [bind, Except.bind] at h
          split at h
          · cases h
          · cases h; rfl
  · cases h

theorem de_xmlnsR (v v' : J) (h : DE.R v v') : DE.xmlnsOfObj v' = DE.xmlnsOfObj v := by
  rcases h with rfl | ⟨t, rfl⟩
  · rfl
  · cases v <;> rfl

theorem dataelement_scopedOK (m : NsScope → Mapper) :
    ScopedOK (DE.sconv m) (fun _ => DE.Inv) (fun sc f hd sh => DE.WF1 (m sc) f hd sh)
      (fun {_} f hd its => DE.norm1 f hd its) DE.R :=
  ScopedOK.ofLevel (c := DE.sconv m) (fun sc => dataelement_levelOK (m sc))
    (fun sc f nm v hd its h => de_enc_xmlns (m sc) f nm v hd its h)
    (fun _ _ _ => rfl) de_xmlnsR

/-- **DataElement, whole documents with nested namespace declarations**: the same lifting for the
    DataElementConverter (tags are extended names, attribute names are mapped in the element's scope, the
    declarations are the element's `xmlns` attribute) — at full strength, for every family of mappers and every
    placement of declarations. -/
theorem dataelement_roundtrip_scoped (m : NsScope → Mapper) (sch : Nat → Option Facts) (sc : NsScope) (n : Node)
    (hw : TreeWFS (fun sc f hd sh => DE.WF1 (m sc) f hd sh) sch sc n) (fuel : Nat) (hfuel : n.depth ≤ fuel) :
    encTreeS (DE.sconv m) sch fuel sc n.f n.hd.tag (decTreeS (DE.sconv m) sc n)
      = .ok (normTree (fun {_} f hd its => DE.norm1 f hd its) n) :=
  (tree_rt_scoped (DE.sconv m) (dataelement_scopedOK m) sch n sc hw fuel hfuel).1

/-- non-vacuity of `dataelement_roundtrip_scoped`: the decoded DataElements of `exDoc` carry the declarations of
    each level, and the tree comes back -/
example : decTreeS (DE.sconv exM) [] exDoc =
    .elem "{urn:t}root" .null [] [
      .elem "{urn:t}a" .null [] [.elem "{urn:t}b" (.atom "i" "10") [] [] .null [("q", "urn:q")]] .null
        [("p", "urn:t"), ("", "")],
      .elem "{urn:t}c" (.atom "i" "20") [] [] .null []] .null [("", "urn:t")] := by
  have hd : ∀ s, s ∈ ["{urn:t}a", "{urn:t}b", "{urn:t}c", "p:a", "p:b", "p:c", "a", "b", "c"] → DE.isDigits s = false := by
    decide
  simp [decTreeS, decItemsS, exDoc, nA, nB, nC, DE.sconv, DE.conv, DE.dec, DE.decLoop, DE.decStep, DE.decAttrs, exM, sRoot,
    NsScope.push, tblMapper, dictUpdate, rootF, aF, leafF, hd]

/-! ### content re-ordering helpers of the encoder (models.py:819-949)

  Property text: "… yields XML that is … equal to the original in element structure …".  Between
  `element_encode` and the emission of children the encoder may re-order the content
  (`iter_unordered_content` for dict content / `unordered=True`, `iter_collapsed_content` for every converter
  that is not `losslessly`).  Whatever the model visitor answers, these helpers neither drop nor duplicate
  nor alter an entry. -/

open XsVerif.Conv.Order in
/-- `iter_unordered_content`: the emitted sequence is a permutation of the cdata entries and of all bucket
    values, for every visitor, every visitor state, every number of entries. -/
theorem iter_unordered_is_permutation {σ : Type} (V : Visitor σ) (fuel : Nat) (s : σ) (c : List (Nat × J))
    (b : Buckets) (out : List (Item J)) (h : iterUnordered V fuel s c b = .ok out) :
    out.Perm (cdataItems c ++ flat b) :=
  iterUnordered_perm V fuel s c b out h

open XsVerif.Conv.Order in
/-- `iter_collapsed_content`: the emitted sequence is a permutation of the input content. -/
theorem iter_collapsed_is_permutation {σ : Type} (V : Visitor σ) (fuel : Nat) (s : σ)
    (content out : List (Item J)) (h : iterCollapsed V fuel s content = .ok out) :
    out.Perm (content.map clear) :=
  iterCollapsed_perm V fuel s content out h

open XsVerif.Conv.Order in
/-- the buffer of postponed same-named children is a queue: for the content model `((a, b?){1,6}, c)` (the
    successive states of its visitor) and the content `a a a a a c`, the four buffered `a`s are handed back to the
    model first in, first out — same-named siblings keep their order.  (A stack instead of a queue gives
    1 5 4 3 2.)  Replayed on the real `iter_collapsed_content` with the real ModelVisitor by the harness. -/
theorem iter_collapsed_fifo_witness :
    iterCollapsed scriptVisitor 60
      [some ["a"], some ["b"], some ["a"], some ["b"], some ["a"], some ["b"], some ["a"], some ["b"], some ["a"],
       some ["b"], some ["a"], some ["c"], none]
      [.child "a" true (.atom "i" "1"), .child "a" true (.atom "i" "2"), .child "a" true (.atom "i" "3"),
       .child "a" true (.atom "i" "4"), .child "a" true (.atom "i" "5"), .child "c" true (.atom "i" "9")]
    = .ok [.child "a" false (.atom "i" "1"), .child "a" false (.atom "i" "2"), .child "a" false (.atom "i" "3"),
           .child "a" false (.atom "i" "4"), .child "a" false (.atom "i" "5"), .child "c" false (.atom "i" "9")] := by
  simp [iterCollapsed, collapsedLoop, collapsedStep, findB, scriptVisitor, bAppend, flat]

open XsVerif.Conv.Order in
/-- non-vacuity: a run where the visitor forces a re-ordering (b is expected before a) -/
example : iterUnordered scriptVisitor 10 [some ["b"], some ["a"], none] [(1, .atom "s" "t")]
    [("a", [.atom "i" "1"]), ("b", [.atom "i" "2"])]
    = .ok [.cdata 1 (.atom "s" "t"), .child "b" false (.atom "i" "2"), .child "a" false (.atom "i" "1")] := by
  simp [iterUnordered, unorderedLoop, popC, findB, scriptVisitor, drain, cdataItems]

open XsVerif.Conv.Order in
/-- non-vacuity: a repeated name that does not match is buffered and emitted when the model asks for it -/
example : iterCollapsed scriptVisitor 10 [some ["a"], some ["b"], some ["a"], none]
    [.child "a" true (.atom "i" "1"), .child "a" true (.atom "i" "2"), .child "b" true (.atom "i" "3")]
    = .ok [.child "a" false (.atom "i" "1"), .child "b" false (.atom "i" "3"), .child "a" false (.atom "i" "2")] := by
  simp [iterCollapsed, collapsedLoop, collapsedStep, findB, scriptVisitor, bAppend, flat]

end XsVerif.Props.C05
