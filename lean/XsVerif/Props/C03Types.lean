/-
  C03 — the simple-type parameters made concrete.  `Props/C03.lean` proves the attribute-set theorems for an
  arbitrary `Sem` (type validity + the fixed-value test) under the hypothesis that the test is reflexive.
  Here `Sem` is `AttrTypes.semCat` — the port of what `XsdAttribute.raw_decode` computes for the catalogue
  types of the run — and:
    * the hypothesis is discharged (`semCat_refl`), giving `attrs_valid_iff_cat` without it;
    * the fixed-value test is an equivalence relation (`fixed_test_equiv`);
    * the fixed-value test IS equality in the value space (integers, decimals as rationals, booleans,
      strings after white-space normalisation, lists of integers) for every catalogue type except xs:QName
      (`fixed_test_value_partial`); for xs:QName the full statement is false for the code (finding C03-F3):
      `fixed_qname_rejects_counterexample`, `fixed_qname_admits_counterexample`.
-/
import XsVerif.Props.C03
import XsVerif.Model.AttrTypes
import XsVerif.Lemmas.DatatypesWs

namespace XsVerif.Props.C03Types
open XsVerif.Wildcard XsVerif.Attributes XsVerif.AttrTypes XsVerif.Datatypes XsVerif.Props.C03

/-! ## the fixed-value test is an equivalence relation -/

theorem ten_pow_ne_zero (k : Nat) : (10 : Int) ^ k ≠ 0 := by
  induction k with
  | zero => decide
  | succ n ih => rw [Int.pow_succ]; exact Int.mul_ne_zero ih (by decide)

theorem eqv_iff (a b : Dec) : a.eqv b = true ↔ a.toInt * (10 : Int) ^ b.scale = b.toInt * (10 : Int) ^ a.scale := by
  unfold Dec.eqv; simp

theorem eqv_refl (a : Dec) : a.eqv a = true := (eqv_iff a a).mpr rfl

theorem eqv_symm {a b : Dec} (h : a.eqv b = true) : b.eqv a = true :=
  (eqv_iff b a).mpr ((eqv_iff a b).mp h).symm

theorem eqv_trans {a b c : Dec} (h1 : a.eqv b = true) (h2 : b.eqv c = true) : a.eqv c = true := by
  rw [eqv_iff] at *
  have hb := ten_pow_ne_zero b.scale
  apply Int.eq_of_mul_eq_mul_right hb
  calc a.toInt * 10 ^ c.scale * 10 ^ b.scale
      = (a.toInt * 10 ^ b.scale) * 10 ^ c.scale := by rw [Int.mul_assoc, Int.mul_comm (10 ^ c.scale), ← Int.mul_assoc]
    _ = (b.toInt * 10 ^ a.scale) * 10 ^ c.scale := by rw [h1]
    _ = (b.toInt * 10 ^ c.scale) * 10 ^ a.scale := by rw [Int.mul_assoc, Int.mul_comm (10 ^ a.scale), ← Int.mul_assoc]
    _ = (c.toInt * 10 ^ b.scale) * 10 ^ a.scale := by rw [h2]
    _ = c.toInt * 10 ^ a.scale * 10 ^ b.scale := by rw [Int.mul_assoc, Int.mul_comm (10 ^ b.scale), ← Int.mul_assoc]

theorem av_refl (a : AV) : a.pyEq a = true := by
  cases a <;> simp [AV.pyEq, eqv_refl]

theorem av_symm {a b : AV} (h : a.pyEq b = true) : b.pyEq a = true := by
  cases a <;> cases b <;> simp [AV.pyEq] at h ⊢
  all_goals first | exact eqv_symm h | exact h.symm

theorem av_trans {a b c : AV} (h1 : a.pyEq b = true) (h2 : b.pyEq c = true) : a.pyEq c = true := by
  cases a <;> cases b <;> cases c <;> simp [AV.pyEq] at h1 h2 ⊢
  all_goals first | exact eqv_trans h1 h2 | exact h1.trans h2

theorem list_refl (l : List AV) : listPyEq l l = true := by
  induction l with
  | nil => rfl
  | cons a t ih => simp [listPyEq, av_refl, ih]

theorem list_symm : ∀ {a b : List AV}, listPyEq a b = true → listPyEq b a = true
  | [], [], _ => rfl
  | [], _ :: _, h => by simp [listPyEq] at h
  | _ :: _, [], h => by simp [listPyEq] at h
  | x :: xs, y :: ys, h => by
    simp only [listPyEq, Bool.and_eq_true] at h ⊢
    exact ⟨av_symm h.1, list_symm h.2⟩

theorem list_trans : ∀ {a b c : List AV}, listPyEq a b = true → listPyEq b c = true → listPyEq a c = true
  | [], [], [], _, _ => rfl
  | [], [], _ :: _, _, h => by simp [listPyEq] at h
  | [], _ :: _, _, h, _ => by simp [listPyEq] at h
  | _ :: _, [], _, h, _ => by simp [listPyEq] at h
  | _ :: _, _ :: _, [], _, h => by simp [listPyEq] at h
  | x :: xs, y :: ys, z :: zs, h1, h2 => by
    simp only [listPyEq, Bool.and_eq_true] at h1 h2 ⊢
    exact ⟨av_trans h1.1 h2.1, list_trans h1.2 h2.2⟩

theorem sv_refl (a : SV) : a.pyEq a = true := by
  cases a <;> simp [SV.pyEq, av_refl, list_refl]

theorem sv_symm {a b : SV} (h : a.pyEq b = true) : b.pyEq a = true := by
  cases a <;> cases b <;> simp only [SV.pyEq] at h ⊢
  all_goals first | exact av_symm h | exact list_symm h | cases h

theorem sv_trans {a b c : SV} (h1 : a.pyEq b = true) (h2 : b.pyEq c = true) : a.pyEq c = true := by
  cases a <;> cases b <;> cases c <;> simp only [SV.pyEq] at h1 h2 ⊢
  all_goals first | exact av_trans h1 h2 | exact list_trans h1 h2 | cases h1 | cases h2

/-- the hypothesis `hrefl` of the theorems of Props/C03.lean holds for the catalogue semantics -/
theorem semCat_refl (inst : NsCtx) : ∀ t x, (semCat inst).valueEq t x x = true := by
  intro t x
  simp only [semCat]
  cases CatTy.ofIdx t with
  | none => simp
  | some ty => exact sv_refl _

/-- **The fixed-value test of the code is an equivalence relation** on the lexical forms of every catalogue
    type (Python `==` of the skip-decoded values: reflexive, symmetric, transitive — no NaN, no mixed
    comparison inside one type). -/
theorem fixed_test_equiv (inst : NsCtx) (t : Nat) :
    (∀ x, (semCat inst).valueEq t x x = true) ∧
    (∀ x y, (semCat inst).valueEq t x y = true → (semCat inst).valueEq t y x = true) ∧
    (∀ x y z, (semCat inst).valueEq t x y = true → (semCat inst).valueEq t y z = true →
      (semCat inst).valueEq t x z = true) := by
  refine ⟨semCat_refl inst t, ?_, ?_⟩
  · intro x y h
    simp only [semCat] at h ⊢
    cases hty : CatTy.ofIdx t with
    | none => simp only [hty, beq_iff_eq] at h ⊢; exact h.symm
    | some ty => simp only [hty] at h ⊢; exact sv_symm h
  · intro x y z h1 h2
    simp only [semCat] at h1 h2 ⊢
    cases hty : CatTy.ofIdx t with
    | none =>
      simp only [hty, beq_iff_eq] at h1 h2 ⊢
      exact h1.trans h2
    | some ty => simp only [hty] at h1 h2 ⊢; exact sv_trans h1 h2

/-- **C03, validity clause with the concrete type semantics**: no parameter left for the simple types of the
    catalogue — the decoder reports no error exactly when the attribute set is valid, where "valid for the
    declared type" is `validLex` and "equal to the fixed value" is the code's test `SV.pyEq ∘ skipDecode`
    (characterised as value-space equality by `fixed_test_value_partial`). -/
theorem attrs_valid_iff_cat (inst : NsCtx) (env : Attributes.Env) (o : Opts) (G : Group) (A : List Attr)
    (hleg : o.legacy = false) (hwf : WF (semCat inst) G)
    (hnd : (G.decls.map (·.name)).Nodup) (hg : (env.globals.map (·.name)).Nodup)
    (hxsi : ∀ d ∈ G.decls, d.name.ns ≠ xsiNs) :
    errors (semCat inst) env o G A = [] ↔ Ok (semCat inst) env G A :=
  attrs_valid_iff (semCat inst) env o G A hleg (semCat_refl inst) hwf hnd hg hxsi

/-! ## the value space -/

/-- values of the catalogue types -/
inductive CV where
  | int (i : Int)
  | dec (d : Dec)
  | bool (b : Bool)
  | str (s : Str)
  | qname (ns : String) (loc : Str)
  | ints (l : List Int)
  deriving DecidableEq

/-- equality in the value space; decimals are the rationals `coef / 10^scale` (cross-multiplication) -/
def CV.Same : CV → CV → Prop
  | .int a, .int b => a = b
  | .dec a, .dec b => a.toInt * (10 : Int) ^ b.scale = b.toInt * (10 : Int) ^ a.scale
  | .bool a, .bool b => a = b
  | .str a, .str b => a = b
  | .qname n a, .qname m b => n = m ∧ a = b
  | .ints a, .ints b => a = b
  | _, _ => False

/-- all items are integers -/
def allInts : List Str → Option (List Int)
  | [] => some []
  | w :: ws => match parseInt w, allInts ws with
    | some i, some l => some (i :: l)
    | _, _ => none

/-- S: the value denoted by a lexical form (XSD datatypes: white space facet, then the lexical mapping);
    `c` = the namespace bindings in scope where the literal is written -/
def valueOf (c : NsCtx) : CatTy → Str → Option CV
  | .int, s => (parseInt (coll s)).map .int
  | .small, s => (parseInt (coll s)).map .int
  | .decimal, s => (parseDec (coll s)).map .dec
  | .string, s => some (.str s)
  | .anySimple, s => some (.str s)
  | .token, s => some (.str (coll s))
  | .boolean, s => (boolOf (coll s)).map .bool
  | .qname, s => (qnameValue c (coll s)).map fun p => .qname p.1 p.2
  | .intList, s => (allInts (words isXmlWs (coll s))).map .ints

/-- S: the instance value `v` (bindings `ci`) and the fixed value `f` of the schema (bindings `cs`) are the
    same value -/
def SameValue (ci cs : NsCtx) (ty : CatTy) (v f : Str) : Prop :=
  ∃ a b, valueOf ci ty v = some a ∧ valueOf cs ty f = some b ∧ a.Same b

theorem ofIdx_toIdx (ty : CatTy) : CatTy.ofIdx ty.toIdx = some ty := by cases ty <;> rfl

theorem intOk_some {t : Str} (h : intOk t = true) : ∃ i, parseInt t = some i := by
  unfold intOk at h
  cases hp : parseInt t with
  | none => simp [hp] at h
  | some i => exact ⟨i, rfl⟩

theorem ints_eq_iff : ∀ (a b : List Str), (∀ w ∈ a, intOk w = true) → (∀ w ∈ b, intOk w = true) →
    (listPyEq (a.map intSkip) (b.map intSkip) = true ↔
      ∃ x y, allInts a = some x ∧ allInts b = some y ∧ x = y)
  | [], [], _, _ => by simp [listPyEq, allInts]
  | [], w :: ws, _, hb => by
    obtain ⟨i, hi⟩ := intOk_some (hb w (by simp))
    simp only [List.map_nil, List.map_cons, listPyEq, allInts, hi, Bool.false_eq_true, false_iff]
    rintro ⟨x, y, hx, hy, rfl⟩
    cases hws : allInts ws <;> simp [hws] at hy
    cases hx; cases hy
  | w :: ws, [], ha, _ => by
    obtain ⟨i, hi⟩ := intOk_some (ha w (by simp))
    simp only [List.map_nil, List.map_cons, listPyEq, allInts, hi, Bool.false_eq_true, false_iff]
    rintro ⟨x, y, hx, hy, rfl⟩
    cases hws : allInts ws <;> simp [hws] at hx
    cases hx; cases hy
  | w :: ws, u :: us, ha, hb => by
    obtain ⟨i, hi⟩ := intOk_some (ha w (by simp))
    obtain ⟨j, hj⟩ := intOk_some (hb u (by simp))
    have ih := ints_eq_iff ws us (fun x hx => ha x (by simp [hx])) (fun x hx => hb x (by simp [hx]))
    simp only [List.map_cons, listPyEq, intSkip, hi, hj, AV.pyEq, Bool.and_eq_true, beq_iff_eq, allInts]
    rw [ih]
    constructor
    · rintro ⟨rfl, x, y, hx, hy, rfl⟩
      exact ⟨i :: x, i :: x, by simp [hx], by simp [hy], rfl⟩
    · rintro ⟨x, y, hx, hy, rfl⟩
      cases hws : allInts ws with
      | none => simp [hws] at hx
      | some l =>
        cases hus : allInts us with
        | none => simp [hus] at hy
        | some m =>
          simp only [hws, Option.some.injEq] at hx
          simp only [hus, Option.some.injEq] at hy
          subst hx
          simp only [List.cons.injEq] at hy
          exact ⟨hy.1.symm, l, m, rfl, rfl, hy.2.symm⟩

/-
  Full statement (false for the code when `ty = .qname`, finding C03-F3):
     ∀ ci cs ty v f, validLex ci ty v → validLex cs ty f →
        ((semCat ci).valueEq ty.toIdx v f = true ↔ SameValue ci cs ty v.toList f.toList)
-/
/-- **C03, "equal in value space to any fixed value"** — for every catalogue type except xs:QName the test
    the code makes between a (valid) attribute value and the (valid) fixed value holds exactly when both
    denote the same value: the same integer (`03` = `3` = ` +3 `), the same rational (`1.0` = `1.00`), the
    same truth value (`1` = `true`), the same string after the type's white-space normalisation
    (` a  b ` = `a b` for xs:token, not for xs:string), the same list of integers. -/
theorem fixed_test_value_partial (ci cs : NsCtx) (ty : CatTy) (hq : ty ≠ .qname) (v f : String)
    (hv : validLex ci ty v.toList = true) (hf : validLex cs ty f.toList = true) :
    (semCat ci).valueEq ty.toIdx v f = true ↔ SameValue ci cs ty v.toList f.toList := by
  simp only [semCat, ofIdx_toIdx, SameValue]
  generalize v.toList = a at *
  generalize f.toList = b at *
  cases ty with
  | qname => exact absurd rfl hq
  | int =>
    obtain ⟨i, hi⟩ := intOk_some hv
    obtain ⟨j, hj⟩ := intOk_some hf
    simp [skipDecode, valueOf, intSkip, hi, hj, SV.pyEq, AV.pyEq, CV.Same]
  | small =>
    simp only [validLex] at hv hf
    cases hi : parseInt (coll a) with
    | none => simp [hi] at hv
    | some i =>
      cases hj : parseInt (coll b) with
      | none => simp [hj] at hf
      | some j => simp [skipDecode, valueOf, intSkip, hi, hj, SV.pyEq, AV.pyEq, CV.Same]
  | decimal =>
    simp only [validLex] at hv hf
    cases hi : parseDec (coll a) with
    | none => simp [hi] at hv
    | some i =>
      cases hj : parseDec (coll b) with
      | none => simp [hj] at hf
      | some j => simp [skipDecode, valueOf, decSkip, hi, hj, SV.pyEq, AV.pyEq, CV.Same, eqv_iff]
  | string => simp [skipDecode, valueOf, SV.pyEq, AV.pyEq, CV.Same]
  | anySimple => simp [skipDecode, valueOf, SV.pyEq, AV.pyEq, CV.Same]
  | token => simp [skipDecode, valueOf, SV.pyEq, AV.pyEq, CV.Same]
  | boolean =>
    simp only [validLex] at hv hf
    cases hi : boolOf (coll a) with
    | none => simp [hi] at hv
    | some i =>
      cases hj : boolOf (coll b) with
      | none => simp [hj] at hf
      | some j => simp [skipDecode, valueOf, boolSkip, hi, hj, SV.pyEq, AV.pyEq, CV.Same]
  | intList =>
    simp only [validLex, List.all_eq_true] at hv hf
    simp only [skipDecode, SV.pyEq, valueOf]
    rw [ints_eq_iff _ _ hv hf]
    constructor
    · rintro ⟨x, y, hx, hy, rfl⟩
      exact ⟨.ints x, .ints x, by simp [hx], by simp [hy], rfl⟩
    · rintro ⟨x, y, hx, hy, hs⟩
      cases hwa : allInts (words isXmlWs (coll a)) with
      | none => simp [hwa] at hx
      | some l =>
        cases hwb : allInts (words isXmlWs (coll b)) with
        | none => simp [hwb] at hy
        | some m =>
          simp only [hwa, Option.map_some, Option.some.injEq] at hx
          simp only [hwb, Option.map_some, Option.some.injEq] at hy
          subst hx; subst hy
          exact ⟨l, m, rfl, rfl, hs⟩

/-! ### xs:QName: the code compares collapsed texts (finding C03-F3) -/

def ctxP : NsCtx := [("p", "urn:t")]
def ctxT : NsCtx := [("t", "urn:t")]
def ctxTo : NsCtx := [("p", "urn:t"), ("t", "urn:other")]

/-- C03-F3, witness 1: schema `fixed="t:x"` with `xmlns:t="urn:t"`, instance `<p:e xmlns:p="urn:t" q="p:x"/>`:
    both literals are valid and denote the value (urn:t, x), yet the fixed-value test of the code fails. -/
theorem fixed_qname_rejects_counterexample :
    validLex ctxP .qname "p:x".toList = true ∧ validLex ctxT .qname "t:x".toList = true ∧
    SameValue ctxP ctxT .qname "p:x".toList "t:x".toList ∧
    (semCat ctxP).valueEq CatTy.qname.toIdx "p:x" "t:x" = false := by
  refine ⟨by decide, by decide, ⟨.qname "urn:t" ['x'], .qname "urn:t" ['x'], by decide, by decide, rfl, rfl⟩, by decide⟩

/-- C03-F3, witness 2: instance `<p:e xmlns:p="urn:t" xmlns:t="urn:other" q="t:x"/>`: the literal denotes
    (urn:other, x) ≠ (urn:t, x), yet the code's test passes. -/
theorem fixed_qname_admits_counterexample :
    validLex ctxTo .qname "t:x".toList = true ∧ validLex ctxT .qname "t:x".toList = true ∧
    ¬ SameValue ctxTo ctxT .qname "t:x".toList "t:x".toList ∧
    (semCat ctxTo).valueEq CatTy.qname.toIdx "t:x" "t:x" = true := by
  refine ⟨by decide, by decide, ?_, by decide⟩
  rintro ⟨a, b, ha, hb, hs⟩
  have ha' : valueOf ctxTo .qname "t:x".toList = some (.qname "urn:other" ['x']) := by decide
  have hb' : valueOf ctxT .qname "t:x".toList = some (.qname "urn:t" ['x']) := by decide
  rw [ha'] at ha; rw [hb'] at hb
  cases ha; cases hb
  exact absurd hs.1 (by decide)

/-- for xs:QName the code's test is equality of the collapsed texts (what the model ports) -/
theorem fixed_test_qname (ci : NsCtx) (v f : String) :
    (semCat ci).valueEq CatTy.qname.toIdx v f = true ↔ coll v.toList = coll f.toList := by
  simp [semCat, ofIdx_toIdx, skipDecode, SV.pyEq, AV.pyEq]

/-! ### universally quantified facts about single types -/

/-- xs:token (and every collapse type): a value and its collapsed form pass the test — ` a  b ` vs `a b` -/
theorem token_collapse_invariant (s : Str) :
    (skipDecode .token s).pyEq (skipDecode .token (coll s)) = true := by
  have hidem : coll (coll s) = coll s :=
    wsCollapse_fix isXmlWs _ (wsCollapse_sqz isXmlWs rfl s)
      (by unfold coll wsCollapse strip; exact rstrip_last isXmlWs _)
  simp [skipDecode, SV.pyEq, AV.pyEq, hidem]

/-- xs:string does NOT normalise: the test is string equality -/
theorem string_test_exact (ci : NsCtx) (v f : String) :
    (semCat ci).valueEq CatTy.string.toIdx v f = true ↔ v = f := by
  simp [semCat, ofIdx_toIdx, skipDecode, SV.pyEq, AV.pyEq, String.toList_inj]

/-! ## Non-vacuity: the clauses on concrete literals -/

example : (semCat []).valueEq CatTy.decimal.toIdx "1.00" "1.0" = true := by decide
example : (semCat []).valueEq CatTy.decimal.toIdx " +1. " "1.0" = true := by decide
example : (semCat []).valueEq CatTy.decimal.toIdx "1.01" "1.0" = false := by decide
example : (semCat []).valueEq CatTy.token.toIdx " a  b " "a b" = true := by decide
example : (semCat []).valueEq CatTy.string.toIdx " a  b " "a b" = false := by decide
example : (semCat []).valueEq CatTy.int.toIdx "03" " 3" = true := by decide
example : (semCat []).valueEq CatTy.boolean.toIdx "1" "true" = true := by decide
example : (semCat []).valueEq CatTy.boolean.toIdx "0" "true" = false := by decide
example : (semCat []).valueEq CatTy.intList.toIdx " 01  2 " "1 2" = true := by decide
example : (semCat []).valueEq CatTy.intList.toIdx "1 3" "1 2" = false := by decide
example : (semCat []).validT CatTy.small.toIdx "7" = false := by decide
example : (semCat []).validT CatTy.int.toIdx "2147483648" = false := by decide
example : (semCat ctxT).validT CatTy.qname.toIdx "t:x" = true ∧ (semCat ctxT).validT CatTy.qname.toIdx "zz:x" = false := by
  decide
example : SameValue [] [] .decimal "1.00".toList "1.0".toList :=
  (fixed_test_value_partial [] [] .decimal (by decide) "1.00" "1.0" (by decide) (by decide)).mp (by decide)

/-- the whole model on the C03-F3 witness: `<p:e q="p:x"/>` against `fixed="t:x"` is reported -/
example : errors (semCat ctxP) envEmpty {}
    { decls := [{ name := ⟨"", "q"⟩, fixed := some "t:x", ty := CatTy.qname.toIdx }], any := none }
    [(⟨"", "q"⟩, "p:x")] = [.fixedMismatch ⟨"", "q"⟩] := by decide

end XsVerif.Props.C03Types
