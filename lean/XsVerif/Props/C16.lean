/-
  C16 — wildcard namespace constraints behave as sets of allowed names.
  ONLY property theorems and non-vacuity examples live here.
-/
import XsVerif.Model.Wildcard
import XsVerif.Lemmas.Fresh

namespace XsVerif.Props.C16
open XsVerif.Wildcard

/-- S: the set of namespaces denoted by a wildcard's namespace constraint.
    The xsi namespace is admitted by every positive (`namespace=`) constraint: the code does so
    on purpose (wildcards.py:179) and the property statements below quantify over the names
    outside that namespace. -/
def den (w : Wc) (n : String) : Prop :=
  if w.notNs ≠ [] then n ∉ w.notNs
  else match w.ns with
    | .any => True
    | .other => n = xsiNs ∨ (n ≠ "" ∧ n ≠ w.tns)
    | .set l => n = xsiNs ∨ n ∈ l

/-- S, name level (XSD 1.1): the namespace is in the set and the name is not excluded. -/
def denQ (w : Wc) (q : QN) : Prop := den w q.ns ∧ q ∉ w.notQ

theorem nsAllowed_iff_den (w : Wc) (n : String) : nsAllowed w n = true ↔ den w n := by
  unfold nsAllowed den mem
  cases hns : w.ns <;> cases hnn : w.notNs <;>
    simp [NsC.isAny, NsC.isOther, NsC.elems] <;> grind

theorem allowsQ_iff_denQ (w : Wc) (q : QN) : allowsQ w q = true ↔ denQ w q := by
  unfold allowsQ denQ
  simp [nsAllowed_iff_den]

/-- the two operands can be combined branch by branch: same target namespace, or no `##other`
    (which is what `normPair` establishes for wildcards of different target namespaces) -/
def NoOther (w : Wc) : Prop := w.ns.isOther = false ∨ w.notNs.isEmpty = false

def Compat (a b : Wc) : Prop := a.tns = b.tns ∨ (NoOther a ∧ NoOther b)

/-! ### intersection -/

theorem interNs_spec_sameTns (a b : Wc) (htns : a.tns = b.tns) (n : String) (hx : n ≠ xsiNs) :
    nsAllowed (interNs a b) n = (nsAllowed a n && nsAllowed b n) := by
  obtain ⟨ans, ann, aq, ad, asb, atn⟩ := a
  obtain ⟨bns, bnn, bq, bd, bsb, btn⟩ := b
  simp only at htns
  subst htns
  cases ans <;> cases bns <;> cases ann <;> cases bnn <;>
    simp [interNs, nsAllowed, mem, NsC.isAny, NsC.isOther, NsC.elems, NsC.beq, hx] <;>
    grind

theorem interNs_spec_noOther (a b : Wc) (ha : NoOther a) (hb : NoOther b)
    (n : String) (hx : n ≠ xsiNs) :
    nsAllowed (interNs a b) n = (nsAllowed a n && nsAllowed b n) := by
  obtain ⟨ans, ann, aq, ad, asb, atn⟩ := a
  obtain ⟨bns, bnn, bq, bd, bsb, btn⟩ := b
  unfold NoOther at ha hb
  cases ans <;> cases bns <;> cases ann <;> cases bnn <;> simp [NsC.isOther] at ha hb <;>
    simp [interNs, nsAllowed, mem, NsC.isAny, NsC.isOther, NsC.elems, NsC.beq, hx] <;>
    grind

theorem interNs_spec (a b : Wc) (hc : Compat a b) (n : String) (hx : n ≠ xsiNs) :
    nsAllowed (interNs a b) n = (nsAllowed a n && nsAllowed b n) := by
  rcases hc with h | ⟨ha, hb⟩
  · exact interNs_spec_sameTns a b h n hx
  · exact interNs_spec_noOther a b ha hb n hx

theorem interNs_fields (a b : Wc) :
    (interNs a b).notQ = a.notQ ∧ (interNs a b).notDefined = a.notDefined ∧
    (interNs a b).notSibling = a.notSibling ∧ (interNs a b).tns = a.tns := by
  unfold interNs; (repeat' split) <;> simp

theorem interNotQ_fields (a b : Wc) :
    (interNotQ a b).ns = a.ns ∧ (interNotQ a b).notNs = a.notNs ∧ (interNotQ a b).tns = a.tns := by
  simp only [interNotQ]; split <;> simp

theorem nsAllowed_congr {a b : Wc} (h1 : a.ns = b.ns) (h2 : a.notNs = b.notNs) (h3 : a.tns = b.tns)
    (n : String) : nsAllowed a n = nsAllowed b n := by
  unfold nsAllowed; rw [h1, h2, h3]

theorem Compat.of_fields {a a' b : Wc} (hc : Compat a b) (h1 : a'.ns = a.ns) (h2 : a'.notNs = a.notNs)
    (h3 : a'.tns = a.tns) :
    Compat a' b := by
  rcases hc with h | ⟨ha, hb⟩
  · exact .inl (h3.trans h)
  · exact .inr ⟨by unfold NoOther at ha ⊢; rw [h1, h2]; exact ha, hb⟩

/-- The namespace constraint of `intersectionCore a b` admits exactly the namespaces admitted by both
    (both wildcards declared in the same target namespace; names outside the xsi namespace). -/
theorem intersection_ns_spec_core (a b : Wc) (hc : Compat a b) (n : String) (hx : n ≠ xsiNs) :
    nsAllowed (intersectionCore a b) n = (nsAllowed a n && nsAllowed b n) := by
  obtain ⟨h1, h2, h3⟩ := interNotQ_fields a b
  unfold intersectionCore
  rw [interNs_spec _ _ (hc.of_fields h1 h2 h3) n hx, nsAllowed_congr h1 h2 h3]

/-- Name level, with the context-dependent `##defined` / `##definedSibling` exclusions as
    arbitrary predicates: the intersection admits exactly the names admitted by both. -/
theorem intersection_spec_core (a b : Wc) (hc : Compat a b) (D S : QN → Bool) (q : QN)
    (hx : q.ns ≠ xsiNs) :
    allows (intersectionCore a b) D S q = (allows a D S q && allows b D S q) := by
  have hns := intersection_ns_spec_core a b hc q.ns hx
  obtain ⟨f1, f2, f3, -⟩ := interNs_fields (interNotQ a b) b
  have hq : (interNotQ a b).notQ.contains q = (a.notQ.contains q || b.notQ.contains q) := by
    unfold interNotQ
    cases hqa : a.notQ <;> cases a.notDefined <;> cases a.notSibling <;> simp <;> grind
  have hd : (interNotQ a b).notDefined = (a.notDefined || b.notDefined) := by
    unfold interNotQ
    cases hqa : a.notQ <;> cases a.notDefined <;> cases a.notSibling <;> simp
  have hs : (interNotQ a b).notSibling = (a.notSibling || b.notSibling) := by
    unfold interNotQ
    cases hqa : a.notQ <;> cases a.notDefined <;> cases a.notSibling <;> simp
  unfold allows
  rw [hns]
  unfold intersectionCore
  rw [f1, f2, f3, hq, hd, hs]
  cases nsAllowed a q.ns <;> cases nsAllowed b q.ns <;> cases a.notDefined <;>
    cases b.notDefined <;> cases a.notSibling <;> cases b.notSibling <;> cases D q <;>
    cases S q <;> cases a.notQ.contains q <;> cases b.notQ.contains q <;> rfl

/-! ### restriction -/

theorem restrNs_sound_sameTns (a b : Wc) (htns : a.tns = b.tns) (h : restrNs a b = true)
    (n : String) (hx : n ≠ xsiNs) (ha : nsAllowed a n = true) : nsAllowed b n = true := by
  obtain ⟨ans, ann, aq, ad, asb, atn⟩ := a
  obtain ⟨bns, bnn, bq, bd, bsb, btn⟩ := b
  simp only at htns
  subst htns
  revert h ha
  cases ans <;> cases bns <;> cases ann <;> cases bnn <;>
    simp [restrNs, nsAllowed, mem, NsC.isAny, NsC.isOther, NsC.elems, NsC.beq, hx] <;>
    grind

theorem restrNs_sound_noOther (a b : Wc) (hoa : NoOther a) (hob : NoOther b)
    (h : restrNs a b = true) (n : String) (hx : n ≠ xsiNs) (ha : nsAllowed a n = true) :
    nsAllowed b n = true := by
  obtain ⟨ans, ann, aq, ad, asb, atn⟩ := a
  obtain ⟨bns, bnn, bq, bd, bsb, btn⟩ := b
  unfold NoOther at hoa hob
  revert h ha
  cases ans <;> cases bns <;> cases ann <;> cases bnn <;> simp [NsC.isOther] at hoa hob <;>
    simp [restrNs, nsAllowed, mem, NsC.isAny, NsC.isOther, NsC.elems, NsC.beq, hx] <;>
    grind

theorem restrNs_sound (a b : Wc) (hc : Compat a b) (h : restrNs a b = true)
    (n : String) (hx : n ≠ xsiNs) (ha : nsAllowed a n = true) : nsAllowed b n = true := by
  rcases hc with h' | ⟨hoa, hob⟩
  · exact restrNs_sound_sameTns a b h' h n hx ha
  · exact restrNs_sound_noOther a b hoa hob h n hx ha

/-- A wildcard accepted as a restriction of another admits a subset of its names
    (`##defined`/`##definedSibling` as arbitrary predicates of the surrounding schema). -/
theorem restriction_sound_core (a b : Wc) (pa pb : PC) (hc : Compat a b)
    (h : isRestrictionCore a b pa pb = true) (D S : QN → Bool) (q : QN) (hx : q.ns ≠ xsiNs)
    (ha : allows a D S q = true) : allows b D S q = true := by
  simp only [isRestrictionCore, Bool.and_eq_true] at h
  obtain ⟨⟨-, hq⟩, hn⟩ := h
  simp only [allows, Bool.and_eq_true] at ha ⊢
  obtain ⟨⟨⟨ha1, ha2⟩, ha3⟩, ha4⟩ := ha
  have hb1 := restrNs_sound a b hc hn q.ns hx ha1
  refine ⟨⟨⟨hb1, ?_⟩, ?_⟩, ?_⟩
  · revert hq ha2; unfold restrQ
    cases a.notDefined <;> cases b.notDefined <;> cases D q <;> simp
  · revert hq ha3; unfold restrQ
    cases a.notSibling <;> cases b.notSibling <;> cases S q <;> simp <;> grind
  · revert hq; unfold restrQ denyQNames
    cases hbq : b.notQ.contains q
    · simp
    · simp only [Bool.not_true, Bool.not_eq_true', Bool.false_eq_true]
      have hmem : q ∈ b.notQ := by simpa using hbq
      have hne : b.notQ.isEmpty = false := by cases hb : b.notQ <;> simp_all
      simp only [hne]
      simp only [Bool.not_eq_true'] at ha4
      unfold nsAllowed at ha1
      (repeat' split) <;> simp_all <;> grind

/-! ### overlap -/

/-- The constraint does not mention the xsi namespace explicitly. -/
def XsiFree (w : Wc) : Prop := xsiNs ∉ w.ns.elems ∧ xsiNs ∉ w.notNs

instance (w : Wc) : Decidable (XsiFree w) := by unfold XsiFree; infer_instance

/-- Two element wildcards (of any target namespaces) are treated as overlapping
    exactly when some namespace (outside xsi) is admitted by both.  The universe of namespace
    names is infinite, which is what makes two negative constraints always overlap. -/
theorem overlap_spec_core (a b : Wc) (hxa : XsiFree a) (hxb : XsiFree b) :
    isOverlapCore a b = true ↔ ∃ n, n ≠ xsiNs ∧ nsAllowed a n = true ∧ nsAllowed b n = true := by
  obtain ⟨ans, ann, aq, ad, asb, atn⟩ := a
  obtain ⟨bns, bnn, bq, bd, bsb, btn⟩ := b
  have hf := fresh_not_mem (xsiNs :: "" :: atn :: btn :: (ans.elems ++ bns.elems ++ ann ++ bnn))
  generalize fresh (xsiNs :: "" :: atn :: btn :: (ans.elems ++ bns.elems ++ ann ++ bnn)) = z at hf
  simp only [XsiFree] at hxa hxb
  constructor
  · intro h
    cases ans <;> cases bns <;> cases ann <;> cases bnn <;>
      simp [isOverlapCore, nsAllowed, mem, NsC.isAny, NsC.isOther, NsC.elems, NsC.beq] at h hf hxa hxb ⊢
    all_goals first
      | exact ⟨z, by grind⟩
      | (obtain ⟨x, hx⟩ := h; exact ⟨x, by grind⟩)
      | (obtain ⟨y, hy⟩ := List.exists_mem_of_ne_nil _ h; exact ⟨y, by grind⟩)
      | (obtain ⟨-, x, hx⟩ := h; exact ⟨x, by grind⟩)
      | (obtain ⟨⟨h1, h2⟩, h3⟩ := h
         obtain ⟨y, hy⟩ := List.exists_mem_of_ne_nil _ h1
         rcases h3 with h3 | ⟨x, hx⟩
         · exact ⟨y, by grind⟩
         · exact ⟨x, by grind⟩)
  · rintro ⟨n, hn, h1, h2⟩
    revert h1 h2
    cases ans <;> cases bns <;> cases ann <;> cases bnn <;>
      simp [isOverlapCore, nsAllowed, mem, NsC.isAny, NsC.isOther, NsC.elems, NsC.beq, hn] <;>
      grind

/-! ### union -/

theorem nsAllowed_ofNotNs (w : Wc) (nn : List String) (c : Bool) (n : String) :
    nsAllowed (ofNotNs w nn c) n = !mem n nn := by
  unfold ofNotNs
  cases nn <;> cases c <;> simp [nsAllowed, mem, NsC.isAny]

theorem unionN_spec (a b : Wc) (ha : a.notNs.isEmpty = false)
    (n : String) (hx : n ≠ xsiNs) :
    nsAllowed (unionN a b) n = (nsAllowed a n || nsAllowed b n) := by
  unfold unionN
  cases hb : b.ns <;> cases hbn : b.notNs <;>
    simp [nsAllowed_ofNotNs, NsC.isAny, NsC.isOther, NsC.elems] <;>
    simp [nsAllowed, mem, NsC.isAny, NsC.isOther, NsC.elems, ha, hb, hbn, hx] <;> grind

theorem unionPN_spec (a b : Wc) (ha : a.notNs.isEmpty = true)
    (hb : b.notNs.isEmpty = false) (n : String) (hx : n ≠ xsiNs) :
    nsAllowed (unionPN a b) n = (nsAllowed a n || nsAllowed b n) := by
  unfold unionPN
  cases has : a.ns <;>
    simp [nsAllowed_ofNotNs, NsC.isAny, NsC.isOther, NsC.elems] <;>
    simp [nsAllowed, mem, NsC.isAny, NsC.isOther, NsC.elems, ha, hb, has, hx] <;> grind

theorem unionOtherSet_spec (v11 : Bool) (s w1 w2 u : Wc) (h1 : w1.ns = .other)
    (h1n : w1.notNs = []) (h2n : w2.notNs = []) (l : List String) (h2 : w2.ns = .set l)
    (h : unionOtherSet v11 s w1 w2 = some u) (hs : s.tns = w1.tns) (hsn : s.notNs = [])
    (n : String) (hx : n ≠ xsiNs) :
    nsAllowed u n = (nsAllowed w1 n || nsAllowed w2 n) := by
  unfold unionOtherSet at h
  simp only [h2, NsC.elems] at h
  repeat' split at h
  all_goals (first | cases h | skip)
  all_goals
    simp [nsAllowed, mem, NsC.isAny, NsC.isOther, NsC.elems, h1, h1n, h2n, h2, hsn, hs, hx] <;>
    grind [mem]

theorem unionPP_spec (v11 : Bool) (a b u : Wc) (hc : Compat a b)
    (ha : a.notNs = []) (hb : b.notNs = []) (h : unionPP v11 a b = some u)
    (n : String) (hx : n ≠ xsiNs) :
    nsAllowed u n = (nsAllowed a n || nsAllowed b n) := by
  have htns : b.ns.isOther = true → a.tns = b.tns := by
    intro hbo
    rcases hc with h' | ⟨_, hb'⟩
    · exact h'
    · unfold NoOther at hb'
      rw [hbo, hb] at hb'
      simp at hb'
  unfold unionPP at h
  cases has : a.ns <;> cases hbs : b.ns <;>
    simp only [has, hbs, NsC.isAny, NsC.isOther, NsC.isEmpty_set, NsC.isEmpty_any,
      NsC.isEmpty_other, NsC.beq, NsC.elems, Bool.or_true, Bool.or_false, if_true, Bool.false_eq_true, if_false] at h
  all_goals (try (cases h; simp [nsAllowed, NsC.isAny, NsC.isOther, NsC.elems, mem, ha, hb, has, hbs, hx]; done))
  case other.other =>
    have ht := htns (by simp [hbs, NsC.isOther])
    cases h
    simp [nsAllowed, NsC.isAny, NsC.isOther, ha, hb, has, hbs, hx, ht]
  case other.set l =>
    split at h
    · cases h
      simp_all [nsAllowed, NsC.isAny, NsC.isOther, NsC.elems, mem]
    · rw [unionOtherSet_spec v11 a a b u has ha hb _ hbs h rfl ha n hx]
  case set.other l =>
    rw [unionOtherSet_spec v11 a b a u hbs hb ha _ has h (htns (by simp [hbs, NsC.isOther])) ha n hx, Bool.or_comm]
  case set.set la lb =>
    split at h
    · cases h
      simp_all [nsAllowed, NsC.isAny, NsC.isOther, NsC.elems, mem]; grind
    · cases h
      simp [nsAllowed, NsC.isAny, NsC.isOther, NsC.elems, mem, ha, hb, has, hbs, hx]; grind

/-- The namespace constraint computed by `union` (when it is expressible) admits exactly the
    namespaces admitted by either operand. -/
theorem unionNs_spec (v11 : Bool) (a b u : Wc) (hc : Compat a b)
    (h : unionNs v11 a b = some u) (n : String) (hx : n ≠ xsiNs) :
    nsAllowed u n = (nsAllowed a n || nsAllowed b n) := by
  unfold unionNs at h
  split at h
  · cases h; exact unionN_spec a b (by simp_all) n hx
  · split at h
    · cases h; exact unionPN_spec a b (by simp_all) (by simp_all) n hx
    · exact unionPP_spec v11 a b u hc (by simp_all) (by simp_all) h n hx

theorem ofNotNs_fields (w : Wc) (nn : List String) (c : Bool) :
    (ofNotNs w nn c).notQ = w.notQ ∧ (ofNotNs w nn c).notDefined = w.notDefined ∧
    (ofNotNs w nn c).notSibling = w.notSibling := by
  unfold ofNotNs; (repeat' split) <;> simp

theorem unionNs_fields (v11 : Bool) (a b u : Wc) (h : unionNs v11 a b = some u) :
    u.notQ = a.notQ ∧ u.notDefined = a.notDefined ∧ u.notSibling = a.notSibling := by
  unfold unionNs unionN unionPN unionPP unionOtherSet at h
  repeat' split at h
  all_goals (first | cases h | skip)
  all_goals simp [ofNotNs_fields]

theorem union_ns_spec_core (v11 : Bool) (a b u : Wc) (hc : Compat a b)
    (h : unionCore v11 a b = some u) (n : String) (hx : n ≠ xsiNs) :
    nsAllowed u n = (nsAllowed a n || nsAllowed b n) := by
  unfold unionCore at h
  have h' : nsAllowed (unionNotQ a b) n = nsAllowed a n := nsAllowed_congr rfl rfl rfl n
  rw [unionNs_spec v11 (unionNotQ a b) b u (hc.of_fields rfl rfl rfl) h n hx, h']

/-- Union never loses a name: whatever either operand admits, the union admits
    (`##defined` / `##definedSibling` as arbitrary predicates). -/
theorem union_complete_core (v11 : Bool) (a b u : Wc) (hc : Compat a b)
    (h : unionCore v11 a b = some u) (D S : QN → Bool) (q : QN) (hx : q.ns ≠ xsiNs)
    (hab : allows a D S q = true ∨ allows b D S q = true) : allows u D S q = true := by
  have hns := union_ns_spec_core v11 a b u hc h q.ns hx
  obtain ⟨f1, f2, f3⟩ := unionNs_fields v11 _ b u h
  simp only [allows, Bool.and_eq_true, Bool.not_eq_true', Bool.and_eq_false_iff] at hab ⊢
  rw [hns, f1, f2, f3]
  simp only [unionNotQ, Bool.or_eq_true, Bool.and_eq_false_iff, List.contains_eq_mem,
    List.mem_append, List.mem_filter, decide_eq_false_iff_not, not_or, not_and, decide_eq_true_eq,
    Bool.and_eq_true, Bool.not_eq_eq_eq_not, Bool.not_true]
  rcases hab with ⟨⟨⟨h1, h2⟩, h3⟩, h4⟩ | ⟨⟨⟨h1, h2⟩, h3⟩, h4⟩ <;>
    simp only [List.contains_eq_mem, decide_eq_false_iff_not] at h4 <;> grind

/-- On explicit `notQName` names (`allowsQ` ignores the context-dependent `##defined` tokens)
    the union is exact: it admits a name iff one of the operands does. -/
theorem union_exact_core (v11 : Bool) (a b u : Wc) (hc : Compat a b)
    (h : unionCore v11 a b = some u) (q : QN) (hx : q.ns ≠ xsiNs) :
    allowsQ u q = (allowsQ a q || allowsQ b q) := by
  have hns := union_ns_spec_core v11 a b u hc h q.ns hx
  obtain ⟨f1, -, -⟩ := unionNs_fields v11 _ b u h
  unfold allowsQ
  rw [hns, f1]
  simp only [unionNotQ]
  cases h1 : nsAllowed a q.ns <;> cases h2 : nsAllowed b q.ns <;>
    cases h3 : a.notQ.contains q <;> cases h4 : b.notQ.contains q <;>
    simp_all [List.contains_eq_mem] <;> grind

/-- XSD 1.1 can express every union. -/
theorem union_expressible_11_core (a b : Wc) : (unionCore true a b).isSome = true := by
  unfold unionCore unionNs unionPP unionOtherSet
  (repeat' split) <;> simp_all

/-- In XSD 1.0 the only refused union is `##other ∪ S` with `absent ∈ S` and `tns ∉ S`
    ("not expressible": it would be `not(tns)`, which XSD 1.0 cannot state). -/
theorem union_refused_10 (a b : Wc) (h : unionNs false a b = none) :
    a.notNs = [] ∧ b.notNs = [] ∧
    ((b.ns.isOther = true ∧ mem "" a.ns.elems = true ∧ mem b.tns a.ns.elems = false) ∨
     (a.ns.isOther = true ∧ mem "" b.ns.elems = true ∧ mem a.tns b.ns.elems = false)) := by
  unfold unionNs unionPP unionOtherSet at h
  repeat' split at h
  all_goals (first | cases h | skip)
  all_goals simp_all

/-! ### the operations as the code performs them: wildcards of ANY target namespaces

`##other` is relative to the wildcard's own target namespace; the operations first bring two wildcards of
different target namespaces into the absolute form (`normPair`, port of `_absolute_other`).  With that step the
set reading holds without any hypothesis on the target namespaces. -/

theorem absOther_noOther (w : Wc) : NoOther (absOther w) := by
  unfold absOther NoOther
  split
  · left; simp [NsC.isOther]
  · rename_i h
    cases hns : w.ns <;> cases hnn : w.notNs <;> simp_all [NsC.isOther]

theorem nsAllowed_absOther (w : Wc) (n : String) (hx : n ≠ xsiNs) :
    nsAllowed (absOther w) n = nsAllowed w n := by
  unfold absOther
  cases hns : w.ns <;> cases hnn : w.notNs <;>
    simp [NsC.isOther, nsAllowed, mem, NsC.isAny, NsC.elems, hns, hnn, hx] <;> grind

theorem absOther_fields (w : Wc) :
    (absOther w).notQ = w.notQ ∧ (absOther w).notDefined = w.notDefined ∧
    (absOther w).notSibling = w.notSibling ∧ (absOther w).tns = w.tns := by
  unfold absOther; split <;> simp

theorem allows_absOther (w : Wc) (D S : QN → Bool) (q : QN) (hx : q.ns ≠ xsiNs) :
    allows (absOther w) D S q = allows w D S q := by
  obtain ⟨f1, f2, f3, -⟩ := absOther_fields w
  unfold allows
  rw [nsAllowed_absOther w q.ns hx, f1, f2, f3]

theorem allowsQ_absOther (w : Wc) (q : QN) (hx : q.ns ≠ xsiNs) :
    allowsQ (absOther w) q = allowsQ w q := by
  obtain ⟨f1, -, -, -⟩ := absOther_fields w
  unfold allowsQ
  rw [nsAllowed_absOther w q.ns hx, f1]

theorem compat_normPair (a b : Wc) : Compat (normPair a b).1 (normPair a b).2 := by
  unfold normPair
  split
  · rename_i h; exact .inl (by simpa using h)
  · exact .inr ⟨absOther_noOther a, absOther_noOther b⟩

theorem normPair_allows (a b : Wc) (D S : QN → Bool) (q : QN) (hx : q.ns ≠ xsiNs) :
    allows (normPair a b).1 D S q = allows a D S q ∧ allows (normPair a b).2 D S q = allows b D S q := by
  unfold normPair
  split
  · exact ⟨rfl, rfl⟩
  · exact ⟨allows_absOther a D S q hx, allows_absOther b D S q hx⟩

theorem normPair_nsAllowed (a b : Wc) (n : String) (hx : n ≠ xsiNs) :
    nsAllowed (normPair a b).1 n = nsAllowed a n ∧ nsAllowed (normPair a b).2 n = nsAllowed b n := by
  unfold normPair
  split
  · exact ⟨rfl, rfl⟩
  · exact ⟨nsAllowed_absOther a n hx, nsAllowed_absOther b n hx⟩

theorem normPair_allowsQ (a b : Wc) (q : QN) (hx : q.ns ≠ xsiNs) :
    allowsQ (normPair a b).1 q = allowsQ a q ∧ allowsQ (normPair a b).2 q = allowsQ b q := by
  unfold normPair
  split
  · exact ⟨rfl, rfl⟩
  · exact ⟨allowsQ_absOther a q hx, allowsQ_absOther b q hx⟩

/-- **Intersection** (attribute-group composition): the computed wildcard admits exactly the names both
    operands admit — any two wildcards, any target namespaces. -/
theorem intersection_spec (a b : Wc) (D S : QN → Bool) (q : QN) (hx : q.ns ≠ xsiNs) :
    allows (intersection a b) D S q = (allows a D S q && allows b D S q) := by
  obtain ⟨h1, h2⟩ := normPair_allows a b D S q hx
  unfold intersection
  rw [intersection_spec_core _ _ (compat_normPair a b) D S q hx, h1, h2]

theorem intersection_ns_spec (a b : Wc) (n : String) (hx : n ≠ xsiNs) :
    nsAllowed (intersection a b) n = (nsAllowed a n && nsAllowed b n) := by
  obtain ⟨h1, h2⟩ := normPair_nsAllowed a b n hx
  unfold intersection
  rw [intersection_ns_spec_core _ _ (compat_normPair a b) n hx, h1, h2]

/-- **Restriction**: a wildcard accepted as a restriction of another admits a subset of its names. -/
theorem restriction_sound (a b : Wc) (pa pb : PC) (h : isRestriction a b pa pb = true)
    (D S : QN → Bool) (q : QN) (hx : q.ns ≠ xsiNs) (ha : allows a D S q = true) :
    allows b D S q = true := by
  obtain ⟨h1, h2⟩ := normPair_allows a b D S q hx
  unfold isRestriction at h
  rw [← h2]
  exact restriction_sound_core _ _ pa pb (compat_normPair a b) h D S q hx (by rw [h1]; exact ha)

/-- **Union** (extension): the computed namespace constraint admits exactly the namespaces either operand
    admits. -/
theorem union_ns_spec (v11 : Bool) (a b u : Wc) (h : union v11 a b = some u) (n : String)
    (hx : n ≠ xsiNs) : nsAllowed u n = (nsAllowed a n || nsAllowed b n) := by
  obtain ⟨h1, h2⟩ := normPair_nsAllowed a b n hx
  unfold union at h
  rw [union_ns_spec_core v11 _ _ u (compat_normPair a b) h n hx, h1, h2]

/-- Union never loses a name (`##defined` / `##definedSibling` as arbitrary predicates). -/
theorem union_complete (v11 : Bool) (a b u : Wc) (h : union v11 a b = some u) (D S : QN → Bool)
    (q : QN) (hx : q.ns ≠ xsiNs) (hab : allows a D S q = true ∨ allows b D S q = true) :
    allows u D S q = true := by
  obtain ⟨h1, h2⟩ := normPair_allows a b D S q hx
  unfold union at h
  exact union_complete_core v11 _ _ u (compat_normPair a b) h D S q hx (by rw [h1, h2]; exact hab)

/-- On explicit `notQName` names the union is exact. -/
theorem union_exact (v11 : Bool) (a b u : Wc) (h : union v11 a b = some u) (q : QN)
    (hx : q.ns ≠ xsiNs) : allowsQ u q = (allowsQ a q || allowsQ b q) := by
  obtain ⟨h1, h2⟩ := normPair_allowsQ a b q hx
  unfold union at h
  rw [union_exact_core v11 _ _ u (compat_normPair a b) h q hx, h1, h2]

/-- XSD 1.1 can express every union. -/
theorem union_expressible_11 (a b : Wc) : (union true a b).isSome = true := by
  unfold union
  exact union_expressible_11_core _ _

theorem XsiFree_absOther (w : Wc) (h : XsiFree w) (ht : w.tns ≠ xsiNs) : XsiFree (absOther w) := by
  unfold absOther XsiFree at *
  split
  · simp only [NsC.elems, List.not_mem_nil, not_false_eq_true, List.mem_cons, true_and]
    intro h'
    rcases h' with h' | h' | h'
    · exact absurd h' (by decide)
    · exact ht h'.symm
    · cases h'
  · exact h

/-- **Overlap**: two element wildcards are treated as overlapping exactly when some namespace (outside xsi)
    is admitted by both. -/
theorem overlap_spec (a b : Wc) (hxa : XsiFree a) (hxb : XsiFree b) (hta : a.tns ≠ xsiNs)
    (htb : b.tns ≠ xsiNs) :
    isOverlap a b = true ↔ ∃ n, n ≠ xsiNs ∧ nsAllowed a n = true ∧ nsAllowed b n = true := by
  unfold isOverlap
  have hfa : XsiFree (normPair a b).1 := by
    unfold normPair; split
    · exact hxa
    · exact XsiFree_absOther a hxa hta
  have hfb : XsiFree (normPair a b).2 := by
    unfold normPair; split
    · exact hxb
    · exact XsiFree_absOther b hxb htb
  rw [overlap_spec_core _ _ hfa hfb]
  constructor
  · rintro ⟨n, hn, h1, h2⟩
    obtain ⟨e1, e2⟩ := normPair_nsAllowed a b n hn
    exact ⟨n, hn, by rw [← e1]; exact h1, by rw [← e2]; exact h2⟩
  · rintro ⟨n, hn, h1, h2⟩
    obtain ⟨e1, e2⟩ := normPair_nsAllowed a b n hn
    exact ⟨n, hn, by rw [e1]; exact h1, by rw [e2]; exact h2⟩

/-- Before the fix the operations did not normalise: `##other` of target namespace `urn:b` intersected with
    `##other` of target namespace `urn:t` stayed `##other` of the first and still admitted the second's
    namespace (finding C16-F4). -/
theorem cross_namespace_counterexample :
    let a : Wc := { ns := .other, tns := "urn:t" }
    let b : Wc := { ns := .other, tns := "urn:b" }
    nsAllowed (intersectionCore a b) "urn:b" = true ∧ nsAllowed b "urn:b" = false ∧
    nsAllowed (intersection a b) "urn:b" = false := by decide

/-! ### non-vacuity: concrete wildcards meeting the hypotheses, with non-trivial outcomes -/

private def wOther : Wc := { ns := .other, tns := "urn:t" }
private def wSet : Wc := { ns := .set ["urn:t", "urn:a"], tns := "urn:t" }
private def wNot : Wc := { ns := .set [], notNs := ["urn:a"], notQ := [⟨"urn:b", "x"⟩], tns := "urn:t" }

example : wOther.tns = wSet.tns ∧ XsiFree wOther ∧ XsiFree wSet ∧ isOverlap wOther wSet = true := by
  decide
example : (union true wOther wSet).map (fun u => (u.notNs, nsAllowed u "urn:t", nsAllowed u ""))
    = some ([""], true, false) := by decide
example : unionNs false wOther { wSet with ns := .set ["", "urn:a"] } = none := by decide
example : isRestriction wSet { ns := .any, tns := "urn:t" } .strict .lax = true ∧
    isRestriction wOther wSet .strict .strict = false := by decide
example : allowsQ (intersection wNot wSet) ⟨"urn:t", "y"⟩ = true ∧
    allowsQ (intersection wNot wSet) ⟨"urn:a", "y"⟩ = false := by decide

end XsVerif.Props.C16
