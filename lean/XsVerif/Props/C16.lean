/-
  C16 — wildcard namespace constraints behave as sets of allowed names.
  ONLY property theorems and non-vacuity examples live here.
-/
import XsVerif.Model.Wildcard
import XsVerif.Lemmas.Fresh

namespace XsVerif.Props.C16
open XsVerif.Wildcard

/-- S: the set of namespaces denoted by a wildcard's namespace constraint.
    The xsi namespace is admitted by every positive (`namespace=`) constraint: the code does so
    on purpose (wildcards.py:179) and the property statements below quantify over the names
    outside that namespace. -/
def den (w : Wc) (n : String) : Prop :=
  if w.notNs ≠ [] then n ∉ w.notNs
  else match w.ns with
    | .any => True
    | .other => n = xsiNs ∨ (n ≠ "" ∧ n ≠ w.tns)
    | .set l => n = xsiNs ∨ n ∈ l

/-- S, name level (XSD 1.1): the namespace is in the set and the name is not excluded. -/
def denQ (w : Wc) (q : QN) : Prop := den w q.ns ∧ q ∉ w.notQ

theorem nsAllowed_iff_den (w : Wc) (n : String) : nsAllowed w n = true ↔ den w n := by
  unfold nsAllowed den mem
  cases hns : w.ns <;> cases hnn : w.notNs <;>
    simp [NsC.isAny, NsC.isOther, NsC.elems] <;> grind

theorem allowsQ_iff_denQ (w : Wc) (q : QN) : allowsQ w q = true ↔ denQ w q := by
  unfold allowsQ denQ
  simp [nsAllowed_iff_den]

/-! ### intersection -/

theorem interNs_spec (a b : Wc) (htns : a.tns = b.tns) (n : String) (hx : n ≠ xsiNs) :
    nsAllowed (interNs a b) n = (nsAllowed a n && nsAllowed b n) := by
  obtain ⟨ans, ann, aq, ad, asb, atn⟩ := a
  obtain ⟨bns, bnn, bq, bd, bsb, btn⟩ := b
  simp only at htns
  subst htns
  cases ans <;> cases bns <;> cases ann <;> cases bnn <;>
    simp [interNs, nsAllowed, mem, NsC.isAny, NsC.isOther, NsC.elems, NsC.beq, hx] <;>
    grind

theorem interNs_fields (a b : Wc) :
    (interNs a b).notQ = a.notQ ∧ (interNs a b).notDefined = a.notDefined ∧
    (interNs a b).notSibling = a.notSibling ∧ (interNs a b).tns = a.tns := by
  unfold interNs; (repeat' split) <;> simp

theorem interNotQ_fields (a b : Wc) :
    (interNotQ a b).ns = a.ns ∧ (interNotQ a b).notNs = a.notNs ∧ (interNotQ a b).tns = a.tns := by
  simp only [interNotQ]; split <;> simp

theorem nsAllowed_congr {a b : Wc} (h1 : a.ns = b.ns) (h2 : a.notNs = b.notNs) (h3 : a.tns = b.tns)
    (n : String) : nsAllowed a n = nsAllowed b n := by
  unfold nsAllowed; rw [h1, h2, h3]

/-- The namespace constraint of `intersection a b` admits exactly the namespaces admitted by both
    (both wildcards declared in the same target namespace; names outside the xsi namespace). -/
theorem intersection_ns_spec (a b : Wc) (htns : a.tns = b.tns) (n : String) (hx : n ≠ xsiNs) :
    nsAllowed (intersection a b) n = (nsAllowed a n && nsAllowed b n) := by
  obtain ⟨h1, h2, h3⟩ := interNotQ_fields a b
  unfold intersection
  rw [interNs_spec _ _ (h3.trans htns) n hx, nsAllowed_congr h1 h2 h3]

/-- Name level, with the context-dependent `##defined` / `##definedSibling` exclusions as
    arbitrary predicates: the intersection admits exactly the names admitted by both. -/
theorem intersection_spec (a b : Wc) (htns : a.tns = b.tns) (D S : QN → Bool) (q : QN)
    (hx : q.ns ≠ xsiNs) :
    allows (intersection a b) D S q = (allows a D S q && allows b D S q) := by
  have hns := intersection_ns_spec a b htns q.ns hx
  obtain ⟨f1, f2, f3, -⟩ := interNs_fields (interNotQ a b) b
  have hq : (interNotQ a b).notQ.contains q = (a.notQ.contains q || b.notQ.contains q) := by
    unfold interNotQ
    cases hqa : a.notQ <;> cases a.notDefined <;> cases a.notSibling <;> simp <;> grind
  have hd : (interNotQ a b).notDefined = (a.notDefined || b.notDefined) := by
    unfold interNotQ
    cases hqa : a.notQ <;> cases a.notDefined <;> cases a.notSibling <;> simp
  have hs : (interNotQ a b).notSibling = (a.notSibling || b.notSibling) := by
    unfold interNotQ
    cases hqa : a.notQ <;> cases a.notDefined <;> cases a.notSibling <;> simp
  unfold allows
  rw [hns]
  unfold intersection
  rw [f1, f2, f3, hq, hd, hs]
  cases nsAllowed a q.ns <;> cases nsAllowed b q.ns <;> cases a.notDefined <;>
    cases b.notDefined <;> cases a.notSibling <;> cases b.notSibling <;> cases D q <;>
    cases S q <;> cases a.notQ.contains q <;> cases b.notQ.contains q <;> rfl

/-! ### restriction -/

theorem restrNs_sound (a b : Wc) (htns : a.tns = b.tns) (h : restrNs a b = true)
    (n : String) (hx : n ≠ xsiNs) (ha : nsAllowed a n = true) : nsAllowed b n = true := by
  obtain ⟨ans, ann, aq, ad, asb, atn⟩ := a
  obtain ⟨bns, bnn, bq, bd, bsb, btn⟩ := b
  simp only at htns
  subst htns
  revert h ha
  cases ans <;> cases bns <;> cases ann <;> cases bnn <;>
    simp [restrNs, nsAllowed, mem, NsC.isAny, NsC.isOther, NsC.elems, NsC.beq, hx] <;>
    grind

/-- A wildcard accepted as a restriction of another admits a subset of its names
    (`##defined`/`##definedSibling` as arbitrary predicates of the surrounding schema). -/
theorem restriction_sound (a b : Wc) (pa pb : PC) (htns : a.tns = b.tns)
    (h : isRestriction a b pa pb = true) (D S : QN → Bool) (q : QN) (hx : q.ns ≠ xsiNs)
    (ha : allows a D S q = true) : allows b D S q = true := by
  simp only [isRestriction, Bool.and_eq_true] at h
  obtain ⟨⟨-, hq⟩, hn⟩ := h
  simp only [allows, Bool.and_eq_true] at ha ⊢
  obtain ⟨⟨⟨ha1, ha2⟩, ha3⟩, ha4⟩ := ha
  have hb1 := restrNs_sound a b htns hn q.ns hx ha1
  refine ⟨⟨⟨hb1, ?_⟩, ?_⟩, ?_⟩
  · revert hq ha2; unfold restrQ
    cases a.notDefined <;> cases b.notDefined <;> cases D q <;> simp
  · revert hq ha3; unfold restrQ
    cases a.notSibling <;> cases b.notSibling <;> cases S q <;> simp <;> grind
  · revert hq; unfold restrQ denyQNames
    cases hbq : b.notQ.contains q
    · simp
    · simp only [Bool.not_true, Bool.not_eq_true', Bool.false_eq_true]
      have hmem : q ∈ b.notQ := by simpa using hbq
      have hne : b.notQ.isEmpty = false := by cases hb : b.notQ <;> simp_all
      simp only [hne]
      simp only [Bool.not_eq_true'] at ha4
      unfold nsAllowed at ha1
      (repeat' split) <;> simp_all <;> grind

/-! ### overlap -/

/-- The constraint does not mention the xsi namespace explicitly. -/
def XsiFree (w : Wc) : Prop := xsiNs ∉ w.ns.elems ∧ xsiNs ∉ w.notNs

instance (w : Wc) : Decidable (XsiFree w) := by unfold XsiFree; infer_instance

/-- Two element wildcards declared in the same target namespace are treated as overlapping
    exactly when some namespace (outside xsi) is admitted by both.  The universe of namespace
    names is infinite, which is what makes two negative constraints always overlap. -/
theorem overlap_spec (a b : Wc) (htns : a.tns = b.tns) (hxa : XsiFree a) (hxb : XsiFree b) :
    isOverlap a b = true ↔ ∃ n, n ≠ xsiNs ∧ nsAllowed a n = true ∧ nsAllowed b n = true := by
  obtain ⟨ans, ann, aq, ad, asb, atn⟩ := a
  obtain ⟨bns, bnn, bq, bd, bsb, btn⟩ := b
  simp only at htns
  subst htns
  have hf := fresh_not_mem (xsiNs :: "" :: atn :: (ans.elems ++ bns.elems ++ ann ++ bnn))
  generalize fresh (xsiNs :: "" :: atn :: (ans.elems ++ bns.elems ++ ann ++ bnn)) = z at hf
  simp only [XsiFree] at hxa hxb
  constructor
  · intro h
    cases ans <;> cases bns <;> cases ann <;> cases bnn <;>
      simp [isOverlap, nsAllowed, mem, NsC.isAny, NsC.isOther, NsC.elems, NsC.beq] at h hf hxa hxb ⊢
    all_goals first
      | exact ⟨z, by grind⟩
      | (obtain ⟨x, hx⟩ := h; exact ⟨x, by grind⟩)
      | (obtain ⟨y, hy⟩ := List.exists_mem_of_ne_nil _ h; exact ⟨y, by grind⟩)
      | (obtain ⟨-, x, hx⟩ := h; exact ⟨x, by grind⟩)
      | (obtain ⟨⟨h1, h2⟩, h3⟩ := h
         obtain ⟨y, hy⟩ := List.exists_mem_of_ne_nil _ h1
         rcases h3 with h3 | ⟨x, hx⟩
         · exact ⟨y, by grind⟩
         · exact ⟨x, by grind⟩)
  · rintro ⟨n, hn, h1, h2⟩
    revert h1 h2
    cases ans <;> cases bns <;> cases ann <;> cases bnn <;>
      simp [isOverlap, nsAllowed, mem, NsC.isAny, NsC.isOther, NsC.elems, NsC.beq, hn] <;>
      grind

/-! ### union -/

theorem nsAllowed_ofNotNs (w : Wc) (nn : List String) (c : Bool) (n : String) :
    nsAllowed (ofNotNs w nn c) n = !mem n nn := by
  unfold ofNotNs
  cases nn <;> cases c <;> simp [nsAllowed, mem, NsC.isAny]

theorem unionN_spec (a b : Wc) (_htns : a.tns = b.tns) (ha : a.notNs.isEmpty = false)
    (n : String) (hx : n ≠ xsiNs) :
    nsAllowed (unionN a b) n = (nsAllowed a n || nsAllowed b n) := by
  unfold unionN
  cases hb : b.ns <;> cases hbn : b.notNs <;>
    simp [nsAllowed_ofNotNs, NsC.isAny, NsC.isOther, NsC.elems] <;>
    simp [nsAllowed, mem, NsC.isAny, NsC.isOther, NsC.elems, ha, hb, hbn, hx] <;> grind

theorem unionPN_spec (a b : Wc) (_htns : a.tns = b.tns) (ha : a.notNs.isEmpty = true)
    (hb : b.notNs.isEmpty = false) (n : String) (hx : n ≠ xsiNs) :
    nsAllowed (unionPN a b) n = (nsAllowed a n || nsAllowed b n) := by
  unfold unionPN
  cases has : a.ns <;>
    simp [nsAllowed_ofNotNs, NsC.isAny, NsC.isOther, NsC.elems] <;>
    simp [nsAllowed, mem, NsC.isAny, NsC.isOther, NsC.elems, ha, hb, has, hx] <;> grind

theorem unionOtherSet_spec (v11 : Bool) (s w1 w2 u : Wc) (h1 : w1.ns = .other)
    (h1n : w1.notNs = []) (h2n : w2.notNs = []) (l : List String) (h2 : w2.ns = .set l)
    (h : unionOtherSet v11 s w1 w2 = some u) (hs : s.tns = w1.tns) (hsn : s.notNs = [])
    (n : String) (hx : n ≠ xsiNs) :
    nsAllowed u n = (nsAllowed w1 n || nsAllowed w2 n) := by
  unfold unionOtherSet at h
  simp only [h2, NsC.elems] at h
  repeat' split at h
  all_goals (first | cases h | skip)
  all_goals
    simp [nsAllowed, mem, NsC.isAny, NsC.isOther, NsC.elems, h1, h1n, h2n, h2, hsn, hs, hx] <;>
    grind [mem]

theorem unionPP_spec (v11 : Bool) (a b u : Wc) (htns : a.tns = b.tns)
    (ha : a.notNs = []) (hb : b.notNs = []) (h : unionPP v11 a b = some u)
    (n : String) (hx : n ≠ xsiNs) :
    nsAllowed u n = (nsAllowed a n || nsAllowed b n) := by
  unfold unionPP at h
  cases has : a.ns <;> cases hbs : b.ns <;>
    simp only [has, hbs, NsC.isAny, NsC.isOther, NsC.isEmpty_set, NsC.isEmpty_any,
      NsC.isEmpty_other, NsC.beq, NsC.elems, Bool.or_true, Bool.or_false, if_true, Bool.false_eq_true, if_false] at h
  all_goals (try (cases h; simp [nsAllowed, NsC.isAny, NsC.isOther, NsC.elems, mem, ha, hb, has, hbs, hx, htns]; done))
  case other.set l =>
    split at h
    · cases h
      simp_all [nsAllowed, NsC.isAny, NsC.isOther, NsC.elems, mem]
    · rw [unionOtherSet_spec v11 a a b u has ha hb _ hbs h rfl ha n hx]
  case set.other l =>
    rw [unionOtherSet_spec v11 a b a u hbs hb ha _ has h htns ha n hx, Bool.or_comm]
  case set.set la lb =>
    split at h
    · cases h
      simp_all [nsAllowed, NsC.isAny, NsC.isOther, NsC.elems, mem]; grind
    · cases h
      simp [nsAllowed, NsC.isAny, NsC.isOther, NsC.elems, mem, ha, hb, has, hbs, hx]; grind

/-- The namespace constraint computed by `union` (when it is expressible) admits exactly the
    namespaces admitted by either operand. -/
theorem unionNs_spec (v11 : Bool) (a b u : Wc) (htns : a.tns = b.tns)
    (h : unionNs v11 a b = some u) (n : String) (hx : n ≠ xsiNs) :
    nsAllowed u n = (nsAllowed a n || nsAllowed b n) := by
  unfold unionNs at h
  split at h
  · cases h; exact unionN_spec a b htns (by simp_all) n hx
  · split at h
    · cases h; exact unionPN_spec a b htns (by simp_all) (by simp_all) n hx
    · exact unionPP_spec v11 a b u htns (by simp_all) (by simp_all) h n hx

theorem ofNotNs_fields (w : Wc) (nn : List String) (c : Bool) :
    (ofNotNs w nn c).notQ = w.notQ ∧ (ofNotNs w nn c).notDefined = w.notDefined ∧
    (ofNotNs w nn c).notSibling = w.notSibling := by
  unfold ofNotNs; (repeat' split) <;> simp

theorem unionNs_fields (v11 : Bool) (a b u : Wc) (h : unionNs v11 a b = some u) :
    u.notQ = a.notQ ∧ u.notDefined = a.notDefined ∧ u.notSibling = a.notSibling := by
  unfold unionNs unionN unionPN unionPP unionOtherSet at h
  repeat' split at h
  all_goals (first | cases h | skip)
  all_goals simp [ofNotNs_fields]

theorem union_ns_spec (v11 : Bool) (a b u : Wc) (htns : a.tns = b.tns)
    (h : union v11 a b = some u) (n : String) (hx : n ≠ xsiNs) :
    nsAllowed u n = (nsAllowed a n || nsAllowed b n) := by
  unfold union at h
  have h' : nsAllowed (unionNotQ a b) n = nsAllowed a n := nsAllowed_congr rfl rfl rfl n
  rw [unionNs_spec v11 (unionNotQ a b) b u htns h n hx, h']

/-- Union never loses a name: whatever either operand admits, the union admits
    (`##defined` / `##definedSibling` as arbitrary predicates). -/
theorem union_complete (v11 : Bool) (a b u : Wc) (htns : a.tns = b.tns)
    (h : union v11 a b = some u) (D S : QN → Bool) (q : QN) (hx : q.ns ≠ xsiNs)
    (hab : allows a D S q = true ∨ allows b D S q = true) : allows u D S q = true := by
  have hns := union_ns_spec v11 a b u htns h q.ns hx
  obtain ⟨f1, f2, f3⟩ := unionNs_fields v11 _ b u h
  simp only [allows, Bool.and_eq_true, Bool.not_eq_true', Bool.and_eq_false_iff] at hab ⊢
  rw [hns, f1, f2, f3]
  simp only [unionNotQ, Bool.or_eq_true, Bool.and_eq_false_iff, List.contains_eq_mem,
    List.mem_append, List.mem_filter, decide_eq_false_iff_not, not_or, not_and, decide_eq_true_eq,
    Bool.and_eq_true, Bool.not_eq_eq_eq_not, Bool.not_true]
  rcases hab with ⟨⟨⟨h1, h2⟩, h3⟩, h4⟩ | ⟨⟨⟨h1, h2⟩, h3⟩, h4⟩ <;>
    simp only [List.contains_eq_mem, decide_eq_false_iff_not] at h4 <;> grind

/-- On explicit `notQName` names (`allowsQ` ignores the context-dependent `##defined` tokens)
    the union is exact: it admits a name iff one of the operands does. -/
theorem union_exact (v11 : Bool) (a b u : Wc) (htns : a.tns = b.tns)
    (h : union v11 a b = some u) (q : QN) (hx : q.ns ≠ xsiNs) :
    allowsQ u q = (allowsQ a q || allowsQ b q) := by
  have hns := union_ns_spec v11 a b u htns h q.ns hx
  obtain ⟨f1, -, -⟩ := unionNs_fields v11 _ b u h
  unfold allowsQ
  rw [hns, f1]
  simp only [unionNotQ]
  cases h1 : nsAllowed a q.ns <;> cases h2 : nsAllowed b q.ns <;>
    cases h3 : a.notQ.contains q <;> cases h4 : b.notQ.contains q <;>
    simp_all [List.contains_eq_mem] <;> grind

/-- XSD 1.1 can express every union. -/
theorem union_expressible_11 (a b : Wc) : (union true a b).isSome = true := by
  unfold union unionNs unionPP unionOtherSet
  (repeat' split) <;> simp_all

/-- In XSD 1.0 the only refused union is `##other ∪ S` with `absent ∈ S` and `tns ∉ S`
    ("not expressible": it would be `not(tns)`, which XSD 1.0 cannot state). -/
theorem union_refused_10 (a b : Wc) (h : unionNs false a b = none) :
    a.notNs = [] ∧ b.notNs = [] ∧
    ((b.ns.isOther = true ∧ mem "" a.ns.elems = true ∧ mem b.tns a.ns.elems = false) ∨
     (a.ns.isOther = true ∧ mem "" b.ns.elems = true ∧ mem a.tns b.ns.elems = false)) := by
  unfold unionNs unionPP unionOtherSet at h
  repeat' split at h
  all_goals (first | cases h | skip)
  all_goals simp_all

/-! ### non-vacuity: concrete wildcards meeting the hypotheses, with non-trivial outcomes -/

private def wOther : Wc := { ns := .other, tns := "urn:t" }
private def wSet : Wc := { ns := .set ["urn:t", "urn:a"], tns := "urn:t" }
private def wNot : Wc := { ns := .set [], notNs := ["urn:a"], notQ := [⟨"urn:b", "x"⟩], tns := "urn:t" }

example : wOther.tns = wSet.tns ∧ XsiFree wOther ∧ XsiFree wSet ∧ isOverlap wOther wSet = true := by
  decide
example : (union true wOther wSet).map (fun u => (u.notNs, nsAllowed u "urn:t", nsAllowed u ""))
    = some ([""], true, false) := by decide
example : unionNs false wOther { wSet with ns := .set ["", "urn:a"] } = none := by decide
example : isRestriction wSet { ns := .any, tns := "urn:t" } .strict .lax = true ∧
    isRestriction wOther wSet .strict .strict = false := by decide
example : allowsQ (intersection wNot wSet) ⟨"urn:t", "y"⟩ = true ∧
    allowsQ (intersection wNot wSet) ⟨"urn:a", "y"⟩ = false := by decide

end XsVerif.Props.C16
