/-
  C18 — one schema object can be built and used from many threads with unchanged results.
  ONLY property theorems and non-vacuity examples (model: Model/Threads.lean, lemmas: Lemmas/Threads.lean).

  Every theorem quantifies over ALL schedules (`List Nat`, any length) and, because threads are indexed by
  `Nat` and a schedule may name any of them, over any number of threads.
-/
import XsVerif.Lemmas.Threads

namespace XsVerif.Props.C18
open XsVerif.Threads

/-! ### the schema is built exactly once, into the complete state -/

/-- **build_once.**  Whatever the interleaving of any number of threads racing through
    `XsdGlobals.build()`: the build body is entered at most once, `_built` implies complete maps and
    exactly one run, and every thread that has returned from `build()` saw complete maps. -/
theorem build_once (bodyLen postLen : Nat) (sched : List Nat) :
    let c := exec sched (init bodyLen postLen)
    c.runs ≤ 1 ∧
    (c.built = true → c.maps = .complete ∧ c.runs = 1) ∧
    (∀ t ph, c.pc t = .done ph → ph = .complete ∧ c.built = true ∧ c.runs = 1) := by
  intro c
  have h : BInv c := binv_exec sched _ (binv_init bodyLen postLen)
  refine ⟨?_, fun hb => ⟨(h.r2 hb).2, (h.r2 hb).1⟩, ?_⟩
  · cases hb : c.built with
    | true => have := (h.r2 hb).1; omega
    | false =>
      by_cases hw : ∀ t, (c.pc t).isWork = false
      · have := h.r0 hb hw; omega
      · have ⟨t, ht⟩ : ∃ t, (c.pc t).isWork = true := by
          apply Classical.byContradiction
          intro hne
          apply hw
          intro t
          cases hh : (c.pc t).isWork with
          | false => rfl
          | true => exact absurd ⟨t, hh⟩ hne
        have := h.r1 t ht; omega
  · intro t ph hd
    have := h.doneOk t ph hd
    exact ⟨this.1, this.2, (h.r2 this.2).1⟩

/-- While the maps are being (re)built no thread can be using them through `build()`: the maps are
    incomplete only while `_built` is false, and then nobody has returned. -/
theorem no_use_of_partial_maps (bodyLen postLen : Nat) (sched : List Nat) (t : Nat) (ph : Phase) :
    let c := exec sched (init bodyLen postLen)
    c.pc t = .done ph → c.maps = .complete := by
  intro c hd
  have h : BInv c := binv_exec sched _ (binv_init bodyLen postLen)
  exact (h.r2 (h.doneOk t ph hd).2).2

/-- Mutual exclusion: two different threads are never both inside the locked region. -/
theorem build_mutex (bodyLen postLen : Nat) (sched : List Nat) (t u : Nat) :
    let c := exec sched (init bodyLen postLen)
    (c.pc t).inRegion = true → (c.pc u).inRegion = true → t = u := by
  intro c ht hu
  have h : BInv c := binv_exec sched _ (binv_init bodyLen postLen)
  have a := h.holder t ht
  have b := h.holder u hu
  rw [a] at b
  exact Option.some.inj b

/-- No deadlock: in every reachable configuration a thread that has not returned can take a step,
    unless the lock is held — and then the holder can. -/
theorem build_no_deadlock (bodyLen postLen : Nat) (sched : List Nat) (t : Nat) :
    let c := exec sched (init bodyLen postLen)
    (∀ ph, c.pc t ≠ .done ph) →
      (step t c).isSome = true ∨ ∃ u, c.lock = some u ∧ (step u c).isSome = true := by
  intro c hnd
  have h : BInv c := binv_exec sched _ (binv_init bodyLen postLen)
  cases hl : c.lock with
  | none =>
    left
    unfold step
    cases hp : c.pc t with
    | start => simp only; split <;> rfl
    | wantLock => simp [hl]
    | locked => simp only; split <;> rfl
    | body k => cases k <;> rfl
    | setBuilt => rfl
    | post k => cases k <;> rfl
    | done ph => exact absurd hp (hnd ph)
  | some u =>
    right
    refine ⟨u, rfl, ?_⟩
    have hr := h.locked u hl
    unfold step
    cases hp : c.pc u with
    | start => simp [hp, PC.inRegion] at hr
    | wantLock => simp [hp, PC.inRegion] at hr
    | locked => simp only; split <;> rfl
    | body k => cases k <;> rfl
    | setBuilt => rfl
    | post k => cases k <;> rfl
    | done ph => simp [hp, PC.inRegion] at hr

/-! ### memo caches are benign -/

/-- **memo_benign.**  A cache of a deterministic function returns the function's value to every
    thread under every interleaving (lost updates and double computation included). -/
theorem memo_benign {K V : Type} [DecidableEq K] (f : K → V) (key : Nat → K) (memo₀ : K → Option V)
    (h₀ : ∀ k v, memo₀ k = some v → v = f k) (sched : List Nat) (t : Nat) (v : V) :
    (mexec f sched { pc := fun t => .call (key t), memo := memo₀ }).pc t = .ret v → v = f (key t) := by
  intro hr
  have h := minv_exec f key sched _ (⟨h₀, fun _ => rfl⟩ : MInv f key { pc := fun t => .call (key t), memo := memo₀ })
  have := h.pcs t
  rw [hr] at this
  exact this

/-! ### xsi:type widening of identity constraints -/

/-- **xsi_widening_schedule_independent.**  With the current step order (bind, then publish) at
    function-call granularity, and with the proposed patch at statement granularity: every thread, under
    every interleaving, collects the key fields of the selected child — exactly what a single-threaded run
    does. -/
theorem xsi_widening_schedule_independent (m : Mode) (hm : m = .curCall ∨ m = .patched)
    (sched : List Nat) (t : Nat) (b : Bool) :
    (wexec m sched winit).pc t = .fin b → b = true := by
  intro hf
  have hs : m.safe = true := by rcases hm with rfl | rfl <;> rfl
  have h := winv_exec m hs sched _ (winv_init m)
  have := h.pcs t
  rw [hf] at this
  exact this

/-- the sequential run (one thread alone) collects, in every mode -/
theorem xsi_widening_sequential (m : Mode) :
    (wexec m [0, 0, 0, 0, 0, 0, 0] winit).pc 0 = .fin true := by
  cases m <;> decide

/-- C18-F1 (pinned order: publish before bind; fixed by 52f30cd): thread 0 publishes, thread 1 sees the
    type, skips the widening and validates the child without collecting. -/
theorem xsi_widening_old_order_counterexample :
    (wexec .old [0, 0, 1, 1] winit).pc 1 = .fin false := by decide

/-- C18-F2 (current tree, statement granularity): thread 0 stores `elements[e]`, is pre-empted before
    `selected_by.add`; thread 1 finds `e in elements`, skips, publishes and validates the child without
    collecting.  Not reachable when switches happen only at library function calls
    (`xsi_widening_schedule_independent` for `curCall`). -/
theorem xsi_widening_statement_level_counterexample :
    (wexec .cur [0, 0, 0, 1, 1, 1, 1] winit).pc 1 = .fin false := by decide

/-! ### non-vacuity -/

/-- three threads racing: one builds, the others return after it, all see complete maps -/
example : let c := exec [0, 1, 0, 1, 2, 0, 0, 0, 0, 0, 0, 0, 1, 1, 2, 2] (init 2 1)
    c.runs = 1 ∧ c.pc 0 = .done .complete ∧ c.pc 1 = .done .complete ∧ c.pc 2 = .done .complete := by decide

/-- two threads miss the cache at the same time, both compute, both store, both return f k -/
def memoEx : MCfg Nat Nat :=
  mexec (fun k : Nat => k * k) [0, 1, 0, 1, 0, 1] { pc := fun _ => .call 7, memo := fun _ => none }

def retVal : MPC Nat Nat → Option Nat
  | .ret v => some v
  | _ => none

example : retVal (memoEx.pc 0) = some 49 ∧ retVal (memoEx.pc 1) = some 49 ∧ memoEx.memo 7 = some 49 := by
  decide

example : (wexec .patched [0, 0, 0, 1, 1, 1, 1, 1] winit).pc 1 = .fin true := by decide

end XsVerif.Props.C18
