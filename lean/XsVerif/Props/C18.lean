/-
  C18 — one schema object can be built and used from many threads with unchanged results.
  ONLY property theorems and non-vacuity examples.
    Model/Threads.lean       + Lemmas/Threads.lean        double-checked build lock, single-pair widening (history of
                                                          C18-F1/F2: the pre-fix schedules stay as counter-examples)
    Model/ThreadsWiden.lean  + Lemmas/ThreadsWiden.lean   CURRENT update_elements / xsi_types / collect_key_fields code at
                                                          statement granularity, any finite set of pairs, any programs
    Model/ThreadsCache.lean  + Lemmas/ThreadsCache.lean   one machine for every memo cache (+ clear / evict / bypass),
                                                          the benign-race family, the scratch validation context

  Every theorem quantifies over ALL schedules (`List Nat`, any length) and, because threads are indexed by
  `Nat` and a schedule may name any of them, over any number of threads.
-/
import XsVerif.Lemmas.Threads
import XsVerif.Lemmas.ThreadsWiden
import XsVerif.Lemmas.ThreadsCache

namespace XsVerif.Props.C18
open XsVerif.Threads

/-! ### the schema is built exactly once, into the complete state -/

/-- **build_once.**  Whatever the interleaving of any number of threads racing through
    `XsdGlobals.build()`: the build body is entered at most once, `_built` implies complete maps and
    exactly one run, and every thread that has returned from `build()` saw complete maps. -/
theorem build_once (bodyLen postLen : Nat) (sched : List Nat) :
    let c := exec sched (init bodyLen postLen)
    c.runs ≤ 1 ∧
    (c.built = true → c.maps = .complete ∧ c.runs = 1) ∧
    (∀ t ph, c.pc t = .done ph → ph = .complete ∧ c.built = true ∧ c.runs = 1) := by
  intro c
  have h : BInv c := binv_exec sched _ (binv_init bodyLen postLen)
  refine ⟨?_, fun hb => ⟨(h.r2 hb).2, (h.r2 hb).1⟩, ?_⟩
  · cases hb : c.built with
    | true => have := (h.r2 hb).1; omega
    | false =>
      by_cases hw : ∀ t, (c.pc t).isWork = false
      · have := h.r0 hb hw; omega
      · have ⟨t, ht⟩ : ∃ t, (c.pc t).isWork = true := by
          apply Classical.byContradiction
          intro hne
          apply hw
          intro t
          cases hh : (c.pc t).isWork with
          | false => rfl
          | true => exact absurd ⟨t, hh⟩ hne
        have := h.r1 t ht; omega
  · intro t ph hd
    have := h.doneOk t ph hd
    exact ⟨this.1, this.2, (h.r2 this.2).1⟩

/-- While the maps are being (re)built no thread can be using them through `build()`: the maps are
    incomplete only while `_built` is false, and then nobody has returned. -/
theorem no_use_of_partial_maps (bodyLen postLen : Nat) (sched : List Nat) (t : Nat) (ph : Phase) :
    let c := exec sched (init bodyLen postLen)
    c.pc t = .done ph → c.maps = .complete := by
  intro c hd
  have h : BInv c := binv_exec sched _ (binv_init bodyLen postLen)
  exact (h.r2 (h.doneOk t ph hd).2).2

/-- Mutual exclusion: two different threads are never both inside the locked region. -/
theorem build_mutex (bodyLen postLen : Nat) (sched : List Nat) (t u : Nat) :
    let c := exec sched (init bodyLen postLen)
    (c.pc t).inRegion = true → (c.pc u).inRegion = true → t = u := by
  intro c ht hu
  have h : BInv c := binv_exec sched _ (binv_init bodyLen postLen)
  have a := h.holder t ht
  have b := h.holder u hu
  rw [a] at b
  exact Option.some.inj b

/-- No deadlock: in every reachable configuration a thread that has not returned can take a step,
    unless the lock is held — and then the holder can. -/
theorem build_no_deadlock (bodyLen postLen : Nat) (sched : List Nat) (t : Nat) :
    let c := exec sched (init bodyLen postLen)
    (∀ ph, c.pc t ≠ .done ph) →
      (step t c).isSome = true ∨ ∃ u, c.lock = some u ∧ (step u c).isSome = true := by
  intro c hnd
  have h : BInv c := binv_exec sched _ (binv_init bodyLen postLen)
  cases hl : c.lock with
  | none =>
    left
    unfold step
    cases hp : c.pc t with
    | start => simp only; split <;> rfl
    | wantLock => simp [hl]
    | locked => simp only; split <;> rfl
    | body k => cases k <;> rfl
    | setBuilt => rfl
    | post k => cases k <;> rfl
    | done ph => exact absurd hp (hnd ph)
  | some u =>
    right
    refine ⟨u, rfl, ?_⟩
    have hr := h.locked u hl
    unfold step
    cases hp : c.pc u with
    | start => simp [hp, PC.inRegion] at hr
    | wantLock => simp [hp, PC.inRegion] at hr
    | locked => simp only; split <;> rfl
    | body k => cases k <;> rfl
    | setBuilt => rfl
    | post k => cases k <;> rfl
    | done ph => simp [hp, PC.inRegion] at hr

/-! ### memo caches are benign -/

/-- **memo_benign.**  A cache of a deterministic function returns the function's value to every
    thread under every interleaving (lost updates and double computation included). -/
theorem memo_benign {K V : Type} [DecidableEq K] (f : K → V) (key : Nat → K) (memo₀ : K → Option V)
    (h₀ : ∀ k v, memo₀ k = some v → v = f k) (sched : List Nat) (t : Nat) (v : V) :
    (mexec f sched { pc := fun t => .call (key t), memo := memo₀ }).pc t = .ret v → v = f (key t) := by
  intro hr
  have h := minv_exec f key sched _ (⟨h₀, fun _ => rfl⟩ : MInv f key { pc := fun t => .call (key t), memo := memo₀ })
  have := h.pcs t
  rw [hr] at this
  exact this

/-! ### xsi:type widening of identity constraints -/

/-- **xsi_widening_schedule_independent.**  Single (type, child) pair.  `Mode.patched` is the CURRENT tree
    (52f30cd: bind, then publish; ee393a6: `selected_by.add` unconditional) at statement granularity, `curCall`
    the tree before ee393a6 at function-call granularity: every thread, under every interleaving, collects the
    key fields of the selected child — exactly what a single-threaded run does.  The general statement (any
    finite set of pairs, any programs) is `xsi_widening_own_pairs_collected` below. -/
theorem xsi_widening_schedule_independent (m : Mode) (hm : m = .curCall ∨ m = .patched)
    (sched : List Nat) (t : Nat) (b : Bool) :
    (wexec m sched winit).pc t = .fin b → b = true := by
  intro hf
  have hs : m.safe = true := by rcases hm with rfl | rfl <;> rfl
  have h := winv_exec m hs sched _ (winv_init m)
  have := h.pcs t
  rw [hf] at this
  exact this

/-- the sequential run (one thread alone) collects, in every mode -/
theorem xsi_widening_sequential (m : Mode) :
    (wexec m [0, 0, 0, 0, 0, 0, 0] winit).pc 0 = .fin true := by
  cases m <;> decide

/-- C18-F1 (pinned order: publish before bind; fixed by 52f30cd): thread 0 publishes, thread 1 sees the
    type, skips the widening and validates the child without collecting. -/
theorem xsi_widening_old_order_counterexample :
    (wexec .old [0, 0, 1, 1] winit).pc 1 = .fin false := by decide

/-- C18-F2 (tree before ee393a6, statement granularity; `Mode.cur`): thread 0 stores `elements[e]`, is pre-empted before
    `selected_by.add`; thread 1 finds `e in elements`, skips, publishes and validates the child without
    collecting.  Not reachable when switches happen only at library function calls
    (`xsi_widening_schedule_independent` for `curCall`). -/
theorem xsi_widening_statement_level_counterexample :
    (wexec .cur [0, 0, 0, 1, 1, 1, 1] winit).pc 1 = .fin false := by decide

/-! ### xsi:type widening, statement granularity, any finite set of (declaration, type, identity) triples,
        any per-thread programs (port of the current tree: Model/ThreadsWiden.lean) -/

section widening
open XsVerif.Threads.XW

/-- **xsi_widening_own_pairs_collected.**  Current tree (`addInside = false`: ee393a6), every schedule, any
    number of threads, any programs, any schema tables, any initial state in which the published pairs are
    bound (a fresh schema: none is published): when a thread validates a child `e`, the identities it iterates
    over contain the identity of EVERY pair `p` with `e ∈ sel p` whose widening this thread's own walk has
    passed before (`o.seen`) — whether the thread did the widening itself, found it published by another
    thread, or raced with it statement by statement.  `WF`: every call of `update_elements` for a pair visits
    the same set of elements, in any order. -/
theorem xsi_widening_own_pairs_collected (sch : Sch) (v : Variant) (hv : v.addInside = false)
    (s₀ : Sh) (h₀ : Closed sch s₀) (prog : Nat → List Task) (hw : WF sch prog) (sched : List Nat) (t : Nat) (o : Obs) :
    o ∈ ((XW.exec sch v sched (XW.init s₀ prog)).th t).obs →
    ∀ p, p ∈ o.seen → o.e ∈ sch.sel p → sch.idOf p ∈ o.ids := by
  intro ho
  exact ((cinv_exec sch v hv sched _ (cinv_init sch s₀ h₀ prog hw)).ths t).obs o ho

/-- … and it contains every identity bound to `e` by the build (the state before the threads started), and
    nothing that is not bound to `e` in the shared state. -/
theorem xsi_widening_static_pairs_collected (sch : Sch) (v : Variant) (s₀ : Sh) (prog : Nat → List Task)
    (sched : List Nat) (t : Nat) (o : Obs) :
    let c := XW.exec sch v sched (XW.init s₀ prog)
    o ∈ (c.th t).obs →
    (∀ i, Fact.selBy o.e i ∈ s₀ → i ∈ o.ids) ∧ (∀ i, i ∈ o.ids → Fact.selBy o.e i ∈ c.sh) := by
  intro c ho
  exact ((sinv_exec sch v s₀ sched _ (sinv_init s₀ prog)).ths t).obs o ho

/-- **xsi_widening_no_thin_air.**  Every fact of the shared state was there before the threads started or is
    generated by a pair that the program of some thread widens (`Gen`): a race never binds an element to an
    identity that a sequential run of the same documents would not bind.  (Every variant of the code.) -/
theorem xsi_widening_no_thin_air (sch : Sch) (v : Variant) (s₀ : Sh) (prog : Nat → List Task) (hw : WF sch prog)
    (sched : List Nat) (f : Fact) :
    f ∈ (XW.exec sch v sched (XW.init s₀ prog)).sh → f ∈ s₀ ∨ Gen sch (Src prog) f :=
  (uinv_exec sch v (Src prog) s₀ sched _ (uinv_init sch s₀ prog hw)).fed f

/-- **xsi_widening_final_state_schedule_independent.**  When every thread has run its program to the end,
    the shared state is, as a set, exactly `s₀ ∪ {facts generated by the widened pairs}` — the right-hand
    side does not mention the schedule, so every interleaving (the sequential ones included) of every number
    of threads leaves the schema in the same state. -/
theorem xsi_widening_final_state_schedule_independent (sch : Sch) (v : Variant) (hv : v.addInside = false)
    (s₀ : Sh) (h₀ : Closed sch s₀) (prog : Nat → List Task) (hw : WF sch prog) (sched : List Nat) :
    let c := XW.exec sch v sched (XW.init s₀ prog)
    (∀ t, (c.th t).finished = true) → ∀ f, f ∈ c.sh ↔ (f ∈ s₀ ∨ Gen sch (Src prog) f) := by
  intro c hfin f
  have hu := uinv_exec sch v (Src prog) s₀ sched _ (uinv_init sch s₀ prog hw)
  have hs := sinv_exec sch v s₀ sched _ (sinv_init s₀ prog)
  have hc := cinv_exec sch v hv sched _ (cinv_init sch s₀ h₀ prog hw)
  have hk := kok_exec sch v prog sched _ (kok_init s₀ prog)
  constructor
  · exact hu.fed f
  · intro h
    rcases h with h | h
    · exact hs.sub f h
    · have bound : ∀ p, Src prog p → Fact.xsi p ∈ c.sh ∧ Bound sch c.sh p := by
        intro p ⟨t, ord, ht⟩
        have hf := hfin t
        simp only [Th.finished, Bool.and_eq_true, List.isEmpty_iff, beq_iff_eq] at hf
        rcases hk t p ord ht with h1 | h1 | h1
        · rw [hf.1] at h1; simp at h1
        · exact (hc.ths t).seen p h1
        · rw [hf.2] at h1; exact absurd h1 (by simp [PcAt])
      cases f with
      | xsi p => exact (bound p h).1
      | elem i e =>
        obtain ⟨p, hp, hi, he⟩ := h
        subst hi
        exact ((bound p hp).2 e he).2
      | selBy e i =>
        obtain ⟨p, hp, hi, he⟩ := h
        subst hi
        exact ((bound p hp).2 e he).1

/-- **xsi_widening_snapshot_no_error.**  With the iteration over a snapshot of `selected_by`
    (notes/fixes/C18-F3 patch) no thread ever leaves a call with RuntimeError, in any schedule. -/
theorem xsi_widening_snapshot_no_error (sch : Sch) (v : Variant) (hv : v.live = false) (s₀ : Sh)
    (prog : Nat → List Task) (sched : List Nat) (t : Nat) :
    ((XW.exec sch v sched (XW.init s₀ prog)).th t).pc ≠ .err :=
  noerr_exec sch v hv sched _ (fun _ => by simp [XW.init, initTh]) t

/-- FULL statement (false for the current tree): no thread ever leaves a call with RuntimeError.
    **xsi_widening_live_no_error_partial**: it holds for the live iteration under the guard `OneId`: no element
    can be bound to two different identities (by the build or by any widened pair) and no element is bound to
    two identities when the threads start.  The guard is exactly what C18-F3 violates
    (`xsi_widening_live_iteration_counterexample`). -/
theorem xsi_widening_live_no_error_partial (sch : Sch) (v : Variant) (s₀ : Sh) (prog : Nat → List Task)
    (hw : WF sch prog) (hone : OneId sch (Src prog) s₀) (hlen : ∀ e, (selOf s₀ e).length ≤ 1)
    (sched : List Nat) (t : Nat) :
    ((XW.exec sch v sched (XW.init s₀ prog)).th t).pc ≠ .err := by
  have h := linv_exec sch v (Src prog) s₀ hone sched _
    (⟨uinv_init sch s₀ prog hw, hlen, fun _ => trivial⟩ : LInv sch (Src prog) s₀ (XW.init s₀ prog))
  intro he
  have := h.pcs t
  rw [he] at this
  exact this

/-- two element declarations (pairs 0 and 1, identities 0 and 1) whose xsi:type shares the child `7` -/
def f3Sch : Sch := { sel := fun _ => [7], idOf := fun p => p }
def f3Prog : Nat → List Task
  | 0 => [.widen 0 [7], .child 7]
  | 1 => [.widen 1 [7], .child 7]
  | _ => []

/-- **C18-F3** (current tree, `for identity in self.selected_by` over the live set): thread 0 has bound child 7
    to identity 0 and is inside the loop; thread 1 binds the same child to identity 1; the next `next()` of
    thread 0's set iterator raises `RuntimeError: Set changed size during iteration`.  A single-threaded run
    of either program, and the snapshot variant under the same schedule, do not. -/
theorem xsi_widening_live_iteration_counterexample :
    ((XW.exec f3Sch .current [0, 0, 0, 0, 0, 0, 0, 0, 0, 0, 1, 1, 1, 1, 1, 0] (XW.init [] f3Prog)).th 0).pc = .err
    ∧ ((XW.exec f3Sch .snapshot [0, 0, 0, 0, 0, 0, 0, 0, 0, 0, 1, 1, 1, 1, 1, 0, 0] (XW.init [] f3Prog)).th 0).obs
        = [⟨7, [0], [0]⟩] := by
  decide

/-- the schedule of C18-F2 in the general model: with `selected_by.add` inside the `if` (tree before ee393a6)
    thread 1 finds `e in elements`, skips the binding, publishes, and iterates over nothing -/
theorem xsi_widening_before_F2_counterexample :
    let prog : Nat → List Task := fun _ => [.widen 0 [7], .child 7]
    ((XW.exec f3Sch .beforeF2 [0, 0, 0, 0, 1, 1, 1, 1, 1, 1, 1] (XW.init [] prog)).th 1).obs = [⟨7, [], [0]⟩] := by
  decide

end widening

/-! ### the benign-race family: every memo cache of the library (Model/ThreadsCache.lean) -/

section caches
open XsVerif.Threads.Cache

/-- **cache_benign_all_schedules.**  One machine for `functools.cached_property`, `lru_cache` behind
    `SchemaCache`, `schema_cached_property`: whatever the interleaving of any number of threads, each running
    any program of calls, cache bypasses, `clear()`s and evictions, starting from any store whose entries are
    values of the function: every call returns the value of the function. -/
theorem cache_benign_all_schedules {K V : Type} [DecidableEq K] (f : K → V) (m₀ : Store K V)
    (h₀ : ∀ k v, m₀ k = some v → v = f k) (prog : Nat → List (Op K)) (sched : List Nat) (t : Nat) (k : K) (v : V) :
    (k, v) ∈ ((Cache.exec f sched (Cache.init m₀ prog)).th t).rets → v = f k := by
  intro h
  exact ((Cache.cinv_exec f prog sched _ (Cache.cinv_init f m₀ h₀ prog)).ths t).rets (k, v) h

/-- **cache_results_sequential.**  A thread that has run its program has received, call by call and in
    order, exactly what the uncached sequential program computes; and the store still holds only values of
    the function. -/
theorem cache_results_sequential {K V : Type} [DecidableEq K] (f : K → V) (m₀ : Store K V)
    (h₀ : ∀ k v, m₀ k = some v → v = f k) (prog : Nat → List (Op K)) (sched : List Nat) (t : Nat) :
    let c := Cache.exec f sched (Cache.init m₀ prog)
    (c.th t).finished = true →
      (c.th t).rets = (calls (prog t)).map (fun k => (k, f k)) ∧ (∀ k v, c.memo k = some v → v = f k) := by
  intro c hfin
  have h := Cache.cinv_exec f prog sched _ (Cache.cinv_init f m₀ h₀ prog)
  refine ⟨?_, h.memo⟩
  have ht := h.ths t
  have ho := ht.order
  simp only [Th.finished, Bool.and_eq_true, List.isEmpty_iff] at hfin
  have hidle : pend (c.th t).pc = [] := by
    cases hp : (c.th t).pc <;> simp_all [PC.isIdle, pend]
  rw [hfin.1, hidle] at ho
  simp only [calls, List.append_nil] at ho
  rw [← ho]
  exact rets_eq_of_sound f _ ht.rets

/-- **idempotent deterministic writes commute** (and writing twice is writing once) -/
theorem idempotent_writes_commute {K V : Type} [DecidableEq K] (f : K → V) (k k' : K) (s : Store K V) :
    put k (f k) (put k' (f k') s) = put k' (f k') (put k (f k) s) ∧ put k (f k) (put k (f k) s) = put k (f k) s :=
  ⟨put_comm f k k' s, put_idem k (f k) s⟩

/-- the store after any sequence of such writes depends only on the SET of keys written: any reordering,
    duplication or loss of duplicates of the writes of racing threads gives the same store -/
theorem writes_order_irrelevant {K V : Type} [DecidableEq K] (f : K → V) (l₁ l₂ : List K) (s : Store K V)
    (h : ∀ x, x ∈ l₁ ↔ x ∈ l₂) : puts f l₁ s = puts f l₂ s := by
  funext x
  rw [puts_apply, puts_apply]
  by_cases h1 : x ∈ l₁
  · simp [h1, (h x).1 h1]
  · have h2 : x ∉ l₂ := fun hx => h1 ((h x).2 hx)
    simp [h1, h2]

/-- **scratch_skip_safe.**  `text_decode(text)` on the shared scratch context (validation='skip') returns
    the pure value to every thread under every interleaving with any other users of the scratch context
    (skip or lax, with or without pattern facets), from any state of the scratch context. -/
theorem scratch_skip_safe (user : Nat → SUser) (sc : Scratch) (sched : List Nat) (t : Nat) (v : Nat) (ok : Bool) :
    ((sexec user sched (sinit sc)).pc t) = .fin v ok → v = (user t).val := by
  intro h
  have := sexec_ok user sched (sinit sc) (fun _ => trivial) t
  rw [h] at this
  exact this

/-- `text_is_valid(text)` alone on the scratch context gives the verdict of the type, from any scratch state -/
theorem scratch_lax_alone (user : Nat → SUser) (sc : Scratch) (h : (user 0).lax = true) :
    (sexec user [0, 0, 0, 0, 0, 0, 0, 0] (sinit sc)).pc 0 = .fin (user 0).val (user 0).expected := by
  cases hp : (user 0).pat with
  | none => simp [sexec, sstep, sinit, upd, hp, h, SUser.expected]
  | some p =>
    cases hr : (user 0).rej p <;> simp [sexec, sstep, sinit, upd, hp, h, hr, SUser.expected]

/-- FULL statement (false): `text_is_valid` on the shared scratch context returns the verdict of the type
    under every interleaving.  Witness: thread 0's text is rejected by its pattern, the error is collected in
    the shared list; thread 1 starts a use and clears the list; thread 0 reads `not errors` = True. -/
theorem scratch_lax_race_counterexample :
    let user : Nat → SUser := fun _ => { lax := true, pat := some 5, val := 1, rej := fun _ => true }
    (user 0).expected = false ∧
    (sexec user [0, 0, 0, 0, 0, 0, 0, 1, 0] (sinit ⟨none, 0⟩)).pc 0 = .fin 1 true := by
  decide

/-- **percall_context_no_interference.**  Every site that evaluates an XPath test builds the evaluation
    context inside the call (`shared = false`; the table of sites is regenerated from the source on every run):
    whatever the interleaving of any number of threads, with any number of statements between the store of the
    variable and its read, every test is evaluated on the value of its own call, and a thread that has finished has
    evaluated exactly its own values, in order — the single-threaded result. -/
theorem percall_context_no_interference (gap : Nat) (vals : Nat → List Nat) (sched : List Nat) (t : Nat) :
    let c := xexec false gap sched (xinit vals)
    (∃ rest, (c.th t).res ++ rest = vals t) ∧ ((c.th t).finished = true → (c.th t).res = vals t) := by
  intro c
  have h := (xexec_ok gap vals sched (xinit vals) (fun x => ⟨by simp [xinit]⟩) t).order
  refine ⟨⟨_, by rw [← List.append_assoc]; exact h⟩, ?_⟩
  intro hf
  simp only [XTh.finished, Bool.and_eq_true, List.isEmpty_iff, beq_iff_eq] at hf
  rw [hf.1, hf.2] at h
  simpa using h

/-- a single thread on a SHARED context is still right (the variable is overwritten before each evaluation):
    this is why a single-threaded test-suite cannot see the sharing -/
theorem shared_context_alone (v w : Nat) :
    ((xexec true 1 [0, 0, 0, 0, 0, 0, 0, 0, 0, 0] (xinit (fun t => if t = 0 then [v, w] else []))).th 0).res = [v, w] := by
  simp [xexec, xstep, xinit, upd]

/-- FULL statement for a shared context (false): thread 0 stores 7, thread 1 stores 700 and evaluates, thread 0
    evaluates its test on 700 (seeded change C18-5: a class-level XPathContext whose `variables` dict is shared by
    `copy`). -/
theorem shared_context_race_counterexample :
    let c := xexec true 1 [0, 0, 1, 1, 1, 1, 1, 0, 0, 0] (xinit (fun t => if t = 0 then [7] else if t = 1 then [700] else []))
    (c.th 0).res = [700] ∧ (c.th 1).res = [700] ∧ (c.th 0).finished = true := by
  decide

end caches

/-! ### non-vacuity -/

/-- three threads racing: one builds, the others return after it, all see complete maps -/
example : let c := exec [0, 1, 0, 1, 2, 0, 0, 0, 0, 0, 0, 0, 1, 1, 2, 2] (init 2 1)
    c.runs = 1 ∧ c.pc 0 = .done .complete ∧ c.pc 1 = .done .complete ∧ c.pc 2 = .done .complete := by decide

/-- two threads miss the cache at the same time, both compute, both store, both return f k -/
def memoEx : MCfg Nat Nat :=
  mexec (fun k : Nat => k * k) [0, 1, 0, 1, 0, 1] { pc := fun _ => .call 7, memo := fun _ => none }

def retVal : MPC Nat Nat → Option Nat
  | .ret v => some v
  | _ => none

example : retVal (memoEx.pc 0) = some 49 ∧ retVal (memoEx.pc 1) = some 49 ∧ memoEx.memo 7 = some 49 := by
  decide

example : (wexec .patched [0, 0, 0, 1, 1, 1, 1, 1] winit).pc 1 = .fin true := by decide

/-- two declarations share a child; both threads finish under an interleaved schedule (snapshot variant),
    each saw its own identity, the final state is the one `xsi_widening_final_state_schedule_independent` names -/
example :
    let c := XW.exec f3Sch .snapshot [0, 1, 0, 1, 0, 1, 0, 1, 0, 1, 0, 1, 0, 1, 0, 1, 0, 1, 0, 1, 0, 1, 0, 1, 0, 1] (XW.init [] f3Prog)
    (c.th 0).finished = true ∧ (c.th 1).finished = true ∧
    (c.th 0).obs = [⟨7, [0, 1], [0]⟩] ∧ (c.th 1).obs = [⟨7, [0, 1], [1]⟩] ∧
    c.sh = [.elem 0 7, .elem 1 7, .selBy 7 0, .selBy 7 1, .xsi 0, .xsi 1] := by decide

example : XW.Closed f3Sch [] := by intro p h; simp at h

/-- the guard of `xsi_widening_live_no_error_partial` is satisfiable with real widening: one declaration, one pair -/
example : XW.OneId f3Sch (XW.Src (fun t => if t < 3 then [.widen 0 [7], .child 7] else [])) [] := by
  intro e i j hi hj
  have key : ∀ k, XW.Pot f3Sch (XW.Src (fun t => if t < 3 then [XW.Task.widen 0 [7], .child 7] else [])) [] e k → k = 0 := by
    intro k hk
    rcases hk with hk | ⟨p, ⟨t, ord, hp⟩, hk, _⟩
    · simp at hk
    · simp only at hp
      split at hp
      · simp at hp; rw [← hk, hp.1]; rfl
      · simp at hp
  rw [key i hi, key j hj]

example : XW.WF f3Sch f3Prog := by
  intro t p ord h e
  match t with
  | 0 => simp [f3Prog] at h; simp [h.2, f3Sch]
  | 1 => simp [f3Prog] at h; simp [h.2, f3Sch]
  | _ + 2 => simp [f3Prog] at h

/-- two visits of one pair in different orders (the selector's result is a set), both well-formed -/
example :
    let sch : XW.Sch := { sel := fun _ => [1, 2], idOf := fun _ => 0 }
    let prog : Nat → List XW.Task := fun t => if t = 0 then [.widen 0 [1, 2], .child 2] else [.widen 0 [2, 1], .child 1]
    let c := XW.exec sch .current [0, 1, 0, 1, 0, 1, 0, 1, 0, 1, 0, 1, 0, 1, 0, 1, 0, 1, 0, 1, 0, 1, 0, 1, 0, 1, 0, 1, 0, 1] (XW.init [] prog)
    (c.th 0).obs = [⟨2, [0], [0]⟩] ∧ (c.th 1).obs = [⟨1, [0], [0]⟩] := by decide

/-- two threads, one clears while the other is between look-up and store -/
example :
    let prog : Nat → List (Cache.Op Nat) := fun t => if t = 0 then [.call 3, .call 3] else [.call 3, .clear, .call 4]
    let c := Cache.exec (fun k : Nat => k + 10) [0, 0, 1, 1, 0, 1, 1, 1, 0, 0, 0, 0, 1, 1, 1, 1, 0, 0] (Cache.init Cache.empty prog)
    (c.th 0).rets = [(3, 13), (3, 13)] ∧ (c.th 1).rets = [(3, 13), (4, 14)] ∧ (c.th 0).finished = true := by
  decide

/-- the schedule of `shared_context_race_counterexample` with per-call contexts: each thread tests its own value -/
example :
    let c := Cache.xexec false 1 [0, 0, 1, 1, 1, 1, 1, 0, 0, 0] (Cache.xinit (fun t => if t = 0 then [7] else if t = 1 then [700] else []))
    (c.th 0).res = [7] ∧ (c.th 1).res = [700] ∧ (c.th 0).finished = true := by decide

end XsVerif.Props.C18
