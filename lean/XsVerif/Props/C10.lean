/-
  C10 — validation results never depend on what the schema object processed before.
  ONLY property theorems (and the concrete witnesses they need) live here; the model is
  XsVerif/Model/History.lean (port of the code as it is now), helper lemmas in XsVerif/Lemmas/History.lean.

  Reading guide.  A call = the list of steps of the (possibly aborted) walk over one document; its
  observations `(call …).2` are everything the walk reads from state that outlives a call (which
  constraints collect fields at each element end, memoised values, the scratch context).  A history =
  any list of calls, each complete or aborted at any step — and, inside an xsi:type block, after any
  number of its writes (`xsiType d t (some k)`).
-/
import XsVerif.Lemmas.History

namespace XsVerif.Props.C10
open XsVerif.History

/-! ### the residue invariant survives every complete or aborted call, for every algorithm -/

theorem inv_init (sch : Sch) : Inv sch Res.init := XsVerif.History.inv_init sch

example : Inv ⟨[5], [((0, 10, 5), [11])], [], id⟩ Res.init := inv_init _

/-- whatever a call does — on a whole document or aborted anywhere — the invariant of the residue is kept:
    additions to `selected_by` / `identity.elements` are widenings the schema permits, memo entries are in
    the graph of the pure function, and a recorded (type, constraint) pair means the constraint has been
    widened for that type ("widen, then record") -/
theorem inv_call (sch : Sch) (m : Mode) (r : Res) (doc : List Step) (h : Inv sch r) :
    Inv sch (call sch m r doc).1 := XsVerif.History.inv_call sch m r doc h

theorem inv_call_prefix (sch : Sch) (m : Mode) (r : Res) (doc : List Step) (k : Nat) (h : Inv sch r) :
    Inv sch (call sch m r (doc.take k)).1 := XsVerif.History.inv_call sch m r _ h

/-- the invariant holds after every history of (complete or aborted) calls -/
theorem inv_after (sch : Sch) (m : Mode) (hist : List (List Step)) : Inv sch (after sch m hist) :=
  XsVerif.History.inv_after sch m hist

/-- a call aborted INSIDE the xsi:type block (after any number `k` of its writes: between
    `self.elements[e] = …` and `e.selected_by.add`, between `update_elements` and `xsi_types.add`, …)
    keeps the invariant as well — this is what the order "test recorded → widen → record" buys -/
theorem inv_abort_inside_xsi (sch : Sch) (m : Mode) (s : Res × Ctx) (d : Decl) (t : TyId) (k : Nat)
    (h : Inv sch s.1) : Inv sch (step sch m s (.xsiType d t (some k))).1.1 :=
  inv_step sch m s _ h

/-- nothing is ever removed from the residue by a call -/
theorem residue_grows (sch : Sch) (m : Mode) (r : Res) (doc : List Step) :
    (∀ p ∈ r.sel, p ∈ (call sch m r doc).1.sel) ∧ (∀ p ∈ r.elems, p ∈ (call sch m r doc).1.elems) ∧
    (∀ p ∈ r.xsi, p ∈ (call sch m r doc).1.xsi) := by
  simp only [call]
  exact run_mono sch m doc (r, [])

/-- only the xsi:type block, a first memo call and a scratch use write the residue: entering / leaving
    elements, collecting fields and lazy counter rebuilding leave the schema object untouched -/
theorem residue_frame (sch : Sch) (m : Mode) (s : Res × Ctx) (x : Step)
    (h : match x with | .xsiType .. => False | .memoCall _ => False | .scratchUse _ => False | _ => True) :
    (step sch m s x).1.1 = s.1 := by
  cases x <;> first | rfl | exact absurd h id

/-- the counters (`context.identities`) of a call never depend on the residue: they are a function of the
    steps of THIS call alone (a new context per call) -/
theorem counters_call_local (sch : Sch) (m : Mode) (r1 r2 : Res) (ctx : Ctx) (x : Step) :
    (step sch m (r1, ctx) x).1.2 = (step sch m (r2, ctx) x).1.2 := step_ctx sch m r1 r2 ctx x

/-- what the last user left in the scratch context is never seen: a use observes the cleared context -/
theorem scratch_isolated (sch : Sch) (m : Mode) (r : Res) (ctx : Ctx) (junk dirt : List Nat) :
    (step sch m ({ r with scratch := junk }, ctx) (.scratchUse dirt)).2 = some (.scratch []) ∧
    (step sch m ({ r with scratch := junk }, ctx) (.scratchUse dirt)).1.1 = { r with scratch := dirt } := by
  simp [step]

/-! ### the code as it is -/

/-- **history neutrality of the code as it is**, on self-sufficient documents: after ANY history of
    complete or aborted calls the observations of a call are those of a fresh schema object.

    Full statement (without `selfSufficient`): FALSE for the code as it is — `history_dependent_counterexample`
    (finding C10-F2), and `neutral_iff_selfSufficient` shows the guard is exactly the region where it holds. -/
theorem history_neutral_partial (sch : Sch) (hist : List (List Step)) (doc : List Step)
    (hc : complete doc = true) (hss : selfSufficient sch (Res.init, []) doc = true) :
    (call sch .current (after sch .current hist) doc).2 = (call sch .current Res.init doc).2 := by
  simp only [call]
  exact neutral_gen sch doc _ _ [] ⟨inv_after sch .current hist, XsVerif.History.inv_init sch, by simp [Res.init]⟩ hc hss

/-- the same for a call that is itself aborted (strict failure, stop hook, KeyboardInterrupt, abandoned
    generator): what it observed before the abort is what a fresh schema would have shown it -/
theorem history_neutral_prefix (sch : Sch) (hist : List (List Step)) (doc : List Step) (k : Nat)
    (hc : complete doc = true) (hss : selfSufficient sch (Res.init, []) doc = true) :
    (call sch .current (after sch .current hist) (doc.take k)).2 = (call sch .current Res.init (doc.take k)).2 :=
  history_neutral_partial sch hist _ (complete_take doc k hc) (selfSufficient_take sch doc k _ hss)

/-- a document that is not self-sufficient IS influenced by some history: one earlier call that meets the
    right xsi:type inside the constraint's scope changes what the call collects -/
theorem history_dependent_of_not_selfSufficient (sch : Sch) (doc : List Step)
    (hc : complete doc = true) (hss : selfSufficient sch (Res.init, []) doc = false) :
    ∃ hist, (call sch .current (after sch .current hist) doc).2 ≠ (call sch .current Res.init doc).2 := by
  obtain ⟨c, d, ⟨d0, t, hcx, hd⟩, hall⟩ := dependent_gen sch doc Res.init [] hc hss
  refine ⟨[[.enter [c], .xsiType d0 t none]], ?_⟩
  have hrel : Rel sch (after sch .current [[.enter [c], .xsiType d0 t none]]) Res.init :=
    ⟨inv_after sch .current _, XsVerif.History.inv_init sch, by simp [Res.init]⟩
  simp only [call]
  apply hall _ hrel
  simp only [after, List.foldl_cons, List.foldl_nil, call, run, step, Ctx.enter, Ctx.reset, budgeted, stepWrites,
    xsiWrites, hcx, if_true, List.any_nil, List.nil_append, Bool.false_eq_true, if_false]
  rw [applyWrites_append]
  apply sel_mono_writes
  exact sat_loop hcx [(c, true)] Res.init (XsVerif.History.inv_init sch) c (List.mem_cons_self ..) d hd

/-- **exact characterisation**: for the code as it is, a (complete) document gives the fresh result after
    every history IF AND ONLY IF it is self-sufficient -/
theorem neutral_iff_selfSufficient (sch : Sch) (doc : List Step) (hc : complete doc = true) :
    (∀ hist, (call sch .current (after sch .current hist) doc).2 = (call sch .current Res.init doc).2) ↔
    selfSufficient sch (Res.init, []) doc = true := by
  constructor
  · intro h
    cases hss : selfSufficient sch (Res.init, []) doc
    · obtain ⟨hist, hne⟩ := history_dependent_of_not_selfSufficient sch doc hc hss
      exact absurd (h hist) hne
    · rfl
  · intro hss hist
    exact history_neutral_partial sch hist doc hc hss

/-- `selfSufficient` in words: at every element end, every enabled constraint that COULD be bound to the
    element's declaration by some xsi:type is bound already in the run of a fresh schema -/
theorem selfSufficient_collect (sch : Sch) (r : Res) (ctx : Ctx) (d : Decl) (xs : List Step) :
    selfSufficient sch (r, ctx) (.collect d :: xs) = true ↔
    (∀ c, (c, true) ∈ ctx → Widenable sch c d → isSel sch r c d = true) ∧ selfSufficient sch (r, ctx) xs = true := by
  rw [selfSufficient_cons, Bool.and_eq_true]
  simp only [stepOK, List.all_eq_true, step]
  constructor
  · rintro ⟨h1, h2⟩
    refine ⟨fun c hc hw => ?_, h2⟩
    have := h1 (c, true) hc
    simpa [(widenableB_iff sch c d).2 hw] using this
  · rintro ⟨h1, h2⟩
    refine ⟨fun p hp => ?_, h2⟩
    obtain ⟨c, en⟩ := p
    cases en
    · simp
    · cases hw : widenableB sch c d
      · simp
      · simp [h1 c hp ((widenableB_iff sch c d).1 hw)]

/-! ### the proposed repair of C10-F2: collection not gated by `selected_by` -/

/-- with the collection driven by the open scopes alone (notes/fixes/C10-collect-ungated.patch) the
    observations after ANY history equal a fresh schema's for EVERY document, complete or aborted -/
theorem history_neutral_ungated (sch : Sch) (hist : List (List Step)) (doc : List Step) :
    (call sch .ungated (after sch .ungated hist) doc).2 = (call sch .ungated Res.init doc).2 := by
  simp only [call]
  exact ungated_gen sch doc _ _ [] (inv_after sch .ungated hist) (XsVerif.History.inv_init sch)

/-! ### concrete witnesses -/

/-- constraints 0 / 1 (`unique` with selector `.//x` on two elements `secA` / `secB`), declaration
    10 = the shared global element `item`, 11 = the local element `x` of the extension type 5,
    12 = a global element `memb` of type 5 in the substitution group of `head` -/
def wSch : Sch where
  complex := [5]
  wtab := [((0, 10, 5), [11]), ((1, 10, 5), [11])]
  base := []
  pure k := k

/-- `<secA><item xsi:type="Ext"><x/><x/></item></secA>` -/
def docA : List Step :=
  [.enter [0], .xsiType 10 5 none, .collect 11, .collect 11, .collect 10, .leave [(0, none)]]
/-- `<secB><item xsi:type="Ext"><x/><x/></item></secB>` -/
def docB : List Step :=
  [.enter [1], .xsiType 10 5 none, .collect 11, .collect 11, .collect 10, .leave [(1, none)]]
/-- `<secA><memb><x/><x/></memb></secA>`: the `x` elements arrive through a substitution-group member, no xsi:type -/
def docM : List Step :=
  [.enter [0], .collect 11, .collect 11, .collect 12, .leave [(0, none)]]
/-- `<secA><item/></secA><secB><item xsi:type="Ext">…`: the counter of `ua` exists but is disabled -/
def docD : List Step :=
  [.enter [0], .collect 10, .leave [(0, none)], .enter [1], .xsiType 10 5 none, .collect 11, .collect 10,
   .leave [(1, none)]]

example : complete docB = true ∧ selfSufficient wSch (Res.init, []) docB = true := by decide
example : complete docM = true ∧ selfSufficient wSch (Res.init, []) docM = false := by decide

/-- finding C10-F1 (fixed by 962be1e), kept as a theorem about the OLD step: once the type was recorded the
    widening was skipped also for constraints that were not enabled when it was first met, so after document A
    the `x` elements of document B were not collected for `ub`; the code as it is gives the fresh result. -/
theorem history_counterexample :
    (call wSch .old (after wSch .old [docA]) docB).2 ≠ (call wSch .old Res.init docB).2 ∧
    (call wSch .old (after wSch .old [docA]) docB).2.take 1 = [.collected [(1, true)] []] ∧
    (call wSch .old Res.init docB).2.take 1 = [.collected [(1, true)] [1]] ∧
    (call wSch .current (after wSch .current [docA]) docB).2 = (call wSch .current Res.init docB).2 := by
  decide

/-- finding C10-F2: the code as it is, on a document that is NOT self-sufficient.  After document A (which
    binds `x` to `ua` through `xsi:type`), the `x` children of a substitution-group member inside `secA` are
    collected (and a duplicate is reported); a fresh schema does not collect them.  The ungated collection
    gives the same on both. -/
theorem history_dependent_counterexample :
    (call wSch .current (after wSch .current [docA]) docM).2.take 1 = [.collected [(0, true)] [0]] ∧
    (call wSch .current Res.init docM).2.take 1 = [.collected [(0, true)] []] ∧
    (call wSch .ungated (after wSch .ungated [docA]) docM).2 = (call wSch .ungated Res.init docM).2 := by
  decide

/-- the order matters.  A variant of the block that records the (type, constraint) pair for every counter of
    the context — also the DISABLED ones, without widening them (seeded change C10-2) — breaks the invariant:
    the pair (10, 5, 0) is recorded while `x` is not bound to constraint 0 … -/
def recordDisabled (r : Res) (ctx : Ctx) (d : Decl) (t : TyId) : Res :=
  applyWrites r (ctx.map fun p => Write.pair d t p.1)

theorem record_disabled_breaks_inv :
    let r := recordDisabled (call wSch .current Res.init docD).1 [(0, false), (1, true)] 10 5
    ¬ Inv wSch r := by
  intro r h
  have := h.pairs 10 5 0 (by decide) 11 (by decide)
  revert this
  decide

/-- … and from that residue the code as it is no longer gives the fresh result on the (self-sufficient) document A -/
theorem record_disabled_counterexample :
    let r := recordDisabled (call wSch .current Res.init docD).1 [(0, false), (1, true)] 10 5
    selfSufficient wSch (Res.init, []) docA = true ∧
    (call wSch .current r docA).2 ≠ (call wSch .current Res.init docA).2 := by
  decide

/-- a call aborted between `update_elements` and `xsi_types.add((type, identity))` (2 of the 4 writes of the
    block done) leaves a residue from which document B still gets the fresh observations -/
example : (call wSch .current (after wSch .current [[.enter [1], .xsiType 10 5 (some 2)]]) docB).2
    = (call wSch .current Res.init docB).2 := by decide

end XsVerif.Props.C10
