/-
  C10 — validation results never depend on what the schema object processed before.
  ONLY property theorems (and the statements they need) live here.
-/
import XsVerif.Model.History

namespace XsVerif.Props.C10
open XsVerif.History

/-- `d` can be bound to `c` by some xsi:type widening -/
def Widenable (sch : Sch) (c : Con) (d : Decl) : Prop := ∃ d0 t, d ∈ sch.widen c d0 t

/-- the residue invariant: every added binding is a widening the schema allows (so it is an
    addition a fresh schema would also make when it meets the same xsi:type), and every memo entry
    is the value of the pure function -/
def Inv (sch : Sch) (r : Res) : Prop :=
  (∀ p ∈ r.bound, Widenable sch p.1 p.2) ∧ (∀ kv ∈ r.memo, kv.2 = sch.pure kv.1)

theorem inv_init (sch : Sch) : Inv sch Res.init := by
  simp [Inv, Res.init]

theorem mem_foldl_addBound (sch : Sch) (d : Decl) (t : TyId) (en : List Con) (b : List (Con × Decl))
    (p : Con × Decl) :
    p ∈ en.foldl (addBound sch d t) b ↔ p ∈ b ∨ (p.1 ∈ en ∧ p.2 ∈ sch.widen p.1 d t) := by
  induction en generalizing b with
  | nil => simp
  | cons c en ih =>
    rw [List.foldl_cons, ih]
    simp only [addBound, List.mem_append, List.mem_map, List.mem_cons]
    constructor
    · rintro ((⟨d', hd', rfl⟩ | h) | h)
      · exact Or.inr ⟨Or.inl rfl, hd'⟩
      · exact Or.inl h
      · exact Or.inr ⟨Or.inr h.1, h.2⟩
    · rintro (h | ⟨rfl | h1, h2⟩)
      · exact Or.inl (Or.inr h)
      · exact Or.inl (Or.inl ⟨p.2, h2, rfl⟩)
      · exact Or.inr ⟨h1, h2⟩

theorem lookup_mem {k v : Nat} {l : List (Nat × Nat)} (h : l.lookup k = some v) : (k, v) ∈ l := by
  induction l with
  | nil => simp at h
  | cons a l ih =>
    obtain ⟨a1, a2⟩ := a
    simp only [List.lookup_cons] at h
    split at h
    · rename_i heq
      have : k = a1 := by simpa using heq
      cases h; subst this; exact List.mem_cons_self ..
    · exact List.mem_cons_of_mem _ (ih h)

theorem inv_step (sch : Sch) (gated : Bool) (r : Res) (s : Step) (h : Inv sch r) :
    Inv sch (step sch gated r s).1 := by
  obtain ⟨hb, hm⟩ := h
  cases s with
  | xsiType d t en =>
    simp only [step]
    split
    · exact ⟨hb, hm⟩
    · refine ⟨fun p hp => ?_, hm⟩
      simp only at hp
      split at hp
      · rw [mem_foldl_addBound] at hp
        rcases hp with hp | ⟨_, hp⟩
        · exact hb p hp
        · exact ⟨d, t, hp⟩
      · exact hb p hp
  | collect d c => exact ⟨hb, hm⟩
  | memoCall k =>
    simp only [step]
    split
    · exact ⟨hb, hm⟩
    · refine ⟨hb, fun kv hkv => ?_⟩
      simp only [List.mem_cons] at hkv
      rcases hkv with rfl | hkv
      · rfl
      · exact hm kv hkv
  | scratchUse dirt => exact ⟨hb, hm⟩

/-- **no residue breaks the invariant**: whatever a call does — on a whole document or on any prefix of
    it (a strict failure, a stop-validation hook and a lazy run all process a prefix of the steps) — the
    invariant of the residue is kept. -/
theorem inv_call (sch : Sch) (gated : Bool) (r : Res) (doc : List Step) (h : Inv sch r) :
    Inv sch (call sch gated r doc).1 := by
  induction doc generalizing r with
  | nil => exact h
  | cons s ss ih =>
    simp only [call]
    exact ih _ (inv_step sch gated r s h)

theorem inv_call_prefix (sch : Sch) (gated : Bool) (r : Res) (doc : List Step) (k : Nat)
    (h : Inv sch r) : Inv sch (call sch gated r (doc.take k)).1 :=
  inv_call sch gated r _ h

theorem inv_foldl (sch : Sch) (gated : Bool) (hist : List (List Step)) (r : Res) (h : Inv sch r) :
    Inv sch (hist.foldl (fun r doc => (call sch gated r doc).1) r) := by
  induction hist generalizing r with
  | nil => exact h
  | cons d ds ih => exact ih _ (inv_call sch gated r d h)

/-- the invariant holds after every history of (complete or aborted) calls -/
theorem inv_after (sch : Sch) (gated : Bool) (hist : List (List Step)) :
    Inv sch (after sch gated hist) :=
  inv_foldl sch gated hist _ (inv_init sch)

/-- hypothesis on a document, about a *fresh* run only: whenever an element whose declaration is
    reachable through an xsi:type widening of `c` is finished inside a scope of `c`, the fresh run has
    already bound it (the xsi:type that makes it reachable was met earlier in the same document while
    `c` was enabled, or it is statically bound) -/
def SelfSufficient (sch : Sch) : Res → List Step → Prop
  | _, [] => True
  | r, s :: ss =>
    (match s with
      | .collect d c => Widenable sch c d → isBound sch r c d = true
      | _ => True) ∧ SelfSufficient sch (step sch false r s).1 ss

theorem neutral_gen (sch : Sch) (doc : List Step) (r1 r2 : Res) (h1 : Inv sch r1) (h2 : Inv sch r2)
    (hsub : ∀ p ∈ r2.bound, p ∈ r1.bound) (hss : SelfSufficient sch r2 doc) :
    (call sch false r1 doc).2 = (call sch false r2 doc).2 := by
  induction doc generalizing r1 r2 with
  | nil => rfl
  | cons s ss ih =>
    obtain ⟨hs, hss'⟩ := hss
    have i1 := inv_step sch false r1 s h1
    have i2 := inv_step sch false r2 s h2
    simp only [call]
    cases s with
    | xsiType d t en =>
      have hsub' : ∀ p ∈ (step sch false r2 (.xsiType d t en)).1.bound,
          p ∈ (step sch false r1 (.xsiType d t en)).1.bound := by
        intro p hp
        simp only [step, Bool.false_and, Bool.false_eq_true, if_false] at hp ⊢
        split at hp
        · rename_i hc
          simp only [hc, if_true]
          rw [mem_foldl_addBound] at hp ⊢
          rcases hp with hp | hp
          · exact Or.inl (hsub p hp)
          · exact Or.inr hp
        · rename_i hc
          simp only [hc]
          exact hsub p hp
      have := ih _ _ i1 i2 hsub' hss'
      simp only [step, Bool.false_and, Bool.false_eq_true, if_false] at this ⊢
      simpa using this
    | collect d c =>
      have hb : isBound sch r1 c d = isBound sch r2 c d := by
        cases hb2 : isBound sch r2 c d
        · cases hb1 : isBound sch r1 c d
          · rfl
          · exfalso
            simp only [isBound, Bool.or_eq_true, Bool.or_eq_false_iff] at hb1 hb2
            rcases hb1 with hb1 | hb1
            · rw [hb1] at hb2; exact absurd hb2.1 (by simp)
            · have hw : Widenable sch c d := h1.1 (c, d) (by simpa using hb1)
              have := hs hw
              simp only [isBound, Bool.or_eq_true] at this
              rcases this with h | h
              · rw [hb2.1] at h; exact absurd h (by simp)
              · rw [hb2.2] at h; exact absurd h (by simp)
        · simp only [isBound, Bool.or_eq_true] at hb2 ⊢
          rcases hb2 with hb2 | hb2
          · exact Or.inl hb2
          · exact Or.inr (by simpa using hsub (c, d) (by simpa using hb2))
      have := ih r1 r2 h1 h2 hsub hss'
      simp only [step] at this ⊢
      rw [hb, this]
    | memoCall k =>
      have e1 : (step sch false r1 (.memoCall k)).2 = some (.memo (sch.pure k)) := by
        simp only [step]
        split
        · rename_i v hv
          have := h1.2 (k, v) (lookup_mem hv)
          simp only at this
          rw [this]
        · rfl
      have e2 : (step sch false r2 (.memoCall k)).2 = some (.memo (sch.pure k)) := by
        simp only [step]
        split
        · rename_i v hv
          have := h2.2 (k, v) (lookup_mem hv)
          simp only at this
          rw [this]
        · rfl
      have hsub' : ∀ p ∈ (step sch false r2 (.memoCall k)).1.bound,
          p ∈ (step sch false r1 (.memoCall k)).1.bound := by
        intro p hp
        have b1 : (step sch false r1 (.memoCall k)).1.bound = r1.bound := by
          simp only [step]; split <;> rfl
        have b2 : (step sch false r2 (.memoCall k)).1.bound = r2.bound := by
          simp only [step]; split <;> rfl
        rw [b1]; rw [b2] at hp; exact hsub p hp
      rw [e1, e2, ih _ _ i1 i2 hsub' hss']
    | scratchUse dirt =>
      have := ih _ _ i1 i2 (by simpa [step] using hsub) hss'
      simp only [step] at this ⊢
      rw [this]

/-- **history neutrality of the repaired algorithm** (widening no longer gated by `xsi_types`):
    after ANY history of complete or aborted calls, the observations of a call on a self-sufficient
    document are those of a fresh schema object. -/
theorem history_neutral (sch : Sch) (hist : List (List Step)) (doc : List Step)
    (hss : SelfSufficient sch Res.init doc) :
    (call sch false (after sch false hist) doc).2 = (call sch false Res.init doc).2 :=
  neutral_gen sch doc _ _ (inv_after sch false hist) (inv_init sch)
    (by simp [Res.init]) hss

/-! ### the code as it is (widening gated by `xsi_types`) -/

/-- constraints 0 / 1 (`unique` with selector `.//x` on two different elements `secA` / `secB`),
    declaration 10 = the shared global element `item`, 11 = the local element `x` of the extension
    type 5 -/
def wSch : Sch where
  complex t := t == 5
  widen _ d t := if d == 10 && t == 5 then [11] else []
  base _ := []
  pure k := k

def docA : List Step := [.xsiType 10 5 [0], .collect 11 0, .collect 11 0]
def docB : List Step := [.xsiType 10 5 [1], .collect 11 1, .collect 11 1]

theorem docB_selfSufficient : SelfSufficient wSch Res.init docB := by
  refine ⟨trivial, fun _ => by decide, fun _ => by decide, trivial⟩

/- Full statement: `history_neutral` with `gated = true` (the code as it is).  It is FALSE: once the
   pair (item, Ext) is in `xsi_types` the widening is skipped also for constraints that were not enabled
   when it was first met, so after document A the `x` elements of document B are not collected for `ub`
   (finding C10-F1; witness replayed on the real code by the harness).  The repaired algorithm gives the
   fresh result on the same history. -/
theorem history_counterexample :
    (call wSch true (after wSch true [docA]) docB).2 = [.collected false, .collected false] ∧
    (call wSch true Res.init docB).2 = [.collected true, .collected true] ∧
    (call wSch false (after wSch false [docA]) docB).2 = (call wSch false Res.init docB).2 := by
  decide

/-- the region in which the code as it is stays neutral: every recorded xsi:type use has been widened
    for every constraint (true of a fresh schema; NOT preserved by the gated algorithm) -/
def Saturated (sch : Sch) (r : Res) : Prop :=
  ∀ dt ∈ r.xsi, sch.complex dt.2 = true → ∀ c d', d' ∈ sch.widen c dt.1 dt.2 → (c, d') ∈ r.bound

theorem saturated_not_preserved :
    Saturated wSch Res.init ∧ ¬ Saturated wSch (after wSch true [docA]) := by
  constructor
  · intro dt h; simp [Res.init] at h
  · intro h
    have := h (10, 5) (by decide) (by decide) 1 11 (by decide)
    revert this
    decide

end XsVerif.Props.C10
