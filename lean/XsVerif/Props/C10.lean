/-
  C10 — validation results never depend on what the schema object processed before.
  ONLY property theorems (and the concrete witnesses they need) live here; the model is
  XsVerif/Model/History.lean (port of the code as it is now), helper lemmas in XsVerif/Lemmas/History.lean.

  Reading guide.  A call = the list of steps of the (possibly aborted) walk over one document; its
  observations `(call …).2` are everything the walk reads from state that outlives a call (which
  constraints collect fields at each element end, memoised values, the scratch context).  A history =
  any list of calls, each complete or aborted at any step — and, inside an xsi:type block, after any
  number of its writes (`xsiType d t (some k)`).
-/
import XsVerif.Lemmas.History

namespace XsVerif.Props.C10
open XsVerif.History

/-! ### the residue invariant survives every complete or aborted call, for every algorithm -/

theorem inv_init (sch : Sch) : Inv sch Res.init := XsVerif.History.inv_init sch

example : Inv { complex := [5], wtab := [((0, 10, 5), [11])], base := [], pure := id, nsBase := [0], loadable := [7] } Res.init := inv_init _

/-- whatever a call does — on a whole document or aborted anywhere — the invariant of the residue is kept:
    additions to `selected_by` / `identity.elements` are widenings the schema permits, memo entries are in
    the graph of the pure function, and a recorded (type, constraint) pair means the constraint has been
    widened for that type ("widen, then record") -/
theorem inv_call (sch : Sch) (m : Mode) (r : Res) (doc : List Step) (h : Inv sch r) :
    Inv sch (call sch m r doc).1 := XsVerif.History.inv_call sch m r doc h

theorem inv_call_prefix (sch : Sch) (m : Mode) (r : Res) (doc : List Step) (k : Nat) (h : Inv sch r) :
    Inv sch (call sch m r (doc.take k)).1 := XsVerif.History.inv_call sch m r _ h

/-- the invariant holds after every history of (complete or aborted) calls -/
theorem inv_after (sch : Sch) (m : Mode) (hist : List (List Step)) : Inv sch (after sch m hist) :=
  XsVerif.History.inv_after sch m hist

/-- a call aborted INSIDE the xsi:type block (after any number `k` of its writes: between
    `self.elements[e] = …` and `e.selected_by.add`, between `update_elements` and `xsi_types.add`, …)
    keeps the invariant as well — this is what the order "test recorded → widen → record" buys -/
theorem inv_abort_inside_xsi (sch : Sch) (m : Mode) (s : Res × Ctx) (d : Decl) (t : TyId) (k : Nat)
    (h : Inv sch s.1) : Inv sch (step sch m s (.xsiType d t (some k))).1.1 :=
  inv_step sch m s _ h

/-- nothing is ever removed from the residue by a call that loads no namespace (a load re-creates the
    components: `rebuild_resets`) -/
theorem residue_grows (sch : Sch) (m : Mode) (r : Res) (doc : List Step)
    (hw : (doc.all fun x => !isWild x) = true) :
    (∀ p ∈ r.sel, p ∈ (call sch m r doc).1.sel) ∧ (∀ p ∈ r.elems, p ∈ (call sch m r doc).1.elems) ∧
    (∀ p ∈ r.xsi, p ∈ (call sch m r doc).1.xsi) := by
  simp only [call]
  exact run_mono sch m doc ({ r with stale := false }, []) hw

/-- only the xsi:type block, a first memo call, a scratch use and a wildcard that loads a namespace write the residue: entering / leaving
    elements, collecting fields and lazy counter rebuilding leave the schema object untouched -/
theorem residue_frame (sch : Sch) (m : Mode) (s : Res × Ctx) (x : Step)
    (h : match x with
      | .xsiType _ _ _ => False | .memoCall _ => False | .scratchUse _ => False | .wild _ _ _ => False
      | .nsRead _ => False | _ => True) :
    (step sch m s x).1.1 = s.1 := by
  cases x <;> first | rfl | exact absurd h id

/-- the counters (`context.identities`) of a call never depend on the residue: they are a function of the
    steps of THIS call alone (a new context per call) -/
theorem counters_call_local (sch : Sch) (m : Mode) (r1 r2 : Res) (ctx : Ctx) (x : Step) :
    (step sch m (r1, ctx) x).1.2 = (step sch m (r2, ctx) x).1.2 := step_ctx sch m r1 r2 ctx x

/-- what the last user left in the scratch context is never seen: a use observes the cleared context -/
theorem scratch_isolated (sch : Sch) (m : Mode) (r : Res) (ctx : Ctx) (junk dirt : List Nat) :
    (step sch m ({ r with scratch := junk }, ctx) (.scratchUse dirt)).2 = some (.scratch []) ∧
    (step sch m ({ r with scratch := junk }, ctx) (.scratchUse dirt)).1.1 = { r with scratch := dirt } := by
  simp [step]

/-! ### the code as it is (collection for every open scope, namespaces loaded on demand) -/

/-- **history neutrality of the code as it is**, on namespace-quiet documents: after ANY history of complete
    or aborted calls (which may have loaded namespaces and rebuilt the components any number of times) the
    observations of a call — complete or aborted, whatever xsi:type uses it contains — are those of a fresh
    schema object.

    Full statement (without `nsQuiet`): FALSE for the code as it is — `namespace_load_counterexample`
    (finding C10-F3); `neutral_iff_nsQuiet` shows the guard is exactly the region where it holds. -/
theorem history_neutral_partial (sch : Sch) (hist : List (List Step)) (doc : List Step)
    (hq : nsQuiet sch doc = true) :
    (call sch .ungated (after sch .ungated hist) doc).2 = (call sch .ungated Res.init doc).2 := by
  simp only [call]
  exact ungated_gen sch doc _ _ [] (inv_unstale (inv_after sch .ungated hist))
    (inv_unstale (XsVerif.History.inv_init sch)) hq

/-- the same for a call that is itself aborted after `k` steps -/
theorem history_neutral_prefix (sch : Sch) (hist : List (List Step)) (doc : List Step) (k : Nat)
    (hq : nsQuiet sch doc = true) :
    (call sch .ungated (after sch .ungated hist) (doc.take k)).2 = (call sch .ungated Res.init (doc.take k)).2 :=
  history_neutral_partial sch hist _ (quiet_take sch doc k hq)

/-- a document that is not quiet — a lax or strict wildcard, element or attribute, or the root lookup meets a
    namespace that is not in the maps after the build but has a location — IS influenced by some history:
    one earlier call in which a wildcard met that namespace -/
theorem history_dependent_of_not_nsQuiet (sch : Sch) (doc : List Step) (hq : nsQuiet sch doc = false) :
    ∃ hist, (call sch .ungated (after sch .ungated hist) doc).2 ≠ (call sch .ungated Res.init doc).2 := by
  obtain ⟨n, hn, hnb, hall⟩ := ns_dependent_gen sch doc { Res.init with stale := false } []
    (inv_unstale (XsVerif.History.inv_init sch)) rfl hq
  refine ⟨[[.wild false .strict n]], ?_⟩
  simp only [call]
  apply hall _ (inv_unstale (inv_after sch .ungated _))
  simp [after, call, run, step, wildStep, isLoaded, hnb, hn, rebuild, Res.init]

/-- **exact characterisation** for the code as it is: a document gives the fresh observations after every
    history IF AND ONLY IF it is namespace-quiet -/
theorem neutral_iff_nsQuiet (sch : Sch) (doc : List Step) :
    (∀ hist, (call sch .ungated (after sch .ungated hist) doc).2 = (call sch .ungated Res.init doc).2) ↔
    nsQuiet sch doc = true := by
  constructor
  · intro h
    cases hq : nsQuiet sch doc
    · obtain ⟨hist, hne⟩ := history_dependent_of_not_nsQuiet sch doc hq
      exact absurd (h hist) hne
    · rfl
  · intro hq hist
    exact history_neutral_partial sch hist doc hq

def availOf : Option Obs → Option Bool
  | some (.ns a _) => some a
  | _ => none

/-- **which lookups consult the loaded set, and how**: for the code as it is, WHETHER a wildcard — element or
    attribute, lax or strict — consults the global declaration of a name never depends on the residue: it does
    exactly when the namespace is in the maps after the build or has a location (it is then loaded on the
    spot); a skip wildcard never looks.  What does depend on the history is only whether this call pays the
    rebuild (`Obs.ns _ rebuilt`) and the lookups that do not load (`nsRead`). -/
theorem wild_avail_neutral (sch : Sch) (r : Res) (h : Inv sch r) (a : Bool) (pc : PC) (n : Nat) :
    availOf (wildStep sch .ungated r a pc n).2 =
      match pc with | .skip => none | _ => some (sch.nsBase.contains n || sch.loadable.contains n) := by
  have hr : n ∈ r.loaded → n ∈ sch.loadable := h.loadedOK n
  cases pc with
  | skip => rfl
  | lax =>
    by_cases hb : n ∈ sch.nsBase <;> by_cases hd : n ∈ sch.loadable <;> by_cases hl : n ∈ r.loaded <;>
      simp_all [wildStep, isLoaded, availOf]
  | strict =>
    by_cases hb : n ∈ sch.nsBase <;> by_cases hd : n ∈ sch.loadable <;> by_cases hl : n ∈ r.loaded <;>
      simp_all [wildStep, isLoaded, availOf]

/-- a wildcard that loads a namespace re-creates the components: every recorded xsi:type use, binding and
    cache entry is gone, and what the REST of that call writes (it runs on the old components) is lost -/
theorem rebuild_resets (sch : Sch) (r : Res) (ctx : Ctx) (a : Bool) (pc : PC) (n : Nat) (d : Decl) (t : TyId)
    (b : Option Nat) (hpc : pc ≠ .skip) (hl : isLoaded sch r n = false) (hd : sch.loadable.contains n = true) :
    let s := (step sch .ungated (r, ctx) (.wild a pc n)).1
    s.1.xsi = [] ∧ s.1.sel = [] ∧ s.1.elems = [] ∧ s.1.memo = [] ∧ s.1.loaded = n :: r.loaded ∧
    (step sch .ungated s (.xsiType d t b)).1.1 = s.1 := by
  have hd' : n ∈ sch.loadable := by simpa using hd
  cases pc with
  | skip => exact absurd rfl hpc
  | lax => simp [step, wildStep, hl, hd', rebuild]
  | strict => simp [step, wildStep, hl, hd', rebuild]

/-- **`identity.elements` is a cache that is a function of its key**: with the invariant (`Inv.cacheOK`: the
    selectors stored under a declaration are those of the declaration's own type) the field selectors that
    extract the key values of an element are, for every collecting constraint and for EVERY algorithm, those of
    the type the element is validated with — whatever earlier documents left in the cache -/
theorem field_typing_neutral (sch : Sch) (m : Mode) (r : Res) (ctx : Ctx) (d : Decl) (t : TyId) (h : Inv sch r) :
    (step sch m (r, ctx) (.fields d t)).2 = some (.typing ((ctx.filter (·.2)).map fun p => (p.1, t))) := by
  simp only [step, typing_eq h]

/-- a value computed from call-local data is a function of the step alone for the code as it is: it is recomputed
    at every use and leaves nothing behind (the decoded `fixed` literal under the instance's effective type) -/
theorem local_value_neutral (sch : Sch) (m : Mode) (r1 r2 : Res) (ctx : Ctx) (k v : Nat) :
    (step sch m (r1, ctx) (.localValue k v)).2 = (step sch m (r2, ctx) (.localValue k v)).2 ∧
    (step sch m (r1, ctx) (.localValue k v)).1.1 = r1 := ⟨rfl, rfl⟩

/-- the variant that MEMOISES such a value under the key alone (seeded change C10-5: `_fixed_value` on the
    element declaration, filled by whichever effective type needs it first): first writer wins -/
def memoLocal (r : Res) (k v : Nat) : Res × Nat :=
  match r.memo.lookup k with
  | some w => (r, w)
  | none => ({ r with memo := (k, v) :: r.memo }, v)

/-- **memo entries must lie in the graph of a function of the KEY**: a memo fed with a call-local value that is
    not the pure function's breaks the invariant, whatever the schema … -/
theorem memo_local_breaks_inv (sch : Sch) (r : Res) (k v : Nat) (hv : v ≠ sch.pure k) (hk : r.memo.lookup k = none) :
    ¬ Inv sch (memoLocal r k v).1 := by
  intro h
  have := h.memo (k, v) (by simp [memoLocal, hk])
  exact hv this

/-- … and makes the value an instance sees depend on the history: after ANY earlier call that computed `v1` for
    the key, an instance whose own data give `v2 ≠ v1` is shown `v1`; a fresh schema object shows it `v2` -/
theorem memo_local_history_dependent (r : Res) (k v1 v2 : Nat) (hne : v1 ≠ v2) (hk : r.memo.lookup k = none) :
    (memoLocal (memoLocal r k v1).1 k v2).2 = v1 ∧ (memoLocal r k v2).2 = v2 ∧
    (memoLocal (memoLocal r k v1).1 k v2).2 ≠ (memoLocal r k v2).2 := by
  have h1 : (memoLocal (memoLocal r k v1).1 k v2).2 = v1 := by simp [memoLocal, hk]
  have h2 : (memoLocal r k v2).2 = v2 := by simp [memoLocal, hk]
  exact ⟨h1, h2, by rw [h1, h2]; exact hne⟩

/-- non-vacuity: declared xs:decimal fixed="1" (key 20): 1 = the integer read by `xsi:type="xs:integer"`,
    2 = the decimal read by the declared type -/
example : (memoLocal (memoLocal Res.init 20 1).1 20 2).2 = 1 ∧ (memoLocal Res.init 20 2).2 = 2 := by decide

/-! ### the code before 1e49c64 (collection gated by `selected_by`; finding C10-F2, fixed) -/

/-- on plain (no namespace lookups, no abort inside an xsi block), self-sufficient documents the gated code was
    neutral; `gated_dependent_counterexample` and `gated_neutral_iff_selfSufficient` show the guard was exact -/
theorem gated_neutral_partial (sch : Sch) (hist : List (List Step)) (doc : List Step)
    (hc : plainDoc doc = true) (hss : selfSufficient sch (Res.init, []) doc = true) :
    (call sch .gated (after sch .gated hist) doc).2 = (call sch .gated Res.init doc).2 := by
  simp only [call]
  exact neutral_gen sch doc _ _ [] ⟨inv_unstale (inv_after sch .gated hist), inv_unstale (XsVerif.History.inv_init sch),
    by simp [Res.init], rfl, rfl⟩ hc hss

theorem gated_dependent_of_not_selfSufficient (sch : Sch) (doc : List Step)
    (hc : plainDoc doc = true) (hss : selfSufficient sch (Res.init, []) doc = false) :
    ∃ hist, (call sch .gated (after sch .gated hist) doc).2 ≠ (call sch .gated Res.init doc).2 := by
  obtain ⟨c, d, ⟨d0, t, hcx, hd⟩, hall⟩ := dependent_gen sch doc { Res.init with stale := false } [] hc hss
  refine ⟨[[.enter [c], .xsiType d0 t none]], ?_⟩
  have hrel : Rel sch { after sch .gated [[.enter [c], .xsiType d0 t none]] with stale := false }
      { Res.init with stale := false } :=
    ⟨inv_unstale (inv_after sch .gated _), inv_unstale (XsVerif.History.inv_init sch), by simp [Res.init], rfl, rfl⟩
  simp only [call]
  apply hall _ hrel
  simp only [after, List.foldl_cons, List.foldl_nil, call, run, step, Ctx.enter, Ctx.reset, budgeted, stepWrites,
    xsiWrites, hcx, if_true, List.any_nil, List.nil_append, Bool.false_eq_true, if_false, Res.init]
  rw [applyWrites_append]
  apply sel_mono_writes
  exact sat_loop hcx [(c, true)] _ (inv_unstale (XsVerif.History.inv_init sch)) c (List.mem_cons_self ..) d hd

theorem gated_neutral_iff_selfSufficient (sch : Sch) (doc : List Step) (hc : plainDoc doc = true) :
    (∀ hist, (call sch .gated (after sch .gated hist) doc).2 = (call sch .gated Res.init doc).2) ↔
    selfSufficient sch (Res.init, []) doc = true := by
  constructor
  · intro h
    cases hss : selfSufficient sch (Res.init, []) doc
    · obtain ⟨hist, hne⟩ := gated_dependent_of_not_selfSufficient sch doc hc hss
      exact absurd (h hist) hne
    · rfl
  · intro hss hist
    exact gated_neutral_partial sch hist doc hc hss

/-! ### concrete witnesses -/

/-- constraints 0 / 1 (`unique` with selector `.//x` on two elements `secA` / `secB`), declaration
    10 = the shared global element `item`, 11 = the local element `x` of the extension type 5,
    12 = a global element `memb` of type 5 in the substitution group of `head`;
    namespace 0 = the schema's own (in the maps after the build), 7 = XLink / XHTML (bundled location),
    9 = a namespace nobody has a location for; types: 4 = Base, 5 = Ext, 8 = xs:anySimpleType (declared type of
    12), 6 = xs:integer -/
def wSch : Sch where
  complex := [5]
  wtab := [((0, 10, 5), [11]), ((1, 10, 5), [11])]
  base := []
  pure k := k
  declTy := [(10, 4), (11, 3), (12, 8)]
  nsBase := [0]
  loadable := [7]

/-- `<secA><item xsi:type="Ext"><x/><x/></item></secA>` -/
def docA : List Step :=
  [.nsRead 0, .enter [0], .xsiType 10 5 none, .collect 11, .collect 11, .collect 10, .leave [(0, none)]]
/-- `<secB><item xsi:type="Ext"><x/><x/></item></secB>` -/
def docB : List Step :=
  [.enter [1], .xsiType 10 5 none, .collect 11, .collect 11, .collect 10, .leave [(1, none)]]
/-- `<secA><memb><x/><x/></memb></secA>`: the `x` elements arrive through a substitution-group member, no xsi:type -/
def docM : List Step :=
  [.enter [0], .collect 11, .collect 11, .collect 12, .leave [(0, none)]]
/-- `<secA><item/></secA><secB><item xsi:type="Ext">…`: the counter of `ua` exists but is disabled -/
def docD : List Step :=
  [.enter [0], .collect 10, .leave [(0, none)], .enter [1], .xsiType 10 5 none, .collect 11, .collect 10,
   .leave [(1, none)]]
/-- `<root><open><h:p/></open></root>`: an element of namespace 7 under a lax element wildcard -/
def docE : List Step := [.nsRead 0, .wild false .lax 7]
/-- `<root x:type="bogus"/>`: an attribute of namespace 7 under a lax attribute wildcard -/
def docT : List Step := [.nsRead 0, .wild true .lax 7]
/-- `<h:p/>`: the root element itself is in namespace 7 -/
def docR : List Step := [.nsRead 7]
/-- attributes / elements of the schema's namespace, of the unknown namespace 9, and of 7 under skip wildcards -/
def docQ : List Step :=
  [.nsRead 0, .wild true .lax 0, .wild false .strict 9, .wild true .strict 9, .wild true .skip 7, .wild false .skip 7,
   .enter [0], .xsiType 10 5 none, .collect 11, .leave [(0, none)]]

example : nsQuiet wSch docQ = true ∧ nsQuiet wSch docA = true := by decide
example : nsQuiet wSch docE = false ∧ nsQuiet wSch docT = false ∧ nsQuiet wSch docR = false := by decide
example : plainDoc docB = true ∧ selfSufficient wSch (Res.init, []) docB = true := by decide
example : plainDoc docM = true ∧ selfSufficient wSch (Res.init, []) docM = false := by decide

/-- finding C10-F1 (fixed by 962be1e), kept as a theorem about the OLD step: once the type was recorded the
    widening was skipped also for constraints that were not enabled when it was first met, so after document A
    the `x` elements of document B were not collected for `ub`; the later algorithms give the fresh result. -/
theorem history_counterexample :
    (call wSch .old (after wSch .old [docA]) docB).2 ≠ (call wSch .old Res.init docB).2 ∧
    (call wSch .old (after wSch .old [docA]) docB).2.take 1 = [.collected [(1, true)] []] ∧
    (call wSch .old Res.init docB).2.take 1 = [.collected [(1, true)] [1]] ∧
    (call wSch .gated (after wSch .gated [docA]) docB).2 = (call wSch .gated Res.init docB).2 ∧
    (call wSch .ungated (after wSch .ungated [docA]) docB).2 = (call wSch .ungated Res.init docB).2 := by
  decide

/-- finding C10-F2 (fixed by 1e49c64), kept as a theorem about the gated collection: after document A the `x`
    children of a substitution-group member inside `secA` were collected; a fresh schema did not collect them.
    The code as it is gives the same on both. -/
theorem gated_dependent_counterexample :
    (call wSch .gated (after wSch .gated [docA]) docM).2.take 1 = [.collected [(0, true)] [0]] ∧
    (call wSch .gated Res.init docM).2.take 1 = [.collected [(0, true)] []] ∧
    (call wSch .ungated (after wSch .ungated [docA]) docM).2 = (call wSch .ungated Res.init docM).2 := by
  decide

/-- finding C10-F3: the code as it is, on documents that are not namespace-quiet.  (a) the same document E
    twice: the first call (= a fresh schema) rebuilds the components in its middle, the second does not;
    (b) after E, the root of namespace 7 is found in the maps, a fresh schema does not find it;
    (c) the rebuild drops what document A had recorded. -/
theorem namespace_load_counterexample :
    (call wSch .ungated Res.init docE).2 = [.nsSeen true, .ns true true] ∧
    (call wSch .ungated (after wSch .ungated [docE]) docE).2 = [.nsSeen true, .ns true false] ∧
    (call wSch .ungated Res.init docR).2 = [.nsSeen false] ∧
    (call wSch .ungated (after wSch .ungated [docE]) docR).2 = [.nsSeen true] ∧
    (after wSch .ungated [docA]).xsi ≠ [] ∧ (after wSch .ungated [docA, docE]).xsi = [] := by
  decide

/-- seeded change C10-3 (a non-strict attribute wildcard no longer loads): WHETHER the attribute is checked
    against its global declaration then depends on what an earlier document loaded — `avail` false on a fresh
    schema, true after document E — while the code as it is answers `true` both times (`wild_avail_neutral`) -/
theorem lax_attr_noload_counterexample :
    (call wSch .laxAttrNoLoad Res.init docT).2 = [.nsSeen true, .ns false false] ∧
    (call wSch .laxAttrNoLoad (after wSch .laxAttrNoLoad [docE]) docT).2 = [.nsSeen true, .ns true false] ∧
    (call wSch .ungated Res.init docT).2.map (fun o => availOf (some o)) = [none, some true] ∧
    (call wSch .ungated (after wSch .ungated [docE]) docT).2.map (fun o => availOf (some o)) = [none, some true] := by
  decide

/-- seeded change C10-4: `collect_key_fields` stores the selectors it builds for a retyped COPY under the
    declaration (`identity.elements.setdefault(declaration, selectors)`): the cache entry (constraint 0,
    declaration 12) gets the typing of the xsi:type 6 although the declaration has type 8 … -/
def cacheUnderDeclaration (r : Res) (c : Con) (d : Decl) (t : TyId) : Res :=
  { r with cache := if (r.cache.lookup (c, d)).isSome then r.cache else ((c, d), t) :: r.cache }

/-- … which breaks the invariant (the cache is no longer a function of its key) … -/
theorem cache_under_declaration_breaks_inv : ¬ Inv wSch (cacheUnderDeclaration Res.init 0 12 6) := by
  intro h
  have := h.cacheOK ((0, 12), 6) (by decide)
  revert this
  decide

/-- … and from that residue the code as it is extracts the keys of `<memb>01</memb><memb>1</memb>` (no
    xsi:type) with the integer selectors of the earlier document: 01 = 1, a duplicate that a fresh schema does
    not see.  Witness history: `<memb xsi:type="xs:integer">1</memb>` inside the scope, then the untyped one. -/
theorem cache_under_declaration_counterexample :
    (call wSch .ungated (cacheUnderDeclaration Res.init 0 12 6) [.enter [0], .fields 12 8]).2
      = [.typing [(0, 6)]] ∧
    (call wSch .ungated Res.init [.enter [0], .fields 12 8]).2 = [.typing [(0, 8)]] ∧
    (call wSch .ungated (after wSch .ungated [[.enter [0], .fields 12 6, .fields 12 6]]) [.enter [0], .fields 12 8]).2
      = [.typing [(0, 8)]] := by
  decide

/-- the order matters.  A variant of the block that records the (type, constraint) pair for every counter of
    the context — also the DISABLED ones, without widening them (seeded change C10-2) — breaks the invariant:
    the pair (10, 5, 0) is recorded while `x` is not bound to constraint 0 … -/
def recordDisabled (r : Res) (ctx : Ctx) (d : Decl) (t : TyId) : Res :=
  applyWrites r (ctx.map fun p => Write.pair d t p.1)

theorem record_disabled_breaks_inv :
    let r := recordDisabled (call wSch .gated Res.init docD).1 [(0, false), (1, true)] 10 5
    ¬ Inv wSch r := by
  intro r h
  have := h.pairs 10 5 0 (by decide) 11 (by decide)
  revert this
  decide

/-- … and from that residue the gated code no longer gave the fresh result on the (self-sufficient) document A -/
theorem record_disabled_counterexample :
    let r := recordDisabled (call wSch .gated Res.init docD).1 [(0, false), (1, true)] 10 5
    selfSufficient wSch (Res.init, []) docB = true ∧
    (call wSch .gated r [.enter [0], .xsiType 10 5 none, .collect 11]).2 ≠
      (call wSch .gated Res.init [.enter [0], .xsiType 10 5 none, .collect 11]).2 := by
  decide

/-- a call aborted between `update_elements` and `xsi_types.add((type, identity))` (2 of the 4 writes of the
    block done) leaves a residue from which document B still gets the fresh observations -/
example : (call wSch .ungated (after wSch .ungated [[.enter [1], .xsiType 10 5 (some 2)]]) docB).2
    = (call wSch .ungated Res.init docB).2 := by decide

end XsVerif.Props.C10
