/-
  C09 — a schema means the same however its declarations are ordered, split or stored.
  ONLY property theorems and non-vacuity examples live here (model: Model/Staged.lean, helper
  lemmas: Lemmas/Staged.lean).

  Reading of the property in the model.  A schema arrangement (one document, permuted, or split into
  included documents) is flattened by the loader into ONE list of staged declarations
  `(name, (elem, schema), looked-up names)`; permuting / splitting gives a permutation of that list.
  `buildDecls` = `GlobalMaps.load` followed by the on-demand, memoised, circularity-marked build
  (`StagedMap.build/_build_global/__getitem__`).  The built global components are the `store`.
  Circular definitions are excluded by hypothesis (`Acyclic`): there the *location* of the reported
  error legitimately depends on which member of the cycle is built first; `no_circularity_partial`
  and the examples at the end show what the model does on them.
-/
import XsVerif.Lemmas.Staged
import XsVerif.Lemmas.Rebuild

namespace XsVerif.Props.C09
open XsVerif.Staged

/-! ### S: the denotation of an acyclic declaration table -/

/-- S.  `denote` is characterised by the recursive equation of the table alone: a component is its
    declaration applied to the denotations of the names it refers to.  No order, no fuel, no state. -/
theorem denote_spec {g : Name → Option Decl} {rank : Name → Nat} (hac : Acyclic g rank) (q : Name) :
    denote g rank q = match g q with
      | none => .missing q
      | some d => .ok q d.id (d.deps.map (denote g rank)) :=
  denote_unfold hac q

/-! ### forward references never change the outcome -/

/-- One on-demand lookup (`maps.types[q]` at any moment of a build, with any set of other components
    already built and any enclosing builds in progress that `q` does not lead back to) returns the
    denotation of `q`, for EVERY acyclic dependency graph: forward, backward, nested references. -/
theorem lookup_denotes {g : Name → Option Decl} {rank : Name → Nat} (hac : Acyclic g rank)
    (n : Nat) (s : State) (q : Name) (hs : Inv g rank s) (hn : rank q < n)
    (hm : ∀ m, s.marked m = true → rank q < rank m) :
    (lookup n s q).2 = denote g rank q :=
  (lookup_post hac n s q hs hn hm).res

/-- The staged build produces exactly the denotation, whatever list of names drives it (any order,
    with repetitions, as long as every staged name occurs), after any on-demand lookups. -/
theorem build_is_denotation {g : Name → Option Decl} {rank : Name → Nat} (hac : Acyclic g rank)
    (n : Nat) (hn : ∀ q, rank q < n) (pre : Name → Bool)
    (hpre : ∀ q d, pre q = true → g q = some d → d.deps = [])
    (early order : List Name) (hcov : ∀ q d, g q = some d → pre q = false → q ∈ order) (q : Name) :
    (buildAll n (lookups n (initState pre g) early) order).store q
      = (g q).map (fun _ => denote g rank q) := by
  have h0 := initState_inv hac pre hpre
  obtain ⟨h1, h2⟩ := lookups_inv hac n hn early (initState pre g) h0 (fun _ => rfl)
  apply buildAll_store hac n hn _ h1 h2 order
  intro x d hx
  -- a name staged after the early lookups was staged initially
  have hg := h1.staged x d hx
  apply hcov x d hg
  cases hp : pre x with
  | false => rfl
  | true =>
    -- pre-built names are in the store from the start and are never staged again
    exfalso
    have := lookups_staging_none x n early (initState pre g) (by simp [initState, hp])
    rw [this] at hx; cases hx

/-- **Order independence of the build.**  Two builds of the same staged declarations driven in two
    different orders (e.g. the insertion orders of two permuted documents) give the same store. -/
theorem build_order_independent {g : Name → Option Decl} {rank : Name → Nat} (hac : Acyclic g rank)
    (n : Nat) (hn : ∀ q, rank q < n) (pre : Name → Bool)
    (hpre : ∀ q d, pre q = true → g q = some d → d.deps = [])
    (e₁ e₂ o₁ o₂ : List Name)
    (h₁ : ∀ q d, g q = some d → pre q = false → q ∈ o₁)
    (h₂ : ∀ q d, g q = some d → pre q = false → q ∈ o₂) (q : Name) :
    (buildAll n (lookups n (initState pre g) e₁) o₁).store q
      = (buildAll n (lookups n (initState pre g) e₂) o₂).store q := by
  rw [build_is_denotation hac n hn pre hpre e₁ o₁ h₁, build_is_denotation hac n hn pre hpre e₂ o₂ h₂]

/-! ### loading: first declaration wins; permutations of distinct names load the same table -/

/-- `GlobalMaps.load` over any list (duplicates included): the staged declaration of a name is its
    FIRST occurrence.  (So with two different declarations of one name the arrangement matters — and
    that is reported: `load_duplicate_reported`.) -/
theorem load_first_wins (l : List (Name × Decl)) (q : Name) :
    table (loadAll l).staged q = l.lookup q := loadAll_lookup l q

theorem load_no_errors_of_nodup (l : List (Name × Decl)) (hnd : (l.map (·.1)).Nodup) :
    (loadAll l).errors = [] := by
  unfold loadAll
  rw [foldl_loadOne_errors l _ hnd (by intro p _; rfl)]

/-- a second, different declaration of a staged name is reported whatever follows -/
theorem load_duplicate_reported (l₁ l₂ : List (Name × Decl)) (q : Name) (d d' : Decl)
    (h : l₁.lookup q = some d) (hne : d.id ≠ d'.id) :
    q ∈ (loadAll (l₁ ++ (q, d') :: l₂)).errors := by
  unfold loadAll
  rw [List.foldl_append, List.foldl_cons]
  have hst : (List.foldl loadOne ⟨[], []⟩ l₁).staged.lookup q = some d := by
    have := loadAll_lookup l₁ q; unfold loadAll at this; rw [this, h]
  have hone := loadOne_dup _ q d d' hst hne
  have grow : ∀ (l : List (Name × Decl)) (st : LState), q ∈ st.errors → q ∈ (l.foldl loadOne st).errors := by
    intro l
    induction l with
    | nil => intro st h; exact h
    | cons p l ih => intro st h; exact ih _ (loadOne_errors_grow st p q h)
  exact grow l₂ _ hone

theorem load_perm_invariant (l₁ l₂ : List (Name × Decl)) (hp : l₁.Perm l₂)
    (hnd : (l₁.map (·.1)).Nodup) (q : Name) :
    table (loadAll l₁).staged q = table (loadAll l₂).staged q ∧
    (loadAll l₁).errors = [] ∧ (loadAll l₂).errors = [] := by
  refine ⟨?_, load_no_errors_of_nodup l₁ hnd,
    load_no_errors_of_nodup l₂ ((hp.map (·.1)).nodup hnd)⟩
  rw [load_first_wins, load_first_wins, perm_lookup hp hnd]

/-- **The property, end to end in the model.**  Two arrangements of the same declarations (a
    permutation of the flattened declaration list: reordered document, declarations moved to
    included documents, includes listed in another order) with pairwise distinct names and no circular
    definition build the same global components — forward references included. -/
theorem arrangement_independent (l₁ l₂ : List (Name × Decl)) (hp : l₁.Perm l₂)
    (hnd : (l₁.map (·.1)).Nodup) (rank : Name → Nat) (hac : Acyclic (table l₁) rank)
    (n : Nat) (hn : ∀ q, rank q < n) (q : Name) :
    (buildDecls n l₁).store q = (buildDecls n l₂).store q := by
  have e1 : table (loadAll l₁).staged = table l₁ := funext (load_first_wins l₁)
  have e2 : table (loadAll l₂).staged = table l₁ := by
    funext x; rw [load_first_wins, ← perm_lookup hp hnd]; rfl
  unfold buildDecls
  simp only [e1, e2]
  have cov : ∀ (l : List (Name × Decl)), table (loadAll l).staged = table l₁ →
      ∀ x d, table l₁ x = some d → (fun _ => false) x = false → x ∈ (loadAll l).staged.map (·.1) := by
    intro l hl x d hx _
    rw [← hl] at hx
    exact lookup_mem_keys hx
  exact build_order_independent hac n hn (fun _ => false) (by intro _ _ h; cases h) [] []
    _ _ (cov l₁ e1) (cov l₂ e2) q

/-! ### circular definitions: always reported; the guard of the theorems above is observable -/

/-- A name that (transitively) depends on itself is reported: looking up a name whose marker is set
    yields `circ` — it is never silently built twice or looped on. -/
theorem marked_lookup_is_circ (n : Nat) (s : State) (q : Name) (d : Decl)
    (h₁ : s.store q = none) (h₂ : s.staging q = some d) (h₃ : s.marked q = true) :
    (lookup (n + 1) s q).2 = .circ q := by
  simp [lookup, h₁, h₂, h₃]

/-- A reference to any name whose build is in progress (a reference that closes a cycle at run time) is
    reported as circular, wherever it stands among the dependencies and whatever else gets built on the
    way: the marker of the pending build cannot be lost. -/
theorem back_edge_reported (n : Nat) (s : State) (x q : Name) (dx dq : Decl)
    (hx₁ : s.store x = none) (hx₂ : s.staging x = some dx) (hx₃ : s.marked x = false)
    (hq₁ : s.store q = none) (hq₂ : s.staging q = some dq) (hq₃ : s.marked q = true)
    (hq : q ∈ dx.deps) :
    ∃ kids, (lookup (n + 2) s x).2 = .ok x dx.id kids ∧ Res.circ q ∈ kids := by
  refine ⟨(foldDeps (lookup (n + 1))
    { s with marked := Staged.set s.marked x true, log := Ev.enter x :: s.log } dx.deps).2, ?_, ?_⟩
  · simp [lookup, hx₁, hx₂, hx₃]
  · have hne : q ≠ x := by intro h; subst h; simp [hq₃] at hx₃
    exact fold_reports q n dq dx.deps _ (by simp [Staged.set, hne, hq₃]) hq₁ hq₂ hq

/-- a declaration that refers to itself is always reported as circular -/
theorem self_reference_reported (n : Nat) (s : State) (q : Name) (d : Decl)
    (h₁ : s.store q = none) (h₂ : s.staging q = some d) (h₃ : s.marked q = false) (hq : q ∈ d.deps) :
    ∃ kids, (lookup (n + 2) s q).2 = .ok q d.id kids ∧ Res.circ q ∈ kids := by
  refine ⟨(foldDeps (lookup (n + 1))
    { s with marked := Staged.set s.marked q true, log := Ev.enter q :: s.log } d.deps).2, ?_, ?_⟩
  · simp [lookup, h₁, h₂, h₃]
  · exact fold_reports q n d d.deps _ (by simp [Staged.set]) h₁ h₂ hq

example : ∃ kids, (lookup 3 (initState (fun _ => false) (table [("t:A", ⟨1, ["t:B", "t:A"]⟩)])) "t:A").2
    = .ok "t:A" 1 kids ∧ Res.circ "t:A" ∈ kids :=
  self_reference_reported 1 _ "t:A" ⟨1, ["t:B", "t:A"]⟩ rfl rfl rfl (by simp)

/-! ### one file, one schema: location spellings -/

/-- normalisation is idempotent -/
theorem normSegs_idempotent (l : List String) : normSegs (normSegs l) = normSegs l := by
  unfold normSegs
  rw [normGo_plain _ (normGo_is_plain l [] (by intro s h; cases h))]
  simp

/-- joining a relative location to a base and normalising = joining it to the normalised base -/
theorem normSegs_join (base loc : List String) :
    normSegs (base ++ loc) = normSegs (normSegs base ++ loc) := by
  unfold normSegs
  rw [normGo_append, normGo_append]
  have : normGo [] (normGo [] base) = normGo [] base := normSegs_idempotent base
  rw [this]

/-- The spellings of the quantifier denote the same key: relative `f`, dotted `./f`, `x/../f`,
    and the absolute path (also the path of the `file:` URL), for every directory and file name. -/
theorem spellings_same_key (dir : List String) (f x : String) (hd : ∀ s ∈ dir, Plain s)
    (hf : Plain f) (hx : Plain x) (other : List String) :
    resolve dir false [f] = dir ++ [f] ∧
    resolve dir false [".", f] = dir ++ [f] ∧
    resolve dir false [x, "..", f] = dir ++ [f] ∧
    resolve other true (dir ++ [f]) = dir ++ [f] := by
  unfold Plain at hf hx
  have hdf : ∀ s ∈ dir ++ [f], Plain s := by
    intro s hs
    rcases List.mem_append.mp hs with h | h
    · exact hd s h
    · simp only [List.mem_singleton] at h; subst h; exact hf
  have base : normGo [] dir = dir := by rw [normGo_plain dir hd]; simp
  refine ⟨?_, ?_, ?_, ?_⟩
  · simp only [resolve, Bool.false_eq_true, ↓reduceIte, normSegs]; rw [normGo_plain _ hdf]; simp
  · simp only [resolve, Bool.false_eq_true, ↓reduceIte, normSegs]
    rw [normGo_append, base]
    simp [normGo, hf.1, hf.2.1, hf.2.2]
  · simp only [resolve, Bool.false_eq_true, ↓reduceIte, normSegs]
    rw [normGo_append, base]
    simp [normGo, hf.1, hf.2.1, hf.2.2, hx.1, hx.2.1, hx.2.2]
  · simp only [resolve, ↓reduceIte, normSegs]; rw [normGo_plain _ hdf]; simp

/-- However often and in whatever spelling a document is included, it is registered at most once. -/
theorem include_once (docs : List Doc) (n : Nat) (root : List String) :
    (includeGo docs n [] [root]).Nodup :=
  includeGo_nodup docs n [] [root] List.nodup_nil

/-! ### building twice: the registries beside the six staged maps (Model/Rebuild.lean)

  `maps.identities`, `maps.substitution_groups`, the `_store` of the staged maps and the cached views of the
  schemas are written by every build.  Objects carry the number of the build that created them
  (generation).  `faithful` is the `clear()` of /repo: it empties all of them. -/
section Rebuild
open XsVerif.Rebuild

/-- **Building twice (any number of times).**  After ANY history of builds of one maps object the registries
    are exactly those of ONE fresh build of the last declarations: nothing of the history is left. -/
theorem rebuild_history_irrelevant (hist : List (List Req)) (reqs : List Req) :
    run faithful (hist ++ [reqs]) = rebuild faithful hist.length reqs Rebuild.empty := by
  simpa [run] using runFrom_last reqs hist 0 Rebuild.empty

/-- Every object held by a registry after any history is an object of the LAST build, and so are the
    cached views handed out by the schemas. -/
theorem rebuild_all_current (hist : List (List Req)) (reqs : List Req) :
    AllGen hist.length (run faithful (hist ++ [reqs])) ∧
    (run faithful (hist ++ [reqs])).views = some hist.length := by
  rw [rebuild_history_irrelevant]
  have hb := build_allGen hist.length reqs (clear faithful Rebuild.empty) (empty_allGen _)
  obtain ⟨t1, t2, t3, _⟩ := touch_fields hist.length (build hist.length reqs (clear faithful Rebuild.empty))
  refine ⟨⟨?_, ?_, ?_⟩, ?_⟩
  · unfold rebuild; rw [t1]; exact hb.store
  · unfold rebuild; rw [t2]; exact hb.idents
  · unfold rebuild; rw [t3]; exact hb.subst
  · unfold rebuild touch
    rw [build_views]
    rfl

/-- A keyref built after any history is bound to a key/unique object of the last build, whether `refer`
    is found among the constraints of its own element or through `maps.identities`. -/
theorem keyref_binding_current (hist : List (List Req)) (reqs : List Req) (own : Bool) (refer : String) (b : Nat)
    (h : Rebuild.resolve own hist.length (run faithful (hist ++ [reqs])) refer = some b) : b = hist.length := by
  unfold Rebuild.resolve at h
  cases own with
  | true => simpa using h.symm
  | false =>
    simp only [Bool.false_eq_true, if_false, Option.map_eq_some_iff] at h
    obtain ⟨e, he, hb⟩ := h
    rw [← hb]
    exact (rebuild_all_current hist reqs).1.idents _ (lookup_mem _ _ _ he)

/-- Hence, after any history, the "value not found" errors of a keyref on any instance are exactly its
    dangling references (the verdict clause of the property for registry-resolved constraints). -/
theorem keyref_errors_after_any_history (hist : List (List Req)) (reqs : List Req) (own : Bool)
    (refer : String) (b : Nat) (keys refs : List String)
    (h : Rebuild.resolve own hist.length (run faithful (hist ++ [reqs])) refer = some b) :
    notFound b hist.length keys refs = refs.filter (fun r => !keys.contains r) := by
  rw [keyref_binding_current hist reqs own refer b h]
  simp [notFound]

/-- **What a build registers does not depend on any order** (order of the declarations, of the documents,
    of the on-demand construction): the registries are this order-free function of the SET of requests. -/
theorem registry_spec (g : Nat) (reqs : List Req) (hf : Functional reqs) :
    (∀ n, (build g reqs Rebuild.empty).store.lookup n = if .glob n ∈ reqs then some g else none) ∧
    (∀ n node, (build g reqs Rebuild.empty).idents.lookup n = some ⟨node, g⟩ ↔ .ident n node ∈ reqs) ∧
    (∀ h x g', MemberOf (build g reqs Rebuild.empty).subst h (x, g') ↔ (g' = g ∧ .subst h x ∈ reqs)) := by
  refine ⟨?_, ?_, ?_⟩
  · intro n; rw [build_store_lookup]; rfl
  · intro n node
    rw [build_idents_lookup, ← firstNode_iff reqs hf n node]
    show Option.map _ (firstNode reqs n) = _ ↔ _
    cases firstNode reqs n with
    | none => simp
    | some nd => simp
  · intro h x g'
    rw [build_subst]
    constructor
    · rintro (⟨ms, hm, _⟩ | r)
      · simp [Rebuild.empty] at hm
      · exact r
    · exact Or.inr

theorem registry_perm_invariant (g : Nat) (r₁ r₂ : List Req) (hp : r₁.Perm r₂) (hf : Functional r₁) :
    (∀ n, (build g r₁ Rebuild.empty).store.lookup n = (build g r₂ Rebuild.empty).store.lookup n) ∧
    (∀ n, (build g r₁ Rebuild.empty).idents.lookup n = (build g r₂ Rebuild.empty).idents.lookup n) ∧
    (∀ h y, MemberOf (build g r₁ Rebuild.empty).subst h y ↔ MemberOf (build g r₂ Rebuild.empty).subst h y) := by
  have hf₂ : Functional r₂ := fun n a b ha hb => hf n a b (hp.mem_iff.mpr ha) (hp.mem_iff.mpr hb)
  refine ⟨?_, ?_, ?_⟩
  · intro n
    rw [(registry_spec g r₁ hf).1, (registry_spec g r₂ hf₂).1]
    simp [hp.mem_iff]
  · intro n
    rw [build_idents_lookup, build_idents_lookup]
    show Option.map _ (firstNode r₁ n) = Option.map _ (firstNode r₂ n)
    have : firstNode r₁ n = firstNode r₂ n := by
      cases c₁ : firstNode r₁ n with
      | some nd =>
        exact ((firstNode_iff r₂ hf₂ n nd).mpr (hp.mem_iff.mp ((firstNode_iff r₁ hf n nd).mp c₁))).symm
      | none =>
        cases c₂ : firstNode r₂ n with
        | none => rfl
        | some nd =>
          have := (firstNode_iff r₁ hf n nd).mpr (hp.mem_iff.mpr ((firstNode_iff r₂ hf₂ n nd).mp c₂))
          rw [c₁] at this; cases this
    rw [this]
  · intro h y
    rw [build_subst, build_subst]
    simp [hp.mem_iff]

/-- globals declared once + functional identity registrations: a build from cleared maps reports nothing -/
theorem registry_no_errors (g : Nat) (reqs : List Req) (hf : Functional reqs)
    (hnd : (reqs.filterMap fun | .glob n => some n | _ => none).Nodup) :
    (build g reqs Rebuild.empty).errors = [] :=
  build_no_errors g reqs Rebuild.empty rfl (by intro n _; rfl) (by intro n node e _ h; cases h) hnd hf

/-! #### every container that `clear()` empties has to be emptied (what the tie to the real objects watches) -/

/-- If `clear()` left `maps.identities` alone, the entry of the previous build would win against the new
    registration (same XSD node: no error is reported), and every keyref that resolves `refer` through the
    registry would be bound to the object of the OLD generation … -/
theorem stale_identity_survives (k : Keep) (hk : k.idents = true) (m : Maps) (g : Nat) (reqs : List Req)
    (q : String) (e : Entry) (h : m.idents.lookup q = some e) :
    (rebuild k g reqs m).idents.lookup q = some e ∧ Rebuild.resolve false g (rebuild k g reqs m) q = some e.gen := by
  have h1 : (rebuild k g reqs m).idents.lookup q = some e := by
    unfold rebuild
    rw [(touch_fields g _).2.1, build_idents_lookup]
    simp [clear, hk, h]
  exact ⟨h1, by simp [Rebuild.resolve, h1]⟩

/-- … whose counter no element of the new generation ever fills: every reference is reported. -/
theorem stale_keyref_finds_nothing (b cur : Nat) (h : b ≠ cur) (keys refs : List String) :
    notFound b cur keys refs = refs := by
  simp [notFound, h]

theorem stale_store_refuses (k : Keep) (hk : k.store = true) (m : Maps) (g : Nat) (reqs : List Req)
    (n : String) (v : Nat) (h : m.store.lookup n = some v) (hd : .glob n ∈ reqs) :
    n ∈ (rebuild k g reqs m).errors := by
  unfold rebuild
  rw [(touch_fields g _).2.2.2]
  exact build_refuses_stored g reqs (clear k m) n v (by simp [clear, hk, h]) hd

theorem stale_members_survive (k : Keep) (hk : k.subst = true) (m : Maps) (g : Nat) (reqs : List Req)
    (h : String) (y : String × Nat) (hy : MemberOf m.subst h y) : MemberOf (rebuild k g reqs m).subst h y := by
  unfold rebuild
  rw [(touch_fields g _).2.2.1, build_subst]
  exact Or.inl (by simpa [clear, hk] using hy)

theorem stale_views_survive (k : Keep) (hk : k.views = true) (m : Maps) (g v : Nat) (reqs : List Req)
    (h : m.views = some v) : (rebuild k g reqs m).views = some v := by
  have hv : (build g reqs (clear k m)).views = some v := by rw [build_views]; simp [clear, hk, h]
  unfold rebuild touch
  rw [hv]
  exact hv

/-- the smallest witness (replayed on the real code by the harness: family `registry:identity/child`):
    a key on a nested element, a keyref on its ancestor, built twice with identities not cleared -/
theorem unclear_identities_counterexample :
    let reqs := [Req.glob "e|idr", .ident "defKey" "main.xsd#7", .ident "useRef" "main.xsd#20"]
    let m := run ⟨false, true, false, false⟩ [reqs, reqs]
    Rebuild.resolve false 1 m "defKey" = some 0 ∧ notFound 0 1 ["a", "b"] ["a"] = ["a"] ∧
    Rebuild.resolve false 1 (run faithful [reqs, reqs]) "defKey" = some 1 ∧ notFound 1 1 ["a", "b"] ["a"] = [] := by
  decide

example : Functional [Req.glob "e|idr", .ident "defKey" "main.xsd#7", .subst "e|h" "e|m", .ident "defKey" "main.xsd#7"] := by
  intro n a b ha hb
  simp at ha hb
  rw [ha.2, hb.2]

example : (run faithful [[.subst "h" "m"], [.subst "h" "m", .ident "k" "n"]]).subst = [("h", [("m", 1)])] := by decide
example : (run ⟨false, false, true, false⟩ [[.subst "h" "m"], [.subst "h" "m"]]).subst = [("h", [("m", 0), ("m", 1)])] := by
  decide
example : (run ⟨true, false, false, false⟩ [[.glob "n|gif"], [.glob "n|gif"]]).errors = ["n|gif"] := by decide

/-! #### shared components: constructors must not write to what they looked up (findings C09-F1, C09-F2) -/

/-- **C09-F1, the witness** (replayed on the real code: REGISTRY_FAMILY[0] of harness/props/c09.py): with the
    in-place union of /repo the wildcard that type `Other` ends up with depends on the build order. -/
theorem shared_wildcard_inplace_counterexample :
    ([Act.ext ["urn:y"], .other].foldl inPlace ⟨["urn:x"], []⟩).snaps = [["urn:x", "urn:y"]] ∧
    ([Act.other, .ext ["urn:y"]].foldl inPlace ⟨["urn:x"], []⟩).snaps = [["urn:x"]] := by decide

/-- Repaired constructor (union into a copy): whatever is built, in whatever order, the group's wildcard stays
    what the group declares and every user snapshots exactly that. -/
theorem shared_wildcard_copy_order_independent (ag : List String) (acts : List Act) :
    (acts.foldl copied ⟨ag, []⟩).ag = ag ∧ ∀ w ∈ (acts.foldl copied ⟨ag, []⟩).snaps, w = ag := by
  suffices h : ∀ (s : Shared), s.ag = ag → (∀ w ∈ s.snaps, w = ag) →
      (acts.foldl copied s).ag = ag ∧ ∀ w ∈ (acts.foldl copied s).snaps, w = ag from
    h ⟨ag, []⟩ rfl (by intro w hw; cases hw)
  induction acts with
  | nil => intro s h1 h2; exact ⟨h1, h2⟩
  | cons a acts ih =>
    intro s h1 h2
    rw [List.foldl_cons]
    apply ih
    · cases a <;> simpa [copied] using h1
    · cases a with
      | ext b => simpa [copied] using h2
      | other =>
        intro w hw
        simp only [copied, List.mem_append, List.mem_singleton] at hw
        rcases hw with hw | hw
        · exact h2 w hw
        · rw [hw, h1]

/-- **Pure constructors ⇒ order independence of everything computed from a shared component.**  If no
    constructor changes the shared component (the hypothesis the purity monitor of the harness checks on the real
    objects), then after ANY sequence of constructors, in any order, the component is what its declaration says
    and every snapshot taken from it is that same value. -/
theorem pure_ctors_order_independent (ag : List String) (cs : List Ctor) (h : ∀ c ∈ cs, PureCtor c) :
    (cs.foldl runCtor ⟨ag, []⟩).ag = ag ∧ ∀ w ∈ (cs.foldl runCtor ⟨ag, []⟩).snaps, w = ag := by
  suffices g : ∀ (s : Shared), s.ag = ag → (∀ w ∈ s.snaps, w = ag) →
      (cs.foldl runCtor s).ag = ag ∧ ∀ w ∈ (cs.foldl runCtor s).snaps, w = ag from
    g ⟨ag, []⟩ rfl (by intro w hw; cases hw)
  induction cs with
  | nil => intro s h1 h2; exact ⟨h1, h2⟩
  | cons c cs ih =>
    intro s h1 h2
    rw [List.foldl_cons]
    have hc : PureCtor c := h c List.mem_cons_self
    apply ih (fun c' hc' => h c' (List.mem_cons_of_mem _ hc'))
    · cases hr : c.read <;> simp [runCtor, hr, hc _, h1]
    · intro w hw
      cases hr : c.read with
      | false => simp only [runCtor, hr] at hw; exact h2 w hw
      | true =>
        simp only [runCtor, hr, if_true, List.mem_append, List.mem_singleton] at hw
        rcases hw with hw | hw
        · exact h2 w hw
        · rw [hw, h1]

/-- **Seed C09-3, the witness** (replayed on the real code: wildcard-pair family, `##other` × `##local urn:x`):
    with the aliased intersection the second user's wildcard depends on the order. -/
theorem aliased_intersection_counterexample :
    ([aliasedInter "urn:t", reader].foldl runCtor ⟨["", "urn:x"], []⟩).snaps = [["urn:x"]] ∧
    ([reader, aliasedInter "urn:t"].foldl runCtor ⟨["", "urn:x"], []⟩).snaps = [["", "urn:x"]] ∧
    ¬ PureCtor (aliasedInter "urn:t") := by
  refine ⟨by decide, by decide, ?_⟩
  intro h
  have := h [""]
  simp [aliasedInter] at this

example : PureCtor reader := fun _ => rfl

/-- **One parser per component.**  Whatever cache is used while the assertions are built, if its key determines
    the component (in /repo there is no cache: the degenerate case), every assertion ends up with a parser bound to
    its own component, in any build order.  The hypothesis is what the binding monitor of the harness checks on
    the real objects (proxy base element is the assertion itself; no parser / token serves two components). -/
theorem assertion_parser_is_own (key : String → String → String)
    (hk : ∀ o t o' t', key o t = key o' t' → o = o') (asserts : List (String × String)) :
    ∀ p ∈ bindAll key asserts, p.2 = p.1 := by
  unfold bindAll
  suffices g : ∀ (st : List (String × String) × List (String × String)),
      (∀ k o, (k, o) ∈ st.1 → ∀ o' t', key o' t' = k → o' = o) → (∀ p ∈ st.2, p.2 = p.1) →
      ∀ p ∈ (asserts.foldl (bindOne key) st).2, p.2 = p.1 from
    g ([], []) (by intro k o h; cases h) (by intro p h; cases h)
  induction asserts with
  | nil => intro st _ h2; exact h2
  | cons a asserts ih =>
    intro st h1 h2
    rw [List.foldl_cons]
    apply ih
    · intro k o hm o' t' he
      unfold bindOne at hm
      cases hl : st.1.lookup (key a.1 a.2) with
      | some owner => rw [hl] at hm; exact h1 k o hm o' t' he
      | none =>
        rw [hl] at hm
        simp only [List.mem_append, List.mem_singleton, Prod.mk.injEq] at hm
        rcases hm with hm | ⟨e1, e2⟩
        · exact h1 k o hm o' t' he
        · rw [e2]; exact hk o' t' a.1 a.2 (he.trans e1)
    · intro p hp
      unfold bindOne at hp
      cases hl : st.1.lookup (key a.1 a.2) with
      | some owner =>
        rw [hl] at hp
        simp only [List.mem_append, List.mem_singleton] at hp
        rcases hp with hp | hp
        · exact h2 p hp
        · rw [hp]
          exact (h1 _ owner (lookup_mem _ _ _ hl) a.1 a.2 rfl).symm
      | none =>
        rw [hl] at hp
        simp only [List.mem_append, List.mem_singleton] at hp
        rcases hp with hp | hp
        · exact h2 p hp
        · rw [hp]

/-- **Seed C09-5, the witness** (replayed on the real code: assertion-pair family): a cache keyed by the test text
    alone binds the second type to the parser of whichever type is built first. -/
theorem text_keyed_parser_cache_counterexample :
    bindAll (fun _ t => t) [("A", "@min le @max"), ("B", "@min le @max")] = [("A", "A"), ("B", "A")] ∧
    bindAll (fun _ t => t) [("B", "@min le @max"), ("A", "@min le @max")] = [("B", "B"), ("A", "B")] ∧
    bindAll (fun o t => o ++ "|" ++ t) [("A", "@min le @max"), ("B", "@min le @max")] = [("A", "A"), ("B", "B")] := by
  decide

/-- **C09-F2, the witness**: the per-document test changes its answer when the declaration moves to an
    included document (document 1) while the wildcard stays in document 0 … -/
theorem defined_per_document_counterexample :
    definedDoc (fun n => n == "ga") (fun _ => 0) 0 "ga" = true ∧
    definedDoc (fun n => n == "ga") (fun n => if n == "ga" then 1 else 0) 0 "ga" = false := by decide

/- … the repaired test (`definedNs`) takes the declarations and their namespaces only: a document assignment is
   not among its arguments, so no split into included documents of one namespace can change its answer. -/

end Rebuild

/-! #### the key of a document is its location RESOLVED against the including document, never the raw string -/

/-- **First wins.**  A document that is registered keeps its place whatever is included later (and, with
    `include_once`, is never registered again): the registration order is the order of first inclusion. -/
theorem include_first_wins (docs : List Doc) (n : Nat) (visited todo : List (List String)) :
    visited <+: includeGo docs n visited todo :=
  includeGo_prefix docs n visited todo

/-- **Only resolved locations count.**  Two descriptions of the same layout — the same document keys and, for
    every document, the same list of include locations after resolving each against the directory of the document
    that WRITES it — register the same documents in the same order, however the locations are spelled (bare
    relative, `./`, `x/../`, `../`, absolute, file URL) and wherever the raw strings coincide or differ. -/
theorem include_resolved_keys_only (docs₁ docs₂ : List Doc) (h : AllSame docs₁ docs₂) (n : Nat)
    (root : List String) :
    includeGo docs₁ n [] [root] = includeGo docs₂ n [] [root] :=
  includeGo_sameResolved docs₁ docs₂ h n [] [root]

/-- the layout of seed C09-4: /r/main.xsd includes `common.xsd` and `sub/part.xsd`; /r/sub/part.xsd includes
    `common.xsd` — the same string, another file -/
def twinMain : Doc := ⟨["r", "main.xsd"], ["r"], [(false, ["common.xsd"]), (false, ["sub", "part.xsd"])], []⟩
def twinDocs (partInc : Bool × List String) : List Doc :=
  [twinMain, ⟨["r", "common.xsd"], ["r"], [], []⟩, ⟨["r", "sub", "part.xsd"], ["r", "sub"], [partInc], []⟩,
   ⟨["r", "sub", "common.xsd"], ["r", "sub"], [], []⟩]

/-- **Counter-example for raw-string keys** (replayed on the real code: topologies `twin`, directory family):
    a loader that matches the raw string against the main document's locations never loads /r/sub/common.xsd when
    the location is spelled `common.xsd`, and loads it when the same file is spelled absolutely; the loader of
    /repo (`includeGo`) registers the four documents under both spellings. -/
theorem raw_location_key_counterexample :
    includeGoRaw (twinDocs (false, ["common.xsd"])) twinMain 9 [] [["r", "main.xsd"]]
      = [["r", "main.xsd"], ["r", "common.xsd"], ["r", "sub", "part.xsd"]] ∧
    includeGoRaw (twinDocs (true, ["r", "sub", "common.xsd"])) twinMain 9 [] [["r", "main.xsd"]]
      = [["r", "main.xsd"], ["r", "common.xsd"], ["r", "sub", "part.xsd"], ["r", "sub", "common.xsd"]] ∧
    includeGo (twinDocs (false, ["common.xsd"])) 9 [] [["r", "main.xsd"]]
      = [["r", "main.xsd"], ["r", "common.xsd"], ["r", "sub", "part.xsd"], ["r", "sub", "common.xsd"]] ∧
    includeGo (twinDocs (true, ["r", "sub", "common.xsd"])) 9 [] [["r", "main.xsd"]]
      = [["r", "main.xsd"], ["r", "common.xsd"], ["r", "sub", "part.xsd"], ["r", "sub", "common.xsd"]] := by
  decide

/-- the two spellings of the witness are `AllSame`: `include_resolved_keys_only` applies to them -/
example : AllSame (twinDocs (false, ["common.xsd"])) (twinDocs (true, ["r", "sub", "common.xsd"])) := by
  refine .cons ⟨rfl, rfl⟩ (.cons ⟨rfl, rfl⟩ (.cons ⟨rfl, ?_⟩ (.cons ⟨rfl, rfl⟩ .nil)))
  decide

/-! ### non-vacuity -/

/-- a table with forward references: element root → type R → base B, group G; R declared before B -/
def exDecls : List (Name × Decl) :=
  [("e:root", ⟨1, ["t:R"]⟩), ("t:R", ⟨2, ["t:B", "g:G", "t:xs:int"]⟩), ("g:G", ⟨3, []⟩), ("t:B", ⟨4, ["t:S"]⟩),
   ("t:S", ⟨5, []⟩)]

def exRank : Name → Nat := fun q =>
  if q = "e:root" then 4 else if q = "t:R" then 3 else if q = "t:B" then 2 else if q = "t:S" then 1
  else if q = "g:G" then 1 else 0

example : Acyclic (table exDecls) exRank := by
  intro q d h x hx
  simp only [table, exDecls, List.lookup_cons, List.lookup_nil] at h
  repeat' split at h
  all_goals (first | cases h | skip)
  all_goals simp_all [exRank]
  all_goals (rcases hx with rfl | rfl | rfl <;> decide)

example : (exDecls.map (·.1)).Nodup := by decide
example : exDecls.reverse.Perm exDecls := List.reverse_perm _

/-- the model really builds R's base on demand (forward reference) and memoises it -/
example : ((buildDecls 6 exDecls).log.reverse.take 6) =
    [.enter "e:root", .enter "t:R", .enter "t:B", .enter "t:S", .exit "t:S", .exit "t:B"] := by decide

/-- circular definitions: the error lands on a different member of the cycle depending on the order
    (this is why they are excluded by hypothesis) -/
def cyc₁ : List (Name × Decl) := [("t:A", ⟨1, ["t:B"]⟩), ("t:B", ⟨2, ["t:A"]⟩)]
def cyc₂ : List (Name × Decl) := [("t:B", ⟨2, ["t:A"]⟩), ("t:A", ⟨1, ["t:B"]⟩)]

def kidsOf : Option Res → List String
  | some (.ok _ _ kids) => kids.map fun
      | .ok n _ _ => "ok " ++ n | .missing n => "missing " ++ n | .circ n => "circ " ++ n | .fuel => "fuel"
  | _ => []

theorem cyclic_order_dependent_counterexample :
    kidsOf ((buildDecls 3 cyc₁).store "t:B") = ["circ t:A"] ∧
    kidsOf ((buildDecls 3 cyc₂).store "t:B") = ["ok t:A"] := by decide

example : normSegs ["tmp", "d", "sub", "..", ".", "p1.xsd"] = ["tmp", "d", "p1.xsd"] := by decide
example : Plain "p1.xsd" := by unfold Plain; decide


/- =============================================================================================
   xs:import statements of one document (loaders.py, SchemaLoader.load_declared_schemas): what is recorded as
   imported (the namespaces that may be referenced by QName) and what is loaded, for imports with and WITHOUT a
   schemaLocation, in every order.
   ============================================================================================= -/
namespace Imports

/-- the part of the loader state that xs:import statements of ONE document write -/
structure St where
  recorded : List Nat   -- schema.imported_namespaces
  loaded : List Nat     -- namespaces registered in the maps
deriving DecidableEq, Repr

/-- one xs:import child `(namespace, has a schemaLocation)`: the namespace is ALWAYS recorded; it is loaded
    (with everything its document imports, `clo`) only when it is missing and a location is given -/
def step (clo : Nat → List Nat) (s : St) (imp : Nat × Bool) : St :=
  { recorded := s.recorded ++ [imp.1],
    loaded := if imp.2 && !(s.loaded.contains imp.1) then s.loaded ++ clo imp.1 else s.loaded }

def run (clo : Nat → List Nat) (l : List (Nat × Bool)) : St := l.foldl (step clo) ⟨[], []⟩

/-- `clo x` = the namespaces loaded through the document of `x`: contains `x`, transitively closed -/
structure IsClosure (clo : Nat → List Nat) : Prop where
  self : ∀ x, x ∈ clo x
  trans : ∀ x y, y ∈ clo x → ∀ z, z ∈ clo y → z ∈ clo x

def Closed (clo : Nat → List Nat) (L : List Nat) : Prop := ∀ y, y ∈ L → ∀ z, z ∈ clo y → z ∈ L

theorem foldl_recorded (clo : Nat → List Nat) (l : List (Nat × Bool)) (s : St) :
    (l.foldl (step clo) s).recorded = s.recorded ++ l.map Prod.fst := by
  induction l generalizing s with
  | nil => simp
  | cons a l ih => simp [List.foldl_cons, ih, step]

/-- imported_namespaces is exactly the list of namespace attributes: no dependence on locations or on what is loaded -/
theorem imports_recorded (clo : Nat → List Nat) (l : List (Nat × Bool)) :
    (run clo l).recorded = l.map Prod.fst := by
  simp [run, foldl_recorded]

/-- every namespace named by an xs:import may be referenced, with or without a schemaLocation, in every position -/
theorem import_refs_resolvable (clo : Nat → List Nat) (l : List (Nat × Bool)) (imp : Nat × Bool) (h : imp ∈ l) :
    imp.1 ∈ (run clo l).recorded := by
  rw [imports_recorded]; exact List.mem_map.2 ⟨imp, h, rfl⟩

theorem imports_recorded_perm (clo : Nat → List Nat) (l₁ l₂ : List (Nat × Bool)) (hp : l₁.Perm l₂) (ns : Nat) :
    ns ∈ (run clo l₁).recorded ↔ ns ∈ (run clo l₂).recorded := by
  rw [imports_recorded, imports_recorded]; exact (hp.map Prod.fst).mem_iff

theorem step_loaded (clo : Nat → List Nat) (s : St) (hs : Closed clo s.loaded) (imp : Nat × Bool) (z : Nat) :
    z ∈ (step clo s imp).loaded ↔ z ∈ s.loaded ∨ (imp.2 = true ∧ z ∈ clo imp.1) := by
  unfold step
  cases h2 : imp.2 with
  | false => simp
  | true =>
    by_cases hc : imp.1 ∈ s.loaded
    · simp [hc]
      intro hz; exact hs _ hc _ hz
    · simp [hc]

theorem step_closed (clo : Nat → List Nat) (hc : IsClosure clo) (s : St) (hs : Closed clo s.loaded) (imp : Nat × Bool) :
    Closed clo (step clo s imp).loaded := by
  intro y hy z hz
  rw [step_loaded clo s hs] at hy ⊢
  cases hy with
  | inl h => exact Or.inl (hs y h z hz)
  | inr h => exact Or.inr ⟨h.1, hc.trans _ _ h.2 _ hz⟩

theorem foldl_loaded (clo : Nat → List Nat) (hc : IsClosure clo) (l : List (Nat × Bool)) (s : St)
    (hs : Closed clo s.loaded) (z : Nat) :
    z ∈ (l.foldl (step clo) s).loaded ↔ z ∈ s.loaded ∨ ∃ x, x ∈ l ∧ x.2 = true ∧ z ∈ clo x.1 := by
  induction l generalizing s with
  | nil => simp
  | cons a l ih =>
    rw [List.foldl_cons, ih _ (step_closed clo hc s hs a), step_loaded clo s hs]
    constructor
    · rintro ((h | h) | ⟨x, hx, h⟩)
      · exact Or.inl h
      · exact Or.inr ⟨a, List.mem_cons_self, h⟩
      · exact Or.inr ⟨x, List.mem_cons_of_mem _ hx, h⟩
    · rintro (h | ⟨x, hx, h⟩)
      · exact Or.inl (Or.inl h)
      · cases List.mem_cons.1 hx with
        | inl e => subst e; exact Or.inl (Or.inr h)
        | inr hx => exact Or.inr ⟨x, hx, h⟩

/-- what is loaded = the union of the closures of the LOCATED imports: a set-function of the statements -/
theorem imports_loaded_spec (clo : Nat → List Nat) (hc : IsClosure clo) (l : List (Nat × Bool)) (z : Nat) :
    z ∈ (run clo l).loaded ↔ ∃ x, x ∈ l ∧ x.2 = true ∧ z ∈ clo x.1 := by
  have := foldl_loaded clo hc l ⟨[], []⟩ (by intro y hy; cases hy) z
  simpa [run] using this

/-- … hence the order of the xs:import children changes neither what is loaded nor what may be referenced -/
theorem imports_order_independent (clo : Nat → List Nat) (hc : IsClosure clo) (l₁ l₂ : List (Nat × Bool))
    (hp : l₁.Perm l₂) (z : Nat) :
    (z ∈ (run clo l₁).loaded ↔ z ∈ (run clo l₂).loaded) ∧
    (z ∈ (run clo l₁).recorded ↔ z ∈ (run clo l₂).recorded) := by
  refine ⟨?_, imports_recorded_perm clo l₁ l₂ hp z⟩
  rw [imports_loaded_spec clo hc, imports_loaded_spec clo hc]
  constructor
  · rintro ⟨x, hx, h⟩; exact ⟨x, hp.mem_iff.1 hx, h⟩
  · rintro ⟨x, hx, h⟩; exact ⟨x, hp.mem_iff.2 hx, h⟩

/-- a location-less import of a namespace that a located import loads transitively is satisfied in every position -/
theorem locationless_import_satisfied (clo : Nat → List Nat) (hc : IsClosure clo) (l : List (Nat × Bool))
    (ns via : Nat) (hv : (via, true) ∈ l) (hr : ns ∈ clo via) (hi : (ns, false) ∈ l) :
    ns ∈ (run clo l).loaded ∧ ns ∈ (run clo l).recorded :=
  ⟨(imports_loaded_spec clo hc l ns).2 ⟨(via, true), hv, rfl, hr⟩, import_refs_resolvable clo l (ns, false) hi⟩

/-- a loader that skips a location-less import whose namespace is already loaded BEFORE recording it -/
def stepSkip (clo : Nat → List Nat) (s : St) (imp : Nat × Bool) : St :=
  if !imp.2 && s.loaded.contains imp.1 then s else step clo s imp

def exClo : Nat → List Nat := fun x => if x = 0 then [0, 1] else [x]

/-- … records [A] for the order A(located), B(no location) and [B, A] for the other one -/
theorem skip_before_record_counterexample :
    ([(0, true), (1, false)].foldl (stepSkip exClo) ⟨[], []⟩).recorded = [0] ∧
    ([(1, false), (0, true)].foldl (stepSkip exClo) ⟨[], []⟩).recorded = [1, 0] ∧
    (run exClo [(0, true), (1, false)]).recorded = [0, 1] := by
  decide

end Imports

end XsVerif.Props.C09
