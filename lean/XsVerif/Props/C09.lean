/-
  C09 — a schema means the same however its declarations are ordered, split or stored.
  ONLY property theorems and non-vacuity examples live here (model: Model/Staged.lean, helper
  lemmas: Lemmas/Staged.lean).

  Reading of the property in the model.  A schema arrangement (one document, permuted, or split into
  included documents) is flattened by the loader into ONE list of staged declarations
  `(name, (elem, schema), looked-up names)`; permuting / splitting gives a permutation of that list.
  `buildDecls` = `GlobalMaps.load` followed by the on-demand, memoised, circularity-marked build
  (`StagedMap.build/_build_global/__getitem__`).  The built global components are the `store`.
  Circular definitions are excluded by hypothesis (`Acyclic`): there the *location* of the reported
  error legitimately depends on which member of the cycle is built first; `no_circularity_partial`
  and the examples at the end show what the model does on them.
-/
import XsVerif.Lemmas.Staged

namespace XsVerif.Props.C09
open XsVerif.Staged

/-! ### S: the denotation of an acyclic declaration table -/

/-- S.  `denote` is characterised by the recursive equation of the table alone: a component is its
    declaration applied to the denotations of the names it refers to.  No order, no fuel, no state. -/
theorem denote_spec {g : Name → Option Decl} {rank : Name → Nat} (hac : Acyclic g rank) (q : Name) :
    denote g rank q = match g q with
      | none => .missing q
      | some d => .ok q d.id (d.deps.map (denote g rank)) :=
  denote_unfold hac q

/-! ### forward references never change the outcome -/

/-- One on-demand lookup (`maps.types[q]` at any moment of a build, with any set of other components
    already built and any enclosing builds in progress that `q` does not lead back to) returns the
    denotation of `q`, for EVERY acyclic dependency graph: forward, backward, nested references. -/
theorem lookup_denotes {g : Name → Option Decl} {rank : Name → Nat} (hac : Acyclic g rank)
    (n : Nat) (s : State) (q : Name) (hs : Inv g rank s) (hn : rank q < n)
    (hm : ∀ m, s.marked m = true → rank q < rank m) :
    (lookup n s q).2 = denote g rank q :=
  (lookup_post hac n s q hs hn hm).res

/-- The staged build produces exactly the denotation, whatever list of names drives it (any order,
    with repetitions, as long as every staged name occurs), after any on-demand lookups. -/
theorem build_is_denotation {g : Name → Option Decl} {rank : Name → Nat} (hac : Acyclic g rank)
    (n : Nat) (hn : ∀ q, rank q < n) (pre : Name → Bool)
    (hpre : ∀ q d, pre q = true → g q = some d → d.deps = [])
    (early order : List Name) (hcov : ∀ q d, g q = some d → pre q = false → q ∈ order) (q : Name) :
    (buildAll n (lookups n (initState pre g) early) order).store q
      = (g q).map (fun _ => denote g rank q) := by
  have h0 := initState_inv hac pre hpre
  obtain ⟨h1, h2⟩ := lookups_inv hac n hn early (initState pre g) h0 (fun _ => rfl)
  apply buildAll_store hac n hn _ h1 h2 order
  intro x d hx
  -- a name staged after the early lookups was staged initially
  have hg := h1.staged x d hx
  apply hcov x d hg
  cases hp : pre x with
  | false => rfl
  | true =>
    -- pre-built names are in the store from the start and are never staged again
    exfalso
    have := lookups_staging_none x n early (initState pre g) (by simp [initState, hp])
    rw [this] at hx; cases hx

/-- **Order independence of the build.**  Two builds of the same staged declarations driven in two
    different orders (e.g. the insertion orders of two permuted documents) give the same store. -/
theorem build_order_independent {g : Name → Option Decl} {rank : Name → Nat} (hac : Acyclic g rank)
    (n : Nat) (hn : ∀ q, rank q < n) (pre : Name → Bool)
    (hpre : ∀ q d, pre q = true → g q = some d → d.deps = [])
    (e₁ e₂ o₁ o₂ : List Name)
    (h₁ : ∀ q d, g q = some d → pre q = false → q ∈ o₁)
    (h₂ : ∀ q d, g q = some d → pre q = false → q ∈ o₂) (q : Name) :
    (buildAll n (lookups n (initState pre g) e₁) o₁).store q
      = (buildAll n (lookups n (initState pre g) e₂) o₂).store q := by
  rw [build_is_denotation hac n hn pre hpre e₁ o₁ h₁, build_is_denotation hac n hn pre hpre e₂ o₂ h₂]

/-! ### loading: first declaration wins; permutations of distinct names load the same table -/

/-- `GlobalMaps.load` over any list (duplicates included): the staged declaration of a name is its
    FIRST occurrence.  (So with two different declarations of one name the arrangement matters — and
    that is reported: `load_duplicate_reported`.) -/
theorem load_first_wins (l : List (Name × Decl)) (q : Name) :
    table (loadAll l).staged q = l.lookup q := loadAll_lookup l q

theorem load_no_errors_of_nodup (l : List (Name × Decl)) (hnd : (l.map (·.1)).Nodup) :
    (loadAll l).errors = [] := by
  unfold loadAll
  rw [foldl_loadOne_errors l _ hnd (by intro p _; rfl)]

/-- a second, different declaration of a staged name is reported whatever follows -/
theorem load_duplicate_reported (l₁ l₂ : List (Name × Decl)) (q : Name) (d d' : Decl)
    (h : l₁.lookup q = some d) (hne : d.id ≠ d'.id) :
    q ∈ (loadAll (l₁ ++ (q, d') :: l₂)).errors := by
  unfold loadAll
  rw [List.foldl_append, List.foldl_cons]
  have hst : (List.foldl loadOne ⟨[], []⟩ l₁).staged.lookup q = some d := by
    have := loadAll_lookup l₁ q; unfold loadAll at this; rw [this, h]
  have hone := loadOne_dup _ q d d' hst hne
  have grow : ∀ (l : List (Name × Decl)) (st : LState), q ∈ st.errors → q ∈ (l.foldl loadOne st).errors := by
    intro l
    induction l with
    | nil => intro st h; exact h
    | cons p l ih => intro st h; exact ih _ (loadOne_errors_grow st p q h)
  exact grow l₂ _ hone

theorem load_perm_invariant (l₁ l₂ : List (Name × Decl)) (hp : l₁.Perm l₂)
    (hnd : (l₁.map (·.1)).Nodup) (q : Name) :
    table (loadAll l₁).staged q = table (loadAll l₂).staged q ∧
    (loadAll l₁).errors = [] ∧ (loadAll l₂).errors = [] := by
  refine ⟨?_, load_no_errors_of_nodup l₁ hnd,
    load_no_errors_of_nodup l₂ ((hp.map (·.1)).nodup hnd)⟩
  rw [load_first_wins, load_first_wins, perm_lookup hp hnd]

/-- **The property, end to end in the model.**  Two arrangements of the same declarations (a
    permutation of the flattened declaration list: reordered document, declarations moved to
    included documents, includes listed in another order) with pairwise distinct names and no circular
    definition build the same global components — forward references included. -/
theorem arrangement_independent (l₁ l₂ : List (Name × Decl)) (hp : l₁.Perm l₂)
    (hnd : (l₁.map (·.1)).Nodup) (rank : Name → Nat) (hac : Acyclic (table l₁) rank)
    (n : Nat) (hn : ∀ q, rank q < n) (q : Name) :
    (buildDecls n l₁).store q = (buildDecls n l₂).store q := by
  have e1 : table (loadAll l₁).staged = table l₁ := funext (load_first_wins l₁)
  have e2 : table (loadAll l₂).staged = table l₁ := by
    funext x; rw [load_first_wins, ← perm_lookup hp hnd]; rfl
  unfold buildDecls
  simp only [e1, e2]
  have cov : ∀ (l : List (Name × Decl)), table (loadAll l).staged = table l₁ →
      ∀ x d, table l₁ x = some d → (fun _ => false) x = false → x ∈ (loadAll l).staged.map (·.1) := by
    intro l hl x d hx _
    rw [← hl] at hx
    exact lookup_mem_keys hx
  exact build_order_independent hac n hn (fun _ => false) (by intro _ _ h; cases h) [] []
    _ _ (cov l₁ e1) (cov l₂ e2) q

/-! ### circular definitions: always reported; the guard of the theorems above is observable -/

/-- A name that (transitively) depends on itself is reported: looking up a name whose marker is set
    yields `circ` — it is never silently built twice or looped on. -/
theorem marked_lookup_is_circ (n : Nat) (s : State) (q : Name) (d : Decl)
    (h₁ : s.store q = none) (h₂ : s.staging q = some d) (h₃ : s.marked q = true) :
    (lookup (n + 1) s q).2 = .circ q := by
  simp [lookup, h₁, h₂, h₃]

/-- A reference to any name whose build is in progress (a reference that closes a cycle at run time) is
    reported as circular, wherever it stands among the dependencies and whatever else gets built on the
    way: the marker of the pending build cannot be lost. -/
theorem back_edge_reported (n : Nat) (s : State) (x q : Name) (dx dq : Decl)
    (hx₁ : s.store x = none) (hx₂ : s.staging x = some dx) (hx₃ : s.marked x = false)
    (hq₁ : s.store q = none) (hq₂ : s.staging q = some dq) (hq₃ : s.marked q = true)
    (hq : q ∈ dx.deps) :
    ∃ kids, (lookup (n + 2) s x).2 = .ok x dx.id kids ∧ Res.circ q ∈ kids := by
  refine ⟨(foldDeps (lookup (n + 1))
    { s with marked := Staged.set s.marked x true, log := Ev.enter x :: s.log } dx.deps).2, ?_, ?_⟩
  · simp [lookup, hx₁, hx₂, hx₃]
  · have hne : q ≠ x := by intro h; subst h; simp [hq₃] at hx₃
    exact fold_reports q n dq dx.deps _ (by simp [Staged.set, hne, hq₃]) hq₁ hq₂ hq

/-- a declaration that refers to itself is always reported as circular -/
theorem self_reference_reported (n : Nat) (s : State) (q : Name) (d : Decl)
    (h₁ : s.store q = none) (h₂ : s.staging q = some d) (h₃ : s.marked q = false) (hq : q ∈ d.deps) :
    ∃ kids, (lookup (n + 2) s q).2 = .ok q d.id kids ∧ Res.circ q ∈ kids := by
  refine ⟨(foldDeps (lookup (n + 1))
    { s with marked := Staged.set s.marked q true, log := Ev.enter q :: s.log } d.deps).2, ?_, ?_⟩
  · simp [lookup, h₁, h₂, h₃]
  · exact fold_reports q n d d.deps _ (by simp [Staged.set]) h₁ h₂ hq

example : ∃ kids, (lookup 3 (initState (fun _ => false) (table [("t:A", ⟨1, ["t:B", "t:A"]⟩)])) "t:A").2
    = .ok "t:A" 1 kids ∧ Res.circ "t:A" ∈ kids :=
  self_reference_reported 1 _ "t:A" ⟨1, ["t:B", "t:A"]⟩ rfl rfl rfl (by simp)

/-! ### one file, one schema: location spellings -/

/-- normalisation is idempotent -/
theorem normSegs_idempotent (l : List String) : normSegs (normSegs l) = normSegs l := by
  unfold normSegs
  rw [normGo_plain _ (normGo_is_plain l [] (by intro s h; cases h))]
  simp

/-- joining a relative location to a base and normalising = joining it to the normalised base -/
theorem normSegs_join (base loc : List String) :
    normSegs (base ++ loc) = normSegs (normSegs base ++ loc) := by
  unfold normSegs
  rw [normGo_append, normGo_append]
  have : normGo [] (normGo [] base) = normGo [] base := normSegs_idempotent base
  rw [this]

/-- The spellings of the quantifier denote the same key: relative `f`, dotted `./f`, `x/../f`,
    and the absolute path (also the path of the `file:` URL), for every directory and file name. -/
theorem spellings_same_key (dir : List String) (f x : String) (hd : ∀ s ∈ dir, Plain s)
    (hf : Plain f) (hx : Plain x) (other : List String) :
    resolve dir false [f] = dir ++ [f] ∧
    resolve dir false [".", f] = dir ++ [f] ∧
    resolve dir false [x, "..", f] = dir ++ [f] ∧
    resolve other true (dir ++ [f]) = dir ++ [f] := by
  unfold Plain at hf hx
  have hdf : ∀ s ∈ dir ++ [f], Plain s := by
    intro s hs
    rcases List.mem_append.mp hs with h | h
    · exact hd s h
    · simp only [List.mem_singleton] at h; subst h; exact hf
  have base : normGo [] dir = dir := by rw [normGo_plain dir hd]; simp
  refine ⟨?_, ?_, ?_, ?_⟩
  · simp only [resolve, Bool.false_eq_true, ↓reduceIte, normSegs]; rw [normGo_plain _ hdf]; simp
  · simp only [resolve, Bool.false_eq_true, ↓reduceIte, normSegs]
    rw [normGo_append, base]
    simp [normGo, hf.1, hf.2.1, hf.2.2]
  · simp only [resolve, Bool.false_eq_true, ↓reduceIte, normSegs]
    rw [normGo_append, base]
    simp [normGo, hf.1, hf.2.1, hf.2.2, hx.1, hx.2.1, hx.2.2]
  · simp only [resolve, ↓reduceIte, normSegs]; rw [normGo_plain _ hdf]; simp

/-- However often and in whatever spelling a document is included, it is registered at most once. -/
theorem include_once (docs : List Doc) (n : Nat) (root : List String) :
    (includeGo docs n [] [root]).Nodup :=
  includeGo_nodup docs n [] [root] List.nodup_nil

/-! ### non-vacuity -/

/-- a table with forward references: element root → type R → base B, group G; R declared before B -/
def exDecls : List (Name × Decl) :=
  [("e:root", ⟨1, ["t:R"]⟩), ("t:R", ⟨2, ["t:B", "g:G", "t:xs:int"]⟩), ("g:G", ⟨3, []⟩), ("t:B", ⟨4, ["t:S"]⟩),
   ("t:S", ⟨5, []⟩)]

def exRank : Name → Nat := fun q =>
  if q = "e:root" then 4 else if q = "t:R" then 3 else if q = "t:B" then 2 else if q = "t:S" then 1
  else if q = "g:G" then 1 else 0

example : Acyclic (table exDecls) exRank := by
  intro q d h x hx
  simp only [table, exDecls, List.lookup_cons, List.lookup_nil] at h
  repeat' split at h
  all_goals (first | cases h | skip)
  all_goals simp_all [exRank]
  all_goals (rcases hx with rfl | rfl | rfl <;> decide)

example : (exDecls.map (·.1)).Nodup := by decide
example : exDecls.reverse.Perm exDecls := List.reverse_perm _

/-- the model really builds R's base on demand (forward reference) and memoises it -/
example : ((buildDecls 6 exDecls).log.reverse.take 6) =
    [.enter "e:root", .enter "t:R", .enter "t:B", .enter "t:S", .exit "t:S", .exit "t:B"] := by decide

/-- circular definitions: the error lands on a different member of the cycle depending on the order
    (this is why they are excluded by hypothesis) -/
def cyc₁ : List (Name × Decl) := [("t:A", ⟨1, ["t:B"]⟩), ("t:B", ⟨2, ["t:A"]⟩)]
def cyc₂ : List (Name × Decl) := [("t:B", ⟨2, ["t:A"]⟩), ("t:A", ⟨1, ["t:B"]⟩)]

def kidsOf : Option Res → List String
  | some (.ok _ _ kids) => kids.map fun
      | .ok n _ _ => "ok " ++ n | .missing n => "missing " ++ n | .circ n => "circ " ++ n | .fuel => "fuel"
  | _ => []

theorem cyclic_order_dependent_counterexample :
    kidsOf ((buildDecls 3 cyc₁).store "t:B") = ["circ t:A"] ∧
    kidsOf ((buildDecls 3 cyc₂).store "t:B") = ["ok t:A"] := by decide

example : normSegs ["tmp", "d", "sub", "..", ".", "p1.xsd"] = ["tmp", "d", "p1.xsd"] := by decide
example : Plain "p1.xsd" := by unfold Plain; decide

end XsVerif.Props.C09
