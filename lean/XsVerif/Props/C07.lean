/-
  C07 — dynamic typing, substitution and nil obey derivation, block and abstract rules.
  ONLY the specification, the property theorems (+ the lemmas that mention the specification) and
  non-vacuity examples live here.  Model: XsVerif/Model/Derivation.lean.

  Scope of the theorems: hierarchies of complex types with complex content (`ComplexOnly`), numbered
  base-before-derived (`WellOrdered`), declared type other than xs:anyType.  Simple types and
  simple-content types are in the model and in the correspondence run, and have the two small
  theorems at the end (`simple_*`).
-/
import XsVerif.Model.Derivation
namespace XsVerif.Props.C07
open XsVerif.Derivation

/-- S: `Chain h t u ms` — following base-type links from `t` reaches `u`; `ms` lists the
    derivation methods of the steps (first step first). -/
inductive Chain (h : Hier) : Nat → Nat → List (Option Meth) → Prop
  | refl (t : Nat) : t < h.length → Chain h t t []
  | step {t b u : Nat} {ms : List (Option Meth)} {T : TDef} :
      h[t]? = some T → T.base = some b → Chain h b u ms → Chain h t u (T.deriv :: ms)

/-- every base type precedes the types derived from it (what the harness guarantees by numbering) -/
def WellOrdered (h : Hier) : Prop :=
  ∀ (i : Nat) (T : TDef), h[i]? = some T → ∀ b : Nat, T.base = some b → b < i

/-- hierarchy of complex types with complex content only -/
def ComplexOnly (h : Hier) : Prop := ∀ T ∈ h, T.complex = true ∧ T.simpleContent = false ∧ T.isUnion = false

theorem chain_le {h : Hier} (wo : WellOrdered h) {t u ms} (c : Chain h t u ms) : u ≤ t := by
  induction c with
  | refl t _ => exact Nat.le_refl _
  | step hT hb _ ih => have := wo _ _ hT _ hb; omega

theorem chain_self {h : Hier} (wo : WellOrdered h) {t ms} (c : Chain h t t ms) : ms = [] := by
  cases c with
  | refl _ _ => rfl
  | step hT hb c' =>
    have h1 := wo _ _ hT _ hb
    have h2 := chain_le wo c'
    omega

/-- result of the complex `is_derived` in terms of the chain (for `t ≠ u`, `u` not xs:anyType) -/
def DerivedSpec (h : Hier) (t u : Nat) (d : Option Meth) : Prop :=
  match d with
  | none => ∃ ms, Chain h t u ms
  | some m => ∃ ms, Chain h t u ms ∧ some m ∈ ms

theorem isDerived_complex (q : Quirks) (h : Hier) (wo : WellOrdered h) (co : ComplexOnly h) (u : Nat) (U : TDef)
    (hU : h[u]? = some U) (hUa : U.anyType = false) :
    ∀ (n t : Nat), t ≤ n → ∀ (fuel : Nat), t < fuel → ∀ (T : TDef), h[t]? = some T → t ≠ u →
      ∀ d, ∃ r, isDerived q fuel h t u d = some r ∧ (r = true ↔ DerivedSpec h t u d) := by
  have hUu : U.isUnion = false := (co U (List.mem_of_getElem? hU)).2.2
  intro n
  induction n with
  | zero =>
    intro t ht fuel hf T hT hne d
    have ht0 : t = 0 := by omega
    subst ht0
    obtain ⟨fuel, rfl⟩ : ∃ f, fuel = f + 1 := ⟨fuel - 1, by omega⟩
    have hc := co T (List.mem_of_getElem? hT)
    have hbn : T.base = none := by
      cases hb : T.base with
      | none => rfl
      | some b => have := wo _ _ hT _ hb; omega
    have hne' : (0 == u) = false := by simpa using hne
    refine ⟨false, ?_, ?_⟩
    · simp [isDerived, hT, hU, hc.1, hc.2, hne', hUa, hUu, hbn]
    · simp only [Bool.false_eq_true, false_iff]
      cases d with
      | none =>
        rintro ⟨ms, c⟩
        cases c with
        | refl _ _ => exact hne rfl
        | step hT' hb _ => rw [hT] at hT'; cases hT'; rw [hbn] at hb; cases hb
      | some m =>
        rintro ⟨ms, c, -⟩
        cases c with
        | refl _ _ => exact hne rfl
        | step hT' hb _ => rw [hT] at hT'; cases hT'; rw [hbn] at hb; cases hb
  | succ n ih =>
    intro t ht fuel hf T hT hne d
    obtain ⟨fuel, rfl⟩ : ∃ f, fuel = f + 1 := ⟨fuel - 1, by omega⟩
    have hc := co T (List.mem_of_getElem? hT)
    have hne' : (t == u) = false := by simpa using hne
    cases hb : T.base with
    | none =>
      refine ⟨false, ?_, ?_⟩
      · simp [isDerived, hT, hU, hc.1, hc.2, hne', hUa, hUu, hb]
      · simp only [Bool.false_eq_true, false_iff]
        cases d with
        | none =>
          rintro ⟨ms, c⟩
          cases c with
          | refl _ _ => exact hne rfl
          | step hT' hb' _ => rw [hT] at hT'; cases hT'; rw [hb] at hb'; cases hb'
        | some m =>
          rintro ⟨ms, c, -⟩
          cases c with
          | refl _ _ => exact hne rfl
          | step hT' hb' _ => rw [hT] at hT'; cases hT'; rw [hb] at hb'; cases hb'
    | some b =>
      have hbt : b < t := wo _ _ hT _ hb
      -- every chain from t starts with the step to b
      have hstep : ∀ ms, Chain h t u ms ↔ ∃ ms', ms = T.deriv :: ms' ∧ Chain h b u ms' := by
        intro ms
        constructor
        · intro c
          cases c with
          | refl _ _ => exact absurd rfl hne
          | step hT' hb' c' =>
            rw [hT] at hT'; cases hT'; rw [hb] at hb'; cases hb'
            exact ⟨_, rfl, c'⟩
        · rintro ⟨ms', rfl, c'⟩; exact Chain.step hT hb c'
      by_cases hbu : b = u
      · subst hbu
        refine ⟨(clearC d T.deriv).isNone, ?_, ?_⟩
        · simp [isDerived, hT, hU, hc.1, hne', hUa, hUu, hb]
        · have hbl : b < h.length := by
            have := List.getElem?_eq_some_iff.mp hU; exact this.1
          cases d with
          | none =>
            simp only [clearC, Option.isSome_none, Bool.false_and, Bool.false_eq_true, if_false,
              Option.isNone_none, true_iff, DerivedSpec]
            exact ⟨_, Chain.step hT hb (Chain.refl b hbl)⟩
          | some m =>
            simp only [DerivedSpec]
            constructor
            · intro hr
              refine ⟨[T.deriv], Chain.step hT hb (Chain.refl b hbl), ?_⟩
              unfold clearC at hr
              by_cases hm : some m = T.deriv
              · simp [hm]
              · simp [hm] at hr
            · rintro ⟨ms, c, hm⟩
              obtain ⟨ms', rfl, c'⟩ := (hstep ms).mp c
              have := chain_self wo c'
              subst this
              simp only [List.mem_singleton] at hm
              simp [clearC, hm]
      · have hbu' : (T.base == some u) = false := by simp [hb, hbu]
        obtain ⟨B, hB⟩ : ∃ B, h[b]? = some B := by
          obtain ⟨hl, -⟩ := List.getElem?_eq_some_iff.mp hT
          exact ⟨h[b]'(by omega), List.getElem?_eq_getElem (by omega)⟩
        obtain ⟨r, hr1, hr2⟩ := ih b (by omega) fuel (by omega) B hB hbu (clearC d T.deriv)
        refine ⟨r, ?_, ?_⟩
        · simp only [isDerived, hT, hU, hc.1, hc.2, hne', hUa, hUu, hb, if_true]
          simp only [hb] at hbu'
          simp [hbu', hr1]
        · rw [hr2]
          cases d with
          | none =>
            simp only [clearC, Option.isSome_none, Bool.false_and, Bool.false_eq_true, if_false,
              DerivedSpec]
            constructor
            · rintro ⟨ms', c'⟩; exact ⟨_, Chain.step hT hb c'⟩
            · rintro ⟨ms, c⟩; obtain ⟨ms', -, c'⟩ := (hstep ms).mp c; exact ⟨ms', c'⟩
          | some m =>
            by_cases hm : some m = T.deriv
            · have hcl : clearC (some m) T.deriv = none := by simp [clearC, ← hm]
              rw [hcl]
              simp only [DerivedSpec]
              constructor
              · rintro ⟨ms', c'⟩
                exact ⟨_, Chain.step hT hb c', by rw [hm]; exact List.mem_cons_self ..⟩
              · rintro ⟨ms, c, -⟩; obtain ⟨ms', -, c'⟩ := (hstep ms).mp c; exact ⟨ms', c'⟩
            · have hcl : clearC (some m) T.deriv = some m := by
                have : (some m == T.deriv) = false := by simpa using hm
                simp [clearC, this]
              rw [hcl]
              simp only [DerivedSpec]
              constructor
              · rintro ⟨ms', c', hm'⟩
                exact ⟨_, Chain.step hT hb c', List.mem_cons_of_mem _ hm'⟩
              · rintro ⟨ms, c, hm'⟩
                obtain ⟨ms', rfl, c'⟩ := (hstep ms).mp c
                rcases List.mem_cons.mp hm' with h1 | h1
                · exact absurd h1 hm
                · exact ⟨ms', c', h1⟩


/-- **C07, derivation (complex types).**  With every base type numbered before its derived types
    and enough fuel, `is_derived(other)` holds exactly when `other` is reachable through base-type
    links; `is_derived(other, m)` exactly when moreover a step of the chain has method `m`
    (or trivially when both types are the same object). -/
theorem isDerived_spec (q : Quirks) (h : Hier) (wo : WellOrdered h) (co : ComplexOnly h) (t u : Nat) (T U : TDef)
    (hT : h[t]? = some T) (hU : h[u]? = some U) (hUa : U.anyType = false) (fuel : Nat) (hf : t < fuel) :
    (isDerived q fuel h t u none = some true ↔ ∃ ms, Chain h t u ms) ∧
    (∀ m, isDerived q fuel h t u (some m) = some true ↔ (t = u ∨ ∃ ms, Chain h t u ms ∧ some m ∈ ms)) ∧
    (∀ d, ∃ r, isDerived q fuel h t u d = some r) := by
  by_cases htu : t = u
  · subst htu
    obtain ⟨fuel, rfl⟩ : ∃ f, fuel = f + 1 := ⟨fuel - 1, by omega⟩
    have hc := co T (List.mem_of_getElem? hT)
    have hl : t < h.length := (List.getElem?_eq_some_iff.mp hT).1
    have e : ∀ d, isDerived q (fuel + 1) h t t d = some true := by
      intro d; simp [isDerived, hT, hc.1]
    refine ⟨?_, ?_, fun d => ⟨true, e d⟩⟩
    · simp only [e, true_iff]; exact ⟨[], Chain.refl t hl⟩
    · intro m; simp [e]
  · have key := isDerived_complex q h wo co u U hU hUa t t (Nat.le_refl _) fuel hf T hT htu
    refine ⟨?_, ?_, fun d => ?_⟩
    · obtain ⟨r, h1, h2⟩ := key none
      rw [h1]; simp only [Option.some.injEq]; exact h2
    · intro m
      obtain ⟨r, h1, h2⟩ := key (some m)
      rw [h1]; simp only [Option.some.injEq, htu, false_or]; exact h2
    · obtain ⟨r, h1, -⟩ := key d; exact ⟨r, h1⟩

theorem foldr_any (f : Meth → Option Bool) (l : List Meth) (hf : ∀ m ∈ l, ∃ r, f m = some r) :
    ∃ r, l.foldr (fun m acc =>
        match f m, acc with
        | some true, _ => some true
        | some false, a => a
        | none, _ => none) (some false) = some r ∧ (r = true ↔ ∃ m ∈ l, f m = some true) := by
  induction l with
  | nil => exact ⟨false, rfl, by simp⟩
  | cons x t ih =>
    obtain ⟨r, h1, h2⟩ := ih (fun m hm => hf m (List.mem_cons_of_mem _ hm))
    obtain ⟨rx, hx⟩ := hf x (List.mem_cons_self ..)
    simp only [List.foldr_cons, h1, hx]
    cases rx with
    | true => exact ⟨true, rfl, by simp [hx]⟩
    | false =>
      refine ⟨r, rfl, ?_⟩
      rw [h2]
      simp [hx]

/-- S: the derivation of `t` from the declared type `D` uses a blocked method. -/
def BlockedSpec (h : Hier) (t : Nat) (blk : List Meth) (declTy : Nat) : Prop :=
  t ≠ declTy ∧ ∃ m ∈ blk, ∃ ms, Chain h t declTy ms ∧ some m ∈ ms

/-- **C07, block.**  `is_blocked` holds exactly when the type differs from the declared type and some
    step of its derivation chain uses a method blocked by the element or by the declared type. -/
theorem isBlocked_spec (q : Quirks) (h : Hier) (wo : WellOrdered h) (co : ComplexOnly h) (t dt : Nat) (T D : TDef)
    (hT : h[t]? = some T) (hD : h[dt]? = some D) (hDa : D.anyType = false) (eb : List Meth)
    (fuel : Nat) (hf : t < fuel) :
    ∃ r, isBlocked q fuel h t eb dt = some r ∧ (r = true ↔ BlockedSpec h t (eb ++ D.block) dt) := by
  unfold isBlocked BlockedSpec
  by_cases htd : t = dt
  · subst htd
    exact ⟨false, by simp, by simp⟩
  · have hne : (t == dt) = false := by simpa using htd
    simp only [hne, Bool.false_eq_true, if_false, hD, hDa, Bool.false_and]
    obtain ⟨-, hs, hdec⟩ := isDerived_spec q h wo co t dt T D hT hD hDa fuel hf
    obtain ⟨r, h1, h2⟩ := foldr_any (fun m => isDerived q fuel h t dt (some m)) (eb ++ D.block)
      (fun m _ => hdec (some m))
    refine ⟨r, h1, ?_⟩
    rw [h2]
    simp only [hs, htd, false_or, ne_eq, not_false_eq_true, true_and]


/-! ## xsi:nil -/

/-- S: the xsi:nil attribute (if any) is acceptable. -/
def NilOk (e : EDecl) (i : Inst) : Prop :=
  ∀ v, i.nil = some v →
    e.nillable = true ∧ (v = "0" ∨ v = "1" ∨ v = "false" ∨ v = "true") ∧
    ((v = "1" ∨ v = "true") → e.fixed = false ∧ i.hasText = false ∧ i.hasChildren = false)

/-- S: the element is nilled. -/
def Nilled (i : Inst) : Prop := i.nil = some "1" ∨ i.nil = some "true"

/-- **C07, nil.**  No nil error is reported exactly when xsi:nil is absent, or the element is
    nillable, the value is a boolean and — for a true value — the element has no fixed value and no
    content; the content is skipped exactly for an accepted true value. -/
theorem nil_checks_iff (e : EDecl) (i : Inst) :
    ((nilStep e i).1 = [] ↔ NilOk e i) ∧ ((nilStep e i).2 = true ↔ (NilOk e i ∧ Nilled i)) := by
  unfold nilStep NilOk Nilled
  cases hn : i.nil with
  | none => simp
  | some v =>
    simp only [Option.some.injEq, forall_eq']
    cases hnl : e.nillable
    · simp
    · simp only [Bool.not_true, Bool.false_eq_true, if_false, true_and]
      by_cases h0 : v = "0"
      · subst h0; simp
      · by_cases hf : v = "false"
        · subst hf; simp
        · by_cases h1 : v = "1"
          · subst h1
            cases e.fixed <;> cases i.hasText <;> cases i.hasChildren <;> simp
          · by_cases ht : v = "true"
            · subst ht
              cases e.fixed <;> cases i.hasText <;> cases i.hasChildren <;> simp
            · simp [h0, hf, h1, ht]

/-! ## xsi:type and the governing type -/

/-- S: the xsi:type attribute is acceptable for element `e` and `g` is the governing type:
    absent → the declared type; otherwise the named type exists, is derived from the declared type
    and no step of the derivation is blocked by the element or the declared type. -/
def Governs (h : Hier) (e : EDecl) (x : XsiAttr) (g : Nat) : Prop :=
  match x with
  | .absent => g = e.ty
  | .unknown => False
  | .named t => g = t ∧ (∃ ms, Chain h t e.ty ms) ∧
      ∀ D, h[e.ty]? = some D → ¬ BlockedSpec h t (e.block ++ D.block) e.ty

theorem chain_valid {h : Hier} {t u ms} (c : Chain h t u ms) : ∃ T, h[t]? = some T := by
  cases c with
  | refl _ hl => exact ⟨_, List.getElem?_eq_getElem hl⟩
  | step hT _ _ => exact ⟨_, hT⟩

theorem instType_complex (q : Quirks) (h : Hier) (fuel t d : Nat) (D : TDef) (hD : h[d]? = some D)
    (hc : D.complex = true) : instType q fuel h t d = isDerived q fuel h t d none := by
  unfold instType
  cases hr : isDerived q fuel h t d none with
  | none => rfl
  | some r => cases r <;> simp [hD, hc]

/-- **C07, xsi:type.**  The xsi:type step reports no error and hands type `g` to the rest of the
    validation exactly when `Governs` holds. -/
theorem xsi_checks_iff (q : Quirks) (h : Hier) (wo : WellOrdered h) (co : ComplexOnly h) (e : EDecl) (D : TDef)
    (hD : h[e.ty]? = some D) (hDa : D.anyType = false) (fuel : Nat) (hf : h.length ≤ fuel)
    (x : XsiAttr) (g : Nat) :
    xsiStep q fuel h e e.ty x = ([], g) ↔ Governs h e x g := by
  unfold xsiStep Governs
  cases x with
  | absent => simp [eq_comm]
  | unknown => simp
  | named t =>
    simp only [instType_complex q h fuel t e.ty D hD (co D (List.mem_of_getElem? hD)).1]
    cases hT : h[t]? with
    | none =>
      have hnone : isDerived q fuel h t e.ty none = none := by
        cases fuel with
        | zero => rfl
        | succ f => simp [isDerived, hT]
      simp only [hnone]
      constructor
      · intro hh; cases hh
      · rintro ⟨-, ⟨ms, c⟩, -⟩
        obtain ⟨T, hT'⟩ := chain_valid c
        rw [hT] at hT'; cases hT'
    | some T =>
      have hl : t < fuel := by
        have := (List.getElem?_eq_some_iff.mp hT).1; omega
      obtain ⟨hs, -, hdec⟩ := isDerived_spec q h wo co t e.ty T D hT hD hDa fuel hl
      obtain ⟨rb, hb1, hb2⟩ := isBlocked_spec q h wo co t e.ty T D hT hD hDa e.block fuel hl
      obtain ⟨r, hr⟩ := hdec none
      cases r with
      | false =>
        have hno : ¬ ∃ ms, Chain h t e.ty ms := by
          rw [← hs, hr]; simp
        simp only [hr]
        constructor
        · intro hh; cases hh
        · rintro ⟨-, hc, -⟩; exact absurd hc hno
      | true =>
        have hyes : ∃ ms, Chain h t e.ty ms := hs.mp hr
        simp only [hr, hb1]
        cases rb with
        | true =>
          have hbl := hb2.mp rfl
          constructor
          · intro hh; cases hh
          · rintro ⟨-, -, hnb⟩; exact absurd hbl (hnb D hD)
        | false =>
          have hnb : ¬ BlockedSpec h t (e.block ++ D.block) e.ty := by
            intro hh; have := hb2.mpr hh; cases this
          simp only [Prod.mk.injEq, true_and]
          constructor
          · intro hh; exact ⟨hh.symm, hyes, fun D' hD' => by rw [hD] at hD'; cases hD'; exact hnb⟩
          · rintro ⟨hg, -, -⟩; exact hg.symm

/-- S: the element instance is valid as far as dynamic typing, nil and content are concerned. -/
def ElementOk (h : Hier) (cs : CSem) (e : EDecl) (i : Inst) : Prop :=
  ∃ g G, Governs h e i.xsi g ∧ h[g]? = some G ∧ G.abstract = false ∧ NilOk e i ∧
    (¬ Nilled i → cs.contentOk g i.variant = true ∧ (e.fixed = true → cs.fixedOk g i.variant = true))

/-- **C07, element level.**  The decision part of `raw_decode` reports no error exactly when the
    xsi:type attribute is acceptable, the governing type (the named type when xsi:type is present)
    is not abstract, xsi:nil is acceptable and — unless nilled — the content is valid for the
    *governing* type and agrees with the fixed value. -/
theorem element_valid_iff (q : Quirks) (h : Hier) (wo : WellOrdered h) (co : ComplexOnly h) (cs : CSem) (e : EDecl)
    (D : TDef) (hD : h[e.ty]? = some D) (hDa : D.anyType = false) (fuel : Nat) (hf : h.length ≤ fuel)
    (i : Inst) :
    elementErrs q fuel h cs e e.ty i = [] ↔ ElementOk h cs e i := by
  have hx := xsi_checks_iff q h wo co e D hD hDa fuel hf i.xsi
  obtain ⟨hn1, hn2⟩ := nil_checks_iff e i
  unfold elementErrs ElementOk
  rcases hxs : xsiStep q fuel h e e.ty i.xsi with ⟨xe, gov⟩
  rcases hns : nilStep e i with ⟨ne, nilled⟩
  rw [hns] at hn1 hn2
  simp only at hn1 hn2
  simp only [List.append_eq_nil_iff]
  constructor
  · rintro ⟨⟨⟨h1, h2⟩, h3⟩, h4⟩
    subst h1
    have hg := (hx gov).mp hxs
    cases hG : h[gov]? with
    | none => simp [hG] at h2
    | some G =>
      simp only [hG] at h2
      have hab : G.abstract = false := by
        cases ha : G.abstract
        · rfl
        · simp [ha] at h2
      refine ⟨gov, G, hg, hG, hab, hn1.mp h3, ?_⟩
      intro hnn
      have hnl : nilled = false := by
        cases hnd : nilled
        · rfl
        · exact absurd (hn2.mp hnd).2 hnn
      simp only [hnl, Bool.false_eq_true, if_false, List.append_eq_nil_iff] at h4
      obtain ⟨h5, h6⟩ := h4
      constructor
      · cases hc : cs.contentOk gov i.variant
        · simp [hc] at h5
        · rfl
      · intro hfx
        cases hfo : cs.fixedOk gov i.variant
        · simp [hfx, hfo] at h6
        · rfl
  · rintro ⟨g, G, hg, hG, hab, hnil, hcont⟩
    have hxg := (hx g).mpr hg
    rw [hxs] at hxg
    simp only [Prod.mk.injEq] at hxg
    obtain ⟨rfl, rfl⟩ := hxg
    refine ⟨⟨⟨rfl, by simp [hG, hab]⟩, hn1.mpr hnil⟩, ?_⟩
    cases hnd : nilled
    · have hnn : ¬ Nilled i := by
        intro hh
        have := hn2.mpr ⟨hnil, hh⟩
        rw [hnd] at this; cases this
      obtain ⟨c1, c2⟩ := hcont hnn
      simp only [Bool.false_eq_true, if_false, c1, if_true, List.nil_append]
      cases hfx : e.fixed
      · simp
      · simp [c2 hfx]
    · simp

/-! ## type alternatives -/

/-- **C07, XSD 1.1 type alternatives.**  The selected type is the type of the first alternative
    whose test holds (an alternative without test always holds), else the declared type. -/
theorem alternatives_first_match (alts : List (Bool × Bool × Nat)) (dflt : Nat) :
    (∀ (k ty : Nat), (∀ j, j < k → ∀ a : Bool × Bool × Nat, alts[j]? = some a → (a.1 = true ∧ a.2.1 = false)) →
        (∃ a : Bool × Bool × Nat, alts[k]? = some a ∧ (a.1 = false ∨ a.2.1 = true) ∧ a.2.2 = ty) →
        selectAlt alts dflt = ty) ∧
    ((∀ a ∈ alts, a.1 = true ∧ a.2.1 = false) → selectAlt alts dflt = dflt) := by
  induction alts with
  | nil =>
    refine ⟨?_, fun _ => rfl⟩
    rintro k ty - ⟨a, ha, -⟩; simp at ha
  | cons x rest ih =>
    obtain ⟨ht, hr, ty0⟩ := x
    constructor
    · intro k ty hprev ⟨a, ha, hok, hty⟩
      cases k with
      | zero =>
        simp only [List.getElem?_cons_zero, Option.some.injEq] at ha
        subst ha
        simp only at hok hty
        unfold selectAlt
        rcases hok with h1 | h1 <;> simp [h1, hty]
      | succ k =>
        have h0 := hprev 0 (by omega) (ht, hr, ty0) (by simp)
        simp only at h0
        unfold selectAlt
        simp only [h0.1, h0.2, Bool.not_true, Bool.or_self, Bool.false_eq_true, if_false]
        apply ih.1 k ty
        · intro j hj a' ha'
          exact hprev (j + 1) (by omega) a' (by simpa using ha')
        · exact ⟨a, by simpa using ha, hok, hty⟩
    · intro hall
      have h0 := hall (ht, hr, ty0) (List.mem_cons_self ..)
      simp only at h0
      unfold selectAlt
      simp only [h0.1, h0.2, Bool.not_true, Bool.or_self, Bool.false_eq_true, if_false]
      exact ih.2 (fun a ha => hall a (List.mem_cons_of_mem _ ha))


/-! ## substitution groups -/

/-- S: `m` is (transitively) in the substitution group of `head`: a path of `substitutionGroup`
    links, none of whose targets blocks substitution. -/
inductive Reach (es : List EDecl) : Nat → Nat → Prop
  | direct {m p : Nat} {M P : EDecl} : es[m]? = some M → M.subst = some p → es[p]? = some P →
      P.blockSubst = false → Reach es m p
  | trans {m p head : Nat} {M P : EDecl} : es[m]? = some M → M.subst = some p → es[p]? = some P →
      P.blockSubst = false → Reach es p head → Reach es m head

/-- heads are numbered before their members -/
def EWellOrdered (es : List EDecl) : Prop :=
  ∀ (i : Nat) (E : EDecl), es[i]? = some E → ∀ p : Nat, E.subst = some p → p < i

theorem reaches_spec (es : List EDecl) (wo : EWellOrdered es) (head : Nat) :
    ∀ (n m : Nat), m ≤ n → ∀ (fuel : Nat), m < fuel → ∀ M, es[m]? = some M →
      ∃ r, reaches fuel es m head = some r ∧ (r = true ↔ Reach es m head) := by
  intro n
  induction n with
  | zero =>
    intro m hm fuel hf M hM
    have : m = 0 := by omega
    subst this
    obtain ⟨fuel, rfl⟩ : ∃ f, fuel = f + 1 := ⟨fuel - 1, by omega⟩
    have hs : M.subst = none := by
      cases hs : M.subst with
      | none => rfl
      | some p => have := wo _ _ hM _ hs; omega
    refine ⟨false, by simp [reaches, hM, hs], ?_⟩
    simp only [Bool.false_eq_true, false_iff]
    intro r
    cases r with
    | direct h1 h2 _ _ => rw [hM] at h1; cases h1; rw [hs] at h2; cases h2
    | trans h1 h2 _ _ _ => rw [hM] at h1; cases h1; rw [hs] at h2; cases h2
  | succ n ih =>
    intro m hm fuel hf M hM
    obtain ⟨fuel, rfl⟩ : ∃ f, fuel = f + 1 := ⟨fuel - 1, by omega⟩
    cases hs : M.subst with
    | none =>
      refine ⟨false, by simp [reaches, hM, hs], ?_⟩
      simp only [Bool.false_eq_true, false_iff]
      intro r
      cases r with
      | direct h1 h2 _ _ => rw [hM] at h1; cases h1; rw [hs] at h2; cases h2
      | trans h1 h2 _ _ _ => rw [hM] at h1; cases h1; rw [hs] at h2; cases h2
    | some p =>
      have hpm : p < m := wo _ _ hM _ hs
      obtain ⟨P, hP⟩ : ∃ P, es[p]? = some P := by
        obtain ⟨hl, -⟩ := List.getElem?_eq_some_iff.mp hM
        exact ⟨es[p]'(by omega), List.getElem?_eq_getElem (by omega)⟩
      cases hb : P.blockSubst with
      | true =>
        refine ⟨false, by simp [reaches, hM, hs, hP, hb], ?_⟩
        simp only [Bool.false_eq_true, false_iff]
        intro r
        cases r with
        | direct h1 h2 h3 h4 =>
          rw [hM] at h1; cases h1; rw [hs] at h2; cases h2; rw [hP] at h3; cases h3
          rw [hb] at h4; cases h4
        | trans h1 h2 h3 h4 _ =>
          rw [hM] at h1; cases h1; rw [hs] at h2; cases h2; rw [hP] at h3; cases h3
          rw [hb] at h4; cases h4
      | false =>
        by_cases hph : p = head
        · subst hph
          exact ⟨true, by simp [reaches, hM, hs, hP, hb], by simp; exact Reach.direct hM hs hP hb⟩
        · have hne : (p == head) = false := by simpa using hph
          obtain ⟨r, h1, h2⟩ := ih p (by omega) fuel (by omega) P hP
          refine ⟨r, by simp [reaches, hM, hs, hP, hb, hne, h1], ?_⟩
          rw [h2]
          constructor
          · intro hr; exact Reach.trans hM hs hP hb hr
          · intro hr
            cases hr with
            | direct h1' h2' _ _ =>
              rw [hM] at h1'; cases h1'; rw [hs] at h2'; cases h2'; exact absurd rfl hph
            | trans h1' h2' _ _ hr' =>
              rw [hM] at h1'; cases h1'; rw [hs] at h2'; cases h2'; exact hr'

/-- S: element `m` may stand in place of `head`. -/
def SubstOk (h : Hier) (es : List EDecl) (head m : Nat) : Prop :=
  ∃ H M D, es[head]? = some H ∧ es[m]? = some M ∧ h[H.ty]? = some D ∧
    Reach es m head ∧ M.abstract = false ∧ H.blockSubst = false ∧
    ¬ BlockedSpec h M.ty (H.block ++ D.block) H.ty

/-- **C07, substitution.**  A member is accepted in place of its head exactly when it is
    (transitively) in the head's substitution group through links that do not block substitution,
    it is not abstract, the head does not block substitution and the derivation of the member's
    type from the head's type uses no method blocked by the head or the head's type. -/
theorem subst_accept_iff (q : Quirks) (h : Hier) (wo : WellOrdered h) (co : ComplexOnly h) (es : List EDecl)
    (ewo : EWellOrdered es) (head m : Nat) (H M : EDecl) (hH : es[head]? = some H)
    (hM : es[m]? = some M) (TM D : TDef) (hTM : h[M.ty]? = some TM) (hD : h[H.ty]? = some D)
    (hDa : D.anyType = false) (fuel : Nat) (hf1 : h.length ≤ fuel) (hf2 : es.length ≤ fuel) :
    substVerdict q fuel h es head m = .accepted ↔ SubstOk h es head m := by
  have hmf : m < fuel := by
    have := (List.getElem?_eq_some_iff.mp hM).1; omega
  have htf : M.ty < fuel := by
    have := (List.getElem?_eq_some_iff.mp hTM).1; omega
  obtain ⟨r, hr1, hr2⟩ := reaches_spec es ewo head m m (Nat.le_refl _) fuel hmf M hM
  obtain ⟨rb, hb1, hb2⟩ := isBlocked_spec q h wo co M.ty H.ty TM D hTM hD hDa H.block fuel htf
  unfold substVerdict SubstOk
  simp only [hH, hM, hr1]
  constructor
  · intro hv
    cases r with
    | false => simp at hv
    | true =>
      simp only at hv
      cases ha : M.abstract with
      | true => simp [ha] at hv
      | false =>
        cases hbs : H.blockSubst with
        | true => simp [ha, hbs] at hv
        | false =>
          simp only [ha, hbs, Bool.false_eq_true, if_false, hb1] at hv
          cases rb with
          | true => simp at hv
          | false =>
            refine ⟨H, M, D, rfl, rfl, hD, hr2.mp rfl, ha, hbs, ?_⟩
            intro hbl; have := hb2.mpr hbl; cases this
  · rintro ⟨H', M', D', e1, e2, e3, hre, ha, hbs, hnb⟩
    cases e1; cases e2
    rw [hD] at e3; cases e3
    have : r = true := hr2.mpr hre
    subst this
    have hrb : rb = false := by
      cases rb with
      | false => rfl
      | true => exact absurd (hb2.mp rfl) hnb
    simp [ha, hbs, hb1, hrb]


/-- **C07, substitution, block declared on the head's TYPE only.**  Even when the head element's own
    block is EMPTY (no method and no 'substitution': absent with an empty blockDefault, or `block=""`
    overriding blockDefault), a member whose type's derivation from the head's type uses a method
    listed in the block of the head's TYPE is not accepted: the blocking set is the union of the two. -/
theorem subst_type_block_alone (q : Quirks) (h : Hier) (wo : WellOrdered h) (co : ComplexOnly h) (es : List EDecl)
    (ewo : EWellOrdered es) (head m : Nat) (H M : EDecl) (hH : es[head]? = some H)
    (hM : es[m]? = some M) (TM D : TDef) (hTM : h[M.ty]? = some TM) (hD : h[H.ty]? = some D)
    (hDa : D.anyType = false) (fuel : Nat) (hf1 : h.length ≤ fuel) (hf2 : es.length ≤ fuel)
    (_hbe : H.block = []) (_hbs : H.blockSubst = false)
    (mth : Meth) (hm : mth ∈ D.block) (ms : List (Option Meth)) (hc : Chain h M.ty H.ty ms)
    (hin : some mth ∈ ms) (hne : M.ty ≠ H.ty) :
    substVerdict q fuel h es head m ≠ .accepted := by
  intro hv
  obtain ⟨H', M', D', e1, e2, e3, _, _, _, hnb⟩ :=
    (subst_accept_iff q h wo co es ewo head m H M hH hM TM D hTM hD hDa fuel hf1 hf2).mp hv
  rw [hH] at e1; cases e1
  rw [hM] at e2; cases e2
  rw [hD] at e3; cases e3
  exact hnb ⟨hne, mth, List.mem_append.mpr (Or.inr hm), ms, hc, hin⟩

/-- With an empty head block the verdict is decided by the block of the head's type alone. -/
theorem subst_accept_empty_head_block (q : Quirks) (h : Hier) (wo : WellOrdered h) (co : ComplexOnly h)
    (es : List EDecl) (ewo : EWellOrdered es) (head m : Nat) (H M : EDecl) (hH : es[head]? = some H)
    (hM : es[m]? = some M) (TM D : TDef) (hTM : h[M.ty]? = some TM) (hD : h[H.ty]? = some D)
    (hDa : D.anyType = false) (fuel : Nat) (hf1 : h.length ≤ fuel) (hf2 : es.length ≤ fuel)
    (hbe : H.block = []) (hbs : H.blockSubst = false) :
    substVerdict q fuel h es head m = .accepted ↔
      (Reach es m head ∧ M.abstract = false ∧ ¬ BlockedSpec h M.ty D.block H.ty) := by
  rw [subst_accept_iff q h wo co es ewo head m H M hH hM TM D hTM hD hDa fuel hf1 hf2]
  constructor
  · rintro ⟨H', M', D', e1, e2, e3, hre, ha, _, hnb⟩
    rw [hH] at e1; cases e1
    rw [hM] at e2; cases e2
    rw [hD] at e3; cases e3
    rw [hbe, List.nil_append] at hnb
    exact ⟨hre, ha, hnb⟩
  · rintro ⟨hre, ha, hnb⟩
    refine ⟨H, M, D, hH, hM, hD, hre, ha, hbs, ?_⟩
    rw [hbe, List.nil_append]; exact hnb


/-! ## simple types (what the simple variant of `is_derived` does with a `derivation` argument) -/

/-- A simple type defined by restriction is never derived "by extension" from another type: the
    simple variant answers `False` at the first step whose method differs from the requested one
    (simple_types.py:413-417), so `block="extension"` can never block a simple type. -/
theorem simple_not_derived_by_extension (q : Quirks) (h : Hier) (t u : Nat) (T U : TDef) (hT : h[t]? = some T)
    (hU : h[u]? = some U) (hs : T.complex = false) (hl : T.isList = false) (hd : T.deriv = some .restr) (fuel : Nat) :
    isDerived q (fuel + 1) h t u (some .ext) = some false := by
  simp [isDerived, hT, hU, hs, hl, clearS, hd]

/-- For a simple restriction, asking for `restriction` is the same as asking for plain derivation. -/
theorem simple_restr_eq_plain (q : Quirks) (h : Hier) (t u : Nat) (T U : TDef) (hT : h[t]? = some T)
    (hU : h[u]? = some U) (hs : T.complex = false) (hl : T.isList = false) (hd : T.deriv = some .restr) (fuel : Nat) :
    isDerived q (fuel + 1) h t u (some .restr) = isDerived q (fuel + 1) h t u none := by
  simp [isDerived, hT, hU, hs, hl, clearS, hd]


/-! ## substitution combined with xsi:type -/

theorem foldr_head (f : Meth → Option Bool) (l : List Meth) (hf : ∀ m ∈ l, ∃ r, f m = some r) :
    (l.foldr (fun m acc =>
        match f m, acc with
        | some true, _ => [Err.headBlocked]
        | some false, a => a
        | none, _ => [Err.fuel]) [] = [] ↔ ∀ m ∈ l, f m = some false) := by
  induction l with
  | nil => simp
  | cons x t ih =>
    obtain ⟨rx, hx⟩ := hf x (List.mem_cons_self ..)
    have ih' := ih (fun m hm => hf m (List.mem_cons_of_mem _ hm))
    simp only [List.foldr_cons, hx]
    cases rx with
    | true => simp [hx]
    | false => simp [hx, ih']

/-- S: what the head element's own block says about the xsi:type of a substitute. -/
def HeadAllows (h : Hier) (H : EDecl) (x : XsiAttr) : Prop :=
  match x with
  | .named t => t = H.ty ∨ ∀ m ∈ H.block, ¬ ∃ ms, Chain h t H.ty ms ∧ some m ∈ ms
  | _ => True

/-- S: the xsi:type of a substitute names an existing type derived from the MEMBER's declared type. -/
def XsiDerives (h : Hier) (M : EDecl) (x : XsiAttr) : Prop :=
  match x with
  | .absent => True
  | .unknown => False
  | .named t => ∃ ms, Chain h t M.ty ms

/-- **C07, substitution combined with xsi:type (dynamic context).**  `check_dynamic_context` raises
    nothing exactly when the head does not block substitution, no step from the member's declared type
    to the head's type is blocked by the head or the head's type, the xsi:type (if any) is derived from
    the MEMBER's declared type, and no step from the xsi type to the head's type uses a method in the
    HEAD ELEMENT's block (the block of the head's type and of intermediate types is not consulted). -/
theorem dynContext_ok_iff (q : Quirks) (h : Hier) (wo : WellOrdered h) (co : ComplexOnly h) (H M : EDecl)
    (TM D : TDef) (hTM : h[M.ty]? = some TM) (hD : h[H.ty]? = some D) (hDa : D.anyType = false)
    (hMa : TM.anyType = false) (fuel : Nat) (hf : h.length ≤ fuel) (x : XsiAttr) :
    dynContextErrs q fuel h H M x = [] ↔
      (H.blockSubst = false ∧ ¬ BlockedSpec h M.ty (H.block ++ D.block) H.ty ∧ XsiDerives h M x ∧
       HeadAllows h H x) := by
  have htf : M.ty < fuel := by
    have := (List.getElem?_eq_some_iff.mp hTM).1; omega
  obtain ⟨rb, hb1, hb2⟩ := isBlocked_spec q h wo co M.ty H.ty TM D hTM hD hDa H.block fuel htf
  unfold dynContextErrs
  cases hbs : H.blockSubst with
  | true => simp
  | false =>
    simp only [Bool.false_eq_true, if_false, hb1, true_and]
    cases rb with
    | true =>
      have := hb2.mp rfl
      simp [this]
    | false =>
      have hnb : ¬ BlockedSpec h M.ty (H.block ++ D.block) H.ty := by
        intro hh; have := hb2.mpr hh; cases this
      simp only [hnb, not_false_eq_true, true_and]
      cases x with
      | absent => simp [XsiDerives, HeadAllows]
      | unknown => simp [XsiDerives]
      | named t =>
        simp only [XsiDerives, HeadAllows]
        rw [instType_complex q h fuel t M.ty TM hTM (co TM (List.mem_of_getElem? hTM)).1]
        cases hT : h[t]? with
        | none =>
          have hnone : isDerived q fuel h t M.ty none = none := by
            cases fuel with
            | zero => rfl
            | succ f => simp [isDerived, hT]
          simp only [hnone]
          constructor
          · intro hh; cases hh
          · rintro ⟨⟨ms, c⟩, -⟩
            obtain ⟨T, hT'⟩ := chain_valid c
            rw [hT] at hT'; cases hT'
        | some T =>
          have hl : t < fuel := by
            have := (List.getElem?_eq_some_iff.mp hT).1; omega
          obtain ⟨hs, -, hdec⟩ := isDerived_spec q h wo co t M.ty T TM hT hTM hMa fuel hl
          obtain ⟨-, hsH, hdecH⟩ := isDerived_spec q h wo co t H.ty T D hT hD hDa fuel hl
          obtain ⟨r, hr⟩ := hdec none
          cases r with
          | false =>
            have hno : ¬ ∃ ms, Chain h t M.ty ms := by rw [← hs, hr]; simp
            simp [hr, hno]
          | true =>
            have hyes : ∃ ms, Chain h t M.ty ms := hs.mp hr
            simp only [hr, hyes, true_and]
            by_cases hth : t = H.ty
            · simp [hth]
            · have hne : (t == H.ty) = false := by simpa using hth
              simp only [hne, Bool.false_eq_true, if_false, hth, false_or]
              refine Iff.trans (foldr_head (fun m => isDerived q fuel h t H.ty (some m)) H.block
                (fun m _ => hdecH (some m))) ?_
              constructor
              · intro hall m hm hex
                have := (hsH m).mpr (Or.inr hex)
                rw [hall m hm] at this; cases this
              · intro hall m hm
                obtain ⟨r', hr'⟩ := hdecH (some m)
                cases r' with
                | false => exact hr'
                | true =>
                  rcases (hsH m).mp hr' with h1 | h1
                  · exact absurd h1 hth
                  · exact absurd h1 (hall m hm)

/-- The verdict of the dynamic context does not depend on the `block` of any type other than the
    head's type, nor on the extension/restriction block of the member element: in particular the
    blocks of INTERMEDIATE types of the derivation chain are ignored by the code. -/
theorem dynContext_ignores_member_block (q : Quirks) (fuel : Nat) (h : Hier) (H M : EDecl) (x : XsiAttr)
    (b : List Meth) :
    dynContextErrs q fuel h H { M with block := b } x = dynContextErrs q fuel h H M x := rfl

/-- **C07, a substitute that carries xsi:type.**  The child is accepted exactly when the member is
    (transitively) in the head's substitution group through non-blocking links and not abstract, the
    head blocks neither substitution nor a step from the member's type to the head's type, the xsi:type
    is derived from the member's type and uses no method of the head element's block on its way to the
    head's type, and the element is valid for the MEMBER's declaration (xsi:type unblocked by the member
    and the member's type, governing type not abstract, nil and content rules). -/
theorem substXsi_accept_iff (q : Quirks) (h : Hier) (wo : WellOrdered h) (co : ComplexOnly h) (cs : CSem)
    (es : List EDecl) (ewo : EWellOrdered es) (head m : Nat) (H M : EDecl) (hH : es[head]? = some H)
    (hM : es[m]? = some M) (TM D : TDef) (hTM : h[M.ty]? = some TM) (hD : h[H.ty]? = some D)
    (hDa : D.anyType = false) (hMa : TM.anyType = false) (fuel : Nat) (hf1 : h.length ≤ fuel)
    (hf2 : es.length ≤ fuel) (i : Inst) :
    substXsiErrs q fuel h cs es head m i = some [] ↔
      (Reach es m head ∧ M.abstract = false ∧ H.blockSubst = false ∧
       ¬ BlockedSpec h M.ty (H.block ++ D.block) H.ty ∧ XsiDerives h M i.xsi ∧ HeadAllows h H i.xsi ∧
       ElementOk h cs M i) := by
  have hmf : m < fuel := by
    have := (List.getElem?_eq_some_iff.mp hM).1; omega
  obtain ⟨r, hr1, hr2⟩ := reaches_spec es ewo head m m (Nat.le_refl _) fuel hmf M hM
  have hdyn := dynContext_ok_iff q h wo co H M TM D hTM hD hDa hMa fuel hf1 i.xsi
  have hel := element_valid_iff q h wo co cs M TM hTM hMa fuel hf1 i
  unfold substXsiErrs
  simp only [hH, hM, hr1]
  cases r with
  | false =>
    have : ¬ Reach es m head := by intro hh; have := hr2.mpr hh; cases this
    simp [this]
  | true =>
    have hre : Reach es m head := hr2.mp rfl
    cases ha : M.abstract with
    | true => simp
    | false =>
      simp only [Bool.false_eq_true, if_false, Option.some.injEq, List.append_eq_nil_iff, hdyn, hel, hre,
        true_and]
      constructor
      · rintro ⟨⟨a, b, c, d⟩, e⟩; exact ⟨a, b, c, d, e⟩
      · rintro ⟨a, b, c, d, e⟩; exact ⟨⟨a, b, c, d⟩, e⟩


/-! ## XSD 1.1 type alternatives with evaluated tests -/

/-- **C07, type alternatives end to end.**  With the tests evaluated over the element's attributes,
    the governing type is the type of the FIRST alternative that has no test or whose test holds;
    the declared type when there is none. -/
theorem selectAltT_first_match (attrs : List (String × String)) (alts : List (Option Test × Nat))
    (dflt : Nat) :
    selectAltT attrs alts dflt = ((alts.find? (altHolds attrs)).map (·.2)).getD dflt := by
  induction alts with
  | nil => rfl
  | cons a rest ih =>
    unfold selectAltT
    cases hh : altHolds attrs a <;> simp [List.find?, hh, ih]

/-- Position form: the alternatives before the selected one all have a test that is false. -/
theorem selectAltT_position (attrs : List (String × String)) (pre : List (Option Test × Nat))
    (a : Option Test × Nat) (post : List (Option Test × Nat)) (dflt : Nat)
    (hpre : ∀ b ∈ pre, altHolds attrs b = false) (ha : altHolds attrs a = true) :
    selectAltT attrs (pre ++ a :: post) dflt = a.2 := by
  induction pre with
  | nil => simp [selectAltT, ha]
  | cons b rest ih =>
    have hb := hpre b (List.mem_cons_self ..)
    simp only [List.cons_append, selectAltT, hb, Bool.false_eq_true, if_false]
    exact ih (fun c hc => hpre c (List.mem_cons_of_mem _ hc))

theorem selectAltT_default (attrs : List (String × String)) (alts : List (Option Test × Nat)) (dflt : Nat)
    (hall : ∀ b ∈ alts, altHolds attrs b = false) : selectAltT attrs alts dflt = dflt := by
  induction alts with
  | nil => rfl
  | cons b rest ih =>
    have hb := hall b (List.mem_cons_self ..)
    simp only [selectAltT, hb, Bool.false_eq_true, if_false]
    exact ih (fun c hc => hall c (List.mem_cons_of_mem _ hc))


/-- **C07, type alternatives with inherited attributes.**  First match again, where an alternative
    applies when its test holds on the own attributes or on the inherited attributes overridden by the
    own ones. -/
theorem selectAltI_first_match (own inh : List (String × String)) (alts : List (Option Test × Nat))
    (dflt : Nat) :
    selectAltI own inh alts dflt = ((alts.find? (altHoldsI own inh)).map (·.2)).getD dflt := by
  induction alts with
  | nil => rfl
  | cons a rest ih =>
    unfold selectAltI
    cases hh : altHoldsI own inh a <;> simp [List.find?, hh, ih]

/-- An alternative naming ANY type (the declared type included) shadows every later alternative. -/
theorem selectAltI_position (own inh : List (String × String)) (pre : List (Option Test × Nat))
    (a : Option Test × Nat) (post : List (Option Test × Nat)) (dflt : Nat)
    (hpre : ∀ b ∈ pre, altHoldsI own inh b = false) (ha : altHoldsI own inh a = true) :
    selectAltI own inh (pre ++ a :: post) dflt = a.2 := by
  induction pre with
  | nil => simp [selectAltI, ha]
  | cons b rest ih =>
    have hb := hpre b (List.mem_cons_self ..)
    simp only [List.cons_append, selectAltI, hb, Bool.false_eq_true, if_false]
    exact ih (fun c hc => hpre c (List.mem_cons_of_mem _ hc))

/-- Without inherited attributes the two selections coincide. -/
theorem selectAltI_no_inherited (own : List (String × String)) (alts : List (Option Test × Nat))
    (dflt : Nat) : selectAltI own [] alts dflt = selectAltT own alts dflt := by
  induction alts with
  | nil => rfl
  | cons a rest ih => simp [selectAltI, selectAltT, altHoldsI, ih]

/-- An own attribute overrides an inherited one of the same name. -/
theorem attrVal_own_overrides (own inh : List (String × String)) (a w : String)
    (ho : attrVal own a = some w) : attrVal (own ++ inh) a = some w := by
  induction own with
  | nil => simp [attrVal] at ho
  | cons p rest ih =>
    obtain ⟨k, v⟩ := p
    simp only [List.cons_append, attrVal] at ho ⊢
    by_cases hk : (k == a) = true
    · simp [hk] at ho ⊢; exact ho
    · simp [hk] at ho ⊢; exact ih ho

/-- A missing attribute makes `=` AND `!=` false (general comparison with the empty sequence), so
    `not(@a = 'v')` holds while `@a != 'v'` does not. -/
theorem evalTest_missing (attrs : List (String × String)) (a v : String) (hm : attrVal attrs a = none) :
    evalTest attrs (.eq a v) = false ∧ evalTest attrs (.ne a v) = false ∧
    evalTest attrs (.has a) = false ∧ evalTest attrs (.not (.eq a v)) = true := by
  simp [evalTest, hm]

/-- For a present attribute `!=` is the negation of `=`. -/
theorem evalTest_present (attrs : List (String × String)) (a v w : String) (hp : attrVal attrs a = some w) :
    evalTest attrs (.ne a v) = !evalTest attrs (.eq a v) ∧ evalTest attrs (.has a) = true ∧
    (evalTest attrs (.eq a v) = true ↔ w = v) := by
  simp [evalTest, hp, bne]

/-! ## union members (get_instance_type) -/

/-- **C07, xsi:type naming a member of a union.**  `get_instance_type` accepts the named type exactly
    when it is derived from the declared type, or the declared type is a simple union-like type without
    facets and the named type is a DIRECT member of that union (of the union that is the primitive type
    of a facet-less restriction). -/
theorem instType_spec (q : Quirks) (fuel : Nat) (h : Hier) (t d : Nat) (D : TDef) (hD : h[d]? = some D)
    (r : Bool) (hr : isDerived q fuel h t d none = some r) :
    instType q fuel h t d = some true ↔
      (r = true ∨ (D.complex = false ∧ D.unionLike = true ∧ D.facets = false ∧
        ((∃ p P, D.primUnion = some p ∧ h[p]? = some P ∧ t ∈ P.members) ∨
         (D.primUnion = none ∧ D.isUnion = true ∧ t ∈ D.members)))) := by
  unfold instType
  rw [hr]
  cases r with
  | true => simp
  | false =>
    simp only [hD, Bool.false_eq_true, false_or]
    cases hc : D.complex <;> cases hu : D.unionLike <;> cases hf : D.facets <;> simp
    cases hp : D.primUnion with
    | none => cases hi : D.isUnion <;> simp
    | some p =>
      cases hP : h[p]? with
      | none => simp [hP]
      | some P => simp [hP]

/-! ## simple receivers and the requested derivation mode (repaired behaviour) -/

/-- A simple (non-list) type is never derived by extension: with the repair of C07-F4 this holds for
    builtin types, unions and their restrictions too (whatever `derivation` they carry). -/
theorem simple_never_by_extension (h : Hier) (t u : Nat) (T U : TDef) (hT : h[t]? = some T)
    (hU : h[u]? = some U) (hs : T.complex = false) (hl : T.isList = false) (hd : T.deriv ≠ some .ext)
    (fuel : Nat) : isDerived .repaired (fuel + 1) h t u (some .ext) = some false := by
  have : (some Meth.ext == T.deriv) = false := by
    cases hx : T.deriv with
    | none => rfl
    | some m => cases m <;> simp_all
  simp [isDerived, hT, hU, hs, hl, clearS, this, Quirks.repaired]

theorem list_never_by_extension (h : Hier) (t u : Nat) (T U : TDef) (hT : h[t]? = some T)
    (hU : h[u]? = some U) (hs : T.complex = false) (hl : T.isList = true) (hd : T.deriv = none)
    (fuel : Nat) : isDerived .repaired (fuel + 1) h t u (some .ext) = some false := by
  simp [isDerived, hT, hU, hs, hl, hd, clearC, Quirks.repaired]

/-- Hence `block="extension"` alone never blocks a simple type (repaired behaviour). -/
theorem simple_not_blocked_by_extension (h : Hier) (t dt : Nat) (T D : TDef) (hT : h[t]? = some T)
    (hD : h[dt]? = some D) (hs : T.complex = false) (hl : T.isList = false) (hd : T.deriv ≠ some .ext)
    (hDb : ∀ m ∈ D.block, m = .ext) (eb : List Meth) (heb : ∀ m ∈ eb, m = .ext) (fuel : Nat) :
    isBlocked .repaired (fuel + 1) h t eb dt = some false := by
  unfold isBlocked
  by_cases htd : t = dt
  · simp [htd]
  · have hne : (t == dt) = false := by simpa using htd
    simp only [hne, Bool.false_eq_true, if_false, hD, hT]
    by_cases hc : (D.anyType && T.anyType) = true
    · simp [hc]
    simp only [hc, if_false]
    have hall : ∀ m ∈ eb ++ D.block, m = .ext := by
      intro m hm
      rcases List.mem_append.mp hm with h1 | h1
      · exact heb m h1
      · exact hDb m h1
    generalize eb ++ D.block = l at hall
    induction l with
    | nil => rfl
    | cons x rest ih =>
      have hx := hall x (List.mem_cons_self ..)
      subst hx
      simp only [List.foldr_cons, simple_never_by_extension h t dt T D hT hD hs hl hd fuel]
      exact ih (fun m hm => hall m (List.mem_cons_of_mem _ hm))

/-! ## the behaviours recorded as findings: pinned vs repaired, on the witnesses that the harness
    replays on the real code (kinds family: SC1/S0, L0/S0, U2/U0, xs:int/xs:integer, C2/xs:anyType) -/
namespace Witness
/-- 0 = S0 (simple restriction), 1 = SC0 = extension of S0, 2 = SC1 = extension of SC0 -/
def f1 : Hier :=
  [ { complex := false, deriv := some .restr },
    { base := some 0, deriv := some .ext, simpleContent := true, content := some 0 },
    { base := some 1, deriv := some .ext, simpleContent := true, content := some 0 } ]
/-- C07-F1: full statement "SC1 is derived from S0 by restriction ⇔ a restriction step is on the chain"
    is false for the pinned code (only extension steps), true for the repaired one. -/
theorem f1_pinned_counterexample : isDerived .pinned 4 f1 2 0 (some .restr) = some true := by decide
theorem f1_repaired : isDerived .repaired 4 f1 2 0 (some .restr) = some false ∧
    isDerived .repaired 4 f1 2 0 (some .ext) = some true ∧ isDerived .repaired 4 f1 2 0 none = some true := by decide
/-- 0 = S0, 1 = L0 = list of S0 -/
def f2 : Hier := [ { complex := false, deriv := some .restr }, { complex := false, isList := true, item := some 0 } ]
theorem f2_pinned_counterexample : instType .pinned 3 f2 1 0 = some true := by decide
theorem f2_repaired : instType .repaired 3 f2 1 0 = some false := by decide
/-- 0 = S0, 1 = U0 = union(S0), 2 = U1 = restriction of U0, 3 = U2 = restriction of U1 -/
def f3 : Hier :=
  [ { complex := false, deriv := some .restr }, { complex := false, isUnion := true, members := [0], unionLike := true },
    { complex := false, base := some 1, deriv := some .restr, unionLike := true, facets := true, primUnion := some 1 },
    { complex := false, base := some 2, deriv := some .restr, unionLike := true, facets := true, primUnion := some 1 } ]
theorem f3_pinned_counterexample : instType .pinned 6 f3 3 1 = some false := by decide
theorem f3_repaired : instType .repaired 6 f3 3 1 = some true ∧ instType .repaired 6 f3 0 1 = some true := by decide
/-- 0 = xs:integer, 1 = xs:int (builtin types: `derivation` is None) -/
def f4 : Hier := [ { complex := false, atomicCls := true }, { complex := false, atomicCls := true, base := some 0 } ]
theorem f4_pinned_counterexample : isBlocked .pinned 3 f4 1 [.ext] 0 = some true := by decide
theorem f4_repaired : isBlocked .repaired 3 f4 1 [.ext] 0 = some false ∧
    isBlocked .repaired 3 f4 1 [.restr] 0 = some true := by decide
/-- 0 = xs:anyType, 1 = C0 (root), 2 = C1 = extension of C0, 3 = C2 = restriction of C1 -/
def f5 : Hier :=
  [ { anyType := true }, {}, { base := some 1, deriv := some .ext }, { base := some 2, deriv := some .restr } ]
theorem f5_pinned_counterexample : isBlocked .pinned 5 f5 3 [.ext] 0 = some false := by decide
theorem f5_repaired : isBlocked .repaired 5 f5 3 [.ext] 0 = some true ∧
    isBlocked .repaired 5 f5 1 [.ext] 0 = some false ∧ isBlocked .repaired 5 f5 1 [.restr] 0 = some true := by decide
/-- block on the head's type only: 0 = Base (block extension), 1 = Ext, 2 = Res; head e0 : Base with an
    EMPTY block, members 1 : Ext (blocked), 2 : Res (accepted), 3 : Base (accepted) -/
def tb : Hier := [ { block := [.ext] }, { base := some 0, deriv := some .ext }, { base := some 0, deriv := some .restr } ]
def tbE : List EDecl := [ { ty := 0 }, { ty := 1, subst := some 0 }, { ty := 2, subst := some 0 }, { ty := 0, subst := some 0 } ]
theorem type_block_alone_witness :
    substVerdict .repaired 4 tb tbE 0 1 = .blocked ∧ substVerdict .repaired 4 tb tbE 0 2 = .accepted ∧
    substVerdict .repaired 4 tb tbE 0 3 = .accepted := by decide
end Witness

/-! ## Non-vacuity -/
namespace Demo
/-- 0 = B, 1 = E (extension of B), 2 = R (restriction of E, abstract), 3 = X (unrelated) -/
def hier : Hier :=
  [ {}, { base := some 0, deriv := some .ext }, { base := some 1, deriv := some .restr, abstract := true },
    {} ]
theorem wo : WellOrdered hier := by
  intro i T hT b hb
  match i, hT with
  | 0, hT => simp [hier] at hT; subst hT; simp at hb
  | 1, hT => simp [hier] at hT; subst hT; simp at hb; omega
  | 2, hT => simp [hier] at hT; subst hT; simp at hb; omega
  | 3, hT => simp [hier] at hT; subst hT; simp at hb
  | n + 4, hT => simp [hier] at hT
theorem co : ComplexOnly hier := by
  intro T hT
  simp only [hier, List.mem_cons, List.not_mem_nil, or_false] at hT
  rcases hT with rfl | rfl | rfl | rfl <;> simp
def eB : EDecl := { ty := 0, block := [.restr], nillable := true }
def cs : CSem := { contentOk := fun g v => g == v, fixedOk := fun _ _ => true }

example : Chain hier 2 0 [some .restr, some .ext] :=
  Chain.step (T := hier[2]) rfl rfl (Chain.step (T := hier[1]) rfl rfl (Chain.refl 0 (by decide)))
example : isDerived .pinned 4 hier 2 0 none = some true := by decide
example : isDerived .pinned 4 hier 2 0 (some .ext) = some true := by decide
example : isDerived .pinned 4 hier 3 0 none = some false := by decide
/-- xsi:type = E accepted (extension not blocked), content then validated against E -/
example : elementErrs .pinned 4 hier cs eB 0 { xsi := .named 1, variant := 1 } = [] := by decide
example : elementErrs .pinned 4 hier cs eB 0 { xsi := .named 1, variant := 0 } = [.content] := by decide
/-- xsi:type = R: blocked (restriction step) and abstract -/
example : elementErrs .pinned 4 hier cs eB 0 { xsi := .named 2, variant := 2 } = [.blocked, .abstractType] := by decide
example : elementErrs .pinned 4 hier cs eB 0 { xsi := .named 3, variant := 3 } = [.notDerived, .content] := by decide
example : ElementOk hier cs eB { xsi := .named 1, variant := 1 } :=
  (element_valid_iff .pinned hier wo co cs eB hier[0] rfl rfl 4 (by decide) _).mp (by decide)
example : elementErrs .pinned 4 hier cs eB 0 { nil := some "true", hasText := true } = [.nilNotEmpty] := by decide
example : elementErrs .pinned 4 hier cs eB 0 { nil := some "true", variant := 9 } = [] := by decide
def els : List EDecl := [ { ty := 0, block := [.restr] }, { ty := 1, subst := some 0 }, { ty := 2, subst := some 1 },
                          { ty := 1, subst := some 0, abstract := true } ]
example : substVerdict .pinned 4 hier els 0 1 = .accepted := by decide
example : substVerdict .pinned 4 hier els 0 2 = .blocked := by decide
example : substVerdict .pinned 4 hier els 0 3 = .notSubstitute := by decide
example : selectAlt [(true, false, 5), (true, true, 6), (false, false, 7)] 0 = 6 := by decide
example : selectAltT [("k", "b")] [(some (.eq "k" "a"), 5), (some (.or (.ne "k" "a") (.has "j")), 6), (none, 7)] 0 = 6 := by decide
example : selectAltT [] [(some (.ne "k" "a"), 5), (some (.not (.eq "k" "a")), 6)] 0 = 6 := by decide
example : attrVal [("j", "1")] "k" = none ∧ attrVal [("j", "1"), ("k", "a")] "k" = some "a" := by decide
example : instType .repaired 6 Witness.f3 0 1 = some true := by decide
/-- a substitute (type E) carrying xsi:type: E itself is accepted; R (restriction of E) is refused by the
    head's block="restriction" although the member declaration blocks nothing -/
example : substXsiErrs .pinned 4 hier cs els 0 1 { xsi := .named 1, variant := 1 } = some [] := by decide
example : substXsiErrs .pinned 4 hier cs els 0 1 { xsi := .named 2, variant := 2 } = some [.headBlocked, .abstractType] := by decide
example : substXsiErrs .pinned 4 hier cs els 0 1 { xsi := .named 3, variant := 3 } = some [.notDerived, .notDerived, .content] := by decide
example : dynContextErrs .pinned 4 hier els[0] els[1] (.named 1) = [] := by decide
/-- the declared type (0) named by the first alternative shadows the later one; an inherited k is seen -/
example : selectAltI [("k", "a")] [("j", "1")] [(some (.eq "k" "a"), 0), (some (.has "k"), 6)] 0 = 0 := by decide
example : selectAltI [] [("k", "a")] [(some (.eq "k" "b"), 5), (some (.has "k"), 6)] 0 = 6 := by decide
end Demo

end XsVerif.Props.C07
