/-
  C07 — dynamic typing, substitution and nil obey derivation, block and abstract rules.
  ONLY the specification, the property theorems (+ the lemmas that mention the specification) and
  non-vacuity examples live here.  Model: XsVerif/Model/Derivation.lean.

  Scope of the theorems: hierarchies of complex types with complex content (`ComplexOnly`), numbered
  base-before-derived (`WellOrdered`), declared type other than xs:anyType.  Simple types and
  simple-content types are in the model and in the correspondence run, and have the two small
  theorems at the end (`simple_*`).
-/
import XsVerif.Model.Derivation
namespace XsVerif.Props.C07
open XsVerif.Derivation

/-- S: `Chain h t u ms` — following base-type links from `t` reaches `u`; `ms` lists the
    derivation methods of the steps (first step first). -/
inductive Chain (h : Hier) : Nat → Nat → List (Option Meth) → Prop
  | refl (t : Nat) : t < h.length → Chain h t t []
  | step {t b u : Nat} {ms : List (Option Meth)} {T : TDef} :
      h[t]? = some T → T.base = some b → Chain h b u ms → Chain h t u (T.deriv :: ms)

/-- every base type precedes the types derived from it (what the harness guarantees by numbering) -/
def WellOrdered (h : Hier) : Prop :=
  ∀ (i : Nat) (T : TDef), h[i]? = some T → ∀ b : Nat, T.base = some b → b < i

/-- hierarchy of complex types with complex content only -/
def ComplexOnly (h : Hier) : Prop := ∀ T ∈ h, T.complex = true ∧ T.simpleContent = false ∧ T.isUnion = false

theorem chain_le {h : Hier} (wo : WellOrdered h) {t u ms} (c : Chain h t u ms) : u ≤ t := by
  induction c with
  | refl t _ => exact Nat.le_refl _
  | step hT hb _ ih => have := wo _ _ hT _ hb; omega

theorem chain_self {h : Hier} (wo : WellOrdered h) {t ms} (c : Chain h t t ms) : ms = [] := by
  cases c with
  | refl _ _ => rfl
  | step hT hb c' =>
    have h1 := wo _ _ hT _ hb
    have h2 := chain_le wo c'
    omega

/-- result of the complex `is_derived` in terms of the chain (for `t ≠ u`, `u` not xs:anyType) -/
def DerivedSpec (h : Hier) (t u : Nat) (d : Option Meth) : Prop :=
  match d with
  | none => ∃ ms, Chain h t u ms
  | some m => ∃ ms, Chain h t u ms ∧ some m ∈ ms

theorem isDerived_complex (q : Quirks) (h : Hier) (wo : WellOrdered h) (co : ComplexOnly h) (u : Nat) (U : TDef)
    (hU : h[u]? = some U) (hUa : U.anyType = false) :
    ∀ (n t : Nat), t ≤ n → ∀ (fuel : Nat), t < fuel → ∀ (T : TDef), h[t]? = some T → t ≠ u →
      ∀ d, ∃ r, isDerived q fuel h t u d = some r ∧ (r = true ↔ DerivedSpec h t u d) := by
  have hUu : U.isUnion = false := (co U (List.mem_of_getElem? hU)).2.2
  intro n
  induction n with
  | zero =>
    intro t ht fuel hf T hT hne d
    have ht0 : t = 0 := by omega
    subst ht0
    obtain ⟨fuel, rfl⟩ : ∃ f, fuel = f + 1 := ⟨fuel - 1, by omega⟩
    have hc := co T (List.mem_of_getElem? hT)
    have hbn : T.base = none := by
      cases hb : T.base with
      | none => rfl
      | some b => have := wo _ _ hT _ hb; omega
    have hne' : (0 == u) = false := by simpa using hne
    refine ⟨false, ?_, ?_⟩
    · simp [isDerived, hT, hU, hc.1, hc.2, hne', hUa, hUu, hbn]
    · simp only [Bool.false_eq_true, false_iff]
      cases d with
      | none =>
        rintro ⟨ms, c⟩
        cases c with
        | refl _ _ => exact hne rfl
        | step hT' hb _ => rw [hT] at hT'; cases hT'; rw [hbn] at hb; cases hb
      | some m =>
        rintro ⟨ms, c, -⟩
        cases c with
        | refl _ _ => exact hne rfl
        | step hT' hb _ => rw [hT] at hT'; cases hT'; rw [hbn] at hb; cases hb
  | succ n ih =>
    intro t ht fuel hf T hT hne d
    obtain ⟨fuel, rfl⟩ : ∃ f, fuel = f + 1 := ⟨fuel - 1, by omega⟩
    have hc := co T (List.mem_of_getElem? hT)
    have hne' : (t == u) = false := by simpa using hne
    cases hb : T.base with
    | none =>
      refine ⟨false, ?_, ?_⟩
      · simp [isDerived, hT, hU, hc.1, hc.2, hne', hUa, hUu, hb]
      · simp only [Bool.false_eq_true, false_iff]
        cases d with
        | none =>
          rintro ⟨ms, c⟩
          cases c with
          | refl _ _ => exact hne rfl
          | step hT' hb' _ => rw [hT] at hT'; cases hT'; rw [hb] at hb'; cases hb'
        | some m =>
          rintro ⟨ms, c, -⟩
          cases c with
          | refl _ _ => exact hne rfl
          | step hT' hb' _ => rw [hT] at hT'; cases hT'; rw [hb] at hb'; cases hb'
    | some b =>
      have hbt : b < t := wo _ _ hT _ hb
      -- every chain from t starts with the step to b
      have hstep : ∀ ms, Chain h t u ms ↔ ∃ ms', ms = T.deriv :: ms' ∧ Chain h b u ms' := by
        intro ms
        constructor
        · intro c
          cases c with
          | refl _ _ => exact absurd rfl hne
          | step hT' hb' c' =>
            rw [hT] at hT'; cases hT'; rw [hb] at hb'; cases hb'
            exact ⟨_, rfl, c'⟩
        · rintro ⟨ms', rfl, c'⟩; exact Chain.step hT hb c'
      by_cases hbu : b = u
      · subst hbu
        refine ⟨(clearC d T.deriv).isNone, ?_, ?_⟩
        · simp [isDerived, hT, hU, hc.1, hne', hUa, hUu, hb]
        · have hbl : b < h.length := by
            have := List.getElem?_eq_some_iff.mp hU; exact this.1
          cases d with
          | none =>
            simp only [clearC, Option.isSome_none, Bool.false_and, Bool.false_eq_true, if_false,
              Option.isNone_none, true_iff, DerivedSpec]
            exact ⟨_, Chain.step hT hb (Chain.refl b hbl)⟩
          | some m =>
            simp only [DerivedSpec]
            constructor
            · intro hr
              refine ⟨[T.deriv], Chain.step hT hb (Chain.refl b hbl), ?_⟩
              unfold clearC at hr
              by_cases hm : some m = T.deriv
              · simp [hm]
              · simp [hm] at hr
            · rintro ⟨ms, c, hm⟩
              obtain ⟨ms', rfl, c'⟩ := (hstep ms).mp c
              have := chain_self wo c'
              subst this
              simp only [List.mem_singleton] at hm
              simp [clearC, hm]
      · have hbu' : (T.base == some u) = false := by simp [hb, hbu]
        obtain ⟨B, hB⟩ : ∃ B, h[b]? = some B := by
          obtain ⟨hl, -⟩ := List.getElem?_eq_some_iff.mp hT
          exact ⟨h[b]'(by omega), List.getElem?_eq_getElem (by omega)⟩
        obtain ⟨r, hr1, hr2⟩ := ih b (by omega) fuel (by omega) B hB hbu (clearC d T.deriv)
        refine ⟨r, ?_, ?_⟩
        · simp only [isDerived, hT, hU, hc.1, hc.2, hne', hUa, hUu, hb, if_true]
          simp only [hb] at hbu'
          simp [hbu', hr1]
        · rw [hr2]
          cases d with
          | none =>
            simp only [clearC, Option.isSome_none, Bool.false_and, Bool.false_eq_true, if_false,
              DerivedSpec]
            constructor
            · rintro ⟨ms', c'⟩; exact ⟨_, Chain.step hT hb c'⟩
            · rintro ⟨ms, c⟩; obtain ⟨ms', -, c'⟩ := (hstep ms).mp c; exact ⟨ms', c'⟩
          | some m =>
            by_cases hm : some m = T.deriv
            · have hcl : clearC (some m) T.deriv = none := by simp [clearC, ← hm]
              rw [hcl]
              simp only [DerivedSpec]
              constructor
              · rintro ⟨ms', c'⟩
                exact ⟨_, Chain.step hT hb c', by rw [hm]; exact List.mem_cons_self ..⟩
              · rintro ⟨ms, c, -⟩; obtain ⟨ms', -, c'⟩ := (hstep ms).mp c; exact ⟨ms', c'⟩
            · have hcl : clearC (some m) T.deriv = some m := by
                have : (some m == T.deriv) = false := by simpa using hm
                simp [clearC, this]
              rw [hcl]
              simp only [DerivedSpec]
              constructor
              · rintro ⟨ms', c', hm'⟩
                exact ⟨_, Chain.step hT hb c', List.mem_cons_of_mem _ hm'⟩
              · rintro ⟨ms, c, hm'⟩
                obtain ⟨ms', rfl, c'⟩ := (hstep ms).mp c
                rcases List.mem_cons.mp hm' with h1 | h1
                · exact absurd h1 hm
                · exact ⟨ms', c', h1⟩


/-- **C07, derivation (complex types).**  With every base type numbered before its derived types
    and enough fuel, `is_derived(other)` holds exactly when `other` is reachable through base-type
    links; `is_derived(other, m)` exactly when moreover a step of the chain has method `m`
    (or trivially when both types are the same object). -/
theorem isDerived_spec (q : Quirks) (h : Hier) (wo : WellOrdered h) (co : ComplexOnly h) (t u : Nat) (T U : TDef)
    (hT : h[t]? = some T) (hU : h[u]? = some U) (hUa : U.anyType = false) (fuel : Nat) (hf : t < fuel) :
    (isDerived q fuel h t u none = some true ↔ ∃ ms, Chain h t u ms) ∧
    (∀ m, isDerived q fuel h t u (some m) = some true ↔ (t = u ∨ ∃ ms, Chain h t u ms ∧ some m ∈ ms)) ∧
    (∀ d, ∃ r, isDerived q fuel h t u d = some r) := by
  by_cases htu : t = u
  · subst htu
    obtain ⟨fuel, rfl⟩ : ∃ f, fuel = f + 1 := ⟨fuel - 1, by omega⟩
    have hc := co T (List.mem_of_getElem? hT)
    have hl : t < h.length := (List.getElem?_eq_some_iff.mp hT).1
    have e : ∀ d, isDerived q (fuel + 1) h t t d = some true := by
      intro d; simp [isDerived, hT, hc.1]
    refine ⟨?_, ?_, fun d => ⟨true, e d⟩⟩
    · simp only [e, true_iff]; exact ⟨[], Chain.refl t hl⟩
    · intro m; simp [e]
  · have key := isDerived_complex q h wo co u U hU hUa t t (Nat.le_refl _) fuel hf T hT htu
    refine ⟨?_, ?_, fun d => ?_⟩
    · obtain ⟨r, h1, h2⟩ := key none
      rw [h1]; simp only [Option.some.injEq]; exact h2
    · intro m
      obtain ⟨r, h1, h2⟩ := key (some m)
      rw [h1]; simp only [Option.some.injEq, htu, false_or]; exact h2
    · obtain ⟨r, h1, -⟩ := key d; exact ⟨r, h1⟩

theorem foldr_any (f : Meth → Option Bool) (l : List Meth) (hf : ∀ m ∈ l, ∃ r, f m = some r) :
    ∃ r, l.foldr (fun m acc =>
        match f m, acc with
        | some true, _ => some true
        | some false, a => a
        | none, _ => none) (some false) = some r ∧ (r = true ↔ ∃ m ∈ l, f m = some true) := by
  induction l with
  | nil => exact ⟨false, rfl, by simp⟩
  | cons x t ih =>
    obtain ⟨r, h1, h2⟩ := ih (fun m hm => hf m (List.mem_cons_of_mem _ hm))
    obtain ⟨rx, hx⟩ := hf x (List.mem_cons_self ..)
    simp only [List.foldr_cons, h1, hx]
    cases rx with
    | true => exact ⟨true, rfl, by simp [hx]⟩
    | false =>
      refine ⟨r, rfl, ?_⟩
      rw [h2]
      simp [hx]

/-- S: the derivation of `t` from the declared type `D` uses a blocked method. -/
def BlockedSpec (h : Hier) (t : Nat) (blk : List Meth) (declTy : Nat) : Prop :=
  t ≠ declTy ∧ ∃ m ∈ blk, ∃ ms, Chain h t declTy ms ∧ some m ∈ ms

/-- **C07, block.**  `is_blocked` holds exactly when the type differs from the declared type and some
    step of its derivation chain uses a method blocked by the element or by the declared type. -/
theorem isBlocked_spec (q : Quirks) (h : Hier) (wo : WellOrdered h) (co : ComplexOnly h) (t dt : Nat) (T D : TDef)
    (hT : h[t]? = some T) (hD : h[dt]? = some D) (hDa : D.anyType = false) (eb : List Meth)
    (fuel : Nat) (hf : t < fuel) :
    ∃ r, isBlocked q fuel h t eb dt = some r ∧ (r = true ↔ BlockedSpec h t (eb ++ D.block) dt) := by
  unfold isBlocked BlockedSpec
  by_cases htd : t = dt
  · subst htd
    exact ⟨false, by simp, by simp⟩
  · have hne : (t == dt) = false := by simpa using htd
    simp only [hne, Bool.false_eq_true, if_false, hD]
    obtain ⟨-, hs, hdec⟩ := isDerived_spec q h wo co t dt T D hT hD hDa fuel hf
    obtain ⟨r, h1, h2⟩ := foldr_any (fun m => isDerived q fuel h t dt (some m)) (eb ++ D.block)
      (fun m _ => hdec (some m))
    refine ⟨r, h1, ?_⟩
    rw [h2]
    simp only [hs, htd, false_or, ne_eq, not_false_eq_true, true_and]


/-! ## xsi:nil -/

/-- S: the xsi:nil attribute (if any) is acceptable. -/
def NilOk (e : EDecl) (i : Inst) : Prop :=
  ∀ v, i.nil = some v →
    e.nillable = true ∧ (v = "0" ∨ v = "1" ∨ v = "false" ∨ v = "true") ∧
    ((v = "1" ∨ v = "true") → e.fixed = false ∧ i.hasText = false ∧ i.hasChildren = false)

/-- S: the element is nilled. -/
def Nilled (i : Inst) : Prop := i.nil = some "1" ∨ i.nil = some "true"

/-- **C07, nil.**  No nil error is reported exactly when xsi:nil is absent, or the element is
    nillable, the value is a boolean and — for a true value — the element has no fixed value and no
    content; the content is skipped exactly for an accepted true value. -/
theorem nil_checks_iff (e : EDecl) (i : Inst) :
    ((nilStep e i).1 = [] ↔ NilOk e i) ∧ ((nilStep e i).2 = true ↔ (NilOk e i ∧ Nilled i)) := by
  unfold nilStep NilOk Nilled
  cases hn : i.nil with
  | none => simp
  | some v =>
    simp only [Option.some.injEq, forall_eq']
    cases hnl : e.nillable
    · simp
    · simp only [Bool.not_true, Bool.false_eq_true, if_false, true_and]
      by_cases h0 : v = "0"
      · subst h0; simp
      · by_cases hf : v = "false"
        · subst hf; simp
        · by_cases h1 : v = "1"
          · subst h1
            cases e.fixed <;> cases i.hasText <;> cases i.hasChildren <;> simp
          · by_cases ht : v = "true"
            · subst ht
              cases e.fixed <;> cases i.hasText <;> cases i.hasChildren <;> simp
            · simp [h0, hf, h1, ht]

/-! ## xsi:type and the governing type -/

/-- S: the xsi:type attribute is acceptable for element `e` and `g` is the governing type:
    absent → the declared type; otherwise the named type exists, is derived from the declared type
    and no step of the derivation is blocked by the element or the declared type. -/
def Governs (h : Hier) (e : EDecl) (x : XsiAttr) (g : Nat) : Prop :=
  match x with
  | .absent => g = e.ty
  | .unknown => False
  | .named t => g = t ∧ (∃ ms, Chain h t e.ty ms) ∧
      ∀ D, h[e.ty]? = some D → ¬ BlockedSpec h t (e.block ++ D.block) e.ty

theorem chain_valid {h : Hier} {t u ms} (c : Chain h t u ms) : ∃ T, h[t]? = some T := by
  cases c with
  | refl _ hl => exact ⟨_, List.getElem?_eq_getElem hl⟩
  | step hT _ _ => exact ⟨_, hT⟩

theorem instType_complex (q : Quirks) (h : Hier) (fuel t d : Nat) (D : TDef) (hD : h[d]? = some D)
    (hc : D.complex = true) : instType q fuel h t d = isDerived q fuel h t d none := by
  unfold instType
  cases hr : isDerived q fuel h t d none with
  | none => rfl
  | some r => cases r <;> simp [hD, hc]

/-- **C07, xsi:type.**  The xsi:type step reports no error and hands type `g` to the rest of the
    validation exactly when `Governs` holds. -/
theorem xsi_checks_iff (q : Quirks) (h : Hier) (wo : WellOrdered h) (co : ComplexOnly h) (e : EDecl) (D : TDef)
    (hD : h[e.ty]? = some D) (hDa : D.anyType = false) (fuel : Nat) (hf : h.length ≤ fuel)
    (x : XsiAttr) (g : Nat) :
    xsiStep q fuel h e e.ty x = ([], g) ↔ Governs h e x g := by
  unfold xsiStep Governs
  cases x with
  | absent => simp [eq_comm]
  | unknown => simp
  | named t =>
    simp only [instType_complex q h fuel t e.ty D hD (co D (List.mem_of_getElem? hD)).1]
    cases hT : h[t]? with
    | none =>
      have hnone : isDerived q fuel h t e.ty none = none := by
        cases fuel with
        | zero => rfl
        | succ f => simp [isDerived, hT]
      simp only [hnone]
      constructor
      · intro hh; cases hh
      · rintro ⟨-, ⟨ms, c⟩, -⟩
        obtain ⟨T, hT'⟩ := chain_valid c
        rw [hT] at hT'; cases hT'
    | some T =>
      have hl : t < fuel := by
        have := (List.getElem?_eq_some_iff.mp hT).1; omega
      obtain ⟨hs, -, hdec⟩ := isDerived_spec q h wo co t e.ty T D hT hD hDa fuel hl
      obtain ⟨rb, hb1, hb2⟩ := isBlocked_spec q h wo co t e.ty T D hT hD hDa e.block fuel hl
      obtain ⟨r, hr⟩ := hdec none
      cases r with
      | false =>
        have hno : ¬ ∃ ms, Chain h t e.ty ms := by
          rw [← hs, hr]; simp
        simp only [hr]
        constructor
        · intro hh; cases hh
        · rintro ⟨-, hc, -⟩; exact absurd hc hno
      | true =>
        have hyes : ∃ ms, Chain h t e.ty ms := hs.mp hr
        simp only [hr, hb1]
        cases rb with
        | true =>
          have hbl := hb2.mp rfl
          constructor
          · intro hh; cases hh
          · rintro ⟨-, -, hnb⟩; exact absurd hbl (hnb D hD)
        | false =>
          have hnb : ¬ BlockedSpec h t (e.block ++ D.block) e.ty := by
            intro hh; have := hb2.mpr hh; cases this
          simp only [Prod.mk.injEq, true_and]
          constructor
          · intro hh; exact ⟨hh.symm, hyes, fun D' hD' => by rw [hD] at hD'; cases hD'; exact hnb⟩
          · rintro ⟨hg, -, -⟩; exact hg.symm

/-- S: the element instance is valid as far as dynamic typing, nil and content are concerned. -/
def ElementOk (h : Hier) (cs : CSem) (e : EDecl) (i : Inst) : Prop :=
  ∃ g G, Governs h e i.xsi g ∧ h[g]? = some G ∧ G.abstract = false ∧ NilOk e i ∧
    (¬ Nilled i → cs.contentOk g i.variant = true ∧ (e.fixed = true → cs.fixedOk g i.variant = true))

/-- **C07, element level.**  The decision part of `raw_decode` reports no error exactly when the
    xsi:type attribute is acceptable, the governing type (the named type when xsi:type is present)
    is not abstract, xsi:nil is acceptable and — unless nilled — the content is valid for the
    *governing* type and agrees with the fixed value. -/
theorem element_valid_iff (q : Quirks) (h : Hier) (wo : WellOrdered h) (co : ComplexOnly h) (cs : CSem) (e : EDecl)
    (D : TDef) (hD : h[e.ty]? = some D) (hDa : D.anyType = false) (fuel : Nat) (hf : h.length ≤ fuel)
    (i : Inst) :
    elementErrs q fuel h cs e e.ty i = [] ↔ ElementOk h cs e i := by
  have hx := xsi_checks_iff q h wo co e D hD hDa fuel hf i.xsi
  obtain ⟨hn1, hn2⟩ := nil_checks_iff e i
  unfold elementErrs ElementOk
  rcases hxs : xsiStep q fuel h e e.ty i.xsi with ⟨xe, gov⟩
  rcases hns : nilStep e i with ⟨ne, nilled⟩
  rw [hns] at hn1 hn2
  simp only at hn1 hn2
  simp only [List.append_eq_nil_iff]
  constructor
  · rintro ⟨⟨⟨h1, h2⟩, h3⟩, h4⟩
    subst h1
    have hg := (hx gov).mp hxs
    cases hG : h[gov]? with
    | none => simp [hG] at h2
    | some G =>
      simp only [hG] at h2
      have hab : G.abstract = false := by
        cases ha : G.abstract
        · rfl
        · simp [ha] at h2
      refine ⟨gov, G, hg, hG, hab, hn1.mp h3, ?_⟩
      intro hnn
      have hnl : nilled = false := by
        cases hnd : nilled
        · rfl
        · exact absurd (hn2.mp hnd).2 hnn
      simp only [hnl, Bool.false_eq_true, if_false, List.append_eq_nil_iff] at h4
      obtain ⟨h5, h6⟩ := h4
      constructor
      · cases hc : cs.contentOk gov i.variant
        · simp [hc] at h5
        · rfl
      · intro hfx
        cases hfo : cs.fixedOk gov i.variant
        · simp [hfx, hfo] at h6
        · rfl
  · rintro ⟨g, G, hg, hG, hab, hnil, hcont⟩
    have hxg := (hx g).mpr hg
    rw [hxs] at hxg
    simp only [Prod.mk.injEq] at hxg
    obtain ⟨rfl, rfl⟩ := hxg
    refine ⟨⟨⟨rfl, by simp [hG, hab]⟩, hn1.mpr hnil⟩, ?_⟩
    cases hnd : nilled
    · have hnn : ¬ Nilled i := by
        intro hh
        have := hn2.mpr ⟨hnil, hh⟩
        rw [hnd] at this; cases this
      obtain ⟨c1, c2⟩ := hcont hnn
      simp only [Bool.false_eq_true, if_false, c1, if_true, List.nil_append]
      cases hfx : e.fixed
      · simp
      · simp [c2 hfx]
    · simp

/-! ## type alternatives -/

/-- **C07, XSD 1.1 type alternatives.**  The selected type is the type of the first alternative
    whose test holds (an alternative without test always holds), else the declared type. -/
theorem alternatives_first_match (alts : List (Bool × Bool × Nat)) (dflt : Nat) :
    (∀ (k ty : Nat), (∀ j, j < k → ∀ a : Bool × Bool × Nat, alts[j]? = some a → (a.1 = true ∧ a.2.1 = false)) →
        (∃ a : Bool × Bool × Nat, alts[k]? = some a ∧ (a.1 = false ∨ a.2.1 = true) ∧ a.2.2 = ty) →
        selectAlt alts dflt = ty) ∧
    ((∀ a ∈ alts, a.1 = true ∧ a.2.1 = false) → selectAlt alts dflt = dflt) := by
  induction alts with
  | nil =>
    refine ⟨?_, fun _ => rfl⟩
    rintro k ty - ⟨a, ha, -⟩; simp at ha
  | cons x rest ih =>
    obtain ⟨ht, hr, ty0⟩ := x
    constructor
    · intro k ty hprev ⟨a, ha, hok, hty⟩
      cases k with
      | zero =>
        simp only [List.getElem?_cons_zero, Option.some.injEq] at ha
        subst ha
        simp only at hok hty
        unfold selectAlt
        rcases hok with h1 | h1 <;> simp [h1, hty]
      | succ k =>
        have h0 := hprev 0 (by omega) (ht, hr, ty0) (by simp)
        simp only at h0
        unfold selectAlt
        simp only [h0.1, h0.2, Bool.not_true, Bool.or_self, Bool.false_eq_true, if_false]
        apply ih.1 k ty
        · intro j hj a' ha'
          exact hprev (j + 1) (by omega) a' (by simpa using ha')
        · exact ⟨a, by simpa using ha, hok, hty⟩
    · intro hall
      have h0 := hall (ht, hr, ty0) (List.mem_cons_self ..)
      simp only at h0
      unfold selectAlt
      simp only [h0.1, h0.2, Bool.not_true, Bool.or_self, Bool.false_eq_true, if_false]
      exact ih.2 (fun a ha => hall a (List.mem_cons_of_mem _ ha))


/-! ## substitution groups -/

/-- S: `m` is (transitively) in the substitution group of `head`: a path of `substitutionGroup`
    links, none of whose targets blocks substitution. -/
inductive Reach (es : List EDecl) : Nat → Nat → Prop
  | direct {m p : Nat} {M P : EDecl} : es[m]? = some M → M.subst = some p → es[p]? = some P →
      P.blockSubst = false → Reach es m p
  | trans {m p head : Nat} {M P : EDecl} : es[m]? = some M → M.subst = some p → es[p]? = some P →
      P.blockSubst = false → Reach es p head → Reach es m head

/-- heads are numbered before their members -/
def EWellOrdered (es : List EDecl) : Prop :=
  ∀ (i : Nat) (E : EDecl), es[i]? = some E → ∀ p : Nat, E.subst = some p → p < i

theorem reaches_spec (es : List EDecl) (wo : EWellOrdered es) (head : Nat) :
    ∀ (n m : Nat), m ≤ n → ∀ (fuel : Nat), m < fuel → ∀ M, es[m]? = some M →
      ∃ r, reaches fuel es m head = some r ∧ (r = true ↔ Reach es m head) := by
  intro n
  induction n with
  | zero =>
    intro m hm fuel hf M hM
    have : m = 0 := by omega
    subst this
    obtain ⟨fuel, rfl⟩ : ∃ f, fuel = f + 1 := ⟨fuel - 1, by omega⟩
    have hs : M.subst = none := by
      cases hs : M.subst with
      | none => rfl
      | some p => have := wo _ _ hM _ hs; omega
    refine ⟨false, by simp [reaches, hM, hs], ?_⟩
    simp only [Bool.false_eq_true, false_iff]
    intro r
    cases r with
    | direct h1 h2 _ _ => rw [hM] at h1; cases h1; rw [hs] at h2; cases h2
    | trans h1 h2 _ _ _ => rw [hM] at h1; cases h1; rw [hs] at h2; cases h2
  | succ n ih =>
    intro m hm fuel hf M hM
    obtain ⟨fuel, rfl⟩ : ∃ f, fuel = f + 1 := ⟨fuel - 1, by omega⟩
    cases hs : M.subst with
    | none =>
      refine ⟨false, by simp [reaches, hM, hs], ?_⟩
      simp only [Bool.false_eq_true, false_iff]
      intro r
      cases r with
      | direct h1 h2 _ _ => rw [hM] at h1; cases h1; rw [hs] at h2; cases h2
      | trans h1 h2 _ _ _ => rw [hM] at h1; cases h1; rw [hs] at h2; cases h2
    | some p =>
      have hpm : p < m := wo _ _ hM _ hs
      obtain ⟨P, hP⟩ : ∃ P, es[p]? = some P := by
        obtain ⟨hl, -⟩ := List.getElem?_eq_some_iff.mp hM
        exact ⟨es[p]'(by omega), List.getElem?_eq_getElem (by omega)⟩
      cases hb : P.blockSubst with
      | true =>
        refine ⟨false, by simp [reaches, hM, hs, hP, hb], ?_⟩
        simp only [Bool.false_eq_true, false_iff]
        intro r
        cases r with
        | direct h1 h2 h3 h4 =>
          rw [hM] at h1; cases h1; rw [hs] at h2; cases h2; rw [hP] at h3; cases h3
          rw [hb] at h4; cases h4
        | trans h1 h2 h3 h4 _ =>
          rw [hM] at h1; cases h1; rw [hs] at h2; cases h2; rw [hP] at h3; cases h3
          rw [hb] at h4; cases h4
      | false =>
        by_cases hph : p = head
        · subst hph
          exact ⟨true, by simp [reaches, hM, hs, hP, hb], by simp; exact Reach.direct hM hs hP hb⟩
        · have hne : (p == head) = false := by simpa using hph
          obtain ⟨r, h1, h2⟩ := ih p (by omega) fuel (by omega) P hP
          refine ⟨r, by simp [reaches, hM, hs, hP, hb, hne, h1], ?_⟩
          rw [h2]
          constructor
          · intro hr; exact Reach.trans hM hs hP hb hr
          · intro hr
            cases hr with
            | direct h1' h2' _ _ =>
              rw [hM] at h1'; cases h1'; rw [hs] at h2'; cases h2'; exact absurd rfl hph
            | trans h1' h2' _ _ hr' =>
              rw [hM] at h1'; cases h1'; rw [hs] at h2'; cases h2'; exact hr'

/-- S: element `m` may stand in place of `head`. -/
def SubstOk (h : Hier) (es : List EDecl) (head m : Nat) : Prop :=
  ∃ H M D, es[head]? = some H ∧ es[m]? = some M ∧ h[H.ty]? = some D ∧
    Reach es m head ∧ M.abstract = false ∧ H.blockSubst = false ∧
    ¬ BlockedSpec h M.ty (H.block ++ D.block) H.ty

/-- **C07, substitution.**  A member is accepted in place of its head exactly when it is
    (transitively) in the head's substitution group through links that do not block substitution,
    it is not abstract, the head does not block substitution and the derivation of the member's
    type from the head's type uses no method blocked by the head or the head's type. -/
theorem subst_accept_iff (q : Quirks) (h : Hier) (wo : WellOrdered h) (co : ComplexOnly h) (es : List EDecl)
    (ewo : EWellOrdered es) (head m : Nat) (H M : EDecl) (hH : es[head]? = some H)
    (hM : es[m]? = some M) (TM D : TDef) (hTM : h[M.ty]? = some TM) (hD : h[H.ty]? = some D)
    (hDa : D.anyType = false) (fuel : Nat) (hf1 : h.length ≤ fuel) (hf2 : es.length ≤ fuel) :
    substVerdict q fuel h es head m = .accepted ↔ SubstOk h es head m := by
  have hmf : m < fuel := by
    have := (List.getElem?_eq_some_iff.mp hM).1; omega
  have htf : M.ty < fuel := by
    have := (List.getElem?_eq_some_iff.mp hTM).1; omega
  obtain ⟨r, hr1, hr2⟩ := reaches_spec es ewo head m m (Nat.le_refl _) fuel hmf M hM
  obtain ⟨rb, hb1, hb2⟩ := isBlocked_spec q h wo co M.ty H.ty TM D hTM hD hDa H.block fuel htf
  unfold substVerdict SubstOk
  simp only [hH, hM, hr1]
  constructor
  · intro hv
    cases r with
    | false => simp at hv
    | true =>
      simp only at hv
      cases ha : M.abstract with
      | true => simp [ha] at hv
      | false =>
        cases hbs : H.blockSubst with
        | true => simp [ha, hbs] at hv
        | false =>
          simp only [ha, hbs, Bool.false_eq_true, if_false, hb1] at hv
          cases rb with
          | true => simp at hv
          | false =>
            refine ⟨H, M, D, rfl, rfl, hD, hr2.mp rfl, ha, hbs, ?_⟩
            intro hbl; have := hb2.mpr hbl; cases this
  · rintro ⟨H', M', D', e1, e2, e3, hre, ha, hbs, hnb⟩
    cases e1; cases e2
    rw [hD] at e3; cases e3
    have : r = true := hr2.mpr hre
    subst this
    have hrb : rb = false := by
      cases rb with
      | false => rfl
      | true => exact absurd (hb2.mp rfl) hnb
    simp [ha, hbs, hb1, hrb]


/-! ## simple types (what the simple variant of `is_derived` does with a `derivation` argument) -/

/-- A simple type defined by restriction is never derived "by extension" from another type: the
    simple variant answers `False` at the first step whose method differs from the requested one
    (simple_types.py:413-417), so `block="extension"` can never block a simple type. -/
theorem simple_not_derived_by_extension (q : Quirks) (h : Hier) (t u : Nat) (T U : TDef) (hT : h[t]? = some T)
    (hU : h[u]? = some U) (hs : T.complex = false) (hl : T.isList = false) (hd : T.deriv = some .restr) (fuel : Nat) :
    isDerived q (fuel + 1) h t u (some .ext) = some false := by
  simp [isDerived, hT, hU, hs, hl, clearS, hd]

/-- For a simple restriction, asking for `restriction` is the same as asking for plain derivation. -/
theorem simple_restr_eq_plain (q : Quirks) (h : Hier) (t u : Nat) (T U : TDef) (hT : h[t]? = some T)
    (hU : h[u]? = some U) (hs : T.complex = false) (hl : T.isList = false) (hd : T.deriv = some .restr) (fuel : Nat) :
    isDerived q (fuel + 1) h t u (some .restr) = isDerived q (fuel + 1) h t u none := by
  simp [isDerived, hT, hU, hs, hl, clearS, hd]

/-! ## Non-vacuity -/
namespace Demo
/-- 0 = B, 1 = E (extension of B), 2 = R (restriction of E, abstract), 3 = X (unrelated) -/
def hier : Hier :=
  [ {}, { base := some 0, deriv := some .ext }, { base := some 1, deriv := some .restr, abstract := true },
    {} ]
theorem wo : WellOrdered hier := by
  intro i T hT b hb
  match i, hT with
  | 0, hT => simp [hier] at hT; subst hT; simp at hb
  | 1, hT => simp [hier] at hT; subst hT; simp at hb; omega
  | 2, hT => simp [hier] at hT; subst hT; simp at hb; omega
  | 3, hT => simp [hier] at hT; subst hT; simp at hb
  | n + 4, hT => simp [hier] at hT
theorem co : ComplexOnly hier := by
  intro T hT
  simp only [hier, List.mem_cons, List.not_mem_nil, or_false] at hT
  rcases hT with rfl | rfl | rfl | rfl <;> simp
def eB : EDecl := { ty := 0, block := [.restr], nillable := true }
def cs : CSem := { contentOk := fun g v => g == v, fixedOk := fun _ _ => true }

example : Chain hier 2 0 [some .restr, some .ext] :=
  Chain.step (T := hier[2]) rfl rfl (Chain.step (T := hier[1]) rfl rfl (Chain.refl 0 (by decide)))
example : isDerived .pinned 4 hier 2 0 none = some true := by decide
example : isDerived .pinned 4 hier 2 0 (some .ext) = some true := by decide
example : isDerived .pinned 4 hier 3 0 none = some false := by decide
/-- xsi:type = E accepted (extension not blocked), content then validated against E -/
example : elementErrs .pinned 4 hier cs eB 0 { xsi := .named 1, variant := 1 } = [] := by decide
example : elementErrs .pinned 4 hier cs eB 0 { xsi := .named 1, variant := 0 } = [.content] := by decide
/-- xsi:type = R: blocked (restriction step) and abstract -/
example : elementErrs .pinned 4 hier cs eB 0 { xsi := .named 2, variant := 2 } = [.blocked, .abstractType] := by decide
example : elementErrs .pinned 4 hier cs eB 0 { xsi := .named 3, variant := 3 } = [.notDerived, .content] := by decide
example : ElementOk hier cs eB { xsi := .named 1, variant := 1 } :=
  (element_valid_iff .pinned hier wo co cs eB hier[0] rfl rfl 4 (by decide) _).mp (by decide)
example : elementErrs .pinned 4 hier cs eB 0 { nil := some "true", hasText := true } = [.nilNotEmpty] := by decide
example : elementErrs .pinned 4 hier cs eB 0 { nil := some "true", variant := 9 } = [] := by decide
def els : List EDecl := [ { ty := 0, block := [.restr] }, { ty := 1, subst := some 0 }, { ty := 2, subst := some 1 },
                          { ty := 1, subst := some 0, abstract := true } ]
example : substVerdict .pinned 4 hier els 0 1 = .accepted := by decide
example : substVerdict .pinned 4 hier els 0 2 = .blocked := by decide
example : substVerdict .pinned 4 hier els 0 3 = .notSubstitute := by decide
example : selectAlt [(true, false, 5), (true, true, 6), (false, false, 7)] 0 = 6 := by decide
end Demo

end XsVerif.Props.C07
