import XsVerif.Props.C01
open XsVerif.Props.C01
#print axioms oracle_decides_language
#print axioms oracle_decides_open_content
#print axioms rejected_reports_error
