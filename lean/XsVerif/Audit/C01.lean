import XsVerif.Props.C01
open XsVerif.Props.C01
#print axioms oracle_decides_language
#print axioms oracle_decides_open_content
#print axioms rejected_reports_error
#print axioms visitor_counterexample_greedy_split
#print axioms visitor_counterexample_choice_excess
#print axioms visitor_counterexample_emptiable_repeat
#print axioms error_index_in_range
#print axioms accepted_children_admitted
