import XsVerif.Props.C01
import XsVerif.Props.C01Exact
import XsVerif.Props.C01Default
#print axioms XsVerif.Props.C01.oracle_decides_language
#print axioms XsVerif.Props.C01.oracle_decides_open_content
#print axioms XsVerif.Props.C01.rejected_reports_error
#print axioms XsVerif.Props.C01.visitor_counterexample_greedy_split
#print axioms XsVerif.Props.C01.visitor_counterexample_choice_excess
#print axioms XsVerif.Props.C01.visitor_counterexample_emptiable_repeat
#print axioms XsVerif.Props.C01.error_index_in_range
#print axioms XsVerif.Props.C01.accepted_children_admitted
#print axioms XsVerif.Props.C01Exact.visitor_exact_flat_sequence
#print axioms XsVerif.Props.C01Exact.visitor_exact_flat_sequence_lang
#print axioms XsVerif.Props.C01Exact.visitor_fuel_sufficient_flat_sequence
#print axioms XsVerif.Props.C01Exact.flat_sequence_counterexample_group_max
#print axioms XsVerif.Props.C01Exact.flat_sequence_counterexample_group_min
#print axioms XsVerif.Props.C01Exact.flat_choice_counterexample_group_min
#print axioms XsVerif.Props.C01Exact.flat_choice_counterexample_gap
#print axioms XsVerif.Props.C01Exact.strict_encode_complete
#print axioms XsVerif.Props.C01Exact.encodeSilent_eq_verdict
#print axioms XsVerif.Props.C01Exact.encode_exact_flat_sequence
#print axioms XsVerif.Props.C01Default.empty_content_without_applying_open
#print axioms XsVerif.Props.C01Default.applying_open_is_withOpen
