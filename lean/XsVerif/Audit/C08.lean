import XsVerif.Props.C08
open XsVerif.Props.C08
#print axioms key_scope_iff
#print axioms unique_scope_iff
#print axioms unique_partial_witness
#print axioms keyref_scope_iff
#print axioms keyrefErrs_nil_iff
#print axioms key_table
#print axioms scope_block_iff
#print axioms keyref_block_iff
#print axioms keyref_absent_refer_iff
#print axioms absent_refer_witness
#print axioms nested_counterexample
#print axioms spread_counterexample
#print axioms rowsClauses_unique_nil
#print axioms rowsClauses_key_nil
#print axioms rowsClauses_keyref_nil
#print axioms normDec_eq_iff
#print axioms value_space_partial
#print axioms strq_counterexample
#print axioms id_ok_iff
#print axioms ns_collect_scope
#print axioms nsAt_eq_scopeAt
#print axioms collect_before_purge_counterexample
#print axioms field_scope_partial
#print axioms field_scope_self
#print axioms field_scope_repaired
#print axioms field_scope_counterexample
