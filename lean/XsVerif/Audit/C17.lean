import XsVerif.Props.C17
open XsVerif.Props.C17
#print axioms roundtrip_elem
#print axioms roundtrip_attr_partial
#print axioms roundtrip_attr_counterexample
#print axioms init_inv
#print axioms setContext_stacked_inv
#print axioms reverse_stale_counterexample
#print axioms setItem_inv_partial
#print axioms setItem_counterexample
#print axioms setItemRepaired_inv
#print axioms delItem_inv
#print axioms stack_discipline
#print axioms subtree_restores
#print axioms decoded_names_resolve
