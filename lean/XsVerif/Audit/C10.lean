import XsVerif.Props.C10
open XsVerif.Props.C10
#print axioms inv_init
#print axioms inv_call
#print axioms inv_call_prefix
#print axioms inv_after
#print axioms history_neutral
#print axioms docB_selfSufficient
#print axioms history_counterexample
#print axioms saturated_not_preserved
