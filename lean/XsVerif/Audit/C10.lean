import XsVerif.Props.C10
open XsVerif.Props.C10
#print axioms inv_init
#print axioms inv_call
#print axioms inv_call_prefix
#print axioms inv_after
#print axioms inv_abort_inside_xsi
#print axioms residue_grows
#print axioms residue_frame
#print axioms counters_call_local
#print axioms scratch_isolated
#print axioms history_neutral_partial
#print axioms history_neutral_prefix
#print axioms history_dependent_of_not_nsQuiet
#print axioms neutral_iff_nsQuiet
#print axioms wild_avail_neutral
#print axioms rebuild_resets
#print axioms gated_neutral_partial
#print axioms gated_dependent_of_not_selfSufficient
#print axioms gated_neutral_iff_selfSufficient
#print axioms history_counterexample
#print axioms gated_dependent_counterexample
#print axioms namespace_load_counterexample
#print axioms lax_attr_noload_counterexample
#print axioms record_disabled_breaks_inv
#print axioms record_disabled_counterexample
