import XsVerif.Props.C06
open XsVerif.Props.C06
#print axioms lazy_nsmaps_eq_inScope
#print axioms eager_nsmaps_eq_lazy
#print axioms eager_nsmaps_eq_inScope
#print axioms iter_lazy_order
#print axioms iter_lazy_perm
#print axioms iter_depth_spec
#print axioms iterfind_spec
#print axioms depth_cut_prefix
#print axioms lazy_errors_law
#print axioms lazy_errors_perm
#print axioms lazy_order_counterexample
#print axioms lazy_nonlocal_counterexample
#print axioms decode_cut_prune
