import XsVerif.Props.C06
open XsVerif.Props.C06
#print axioms lazy_nsmaps_eq_inScope
#print axioms eager_nsmaps_eq_lazy
#print axioms eager_nsmaps_eq_inScope
#print axioms iter_lazy_order_pinned
#print axioms iter_lazy_perm_pinned
#print axioms iter_lazy_order_pinned_counterexample
#print axioms iter_lazy_order
#print axioms iter_lazy_doc
#print axioms iter_depth_spec
#print axioms iterfind_spec
#print axioms live_nonthin_yields
#print axioms live_final_nonthin
#print axioms live_thin_yields
#print axioms live_chunks_complete
#print axioms thin_position_partial
#print axioms thin_position_counterexample
#print axioms depth_cut_prefix
#print axioms lazy_errors_split
#print axioms local_imp_localErr
#print axioms lazy_errors_law_weak
#print axioms lazy_errors_law
#print axioms lazy_errors_perm
#print axioms lazy_order_counterexample
#print axioms lazy_nonlocal_counterexample
#print axioms decode_cut_prune
