import XsVerif.Props.C04
open XsVerif.Props.C04
#print axioms lax_never_raises
#print axioms skip_never_raises
#print axioms skip_yields_spec
#print axioms iterErrors_spec
#print axioms isValid_iff
#print axioms validate_spec
#print axioms validate_ok_iff
#print axioms validate_raises_first
#print axioms validate_raises_first_needs_wf
#print axioms decode_lax_spec
#print axioms decode_strict_spec
#print axioms decode_strict_raises_first_lax
#print axioms decode_strict_ok_iff_lax_empty
#print axioms decode_valid_mode_independent
#print axioms cli_exit_eq
#print axioms cli_exit_zero_iff
#print axioms cli_unsaturated_counterexample
#print axioms verdicts_agree
#print axioms first_errors_agree
#print axioms verdicts_differ_without_same_events_counterexample
#print axioms mix_agree
#print axioms component_eq_schema
#print axioms union_verdict_mode_independent
#print axioms union_first_error_partial
#print axioms union_first_error_counterexample
