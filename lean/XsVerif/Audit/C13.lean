import XsVerif.Props.C13
open XsVerif.Props.C13
#print axioms modes_exact
#print axioms isDefused_iff_applies
#print axioms plan_noDefuse_iff
#print axioms defused_entities_never_parsed
#print axioms defused_entities_forbidden
#print axioms plan_refuse_iff
#print axioms undefused_transparent
#print axioms clean_parsed_partial
#print axioms clean_refused_counterexample_raw_bigprolog
#print axioms clean_refused_counterexample_bigprolog
#print axioms clean_refused_counterexample_text
#print axioms run_refines
#print axioms init_refines
#print axioms scan_then_rewind
#print axioms seek_refused_iff
