import XsVerif.Props.C09
open XsVerif.Props.C09
#print axioms denote_spec
#print axioms lookup_denotes
#print axioms build_is_denotation
#print axioms build_order_independent
#print axioms load_first_wins
#print axioms load_no_errors_of_nodup
#print axioms load_duplicate_reported
#print axioms load_perm_invariant
#print axioms arrangement_independent
#print axioms marked_lookup_is_circ
#print axioms back_edge_reported
#print axioms self_reference_reported
#print axioms cyclic_order_dependent_counterexample
#print axioms normSegs_idempotent
#print axioms normSegs_join
#print axioms spellings_same_key
#print axioms include_once
