import XsVerif.Props.C15
open XsVerif.Props.C15

#print axioms inhabited_iff
#print axioms norm_preserves_language
#print axioms upa_iff_rx
#print axioms upa_certificate_sound
#print axioms upa_witness_sound
#print axioms upaOracle_det_sound
#print axioms upaOracle_nondet_sound
#print axioms edc_spec
#print axioms checkModel_accepts_edc_direct
#print axioms checkModel_v11_element_wildcard_never_error
#print axioms spec_v11_element_wildcard_never_compete
#print axioms upa_of_disjoint
#print axioms checkModel_missed_counterexample
#print axioms checkModel_false_alarm_counterexample
#print axioms checkModel_false_alarm_root_counterexample
#print axioms checkModel_edc_missed_counterexample
