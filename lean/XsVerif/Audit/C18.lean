import XsVerif.Props.C18
open XsVerif.Props.C18
#print axioms build_once
#print axioms no_use_of_partial_maps
#print axioms build_mutex
#print axioms build_no_deadlock
#print axioms memo_benign
#print axioms xsi_widening_schedule_independent
#print axioms xsi_widening_sequential
#print axioms xsi_widening_old_order_counterexample
#print axioms xsi_widening_statement_level_counterexample
