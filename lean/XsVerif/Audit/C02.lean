import XsVerif.Props.C02
open XsVerif.Props.C02
#print axioms words_collapse
#print axioms replace_spec
#print axioms xmlWs_sub_pyWs
#print axioms whitespace_counterexample
#print axioms parseInt_iff
#print axioms intTable_eq_xsd
#print axioms int_family_bounds
#print axioms probes_agree
#print axioms int_roundtrip
#print axioms boolean_lex
#print axioms facets_all
#print axioms facet_bounds_int
#print axioms facet_length
#print axioms restriction_valid_iff
#print axioms restriction_narrows
#print axioms union_first_match
#print axioms list_itemwise
#print axioms countDigits_counterexample
#print axioms leap_year_counterexample
#print axioms duration_lexical_counterexample
#print axioms timezone_equality_counterexample
#print axioms timezone_range
