import XsVerif.Props.C16
open XsVerif.Props.C16
#print axioms nsAllowed_iff_den
#print axioms allowsQ_iff_denQ
#print axioms intersection_ns_spec
#print axioms intersection_spec
#print axioms restriction_sound
#print axioms overlap_spec
#print axioms union_ns_spec
#print axioms union_complete
#print axioms union_exact
#print axioms union_expressible_11
#print axioms union_refused_10
#print axioms cross_namespace_counterexample
