import XsVerif.Props.C03
open XsVerif.Props.C03
#print axioms attrs_valid_iff
#print axioms attrs_valid_iff_pinned_partial
#print axioms pinned_eq_repaired
#print axioms pinned_counterexample_admits
#print axioms pinned_counterexample_injects
#print axioms decoded_absent_iff
#print axioms absent_fixed_reported
#print axioms absent_default_iff
#print axioms absent_silent
#print axioms required_error_located
#print axioms unknown_attr_error
