import XsVerif.Props.C03
import XsVerif.Props.C03Types
import XsVerif.Props.C03Deriv
import XsVerif.Props.C03Fixed
open XsVerif.Props.C03 XsVerif.Props.C03Types XsVerif.Props.C03Deriv XsVerif.Props.C03Fixed
#print axioms attrs_valid_iff
#print axioms oldstep_admits_counterexample
#print axioms oldstep_injects_counterexample
#print axioms decoded_absent_iff
#print axioms absent_fixed_reported
#print axioms absent_default_iff
#print axioms absent_silent
#print axioms required_error_located
#print axioms unknown_attr_error
#print axioms semCat_refl
#print axioms fixed_test_equiv
#print axioms attrs_valid_iff_cat
#print axioms fixed_test_value_partial
#print axioms fixed_qname_rejects_counterexample
#print axioms fixed_qname_admits_counterexample
#print axioms fixed_test_qname
#print axioms token_collapse_invariant
#print axioms string_test_exact
#print axioms collect_wildcard_spec
#print axioms oldpc_counterexample
#print axioms derived_decl_iff
#print axioms derived_wildcard_extension
#print axioms derived_wildcard_restriction
#print axioms derived_valid_iff
#print axioms valid_perm
#print axioms id_build_iff
#print axioms defaults_decl_iff
#print axioms attrs_valid_iff_variants
#print axioms variants_agree_unmarked
#print axioms required_error_located_variants
#print axioms semCatV_false
#print axioms attrs_valid_iff_cat_variants
#print axioms extQ_valid
#print axioms fixed_test_value
