import XsVerif.Props.C05
import XsVerif.Props.C05Encode
open XsVerif.Props.C05
#print axioms jsonml_level_roundtrip
#print axioms jsonml_roundtrip
#print axioms iter_unordered_is_permutation
#print axioms iter_collapsed_is_permutation
#print axioms strict_encode_sound
#print axioms step_simulation
#print axioms strict_encode_counterexample_empty_choice
