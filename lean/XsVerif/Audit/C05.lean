import XsVerif.Props.C05
open XsVerif.Props.C05
#print axioms jsonml_level_roundtrip
#print axioms jsonml_roundtrip
#print axioms iter_unordered_is_permutation
#print axioms iter_collapsed_is_permutation
