import XsVerif.Props.C20
open XsVerif.Props.C20
#print axioms find_is_governing
#print axioms find_some_of_gov
#print axioms find_subst_counterexample
#print axioms find_wildcard_counterexample
#print axioms partial_equals_full
#print axioms part_is_block
#print axioms depth_cut_errors
#print axioms depth_cut_data
#print axioms getElement_name
#print axioms sel_chain_matches
#print axioms findP_sound
#print axioms paths_agree
#print axioms paths_agree_star_partial
#print axioms paths_agree_star_counterexample
#print axioms findAllP_names
#print axioms loop_eq_spec
#print axioms scope_inside_all
#print axioms loopC_mixed_depth_counterexample
#print axioms kOf_common_prefix
