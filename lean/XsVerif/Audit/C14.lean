import XsVerif.Props.C14
open XsVerif.Props.C14
#print axioms incl_certificate_sound
#print axioms incl_included_sound
#print axioms incl_witness_sound
#print axioms occurs_restriction_sound
#print axioms rep_body_monotone
#print axioms cat_monotone
#print axioms alt_monotone
#print axioms shuffle_monotone
#print axioms shuffle_commutative
#print axioms elem_restriction_sound
#print axioms wildcard_restriction_sound_partial
#print axioms wildcard_zero_counterexample
#print axioms elem_wildcard_restriction_sound_partial
#print axioms elem_wildcard_counterexample
#print axioms elem_wildcard_zero_counterexample
#print axioms sequence_pass_sound
#print axioms restriction_counterexample_empty_group
#print axioms restriction_counterexample_choice11
#print axioms restriction_counterexample_choice_to_sequence
