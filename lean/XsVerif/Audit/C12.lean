import XsVerif.Props.C12
open XsVerif.Props.C12
#print axioms modes_exact
#print axioms access_iff_permitted
#print axioms none_blocks_everything
#print axioms local_modes_block_remote
#print axioms remote_blocks_local
#print axioms sandboxOk_components
#print axioms sandbox_confines
#print axioms resolve_sandbox_confined
#print axioms resolve_none_never_ok
#print axioms resolve_remote_only_remote
#print axioms resolve_local_only_files
#print axioms selfbase_counterexample
#print axioms unquote_quote
#print axioms normpath_idempotent
#print axioms normpath_no_dot_segments
#print axioms normalizeUrl_idempotent
#print axioms every_fetch_checked
#print axioms trace_none_opens_nothing
#print axioms trace_remote_only_remote
#print axioms trace_local_only_files
#print axioms trace_sandbox_confined
#print axioms root_sandbox_confined
#print axioms denied_content_unreached
#print axioms scheme_prefixed_class
#print axioms remote_render_counterexample
#print axioms remote_render_partial
