import XsVerif.Props.C12
open XsVerif.Props.C12
#print axioms modes_exact
#print axioms access_iff_permitted
#print axioms none_blocks_everything
#print axioms local_modes_block_remote
#print axioms remote_blocks_local
#print axioms sandboxOk_components
#print axioms sandbox_confines
#print axioms resolve_sandbox_confined
#print axioms resolve_none_never_ok
#print axioms resolve_remote_only_remote
#print axioms resolve_local_only_files
#print axioms selfbase_counterexample
