import XsVerif.Props.C07
open XsVerif.Props.C07
#print axioms isDerived_spec
#print axioms isBlocked_spec
#print axioms xsi_checks_iff
#print axioms nil_checks_iff
#print axioms element_valid_iff
#print axioms alternatives_first_match
#print axioms subst_accept_iff
#print axioms simple_not_derived_by_extension
#print axioms simple_restr_eq_plain
