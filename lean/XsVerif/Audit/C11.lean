import XsVerif.Props.C11
open XsVerif.Props.C11
#print axioms eager_limit_spec
#print axioms eager_refusal_is_resource_error
#print axioms lazy_limit_spec
#print axioms depth_limit_off_by_one_counterexample
#print axioms setLimit_ok_iff
#print axioms limit_setters_guard
#print axioms generated_limits_match
#print axioms library_errors_closed
#print axioms public_errors_are_library_errors
#print axioms resource_exceeded_is_library_error
#print axioms foreign_examples
#print axioms handlers_cover_partial
#print axioms handlers_cover_counterexample_skip
#print axioms handlers_cover_counterexample_xsi_type
#print axioms handlers_cover_counterexample_parse
#print axioms handlers_cover_counterexample_assert
#print axioms lax_and_skip_never_raise
