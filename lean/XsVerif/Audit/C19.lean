import XsVerif.Props.C19
import XsVerif.Props.C19Ns
import XsVerif.Props.C19Fx
open XsVerif.Props.C19
#print axioms selectStep_stepFor
#print axioms path_selects_unique
#print axioms path_exists
#print axioms path_injective
#print axioms render_resolves_partial
#print axioms render_counterexample
#print axioms relabel_fault_localised
#print axioms child_fault_localised
#print axioms child_removed_localised
#print axioms single_fault_localised
#print axioms tableVal_local
#print axioms effectiveB_sound
#print axioms observed_fault_localised
#print axioms gov_nonlocal_counterexample
#print axioms error_paths_locate
#print axioms single_fault_paths_locate
#print axioms lazy_path_contains
#print axioms lazy_state_path_contains
#print axioms lazy_path_exact_partial
#print axioms lazy_path_counterexample
#print axioms qpath_selects_unique
#print axioms scoped_path_selects
#print axioms same_map_path_selects
#print axioms unreadable_step
#print axioms stale_map_counterexample
#print axioms fixed_lib_iff_spec
#print axioms fixed_extra_child_reported
#print axioms fixed_text_change_reported
