import XsVerif.Props.C19
open XsVerif.Props.C19
#print axioms selectStep_stepFor
#print axioms path_selects_unique
#print axioms path_exists
#print axioms path_injective
#print axioms render_resolves_partial
#print axioms render_counterexample
