/-
  Shared basics.  No Mathlib import.
-/
namespace XsVerif

/-- Occurrence range `(min, max?)`; `none` = unbounded. -/
structure Occ where
  lo : Nat
  hi : Option Nat
  deriving DecidableEq, Repr, Inhabited

end XsVerif
