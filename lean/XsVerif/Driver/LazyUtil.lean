import XsVerif.Driver.Util
import XsVerif.Model.Lazy
open Lean XsVerif.Driver XsVerif.Lazy

namespace XsVerif.Driver.LazyUtil

partial def parseTree (j : Json) : Except String Tree := do
  let i ← getNat j "id"
  let tg ← getStr j "tag"
  let ds ← (← getArr j "decls").toList.mapM fun d => do
    let a ← d.getArr?
    if h : a.size = 2 then pure ((← a[0].getStr?), (← a[1].getStr?)) else throw "decl"
  let cs ← (← getArr j "cs").toList.mapM parseTree
  return .node i tg ds cs

def natArr (l : List Nat) : Json := Json.arr (l.map (fun (n : Nat) => (Lean.toJson n))).toArray

def nsmapJson (m : NsMap) : Json :=
  let a := (m.toArray.qsort (fun x y => x.1 < y.1))
  Json.arr (a.map fun p => Json.arr #[p.1, p.2])

def nsOut (o : Option (List (Nat × NsMap))) : Json :=
  match o with
  | none => Json.str "IndexError"
  | some l => Json.arr (l.map fun p => Json.arr #[Lean.toJson p.1, nsmapJson p.2]).toArray

def kindStr : Kind → String
  | .incomplete => "incomplete" | .full => "full" | .sub => "sub"

def ancOut (l : List (Nat × List Nat)) : Json :=
  Json.arr (l.map fun p => Json.arr #[Lean.toJson p.1, natArr p.2]).toArray

def natList (j : Json) : Except String (List Nat) := do
  (← j.getArr?).toList.mapM fun x => x.getNat?

/-- tables → abstract validator -/
structure Tables where
  segs : List (Nat × Nat × Nat × List Nat)     -- decl, node, slot, errors
  govs : List (Nat × Nat × Nat × Nat)          -- decl, node, child index, decl of the child
  static : List (Nat × Nat)                    -- chunk node id, decl found by get_element
  created : List (Nat × Nat)                   -- chunk node id, decl created for xsi:type

def mkVal (tb : Tables) : Val Nat Nat where
  seg := fun d t j => (tb.segs.filter fun e => e.1 == d && e.2.1 == t.id && e.2.2.1 == j).flatMap (·.2.2.2)
  gov := fun d t j => (tb.govs.find? fun e => e.1 == d && e.2.1 == t.id && e.2.2.1 == j).map (·.2.2.2)

def lookup (l : List (Nat × Nat)) (t : Tree) : Option Nat := (l.find? fun e => e.1 == t.id).map (·.2)

def parseTables (j : Json) : Except String Tables := do
  let segs ← (← getArr j "segs").toList.mapM fun e => do
    let a ← e.getArr?
    if h : a.size = 4 then pure ((← a[0].getNat?), (← a[1].getNat?), (← a[2].getNat?), (← natList a[3]))
    else throw "seg"
  let govs ← (← getArr j "govs").toList.mapM fun e => do
    let a ← natList e
    match a with
    | [x, y, z, w] => pure (x, y, z, w)
    | _ => throw "gov"
  let pair (k : String) : Except String (List (Nat × Nat)) := do
    (← getArr j k).toList.mapM fun e => do
      let a ← natList e
      match a with
      | [x, y] => pure (x, y)
      | _ => throw k
  return { segs, govs, static := ← pair "static", created := ← pair "created" }

end XsVerif.Driver.LazyUtil
