import XsVerif.Driver.Util
import XsVerif.Model.Lazy
import XsVerif.Model.LazyLive
import XsVerif.Driver.LazyUtil
open Lean XsVerif.Driver XsVerif.Lazy

namespace XsVerif.Driver.C06
open XsVerif.Driver.LazyUtil

def handle (j : Json) : Except String Json := do
  let op ← getStr j "op"
  let t ← parseTree (← j.getObjVal? "tree")
  match op with
  | "ns" =>
    return Json.mkObj [("lazy", nsOut (lazyNsmaps t)), ("eager", nsOut (eagerNsmaps t)),
                       ("inscope", nsOut (some (inScope [] t))),
                       ("eager_unpopped", nsOut (unpoppedNsmaps t))]
  | "iter" =>
    let d ← getNat j "d"
    let sel : String → Bool := match j.getObjValAs? String "tag" with
      | .ok tg => fun s => s == tg
      | .error _ => fun _ => true
    return Json.mkObj [("yields", Json.arr ((iterRun d sel t).map fun p =>
      Json.arr #[Lean.toJson p.1, Json.str (kindStr p.2)]).toArray)]
  | "iterdoc" =>
    -- the repaired loop of XMLResource.iter (notes/fixes/C06-iter-document-order.patch)
    let d ← getNat j "d"
    let thin := (j.getObjValAs? Bool "thin").toOption.getD true
    let sel : String → Bool := match j.getObjValAs? String "tag" with
      | .ok tg => fun s => s == tg
      | .error _ => fun _ => true
    return Json.mkObj [("yields", Json.arr ((liRun thin d sel t).out.map fun p =>
      Json.arr #[Lean.toJson p.1, Json.str (kindStr p.2)]).toArray)]
  | "live" =>
    -- iter_depth on the live tree: what is yielded at the moment it is yielded, pruning, size of _nsmaps
    let d ← getNat j "d"
    let mode ← getNat j "mode"
    let thin := (j.getObjValAs? Bool "thin").toOption.getD true
    let r := ldRun thin mode d t
    return Json.mkObj [
      ("yields", Json.arr (r.out.map fun y =>
        Json.arr #[natArr (preorder y.elem), natArr y.inner, Lean.toJson y.nkeys]).toArray),
      ("final", match ldFinal thin mode d t with
        | some f => natArr (preorder f)
        | none => Json.null),
      ("nkeys", Lean.toJson r.tb.nkeys), ("fail", r.tb.fail)]
  | "iterdepth" =>
    return Json.mkObj [("yields", ancOut (iterDepthRun (← getNat j "mode") (← getNat j "d") t))]
  | "iterfind" =>
    return Json.mkObj [("yields", ancOut (iterfindRun (← getNat j "pd") t))]
  | "lazyval" =>
    let k ← getNat j "k"
    let d ← getNat j "root"
    let tb ← parseTables j
    let v := mkVal tb
    let krefs ← natList (← j.getObjVal? "krefs")
    let idrefs ← natList (← j.getObjVal? "idrefs")
    let pairs := chunkPairs v k [] (some d) t
    let loc := pairs.all fun p => lazyPick (lookup tb.static) (lookup tb.created) p.2.1 p.2.2 == p.2.1
    let nonlocal := pairs.filterMap fun p =>
      if lazyPick (lookup tb.static) (lookup tb.created) p.2.1 p.2.2 == p.2.1 then none else some p.2.2.id
    return Json.mkObj [
      ("eager", natArr (eagerErrors v d t krefs idrefs)),
      ("lazy", natArr (lazyErrors v (lookup tb.static) (lookup tb.created) k d t krefs idrefs)),
      ("cut", natArr ((cutT v k [] d t).map Prod.snd)),
      ("local", loc), ("nonlocal", natArr nonlocal)]
  | _ => throw s!"unknown op {op}"

end XsVerif.Driver.C06

def main : IO Unit := XsVerif.Driver.run XsVerif.Driver.C06.handle
