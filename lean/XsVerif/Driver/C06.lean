import XsVerif.Driver.Util
open Lean XsVerif.Driver

-- stub: replaced when the model of C06 lands
def main : IO Unit := XsVerif.Driver.run fun _ => .error "C06 driver not implemented"
