import XsVerif.Driver.Util
import XsVerif.Model.Lazy
import XsVerif.Model.LazyLive
import XsVerif.Driver.LazyUtil
open Lean XsVerif.Driver XsVerif.Lazy

namespace XsVerif.Driver.C06
open XsVerif.Driver.LazyUtil

def phasePairs (j : Json) : Except String (List (Bool × Nat)) := do
  (← j.getArr?).toList.mapM fun e => do
    let a ← e.getArr?
    if h : a.size = 2 then pure ((← a[0].getBool?), (← a[1].getNat?)) else throw "phase pair"

def ctrJson (c : Ctr) : Json := Json.arr (c.map fun p => Json.arr #[Lean.toJson p.1, Lean.toJson p.2]).toArray

/-- two-phase identity tables of one key/unique and one keyref that refers to it -/
def idmerge (j : Json) : Except String Json := do
  let key ← phasePairs (← j.getObjVal? "key")
  let ref ← phasePairs (← j.getObjVal? "ref")
  let k1 := collect (phaseVals false key)
  let k2 := collect (phaseVals true key)
  let r1 := collect (phaseVals false ref)
  let r2 := collect (phaseVals true ref)
  let hasChunks := (j.getObjValAs? Bool "chunks").toOption.getD true
  let p1 (c : Ctr) : Option Ctr := if hasChunks then some c else none
  let keys := mergeTables (p1 k1.1) k2.1
  let refs := mergeTables (p1 r1.1) r2.1
  let eagerKeys := collect (key.map Prod.snd)
  let eagerRefs := collect (ref.map Prod.snd)
  let cross := ((key.map Prod.snd).eraseDups).filter fun v =>
    (phaseVals false key).count v == 1 && (phaseVals true key).count v == 1
  return Json.mkObj [
    ("eager_dups", natArr eagerKeys.2), ("lazy_dups", natArr (k1.2 ++ k2.2)), ("cross", natArr cross),
    ("eager_dangling", ctrJson ((eagerRefs.1.filter fun p => eagerKeys.1.get p.1 == 0))),
    ("lazy_dangling", ctrJson ((refs.filter fun p => keys.get p.1 == 0))),
    ("firstwins_dangling", ctrJson (((mergeFirstWins (p1 r1.1) r2.1).filter fun p =>
        (mergeFirstWins (p1 k1.1) k2.1).get p.1 == 0)))]

def handle (j : Json) : Except String Json := do
  let op ← getStr j "op"
  if op == "idmerge" then return ← idmerge j
  let t ← parseTree (← j.getObjVal? "tree")
  match op with
  | "ns" =>
    return Json.mkObj [("lazy", nsOut (lazyNsmaps t)), ("eager", nsOut (eagerNsmaps t)),
                       ("inscope", nsOut (some (inScope [] t))),
                       ("eager_unpopped", nsOut (unpoppedNsmaps t))]
  | "iter" =>
    let d ← getNat j "d"
    let sel : String → Bool := match j.getObjValAs? String "tag" with
      | .ok tg => fun s => s == tg
      | .error _ => fun _ => true
    return Json.mkObj [("yields", Json.arr ((iterRun d sel t).map fun p =>
      Json.arr #[Lean.toJson p.1, Json.str (kindStr p.2)]).toArray)]
  | "iterdoc" =>
    -- the repaired loop of XMLResource.iter (notes/fixes/C06-iter-document-order.patch)
    let d ← getNat j "d"
    let thin := (j.getObjValAs? Bool "thin").toOption.getD true
    let sel : String → Bool := match j.getObjValAs? String "tag" with
      | .ok tg => fun s => s == tg
      | .error _ => fun _ => true
    return Json.mkObj [("yields", Json.arr ((liRun thin d sel t).out.map fun p =>
      Json.arr #[Lean.toJson p.1, Json.str (kindStr p.2)]).toArray)]
  | "live" =>
    -- iter_depth on the live tree: what is yielded at the moment it is yielded, pruning, size of _nsmaps
    let d ← getNat j "d"
    let mode ← getNat j "mode"
    let thin := (j.getObjValAs? Bool "thin").toOption.getD true
    let r := ldRun thin mode d t
    return Json.mkObj [
      ("yields", Json.arr (r.out.map fun y =>
        Json.arr #[natArr (preorder y.elem), natArr y.inner, Lean.toJson y.nkeys]).toArray),
      ("final", match ldFinal thin mode d t with
        | some f => natArr (preorder f)
        | none => Json.null),
      ("nkeys", Lean.toJson r.tb.nkeys), ("fail", r.tb.fail)]
  | "iterdepth" =>
    return Json.mkObj [("yields", ancOut (iterDepthRun (← getNat j "mode") (← getNat j "d") t))]
  | "iterfind" =>
    return Json.mkObj [("yields", ancOut (iterfindRun (← getNat j "pd") t))]
  | "lazyval" =>
    let k ← getNat j "k"
    let d ← getNat j "root"
    let tb ← parseTables j
    let v := mkVal tb
    let krefs ← natList (← j.getObjVal? "krefs")
    let idrefs ← natList (← j.getObjVal? "idrefs")
    let pairs := chunkPairs v k [] (some d) t
    let loc := pairs.all fun p => lazyPick (lookup tb.static) (lookup tb.created) p.2.1 p.2.2 == p.2.1
    let nonlocal := pairs.filterMap fun p =>
      if lazyPick (lookup tb.static) (lookup tb.created) p.2.1 p.2.2 == p.2.1 then none else some p.2.2.id
    return Json.mkObj [
      ("eager", natArr (eagerErrors v d t krefs idrefs)),
      ("lazy", natArr (lazyErrors v (lookup tb.static) (lookup tb.created) k d t krefs idrefs)),
      ("cut", natArr ((cutT v k [] d t).map Prod.snd)),
      ("local", loc), ("nonlocal", natArr nonlocal)]
  | _ => throw s!"unknown op {op}"

end XsVerif.Driver.C06

def main : IO Unit := XsVerif.Driver.run XsVerif.Driver.C06.handle
