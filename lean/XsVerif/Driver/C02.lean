import XsVerif.Driver.Util
open Lean XsVerif.Driver

-- stub: replaced when the model of C02 lands
def main : IO Unit := XsVerif.Driver.run fun _ => .error "C02 driver not implemented"
