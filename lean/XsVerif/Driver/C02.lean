import XsVerif.Driver.Util
import XsVerif.Model.Datatypes
import XsVerif.Model.DatatypesDate
import XsVerif.Model.DatatypesEnc
import XsVerif.Model.DatatypesPat
import XsVerif.Generated.Builtins
open Lean XsVerif.Driver XsVerif.Datatypes

namespace XsVerif.Driver.C02

def strOf (j : Json) : Except String Str := do return (← j.getStr?).toList
def getS (j : Json) (k : String) : Except String Str := do return (← getStr j k).toList

def parseIntS (s : String) : Except String Int :=
  match s.toInt? with
  | some i => pure i
  | none => throw s!"int {s}"

def parseWs (s : String) : Except String WsMode :=
  match s with
  | "preserve" => pure .preserve | "replace" => pure .replace | "collapse" => pure .collapse
  | _ => throw s!"ws {s}"

def parseKind (s : String) : Except String DtKind :=
  match s with
  | "dateTime" => pure .dateTime | "date" => pure .date | "time" => pure .time
  | "gYear" => pure .gYear | "gYearMonth" => pure .gYearMonth | "gMonth" => pure .gMonth
  | "gMonthDay" => pure .gMonthDay | "gDay" => pure .gDay
  | _ => throw s!"kind {s}"

def kindStr : DtKind → String
  | .dateTime => "dateTime" | .date => "date" | .time => "time" | .gYear => "gYear"
  | .gYearMonth => "gYearMonth" | .gMonth => "gMonth" | .gMonthDay => "gMonthDay" | .gDay => "gDay"

def parseAVal (j : Json) : Except String AVal := do
  if let .ok v := j.getObjVal? "s" then return .str (← strOf v)
  if let .ok v := j.getObjVal? "b" then return .bool (← v.getBool?)
  if let .ok v := j.getObjVal? "i" then return .int (← parseIntS (← v.getStr?))
  if let .ok v := j.getObjVal? "d" then
    let a ← v.getArr?
    if h : a.size = 3 then
      let c ← parseIntS (← a[1].getStr?)
      return .dec ⟨← a[0].getBool?, c.toNat, ← a[2].getNat?⟩
    else throw "dec"
  if let .ok v := j.getObjVal? "f" then return .flt (← strOf v)
  if let .ok v := j.getObjVal? "x" then return .hex (← strOf v)
  if let .ok v := j.getObjVal? "y" then return .b64 (← strOf v)
  if let .ok v := j.getObjVal? "dt" then
    let a ← v.getArr?
    if h : a.size = 9 then
      let tz ← match a[8] with
        | .null => pure none
        | t => do pure (some (← t.getInt?))
      return .dt ⟨← parseKind (← a[0].getStr?), ← parseIntS (← a[1].getStr?), ← a[2].getNat?,
        ← a[3].getNat?, ← a[4].getNat?, ← a[5].getNat?, ← a[6].getNat?, ← a[7].getNat?, tz⟩
    else throw "dt"
  if let .ok v := j.getObjVal? "dur" then
    let a ← v.getArr?
    if h : a.size = 2 then
      return .dur ⟨← parseIntS (← a[0].getStr?), ← parseIntS (← a[1].getStr?)⟩
    else throw "dur"
  throw s!"aval {j.compress}"

def parseVal (j : Json) : Except String Val := do
  match j with
  | .null => return .none
  | _ =>
    if let .ok v := j.getObjVal? "l" then
      let a ← v.getArr?
      let items ← a.toList.mapM fun x => match x with
        | .null => pure none
        | x => do pure (some (← parseAVal x))
      return .list items
    return .atom (← parseAVal j)

def parseFacet (j : Json) : Except String Facet := do
  let f ← getStr j "f"
  match f with
  | "length" => return .length (← getNat j "n")
  | "minLength" => return .minLength (← getNat j "n")
  | "maxLength" => return .maxLength (← getNat j "n")
  | "totalDigits" => return .totalDigits (← getNat j "n")
  | "fractionDigits" => return .fractionDigits (← getNat j "n")
  | "minInclusive" => return .minInclusive (← parseAVal (← j.getObjVal? "v"))
  | "minExclusive" => return .minExclusive (← parseAVal (← j.getObjVal? "v"))
  | "maxInclusive" => return .maxInclusive (← parseAVal (← j.getObjVal? "v"))
  | "maxExclusive" => return .maxExclusive (← parseAVal (← j.getObjVal? "v"))
  | "enumeration" => return .enumeration (← (← getArr j "vs").toList.mapM parseVal)
  | "explicitTimezone" =>
    match (← getStr j "r") with
    | "required" => return .explicitTimezone .required
    | "prohibited" => return .explicitTimezone .prohibited
    | _ => return .explicitTimezone .optional
  | "skip" => return .skip
  | _ => throw s!"facet {f}"

def parseFn (s : String) : Except String FnV :=
  match s with
  | "byte_validator" => pure .byte | "short_validator" => pure .short
  | "int_validator" => pure .int | "long_validator" => pure .long
  | "unsigned_byte_validator" => pure .ubyte | "unsigned_short_validator" => pure .ushort
  | "unsigned_int_validator" => pure .uint | "unsigned_long_validator" => pure .ulong
  | "negative_int_validator" => pure .negative | "positive_int_validator" => pure .positive
  | "non_positive_int_validator" => pure .nonPositive
  | "non_negative_int_validator" => pure .nonNegative
  | "decimal_validator" => pure .decimal
  | "hex_binary_validator" => pure .hexBinary | "base64_binary_validator" => pure .base64Binary
  | "error_type_validator" => pure .error
  | _ => throw s!"fn {s}"

def parsePrim (s : String) (v11 : Bool) : Except String Prim :=
  match s with
  | "string" => pure .string | "boolean" => pure .boolean | "decimal" => pure .decimal
  | "integer" => pure .integer | "float" => pure .float | "hexBinary" => pure .hexBinary
  | "base64Binary" => pure .base64Binary | "duration" => pure .duration
  | "dayTimeDuration" => pure .dayTimeDuration | "yearMonthDuration" => pure .yearMonthDuration
  | "error" => pure .error
  | _ => if s.startsWith "dt:" then do pure (.dt (← parseKind (s.drop 3).toString) v11) else throw s!"prim {s}"

def optNat (j : Json) (k : String) : Except String (Option Nat) :=
  match j.getObjVal? k with
  | .ok .null => pure none
  | .ok v => do pure (some (← v.getNat?))
  | .error _ => pure none

/-- a pattern of the regular-expression subset: `{"k":"cls","neg":b,"r":[[lo,hi],…]}`, `{"k":"cat","a":[…]}`,
    `{"k":"alt","a":[…]}`, `{"k":"rep","r":…,"lo":n,"hi":n|null}` -/
partial def parseRx (j : Json) : Except String CRx := do
  let k ← getStr j "k"
  match k with
  | "cls" =>
    let rs ← (← getArr j "r").toList.mapM fun e => do
      let a ← e.getArr?
      if h : a.size = 2 then pure ((← a[0].getNat?), (← a[1].getNat?)) else throw "range"
    return .sym ⟨← getBool j "neg", rs⟩
  | "cat" =>
    let xs ← (← getArr j "a").toList.mapM parseRx
    return match xs.reverse with
      | [] => .eps
      | l :: r => r.foldl (fun acc x => .cat x acc) l
  | "alt" =>
    let xs ← (← getArr j "a").toList.mapM parseRx
    return match xs.reverse with
      | [] => .empty
      | l :: r => r.foldl (fun acc x => .alt x acc) l
  | "rep" =>
    let hi ← match j.getObjVal? "hi" with
      | .ok .null => pure none
      | .ok v => do pure (some (← v.getNat?))
      | .error _ => pure none
    return .rep (← parseRx (← j.getObjVal? "r")) (← (← j.getObjVal? "lo").getNat?) hi
  | _ => throw s!"rx {k}"

/-- `"rxs": [[id, [pattern, …]], …]`: the pattern groups evaluated by the model -/
def parseTable (j : Json) : Except String PatTable :=
  match j.getObjVal? "rxs" with
  | .ok (.arr a) => a.toList.mapM fun e => do
      let p ← e.getArr?
      if h : p.size = 2 then
        pure ((← p[0].getNat?), (← (← p[1].getArr?).toList.mapM parseRx))
      else throw "rxs"
  | _ => pure []

partial def parseType (j : Json) : Except String SType := do
  let k ← getStr j "k"
  match k with
  | "b" =>
    let fn ← match j.getObjVal? "fn" with
      | .ok (.str s) => do pure (some (← parseFn s))
      | _ => pure none
    let facets ← (← getArr j "facets").toList.mapM parseFacet
    let lenExempt := match j.getObjVal? "lenx" with | .ok (.bool b) => b | _ => false
    return .builtin { prim := ← parsePrim (← getStr j "prim") (← getBool j "v11"),
                      ws := ← parseWs (← getStr j "ws"), pat := ← optNat j "pat", fn, facets, lenExempt }
  | "r" =>
    let facets ← (← getArr j "facets").toList.mapM parseFacet
    return .restr (← parseType (← j.getObjVal? "base")) (← parseWs (← getStr j "ws"))
      (← optNat j "pat") facets
  | "l" => return .list (← parseType (← j.getObjVal? "item"))
  | "u" =>
    let ms ← (← getArr j "members").toList.mapM parseType
    return .union (STypes.ofList ms)
  | _ => throw s!"type {k}"

/-! rendering -/

def sJson (s : Str) : Json := Json.str (String.ofList s)

def avalJson : AVal → Json
  | .str s => Json.mkObj [("s", sJson s)]
  | .bool b => Json.mkObj [("b", b)]
  | .int i => Json.mkObj [("i", Json.str (toString i))]
  | .dec d => Json.mkObj [("d", Json.arr #[d.neg, Json.str (toString d.coef), d.scale])]
  | .flt s => Json.mkObj [("f", sJson s)]
  | .hex s => Json.mkObj [("x", sJson s)]
  | .b64 s => Json.mkObj [("y", sJson s)]
  | .dt v => Json.mkObj [("dt", Json.arr #[kindStr v.kind, Json.str (toString v.year), v.month, v.day,
      v.hour, v.minute, v.second, v.micro, match v.tz with | none => Json.null | some t => Json.num (JsonNumber.fromInt t)])]
  | .dur v => Json.mkObj [("dur", Json.arr #[Json.str (toString v.months), Json.str (toString v.micros)])]

def valJson : Val → Json
  | .none => Json.null
  | .atom a => avalJson a
  | .list l => Json.mkObj [("l", Json.arr (l.map fun | none => Json.null | some a => avalJson a).toArray)]

def errStr : Err → String
  | .decode => "decode" | .validation => "validation" | .oracleMiss => "oracle-miss"
  | .unsupported => "unsupported"

/-- text of `str(Decimal)` -/
def reprStr (neg : Bool) : DecRepr → Str
  | .plain ds => (if neg then ['-'] else []) ++ ds
  | .point ip fp => (if neg then ['-'] else []) ++ ip ++ ['.'] ++ fp
  | .sci d r e => (if neg then ['-'] else []) ++ [d] ++ (if r.isEmpty then [] else '.' :: r) ++
      "E-".toList ++ natDigits e

/-- `from_python` of the built-in for the value decoded (int / boolean / decimal) -/
def encJson : Val → Json
  | .atom (.int i) => sJson (intToStr i)
  | .atom (.bool b) => Json.str (if b then "true" else "false")
  | .atom (.dec d) => sJson (reprStr d.neg (decRepr (natDigits d.coef) d.scale))
  | _ => Json.null

def digitsJson (fix : Bool) : Val → Json
  | v => match v.digits? fix with
    | some (a, b) => Json.arr #[a, b]
    | none => Json.null

def conv (P : Nat → Str → Option Bool) : Conv where
  dt := parseDt
  dur := parseDur
  hex := hexOk
  b64 := parseB64
  fltOk := fun t => (P 0 t).getD false   -- Python float(): oracle id 0 (see harness)
  bool := lookupBool XsVerif.Generated.booleanMap

def handleDecode (j : Json) : Except String Json := do
  let W := if (← getStr j "wsclass") == "py" then isPyWs else isXmlWs
  let v11 ← getBool j "v11"
  let pats ← (← getArr j "pats").toList.mapM fun e => do
    let a ← e.getArr?
    if h : a.size = 3 then pure ((← a[0].getNat?), (← strOf a[1]), (← a[2].getBool?))
    else throw "pat"
  let P : Nat → Str → Option Bool := mkP (← parseTable j) pats
  let cdFix ← getBool j "cdfix"
  -- C02-F12: `chain` = the patterns of every derivation step over a union are kept (repaired behaviour)
  let chain := match j.getObjVal? "chain" with | .ok (.bool b) => b | _ => true
  let E : Env := { W, cdFix, P, dtCmp := dtCompare v11,
                   durLtLe := fun _ _ => none }
  if let .ok (.arr items) := j.getObjVal? "seq" then
    -- values of one document, decoded one after the other in one validation context
    let its ← items.toList.mapM fun e => do
      pure (applyExempt (← parseType (← e.getObjVal? "type")), (← getS e "text"))
    let x := decodeSeq E (conv P) chain [] its
    return Json.mkObj [
      ("seq", Json.arr (x.1.map fun r => Json.mkObj [("val", valJson r.val),
        ("errs", Json.arr (r.errs.map fun e => Json.str (errStr e)).toArray)]).toArray),
      ("slot", Json.arr (x.2.map fun (n : Nat) => Json.num (JsonNumber.fromNat n)).toArray)]
  -- the facets are sent as declared; the model decides which length-family facets are not checked
  let ty := applyExempt (← parseType (← j.getObjVal? "type"))
  let text ← getS j "text"
  let r := decodeTop E (conv P) chain ty text
  return Json.mkObj [
    ("val", valJson r.val),
    ("errs", Json.arr (r.errs.map fun e => Json.str (errStr e)).toArray),
    ("enc", encJson r.val),
    ("digits", digitsJson cdFix r.val),
    ("collapse", sJson (wsCollapse W text)),
    ("replace", sJson (wsReplace W text)),
    ("words", Json.arr ((words W text).map sJson).toArray)]


/-! unit operations: one model function per request, compared by the harness with the function of /repo
    it ports (`op` field; requests without `op` are full decodes) -/

def decJson (d : Dec) : Json := Json.arr #[d.neg, Json.str (toString d.coef), d.scale]

def pairJson (p : Nat × Nat) : Json := Json.arr #[p.1, p.2]

def dtJson (v : DtVal) : Json := avalJson (.dt v)

/-- `hexOctets` of Lemmas/DatatypesBin.lean is proof-side; the driver reports the literal only -/
def handleOp (op : String) (j : Json) : Except String Json := do
  match op with
  | "ws" =>
    let text ← getS j "text"
    return Json.mkObj [
      ("collapse", sJson (wsCollapse isXmlWs text)),
      ("replace", sJson (wsReplace isXmlWs text)),
      ("words", Json.arr ((words isXmlWs (wsCollapse isXmlWs text)).map sJson).toArray)]
  | "dec" =>
    let text ← getS j "text"
    match parseDec text with
    | none => return Json.mkObj [("val", Json.null)]
    | some d =>
      return Json.mkObj [
        ("val", decJson d),
        ("str", sJson (reprStr d.neg (decRepr (natDigits d.coef) d.scale))),
        ("plain", sJson (decPlain d)),
        ("digits", pairJson (countDigitsDec true d)),
        ("reparse", match parseDec (decPlain d) with | some e => decJson e | none => Json.null)]
  | "int" =>
    let text ← getS j "text"
    match parseInt text with
    | none => return Json.mkObj [("val", Json.null)]
    | some i =>
      return Json.mkObj [
        ("val", Json.str (toString i)),
        ("enc", sJson (intToStr i)),
        ("digits", pairJson (countDigitsInt i))]
  | "cmp" =>
    let a ← getS j "a"
    let b ← getS j "b"
    match parseDec a, parseDec b with
    | some x, some y => return Json.mkObj [("lt", x.lt y), ("le", x.le y), ("eq", x.eqv y)]
    | _, _ => return Json.mkObj [("lt", Json.null)]
  | "hex" =>
    let text := epCollapse (← getS j "text")
    if hexOk text then
      return Json.mkObj [("ok", true), ("len", (Val.len? (.atom (.hex text))).getD 0), ("enc", sJson (encHex text))]
    else return Json.mkObj [("ok", false)]
  | "b64" =>
    let text := epCollapse (← getS j "text")
    match parseB64 text with
    | none => return Json.mkObj [("ok", false)]
    | some t =>
      return Json.mkObj [("ok", true), ("val", sJson t), ("len", b64Len t), ("enc", sJson (encB64 t)),
        ("reparse", match parseB64 (encB64 t) with | some u => sJson u | none => Json.null)]
  | "rx" =>
    -- one pattern group of the subset on one text
    let g ← (← getArr j "g").toList.mapM parseRx
    return Json.mkObj [("match", groupMatch g (← getS j "text"))]
  | "bool" =>
    let text ← getS j "text"
    match lookupBool XsVerif.Generated.booleanMap text with
    | none => return Json.mkObj [("val", Json.null)]
    | some b => return Json.mkObj [("val", b), ("enc", sJson (encBool b))]
  | "date" =>
    let text ← getS j "text"
    let v11 ← getBool j "v11"
    -- `fromstring` starts with `datetime_string.strip()` (Python's white-space class)
    match parseDt .date v11 (strip isPyWs text) with
    | none => return Json.mkObj [("val", Json.null)]
    | some v => return Json.mkObj [("val", dtJson v), ("str", sJson (dateStr v11 v))]
  | _ => throw s!"op {op}"

def handle (j : Json) : Except String Json :=
  match j.getObjVal? "op" with
  | .ok (.str op) => handleOp op j
  | _ => handleDecode j

end XsVerif.Driver.C02

def main : IO Unit := XsVerif.Driver.run XsVerif.Driver.C02.handle
