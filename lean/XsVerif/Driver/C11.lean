import XsVerif.Driver.Util
open Lean XsVerif.Driver

-- stub: replaced when the model of C11 lands
def main : IO Unit := XsVerif.Driver.run fun _ => .error "C11 driver not implemented"
