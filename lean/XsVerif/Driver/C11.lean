import XsVerif.Driver.Util
import XsVerif.Model.Limits
import XsVerif.Generated.C11
open Lean XsVerif.Driver XsVerif.Limits XsVerif.Generated.C11

namespace XsVerif.Driver.C11

def parseEvents (s : String) : List Ev :=
  s.toList.filterMap fun c =>
    if c == 's' then some Ev.start else if c == 'e' then some Ev.stop else if c == 'o' then some Ev.other else none

def resStr : ParseRes → String
  | .ok => "ok" | .depthExceeded => "depth" | .elementsExceeded => "elements"

def limitOf (s : String) : Except String Limit :=
  match s with
  | "modelDepth" => pure .modelDepth | "schemaSources" => pure .schemaSources
  | "xmlDepth" => pure .xmlDepth | "xmlElements" => pure .xmlElements | _ => throw "limit"

def limitsJson (l : Limits) : Json :=
  Json.mkObj [("modelDepth", Json.num (JsonNumber.fromInt l.modelDepth)),
              ("schemaSources", Json.num (JsonNumber.fromInt l.schemaSources)),
              ("xmlDepth", Json.num (JsonNumber.fromInt l.xmlDepth)),
              ("xmlElements", Json.num (JsonNumber.fromInt l.xmlElements))]

def lookup (n : String) : Option Exc := excTable.find? (·.name == n)

/-- sequence of assignments: the outcome of each and the final limits -/
def runSets (l : Limits) : List (Limit × Option Int) → List String × Limits
  | [] => ([], l)
  | (a, v) :: k =>
    match setLimit l a v with
    | .ok l' => let (r, f) := runSets l' k; ("ok" :: r, f)
    | .typeError => let (r, f) := runSets l k; ("type" :: r, f)
    | .valueError => let (r, f) := runSets l k; ("value" :: r, f)

def handle (j : Json) : Except String Json := do
  let op ← getStr j "op"
  match op with
  | "parse" =>
    let L ← getNat j "L"
    let E ← getNat j "E"
    let evs := parseEvents (← getStr j "events")
    return Json.mkObj [("eager", resStr (eagerParse L E evs)), ("lazy", resStr (lazyParse L evs)),
                       ("exc", match (eagerParse L E evs).excName with | some n => Json.str n | none => Json.null)]
  | "set" =>
    let ops ← (← getArr j "ops").toList.mapM fun x => do
      let a ← x.getArr?
      let lim ← limitOf (← (a[0]?.getD Json.null).getStr?)
      let v : Option Int := match a[1]?.getD Json.null with
        | .num n => if n.exponent == 0 then some n.mantissa else none
        | _ => none
      pure (lim, v)
    let (rs, fin) := runSets limitDefaults ops
    return Json.mkObj [("results", Json.arr (rs.map Json.str).toArray), ("final", limitsJson fin),
                       ("applyAll", limitsJson (applyAll limitDefaults ops))]
  | "classify" =>
    let n ← getStr j "name"
    match lookup n with
    | none => return Json.mkObj [("class", "unknown")]
    | some c =>
      let o := match classify (some c) with
        | .verdict => "verdict" | .libraryError => "library" | .foreign => "foreign"
      return Json.mkObj [("class", o), ("mro", Json.arr (c.mro.map Json.str).toArray)]
  | "covers" =>
    let site ← getStr j "site"
    let n ← getStr j "name"
    match sites.find? (·.name == site), lookup n with
    | some s, some c => return Json.mkObj [("covers", catches s.handlers c)]
    | _, _ => return Json.mkObj [("covers", Json.null)]
  | _ => throw s!"unknown op {op}"

end XsVerif.Driver.C11

def main : IO Unit := XsVerif.Driver.run XsVerif.Driver.C11.handle
