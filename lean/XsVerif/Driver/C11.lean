import XsVerif.Driver.Util
import XsVerif.Model.Limits
import XsVerif.Model.RaisePolicy
import XsVerif.Generated.C11
open Lean XsVerif.Driver XsVerif.Limits XsVerif.Generated.C11 XsVerif.RaisePolicy

namespace XsVerif.Driver.C11

def parseEvents (s : String) : List Ev :=
  s.toList.filterMap fun c =>
    if c == 's' then some Ev.start else if c == 'e' then some Ev.stop else if c == 'o' then some Ev.other else none

def resStr : ParseRes → String
  | .ok => "ok" | .depthExceeded => "depth" | .elementsExceeded => "elements"

def limitOf (s : String) : Except String Limit :=
  match s with
  | "modelDepth" => pure .modelDepth | "schemaSources" => pure .schemaSources
  | "xmlDepth" => pure .xmlDepth | "xmlElements" => pure .xmlElements | _ => throw "limit"

def limitsJson (l : Limits) : Json :=
  Json.mkObj [("modelDepth", Json.num (JsonNumber.fromInt l.modelDepth)),
              ("schemaSources", Json.num (JsonNumber.fromInt l.schemaSources)),
              ("xmlDepth", Json.num (JsonNumber.fromInt l.xmlDepth)),
              ("xmlElements", Json.num (JsonNumber.fromInt l.xmlElements))]

def lookup (n : String) : Option Exc := excTable.find? (·.name == n)

/-- sequence of assignments: the outcome of each and the final limits -/
def runSets (l : Limits) : List (Limit × Option Int) → List String × Limits
  | [] => ([], l)
  | (a, v) :: k =>
    match setLimit l a v with
    | .ok l' => let (r, f) := runSets l' k; ("ok" :: r, f)
    | .typeError => let (r, f) := runSets l k; ("type" :: r, f)
    | .valueError => let (r, f) := runSets l k; ("value" :: r, f)

def chainForest : Nat → Forest
  | 0 => .nil 0
  | n + 1 => .cons 0 (chainForest n) (.nil 0)

def modeOf (s : String) : Except String Modes.Mode :=
  match s with
  | "strict" => pure .strict | "lax" => pure .lax | "skip" => pure .skip | _ => throw "mode"

def kindStr : Kind → String
  | .strictGuard => "strictGuard" | .strictWrapper => "strictWrapper" | .propagates => "propagates"
  | .caught => "caught" | .buildTime => "buildTime" | .notBuilt => "notBuilt" | .abstractStub => "abstractStub"
  | .invariant => "invariant" | .apiArgument => "apiArgument" | .limit => "limit" | .stop => "stop"
  | .content => "content"

def fireStr : Fire → String
  | .silent => "silent" | .collected => "collected" | .escapes => "escapes"

/-- the site of the regenerated table with this key and index -/
def findSite (key : String) (idx : Nat) : Option RaiseSite :=
  raiseSites.find? fun s => s.key == key && s.idx == idx

def reachedOfSite (s : RaiseSite) (nested : Option Modes.Mode) : Option Reached :=
  (kindOf (policyOf recursionGuard) s).map fun k => ⟨k, s.guard, s.cls, nested⟩

def nestedOf (j : Json) : Option Modes.Mode :=
  match j with
  | .str "strict" => some .strict | .str "lax" => some .lax | .str "skip" => some .skip | _ => none

def handle (j : Json) : Except String Json := do
  let op ← getStr j "op"
  match op with
  | "parse" =>
    let L ← getNat j "L"
    let E ← getNat j "E"
    let evs := parseEvents (← getStr j "events")
    return Json.mkObj [("eager", resStr (eagerParse L E evs)), ("lazy", resStr (lazyParse L evs)),
                       ("exc", match (eagerParse L E evs).excName with | some n => Json.str n | none => Json.null)]
  | "set" =>
    let ops ← (← getArr j "ops").toList.mapM fun x => do
      let a ← x.getArr?
      let lim ← limitOf (← (a[0]?.getD Json.null).getStr?)
      let v : Option Int := match a[1]?.getD Json.null with
        | .num n => if n.exponent == 0 then some n.mantissa else none
        | _ => none
      pure (lim, v)
    let (rs, fin) := runSets limitDefaults ops
    return Json.mkObj [("results", Json.arr (rs.map Json.str).toArray), ("final", limitsJson fin),
                       ("applyAll", limitsJson (applyAll limitDefaults ops))]
  | "classify" =>
    let n ← getStr j "name"
    match lookup n with
    | none => return Json.mkObj [("class", "unknown")]
    | some c =>
      let o := match classify (some c) with
        | .verdict => "verdict" | .libraryError => "library" | .foreign => "foreign"
      return Json.mkObj [("class", o), ("mro", Json.arr (c.mro.map Json.str).toArray)]
  | "covers" =>
    let site ← getStr j "site"
    let n ← getStr j "name"
    match sites.find? (·.name == site), lookup n with
    | some s, some c => return Json.mkObj [("covers", catches s.handlers c)]
    | _, _ => return Json.mkObj [("covers", Json.null)]
  | "site" =>
    -- what the model says a raise statement does in a mode
    let key ← getStr j "key"
    let idx ← getNat j "idx"
    let m ← modeOf (← getStr j "mode")
    match findSite key idx with
    | none => return Json.mkObj [("known", false)]
    | some s =>
      match kindOf (policyOf recursionGuard) s with
      | none => return Json.mkObj [("known", true), ("kind", Json.null)]
      | some k => return Json.mkObj [("known", true), ("kind", kindStr k), ("fire", fireStr (fire k s.guard m)),
                                     ("resourceOrStop", k.resourceOrStop), ("reachable", s.reachable)]
  | "run" =>
    -- a descent as the sequence of raise statements it executed: [[key, idx, literal mode of the sub-descent | null], …]
    let m ← modeOf (← getStr j "mode")
    let items ← (← getArr j "script").toList.mapM fun x => do
      let a ← x.getArr?
      let key ← (a[0]?.getD Json.null).getStr?
      let idx ← (a[1]?.getD Json.null).getNat?
      pure (key, idx, nestedOf (a[2]?.getD Json.null))
    let script := items.filterMap fun (key, idx, n) => (findSite key idx).bind (reachedOfSite · n)
    if script.length != items.length then return Json.mkObj [("unknown_site", true)]
    let r := XsVerif.RaisePolicy.run m script
    return Json.mkObj [("raised", match r.raised with | some x => Json.str x.cls | none => Json.null),
                       ("raisedKind", match r.raised with | some x => Json.str (kindStr x.kind) | none => Json.null),
                       ("collected", r.collected.length)]
  | "descent" =>
    -- validation of a chain document of `depth` levels with `free` interpreter frames
    let L ← getNat j "L"
    let E ← getNat j "E"
    let d ← getNat j "depth"
    let free ← getNat j "free"
    let tail ← getNat j "tail"
    let f := chainForest d
    return Json.mkObj [("guarded", recursionGuard),
                       ("exc", match processExc recursionGuard L E free tail f with | some n => Json.str n | none => Json.null),
                       ("fits", descendFits tail f free)]
  | _ => throw s!"unknown op {op}"

end XsVerif.Driver.C11

def main : IO Unit := XsVerif.Driver.run XsVerif.Driver.C11.handle
