import XsVerif.Driver.Util
import XsVerif.Model.Defuse
import XsVerif.Model.Prolog
import XsVerif.Model.OpenFlow
open Lean XsVerif.Driver XsVerif.Defuse

namespace XsVerif.Driver.C13

def parseMode (s : String) : Except String Mode :=
  match s with
  | "never" => pure .never | "remote" => pure .remote | "nonlocal" => pure .nonlocal
  | "always" => pure .always | _ => throw "mode"

def parseBase (s : String) : Except String BaseClass :=
  match s with
  | "absent" => pure .absent | "local" => pure .loc | "remote" => pure .remote
  | "neither" => pure .neither | _ => throw "base"

def parseIo (s : String) : Except String IoKind :=
  match s with
  | "raw" => pure .raw | "buffered" => pure .buffered | "text" => pure .text | "other" => pure .other
  | _ => throw "io"

/-- `"variant": {"grow_buf": b, "wrap_text": b, "grow_text": b}`; absent = the tree without the repairs -/
def parseVariant (j : Json) : Except String Variant :=
  match j.getObjVal? "variant" with
  | .ok v => do
    pure { growBuf := ← getBool v "grow_buf", wrapText := ← getBool v "wrap_text", growText := ← getBool v "grow_text" }
  | .error _ => pure Variant.current

def planStr : Plan → String
  | .noDefuse => "no-defuse" | .rewind => "rewind" | .wrapRaw => "wrap-raw"
  | .wrapBuffered => "wrap-buffered" | .wrapText => "wrap-text" | .secondOpen => "second-open"
  | .refuse => "refuse"

def outcomeStr : Outcome → String
  | .parsed => "parsed" | .forbidden => "forbidden" | .oserror => "oserror"

/-- the synthetic stream both sides use: byte i = (7 i + 3) mod 251 -/
def synth (n : Nat) : List Nat := (List.range n).map fun i => (7 * i + 3) % 251

/-- canonical digest of a chunk: length, sum mod 65521, first and last byte -/
def digest (d : List Nat) : Json :=
  let sum : Nat := d.foldl (fun (a x : Nat) => (a + x) % 65521) 0
  let first : Nat := d.head?.getD 0
  let last : Nat := d.getLast?.getD 0
  Json.arr #[toJson d.length, toJson sum, toJson first, toJson last]

def parseOp (j : Json) : Except String Op := do
  let a ← j.getArr?
  match a[0]? with
  | some (.str "read") =>
    match a[1]? with
    | some .null => pure (.read none)
    | some v => do pure (.read (some (← v.getNat?)))
    | none => pure (.read none)
  | some (.str "seek") =>
    match a[1]? with
    | some v => do pure (.seek (← v.getNat?))
    | none => throw "seek"
  | some (.str "tell") => pure .tell
  | _ => throw "op"

def outJson : Out → Json
  | .data d => Json.mkObj [("d", digest d)]
  | .at p => Json.mkObj [("at", p)]
  | .oserror => Json.str "oserror"

/-! ### prolog grammar: JSON syntax tree → `Prolog` -/

open XsVerif.Prolog in
def toBytes (s : String) : Bytes := s.toUTF8.toList.map (·.toNat)

def hexDigit (n : Nat) : Char := if n < 10 then Char.ofNat (48 + n) else Char.ofNat (87 + n)

def toHex (b : List Nat) : String :=
  b.foldl (fun (acc : String) x => (acc.push (hexDigit (x / 16))).push (hexDigit (x % 16))) ""

def hexVal (c : Char) : Except String Nat :=
  let n := c.toNat
  if 48 ≤ n ∧ n ≤ 57 then pure (n - 48)
  else if 97 ≤ n ∧ n ≤ 102 then pure (n - 87)
  else throw "hex"

def fromHexAux : List Char → List Nat → Except String (List Nat)
  | [], acc => pure acc.reverse
  | [_], _ => throw "hex: odd length"
  | a :: b :: rest, acc => do
    let x ← hexVal a
    let y ← hexVal b
    fromHexAux rest ((x * 16 + y) :: acc)

def fromHex (s : String) : Except String (List Nat) := fromHexAux s.toList []

def bytesToString (b : List Nat) : String := String.ofList (b.map Char.ofNat)

namespace P
open XsVerif.Prolog

def arr (j : Json) : Except String (Array Json) := j.getArr?
def strAt (a : Array Json) (i : Nat) : Except String String :=
  match a[i]? with
  | some v => v.getStr?
  | none => throw s!"missing item {i}"
def at' (a : Array Json) (i : Nat) : Except String Json :=
  match a[i]? with
  | some v => pure v
  | none => throw s!"missing item {i}"

def lit (j : Json) : Except String Lit := do
  let a ← arr j
  let q ← match (← strAt a 0) with
    | "dq" => pure Quote.dq
    | "sq" => pure Quote.sq
    | _ => throw "quote"
  pure { q := q, body := toBytes (← strAt a 1) }

def extId (j : Json) : Except String ExtId := do
  let a ← arr j
  match (← strAt a 0) with
  | "system" => pure (.system (← lit (← at' a 1)))
  | "public" => pure (.pub (← lit (← at' a 1)) (← lit (← at' a 2)))
  | _ => throw "extid"

def entDef (j : Json) : Except String EntDef := do
  let a ← arr j
  match (← strAt a 0) with
  | "value" => pure (.value (← lit (← at' a 1)))
  | "ext" => pure (.ext (← extId (← at' a 1)))
  | "ndata" => pure (.ndata (← extId (← at' a 1)) (toBytes (← strAt a 2)))
  | _ => throw "entdef"

def attDefault (j : Json) : Except String AttDefault := do
  let a ← arr j
  match (← strAt a 0) with
  | "kw" => pure (.kw (toBytes (← strAt a 1)))
  | "lit" => pure (.lit (← lit (← at' a 1)))
  | "fixed" => pure (.fixed (← lit (← at' a 1)))
  | _ => throw "attdefault"

def attDef (j : Json) : Except String AttDef := do
  let a ← arr j
  pure { name := toBytes (← strAt a 0), type := toBytes (← strAt a 1), dflt := ← attDefault (← at' a 2) }

def decl (j : Json) : Except String Decl := do
  let a ← arr j
  match (← strAt a 0) with
  | "entity" => pure (.entity (← (← at' a 1).getBool?) (toBytes (← strAt a 2)) (← entDef (← at' a 3)))
  | "notation" => pure (.notationDecl (toBytes (← strAt a 1)) (← extId (← at' a 2)))
  | "element" => pure (.element (toBytes (← strAt a 1)) (toBytes (← strAt a 2)))
  | "attlist" => pure (.attlist (toBytes (← strAt a 1)) (← (← arr (← at' a 2)).toList.mapM attDef))
  | "comment" => pure (.comment (toBytes (← strAt a 1)))
  | "pi" => pure (.pi (toBytes (← strAt a 1)) (toBytes (← strAt a 2)))
  | "peref" => pure (.peRef (toBytes (← strAt a 1)))
  | "space" => pure (.space (toBytes (← strAt a 1)))
  | _ => throw "decl"

def misc (j : Json) : Except String Misc := do
  let a ← arr j
  match (← strAt a 0) with
  | "comment" => pure (.comment (toBytes (← strAt a 1)))
  | "pi" => pure (.pi (toBytes (← strAt a 1)) (toBytes (← strAt a 2)))
  | "space" => pure (.space (toBytes (← strAt a 1)))
  | _ => throw "misc"

def optional {α : Type} (j : Json) (k : String) (f : Json → Except String α) : Except String (Option α) :=
  match j.getObjVal? k with
  | .ok .null => pure none
  | .ok v => do pure (some (← f v))
  | .error _ => pure none

def xmlDecl (j : Json) : Except String XmlDecl := do
  pure { encoding := ← optional j "encoding" (fun v => do pure (toBytes (← v.getStr?))),
         standalone := ← optional j "standalone" (fun v => v.getBool?) }

def doctype (j : Json) : Except String Doctype := do
  pure { name := toBytes (← getStr j "name"),
         ext := ← optional j "ext" extId,
         subset := ← optional j "subset" (fun v => do (← arr v).toList.mapM decl) }

def prolog (j : Json) : Except String Prolog := do
  pure { bom := ← getBool j "bom",
         xmlDecl := ← optional j "xmldecl" xmlDecl,
         misc1 := ← (← getArr j "misc1").toList.mapM misc,
         doctype := ← optional j "doctype" doctype,
         misc2 := ← (← getArr j "misc2").toList.mapM misc }

def verdictJson : Verdict → Json
  | .clean => Json.mkObj [("v", "clean")]
  | .entity n => Json.mkObj [("v", "entity"), ("name", bytesToString n)]
  | .unparsed n => Json.mkObj [("v", "unparsed"), ("name", bytesToString n)]
  | .external => Json.mkObj [("v", "external")]
  | .malformed => Json.mkObj [("v", "malformed")]

def pevJson : PEv → Json
  | .declared v => Json.arr #["declared", verdictJson v]
  | .extSubset => Json.arr #["ext-subset"]
  | .expanded n => Json.arr #["expanded", bytesToString n]
  | .undefinedRef n => Json.arr #["undefined", bytesToString n]
  | .binaryRef n => Json.arr #["binary", bytesToString n]

end P

/-! ### build traces -/

def parseKind (s : String) : Except String Kind :=
  match s with
  | "main" => pure .main | "include" => pure .incl | "import" => pure .imp | _ => throw "kind"

def parseRes (j : Json) : Except String Res := do
  pure { id := ← getNat j "id", base := ← parseBase (← getStr j "base"),
         ch := { seekable := ← getBool j "seekable", io := ← parseIo (← getStr j "io"),
                 hasOpener := ← getBool j "opener", hasUrl := ← getBool j "url" },
         mustRefuse := ← getBool j "must_refuse", total := ← getNat j "total", tagEnd := ← getNat j "tag_end" }

/-- a list of sibling nodes (JSON arrays of objects with "children"), fuel = nesting depth bound -/
def parseForest : Nat → List Json → Except String Forest
  | 0, _ => throw "forest too deep"
  | _, [] => pure .nil
  | fuel + 1, j :: rest => do
    let r ← parseRes j
    let k ← parseKind (← getStr j "kind")
    let c ← parseForest fuel (← getArr j "children").toList
    let s ← parseForest (fuel + 1) rest
    pure (.cons r k c s)
termination_by fuel l => (fuel, l.length)

def evJson : Ev → Json
  | .opened r => Json.arr #["opened", r.id]
  | .scanned r => Json.arr #["scanned", r.id]
  | .parsed r => Json.arr #["parsed", r.id]
  | .failed r o => Json.arr #["failed", r.id, outcomeStr o]

def statusStr : Status → String
  | .ok => "ok"
  | .raised o => outcomeStr o

def handle (j : Json) : Except String Json := do
  let op ← getStr j "op"
  match op with
  | "plan" =>
    let v ← parseVariant j
    let m ← parseMode (← getStr j "mode")
    let b ← parseBase (← getStr j "base")
    let ch : Chan := { seekable := ← getBool j "seekable", io := ← parseIo (← getStr j "io"),
                       hasOpener := ← getBool j "opener", hasUrl := ← getBool j "url" }
    let pl := plan v m b ch
    return Json.mkObj [("defused", isDefused m b), ("plan", planStr pl),
      ("outcome", outcomeStr (outcome pl (← getBool j "must_refuse") (← getNat j "scan_end") (← getNat j "buf_len")))]
  | "doc" =>
    let v ← parseVariant j
    let m ← parseMode (← getStr j "mode")
    let b ← parseBase (← getStr j "base")
    let ch : Chan := { seekable := ← getBool j "seekable", io := ← parseIo (← getStr j "io"),
                       hasOpener := ← getBool j "opener", hasUrl := ← getBool j "url" }
    let pl := plan v m b ch
    let total ← getNat j "total"
    let tagEnd ← getNat j "tag_end"
    return Json.mkObj [("plan", planStr pl),
      ("outcome", outcomeStr (outcomeDoc v pl (← getBool j "must_refuse") total tagEnd)),
      ("scan_end", scanEndOf total tagEnd), ("buf_len", bufLenAfter (growOf v pl) total tagEnd)]
  | "prolog" =>
    let p ← P.prolog (← j.getObjVal? "ast")
    let root := toBytes (← getStr j "root")
    let bytes := p.render
    return Json.mkObj [("wf", p.wf), ("hex", toHex bytes), ("len", bytes.length),
      ("handler", P.verdictJson (XsVerif.Prolog.firstHandler p)),
      ("classify", P.verdictJson (XsVerif.Prolog.classify (bytes ++ root))),
      ("must_refuse", XsVerif.Prolog.mustRefuse p), ("regular", XsVerif.Prolog.regular p),
      ("standalone", p.standalone)]
  | "classify" =>
    let bytes ← fromHex (← getStr j "hex")
    return Json.mkObj [("classify", P.verdictJson (XsVerif.Prolog.classify bytes))]
  | "witness" =>
    -- the two named counter-examples of Props/C13.lean, rendered
    let w := match (← getStr j "name") with
      | "standalone" => some (⟨false, some ⟨none, some true⟩, [], some ⟨[114], some (.system ⟨.dq, [120]⟩), none⟩, []⟩ : XsVerif.Prolog.Prolog)
      | "peref" => some ⟨false, none, [], some ⟨[114], none, some [.peRef [112], .entity false [101] (.value ⟨.dq, [118]⟩)]⟩, []⟩
      | _ => none
    match w with
    | none => throw "witness"
    | some p =>
      return Json.mkObj [("hex", toHex p.render), ("must_refuse", XsVerif.Prolog.mustRefuse p),
        ("classify", P.verdictJson (XsVerif.Prolog.classify (p.render ++ [60, 114, 47, 62])))]
  | "build" =>
    let v ← parseVariant j
    let m ← parseMode (← getStr j "mode")
    let f ← parseForest 64 [← j.getObjVal? "root"]
    let (evs, st) := build v m f
    return Json.mkObj [("events", Json.arr (evs.map evJson).toArray), ("status", statusStr st)]
  | "reader" =>
    let s := synth (← getNat j "len")
    let ops ← (← getArr j "ops").toList.mapM parseOp
    let g := (j.getObjValAs? Bool "grow").toOption.getD false
    let r := Reader.init g (← getNat j "size") s
    let final := match r.exec ops with
      | some r' => Json.mkObj [("pos", r'.pos), ("buf", r'.buf.length), ("grow", r'.grow)]
      | none => Json.null
    return Json.mkObj [("buf", r.buf.length), ("outs", Json.arr ((r.run ops).map outJson).toArray), ("final", final)]
  | "scan" =>
    -- a sequential scan (reads `ks`), the rewind, the reads of the parser (`ms`), then read to the end
    let s := synth (← getNat j "len")
    let g ← getBool j "grow"
    let ks ← (← getArr j "ks").toList.mapM (·.getNat?)
    let ms ← (← getArr j "ms").toList.mapM (·.getNat?)
    let (sc, r) := (Reader.init g (← getNat j "size") s).readMany ks
    match r.seek 0 with
    | none => return Json.mkObj [("scan", digest sc), ("pos", r.pos), ("buf", r.buf.length), ("seek_ok", false)]
    | some r1 =>
      let (pa, r2) := r1.readMany ms
      return Json.mkObj [("scan", digest sc), ("pos", r.pos), ("buf", r.buf.length), ("seek_ok", true),
        ("parse", digest pa), ("rest", digest (r2.read none).1)]
  | "open_flow" =>
    -- a file-like source in an initial state: where the scan starts, where the parser starts, whether the scan
    -- lets the stream through (and what a scan started at the initial position would have said)
    let data ← fromHex (← getStr j "hex")
    let st : XsVerif.OpenFlow.Stream := { seekable := ← getBool j "seekable", data := data, pos := ← getNat j "pos" }
    let defused ← getBool j "defused"
    return Json.mkObj [("scan_from", st.afterGuard), ("parse_from", st.parseFrom),
      ("refused", (XsVerif.OpenFlow.openResult defused st).isNone),
      ("scan_verdict", P.verdictJson (XsVerif.Prolog.classify st.scanned)),
      ("parsed", digest ((XsVerif.OpenFlow.openResult defused st).getD []))]
  | "given" =>
    -- a file-like object given as source, possibly declaring a URL: the way open() defuses it and whether the scan
    -- is fed the stream itself (web: the declared URL delivers [0], every other URL [])
    let v ← parseVariant j
    let m ← parseMode (← getStr j "mode")
    let b ← parseBase (← getStr j "base")
    let data ← fromHex (← getStr j "hex")
    let sk ← getBool j "seekable"
    let io ← parseIo (← getStr j "io")
    let op ← getBool j "opener"
    let decl ← getBool j "declared"
    let du : Option Nat := if decl then some 1 else none
    let st0 : XsVerif.OpenFlow.Stream := ⟨sk, data, 0⟩
    let g : XsVerif.OpenFlow.Given := ⟨st0, io, op, du⟩
    let web : Nat → List Nat := fun u => if u = 1 then [0] else []
    let sc := XsVerif.OpenFlow.scanInput v m b web g
    return Json.mkObj [("plan", planStr (plan v m b g.chan)),
      ("scans_stream", sc == some g.st.scanned), ("scans", sc.isSome),
      ("parses_stream", XsVerif.OpenFlow.parseInput v m b g == some g.st.parsed)]
  | "events" =>
    let p ← P.prolog (← j.getObjVal? "ast")
    let refs ← (← getArr j "refs").toList.mapM (fun v => do pure (toBytes (← v.getStr?)))
    return Json.mkObj [("prolog", Json.arr ((XsVerif.Prolog.prologEvents p).map P.pevJson).toArray),
      ("refs", Json.arr ((refs.map (XsVerif.Prolog.refEvent p)).map P.pevJson).toArray),
      ("handler", P.verdictJson (XsVerif.Prolog.firstHandler p)),
      ("hot", (XsVerif.Prolog.docEvents p refs).any XsVerif.Prolog.PEv.hot)]
  | _ => throw s!"unknown op {op}"

end XsVerif.Driver.C13

def main : IO Unit := XsVerif.Driver.run XsVerif.Driver.C13.handle
