import XsVerif.Driver.Util
open Lean XsVerif.Driver

-- stub: replaced when the model of C13 lands
def main : IO Unit := XsVerif.Driver.run fun _ => .error "C13 driver not implemented"
