import XsVerif.Driver.Util
import XsVerif.Model.Defuse
open Lean XsVerif.Driver XsVerif.Defuse

namespace XsVerif.Driver.C13

def parseMode (s : String) : Except String Mode :=
  match s with
  | "never" => pure .never | "remote" => pure .remote | "nonlocal" => pure .nonlocal
  | "always" => pure .always | _ => throw "mode"

def parseBase (s : String) : Except String BaseClass :=
  match s with
  | "absent" => pure .absent | "local" => pure .loc | "remote" => pure .remote
  | "neither" => pure .neither | _ => throw "base"

def parseIo (s : String) : Except String IoKind :=
  match s with
  | "raw" => pure .raw | "buffered" => pure .buffered | "other" => pure .other | _ => throw "io"

def planStr : Plan → String
  | .noDefuse => "no-defuse" | .rewind => "rewind" | .wrapRaw => "wrap-raw"
  | .wrapBuffered => "wrap-buffered" | .secondOpen => "second-open" | .refuse => "refuse"

def outcomeStr : Outcome → String
  | .parsed => "parsed" | .forbidden => "forbidden" | .oserror => "oserror"

/-- the synthetic stream both sides use: byte i = (7 i + 3) mod 251 -/
def synth (n : Nat) : List Nat := (List.range n).map fun i => (7 * i + 3) % 251

/-- canonical digest of a chunk: length, sum mod 65521, first and last byte -/
def digest (d : List Nat) : Json :=
  let sum : Nat := d.foldl (fun (a x : Nat) => (a + x) % 65521) 0
  let first : Nat := d.head?.getD 0
  let last : Nat := d.getLast?.getD 0
  Json.arr #[toJson d.length, toJson sum, toJson first, toJson last]

def parseOp (j : Json) : Except String Op := do
  let a ← j.getArr?
  match a[0]? with
  | some (.str "read") =>
    match a[1]? with
    | some .null => pure (.read none)
    | some v => do pure (.read (some (← v.getNat?)))
    | none => pure (.read none)
  | some (.str "seek") =>
    match a[1]? with
    | some v => do pure (.seek (← v.getNat?))
    | none => throw "seek"
  | some (.str "tell") => pure .tell
  | _ => throw "op"

def outJson : Out → Json
  | .data d => Json.mkObj [("d", digest d)]
  | .at p => Json.mkObj [("at", p)]
  | .oserror => Json.str "oserror"

def handle (j : Json) : Except String Json := do
  let op ← getStr j "op"
  match op with
  | "plan" =>
    let m ← parseMode (← getStr j "mode")
    let b ← parseBase (← getStr j "base")
    let ch : Chan := { seekable := ← getBool j "seekable", io := ← parseIo (← getStr j "io"),
                       hasOpener := ← getBool j "opener", hasUrl := ← getBool j "url" }
    let pl := plan m b ch
    return Json.mkObj [("defused", isDefused m b), ("plan", planStr pl),
      ("outcome", outcomeStr (outcome pl (← getBool j "must_refuse") (← getNat j "scan_end") (← getNat j "buf_len")))]
  | "reader" =>
    let s := synth (← getNat j "len")
    let ops ← (← getArr j "ops").toList.mapM parseOp
    let r := Reader.init (← getNat j "size") s
    return Json.mkObj [("buf", r.buf.length), ("outs", Json.arr ((r.run ops).map outJson).toArray)]
  | _ => throw s!"unknown op {op}"

end XsVerif.Driver.C13

def main : IO Unit := XsVerif.Driver.run XsVerif.Driver.C13.handle
