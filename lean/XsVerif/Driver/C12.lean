import XsVerif.Driver.Util
import XsVerif.Model.Access
open Lean XsVerif.Driver XsVerif.Access

namespace XsVerif.Driver.C12

/-- strings travel as JSON strings whose code points are the byte values (latin-1 view). -/
def toBytes (s : String) : Bytes := s.toList.map Char.toNat
def ofBytes (b : Bytes) : String := String.ofList (b.map Char.ofNat)
def jb (b : Bytes) : Json := Json.str (ofBytes b)

def optBytes (j : Json) (k : String) : Except String (Option Bytes) :=
  match j.getObjVal? k with
  | .ok (.str s) => pure (some (toBytes s))
  | .ok .null => pure none
  | .error _ => pure none
  | _ => throw s!"{k}: string or null expected"

def parseAllow (s : String) : Except String Allow :=
  match s with
  | "all" => pure .all | "remote" => pure .remote | "local" => pure .loc
  | "sandbox" => pure .sandbox | "none" => pure .none | _ => throw "allow"

def decisionStr : Decision → String
  | .ok => "ok" | .blockedNone => "blocked-none" | .blockedLocal => "blocked-local"
  | .blockedRemote => "blocked-remote" | .blockedSandbox => "blocked-sandbox"

def normJson : Norm → Json
  | .file p u => Json.mkObj [("kind", "file"), ("path", jb p), ("url", jb u)]
  | .remote s n j => Json.mkObj [("kind", "remote"), ("scheme", jb s), ("netloc", jb n),
      ("joined", match j with | some p => jb p | none => Json.null)]
  | .outOfScope => Json.mkObj [("kind", "out-of-scope")]
  | .error => Json.mkObj [("kind", "error")]

def classStr : UrlClass → String
  | .loc => "local" | .remote => "remote" | .neither => "neither"

def handle (j : Json) : Except String Json := do
  let op ← getStr j "op"
  match op with
  | "norm" =>
    let cwd := toBytes (← getStr j "cwd")
    let base ← optBytes j "base"
    let url := toBytes (← getStr j "url")
    return Json.mkObj [("norm", normJson (normalizeUrl cwd base url)), ("class", classStr (classify url))]
  | "normpath" =>
    let p := toBytes (← getStr j "p")
    return Json.mkObj [("r", jb (normpath p)), ("q", jb (quote p)), ("uq", jb (unquote p)),
      ("dirname", jb (dirname p))]
  | "split" =>
    let s := urlsplit (toBytes (← getStr j "u"))
    return Json.mkObj [("scheme", jb s.scheme), ("netloc", jb s.netloc), ("path", jb s.path),
      ("query", jb s.query), ("fragment", jb s.fragment)]
  | "access" =>
    let a ← parseAllow (← getStr j "allow")
    let base ← optBytes j "base"
    let url ← optBytes j "url"
    return Json.mkObj [("decision", decisionStr (accessControl a base url)),
      ("class", match url with | some u => classStr (classify u) | none => "none")]
  | "resolve" =>
    let a ← parseAllow (← getStr j "allow")
    let cwd := toBytes (← getStr j "cwd")
    let base ← optBytes j "base"
    let loc := toBytes (← getStr j "loc")
    let r := resolve a cwd base loc
    return Json.mkObj [("norm", normJson r.norm),
      ("base", match r.baseNorm with | some b => normJson b | none => Json.null),
      ("decision", match r.decision with | some d => Json.str (decisionStr d) | none => Json.null)]
  | _ => throw s!"unknown op {op}"

end XsVerif.Driver.C12

def main : IO Unit := XsVerif.Driver.run XsVerif.Driver.C12.handle
