import XsVerif.Driver.Util
import XsVerif.Model.Access
import XsVerif.Model.AccessTrace
open Lean XsVerif.Driver XsVerif.Access

namespace XsVerif.Driver.C12

/-- strings travel as JSON strings whose code points are the byte values (latin-1 view). -/
def toBytes (s : String) : Bytes := s.toList.map Char.toNat
def ofBytes (b : Bytes) : String := String.ofList (b.map Char.ofNat)
def jb (b : Bytes) : Json := Json.str (ofBytes b)

def optBytes (j : Json) (k : String) : Except String (Option Bytes) :=
  match j.getObjVal? k with
  | .ok (.str s) => pure (some (toBytes s))
  | .ok .null => pure none
  | .error _ => pure none
  | _ => throw s!"{k}: string or null expected"

def parseAllow (s : String) : Except String Allow :=
  match s with
  | "all" => pure .all | "remote" => pure .remote | "local" => pure .loc
  | "sandbox" => pure .sandbox | "none" => pure .none | _ => throw "allow"

def decisionStr : Decision → String
  | .ok => "ok" | .blockedNone => "blocked-none" | .blockedLocal => "blocked-local"
  | .blockedRemote => "blocked-remote" | .blockedSandbox => "blocked-sandbox"

def normJson : Norm → Json
  | .file p u => Json.mkObj [("kind", "file"), ("path", jb p), ("url", jb u)]
  | .remote s n j => Json.mkObj [("kind", "remote"), ("scheme", jb s), ("netloc", jb n),
      ("joined", match j with | some p => jb p | none => Json.null)]
  | .outOfScope => Json.mkObj [("kind", "out-of-scope")]
  | .error => Json.mkObj [("kind", "error")]

def classStr : UrlClass → String
  | .loc => "local" | .remote => "remote" | .neither => "neither"

def handle (j : Json) : Except String Json := do
  let op ← getStr j "op"
  match op with
  | "norm" =>
    let cwd := toBytes (← getStr j "cwd")
    let base ← optBytes j "base"
    let url := toBytes (← getStr j "url")
    return Json.mkObj [("norm", normJson (normalizeUrl cwd base url)), ("class", classStr (classify url))]
  | "normpath" =>
    let p := toBytes (← getStr j "p")
    return Json.mkObj [("r", jb (normpath p)), ("q", jb (quote p)), ("uq", jb (unquote p)),
      ("dirname", jb (dirname p))]
  | "split" =>
    let s := urlsplit (toBytes (← getStr j "u"))
    return Json.mkObj [("scheme", jb s.scheme), ("netloc", jb s.netloc), ("path", jb s.path),
      ("query", jb s.query), ("fragment", jb s.fragment)]
  | "access" =>
    let a ← parseAllow (← getStr j "allow")
    let base ← optBytes j "base"
    let url ← optBytes j "url"
    return Json.mkObj [("decision", decisionStr (accessControl a base url)),
      ("class", match url with | some u => classStr (classify u) | none => "none")]
  | "resolve" =>
    let a ← parseAllow (← getStr j "allow")
    let cwd := toBytes (← getStr j "cwd")
    let base ← optBytes j "base"
    let loc := toBytes (← getStr j "loc")
    let r := resolve a cwd base loc
    return Json.mkObj [("norm", normJson r.norm),
      ("base", match r.baseNorm with | some b => normJson b | none => Json.null),
      ("decision", match r.decision with | some d => Json.str (decisionStr d) | none => Json.null)]
  | "coding" =>
    -- the stdlib re-implementations, one string at a time (compared with CPython by the harness)
    let p := toBytes (← getStr j "p")
    let sp := urlsplit p
    return Json.mkObj [("normpath", jb (normpath p)), ("quote", jb (quote p)), ("unquote", jb (unquote p)),
      ("dirname", jb (dirname p)), ("utf8", validUtf8 p), ("uq_utf8", validUtf8 (unquote p)),
      ("quote_path", jb (quoteWith [47] p)), ("quote_netloc", jb (quoteWith [64, 58] p)),
      ("quote_query", jb (quoteWith querySafe p)), ("quote_local", jb (quoteWith [58, 47, 92] p)),
      ("unsplit", jb (urlunsplit sp.scheme sp.netloc sp.path sp.query sp.fragment)),
      ("split", Json.arr #[jb sp.scheme, jb sp.netloc, jb sp.path, jb sp.query, jb sp.fragment]),
      ("class", classStr (classify p))]
  | "render" =>
    let cwd := toBytes (← getStr j "cwd")
    let base ← optBytes j "base"
    let url := toBytes (← getStr j "url")
    let r := remoteUrl cwd base url
    return Json.mkObj [("norm", normJson (normalizeUrl cwd base url)),
      ("url", match r with | some u => jb u | none => Json.null),
      ("class", match r with | some u => Json.str (classStr (classify u)) | none => Json.null),
      ("scheme", match r with | some u => jb (urlsplit u).scheme | none => Json.null)]
  | "trace" =>
    let a ← parseAllow (← getStr j "allow")
    let cwd := toBytes (← getStr j "cwd")
    let base ← optBytes j "base"
    let root ← getBool j "root"
    let docs := (← getStrList j "docs").map toBytes
    let mapper ← (← getArr j "mapper").toList.mapM fun kv => do
      let a ← kv.getArr?
      if h : a.size = 2 then pure (toBytes (← a[0].getStr?), toBytes (← a[1].getStr?)) else throw "mapper"
    -- the tree arrives in postorder: [loc, strict, number of children]
    let nodes ← (← getArr j "nodes").toList.mapM fun x => do
      let a ← x.getArr?
      if h : a.size = 3 then pure (toBytes (← a[0].getStr?), ← a[1].getBool?, ← a[2].getNat?) else throw "node"
    let stack := nodes.foldl (fun (st : List LoadTree) (x : Bytes × Bool × Nat) =>
      LoadTree.node x.1 x.2.1 (st.take x.2.2).reverse :: st.drop x.2.2) []
    -- `docs`: rendered URLs of the local documents that exist; a remote location is taken as readable
    -- (the tree sent by the harness is what the documents really contain: a location that yields no
    -- document has no references, so its readability does not change the trace)
    let readable : Norm → Bool := fun n =>
      match n with
      | .file _ u => docs.contains u
      | .remote .. => true
      | _ => false
    match stack with
    | [t] =>
      let r := if root then loadRoot a cwd mapper readable base t else loadNode a cwd mapper readable base t
      let evJson : Event → Json
        | .opened b loc n => Json.mkObj [("ev", "opened"), ("base", match b with | some x => jb x | none => Json.null),
            ("loc", jb loc), ("norm", normJson n),
            ("rurl", match remoteUrl cwd b (applyMapper mapper (strip loc)) with | some u => jb u | none => Json.null)]
        | .blocked b loc d => Json.mkObj [("ev", "blocked"), ("base", match b with | some x => jb x | none => Json.null),
            ("loc", jb loc), ("decision", decisionStr d)]
        | .undecided b loc => Json.mkObj [("ev", "undecided"), ("base", match b with | some x => jb x | none => Json.null),
            ("loc", jb loc)]
      return Json.mkObj [("events", Json.arr (r.1.map evJson).toArray), ("aborted", r.2)]
    | _ => throw "trace: malformed postorder tree"
  | _ => throw s!"unknown op {op}"

end XsVerif.Driver.C12

def main : IO Unit := XsVerif.Driver.run XsVerif.Driver.C12.handle
