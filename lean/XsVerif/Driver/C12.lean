import XsVerif.Driver.Util
open Lean XsVerif.Driver

-- stub: replaced when the model of C12 lands
def main : IO Unit := XsVerif.Driver.run fun _ => .error "C12 driver not implemented"
