import XsVerif.Driver.Util
import XsVerif.Model.NsMapper
open Lean XsVerif.Driver XsVerif.NsMapper

namespace XsVerif.Driver.C17

def parsePair (j : Json) : Except String (String × String) := do
  let a ← j.getArr?
  if h : a.size = 2 then
    return (← a[0].getStr?, ← a[1].getStr?)
  else throw "pair"

def parsePairs (j : Json) (k : String) : Except String (List (String × String)) := do
  (← getArr j k).toList.mapM parsePair

def parseQN (j : Json) : Except String QN := do
  let (a, b) ← parsePair j
  return ⟨a, b⟩

def parseMode (s : String) : Except String Mode :=
  match s with
  | "stacked" => pure .stacked | "collapsed" => pure .collapsed
  | "root-only" => pure .rootOnly | "none" => pure .none | _ => throw "mode"

def parseVariant (s : String) : Except String Variant :=
  match s with
  | "pinned" => pure .pinned | "repaired" => pure .repaired | _ => throw "variant"

partial def parseTree (j : Json) : Except String Tree := do
  let id ← getNat j "id"
  let tag ← parseQN (← j.getObjVal? "tag")
  let attrs ← (← getArr j "attrs").toList.mapM parseQN
  let decl ← parsePairs j "decl"
  let ch ← (← getArr j "ch").toList.mapM parseTree
  return .node id tag attrs decl ch

def parsePName (j : Json) : Except String PName := do
  match ← getStr j "t" with
  | "loc" => return .loc (← getStr j "l")
  | "pre" => return .pre (← getStr j "p") (← getStr j "l")
  | "braced" => return .braced (← getStr j "u") (← getStr j "l")
  | _ => throw "pname"

def mapJson (m : Map) : Json := Json.arr (m.map fun kv => Json.arr #[kv.1, kv.2]).toArray

def pnameStr : PName → String
  | .loc l => l
  | .pre p l => p ++ ":" ++ l
  | .braced u l => "{" ++ u ++ "}" ++ l

def qnStr (q : QN) : String := if q.ns = "" then q.loc else "{" ++ q.ns ++ "}" ++ q.loc

def unmappedStr : Unmapped → String
  | .name q => qnStr q
  | .unknownPrefix p l => p ++ ":" ++ l

def retJson : Option Xmlns → Json
  | none => Json.null
  | some x => mapJson x

def stateJson (m : Mapper) : Json :=
  Json.mkObj [("ns", mapJson m.ns), ("rev", mapJson m.rev),
    ("stack", Json.arr (m.stack.map fun c => Json.arr #[c.obj, c.level]).toArray)]

def obsJson (o : Obs) : Json :=
  Json.mkObj [("id", o.id), ("level", o.level), ("key", pnameStr o.key),
    ("attrs", Json.arr (o.attrs.map fun a => Json.str (pnameStr a.2)).toArray),
    ("attrsR", Json.arr (o.attrsR.map fun a => Json.str (pnameStr a.2)).toArray),
    ("nsK", mapJson o.nsAtKey), ("nsA", mapJson o.nsAtAttrs),
    ("revK", mapJson o.revAtKey), ("revA", mapJson o.revAtAttrs), ("ret", retJson o.ret)]

/-- a key of decoded data as a structured name: `{uri}local`, `prefix:local` (first colon) or `local` -/
def parsePNameStr (s : String) : PName :=
  let cs := s.toList
  match cs with
  | '{' :: rest =>
    let u := rest.takeWhile (· ≠ '}')
    let l := (rest.dropWhile (· ≠ '}')).drop 1
    .braced (String.ofList u) (String.ofList l)
  | _ =>
    if cs.contains ':' then
      .pre (String.ofList (cs.takeWhile (· ≠ ':'))) (String.ofList ((cs.dropWhile (· ≠ ':')).drop 1))
    else .loc s

partial def itemJson : Item → Json
  | .node id key isMap xmlns attrs ch =>
    Json.mkObj [("id", id), ("key", pnameStr key), ("map", isMap), ("xmlns", mapJson xmlns),
      ("attrs", Json.arr (attrs.map fun a => Json.str (pnameStr a)).toArray),
      ("ch", Json.arr (ch.map itemJson).toArray)]

partial def parseItem (j : Json) : Except String Item := do
  let id ← getNat j "id"
  let key := parsePNameStr (← getStr j "key")
  let isMap ← getBool j "map"
  let xmlns ← parsePairs j "xmlns"
  let attrs := (← getStrList j "attrs").map parsePNameStr
  let ch ← (← getArr j "ch").toList.mapM parseItem
  return .node id key isMap xmlns attrs ch

def encObsJson (e : EncObs) : Json :=
  Json.mkObj [("id", e.id), ("level", e.level), ("ns", mapJson e.ns), ("rev", mapJson e.rev),
    ("tag", unmappedStr e.tag), ("attrs", Json.arr (e.attrs.map fun a => Json.str (unmappedStr a)).toArray),
    ("dropped", e.dropped)]

def parseCfg (j : Json) : NameCfg :=
  { process := (j.getObjValAs? Bool "process").toOption.getD true,
    strip := (j.getObjValAs? Bool "strip").toOption.getD false }

def parseRule (j : Json) : AttrRule :=
  if (j.getObjValAs? String "arule").toOption.getD "current" = "repaired" then .repaired else .current

/-- one step of an operation script on a bare mapper -/
def step (v : Variant) (mode : Mode) (cfg : NameCfg) (m : Mapper) (j : Json) : Except String (Mapper × Json) := do
  match ← getStr j "k" with
  | "ctx" =>
    let r := setContext v mode m (← getNat j "obj") (← getNat j "level") (← parsePairs j "decl")
    return (r.m, Json.mkObj [("ret", retJson r.ret), ("fuel", !r.fuelOk)])
  | "set" =>
    -- "setrep" (default true): `__setitem__` as it is now; false = as it was before fix b20c29d
    let p ← getStr j "p"
    let u ← getStr j "u"
    let m' := if (j.getObjValAs? Bool "setrep").toOption.getD true
      then setItem m p u else setItemPre m p u
    return (m', Json.mkObj [("ret", Json.null)])
  | "del" =>
    match delItem m (← getStr j "p") with
    | some m' => return (m', Json.mkObj [("ret", Json.null)])
    | none => return (m, Json.mkObj [("ret", "KeyError")])
  | "map" =>
    return (m, Json.mkObj [("ret", pnameStr (mapQNameCfg cfg m (← parseQN (← j.getObjVal? "q"))))])
  | "mapattr" =>
    return (m, Json.mkObj [("ret", pnameStr (mapAttrCfg cfg (parseRule j) m (← parseQN (← j.getObjVal? "q"))))])
  | "unmap" =>
    let n ← parsePName (← j.getObjVal? "n")
    let r := unmapQNameCfg cfg m.ns (← parsePairs j "xmlns") (← getBool j "tab") n
    return (m, Json.mkObj [("ret", unmappedStr r)])
  | _ => throw "op kind"

def handle (j : Json) : Except String Json := do
  let v ← parseVariant (← getStr j "variant")
  let mode ← parseMode (← getStr j "mode")
  match ← getStr j "op" with
  | "doc" =>
    let user ← parsePairs j "user"
    let t ← parseTree (← j.getObjVal? "tree")
    let (m, obs, ok) := decodeDoc v mode user t
    let fuel := !ok || obs.any fun o => !o.fuelOk
    -- the data tree the converters build (`prune`: default/unordered converters drop childless plain items)
    let prune := (j.getObjValAs? Bool "prune").toOption.getD true
    let item := match t with
      | .node _ _ _ decl _ => (decodeT v (parseRule j) prune mode 0 t (initMapper mode user decl).1).2
    return Json.mkObj [("obs", Json.arr (obs.map obsJson).toArray), ("final", stateJson m),
      ("fuel", fuel), ("item", itemJson item)]
  | "enc" =>
    -- element_encode call pattern on a data tree; `tab` = [[id, local], ...] unqualified attributes declared
    let item ← parseItem (← j.getObjVal? "item")
    let ns ← parsePairs j "ns"
    let rev ← parsePairs j "rev"
    let tabl ← (← getArr j "tab").toList.mapM fun x => do
      let a ← x.getArr?
      if h : a.size = 2 then return ((← a[0].getNat?), (← a[1].getStr?)) else throw "tab"
    let tab : Nat → String → Bool := fun i l => tabl.contains (i, l)
    let (m, obs) := encodeDoc v mode tab item { ns, rev }
    return Json.mkObj [("obs", Json.arr (obs.map encObsJson).toArray), ("final", stateJson m)]
  | "encg" =>
    -- the encoders as they are: schema oracle + mechanism flags; several flag settings in one request.
    -- `declared` = [[ns, local], ...], `unq` = [local, ...] (unqualified attributes of every declared element);
    -- `init` = "real": the maps given in ns/rev (state of the real converter after __init__),
    --          "clean": user map + the declarations the root item reports (`initMapper`)
    let item ← parseItem (← j.getObjVal? "item")
    let declared ← (← getArr j "declared").toList.mapM parsePair
    let unq ← getStrList j "unq"
    let sch : EncSchema := { declared := fun q => declared.contains (q.ns, q.loc), unq := fun _ l => unq.contains l }
    let ns ← parsePairs j "ns"
    let rev ← parsePairs j "rev"
    let user ← parsePairs j "user"
    let runs ← getArr j "runs"
    let mut out : Array Json := #[]
    for r in runs do
      let fl : EncFlags := { f9 := ← getBool r "f9", f10 := ← getBool r "f10", ownTag := ← getBool r "ownTag" }
      let e0 : Mapper := if (← getStr r "init") = "clean"
        then (initMapper mode user (Item.xmlns item)).1 else { ns, rev }
      let (m, obs) := encodeDocG v mode fl sch item e0
      out := out.push (Json.mkObj [("obs", Json.arr (obs.map encObsJson).toArray), ("final", stateJson m)])
    return Json.mkObj [("runs", Json.arr out)]
  | "ops" =>
    let ns ← parsePairs j "ns"
    let m0 : Mapper := { ns, rev := mkReverse ns }
    let ops ← getArr j "ops"
    let cfg := parseCfg j
    let mut m := m0
    let mut out : Array Json := #[]
    for o in ops do
      let (m', r) ← step v mode cfg m o
      m := m'
      out := out.push (r.mergeObj (stateJson m'))
    return Json.mkObj [("init", stateJson m0), ("steps", Json.arr out)]
  | "merge" =>
    -- update_namespaces(ns, xmlns, root)
    let ns ← parsePairs j "ns"
    let (r, ok) := updateNamespaces ns (← parsePairs j "xmlns") (← getBool j "root")
    return Json.mkObj [("ns", mapJson r), ("fuel", !ok)]
  | _ => throw "op"

end XsVerif.Driver.C17

def main : IO Unit := XsVerif.Driver.run XsVerif.Driver.C17.handle
