import XsVerif.Driver.Util
open Lean XsVerif.Driver

-- stub: replaced when the model of C17 lands
def main : IO Unit := XsVerif.Driver.run fun _ => .error "C17 driver not implemented"
