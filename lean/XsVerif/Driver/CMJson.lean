/- JSON deserialisation of content models (particle trees), shared by the C01/C14/C15 drivers. -/
import XsVerif.Driver.WcJson
import XsVerif.Model.Particle
open Lean XsVerif.Driver XsVerif.Wildcard XsVerif.CM

namespace XsVerif.Driver

def parseHi (j : Json) : Except String (Option Nat) :=
  match j.getObjVal? "hi" with
  | .ok .null => pure none
  | .ok v => some <$> v.getNat?
  | .error e => throw e

/-- parses a particle tree; also returns the (id, node) list with the implementation-only
    fields (`prec`) that the tree does not carry -/
partial def parseParticle (j : Json) : Except String (Particle × List (Nat × Node)) := do
  let t ← getStr j "t"
  let id ← getNat j "id"
  let lo ← getNat j "lo"
  let hi ← parseHi j
  match t with
  | "e" =>
    let names ← (← getArr j "names").toList.mapM parseQN
    return (.leaf (.elem id names) lo hi, [(id, { kind := .elem, lo, hi, names })])
  | "a" =>
    let w ← parseWc (← j.getObjVal? "w")
    let prec ← (← getArr j "prec").toList.mapM (·.getNat?)
    return (.leaf (.any id w) lo hi, [(id, { kind := .any, lo, hi, wc := w, prec })])
  | "g" =>
    let k ← match (← getStr j "k") with
      | "sequence" => pure GKind.seq | "choice" => pure GKind.choice | "all" => pure GKind.all
      | _ => throw "group kind"
    let items ← (← getArr j "items").toList.mapM parseParticle
    let ps := items.foldr (fun (p, _) acc => Particles.cons p acc) Particles.nil
    let kind := match k with | .seq => NKind.seq | .choice => .choice | .all => .all
    let nodes := (id, ({ kind, lo, hi, content := items.map (·.1.pid) } : Node)) :: (items.map (·.2)).flatten
    return (.group id k lo hi ps, nodes)
  | _ => throw "particle tag"

end XsVerif.Driver
