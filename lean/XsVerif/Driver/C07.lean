import XsVerif.Driver.Util
import XsVerif.Model.Derivation
open Lean XsVerif.Driver XsVerif.Derivation

/-
  Line protocol of C07.  One request = one built schema (type hierarchy + global elements) with a
  batch of queries:
    {"types":[T..], "elems":[E..], "contentOk":[[ty,variant]..], "fixedOk":[[ty,variant]..],
     "queries":[Q..]}
    T = {"base":k|null,"deriv":"extension"|"restriction"|null,"complex":b,"anyType":b,"anySimple":b,
         "simpleContent":b,"content":k|null,"abstract":b,"block":["extension"|"restriction"..]}
    E = {"ty":k,"block":[..],"blockSubst":b,"abstract":b,"nillable":b,"fixed":b,"subst":k|null}
    Q = {"op":"derived","t":k,"u":k,"d":null|"extension"|"restriction"}      -> {"r":true|false|null}
      | {"op":"blocked","t":k,"e":k}                                           -> {"r":true|false|null}
      | {"op":"elem","e":k,"declTy":k,"xsi":null|"unknown"|k,"nil":null|str,"text":b,"children":b,"variant":k}
                                                                               -> {"errs":[kind..]}
      | {"op":"subst","head":k,"m":k}                                          -> {"v":"accepted|notSubstitute|blocked|fuel"}
      | {"op":"alt","alts":[[hasTest,result,ty]..],"dflt":k}                   -> {"ty":k}
  Answer: {"res":[..]} in query order.
-/
namespace XsVerif.Driver.C07

def optNat (j : Json) (k : String) : Except String (Option Nat) := do
  match j.getObjVal? k with
  | .ok .null => pure none
  | .ok v => some <$> v.getNat?
  | .error _ => pure none

def parseMeth (s : String) : Except String Meth :=
  match s with
  | "extension" => pure .ext | "restriction" => pure .restr | _ => throw s!"method {s}"

def optMeth (j : Json) (k : String) : Except String (Option Meth) := do
  match j.getObjVal? k with
  | .ok (.str s) => some <$> parseMeth s
  | _ => pure none

def meths (j : Json) (k : String) : Except String (List Meth) := do
  (← getStrList j k).mapM parseMeth

def parseT (j : Json) : Except String TDef := do
  return { base := ← optNat j "base", deriv := ← optMeth j "deriv", complex := ← getBool j "complex",
           anyType := ← getBool j "anyType", anySimple := ← getBool j "anySimple",
           simpleContent := ← getBool j "simpleContent", content := ← optNat j "content",
           abstract := ← getBool j "abstract", block := ← meths j "block" }

def parseE (j : Json) : Except String EDecl := do
  return { ty := ← getNat j "ty", block := ← meths j "block", blockSubst := ← getBool j "blockSubst",
           abstract := ← getBool j "abstract", nillable := ← getBool j "nillable",
           fixed := ← getBool j "fixed", subst := ← optNat j "subst" }

def parsePairs (j : Json) : Except String (List (Nat × Nat)) := do
  (← j.getArr?).toList.mapM fun e => do
    let p ← e.getArr?
    if h : p.size = 2 then return (← p[0].getNat?, ← p[1].getNat?) else throw "pair"

def ob (r : Option Bool) : Json := match r with | some b => Json.bool b | none => Json.null

def errName : Err → String
  | .unknownType => "unknownType" | .notDerived => "notDerived" | .blocked => "blocked"
  | .abstractType => "abstractType" | .notNillable => "notNillable" | .nilNotBoolean => "nilNotBoolean"
  | .nilFixed => "nilFixed" | .nilNotEmpty => "nilNotEmpty" | .content => "content"
  | .fixedValue => "fixedValue" | .fuel => "fuel"

def query (h : Hier) (es : List EDecl) (cs : CSem) (fuel : Nat) (q : Json) : Except String Json := do
  match (← getStr q "op") with
  | "derived" =>
    return Json.mkObj [("r", ob (isDerived fuel h (← getNat q "t") (← getNat q "u") (← optMeth q "d")))]
  | "blocked" =>
    let e ← getNat q "e"
    match es[e]? with
    | none => throw "element index"
    | some E => return Json.mkObj [("r", ob (isBlocked fuel h (← getNat q "t") E.block E.ty))]
  | "elem" =>
    let e ← getNat q "e"
    match es[e]? with
    | none => throw "element index"
    | some E =>
      let xsi ← match q.getObjVal? "xsi" with
        | .ok .null => pure XsiAttr.absent
        | .ok (.str _) => pure XsiAttr.unknown
        | .ok v => XsiAttr.named <$> v.getNat?
        | .error _ => pure XsiAttr.absent
      let nil ← match q.getObjVal? "nil" with
        | .ok (.str s) => pure (some s)
        | _ => pure none
      let i : Inst := { xsi, nil, hasText := ← getBool q "text", hasChildren := ← getBool q "children",
                        variant := ← getNat q "variant" }
      let errs := elementErrs fuel h cs E (← getNat q "declTy") i
      return Json.mkObj [("errs", Json.arr (errs.map fun x => Json.str (errName x)).toArray)]
  | "subst" =>
    let v := match substVerdict fuel h es (← getNat q "head") (← getNat q "m") with
      | .accepted => "accepted" | .notSubstitute => "notSubstitute" | .blocked => "blocked" | .fuel => "fuel"
    return Json.mkObj [("v", v)]
  | "alt" =>
    let alts ← (← getArr q "alts").toList.mapM fun a => do
      let p ← a.getArr?
      if hsz : p.size = 3 then return ((← p[0].getBool?, ← p[1].getBool?, ← p[2].getNat?) : Bool × Bool × Nat)
      else throw "alt"
    return Json.mkObj [("ty", selectAlt alts (← getNat q "dflt"))]
  | op => throw s!"op {op}"

def handle (j : Json) : Except String Json := do
  let h ← (← getArr j "types").toList.mapM parseT
  let es ← (← getArr j "elems").toList.mapM parseE
  let cok ← parsePairs (← j.getObjVal? "contentOk")
  let fok ← parsePairs (← j.getObjVal? "fixedOk")
  let cs : CSem := { contentOk := fun t v => cok.contains (t, v), fixedOk := fun t v => fok.contains (t, v) }
  let fuel := h.length + es.length + 1
  let res ← (← getArr j "queries").toList.mapM (query h es cs fuel)
  return Json.mkObj [("res", Json.arr res.toArray)]

end XsVerif.Driver.C07

def main : IO Unit := XsVerif.Driver.run XsVerif.Driver.C07.handle
