import XsVerif.Driver.Util
open Lean XsVerif.Driver

-- stub: replaced when the model of C07 lands
def main : IO Unit := XsVerif.Driver.run fun _ => .error "C07 driver not implemented"
