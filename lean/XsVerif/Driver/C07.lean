import XsVerif.Driver.Util
import XsVerif.Model.Derivation
open Lean XsVerif.Driver XsVerif.Derivation

/-
  Line protocol of C07.  One request = one built schema (type hierarchy + global elements) with a
  batch of queries:
    {"types":[T..], "elems":[E..], "contentOk":[[ty,variant]..], "fixedOk":[[ty,variant]..],
     "queries":[Q..]}
    T = {"base":k|null,"deriv":"extension"|"restriction"|null,"complex":b,"anyType":b,"anySimple":b,
         "simpleContent":b,"content":k|null,"abstract":b,"block":["extension"|"restriction"..],
         "anyAtomic":b,"atomicCls":b,"isList":b,"item":k|null,"isUnion":b,"members":[k..],
         "unionLike":b,"facets":b,"primUnion":k|null}
    "quirks":["C07-F1".."C07-F5"]  = behaviours of the pinned code that are switched ON (findings whose
         status is `known`); every verdict is computed with these, `rr` = with all of them off
    E = {"ty":k,"block":[..],"blockSubst":b,"abstract":b,"nillable":b,"fixed":b,"subst":k|null}
    Q = {"op":"derived","t":k,"u":k,"d":null|"extension"|"restriction"}      -> {"r":true|false|null,"rr":..}
      | {"op":"blocked","t":k,"e":k}                                           -> {"r":true|false|null,"rr":..}
      | {"op":"inst","t":k,"u":k}                                              -> {"r":..,"rr":..}
      | {"op":"substx","head":k,"m":k, + the fields of "elem" but "e"/"declTy"} -> {"errs":[kind..]|null}
      | {"op":"altT","attrs":[[k,v]..],"inh":[[k,v]..]?,"alts":[[test|null,ty]..],"dflt":k} -> {"ty":k}
            test = ["eq",a,v]|["ne",a,v]|["has",a]|["not",t]|["and",l,r]|["or",l,r]
      | {"op":"elem","e":k,"declTy":k,"xsi":null|"unknown"|k,"nil":null|str,"text":b,"children":b,"variant":k}
                                                                               -> {"errs":[kind..]}
      | {"op":"subst","head":k,"m":k}                                          -> {"v":"accepted|notSubstitute|blocked|fuel"}
      | {"op":"alt","alts":[[hasTest,result,ty]..],"dflt":k}                   -> {"ty":k}
  Answer: {"res":[..]} in query order.
-/
namespace XsVerif.Driver.C07

def optNat (j : Json) (k : String) : Except String (Option Nat) := do
  match j.getObjVal? k with
  | .ok .null => pure none
  | .ok v => some <$> v.getNat?
  | .error _ => pure none

def parseMeth (s : String) : Except String Meth :=
  match s with
  | "extension" => pure .ext | "restriction" => pure .restr | _ => throw s!"method {s}"

def optMeth (j : Json) (k : String) : Except String (Option Meth) := do
  match j.getObjVal? k with
  | .ok (.str s) => some <$> parseMeth s
  | _ => pure none

def meths (j : Json) (k : String) : Except String (List Meth) := do
  (← getStrList j k).mapM parseMeth

def optBool (j : Json) (k : String) : Bool :=
  match j.getObjVal? k with
  | .ok (.bool b) => b
  | _ => false

def natList (j : Json) (k : String) : Except String (List Nat) := do
  match j.getObjVal? k with
  | .ok (.arr a) => a.toList.mapM fun x => x.getNat?
  | _ => pure []

def parseT (j : Json) : Except String TDef := do
  return { base := ← optNat j "base", deriv := ← optMeth j "deriv", complex := ← getBool j "complex",
           anyType := ← getBool j "anyType", anySimple := ← getBool j "anySimple",
           simpleContent := ← getBool j "simpleContent", content := ← optNat j "content",
           abstract := ← getBool j "abstract", block := ← meths j "block",
           anyAtomic := optBool j "anyAtomic", atomicCls := optBool j "atomicCls",
           isList := optBool j "isList", item := ← optNat j "item", isUnion := optBool j "isUnion",
           members := ← natList j "members", unionLike := optBool j "unionLike",
           facets := optBool j "facets", primUnion := ← optNat j "primUnion" }

def parseTest : Nat → Json → Except String Test
  | 0, _ => throw "test too deep"
  | fuel + 1, j => do
  let parseTest := parseTest fuel
  let a ← j.getArr?
  let s (i : Nat) : Except String String := match a[i]? with
    | some v => v.getStr? | none => throw "test arity"
  let sub (i : Nat) : Except String Test := match a[i]? with
    | some v => parseTest v | none => throw "test arity"
  match (← s 0) with
  | "eq" => return .eq (← s 1) (← s 2)
  | "ne" => return .ne (← s 1) (← s 2)
  | "has" => return .has (← s 1)
  | "not" => return .not (← sub 1)
  | "and" => return .and (← sub 1) (← sub 2)
  | "or" => return .or (← sub 1) (← sub 2)
  | k => throw s!"test {k}"

def parseInst (q : Json) : Except String Inst := do
  let xsi ← match q.getObjVal? "xsi" with
    | .ok .null => pure XsiAttr.absent
    | .ok (.str _) => pure XsiAttr.unknown
    | .ok v => XsiAttr.named <$> v.getNat?
    | .error _ => pure XsiAttr.absent
  let nil ← match q.getObjVal? "nil" with
    | .ok (.str s) => pure (some s)
    | _ => pure none
  return { xsi, nil, hasText := ← getBool q "text", hasChildren := ← getBool q "children",
           variant := ← getNat q "variant" }

def parseE (j : Json) : Except String EDecl := do
  return { ty := ← getNat j "ty", block := ← meths j "block", blockSubst := ← getBool j "blockSubst",
           abstract := ← getBool j "abstract", nillable := ← getBool j "nillable",
           fixed := ← getBool j "fixed", subst := ← optNat j "subst" }

def parsePairs (j : Json) : Except String (List (Nat × Nat)) := do
  (← j.getArr?).toList.mapM fun e => do
    let p ← e.getArr?
    if h : p.size = 2 then return (← p[0].getNat?, ← p[1].getNat?) else throw "pair"

def ob (r : Option Bool) : Json := match r with | some b => Json.bool b | none => Json.null

def errName : Err → String
  | .unknownType => "unknownType" | .notDerived => "notDerived" | .blocked => "blocked"
  | .abstractType => "abstractType" | .notNillable => "notNillable" | .nilNotBoolean => "nilNotBoolean"
  | .nilFixed => "nilFixed" | .nilNotEmpty => "nilNotEmpty" | .content => "content"
  | .fixedValue => "fixedValue" | .fuel => "fuel" | .substBlocked => "substBlocked"
  | .headBlocked => "headBlocked"

def query (qk : Quirks) (h : Hier) (es : List EDecl) (cs : CSem) (fuel : Nat) (q : Json) : Except String Json := do
  match (← getStr q "op") with
  | "derived" =>
    let (t, u, d) := (← getNat q "t", ← getNat q "u", ← optMeth q "d")
    return Json.mkObj [("r", ob (isDerived qk fuel h t u d)), ("rr", ob (isDerived .repaired fuel h t u d))]
  | "inst" =>
    let (t, u) := (← getNat q "t", ← getNat q "u")
    return Json.mkObj [("r", ob (instType qk fuel h t u)), ("rr", ob (instType .repaired fuel h t u))]
  | "blocked" =>
    let e ← getNat q "e"
    match es[e]? with
    | none => throw "element index"
    | some E =>
      let t ← getNat q "t"
      return Json.mkObj [("r", ob (isBlocked qk fuel h t E.block E.ty)),
                         ("rr", ob (isBlocked .repaired fuel h t E.block E.ty))]
  | "elem" =>
    let e ← getNat q "e"
    match es[e]? with
    | none => throw "element index"
    | some E =>
      let i ← parseInst q
      let errs := elementErrs qk fuel h cs E (← getNat q "declTy") i
      return Json.mkObj [("errs", Json.arr (errs.map fun x => Json.str (errName x)).toArray)]
  | "subst" =>
    let v := match substVerdict qk fuel h es (← getNat q "head") (← getNat q "m") with
      | .accepted => "accepted" | .notSubstitute => "notSubstitute" | .blocked => "blocked" | .fuel => "fuel"
    return Json.mkObj [("v", v)]
  | "substx" =>
    let i ← parseInst q
    match substXsiErrs qk fuel h cs es (← getNat q "head") (← getNat q "m") i with
    | none => return Json.mkObj [("errs", Json.null)]
    | some errs => return Json.mkObj [("errs", Json.arr (errs.map fun x => Json.str (errName x)).toArray)]
  | "altT" =>
    let attrs ← (← getArr q "attrs").toList.mapM fun a => do
      let p ← a.getArr?
      if hsz : p.size = 2 then return ((← p[0].getStr?, ← p[1].getStr?) : String × String) else throw "attr"
    let alts ← (← getArr q "alts").toList.mapM fun a => do
      let p ← a.getArr?
      if hsz : p.size = 2 then
        let t ← match p[0] with | .null => pure none | v => some <$> parseTest 64 v
        return ((t, ← p[1].getNat?) : Option Test × Nat)
      else throw "altT"
    let inh ← match q.getObjVal? "inh" with
      | .ok (.arr a) => a.toList.mapM fun x => do
          let p ← x.getArr?
          if hsz : p.size = 2 then return ((← p[0].getStr?, ← p[1].getStr?) : String × String) else throw "inh"
      | _ => pure []
    -- no inherited attributes: the own-attribute loop (selectAltT); otherwise selectAltI
    let dflt ← getNat q "dflt"
    let ty := if inh.isEmpty then selectAltT attrs alts dflt else selectAltI attrs inh alts dflt
    return Json.mkObj [("ty", ty)]
  | "alt" =>
    let alts ← (← getArr q "alts").toList.mapM fun a => do
      let p ← a.getArr?
      if hsz : p.size = 3 then return ((← p[0].getBool?, ← p[1].getBool?, ← p[2].getNat?) : Bool × Bool × Nat)
      else throw "alt"
    return Json.mkObj [("ty", selectAlt alts (← getNat q "dflt"))]
  | op => throw s!"op {op}"

def handle (j : Json) : Except String Json := do
  let h ← (← getArr j "types").toList.mapM parseT
  let es ← (← getArr j "elems").toList.mapM parseE
  let cok ← parsePairs (← j.getObjVal? "contentOk")
  let fok ← parsePairs (← j.getObjVal? "fixedOk")
  let cs : CSem := { contentOk := fun t v => cok.contains (t, v), fixedOk := fun t v => fok.contains (t, v) }
  let fuel := 2 * h.length + es.length + 1
  let qs ← match j.getObjVal? "quirks" with
    | .ok _ => getStrList j "quirks"
    | .error _ => pure []
  let qk : Quirks := { contentSelf := qs.contains "C07-F1", listItem := qs.contains "C07-F2",
                       unionCut := qs.contains "C07-F3", simpleExt := qs.contains "C07-F4",
                       anyShort := qs.contains "C07-F5" }
  let res ← (← getArr j "queries").toList.mapM (query qk h es cs fuel)
  return Json.mkObj [("res", Json.arr res.toArray)]

end XsVerif.Driver.C07

def main : IO Unit := XsVerif.Driver.run XsVerif.Driver.C07.handle
