/-
  Line protocol shared by all drivers: one JSON value per line in, one per line out.
-/
import Lean.Data.Json
open Lean

namespace XsVerif.Driver

def errJson (e : String) : Json := Json.mkObj [("err", Json.str e)]

partial def loop (inp out : IO.FS.Stream) (f : Json → Except String Json) : IO Unit := do
  let line ← inp.getLine
  if line.isEmpty then
    out.flush
    return
  if line.trimAscii.isEmpty then
    loop inp out f
  else
    let r := match Json.parse line with
      | .error e => errJson s!"parse: {e}"
      | .ok j => match f j with
        | .ok r => r
        | .error e => errJson e
    out.putStrLn r.compress
    loop inp out f

def run (f : Json → Except String Json) : IO Unit := do
  let inp ← IO.getStdin
  let out ← IO.getStdout
  loop inp out f

def getStr (j : Json) (k : String) : Except String String := j.getObjValAs? String k
def getBool (j : Json) (k : String) : Except String Bool := j.getObjValAs? Bool k
def getNat (j : Json) (k : String) : Except String Nat := j.getObjValAs? Nat k
def getArr (j : Json) (k : String) : Except String (Array Json) := j.getObjValAs? (Array Json) k
def getStrList (j : Json) (k : String) : Except String (List String) := do
  let a ← getArr j k
  a.toList.mapM fun x => x.getStr?

def sortStrs (l : List String) : List String := (l.toArray.qsort (· < ·)).toList
def dedup (l : List String) : List String := l.eraseDups

end XsVerif.Driver
