import XsVerif.Driver.WcJson
open Lean XsVerif.Driver XsVerif.Wildcard

namespace XsVerif.Driver.C16

def parsePC (s : String) : Except String PC :=
  match s with
  | "strict" => pure .strict | "lax" => pure .lax | "skip" => pure .skip | _ => throw "pc"

def bools (l : List Bool) : Json := Json.arr (l.map Json.bool).toArray

/-- one request = one ordered pair of wildcards, all operations, evaluated on a universe. -/
def handle (j : Json) : Except String Json := do
  let a ← parseWc (← j.getObjVal? "a")
  let b ← parseWc (← j.getObjVal? "b")
  let pa ← parsePC (← getStr j "pa")
  let pb ← parsePC (← getStr j "pb")
  let v11 ← getBool j "v11"
  let uni ← getStrList j "uni"
  let qs ← (← getArr j "qs").toList.mapM parseQN
  let ev (w : Wc) : Json := Json.mkObj [("w", wcJson w), ("ns", bools (uni.map (nsAllowed w))),
    ("q", bools (qs.map (allowsQ w)))]
  let u := match union v11 a b with
    | none => Json.null
    | some u => ev u
  return Json.mkObj [
    ("a", ev a), ("b", ev b), ("union", u), ("inter", ev (intersection a b)),
    ("restr", isRestriction a b pa pb), ("overlap", isOverlap a b)]

end XsVerif.Driver.C16

def main : IO Unit := XsVerif.Driver.run XsVerif.Driver.C16.handle
