import XsVerif.Driver.Util
import XsVerif.Model.Wildcard
open Lean XsVerif.Driver XsVerif.Wildcard

namespace XsVerif.Driver.C16

def parseQN (j : Json) : Except String QN := do
  let a ← j.getArr?
  if h : a.size = 2 then
    return ⟨← a[0].getStr?, ← a[1].getStr?⟩
  else throw "qname"

def parseWc (j : Json) : Except String Wc := do
  let nsj ← j.getObjVal? "ns"
  let ns ← match nsj with
    | .str "any" => pure NsC.any
    | .str "other" => pure NsC.other
    | .arr a => NsC.set <$> a.toList.mapM (·.getStr?)
    | _ => throw "ns"
  let notNs ← getStrList j "notNs"
  let nq ← getArr j "notQ"
  let notQ ← nq.toList.mapM parseQN
  return { ns, notNs, notQ, notDefined := ← getBool j "nd", notSibling := ← getBool j "nsib",
           tns := ← getStr j "tns" }

def parsePC (s : String) : Except String PC :=
  match s with
  | "strict" => pure .strict | "lax" => pure .lax | "skip" => pure .skip | _ => throw "pc"

def qnLt (a b : QN) : Bool := a.ns < b.ns || (a.ns == b.ns && a.loc < b.loc)

/-- canonical rendering: sets sorted and de-duplicated -/
def wcJson (w : Wc) : Json :=
  let ns := match w.ns with
    | .any => Json.str "any" | .other => Json.str "other"
    | .set l => Json.arr ((sortStrs (dedup l)).map Json.str).toArray
  let nq := (w.notQ.eraseDups.toArray.qsort qnLt).map fun q => Json.arr #[q.ns, q.loc]
  Json.mkObj [("ns", ns), ("notNs", Json.arr ((sortStrs (dedup w.notNs)).map Json.str).toArray),
    ("notQ", Json.arr nq), ("nd", w.notDefined), ("nsib", w.notSibling)]

def bools (l : List Bool) : Json := Json.arr (l.map Json.bool).toArray

/-- one request = one ordered pair of wildcards, all operations, evaluated on a universe. -/
def handle (j : Json) : Except String Json := do
  let a ← parseWc (← j.getObjVal? "a")
  let b ← parseWc (← j.getObjVal? "b")
  let pa ← parsePC (← getStr j "pa")
  let pb ← parsePC (← getStr j "pb")
  let v11 ← getBool j "v11"
  let uni ← getStrList j "uni"
  let qs ← (← getArr j "qs").toList.mapM parseQN
  let ev (w : Wc) : Json := Json.mkObj [("w", wcJson w), ("ns", bools (uni.map (nsAllowed w))),
    ("q", bools (qs.map (allowsQ w)))]
  let u := match union v11 a b with
    | none => Json.null
    | some u => ev u
  return Json.mkObj [
    ("a", ev a), ("b", ev b), ("union", u), ("inter", ev (intersection a b)),
    ("restr", isRestriction a b pa pb), ("overlap", isOverlap a b)]

end XsVerif.Driver.C16

def main : IO Unit := XsVerif.Driver.run XsVerif.Driver.C16.handle
