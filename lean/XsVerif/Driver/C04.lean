import XsVerif.Driver.Util
import XsVerif.Model.Modes
import XsVerif.Model.AttrDefaults
import XsVerif.Model.CharData
open Lean XsVerif.Driver XsVerif.Modes

namespace XsVerif.Driver.C04

/-- steps: ["c",e] collect | ["d",e,inSkip] direct | ["f"] flush | ["r",d] result | ["s"] stop -/
def parseStep (j : Json) : Except String (Step Nat) := do
  let a ← j.getArr?
  let tag ← (a[0]?.getD Json.null).getStr?
  match tag with
  | "c" => return .collect (← (a[1]?.getD Json.null).getNat?)
  | "d" => return .direct (← (a[1]?.getD Json.null).getNat?) ((a[2]?.getD (Json.bool true)).getBool?.toOption.getD true)
  | "f" => return .flush
  | "r" => return .result (← (a[1]?.getD Json.null).getNat?)
  | "s" => return .stop
  | _ => throw "step"

def parseScript (j : Json) (k : String) : Except String (List (Step Nat)) := do
  (← getArr j k).toList.mapM parseStep

def nat (n : Nat) : Json := Json.num (JsonNumber.fromNat n)
def nats (l : List Nat) : Json := Json.arr (l.map nat).toArray

def itemJson : Item Nat → Json
  | .err e => Json.arr #["e", nat e]
  | .data d => Json.arr #["d", nat d]

def genJson (g : Gen Nat) : Json :=
  Json.mkObj [("items", Json.arr (g.items.map itemJson).toArray),
              ("raised", match g.raised with | some e => nat e | none => Json.null)]

def shapeJson : Shape Nat → Json
  | .none => Json.mkObj [("shape", "none")]
  | .one d => Json.mkObj [("shape", "one"), ("d", nat d)]
  | .many l => Json.mkObj [("shape", "many"), ("d", nats l)]

def outJson {α} (f : α → Json) : Out α → Json
  | .ok a => Json.mkObj [("ok", f a)]
  | .raise e => Json.mkObj [("raise", nat e)]

def decJson (lax : Bool) (o : Out (Shape Nat × List Err)) : Json :=
  outJson (fun (p : Shape Nat × List Err) =>
    if lax then Json.mkObj [("data", shapeJson p.1), ("errors", nats p.2)]
    else Json.mkObj [("data", shapeJson p.1)]) o

def modeOf (s : String) : Except String Mode :=
  match s with
  | "strict" => pure .strict | "lax" => pure .lax | "skip" => pure .skip | _ => throw "mode"

def optNat : Option Nat → Json
  | some n => nat n
  | none => Json.null

def mixOut (lax : Bool) (o : Out (Option Nat × List Err)) : Json :=
  outJson (fun (p : Option Nat × List Err) =>
    if lax then Json.mkObj [("data", optNat p.1), ("errors", nats p.2)]
    else Json.mkObj [("data", optNat p.1)]) o

def parseMember (j : Json) : Except String (Member Nat) := do
  let a ← j.getArr?
  let tag ← (a[0]?.getD Json.null).getStr?
  match tag with
  | "ok" => return .ok (← (a[1]?.getD Json.null).getNat?)
  | "lex" => return .lexical (← (a[1]?.getD Json.null).getNat?)
  | "facet" =>
    let rest ← (← (a[2]?.getD Json.null).getArr?).toList.mapM (·.getNat?)
    return .facet (← (a[1]?.getD Json.null).getNat?) rest
  | _ => throw "member"

def parsePC (s : String) : Except String PC :=
  match s with
  | "strict" => pure .strict | "lax" => pure .lax | "skip" => pure .skip | _ => throw s!"processContents {s}"

/-- lookup: "unavailable" | "notFound" | [inner events] -/
def parseLookup (j : Json) : Except String Lookup :=
  match j with
  | .str "unavailable" => pure .unavailable
  | .str "notFound" => pure .notFound
  | .arr a => do return .declared (← a.toList.mapM (·.getNat?))
  | _ => throw "lookup"

def handleWild (j : Json) : Except String Json := do
  let pc ← parsePC (← getStr j "pc")
  let matching ← getBool j "matching"
  let ps ← getBool j "ps"
  let lk ← parseLookup (← j.getObjVal? "lookup")
  let eNA ← getNat j "eNA"
  let eUn ← getNat j "eUn"
  let eNF ← getNat j "eNF"
  let kind ← getStr j "kind"
  let f : Mode → List Err ←
    if kind == "attr" then pure (fun m => anyAttrEvents m pc matching ps lk eNA eUn eNF)
    else do
      let xsiType ← getBool j "xsiType"
      let anon ← (← getArr j "anon").toList.mapM (·.getNat?)
      pure (fun m => anyElemEvents m pc matching ps xsiType lk anon eNA eUn eNF)
  return Json.mkObj [("strict", nats (f .strict)), ("lax", nats (f .lax)), ("skip", nats (f .skip))]

/-! value constraints / document-level state (Model/AttrDefaults.lean) -/
section AttrDefaults
open XsVerif.AttrDefaults

def optStr (j : Json) (k : String) : Except String (Option String) :=
  match j.getObjVal? k with
  | .ok (.str s) => pure (some s)
  | .ok .null => pure none
  | .error _ => pure none
  | _ => throw s!"{k}: string or null expected"

def parseKind (s : String) : Except String Kind :=
  match s with
  | "plain" => pure .plain | "id" => pure .id | "idref" => pure .idref
  | "idrefs" => pure .idrefs | "qname" => pure .qname | _ => throw s!"kind {s}"

def parseUse (s : String) : Except String Use :=
  match s with
  | "optional" => pure .optional | "required" => pure .required | "prohibited" => pure .prohibited
  | _ => throw s!"use {s}"

def parseDecl (j : Json) : Except String Decl := do
  return { name := ← getStr j "name", use := ← parseUse (← getStr j "use"),
           fixed := ← optStr j "fixed", dflt := ← optStr j "dflt", kind := ← parseKind (← getStr j "kind") }

def parsePair (j : Json) : Except String (String × String) := do
  let a ← j.getArr?
  return (← (a[0]?.getD Json.null).getStr?, ← (a[1]?.getD Json.null).getStr?)

def parseElem (j : Json) : Except String Elem := do
  let decls ← (← getArr j "decls").toList.mapM parseDecl
  let attrs ← (← getArr j "attrs").toList.mapM parsePair
  let text ← match j.getObjVal? "text" with
    | .ok (.obj o) =>
      let t := Json.obj o
      let kind ← parseKind (← getStr t "kind")
      -- ID-typed simple content is outside the model (the `id_list` of the parent element would be involved)
      if kind = .id then throw "text of kind id is outside the model"
      pure (some (({ fixed := ← optStr t "fixed", dflt := ← optStr t "dflt", kind := kind } : TextDecl),
                  ← getStr t "text"))
    | _ => pure none
  return { decls := decls, attrs := attrs, text := text }

/-- `XsdList.raw_decode`: `normalize(obj).split(' ')` without the empty chunks (values arrive normalised) -/
def tokens (s : String) : List String := (s.splitOn " ").filter (· ≠ "")

/-- `prefix, name = obj.split(':')` (simple_types.py:749-752); no prefix / more than one colon: no lookup -/
def qprefix (s : String) : Option String :=
  match s.splitOn ":" with
  | [p, _] => some p
  | _ => none

def isXsiName (s : String) : Bool := s.startsWith xsiPrefix

def evJson : Ev → Json
  | .missing n => Json.arr #["missing", n]
  | .notAllowed n => Json.arr #["notAllowed", n]
  | .notXsi n => Json.arr #["notXsi", n]
  | .prohibited n => Json.arr #["prohibited", n]
  | .fixedMismatch n => Json.arr #["fixed", n]
  | .unmapped p => Json.arr #["unmapped", p]
  | .dupId v => Json.arr #["dupId", v]
  | .multiId => Json.arr #["multiId", ""]
  | .dangling v => Json.arr #["dangling", v]

def strs (l : List String) : Json := Json.arr (l.map Json.str).toArray

def handleAttrs (j : Json) : Except String Json := do
  let v11 ← getBool j "v11"
  let ud ← getBool j "ud"
  let ns ← getStrList j "ns"
  let xsi ← (← getArr j "xsi").toList.mapM parseDecl
  let doc ← (← getArr j "doc").toList.mapM parseElem
  let acts := docActsWith effective isXsiName ud xsi doc
  return Json.mkObj [
    ("events", Json.arr ((XsVerif.AttrDefaults.run tokens qprefix isXsiName ns v11 ud xsi doc).map evJson).toArray),
    -- what a descent that skips the value constraints of omitted attributes would report (never the
    -- code's behaviour; tells the harness whether the case discriminates)
    ("ignoring", Json.arr ((runWith effectiveIgnoringConstraints tokens qprefix isXsiName ns v11 ud xsi doc).map evJson).toArray),
    ("refs", strs (refsOf tokens acts)), ("ids", strs (idsOf acts)),
    ("constraints_used", nat ((doc.map fun e =>
        ((valueConstraints ud e.decls).filter (fun kv => !hasKey kv.1 e.attrs)).length).sum))]

end AttrDefaults

/-- op cdata: {"text": str, "kids": [["e"|"n", tail], …]} -/
def handleCdata (j : Json) : Except String Json := do
  let text ← getStr j "text"
  let kids ← (← getArr j "kids").toList.mapM fun k => do
    let a ← k.getArr?
    let tag ← (a[0]?.getD Json.null).getStr?
    let tail ← (a[1]?.getD Json.null).getStr?
    if tag == "e" then pure (XsVerif.CharData.Kid.elem tail) else pure (XsVerif.CharData.Kid.node tail)
  return Json.mkObj [("tree", Json.bool (XsVerif.CharData.hasCdata text kids)),
                     ("dropped", Json.bool (XsVerif.CharData.hasCdataDropped text kids)),
                     ("skipping", Json.bool (XsVerif.CharData.hasCdataSkippingNodes text kids))]

def handle (j : Json) : Except String Json := do
  let op ← getStr j "op"
  match op with
  | "api" =>
    let sv ← parseScript j "sv"
    let sd ← parseScript j "sd"
    return Json.mkObj [
      ("wf_v", wf sv false), ("wf_d", wf sd false), ("nodata_v", (results sv).isEmpty),
      ("ev_v", nats (events sv)), ("ev_d", nats (events sd)),
      ("iterErrors", nats (iterErrors sv)),
      ("isValid", outJson (fun (b : Bool) => Json.bool b) (isValid sv)),
      ("validate", outJson (fun (_ : Unit) => Json.null) (validate sv)),
      ("decode", Json.mkObj [("strict", decJson false (decode .strict sd)),
                             ("lax", decJson true (decode .lax sd)),
                             ("skip", decJson false (decode .skip sd))]),
      ("iterDecode", Json.mkObj [("strict", genJson (iterDecode .strict sd)),
                                 ("lax", genJson (iterDecode .lax sd)),
                                 ("skip", genJson (iterDecode .skip sd))]),
      ("cli", nat (cliExit [FileRes.errors (iterErrors sv).length]))]
  | "mix" =>
    let ev ← (← getArr j "events").toList.mapM (·.getNat?)
    let v := match j.getObjVal? "value" with
      | .ok (.num n) => some n.mantissa.toNat
      | _ => none
    let c : Core Nat := ⟨ev, v⟩
    return Json.mkObj [
      ("iterErrors", nats (mixIterErrors c)), ("isValid", mixIsValid c),
      ("validate", outJson (fun (_ : Unit) => Json.null) (mixValidate c)),
      ("decode", Json.mkObj [("strict", mixOut false (mixDecode .strict c)),
                             ("lax", mixOut true (mixDecode .lax c)),
                             ("skip", mixOut false (mixDecode .skip c))])]
  | "cli" =>
    let fs ← (← getArr j "files").toList.mapM fun x =>
      match x with
      | .str "lib" => pure FileRes.libError
      | .num n => pure (FileRes.errors n.mantissa.toNat)
      | _ => throw "file"
    return Json.mkObj [("exit", nat (cliExit fs)), ("total", nat (totErrors fs)),
                       ("unsaturated", nat (osStatus (cliCodeUnsaturated fs)))]
  | "attrs" => handleAttrs j
  | "wild" => handleWild j
  | "cdata" => handleCdata j
  | "union" =>
    let ms ← (← getArr j "members").toList.mapM parseMember
    let g ← getNat j "generic"
    return Json.mkObj [("strict", nats (unionEvents .strict ms g)), ("lax", nats (unionEvents .lax ms g)),
                       ("skip", nats (unionEvents .skip ms g))]
  | _ => throw s!"unknown op {op}"

end XsVerif.Driver.C04

def main : IO Unit := XsVerif.Driver.run XsVerif.Driver.C04.handle
