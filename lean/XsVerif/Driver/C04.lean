import XsVerif.Driver.Util
open Lean XsVerif.Driver

-- stub: replaced when the model of C04 lands
def main : IO Unit := XsVerif.Driver.run fun _ => .error "C04 driver not implemented"
