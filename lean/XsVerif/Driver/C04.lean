import XsVerif.Driver.Util
import XsVerif.Model.Modes
open Lean XsVerif.Driver XsVerif.Modes

namespace XsVerif.Driver.C04

/-- steps: ["c",e] collect | ["d",e,inSkip] direct | ["f"] flush | ["r",d] result | ["s"] stop -/
def parseStep (j : Json) : Except String (Step Nat) := do
  let a ← j.getArr?
  let tag ← (a[0]?.getD Json.null).getStr?
  match tag with
  | "c" => return .collect (← (a[1]?.getD Json.null).getNat?)
  | "d" => return .direct (← (a[1]?.getD Json.null).getNat?) ((a[2]?.getD (Json.bool true)).getBool?.toOption.getD true)
  | "f" => return .flush
  | "r" => return .result (← (a[1]?.getD Json.null).getNat?)
  | "s" => return .stop
  | _ => throw "step"

def parseScript (j : Json) (k : String) : Except String (List (Step Nat)) := do
  (← getArr j k).toList.mapM parseStep

def nat (n : Nat) : Json := Json.num (JsonNumber.fromNat n)
def nats (l : List Nat) : Json := Json.arr (l.map nat).toArray

def itemJson : Item Nat → Json
  | .err e => Json.arr #["e", nat e]
  | .data d => Json.arr #["d", nat d]

def genJson (g : Gen Nat) : Json :=
  Json.mkObj [("items", Json.arr (g.items.map itemJson).toArray),
              ("raised", match g.raised with | some e => nat e | none => Json.null)]

def shapeJson : Shape Nat → Json
  | .none => Json.mkObj [("shape", "none")]
  | .one d => Json.mkObj [("shape", "one"), ("d", nat d)]
  | .many l => Json.mkObj [("shape", "many"), ("d", nats l)]

def outJson {α} (f : α → Json) : Out α → Json
  | .ok a => Json.mkObj [("ok", f a)]
  | .raise e => Json.mkObj [("raise", nat e)]

def decJson (lax : Bool) (o : Out (Shape Nat × List Err)) : Json :=
  outJson (fun (p : Shape Nat × List Err) =>
    if lax then Json.mkObj [("data", shapeJson p.1), ("errors", nats p.2)]
    else Json.mkObj [("data", shapeJson p.1)]) o

def modeOf (s : String) : Except String Mode :=
  match s with
  | "strict" => pure .strict | "lax" => pure .lax | "skip" => pure .skip | _ => throw "mode"

def optNat : Option Nat → Json
  | some n => nat n
  | none => Json.null

def mixOut (lax : Bool) (o : Out (Option Nat × List Err)) : Json :=
  outJson (fun (p : Option Nat × List Err) =>
    if lax then Json.mkObj [("data", optNat p.1), ("errors", nats p.2)]
    else Json.mkObj [("data", optNat p.1)]) o

def parseMember (j : Json) : Except String (Member Nat) := do
  let a ← j.getArr?
  let tag ← (a[0]?.getD Json.null).getStr?
  match tag with
  | "ok" => return .ok (← (a[1]?.getD Json.null).getNat?)
  | "lex" => return .lexical (← (a[1]?.getD Json.null).getNat?)
  | "facet" =>
    let rest ← (← (a[2]?.getD Json.null).getArr?).toList.mapM (·.getNat?)
    return .facet (← (a[1]?.getD Json.null).getNat?) rest
  | _ => throw "member"

def handle (j : Json) : Except String Json := do
  let op ← getStr j "op"
  match op with
  | "api" =>
    let sv ← parseScript j "sv"
    let sd ← parseScript j "sd"
    return Json.mkObj [
      ("wf_v", wf sv false), ("wf_d", wf sd false), ("nodata_v", (results sv).isEmpty),
      ("ev_v", nats (events sv)), ("ev_d", nats (events sd)),
      ("iterErrors", nats (iterErrors sv)),
      ("isValid", outJson (fun (b : Bool) => Json.bool b) (isValid sv)),
      ("validate", outJson (fun (_ : Unit) => Json.null) (validate sv)),
      ("decode", Json.mkObj [("strict", decJson false (decode .strict sd)),
                             ("lax", decJson true (decode .lax sd)),
                             ("skip", decJson false (decode .skip sd))]),
      ("iterDecode", Json.mkObj [("strict", genJson (iterDecode .strict sd)),
                                 ("lax", genJson (iterDecode .lax sd)),
                                 ("skip", genJson (iterDecode .skip sd))]),
      ("cli", nat (cliExit [FileRes.errors (iterErrors sv).length]))]
  | "mix" =>
    let ev ← (← getArr j "events").toList.mapM (·.getNat?)
    let v := match j.getObjVal? "value" with
      | .ok (.num n) => some n.mantissa.toNat
      | _ => none
    let c : Core Nat := ⟨ev, v⟩
    return Json.mkObj [
      ("iterErrors", nats (mixIterErrors c)), ("isValid", mixIsValid c),
      ("validate", outJson (fun (_ : Unit) => Json.null) (mixValidate c)),
      ("decode", Json.mkObj [("strict", mixOut false (mixDecode .strict c)),
                             ("lax", mixOut true (mixDecode .lax c)),
                             ("skip", mixOut false (mixDecode .skip c))])]
  | "cli" =>
    let fs ← (← getArr j "files").toList.mapM fun x =>
      match x with
      | .str "lib" => pure FileRes.libError
      | .num n => pure (FileRes.errors n.mantissa.toNat)
      | _ => throw "file"
    return Json.mkObj [("exit", nat (cliExit fs)), ("total", nat (totErrors fs)),
                       ("unsaturated", nat (osStatus (cliCodeUnsaturated fs)))]
  | "union" =>
    let ms ← (← getArr j "members").toList.mapM parseMember
    let g ← getNat j "generic"
    return Json.mkObj [("strict", nats (unionEvents .strict ms g)), ("lax", nats (unionEvents .lax ms g)),
                       ("skip", nats (unionEvents .skip ms g))]
  | _ => throw s!"unknown op {op}"

end XsVerif.Driver.C04

def main : IO Unit := XsVerif.Driver.run XsVerif.Driver.C04.handle
