import XsVerif.Driver.Util
open Lean XsVerif.Driver

-- stub: replaced when the model of C09 lands
def main : IO Unit := XsVerif.Driver.run fun _ => .error "C09 driver not implemented"
