import XsVerif.Driver.Util
import XsVerif.Model.Staged
import XsVerif.Model.Rebuild
open Lean XsVerif.Driver XsVerif.Staged

namespace XsVerif.Driver.C09

def parseDecl (j : Json) : Except String (String × Decl) := do
  return (← getStr j "n", ⟨← getNat j "id", ← getStrList j "deps"⟩)

def evJson : Ev → Json
  | .enter q => Json.arr #["enter", q]
  | .exit q => Json.arr #["exit", q]
  | .hit q => Json.arr #["hit", q]
  | .circ q => Json.arr #["circ", q]
  | .missing q => Json.arr #["missing", q]

def kidStr : Res → String
  | .ok n _ _ => "ok " ++ n
  | .missing n => "missing " ++ n
  | .circ n => "circ " ++ n
  | .fuel => "fuel"

def isFuel : Res → Bool
  | .fuel => true
  | _ => false

def strs (l : List String) : Json := Json.arr (l.map Json.str).toArray

/-- load + build of one flattened declaration list -/
def opBuild (j : Json) : Except String Json := do
  let pre ← getStrList j "pre"
  let decls ← (← getArr j "decls").toList.mapM parseDecl
  let early ← (getStrList j "early" <|> pure [])
  let st := loadAll decls
  let preDecls : List (String × Decl) := pre.map fun q => (q, ⟨0, []⟩)
  let g := table (preDecls ++ st.staged)
  let s0 := initState (fun q => pre.contains q) g
  let n := decls.length + pre.length + 2
  let staged := st.staged.map (·.1)
  let order := buildOrder staged
  let s1 := early.foldl (fun s q => (lookup n s q).1) s0
  let s := buildAll n s1 order
  let names := sortStrs (dedup (staged ++ pre))
  let mut store : Array Json := #[]
  let mut fuel := false
  for q in names do
    match s.store q with
    | some (.ok _ id kids) =>
      if kids.any isFuel then fuel := true
      store := store.push (Json.arr #[q, id, strs (kids.map kidStr)])
    | some r => store := store.push (Json.arr #[q, Json.null, kidStr r])
    | none => store := store.push (Json.arr #[q, Json.null, Json.null])
  let left := names.filter fun q => (s.staging q).isSome
  return Json.mkObj [("errors", strs st.errors), ("staged", strs staged),
    ("winners", Json.arr (st.staged.map fun p => Json.arr #[p.1, p.2.id]).toArray),
    ("order", strs order), ("log", Json.arr (s.log.reverse.map evJson).toArray),
    ("store", Json.arr store), ("left", strs left), ("fuel", fuel)]

def opResolve (j : Json) : Except String Json := do
  let dir ← getStrList j "dir"
  let loc ← getStrList j "loc"
  let abs ← getBool j "abs"
  return Json.mkObj [("key", strs (resolve dir abs loc))]

def parseDoc (j : Json) : Except String Doc := do
  let incs ← (← getArr j "includes").toList.mapM fun i => do
    return ((← getBool i "abs"), (← getStrList i "loc"))
  return { key := ← getStrList j "key", dir := ← getStrList j "dir", includes := incs, decls := [] }

def opInclude (j : Json) : Except String Json := do
  let docs ← (← getArr j "docs").toList.mapM parseDoc
  let root ← getStrList j "root"
  let n := (docs.foldl (fun a d => a + d.includes.length + 1) 2)
  let order := includeGo docs n [] [root]
  return Json.mkObj [("order", Json.arr (order.map strs).toArray)]

/-! building twice: the registries beside the staged maps (Model/Rebuild.lean) -/
section Rebuild
open XsVerif.Rebuild

def parseReq (j : Json) : Except String Req := do
  match ← getStr j "r" with
  | "global" => return .glob (← getStr j "n")
  | "ident" => return .ident (← getStr j "n") (← getStr j "elem")
  | "subst" => return .subst (← getStr j "head") (← getStr j "member")
  | r => throw s!"unknown request {r}"

def pairJson (p : String × Nat) : Json := Json.arr #[p.1, p.2]

def sortJson (l : List (String × Json)) : Json :=
  Json.arr ((l.toArray.qsort (fun a b => a.1 < b.1)).map (·.2))

def mapsJson (m : Maps) : List (String × Json) :=
  [("store", sortJson (m.store.map fun p => (p.1, pairJson p))),
   ("idents", sortJson (m.idents.map fun p => (p.1, Json.arr #[p.1, p.2.node, p.2.gen]))),
   ("subst", sortJson (m.subst.map fun p => (p.1, Json.arr #[p.1,
      sortJson (p.2.map fun x => (x.1 ++ "#" ++ toString x.2, pairJson x))]))),
   ("views", match m.views with | some g => (g : Json) | none => Json.null),
   ("errors", strs (sortStrs m.errors))]

/-- a history of builds of one maps object: `clear` (with the `keep` flags, default: the faithful clear of
    /repo), `build` with the requests of the step, views read; a step with `"fresh": true` starts from new,
    empty maps (copy / pickle produce a new object graph) -/
def opHistory (j : Json) : Except String Json := do
  let keep : Keep ← (do
      let k ← j.getObjVal? "keep"
      pure ⟨← getBool k "store", ← getBool k "idents", ← getBool k "subst", ← getBool k "views"⟩) <|> pure faithful
  let steps ← getArr j "steps"
  let mut m := Rebuild.empty
  let mut g := 0
  let mut out : Array Json := #[]
  for st in steps do
    let reqs ← (← getArr st "reqs").toList.mapM parseReq
    let fresh ← (getBool st "fresh" <|> pure false)
    let cur := if fresh then rebuild keep g reqs Rebuild.empty else rebuild keep g reqs m
    if !fresh || g == 0 then m := cur
    let mut bind : Array Json := #[]
    let mut nf : Array Json := #[]
    for kr in (← (getArr st "keyrefs" <|> pure #[])) do
      let b := Rebuild.resolve (← getBool kr "own") g cur (← getStr kr "refer")
      bind := bind.push (Json.arr #[← getStr kr "n", match b with | some x => (x : Json) | none => Json.null])
    for pr in (← (getArr st "probes" <|> pure #[])) do
      let b := Rebuild.resolve (← getBool pr "own") g cur (← getStr pr "refer")
      match b with
      | some x => nf := nf.push ((notFound x g (← getStrList pr "keys") (← getStrList pr "refs")).length : Json)
      | none => nf := nf.push Json.null
    out := out.push (Json.mkObj (mapsJson cur ++ [("gen", (g : Json)), ("keyrefs", Json.arr bind), ("notfound", Json.arr nf)]))
    g := g + 1
  return Json.mkObj [("steps", Json.arr out)]

end Rebuild

def handle (j : Json) : Except String Json := do
  match ← getStr j "op" with
  | "build" => opBuild j
  | "resolve" => opResolve j
  | "include" => opInclude j
  | "history" => opHistory j
  | op => throw s!"unknown op {op}"

end XsVerif.Driver.C09

def main : IO Unit := XsVerif.Driver.run XsVerif.Driver.C09.handle
