import XsVerif.Driver.Util
open Lean XsVerif.Driver

-- stub: replaced when the model of C03 lands
def main : IO Unit := XsVerif.Driver.run fun _ => .error "C03 driver not implemented"
