import XsVerif.Driver.Util
import XsVerif.Driver.WcJson
import XsVerif.Model.Attributes
import XsVerif.Model.AttrFixed
import XsVerif.Model.AttrTypes
import XsVerif.Model.AttrDeriv
open Lean XsVerif.Driver XsVerif.Wildcard XsVerif.Attributes XsVerif.AttrTypes XsVerif.AttrDeriv

/-
  Line protocol of C03.  Three kinds of request (field "op"):

  "decode" (default) — one built group, a batch of attribute sets and option pairs:
    {"decls":[D..], "any": null | {"wc":W,"pc":"strict|lax|skip"}, "globals":[D..], "loaded":[ns..],
     "cases":[[[[ns,loc],value]..]..], "opts":[[useDefaults,fillMissing]..], "ctx":[[prefix,uri]..],
     "byValue":b, "sctx":[[prefix,uri]..]}      byValue = the tree under test has the repair of C03-F3 (detected by
                                                 the harness with the witness); sctx = schema.namespaces
    D = {"n":[ns,loc],"use":"optional|required|prohibited","fixed":null|str,"default":null|str,"ty":k,"same":b}
    W = wildcard as in C16 ({"ns":"any"|"other"|[..],"notNs":[..],"notQ":[[ns,loc]..],"nd":b,"nsib":b,"tns":str})
    simple-type semantics = `AttrTypes.semCatV byValue ctx sctx` (computed from the lexical forms, no tables);
    errors = `Attributes.errorsX … (qStrict byValue)` (= `Attributes.errors` when byValue is false)
    answer {"res":[[R per opt] per case]},
      R = {"errors":[[kind,ns,loc]..] in collection order,
           "decoded":[[ns,loc,"t",ty,raw,V] | [ns,loc,"r",raw] | [ns,loc,"n"]] in result order},
      V = the decoded value of `raw` for catalogue type `ty` (`AttrTypes.decodedVal`)
  "types" — the catalogue semantics alone:
    {"op":"types","ctx":[[prefix,uri]..],"byValue":b,"sctx":[..],"items":[[ty,lex]..],"pairs":[[ty,a,b]..]}
    answer {"valid":[b..],"dec":[V..],"eq":[b..]}     eq = a declaration of type ty with fixed=b reports no
                                                       fixed-value error for the value a (`declErrsX`)
  "build" — computing the attribute group of a (derived) complex type (Model/AttrDeriv.lean):
    {"op":"build","v11":b,"oldPc":b,"content":{"children":[{"attr":D}|{"group":G}..],"any":A,"inGroupDef":b},
     "deriv":"none|extension|restriction","base":null|G,"defaults":null|G,"ids":[ty..]}   G = {"decls":[D..],"any":A}
    answer {"group": null | {"decls":[D..],"any":A'}, "errs":[str..]}
-/
namespace XsVerif.Driver.C03

def parsePC (s : String) : Except String PC :=
  match s with
  | "strict" => pure .strict | "lax" => pure .lax | "skip" => pure .skip | _ => throw "pc"

def optStr (j : Json) (k : String) : Except String (Option String) := do
  match j.getObjVal? k with
  | .ok (.str s) => pure (some s)
  | .ok .null => pure none
  | .ok _ => throw s!"{k}: string or null expected"
  | .error _ => pure none

def parseDecl (j : Json) : Except String Decl := do
  let name ← parseQN (← j.getObjVal? "n")
  let use ← match (← getStr j "use") with
    | "optional" => pure Use.optional | "required" => pure Use.required
    | "prohibited" => pure Use.prohibited | _ => throw "use"
  return { name, use, fixed := ← optStr j "fixed", dflt := ← optStr j "default", ty := ← getNat j "ty",
           sameSchema := ← getBool j "same" }

def parseAny (j : Json) : Except String (Option AnyAttr) := do
  match j with
  | .null => pure none
  | _ => return some { wc := ← parseWc (← j.getObjVal? "wc"), pc := ← parsePC (← getStr j "pc") }

def errJ (k : String) (n : QN) : Json := Json.arr #[k, n.ns, n.loc]

def errToJson : Err → Json
  | .missing n => errJ "missing" n
  | .notAllowed n => errJ "notAllowed" n
  | .notXsi n => errJ "notXsi" n
  | .prohibited n => errJ "prohibited" n
  | .fixedMismatch n => errJ "fixed" n
  | .invalidValue n => errJ "invalid" n
  | .wildcardDenied n => errJ "denied" n
  | .notFound n => errJ "notFound" n
  | .unavailableNs n => errJ "unavailable" n

def strOf (s : XsVerif.Datatypes.Str) : String := String.ofList s

def dvJson : DV → Json
  | .none => Json.arr #["n"]
  | .int i => Json.arr #["i", toString i]
  | .dec d => Json.arr #["d", d.neg, toString d.coef, d.scale]
  | .bool b => Json.arr #["b", b]
  | .str s => Json.arr #["s", strOf s]
  | .list l => Json.arr #["l", Json.arr (l.map fun
      | some i => Json.str (toString i)
      | none => Json.null).toArray]

def valJson (ctx : NsCtx) (ty : Nat) (raw : String) : Json :=
  match CatTy.ofIdx ty with
  | some t => dvJson (decodedVal ctx t raw.toList)
  | none => Json.arr #["?"]

def itemToJson (ctx : NsCtx) (bv inj : Bool) : Item → Json
  | (n, .typed ty raw) =>
    let v := match CatTy.ofIdx ty with
      | some t => dvJson (if inj then injectedVal bv ctx t raw.toList else decodedVal ctx t raw.toList)
      | none => Json.arr #["?"]
    Json.arr #[n.ns, n.loc, "t", ty, raw, v]
  | (n, .raw s) => Json.arr #[n.ns, n.loc, "r", s]
  | (n, .nil) => Json.arr #[n.ns, n.loc, "n"]

def parseCtx (j : Json) : Except String NsCtx := do
  (← j.getArr?).toList.mapM fun e => do
    let p ← e.getArr?
    if h : p.size = 2 then return (← p[0].getStr?, ← p[1].getStr?) else throw "ctx entry"

def parseAttrs (j : Json) : Except String (List Attr) := do
  (← j.getArr?).toList.mapM fun e => do
    let p ← e.getArr?
    if h : p.size = 2 then return ((← parseQN p[0], ← p[1].getStr?) : Attr) else throw "attr"

def parseOpt (j : Json) : Except String (Bool × Bool) := do
  let p ← j.getArr?
  if h : p.size = 2 then return (← p[0].getBool?, ← p[1].getBool?) else throw "opts"

def parseGroup (j : Json) : Except String Group := do
  return { decls := ← (← getArr j "decls").toList.mapM parseDecl, any := ← parseAny (← j.getObjVal? "any") }

def parseOptGroup (j : Json) (k : String) : Except String (Option Group) := do
  match j.getObjVal? k with
  | .ok .null => pure none
  | .ok g => some <$> parseGroup g
  | .error _ => pure none

def useStr : Use → String
  | .optional => "optional" | .required => "required" | .prohibited => "prohibited"

def optStrJson : Option String → Json
  | some s => Json.str s | none => Json.null

def declJson (d : Decl) : Json :=
  Json.mkObj [("n", Json.arr #[d.name.ns, d.name.loc]), ("use", useStr d.use), ("fixed", optStrJson d.fixed),
    ("default", optStrJson d.dflt), ("ty", d.ty)]

def pcStr : PC → String | .strict => "strict" | .lax => "lax" | .skip => "skip"

def anyJson : Option AnyAttr → Json
  | none => Json.null
  | some a => Json.mkObj [("wc", wcJson a.wc), ("pc", pcStr a.pc)]

def groupJson (g : Group) : Json :=
  Json.mkObj [("decls", Json.arr (g.decls.map declJson).toArray), ("any", anyJson g.any)]

def buildErrStr : BuildErr → String
  | .duplicate _ => "duplicate" | .unionNotExpressible => "union" | .defaultClash _ => "defaultClash"
  | .defaultWildcardClash => "defaultWildcardClash" | .multipleIds => "multipleIds"

def parseChild (j : Json) : Except String Child := do
  match j.getObjVal? "attr" with
  | .ok d => Child.attr <$> parseDecl d
  | .error _ => Child.group <$> parseGroup (← j.getObjVal? "group")

def parseDeriv (s : String) : Except String Deriv :=
  match s with
  | "none" => pure .none | "extension" => pure .extension | "restriction" => pure .restriction
  | _ => throw "deriv"

/-- "decode": one built group with a batch of attribute sets and option pairs -/
def handleDecode (j : Json) : Except String Json := do
  let decls ← (← getArr j "decls").toList.mapM parseDecl
  let any ← parseAny (← j.getObjVal? "any")
  let globals ← (← getArr j "globals").toList.mapM parseDecl
  let loaded ← getStrList j "loaded"
  let cases ← (← getArr j "cases").toList.mapM parseAttrs
  let opts ← (← getArr j "opts").toList.mapM parseOpt
  let ctx ← parseCtx (← j.getObjVal? "ctx")
  let sctx ← parseCtx (← j.getObjVal? "sctx")
  let bv ← getBool j "byValue"
  let sem := semCatV bv ctx sctx
  let env : Env := { globals, loaded }
  let G : Group := { decls, any }
  -- `decoded` = items of the instance attributes ++ items of the injected ones ++ fillers
  let one (o : Opts) (attrs : List Attr) : Json :=
    Json.mkObj [("errors", Json.arr ((errorsX sem (qStrict bv) env o G attrs).map errToJson).toArray),
                ("decoded", Json.arr (((attrs.filterMap (stepItem env o G)).map (itemToJson ctx bv false) ++
                    ((additional o G attrs).filterMap (stepItem env o G)).map (itemToJson ctx bv true) ++
                    (filled o G attrs).map (itemToJson ctx bv false))).toArray)]
  let res := cases.map fun attrs => Json.arr (opts.map fun (ud, fm) =>
    one { useDefaults := ud, fillMissing := fm, legacy := false } attrs).toArray
  return Json.mkObj [("res", Json.arr res.toArray)]

/-- "types": validity, decoded value and the fixed-value test of the catalogue types -/
def handleTypes (j : Json) : Except String Json := do
  let ctx ← parseCtx (← j.getObjVal? "ctx")
  let sctx ← parseCtx (← j.getObjVal? "sctx")
  let bv ← getBool j "byValue"
  let sem := semCatV bv ctx sctx
  let nm : QN := ⟨"", "v"⟩
  let items ← (← getArr j "items").toList.mapM fun e => do
    let p ← e.getArr?
    if h : p.size = 2 then return (← p[0].getNat?, ← p[1].getStr?) else throw "item"
  let pairs ← (← getArr j "pairs").toList.mapM fun e => do
    let p ← e.getArr?
    if h : p.size = 3 then return (← p[0].getNat?, ← p[1].getStr?, ← p[2].getStr?) else throw "pair"
  return Json.mkObj [
    ("valid", Json.arr (items.map fun (t, x) => Json.bool (sem.validT t x)).toArray),
    ("dec", Json.arr (items.map fun (t, x) => valJson ctx t x).toArray),
    ("eq", Json.arr (pairs.map fun (t, a, b) => Json.bool
      (!(declErrsX sem (qStrict bv) false { name := nm, fixed := some b, ty := t } nm a).contains
          (Err.fixedMismatch nm))).toArray)]

/-- "build": the attribute group of a (derived) complex type -/
def handleBuild (j : Json) : Except String Json := do
  let v11 ← getBool j "v11"
  let oldPc ← getBool j "oldPc"
  let cj ← j.getObjVal? "content"
  let content : Content := {
    children := ← (← getArr cj "children").toList.mapM parseChild,
    any := ← parseAny (← cj.getObjVal? "any"),
    inGroupDef := ← getBool cj "inGroupDef" }
  let k ← parseDeriv (← getStr j "deriv")
  let base ← parseOptGroup j "base"
  let dflt ← parseOptGroup j "defaults"
  let ids ← (← getArr j "ids").toList.mapM (·.getNat?)
  let (D, e1) := collect oldPc content
  match derive v11 k (base.getD { decls := [], any := none }) D with
  | .error e => return Json.mkObj [("group", Json.null), ("errs", Json.arr ((e1 ++ [e]).map (Json.str ∘ buildErrStr)).toArray)]
  | .ok G =>
    let (G', e2) := applyDefaults G dflt
    let e3 := idErrs v11 (fun t => ids.contains t) G'
    return Json.mkObj [("group", groupJson G'),
      ("errs", Json.arr ((e1 ++ e2 ++ e3).map (Json.str ∘ buildErrStr)).toArray)]

def handle (j : Json) : Except String Json := do
  match j.getObjVal? "op" with
  | .ok (.str "types") => handleTypes j
  | .ok (.str "build") => handleBuild j
  | _ => handleDecode j

end XsVerif.Driver.C03

def main : IO Unit := XsVerif.Driver.run XsVerif.Driver.C03.handle
