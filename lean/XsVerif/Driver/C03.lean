import XsVerif.Driver.Util
import XsVerif.Model.Attributes
open Lean XsVerif.Driver XsVerif.Wildcard XsVerif.Attributes

/-
  Line protocol of C03.  Request:
    {"decls":[D..], "any": null | {"wc":W,"pc":"strict|lax|skip"}, "globals":[D..], "loaded":[ns..],
     "cases":[[[[ns,loc],value]..]..], "opts":[[useDefaults,fillMissing]..], "both":b,
     "valid":[[ty,lex]..], "cls":[[ty,lex,classId]..]}
    D = {"n":[ns,loc],"use":"optional|required|prohibited","fixed":null|str,"default":null|str,"ty":k,"same":b}
    W = wildcard as in C16 ({"ns":"any"|"other"|[..],"notNs":[..],"notQ":[[ns,loc]..],"nd":b,"nsib":b,"tns":str})
  Answer:
    {"errors":[[kind,ns,loc]..]   in collection order,
     "decoded":[[ns,loc,"t",ty,raw] | [ns,loc,"r",raw] | [ns,loc,"n"]]   in result order,
    (see `handle` for the batching)
-/
namespace XsVerif.Driver.C03

def parseQN (j : Json) : Except String QN := do
  let a ← j.getArr?
  if h : a.size = 2 then
    return ⟨← a[0].getStr?, ← a[1].getStr?⟩
  else throw "qname"

def parseWc (j : Json) : Except String Wc := do
  let nsj ← j.getObjVal? "ns"
  let ns ← match nsj with
    | .str "any" => pure NsC.any
    | .str "other" => pure NsC.other
    | .arr a => NsC.set <$> a.toList.mapM (·.getStr?)
    | _ => throw "ns"
  let notNs ← getStrList j "notNs"
  let nq ← getArr j "notQ"
  let notQ ← nq.toList.mapM parseQN
  return { ns, notNs, notQ, notDefined := ← getBool j "nd", notSibling := ← getBool j "nsib",
           tns := ← getStr j "tns" }

def parsePC (s : String) : Except String PC :=
  match s with
  | "strict" => pure .strict | "lax" => pure .lax | "skip" => pure .skip | _ => throw "pc"

def optStr (j : Json) (k : String) : Except String (Option String) := do
  match j.getObjVal? k with
  | .ok (.str s) => pure (some s)
  | .ok .null => pure none
  | .ok _ => throw s!"{k}: string or null expected"
  | .error _ => pure none

def parseDecl (j : Json) : Except String Decl := do
  let name ← parseQN (← j.getObjVal? "n")
  let use ← match (← getStr j "use") with
    | "optional" => pure Use.optional | "required" => pure Use.required
    | "prohibited" => pure Use.prohibited | _ => throw "use"
  return { name, use, fixed := ← optStr j "fixed", dflt := ← optStr j "default", ty := ← getNat j "ty",
           sameSchema := ← getBool j "same" }

def parseAny (j : Json) : Except String (Option AnyAttr) := do
  match j with
  | .null => pure none
  | _ => return some { wc := ← parseWc (← j.getObjVal? "wc"), pc := ← parsePC (← getStr j "pc") }

def errJ (k : String) (n : QN) : Json := Json.arr #[k, n.ns, n.loc]

def errToJson : Err → Json
  | .missing n => errJ "missing" n
  | .notAllowed n => errJ "notAllowed" n
  | .notXsi n => errJ "notXsi" n
  | .prohibited n => errJ "prohibited" n
  | .fixedMismatch n => errJ "fixed" n
  | .invalidValue n => errJ "invalid" n
  | .wildcardDenied n => errJ "denied" n
  | .notFound n => errJ "notFound" n
  | .unavailableNs n => errJ "unavailable" n

def itemToJson : Item → Json
  | (n, .typed ty raw) => Json.arr #[n.ns, n.loc, "t", ty, raw]
  | (n, .raw s) => Json.arr #[n.ns, n.loc, "r", s]
  | (n, .nil) => Json.arr #[n.ns, n.loc, "n"]

def parseTable (j : Json) : Except String (List (Nat × String)) := do
  let a ← j.getArr?
  a.toList.mapM fun e => do
    let p ← e.getArr?
    if h : p.size = 2 then return (← p[0].getNat?, ← p[1].getStr?) else throw "valid entry"

def parseCls (j : Json) : Except String (List (Nat × String × Nat)) := do
  let a ← j.getArr?
  a.toList.mapM fun e => do
    let p ← e.getArr?
    if h : p.size = 3 then return (← p[0].getNat?, ← p[1].getStr?, ← p[2].getNat?) else throw "cls entry"

def mkSem (valid : List (Nat × String)) (cls : List (Nat × String × Nat)) : Sem where
  validT t x := valid.contains (t, x)
  valueEq t a b :=
    match cls.find? (fun e => e.1 == t && e.2.1 == a), cls.find? (fun e => e.1 == t && e.2.1 == b) with
    | some ea, some eb => ea.2.2 == eb.2.2
    | _, _ => false

def parseAttrs (j : Json) : Except String (List Attr) := do
  (← j.getArr?).toList.mapM fun e => do
    let p ← e.getArr?
    if h : p.size = 2 then return ((← parseQN p[0], ← p[1].getStr?) : Attr) else throw "attr"

def parseOpt (j : Json) : Except String (Bool × Bool) := do
  let p ← j.getArr?
  if h : p.size = 2 then return (← p[0].getBool?, ← p[1].getBool?) else throw "opts"

/-- one request = one built group with a batch of attribute sets and option pairs
    `[useDefaults, fillMissing]`; answer `res[case][opt] = {"rep":R, "leg":R?}` with
    `R = {"errors":[..],"decoded":[..]}` for the repaired (`rep`) and the pinned (`leg`, only when
    `"both":true`) algorithm. -/
def handle (j : Json) : Except String Json := do
  let decls ← (← getArr j "decls").toList.mapM parseDecl
  let any ← parseAny (← j.getObjVal? "any")
  let globals ← (← getArr j "globals").toList.mapM parseDecl
  let loaded ← getStrList j "loaded"
  let cases ← (← getArr j "cases").toList.mapM parseAttrs
  let opts ← (← getArr j "opts").toList.mapM parseOpt
  let both ← getBool j "both"
  let sem := mkSem (← parseTable (← j.getObjVal? "valid")) (← parseCls (← j.getObjVal? "cls"))
  let env : Env := { globals, loaded }
  let G : Group := { decls, any }
  let one (o : Opts) (attrs : List Attr) : Json :=
    Json.mkObj [("errors", Json.arr ((errors sem env o G attrs).map errToJson).toArray),
                ("decoded", Json.arr ((decoded env o G attrs).map itemToJson).toArray)]
  let res := cases.map fun attrs => Json.arr (opts.map fun (ud, fm) =>
    let rep := one { useDefaults := ud, fillMissing := fm, legacy := false } attrs
    if both then Json.mkObj [("rep", rep), ("leg", one { useDefaults := ud, fillMissing := fm, legacy := true } attrs)]
    else Json.mkObj [("rep", rep)]).toArray
  return Json.mkObj [("res", Json.arr res.toArray)]

end XsVerif.Driver.C03

def main : IO Unit := XsVerif.Driver.run XsVerif.Driver.C03.handle
