import XsVerif.Driver.Util
open Lean XsVerif.Driver

-- stub: replaced when the model of C19 lands
def main : IO Unit := XsVerif.Driver.run fun _ => .error "C19 driver not implemented"
