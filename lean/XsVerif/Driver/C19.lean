import XsVerif.Driver.Util
import XsVerif.Model.Paths
import XsVerif.Model.Localise
import XsVerif.Model.PathsNs
import XsVerif.Model.FixedCC
open Lean XsVerif.Driver XsVerif.Paths

namespace XsVerif.Driver.C19

partial def parseT (j : Json) : Except String T := do
  let tag ← getStr j "t"
  let ch ← (← getArr j "c").toList.mapM parseT
  return .node tag ch

def stepStr (s : Step) : String :=
  match s.pos with
  | none => s.name
  | some k => s.name ++ "[" ++ toString k ++ "]"

def posJson (p : List Nat) : Json := Json.arr (p.map fun n => Json.num (JsonNumber.fromNat n)).toArray

def pnameStr : XsVerif.NsMapper.PName → String
  | .loc l => l
  | .pre p l => p ++ ":" ++ l
  | .braced u l => "{" ++ u ++ "}" ++ l

/-- `{"render": [[prefix, uri], …], "q": [ns, local]}` → the rendered name -/
def handleRender (j : Json) : Except String Json := do
  let ns ← (← getArr j "render").toList.mapM fun p => do
    let a ← p.getArr?
    if h : a.size = 2 then pure (← a[0].getStr?, ← a[1].getStr?) else throw "pair"
  let q ← getArr j "q"
  if h : q.size = 2 then
    return Json.mkObj [("name", pnameStr (renderName ns ⟨← q[0].getStr?, ← q[1].getStr?⟩))]
  else throw "q"

/-! ### fault localisation: `Fault.apply`, `errs` of the table-driven validator, zone predicates -/
open XsVerif.Localise

def parseNats (j : Json) : Except String (List Nat) := do
  (← j.getArr?).toList.mapM (·.getNat?)

def parsePairs (j : Json) : Except String (List (String × String)) := do
  (← j.getArr?).toList.mapM fun p => do
    let a ← p.getArr?
    if h : a.size = 2 then pure (← a[0].getStr?, ← a[1].getStr?) else throw "pair"

partial def parseDoc (j : Json) : Except String Doc := do
  let tag ← getStr j "t"
  let a ← parsePairs (← j.getObjVal? "a")
  let x ← getStr j "x"
  let ch ← (← getArr j "c").toList.mapM parseDoc
  return .node tag a x ch

partial def docJson : Doc → Json
  | .node t a x c => Json.mkObj [("t", t), ("a", Json.arr (a.map fun p => Json.arr #[Json.str p.1, Json.str p.2]).toArray),
      ("x", x), ("c", Json.arr (c.map docJson).toArray)]

def parseFault (j : Json) : Except String Fault := do
  match ← getStr j "k" with
  | "relabel" => return .relabel (← parseNats (← j.getObjVal? "p")) (← parsePairs (← j.getObjVal? "a")) (← getStr j "x")
  | "insert" => return .insert (← parseNats (← j.getObjVal? "q")) (← getNat j "i") (← parseDoc (← j.getObjVal? "c"))
  | "remove" => return .remove (← parseNats (← j.getObjVal? "q")) (← getNat j "i")
  | "move" => return .move (← parseNats (← j.getObjVal? "q")) (← getNat j "i") (← getNat j "j")
  | k => throw s!"fault kind {k}"

def parseOwn (j : Json) : Except String OwnRow := do
  return { d := ← getNat j "d", tag := ← getStr j "t", attrs := ← parsePairs (← j.getObjVal? "a"),
           text := ← getStr j "x", names := ← getStrList j "n", pre := ← getStrList j "pre",
           post := ← getStrList j "post" }

def parseGov (j : Json) : Except String GovRow := do
  let g := match j.getObjVal? "g" with
    | .ok v => v.getNat?.toOption
    | .error _ => none
  return { d := ← getNat j "d", name := ← getStr j "n", d' := g }

/-- `{"op":"localise","doc":…,"faults":[…],"d0":n,"own":[…],"gov":[…]}`: one answer per fault -/
def handleLocalise (j : Json) : Except String Json := do
  let t ← parseDoc (← j.getObjVal? "doc")
  let fs ← (← getArr j "faults").toList.mapM parseFault
  let d0 ← getNat j "d0"
  let own ← (← getArr j "own").toList.mapM parseOwn
  let gov ← (← getArr j "gov").toList.mapM parseGov
  let v := tableVal own gov
  let valid0 := (errs v d0 t).isEmpty
  let rs := fs.map fun f =>
    let t' := f.apply t
    let es := errs v d0 t'
    let out := es.map fun e => Json.mkObj [("pos", posJson e.1), ("sig", e.2),
      ("zone", inZone f.damaged e.1), ("near", near f.damaged e.1)]
    Json.mkObj [("effective", effectiveB v d0 t f),
      ("mut", docJson t'), ("damaged", posJson f.damaged), ("errs", Json.arr out.toArray)]
  return Json.mkObj [("valid0", valid0), ("r", Json.arr rs.toArray)]

partial def tJson : T → Json
  | .node t c => Json.mkObj [("t", t), ("c", Json.arr (c.map tJson).toArray)]

def pathText (pp : String × List Step) : String :=
  "/" ++ pp.1 ++ String.join (pp.2.map fun s => "/" ++ stepStr s)

/-- `{"op":"lazy","tree":…,"k":n,"done":n,"n":n,"pos":[…]}`: the lazy state, the path computed on it for the
    position, what that path selects in the full tree, the guard of `lazy_path_exact_partial` -/
def handleLazy (j : Json) : Except String Json := do
  let t ← parseT (← j.getObjVal? "tree")
  let k ← getNat j "k"
  let done ← getNat j "done"
  let n ← getNat j "n"
  let pos ← parseNats (← j.getObjVal? "pos")
  match lazyState k done n t with
  | none => return Json.mkObj [("state", Json.null)]
  | some st =>
    match getPath st pos with
    | none => return Json.mkObj [("state", tJson st), ("path", Json.null)]
    | some pp =>
      return Json.mkObj [("state", tJson st), ("path", pathText pp),
        ("sel", Json.arr ((selectAbs t pp).map posJson).toArray),
        ("complete", completeAlong st t pos), ("pre", pre st t)]

/-! ### the path as a user reads it: expanded names, written with one map, read with another -/
partial def parseQT (j : Json) : Except String XsVerif.PathsNs.QT := do
  let q ← getArr j "q"
  let ch ← (← getArr j "c").toList.mapM parseQT
  if h : q.size = 2 then return .node ⟨← q[0].getStr?, ← q[1].getStr?⟩ ch else throw "q"

def rstepStr (s : XsVerif.PathsNs.RStep) : String :=
  match s.pos with
  | none => pnameStr s.name
  | some k => pnameStr s.name ++ "[" ++ toString k ++ "]"

/-- `{"op":"nspath","tree":…,"ns":[[p,u],…],"read":[[p,u],…],"pos":[[…],…]}`: per position the path text written
    with `ns` (`getPath` on expanded names, `renderPath`) and what a reader with the map `read` selects
    (`userSelect`; null = the path cannot be read) -/
def handleNsPath (j : Json) : Except String Json := do
  let t ← parseQT (← j.getObjVal? "tree")
  let m ← parsePairs (← j.getObjVal? "ns")
  let m' ← parsePairs (← j.getObjVal? "read")
  let ps ← (← getArr j "pos").toList.mapM parseNats
  let out := ps.map fun p =>
    match XsVerif.PathsNs.getPath t p with
    | none => Json.mkObj [("path", Json.null), ("sel", Json.null)]
    | some pp =>
      let rp := XsVerif.PathsNs.renderPath m pp
      let text := "/" ++ pnameStr rp.1 ++ String.join (rp.2.map fun s => "/" ++ rstepStr s)
      let sel := match XsVerif.PathsNs.userSelect m' t rp with
        | none => Json.null
        | some l => Json.arr (l.map posJson).toArray
      Json.mkObj [("path", text), ("sel", sel)]
  return Json.mkObj [("r", Json.arr out.toArray)]

/-- `{"op":"fixedcc","fixed":s,"els":[[text or null, number of children],…]}`: per element whether the ported decision
    of XsdElement.raw_decode raises "must have the fixed value" (Model/FixedCC.lean `libErr`) -/
def handleFixedCC (j : Json) : Except String Json := do
  let fixed ← getStr j "fixed"
  let els ← (← getArr j "els").toList.mapM fun p => do
    let a ← p.getArr?
    let t : Option String := match a[0]! with
      | .str s => some s
      | _ => none
    let k ← a[1]!.getNat?
    pure ({ text := t, kids := k } : XsVerif.FixedCC.El)
  return Json.mkObj [("r", Json.arr (els.map fun e => Json.bool (XsVerif.FixedCC.libErr fixed e)).toArray)]

/-- request: a tree and a list of positions; answer per position: the path text and what it selects -/
def handle (j : Json) : Except String Json := do
  if (j.getObjVal? "render").toOption.isSome then return ← handleRender j
  match j.getObjValAs? String "op" with
  | .ok "localise" => return ← handleLocalise j
  | .ok "lazy" => return ← handleLazy j
  | .ok "nspath" => return ← handleNsPath j
  | .ok "fixedcc" => return ← handleFixedCC j
  | _ => pure ()
  let t ← parseT (← j.getObjVal? "tree")
  let ps ← (← getArr j "pos").toList.mapM fun p => do
    let a ← p.getArr?
    a.toList.mapM (·.getNat?)
  let out := ps.map fun p =>
    match getPath t p with
    | none => Json.mkObj [("path", Json.null), ("sel", Json.arr #[])]
    | some pp =>
      let text := "/" ++ pp.1 ++ String.join (pp.2.map fun s => "/" ++ stepStr s)
      Json.mkObj [("path", text), ("sel", Json.arr ((selectAbs t pp).map posJson).toArray)]
  return Json.mkObj [("r", Json.arr out.toArray)]

end XsVerif.Driver.C19

def main : IO Unit := XsVerif.Driver.run XsVerif.Driver.C19.handle
