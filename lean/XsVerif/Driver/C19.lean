import XsVerif.Driver.Util
import XsVerif.Model.Paths
open Lean XsVerif.Driver XsVerif.Paths

namespace XsVerif.Driver.C19

partial def parseT (j : Json) : Except String T := do
  let tag ← getStr j "t"
  let ch ← (← getArr j "c").toList.mapM parseT
  return .node tag ch

def stepStr (s : Step) : String :=
  match s.pos with
  | none => s.name
  | some k => s.name ++ "[" ++ toString k ++ "]"

def posJson (p : List Nat) : Json := Json.arr (p.map fun n => Json.num (JsonNumber.fromNat n)).toArray

def pnameStr : XsVerif.NsMapper.PName → String
  | .loc l => l
  | .pre p l => p ++ ":" ++ l
  | .braced u l => "{" ++ u ++ "}" ++ l

/-- `{"render": [[prefix, uri], …], "q": [ns, local]}` → the rendered name -/
def handleRender (j : Json) : Except String Json := do
  let ns ← (← getArr j "render").toList.mapM fun p => do
    let a ← p.getArr?
    if h : a.size = 2 then pure (← a[0].getStr?, ← a[1].getStr?) else throw "pair"
  let q ← getArr j "q"
  if h : q.size = 2 then
    return Json.mkObj [("name", pnameStr (renderName ns ⟨← q[0].getStr?, ← q[1].getStr?⟩))]
  else throw "q"

/-- request: a tree and a list of positions; answer per position: the path text and what it selects -/
def handle (j : Json) : Except String Json := do
  if (j.getObjVal? "render").toOption.isSome then return ← handleRender j
  let t ← parseT (← j.getObjVal? "tree")
  let ps ← (← getArr j "pos").toList.mapM fun p => do
    let a ← p.getArr?
    a.toList.mapM (·.getNat?)
  let out := ps.map fun p =>
    match getPath t p with
    | none => Json.mkObj [("path", Json.null), ("sel", Json.arr #[])]
    | some pp =>
      let text := "/" ++ pp.1 ++ String.join (pp.2.map fun s => "/" ++ stepStr s)
      Json.mkObj [("path", text), ("sel", Json.arr ((selectAbs t pp).map posJson).toArray)]
  return Json.mkObj [("r", Json.arr out.toArray)]

end XsVerif.Driver.C19

def main : IO Unit := XsVerif.Driver.run XsVerif.Driver.C19.handle
