import XsVerif.Driver.Util
open Lean XsVerif.Driver

-- stub: replaced when the model of C14 lands
def main : IO Unit := XsVerif.Driver.run fun _ => .error "C14 driver not implemented"
