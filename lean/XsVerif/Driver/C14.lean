import XsVerif.Driver.CMJson
import XsVerif.Model.Incl
import XsVerif.Model.Restriction
open Lean XsVerif.Driver XsVerif.Wildcard XsVerif.CM XsVerif.Restr XsVerif

namespace XsVerif.Driver.C14

def optBool (j : Json) (k : String) (d : Bool) : Bool :=
  match j.getObjValAs? Bool k with | .ok b => b | .error _ => d
def optNat (j : Json) (k : String) (d : Nat) : Nat :=
  match j.getObjValAs? Nat k with | .ok b => b | .error _ => d
def optStr? (j : Json) (k : String) : Option String :=
  match j.getObjVal? k with | .ok (.str s) => some s | _ => none
def optQN? (j : Json) (k : String) : Option QN :=
  match j.getObjVal? k with
  | .ok v => match parseQN v with | .ok q => some q | .error _ => none
  | .error _ => none

def parsePC (s : String) : PC :=
  match s with | "lax" => .lax | "skip" => .skip | _ => .strict

def parseInfo (j : Json) : Except String (Nat × PInfo) := do
  let id ← getNat j "id"
  let subs ← match j.getObjVal? "subs" with
    | .ok (.arr a) => a.toList.mapM parseQN
    | _ => pure []
  let block ← match j.getObjVal? "block" with
    | .ok (.arr a) => a.toList.mapM (·.getStr?)
    | _ => pure []
  let idents ← match j.getObjVal? "idents" with
    | .ok (.arr a) => a.toList.mapM (·.getNat?)
    | _ => pure []
  return (id, {
    refTruthy := optBool j "refTruthy" false, isHead := optBool j "isHead" false,
    isGlobal := optBool j "isGlobal" false, abstract := optBool j "abstract" false,
    substGroup := optQN? j "substGroup", subs, typeId := optNat j "typeId" 0,
    typeIsAny := optBool j "typeIsAny" false, typeAbstract := optBool j "typeAbstract" false,
    fixed := optStr? j "fixed", nillable := optBool j "nillable" false, block, idents,
    pc := parsePC ((optStr? j "pc").getD "strict"), gref := optBool j "gref" false,
    hasParent := optBool j "hasParent" true, mixed := optBool j "mixed" false })

def mkInfo (n : Nat) (l : List (Nat × PInfo)) : Array PInfo :=
  l.foldl (fun a (i, x) => a.setIfInBounds i x) (Array.replicate n default)

def verdictJson : Except Err Bool → Json
  | .ok b => Json.bool b
  | .error .fuel => Json.str "fuel"
  | .error .raises => Json.str "raises"

def qnJson (q : QN) : Json := Json.arr #[q.ns, q.loc]

def inclJson : Rx.InclVerdict QN → Json
  | .included => Json.str "included"
  | .unknown => Json.str "unknown"
  | .witness w => Json.mkObj [("w", Json.arr (w.map qnJson).toArray)]

/-- {"op":"pair","v11":b,"n":ids,"d":particle,"b":particle,"info":[…],"derivOk":[[i,j],…],
     "sig":[[ns,loc],…],"fuel":N,"words":[[…],…]}
    → {"m": port verdict, "incl": oracle verdict, "states": |certificate|, "bf": first brute-force
       counterexample index or null, "ext": number of extended wildcard copies (1.1 all rule)} -/
def handlePair (j : Json) : Except String Json := do
  let n ← getNat j "n"
  let v11 ← getBool j "v11"
  let (d, _) ← parseParticle (← j.getObjVal? "d")
  let (b, _) ← parseParticle (← j.getObjVal? "b")
  let infos ← (← getArr j "info").toList.mapM parseInfo
  let derivOk ← match j.getObjVal? "derivOk" with
    | .ok (.arr a) => a.toList.mapM fun p => do
        let x ← p.getArr?
        if h : x.size = 2 then pure ((← x[0].getNat?), (← x[1].getNat?)) else throw "derivOk"
    | _ => pure []
  let C : Ctx := { v11, info := mkInfo n infos, derivOk }
  let sig ← (← getArr j "sig").toList.mapM parseQN
  let fuel ← getNat j "fuel"
  let words ← match j.getObjVal? "words" with
    | .ok (.arr a) => a.toList.mapM fun w => do (← w.getArr?).toList.mapM parseQN
    | _ => pure []
  let rd := d.toRx
  let rb := b.toRx
  let run := Rx.inclRun Leaf.matches sig fuel rd rb
  let incl := run.1
  let bf : Json := match words.findIdx? fun w => Rx.accepts Leaf.matches rd w && !Rx.accepts Leaf.matches rb w with
    | some i => Json.num i
    | none => Json.null
  return Json.mkObj [("m", verdictJson (contentRestriction C d b)),
    ("acc", verdictJson (typeRestrictionAccepted C d b)),
    ("admits", admitsRestriction C b d.kind), ("incl", inclJson incl),
    ("states", run.2), ("bf", bf),
    ("ext", extendedCopies C (iterModel b)),
    ("emptiable", Json.arr #[emptiable d, emptiable b]),
    ("eff", Json.arr #[(eff d).1, match (eff d).2 with | some x => Json.num x | none => Json.null,
                       (eff b).1, match (eff b).2 with | some x => Json.num x | none => Json.null])]

def natOpt (j : Json) : Except String (Option Nat) :=
  match j with | .null => pure none | v => some <$> v.getNat?

/-- {"op":"occ","q":[[lo,hi,olo,ohi],…]} → {"r":[bool,…]}  (`has_occurs_restriction`) -/
def handleOcc (j : Json) : Except String Json := do
  let qs ← getArr j "q"
  let rs ← qs.toList.mapM fun q => do
    let a ← q.getArr?
    if h : a.size = 4 then
      pure (Json.bool (hasOccursRestriction (← a[0].getNat?) (← natOpt a[1]) (← a[2].getNat?) (← natOpt a[3])))
    else throw "occ"
  return Json.mkObj [("r", Json.arr rs.toArray)]

def handle (j : Json) : Except String Json := do
  match (← getStr j "op") with
  | "pair" => handlePair j
  | "occ" => handleOcc j
  | _ => throw "op"

end XsVerif.Driver.C14

def main : IO Unit := XsVerif.Driver.run XsVerif.Driver.C14.handle
