import XsVerif.Driver.CMJson
import XsVerif.Model.Incl
import XsVerif.Model.Restriction
import XsVerif.Model.Facets
import XsVerif.Model.AttrRestriction
open Lean XsVerif.Driver XsVerif.Wildcard XsVerif.CM XsVerif.Restr XsVerif

namespace XsVerif.Driver.C14

def optBool (j : Json) (k : String) (d : Bool) : Bool :=
  match j.getObjValAs? Bool k with | .ok b => b | .error _ => d
def optNat (j : Json) (k : String) (d : Nat) : Nat :=
  match j.getObjValAs? Nat k with | .ok b => b | .error _ => d
def optStr? (j : Json) (k : String) : Option String :=
  match j.getObjVal? k with | .ok (.str s) => some s | _ => none
def optQN? (j : Json) (k : String) : Option QN :=
  match j.getObjVal? k with
  | .ok v => match parseQN v with | .ok q => some q | .error _ => none
  | .error _ => none

def parsePC (s : String) : PC :=
  match s with | "lax" => .lax | "skip" => .skip | _ => .strict

def parseInfo (j : Json) : Except String (Nat × PInfo) := do
  let id ← getNat j "id"
  let subs ← match j.getObjVal? "subs" with
    | .ok (.arr a) => a.toList.mapM parseQN
    | _ => pure []
  let block ← match j.getObjVal? "block" with
    | .ok (.arr a) => a.toList.mapM (·.getStr?)
    | _ => pure []
  let idents ← match j.getObjVal? "idents" with
    | .ok (.arr a) => a.toList.mapM (·.getNat?)
    | _ => pure []
  return (id, {
    refTruthy := optBool j "refTruthy" false, isHead := optBool j "isHead" false,
    isGlobal := optBool j "isGlobal" false, abstract := optBool j "abstract" false,
    substGroup := optQN? j "substGroup", subs, typeId := optNat j "typeId" 0,
    typeIsAny := optBool j "typeIsAny" false, typeAbstract := optBool j "typeAbstract" false,
    fixed := optStr? j "fixed", nillable := optBool j "nillable" false, block, idents,
    pc := parsePC ((optStr? j "pc").getD "strict"), gref := optBool j "gref" false,
    gname := optQN? j "gname",
    hasParent := optBool j "hasParent" true, mixed := optBool j "mixed" false })

def mkInfo (n : Nat) (l : List (Nat × PInfo)) : Array PInfo :=
  l.foldl (fun a (i, x) => a.setIfInBounds i x) (Array.replicate n default)

def verdictJson : Except Err Bool → Json
  | .ok b => Json.bool b
  | .error .fuel => Json.str "fuel"
  | .error .raises => Json.str "raises"

def qnJson (q : QN) : Json := Json.arr #[q.ns, q.loc]

def inclJson : Rx.InclVerdict QN → Json
  | .included => Json.str "included"
  | .unknown => Json.str "unknown"
  | .witness w => Json.mkObj [("w", Json.arr (w.map qnJson).toArray)]

def parseOC (j : Json) (k : String) : Except String (Option OC) := do
  match j.getObjVal? k with
  | .ok (.obj o) =>
    let v := Json.obj o
    let mode ← match (← getStr v "mode") with
      | "none" => pure OpenMode.none | "interleave" => pure OpenMode.interleave
      | "suffix" => pure OpenMode.suffix | _ => throw "oc mode"
    let any ← match v.getObjVal? "w" with
      | .ok .null => pure none
      | .ok w => do pure (some ((← getNat v "id"), (← parseWc w)))
      | .error _ => pure none
    pure (some { mode, any })
  | _ => pure none

/-- {"op":"pair","v11":b,"n":ids,"d":particle,"b":particle,"info":[…],"derivOk":[[i,j],…],
     "sig":[[ns,loc],…],"fuel":N,"words":[[…],…]}
    → {"m": port verdict, "incl": oracle verdict, "states": |certificate|, "bf": first brute-force
       counterexample index or null, "ext": number of extended wildcard copies (1.1 all rule)} -/
def handlePair (j : Json) : Except String Json := do
  let n ← getNat j "n"
  let v11 ← getBool j "v11"
  let (d, _) ← parseParticle (← j.getObjVal? "d")
  let (b, _) ← parseParticle (← j.getObjVal? "b")
  let infos ← (← getArr j "info").toList.mapM parseInfo
  let derivOk ← match j.getObjVal? "derivOk" with
    | .ok (.arr a) => a.toList.mapM fun p => do
        let x ← p.getArr?
        if h : x.size = 2 then pure ((← x[0].getNat?), (← x[1].getNat?)) else throw "derivOk"
    | _ => pure []
  let C : Ctx := { v11, info := mkInfo n infos, derivOk, repaired := optBool j "repaired" false,
                   repairedOC := optBool j "repairedOC" false }
  let ocd ← parseOC j "ocd"
  let ocb ← parseOC j "ocb"
  let sig ← (← getArr j "sig").toList.mapM parseQN
  let fuel ← getNat j "fuel"
  let words ← match j.getObjVal? "words" with
    | .ok (.arr a) => a.toList.mapM fun w => do (← w.getArr?).toList.mapM parseQN
    | _ => pure []
  let rd := typeRx d ocd
  let rb := typeRx b ocb
  let run := Rx.inclRun Leaf.matches sig fuel rd rb
  let incl := run.1
  let bf : Json := match words.findIdx? fun w => Rx.accepts Leaf.matches rd w && !Rx.accepts Leaf.matches rb w with
    | some i => Json.num i
    | none => Json.null
  return Json.mkObj [("m", verdictJson (contentRestriction C d b)),
    ("acc", verdictJson (typeRestrictionAccepted C d b)),
    ("admits", admitsRestriction C b d.kind), ("incl", inclJson incl),
    ("ocacc", ocAccepted C d ocd ocb),
    ("inclPlain", if ocd.isSome || ocb.isSome then inclJson (Rx.inclRun Leaf.matches sig fuel d.toRx b.toRx).1 else Json.null),
    ("states", run.2), ("bf", bf),
    ("ext", extendedCopies C (iterModel b)),
    ("emptiable", Json.arr #[emptiable d, emptiable b]),
    ("eff", Json.arr #[(eff d).1, match (eff d).2 with | some x => Json.num x | none => Json.null,
                       (eff b).1, match (eff b).2 with | some x => Json.num x | none => Json.null])]

def natOpt (j : Json) : Except String (Option Nat) :=
  match j with | .null => pure none | v => some <$> v.getNat?

/-- {"op":"occ","q":[[lo,hi,olo,ohi],…]} → {"r":[bool,…]}  (`has_occurs_restriction`) -/
def handleOcc (j : Json) : Except String Json := do
  let qs ← getArr j "q"
  let rs ← qs.toList.mapM fun q => do
    let a ← q.getArr?
    if h : a.size = 4 then
      pure (Json.bool (hasOccursRestriction (← a[0].getNat?) (← natOpt a[1]) (← a[2].getNat?) (← natOpt a[3])))
    else throw "occ"
  return Json.mkObj [("r", Json.arr rs.toArray)]

/-! ### facets -/
open XsVerif.Facets in
section
def intOf (j : Json) : Except String Int := j.getInt?

/-- value: [ord, len, int, frac, key] -/
def parseVal (j : Json) : Except String (Val Int) := do
  let a ← j.getArr?
  if h : a.size = 5 then
    pure { ord := (← intOf a[0]), len := (← a[1].getNat?), int := (← a[2].getNat?),
           frac := (← a[3].getNat?), key := (← a[4].getNat?) }
  else throw "val"

def parseF {β : Type} (f : Json → Except String β) (j : Json) : Except String (F β) := do
  let a ← j.getArr?
  if h : a.size = 2 then pure { v := (← f a[0]), fixed := (← a[1].getBool?) } else throw "facet"

def parseWs (j : Json) : Except String Ws := do
  match (← j.getStr?) with
  | "preserve" => pure .preserve | "replace" => pure .replace | "collapse" => pure .collapse
  | _ => throw "ws"

def optF {β : Type} (j : Json) (k : String) (f : Json → Except String β) : Except String (Option (F β)) :=
  match j.getObjVal? k with
  | .ok v => some <$> parseF f v
  | .error _ => pure none

def parseFSet (j : Json) : Except String (FSet Int) := do
  let en ← match j.getObjVal? "enum" with
    | .ok (.arr a) => some <$> a.toList.mapM parseVal
    | _ => pure none
  return { length := (← optF j "length" (·.getNat?)), minLength := (← optF j "minLength" (·.getNat?)),
           maxLength := (← optF j "maxLength" (·.getNat?)), minInc := (← optF j "minInclusive" parseVal),
           minExc := (← optF j "minExclusive" parseVal), maxInc := (← optF j "maxInclusive" parseVal),
           maxExc := (← optF j "maxExclusive" parseVal), totalDigits := (← optF j "totalDigits" (·.getNat?)),
           fractionDigits := (← optF j "fractionDigits" (·.getNat?)), enum := en,
           ws := (← optF j "whiteSpace" parseWs) }

def suffixes {β : Type} : List β → List (List β)
  | [] => []
  | x :: xs => (x :: xs) :: suffixes xs

/-- {"op":"facets","chain":[step,…] (nearest first),"vals":[[ord,len,int,frac,key],…],
     "texts":[[[codepoints],key],…]}
    → for every suffix `S :: C` of the chain: the error codes of `checkStep C S`, and for the type with
      chain `S :: C` the verdicts of `validChain`, `validEff` on the values and of `lexValid` on the texts -/
def handleFacets (j : Json) : Except String Json := do
  let chain ← (← getArr j "chain").toList.mapM parseFSet
  let vals ← match j.getObjVal? "vals" with
    | .ok (.arr a) => a.toList.mapM parseVal
    | _ => pure []
  let texts ← match j.getObjVal? "texts" with
    | .ok (.arr a) => a.toList.mapM fun t => do
        let p ← t.getArr?
        if h : p.size = 2 then
          let cs ← (← p[0].getArr?).toList.mapM (·.getNat?)
          pure (cs.map Char.ofNat, (← p[1].getArr?).toList)
        else throw "text"
    | _ => pure []
  -- key of a normalised text: given by the harness as a table [[codepoints], key] per text
  let out ← (suffixes chain).mapM fun sc => do
    match sc with
    | [] => throw "empty"
    | S0 :: C0 =>
      -- the base chain as built (refused enumeration values are not stored); the step as declared
      let C := storedChain C0
      let errs := sortStrs (dedup ((checkStep C S0).map E.code))
      let S := stored C S0
      let lex ← texts.mapM fun (cs, table) => do
        let tbl ← table.mapM fun e => do
          let q ← e.getArr?
          if h : q.size = 2 then
            pure (((← q[0].getArr?).toList.mapM (·.getNat?)), (← q[1].getNat?))
          else throw "table"
        let tbl' ← tbl.mapM fun (a, k) => do pure ((← a).map Char.ofNat, k)
        let keyOf (t : Datatypes.Str) : Nat := ((tbl'.find? (·.1 == t)).map (·.2)).getD 0
        pure (Json.bool (lexValid keyOf (S :: C) cs))
      pure (Json.mkObj [("errs", Json.arr (errs.map Json.str).toArray),
        ("valid", Json.arr (vals.map fun v => Json.bool (validChain (S :: C) v)).toArray),
        ("eff", Json.arr (vals.map fun v => Json.bool (validEff (S :: C) v)).toArray),
        ("lex", Json.arr lex.toArray)])
  return Json.mkObj [("steps", Json.arr out.toArray)]
end

/-! ### attribute uses -/
open XsVerif.Attributes XsVerif.AttrRestr in
section

def optStrN (j : Json) (k : String) : Except String (Option String) := do
  match j.getObjVal? k with
  | .ok (.str s) => pure (some s)
  | _ => pure none

def parseDecl (j : Json) : Except String Decl := do
  let name ← parseQN (← j.getObjVal? "n")
  let use ← match (← getStr j "use") with
    | "optional" => pure Use.optional | "required" => pure Use.required
    | "prohibited" => pure Use.prohibited | _ => throw "use"
  return { name, use, fixed := ← optStrN j "fixed", dflt := ← optStrN j "default", ty := ← getNat j "ty",
           sameSchema := optBool j "same" true }

def parseAnyAttr (j : Json) : Except String (Option AnyAttr) := do
  match j with
  | .null => pure none
  | _ => return some { wc := ← parseWc (← j.getObjVal? "wc"), pc := parsePC (← getStr j "pc") }

def parseGroup (j : Json) : Except String Group := do
  return { decls := ← (← getArr j "decls").toList.mapM parseDecl,
           any := ← parseAnyAttr ((j.getObjVal? "any").toOption.getD .null) }

def useStr : Use → String | .optional => "optional" | .required => "required" | .prohibited => "prohibited"
def pcStr : PC → String | .strict => "strict" | .lax => "lax" | .skip => "skip"

def declJson (d : Decl) : Json :=
  Json.mkObj [("n", qnJson d.name), ("use", useStr d.use),
    ("fixed", match d.fixed with | some f => Json.str f | none => Json.null), ("ty", d.ty)]

def groupJson (G : Group) : Json :=
  Json.mkObj [("decls", Json.arr (G.decls.map declJson).toArray),
    ("any", match G.any with
      | some a => Json.mkObj [("wc", wcJson a.wc), ("pc", pcStr a.pc)]
      | none => Json.null)]

def rerrJson : RErr → Json
  | .unexpected n => Json.arr #["unexpected", n.ns, n.loc]
  | .unexpectedWildcard => Json.arr #["unexpected", "", "None"]
  | .wildcard => Json.arr #["wildcard", "", ""]
  | .type n => Json.arr #["type", n.ns, n.loc]
  | .use n => Json.arr #["use", n.ns, n.loc]
  | .fixed n => Json.arr #["fixed", n.ns, n.loc]

def pairs2 (j : Json) : Except String (List (Nat × Nat)) := do
  (← j.getArr?).toList.mapM fun e => do
    let p ← e.getArr?
    if h : p.size = 2 then pure ((← p[0].getNat?), (← p[1].getNat?)) else throw "pair"

/-- {"op":"attrs","B":group,"D":declared group,"globals":[decl…],"loaded":[ns…],
     "derived":[[d,b]…],"anySimple":[ty…],"norm":[[ty,s,normalised]…],"anyExempt":b,
     "valid":[[ty,lex]…],"cls":[[ty,lex,class]…],"cases":[[[[ns,loc],value]…]…]}
    → {"errs":[…], "merged":group, "validD":[b…], "validB":[b…], "g1":b,"g2":b,"g3":b} -/
def handleAttrs (j : Json) : Except String Json := do
  let B ← parseGroup (← j.getObjVal? "B")
  let D ← parseGroup (← j.getObjVal? "D")
  let globals ← (← getArr j "globals").toList.mapM parseDecl
  let loaded ← getStrList j "loaded"
  let env : Env := { globals, loaded }
  let derived ← pairs2 (← j.getObjVal? "derived")
  let anyS ← (← getArr j "anySimple").toList.mapM (·.getNat?)
  let normT ← (← getArr j "norm").toList.mapM fun e => do
    let p ← e.getArr?
    if h : p.size = 3 then pure ((← p[0].getNat?), (← p[1].getStr?), (← p[2].getStr?)) else throw "norm"
  let R : RCtx := {
    tyDerived := fun d b => derived.contains (d, b),
    tyIsAnySimple := fun t => anyS.contains t,
    norm := fun t x => ((normT.find? fun e => e.1 == t && e.2.1 == x).map (·.2.2)).getD x,
    anyExempt := optBool j "anyExempt" true }
  let validT ← (← getArr j "valid").toList.mapM fun e => do
    let p ← e.getArr?
    if h : p.size = 2 then pure ((← p[0].getNat?), (← p[1].getStr?)) else throw "valid"
  let cls ← (← getArr j "cls").toList.mapM fun e => do
    let p ← e.getArr?
    if h : p.size = 3 then pure ((← p[0].getNat?), (← p[1].getStr?), (← p[2].getNat?)) else throw "cls"
  let sem : Sem := {
    validT := fun t x => validT.contains (t, x),
    valueEq := fun t a b =>
      match cls.find? (fun e => e.1 == t && e.2.1 == a), cls.find? (fun e => e.1 == t && e.2.1 == b) with
      | some ea, some eb => ea.2.2 == eb.2.2
      | _, _ => false }
  let cases ← (← getArr j "cases").toList.mapM fun c => do
    (← c.getArr?).toList.mapM fun e => do
      let p ← e.getArr?
      if h : p.size = 2 then pure (((← parseQN p[0]), (← p[1].getStr?)) : Attr) else throw "attr"
  let o : Opts := { useDefaults := true, fillMissing := false, legacy := false }
  let M := merged B D
  return Json.mkObj [("errs", Json.arr ((check R env B D).map rerrJson).toArray),
    ("merged", groupJson M),
    ("validD", Json.arr (cases.map fun A => Json.bool (validFor sem env o M A)).toArray),
    ("validB", Json.arr (cases.map fun A => Json.bool (validFor sem env o B A)).toArray),
    ("g1", noAnyExempt R D), ("g2", noProhibitedThroughWildcard env B D),
    ("g3", wildcardDoesNotAssess env B D),
    ("sem", typeSemOn R sem B D (cases.flatMap fun A => A.map (·.2)).eraseDups)]
end

def handle (j : Json) : Except String Json := do
  match (← getStr j "op") with
  | "pair" => handlePair j
  | "occ" => handleOcc j
  | "facets" => handleFacets j
  | "attrs" => handleAttrs j
  | _ => throw "op"

end XsVerif.Driver.C14

def main : IO Unit := XsVerif.Driver.run XsVerif.Driver.C14.handle
