import XsVerif.Driver.Util
import XsVerif.Model.History
open Lean XsVerif.Driver XsVerif.History

namespace XsVerif.Driver.C10

def natsOf (j : Json) : Except String (List Nat) := do (← j.getArr?).toList.mapM (·.getNat?)

def optNat (j : Json) : Except String (Option Nat) :=
  if j.isNull then pure none else do return some (← j.getNat?)

def parseCtx (j : Json) : Except String Ctx := do
  (← j.getArr?).toList.mapM fun p => do
    let a ← p.getArr?
    if h : a.size = 2 then return ((← a[0].getNat?), (← a[1].getBool?)) else throw "ctx"

def parseStep (j : Json) : Except String Step := do
  let a ← j.getArr?
  if h : a.size ≥ 2 then
    match ← a[0].getStr? with
    | "e" => return .enter (← natsOf a[1])
    | "x" => if h4 : a.size = 4 then return .xsiType (← a[1].getNat?) (← a[2].getNat?) (← optNat a[3]) else throw "x"
    | "c" => return .collect (← a[1].getNat?)
    | "f" => if h3 : a.size = 3 then return .fields (← a[1].getNat?) (← a[2].getNat?) else throw "f"
    | "l" =>
      let ids ← (← a[1].getArr?).toList.mapM fun p => do
        let b ← p.getArr?
        if h2 : b.size = 2 then return ((← b[0].getNat?), (← optNat b[1])) else throw "l"
      return .leave ids
    | "s" => return .setCtx (← parseCtx a[1])
    | "w" =>
      if h4 : a.size = 4 then
        let pc ← match ← a[2].getStr? with
          | "skip" => pure PC.skip | "lax" => pure PC.lax | "strict" => pure PC.strict | _ => throw "pc"
        return .wild (← a[1].getBool?) pc (← a[3].getNat?)
      else throw "w"
    | "r" => return .nsRead (← a[1].getNat?)
    | "m" => return .memoCall (← a[1].getNat?)
    | "v" => if h3 : a.size = 3 then return .localValue (← a[1].getNat?) (← a[2].getNat?) else throw "v"
    | "z" => return .scratchUse (← natsOf a[1])
    | _ => throw "step"
  else throw "step"

def parseDoc (j : Json) : Except String (List Step) := do (← j.getArr?).toList.mapM parseStep

def parseSch (j : Json) : Except String Sch := do
  let cx ← natsOf (← j.getObjVal? "complex")
  let wid ← (← getArr j "wtab").toList.mapM fun w => do
    let a ← w.getArr?
    if h : a.size = 4 then return (((← a[0].getNat?), (← a[1].getNat?), (← a[2].getNat?)), (← natsOf a[3]))
    else throw "wtab"
  let base ← (← getArr j "base").toList.mapM fun w => do
    let a ← w.getArr?
    if h : a.size = 2 then return ((← a[0].getNat?), (← a[1].getNat?)) else throw "base"
  let declTy := match j.getObjVal? "declTy" with
    | .ok v => ((v.getArr?).toOption.getD #[]).toList.filterMap fun w =>
        match w.getArr? with
        | .ok a => if h : a.size = 2 then
            match a[0].getNat?, a[1].getNat? with | .ok x, .ok y => some (x, y) | _, _ => none
          else none
        | _ => none
    | _ => []
  let nsBase := match j.getObjVal? "nsBase" with | .ok v => (natsOf v).toOption.getD [] | _ => []
  let loadable := match j.getObjVal? "loadable" with | .ok v => (natsOf v).toOption.getD [] | _ => []
  return { complex := cx, wtab := wid, base := base, pure := fun k => k, declTy := declTy, nsBase := nsBase, loadable := loadable }

def pairLt (a b : Nat × Nat) : Bool := a.1 < b.1 || (a.1 == b.1 && a.2 < b.2)
def pairsJ (l : List (Nat × Nat)) : Json :=
  Json.arr ((l.eraseDups.toArray.qsort pairLt).map fun (a, b) => Json.arr #[Json.num a, Json.num b])

def tripLt (a b : Nat × Nat × Nat) : Bool :=
  a.1 < b.1 || (a.1 == b.1 && pairLt a.2 b.2)
def tripsJ (l : List (Nat × Nat × Nat)) : Json :=
  Json.arr ((l.eraseDups.toArray.qsort tripLt).map fun (a, b, c) => Json.arr #[Json.num a, Json.num b, Json.num c])

def natsJ (l : List Nat) : Json := Json.arr ((l.eraseDups.toArray.qsort (· < ·)).map fun (n : Nat) => Json.num n)

def ctxJ (c : Ctx) : Json := Json.arr (c.map fun (p : Con × Bool) => Json.arr #[Json.num p.1, Json.bool p.2]).toArray

def obsJ : Obs → Json
  | .collected c g => Json.mkObj [("ctx", ctxJ c), ("gate", natsJ g)]
  | .memo v => Json.mkObj [("memo", Json.num v)]
  | .scratch s => Json.mkObj [("scratch", Json.arr (s.map fun (n : Nat) => Json.num n).toArray)]
  | .ns a b => Json.mkObj [("ns", Json.arr #[Json.bool a, Json.bool b])]
  | .nsSeen b => Json.mkObj [("seen", Json.bool b)]
  | .typing l => Json.mkObj [("typing", pairsJ l)]

def resJ (r : Res) : Json :=
  Json.mkObj [
    ("types", pairsJ (r.xsi.filterMap fun | .type d t => some (d, t) | _ => none)),
    ("pairs", tripsJ (r.xsi.filterMap fun | .pair d t c => some (d, t, c) | _ => none)),
    ("elems", pairsJ r.elems),
    ("sel", pairsJ r.sel),
    ("memo", natsJ (r.memo.map (·.1))),
    ("loaded", natsJ r.loaded),
    ("cache", tripsJ (r.cache.map fun e => (e.1.1, e.1.2, e.2))),
    ("scratch", Json.arr (r.scratch.map fun (n : Nat) => Json.num n).toArray)]

def modeOf : String → Mode
  | "old" => .old
  | "gated" => .gated
  | "laxAttrNoLoad" => .laxAttrNoLoad
  | _ => .ungated

/-- residue after every call of the history, observations of the last document from that residue and from
    a fresh schema, for the algorithm named by `mode` (default: the code as it is, `ungated`); the guards
    `nsQuiet` (history_neutral_partial) and `selfSufficient` (gated_neutral_partial) for the document -/
def handle (j : Json) : Except String Json := do
  let sch ← parseSch (← j.getObjVal? "sch")
  let hist ← (← getArr j "hist").toList.mapM parseDoc
  let doc ← parseDoc (← j.getObjVal? "doc")
  let m := modeOf ((j.getObjValAs? String "mode").toOption.getD "ungated")
  let trace := (List.range (hist.length + 1)).map fun k => resJ (after sch m (hist.take k))
  let r := after sch m hist
  let used := call sch m r doc
  let fresh := call sch m Res.init doc
  return Json.mkObj [
    ("trace", Json.arr trace.toArray),
    ("obs", Json.arr (used.2.map obsJ).toArray),
    ("fresh", Json.arr (fresh.2.map obsJ).toArray),
    ("after", resJ used.1),
    ("complete", Json.bool (complete doc)),
    ("plain", Json.bool (plainDoc doc)),
    ("ns_quiet", Json.bool (nsQuiet sch doc)),
    ("self_sufficient", Json.bool (selfSufficient sch (Res.init, []) doc))]

end XsVerif.Driver.C10

def main : IO Unit := XsVerif.Driver.run XsVerif.Driver.C10.handle
