import XsVerif.Driver.Util
import XsVerif.Model.History
open Lean XsVerif.Driver XsVerif.History

namespace XsVerif.Driver.C10

def natsOf (j : Json) : Except String (List Nat) := do (← j.getArr?).toList.mapM (·.getNat?)

def parseStep (j : Json) : Except String Step := do
  let a ← j.getArr?
  if h : a.size ≥ 2 then
    match ← a[0].getStr? with
    | "x" => if h4 : a.size = 4 then return .xsiType (← a[1].getNat?) (← a[2].getNat?) (← natsOf a[3]) else throw "x"
    | "c" => if h3 : a.size = 3 then return .collect (← a[1].getNat?) (← a[2].getNat?) else throw "c"
    | "m" => return .memoCall (← a[1].getNat?)
    | "s" => return .scratchUse (← natsOf a[1])
    | _ => throw "step"
  else throw "step"

def parseDoc (j : Json) : Except String (List Step) := do (← j.getArr?).toList.mapM parseStep

def parseSch (j : Json) : Except String Sch := do
  let cx ← natsOf (← j.getObjVal? "complex")
  let wid ← (← getArr j "widen").toList.mapM fun w => do
    let a ← w.getArr?
    if h : a.size = 4 then return ((← a[0].getNat?), (← a[1].getNat?), (← a[2].getNat?), (← natsOf a[3]))
    else throw "widen"
  let base ← (← getArr j "base").toList.mapM fun w => do
    let a ← w.getArr?
    if h : a.size = 2 then return ((← a[0].getNat?), (← natsOf a[1])) else throw "base"
  return {
    complex := fun t => cx.contains t
    widen := fun c d t => (wid.filter fun (c', d', t', _) => c' == c && d' == d && t' == t).flatMap (·.2.2.2)
    base := fun c => (base.filter (·.1 == c)).flatMap (·.2)
    pure := fun k => k }

def pairLt (a b : Nat × Nat) : Bool := a.1 < b.1 || (a.1 == b.1 && a.2 < b.2)
def pairsJ (l : List (Nat × Nat)) : Json :=
  Json.arr ((l.eraseDups.toArray.qsort pairLt).map fun (a, b) => Json.arr #[Json.num a, Json.num b])

def obsJ : Obs → Json
  | .collected b => Json.bool b
  | .memo v => Json.num v
  | .scratch s => Json.arr (s.map fun (n : Nat) => Json.num n).toArray

/-- residue after every call of the history, observations of the last document from that residue
    and from a fresh schema, for the code as it is (`gated`) and for the repaired algorithm -/
def handle (j : Json) : Except String Json := do
  let sch ← parseSch (← j.getObjVal? "sch")
  let hist ← (← getArr j "hist").toList.mapM parseDoc
  let doc ← parseDoc (← j.getObjVal? "doc")
  let resJ (r : Res) : Json := Json.mkObj [("xsi", pairsJ r.xsi), ("bound", pairsJ r.bound)]
  let trace := (List.range (hist.length + 1)).map fun k => resJ (after sch true (hist.take k))
  let traceR := (List.range (hist.length + 1)).map fun k => resJ (after sch false (hist.take k))
  let r := after sch true hist
  let r' := after sch false hist
  return Json.mkObj [
    ("trace", Json.arr trace.toArray),
    ("trace_repaired", Json.arr traceR.toArray),
    ("obs", Json.arr ((call sch true r doc).2.map obsJ).toArray),
    ("fresh", Json.arr ((call sch true Res.init doc).2.map obsJ).toArray),
    ("obs_repaired", Json.arr ((call sch false r' doc).2.map obsJ).toArray),
    ("fresh_repaired", Json.arr ((call sch false Res.init doc).2.map obsJ).toArray),
    ("after", resJ (call sch true r doc).1)]

end XsVerif.Driver.C10

def main : IO Unit := XsVerif.Driver.run XsVerif.Driver.C10.handle
