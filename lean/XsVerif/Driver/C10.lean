import XsVerif.Driver.Util
open Lean XsVerif.Driver

-- stub: replaced when the model of C10 lands
def main : IO Unit := XsVerif.Driver.run fun _ => .error "C10 driver not implemented"
