import XsVerif.Driver.CMJson
import XsVerif.Model.Visitor
open Lean XsVerif.Driver XsVerif.Wildcard XsVerif.CM

namespace XsVerif.Driver.C01

/-- request: {"n": ids, "model": particle, "words": [[[ns,loc],…],…]}
    answer:  {"r": [{"o": oracle, "m": visitor verdict, "e": [[index, particle, occurs],…], "f": fuelOut},…]} -/
def handle (j : Json) : Except String Json := do
  let n ← getNat j "n"
  let (p, nodes) ← parseParticle (← j.getObjVal? "model")
  let A := mkArena n nodes
  let words ← (← getArr j "words").toList.mapM fun w => do (← w.getArr?).toList.mapM parseQN
  let res := words.map fun w =>
    let v := childErrors A n p.pid w
    Json.mkObj [("o", inModel p w), ("m", v.errors.isEmpty),
      ("e", Json.arr (v.errors.map fun e => Json.arr #[e.index, e.particle, e.occurs]).toArray),
      ("f", v.fuelOut)]
  return Json.mkObj [("r", Json.arr res.toArray)]

end XsVerif.Driver.C01

def main : IO Unit := XsVerif.Driver.run XsVerif.Driver.C01.handle
