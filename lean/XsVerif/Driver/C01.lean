import XsVerif.Driver.CMJson
import XsVerif.Model.Visitor
import XsVerif.Model.DefaultOpen
open Lean XsVerif.Driver XsVerif.Wildcard XsVerif.CM

namespace XsVerif.Driver.C01

/-- request: {"n": ids, "model": particle, "words": [[[ns,loc],…],…]}
    answer:  {"r": [{"o": oracle, "m": visitor verdict, "e": [[index, particle, occurs],…], "f": fuelOut},…]} -/
def handle (j : Json) : Except String Json := do
  let n ← getNat j "n"
  let (p, nodes) ← parseParticle (← j.getObjVal? "model")
  -- optional XSD 1.1 open content: {"mode": "interleave"|"suffix", "wild": leaf particle JSON}
  let (oc, wl, nodes) ← match j.getObjVal? "oc" with
    | .ok (.null) | .error _ => pure (({} : OC), (none : Option Leaf), nodes)
    | .ok o => do
      let mode ← match (← getStr o "mode") with
        | "interleave" => pure OpenMode.interleave | "suffix" => pure OpenMode.suffix | _ => throw "oc mode"
      let (wp, wn) ← parseParticle (← o.getObjVal? "wild")
      let leaf ← match wp with | .leaf l _ _ => pure l | _ => throw "oc wildcard"
      let strict := (getStr o "pc").toOption == some "strict"
      let globals ← match o.getObjVal? "globals" with
        | .ok g => (← g.getArr?).toList.mapM parseQN
        | .error _ => pure []
      pure (({ mode, wild := wp.pid, strict, globals } : OC), some leaf, nodes ++ wn)
  -- optional: the open content above is the schema's defaultOpenContent; whether it applies to this
  -- type is decided here by the spec-side rule: {"ate": appliesToEmpty, "mixed": …, "absent": no group child}
  let dflt : Option (Bool × Bool × Bool) := match j.getObjVal? "dflt" with
    | .ok (.null) | .error _ => none
    | .ok d => some ((d.getObjValAs? Bool "ate").toOption.getD false,
                     (d.getObjValAs? Bool "mixed").toOption.getD false,
                     (d.getObjValAs? Bool "absent").toOption.getD false)
  let content : Option Particle := match dflt with
    | some (_, _, true) => none
    | _ => some p
  let applies : Bool := match dflt, wl with
    | some (ate, mixed, _), some l => openContentApplies { mode := oc.mode, wild := l, appliesToEmpty := ate } mixed content
    | _, _ => true
  let oc : OC := if applies then oc else {}
  let A := mkArena n nodes
  let lang (w : List QN) : Bool := match dflt, wl with
    | some (ate, mixed, _), some l =>
      Rx.accepts Leaf.matches (typeRx (some { mode := oc.mode, wild := l, appliesToEmpty := ate }) mixed content) w
    | _, none => inModel p w
    | _, some l => Rx.accepts Leaf.matches (withOpen oc.mode l p.toRx) w
  let words ← (← getArr j "words").toList.mapM fun w => do (← w.getArr?).toList.mapM parseQN
  let res := words.map fun w =>
    let v := childErrors A n p.pid w oc
    let en := encodeErrors A n p.pid w oc
    Json.mkObj [("o", lang w), ("m", v.errors.isEmpty),
      ("e", Json.arr (v.errors.map fun e => Json.arr #[e.index, e.particle, e.occurs]).toArray),
      ("f", v.fuelOut),
      ("ee", Json.arr (en.errors.map fun e => Json.arr #[e.index, e.particle, e.occurs]).toArray),
      ("ef", en.fuelOut), ("es", encodeSilent A n p.pid w oc)]
  return Json.mkObj [("r", Json.arr res.toArray), ("ap", applies)]

end XsVerif.Driver.C01

def main : IO Unit := XsVerif.Driver.run XsVerif.Driver.C01.handle
