import XsVerif.Driver.Util
open Lean XsVerif.Driver

-- stub: replaced when the model of C01 lands
def main : IO Unit := XsVerif.Driver.run fun _ => .error "C01 driver not implemented"
