import XsVerif.Driver.Util
open Lean XsVerif.Driver

-- stub: replaced when the model of C18 lands
def main : IO Unit := XsVerif.Driver.run fun _ => .error "C18 driver not implemented"
