import XsVerif.Driver.Util
import XsVerif.Model.Threads
open Lean XsVerif.Driver XsVerif.Threads

namespace XsVerif.Driver.C18

def phaseStr : Phase → String
  | .empty => "empty" | .partialBuild => "partial" | .complete => "complete"

def pcStr : PC → String
  | .start => "start" | .wantLock => "wantLock" | .locked => "locked" | .body k => s!"body{k}"
  | .setBuilt => "setBuilt" | .post k => s!"post{k}" | .done ph => "done:" ++ phaseStr ph

def wpcStr : WPC → String
  | .chk => "chk" | .pubFirst => "pubFirst" | .rdElems => "rdElems" | .setElems => "setElems"
  | .addSel => "addSel" | .pub => "pub" | .child => "child" | .fin b => if b then "fin:true" else "fin:false"

def getNatList (j : Json) (k : String) : Except String (List Nat) := do
  (← getArr j k).toList.mapM fun x => x.getNat?

/-- run thread `t` while `p` holds of its pc (bounded) -/
def runWhile (p : PC → Bool) (t : Nat) : Nat → Cfg → Cfg
  | 0, c => c
  | n + 1, c => if p (c.pc t) then runWhile p t n ((step t c).getD c) else c

def isBody : PC → Bool
  | .body _ => true
  | _ => false

def isPost : PC → Bool
  | .post _ => true
  | _ => false

/-- Replays the observed events of the real build lock on the model: every event must be an enabled
    step of the model and every observed read of `_built` must return the model's value. -/
def replayBuild (bodyLen postLen : Nat) (evs : List (Nat × String × Bool)) : Except String Cfg := do
  let mut c := init bodyLen postLen
  let mut i := 0
  for (t, ev, v) in evs do
    let pc := c.pc t
    let fail (why : String) : Except String Cfg :=
      throw s!"event {i} (thread {t} {ev} {v}) at pc {pcStr pc}: {why}"
    match ev, pc with
    | "read", .start =>
      if c.built != v then c ← fail s!"model _built = {c.built}"
      c := (step t c).getD c
    | "read", .locked =>
      if c.built != v then c ← fail s!"model _built = {c.built}"
      if !v then c := (step t c).getD c        -- enters the body; (true: the step is taken at release)
    | "read", .done _ =>
      if c.built != v then c ← fail s!"model _built = {c.built} after return"
    | "read", _ => pure ()                      -- reads inside the body / post section
    | "acquire", .wantLock =>
      match step t c with
      | some c' => c := c'
      | none => c ← fail "lock is held in the model"
    | "write", .body _ =>
      if v then
        c := runWhile isBody t (bodyLen + 2) c
        c := (step t c).getD c                  -- setBuilt
      else pure ()                              -- clear() inside the body
    | "release", .post _ =>
      c := runWhile isPost t (postLen + 2) c
    | "release", .locked =>
      if !c.built then c ← fail "release without build while _built is false"
      c := (step t c).getD c
    | _, _ => c ← fail "event not enabled in the model"
    i := i + 1
  return c

def parseEv (j : Json) : Except String (Nat × String × Bool) := do
  let a ← j.getArr?
  if h : a.size = 3 then
    return (← a[0].getNat?, ← a[1].getStr?, ← a[2].getBool?)
  else throw "event"

def parseMode (s : String) : Except String Mode :=
  match s with
  | "old" => pure .old | "cur" => pure .cur | "curCall" => pure .curCall | "patched" => pure .patched
  | _ => throw "mode"

def handle (j : Json) : Except String Json := do
  match ← getStr j "op" with
  | "replay" =>
    let n ← getNat j "threads"
    let evs ← (← getArr j "events").toList.mapM parseEv
    match replayBuild (← getNat j "body") (← getNat j "post") evs with
    | .error e => return Json.mkObj [("ok", false), ("why", e)]
    | .ok c =>
      return Json.mkObj [("ok", true), ("runs", c.runs), ("built", c.built), ("maps", phaseStr c.maps),
        ("pcs", Json.arr ((List.range n).map fun t => Json.str (pcStr (c.pc t))).toArray)]
  | "exec" =>
    let n ← getNat j "threads"
    let c := exec (← getNatList j "sched") (init (← getNat j "body") (← getNat j "post"))
    return Json.mkObj [("runs", c.runs), ("built", c.built), ("maps", phaseStr c.maps),
      ("pcs", Json.arr ((List.range n).map fun t => Json.str (pcStr (c.pc t))).toArray)]
  | "wexec" =>
    let n ← getNat j "threads"
    let c := wexec (← parseMode (← getStr j "mode")) (← getNatList j "sched") winit
    return Json.mkObj [("published", c.published), ("inElems", c.inElems), ("selBy", c.selBy),
      ("pcs", Json.arr ((List.range n).map fun t => Json.str (wpcStr (c.pc t))).toArray)]
  | op => throw s!"unknown op {op}"

end XsVerif.Driver.C18

def main : IO Unit := XsVerif.Driver.run XsVerif.Driver.C18.handle
