import XsVerif.Driver.Util
import XsVerif.Model.Threads
import XsVerif.Model.ThreadsWiden
import XsVerif.Model.ThreadsCache
open Lean XsVerif.Driver XsVerif.Threads

namespace XsVerif.Driver.C18

def phaseStr : Phase → String
  | .empty => "empty" | .partialBuild => "partial" | .complete => "complete"

def pcStr : PC → String
  | .start => "start" | .wantLock => "wantLock" | .locked => "locked" | .body k => s!"body{k}"
  | .setBuilt => "setBuilt" | .post k => s!"post{k}" | .done ph => "done:" ++ phaseStr ph

def wpcStr : WPC → String
  | .chk => "chk" | .pubFirst => "pubFirst" | .rdElems => "rdElems" | .setElems => "setElems"
  | .addSel => "addSel" | .pub => "pub" | .child => "child" | .fin b => if b then "fin:true" else "fin:false"

def getNatList (j : Json) (k : String) : Except String (List Nat) := do
  (← getArr j k).toList.mapM fun x => x.getNat?

/-- run thread `t` while `p` holds of its pc (bounded) -/
def runWhile (p : PC → Bool) (t : Nat) : Nat → Cfg → Cfg
  | 0, c => c
  | n + 1, c => if p (c.pc t) then runWhile p t n ((step t c).getD c) else c

def isBody : PC → Bool
  | .body _ => true
  | _ => false

def isPost : PC → Bool
  | .post _ => true
  | _ => false

/-- Replays the observed events of the real build lock on the model: every event must be an enabled
    step of the model and every observed read of `_built` must return the model's value. -/
def replayBuild (bodyLen postLen : Nat) (evs : List (Nat × String × Bool)) : Except String Cfg := do
  let mut c := init bodyLen postLen
  let mut i := 0
  for (t, ev, v) in evs do
    let pc := c.pc t
    let fail (why : String) : Except String Cfg :=
      throw s!"event {i} (thread {t} {ev} {v}) at pc {pcStr pc}: {why}"
    match ev, pc with
    | "read", .start =>
      if c.built != v then c ← fail s!"model _built = {c.built}"
      c := (step t c).getD c
    | "read", .locked =>
      if c.built != v then c ← fail s!"model _built = {c.built}"
      if !v then c := (step t c).getD c        -- enters the body; (true: the step is taken at release)
    | "read", .done _ =>
      if c.built != v then c ← fail s!"model _built = {c.built} after return"
    | "read", _ => pure ()                      -- reads inside the body / post section
    | "acquire", .wantLock =>
      match step t c with
      | some c' => c := c'
      | none => c ← fail "lock is held in the model"
    | "write", .body _ =>
      if v then
        c := runWhile isBody t (bodyLen + 2) c
        c := (step t c).getD c                  -- setBuilt
      else pure ()                              -- clear() inside the body
    | "release", .post _ =>
      c := runWhile isPost t (postLen + 2) c
    | "release", .locked =>
      if !c.built then c ← fail "release without build while _built is false"
      c := (step t c).getD c
    | _, _ => c ← fail "event not enabled in the model"
    i := i + 1
  return c

/-! ### line-granularity replay of `XsdGlobals.build` -/

/-- Events: the shared-state events of `replayBuild` plus one event per executed line of `build()`:
    `L:rd0` (`if self._built:` before the lock), `L:ret0`, `L:with`, `L:rd1`, `L:ret1`, `L:body` (any
    statement of the locked region before `self._built = True`), `L:set` (`self._built = True`), `L:post`
    (any statement after it), `L:exit` (the `with` line revisited when the block is left).  Every line event
    must be issued at the model pc of that statement; `L:body` / `L:post` are model steps, so the number of
    statements executed before / after the publication of `_built` must be exactly `bodyLen + 1` / `postLen`. -/
def replayBuildL (bodyLen postLen : Nat) (evs : List (Nat × String × Bool)) : Except String Cfg := do
  let mut c := init bodyLen postLen
  let mut i := 0
  for (t, ev, v) in evs do
    let pc := c.pc t
    let fail (why : String) : Except String Cfg :=
      throw s!"event {i} (thread {t} {ev} {v}) at pc {pcStr pc}: {why}"
    match ev, pc with
    | "L:rd0", .start => pure ()
    | "read", .start =>
      if c.built != v then c ← fail s!"model _built = {c.built}"
      c := (step t c).getD c
    | "L:ret0", .done _ => pure ()
    | "L:with", .wantLock => pure ()
    | "acquire", .wantLock =>
      match step t c with
      | some c' => c := c'
      | none => c ← fail "lock is held in the model"
    | "L:rd1", .locked => pure ()
    | "read", .locked =>
      if c.built != v then c ← fail s!"model _built = {c.built}"
      if !v then c := (step t c).getD c
    | "L:ret1", .locked => if !c.built then c ← fail "return under the lock while _built is false"
    | "L:exit", .locked => if !c.built then c ← fail "leaves the block while _built is false"
    | "release", .locked =>
      if !c.built then c ← fail "release without build while _built is false"
      c := (step t c).getD c
    | "L:body", .body _ => c := (step t c).getD c
    | "read", .body _ => if c.built != v then c ← fail s!"model _built = {c.built}"
    | "write", .body _ => if v then c ← fail "`_built = True` before the end of the body"
    | "read", .setBuilt => if c.built != v then c ← fail s!"model _built = {c.built}"
    | "write", .setBuilt =>
      if v then c := (step t c).getD c
    | "L:set", .setBuilt => pure ()
    | "L:post", .post (_ + 1) => c := (step t c).getD c
    | "L:exit", .post 0 => pure ()
    | "read", .post _ => if c.built != v then c ← fail s!"model _built = {c.built}"
    | "release", .post 0 => c := (step t c).getD c
    | "read", .done _ => if c.built != v then c ← fail s!"model _built = {c.built} after return"
    | _, _ => c ← fail "event not enabled in the model"
    i := i + 1
  return c

/-! ### statement-level widening -/
open XsVerif.Threads.XW in
def factStr : Fact → String
  | .xsi p => s!"xsi:{p}" | .elem i e => s!"elem:{i}:{e}" | .selBy e i => s!"selBy:{e}:{i}"

open XsVerif.Threads.XW in
def xpcStr : XW.PC → String
  | .idle => "idle" | .chk p _ => s!"chk:{p}" | .loopRd p r => s!"loopRd:{p}:{r}" | .loopSet p e r => s!"loopSet:{p}:{e}:{r}"
  | .loopAdd p e r => s!"loopAdd:{p}:{e}:{r}" | .pub p => s!"pub:{p}" | .cRd e => s!"cRd:{e}" | .cIterNew e => s!"cIterNew:{e}"
  | .cIter e n todo done => s!"cIter:{e}:{n}:{todo}:{done}" | .err => "err"

def natPairs (j : Json) (k : String) : Except String (List (Nat × Nat)) := do
  (← getArr j k).toList.mapM fun x => do
    let a ← x.getArr?
    if h : a.size = 2 then return (← a[0].getNat?, ← a[1].getNat?) else throw "pair"

def natTable (j : Json) (k : String) : Except String (List (Nat × List Nat)) := do
  (← getArr j k).toList.mapM fun x => do
    let a ← x.getArr?
    if h : a.size = 2 then return (← a[0].getNat?, ← (← a[1].getArr?).toList.mapM (·.getNat?)) else throw "row"

open XsVerif.Threads.XW in
def parseSch (j : Json) : Except String Sch := do
  let sel ← natTable j "sel"
  let ido ← natPairs j "idOf"
  return { sel := fun p => (sel.lookup p).getD [], idOf := fun p => (ido.lookup p).getD 0 }

open XsVerif.Threads.XW in
def parseFact (x : Json) : Except String Fact := do
  let a ← x.getArr?
  if h : a.size = 3 then
    let k ← a[0].getStr?
    let u ← a[1].getNat?
    let w ← a[2].getNat?
    match k with
    | "xsi" => return .xsi u | "elem" => return .elem u w | "selBy" => return .selBy u w
    | _ => throw "fact"
  else throw "fact"

open XsVerif.Threads.XW in
def parseVariant (j : Json) : Except String Variant := do
  return { addInside := ← getBool j "addInside", live := ← getBool j "live" }

open XsVerif.Threads.XW in
def parseTask (x : Json) : Except String Task := do
  let a ← x.getArr?
  if h : a.size = 2 then
    match ← a[0].getStr? with
    | "child" => return .child (← a[1].getNat?)
    | _ => throw "task"
  else if h : a.size = 3 then
    match ← a[0].getStr? with
    | "widen" => return .widen (← a[1].getNat?) (← (← a[2].getArr?).toList.mapM (·.getNat?))
    | _ => throw "task"
  else throw "task"

open XsVerif.Threads.XW in
def xwOut (n : Nat) (c : XW.Cfg) : Json :=
  Json.mkObj [("ok", true),
    ("facts", Json.arr ((sortStrs (c.sh.map factStr)).map Json.str).toArray),
    ("pcs", Json.arr ((List.range n).map fun t => Json.str (xpcStr (c.th t).pc)).toArray),
    ("obs", Json.arr ((List.range n).map fun t =>
      Json.arr ((c.th t).obs.map fun o =>
        Json.arr #[Json.num o.e, Json.arr ((o.ids.toArray.qsort (· < ·)).map fun (i : Nat) => Json.num i),
                   Json.arr ((o.seen.toArray.qsort (· < ·)).map fun (i : Nat) => Json.num i)]).toArray).toArray)]

open XsVerif.Threads.XW in
/-- silent steps: loop exit (`loopRd p []` → `pub p`) accesses no shared state -/
def xwNorm (sch : Sch) (v : Variant) (t : Nat) (c : XW.Cfg) : XW.Cfg :=
  match (c.th t).pc with
  | .loopRd _ [] => XW.step sch v t c
  | _ => c

open XsVerif.Threads.XW in
def pushTask (t : Nat) (task : Task) (c : XW.Cfg) : XW.Cfg :=
  { c with th := upd c.th t { c.th t with tasks := task :: (c.th t).tasks } }

open XsVerif.Threads.XW in
/-- Replays the observed shared-state events (reads with their values, writes) of the real widening code on
    the model: every event must be the enabled statement of that thread and every read must return the
    model's value. -/
def replayXW (sch : Sch) (v : Variant) (s₀ : Sh) (evs : List (Nat × String × Nat × Nat × Nat)) :
    Except String (XW.Cfg × List Nat) := do
  let mut c := XW.init s₀ (fun _ => [])
  let mut n := 0
  let mut errs : List Nat := []      -- threads whose call ended with RuntimeError and that started another call
  for (t, ev, a, b, val) in evs do
    -- RuntimeError ends the CALL; the next call of the same real thread is a new run of a program (in the
    -- model: another thread number — here the same number with a fresh pc)
    if (c.th t).pc == .err && (ev == "xin" || ev == "sbool") then
      errs := t :: errs
      c := { c with th := upd c.th t { c.th t with pc := .idle } }
    let pc := (c.th t).pc
    let fail (why : String) : Except String XW.Cfg :=
      throw s!"event {n} (thread {t} {ev} {a} {b} {val}) at pc {xpcStr pc}: {why}"
    let st := XW.step sch v t
    match ev, pc with
    | "xin", .idle =>
      c := st (pushTask t (.widen a (sch.sel a)) c)
      if (c.sh.contains (.xsi a)) != (val != 0) then c ← fail s!"model: pair published = {c.sh.contains (.xsi a)}"
      c := xwNorm sch v t (st c)
    | "ein", .loopRd p rest =>
      if a != sch.idOf p || !rest.contains b then c ← fail "update_elements visits an element that is not (any more) in sel(p)"
      -- the order in which the selector yields the elements is unspecified (XPath union = a set): bring the
      -- observed element to the front
      c := { c with th := upd c.th t { c.th t with pc := .loopRd p (b :: rest.erase b) } }
      if (c.sh.contains (.elem a b)) != (val != 0) then c ← fail s!"model: e in elements = {c.sh.contains (.elem a b)}"
      c := xwNorm sch v t (st c)
    | "eset", .loopSet p e _ =>
      if a != sch.idOf p || b != e then c ← fail "elements[e] written for another element"
      c := st c
    | "sadd", .loopAdd p e _ =>
      if a != e || b != sch.idOf p then c ← fail "selected_by.add on another element"
      c := xwNorm sch v t (st c)
    | "xadd", .pub p =>
      if a != p then c ← fail "another pair published"
      c := st c
    | "sbool", .idle =>
      c := st (pushTask t (.child a) c)
      if (!(selOf c.sh a).isEmpty) != (val != 0) then c ← fail s!"model: selected_by non-empty = {!(selOf c.sh a).isEmpty}"
      c := st c
    | "siter", .cIterNew e =>
      if a != e then c ← fail "iterator of another set"
      if (selOf c.sh e).length != val then c ← fail s!"model: size {(selOf c.sh e).length}"
      c := st c
    | "snext", .cIter e k todo done =>
      if a != e then c ← fail "iterator of another set"
      if !todo.contains b then c ← fail "the iterator yields an identity that is not in the model's snapshot"
      -- the iteration order of a set is unspecified: bring the observed item to the front
      c := { c with th := upd c.th t { c.th t with pc := .cIter e k (b :: todo.erase b) done } }
      c := st c
      if (c.th t).pc == .err then c ← fail "model: RuntimeError here, the code went on"
    | "sstop", .cIter e _ todo _ =>
      if a != e then c ← fail "iterator of another set"
      if !todo.isEmpty then c ← fail s!"the iterator stopped, the model still has {todo}"
      c := st c
      if (c.th t).pc == .err then c ← fail "model: RuntimeError here, the code went on"
    | "serr", .cIter e _ _ _ =>
      if a != e then c ← fail "iterator of another set"
      c := { c with th := upd c.th t { c.th t with pc := match (c.th t).pc with
        | .cIter e k _ d => .cIter e k [] d
        | q => q } }
      c := st c
      if (c.th t).pc != .err then c ← fail "the code raised RuntimeError, the model does not"
    | "sbool", .cIter _ _ _ _ =>
      -- `tuple(self.selected_by)` asks the set for a length hint before it exhausts the iterator (same statement)
      if (!(selOf c.sh a).isEmpty) != (val != 0) then c ← fail s!"model: selected_by non-empty = {!(selOf c.sh a).isEmpty}"
    | "ein", .idle =>
      -- snapshot variant: the loop body (its read of identity.elements) runs after the snapshot was taken
      if v.live then c ← fail "read of identity.elements outside the loop"
      if (c.sh.contains (.elem a b)) != (val != 0) then c ← fail s!"model: e in elements = {c.sh.contains (.elem a b)}"
    | "ein", .cIter _ _ _ _ =>
      if (c.sh.contains (.elem a b)) != (val != 0) then c ← fail s!"model: e in elements = {c.sh.contains (.elem a b)}"
    | _, _ => c ← fail "event not enabled in the model"
    n := n + 1
  return (c, errs)

def parseEv5 (j : Json) : Except String (Nat × String × Nat × Nat × Nat) := do
  let a ← j.getArr?
  if h : a.size = 5 then
    return (← a[0].getNat?, ← a[1].getStr?, ← a[2].getNat?, ← a[3].getNat?, ← a[4].getNat?)
  else throw "event"

/-! ### caches -/
open XsVerif.Threads.Cache in
def cpcStr : Cache.PC Nat Nat → String
  | .idle => "idle" | .look k => s!"look:{k}" | .compute k b => s!"compute:{k}:{b}" | .store k v => s!"store:{k}:{v}"

open XsVerif.Threads.Cache in
def pushOp (t : Nat) (op : Cache.Op Nat) (c : Cache.Cfg Nat Nat) : Cache.Cfg Nat Nat :=
  { c with th := upd c.th t { c.th t with ops := op :: (c.th t).ops } }

open XsVerif.Threads.Cache in
/-- Replays the observed cache events of the real code: `look k v` (v = 0: miss, v = value + 1: hit with that
    value), `compute k`, `store k v`, `direct k v`, `evict k`, `clear`.  A miss on a key the model still holds
    is explained by an lru eviction only when `evictable`. -/
def replayCache (f : Nat → Nat) (evictable : Bool) (evs : List (Nat × String × Nat × Nat × Nat)) :
    Except String (Cache.Cfg Nat Nat) := do
  let mut c : Cache.Cfg Nat Nat := Cache.init Cache.empty (fun _ => [])
  let mut n := 0
  for (t, ev, k, v, _) in evs do
    let pc := (c.th t).pc
    let fail (why : String) : Except String (Cache.Cfg Nat Nat) :=
      throw s!"event {n} (thread {t} {ev} {k} {v}) at pc {cpcStr pc}: {why}"
    let st := Cache.step f t
    match ev, pc with
    | "look", .idle =>
      match c.memo k, v with
      | none, 0 => pure ()
      | some _, 0 =>
        if evictable then c := st (pushOp t (.evict k) c) else c ← fail "the code misses, the model holds the key"
      | none, _ => c ← fail "the code hits, the model does not hold the key"
      | some w, _ => if w + 1 != v then c ← fail s!"the code hits with another value than the model's {w}"
      c := st (st (pushOp t (.call k) c))
    | "compute", .compute k' true => if k != k' then c ← fail "other key" else c := st c
    | "store", .store k' w =>
      if k != k' then c ← fail "other key"
      if w != v then c ← fail s!"the code stores a value different from f k = {w}"
      c := st c
    | "direct", .idle =>
      c := st (st (pushOp t (.direct k) c))
      if (c.th t).rets.getLast? != some (k, v) then c ← fail s!"uncached call returns a value different from f k = {f k}"
    | "evict", .idle => c := st (pushOp t (.evict k) c)
    | "clear", .idle => c := st (pushOp t .clear c)
    | "ret", .idle => if (c.th t).rets.getLast? != some (k, v) then c ← fail "returned value differs from the model's"
    | _, _ => c ← fail "event not enabled in the model"
    n := n + 1
  return c

def spcStr : Cache.SPC → String
  | .clrErr => "clrErr" | .clrPat => "clrPat" | .rdPat => "rdPat" | .pushPat => "pushPat" | .popRd => "popRd"
  | .popClr _ => "popClr" | .check _ => "check" | .rdErr => "rdErr" | .fin v ok => s!"fin:{v}:{ok}"

def parseEv (j : Json) : Except String (Nat × String × Bool) := do
  let a ← j.getArr?
  if h : a.size = 3 then
    return (← a[0].getNat?, ← a[1].getStr?, ← a[2].getBool?)
  else throw "event"

def parseMode (s : String) : Except String Mode :=
  match s with
  | "old" => pure .old | "cur" => pure .cur | "curCall" => pure .curCall | "patched" => pure .patched
  | _ => throw "mode"

def handle (j : Json) : Except String Json := do
  match ← getStr j "op" with
  | "replay" =>
    let n ← getNat j "threads"
    let evs ← (← getArr j "events").toList.mapM parseEv
    match replayBuild (← getNat j "body") (← getNat j "post") evs with
    | .error e => return Json.mkObj [("ok", false), ("why", e)]
    | .ok c =>
      return Json.mkObj [("ok", true), ("runs", c.runs), ("built", c.built), ("maps", phaseStr c.maps),
        ("pcs", Json.arr ((List.range n).map fun t => Json.str (pcStr (c.pc t))).toArray)]
  | "exec" =>
    let n ← getNat j "threads"
    let c := exec (← getNatList j "sched") (init (← getNat j "body") (← getNat j "post"))
    return Json.mkObj [("runs", c.runs), ("built", c.built), ("maps", phaseStr c.maps),
      ("pcs", Json.arr ((List.range n).map fun t => Json.str (pcStr (c.pc t))).toArray)]
  | "wexec" =>
    let n ← getNat j "threads"
    let c := wexec (← parseMode (← getStr j "mode")) (← getNatList j "sched") winit
    return Json.mkObj [("published", c.published), ("inElems", c.inElems), ("selBy", c.selBy),
      ("pcs", Json.arr ((List.range n).map fun t => Json.str (wpcStr (c.pc t))).toArray)]
  | "replayL" =>
    let n ← getNat j "threads"
    let evs ← (← getArr j "events").toList.mapM parseEv
    match replayBuildL (← getNat j "body") (← getNat j "post") evs with
    | .error e => return Json.mkObj [("ok", false), ("why", e)]
    | .ok c =>
      return Json.mkObj [("ok", true), ("runs", c.runs), ("built", c.built), ("maps", phaseStr c.maps),
        ("pcs", Json.arr ((List.range n).map fun t => Json.str (pcStr (c.pc t))).toArray)]
  | "xwreplay" =>
    let n ← getNat j "threads"
    let sch ← parseSch j
    let v ← parseVariant j
    let s₀ ← (← getArr j "s0").toList.mapM parseFact
    let evs ← (← getArr j "events").toList.mapM parseEv5
    match replayXW sch v s₀ evs with
    | .error e => return Json.mkObj [("ok", false), ("why", e)]
    | .ok (c, errs) =>
      return (xwOut n c).setObjVal! "errs" (Json.arr ((List.range n).map fun t =>
        let k : Nat := errs.count t + (if (c.th t).pc == .err then 1 else 0)
        Json.num k).toArray)
  | "xwexec" =>
    let n ← getNat j "threads"
    let sch ← parseSch j
    let v ← parseVariant j
    let s₀ ← (← getArr j "s0").toList.mapM parseFact
    let progs ← (← getArr j "progs").toList.mapM fun x => do (← x.getArr?).toList.mapM parseTask
    let c := XW.exec sch v (← getNatList j "sched") (XW.init s₀ (fun t => progs.getD t []))
    return xwOut n c
  | "creplay" =>
    let n ← getNat j "threads"
    let ftab ← natPairs j "f"
    let evs ← (← getArr j "events").toList.mapM parseEv5
    match replayCache (fun k => (ftab.lookup k).getD 0) (← getBool j "evictable") evs with
    | .error e => return Json.mkObj [("ok", false), ("why", e)]
    | .ok c =>
      return Json.mkObj [("ok", true),
        ("pcs", Json.arr ((List.range n).map fun t => Json.str (cpcStr (c.th t).pc)).toArray),
        ("rets", Json.arr ((List.range n).map fun t =>
          Json.arr ((c.th t).rets.map fun (k, v) => Json.arr #[Json.num k, Json.num v]).toArray).toArray),
        ("sound", (ftab.all fun (k, w) => match c.memo k with
          | some x => x == w
          | none => true))]
  | "sexec" =>
    let n ← getNat j "threads"
    let users ← (← getArr j "users").toList.mapM fun x => do
      let lax ← getBool x "lax"
      let pat := (x.getObjValAs? Nat "pat").toOption
      let val ← getNat x "val"
      let rej ← getNatList x "rej"
      pure ({ lax := lax, pat := pat, val := val, rej := fun p => rej.contains p } : Cache.SUser)
    let dflt : Cache.SUser := { lax := false, pat := none, val := 0, rej := fun _ => false }
    let c := Cache.sexec (fun t => users.getD t dflt) (← getNatList j "sched") (Cache.sinit ⟨none, 0⟩)
    return Json.mkObj [("errors", c.sc.errors),
      ("pcs", Json.arr ((List.range n).map fun t => Json.str (spcStr (c.pc t))).toArray)]
  | "xcexec" =>
    let n ← getNat j "threads"
    let vals ← (← getArr j "vals").toList.mapM fun x => do (← x.getArr?).toList.mapM (·.getNat?)
    let c := Cache.xexec (← getBool j "shared") (← getNat j "gap") (← getNatList j "sched") (Cache.xinit (fun t => vals.getD t []))
    return Json.mkObj [("res", Json.arr ((List.range n).map fun t =>
      Json.arr ((c.th t).res.map fun (v : Nat) => Json.num v).toArray).toArray),
      ("finished", Json.arr ((List.range n).map fun t => Json.bool (c.th t).finished).toArray)]
  | op => throw s!"unknown op {op}"

end XsVerif.Driver.C18

def main : IO Unit := XsVerif.Driver.run XsVerif.Driver.C18.handle
