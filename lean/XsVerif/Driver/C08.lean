import XsVerif.Driver.Util
open Lean XsVerif.Driver

-- stub: replaced when the model of C08 lands
def main : IO Unit := XsVerif.Driver.run fun _ => .error "C08 driver not implemented"
