import XsVerif.Driver.Util
import XsVerif.Model.Identity
open Lean XsVerif.Driver XsVerif.Identity

namespace XsVerif.Driver.C08

def parseTy (j : Json) : Except String (Option Ty) :=
  match j with
  | .null => pure none
  | .str "integer" => pure (some .integer)
  | .str "decimal" => pure (some .decimal)
  | .str "boolean" => pure (some .boolean)
  | .str "string" => pure (some .string)
  | .str "qname" => pure (some .qname)
  | _ => throw "ty"

def parseStep (j : Json) : Except String Step := do
  let s ← j.getStr?
  return if s == "." then .self else if s == "*" then .any else .child s

def parsePath (j : Json) : Except String Path := do
  let steps ← (← getArr j "s").toList.mapM parseStep
  let a ← match j.getObjVal? "a" with
    | .ok (.str s) => pure (some s)
    | _ => pure none
  return { desc := ← getBool j "d", steps, attr := a }

def parseAttr (j : Json) : Except String Attr := do
  let a ← j.getArr?
  if h : a.size = 4 then
    return { name := ← a[0].getStr?, lex := ← a[1].getStr?, ty := ← parseTy a[2], idk := ← a[3].getNat? }
  else throw "attr"

/-- fuel = nesting depth bound of the JSON document (exhaustion is an error, never a verdict) -/
def parsePair (j : Json) : Except String (String × String) := do
  let a ← j.getArr?
  if h : a.size = 2 then return (← a[0].getStr?, ← a[1].getStr?) else throw "pair"

def parseNode : Nat → Json → Except String Node
  | 0, _ => throw "fuel"
  | f + 1, j => do
    let kids ← (← getArr j "k").toList.mapM (parseNode f)
    let attrs ← (← getArr j "a").toList.mapM parseAttr
    let xmlns ← match j.getObjVal? "ns" with
      | .ok (.arr a) => a.toList.mapM parsePair
      | _ => pure []
    return .mk (← getNat j "i") (← getNat j "d") (← getStr j "n") attrs
      (← parseTy (← j.getObjVal? "t")) (← getStr j "x")
      (match j.getObjValAs? Nat "ck" with | .ok c => c | .error _ => 0) xmlns kids

def parseKind (s : String) : Except String Kind :=
  match s with
  | "unique" => pure .unique | "key" => pure .key | "keyref" => pure .keyref | _ => throw "kind"

def natList (j : Json) (k : String) : Except String (List Nat) := do
  (← getArr j k).toList.mapM (·.getNat?)

def parseCon (j : Json) : Except String Con := do
  let sel ← (← getArr j "sel").toList.mapM parsePath
  let fields ← (← getArr j "fields").toList.mapM fun f => do (← f.getArr?).toList.mapM parsePath
  let refer ← match j.getObjVal? "refer" with
    | .ok (.num n) => pure (some n.mantissa.toNat)
    | _ => pure none
  return { id := ← getNat j "id", kind := ← parseKind (← getStr j "kind"), sel, fields, refer,
           bound := ← natList j "bound" }

def parseSchema (j : Json) : Except String Schema := do
  let cons ← (← getArr j "cons").toList.mapM parseCon
  let decls ← (← getArr j "decls").toList.mapM fun d => do
    let a ← d.getArr?
    if h : a.size = 2 then
      let l ← (← a[1].getArr?).toList.mapM (·.getNat?)
      return ((← a[0].getNat?), l)
    else throw "decl"
  let ns ← (← getArr j "ns").toList.mapM parsePair
  let fscope := match j.getObjVal? "fscope" with
    | .ok (.bool b) => b
    | _ => false
  return { cons, declCons := decls, ns, fscope }

def nat (n : Nat) : Json := Json.num n
def nats (l : List Nat) : Json := Json.arr (l.map nat).toArray

def errJ : Err → Json
  | .dup c n => Json.arr #["dup", nat c, nat n, nat 0]
  | .missing c n i => Json.arr #["missing", nat c, nat n, nat i]
  | .multi c n i => Json.arr #["multi", nat c, nat n, nat i]
  | .notfound c s t => Json.arr #["notfound", nat c, nat s, nat t]

def clauseJ : Clause → Json
  | .dup => "dup" | .missing => "missing" | .multi => "multi" | .notfound => "notfound"

def idErrJ : IdErr → Json
  | .dup v => Json.arr #["iddup", v]
  | .dangling v => Json.arr #["idref", v]

def handle (j : Json) : Except String Json := do
  let sch ← parseSchema (← j.getObjVal? "schema")
  let root ← parseNode 4096 (← j.getObjVal? "doc")
  let v11 := match j.getObjValAs? Bool "v11" with | .ok x => x | .error _ => false
  let rootReg := match j.getObjValAs? Bool "rootreg" with | .ok x => x | .error _ => false
  if !lexOk sch root then throw "badlex"
  if !root.sibOk then throw "ids"
  let st := runDoc sch root
  let o := specClauses sch root
  return Json.mkObj [
    ("m", Json.mkObj [("errs", Json.arr (st.errs.reverse.map errJ).toArray),
                      ("nested", nats st.nested.eraseDups)]),
    ("o", Json.arr (o.eraseDups.map fun (c, cl) => Json.arr #[nat c, clauseJ cl]).toArray),
    ("id", Json.arr ((idRun (idEvents v11 rootReg root)).map idErrJ).toArray),
    -- S for ID / IDREF: every ID occurrence is recorded, the root's content included
    ("ido", Json.arr ((idRun (idEvents v11 true root)).map idErrJ).toArray),
    ("flags", Json.mkObj [
      ("spread", Json.arr ((referSpread sch root).map fun (c, m) => Json.arr #[nat c, nat m]).toArray),
      ("conflict", conflict sch root),
      ("strq", nats (strQName sch root)),
      ("fieldns", nats (fieldNs sch root))]),
    -- the namespace map read at every collect (node id, sorted bindings that differ from the
    -- declarations in scope of the node: empty on a correct stack discipline)
    ("nsdiff", nats (((nsCollects sch.ns root).filter fun (i, m) => m != scopeAt sch.ns root i).map (·.1)))]

end XsVerif.Driver.C08

def main : IO Unit := XsVerif.Driver.run XsVerif.Driver.C08.handle
