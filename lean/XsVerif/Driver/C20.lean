import XsVerif.Driver.Util
import XsVerif.Model.Lazy
import XsVerif.Model.SchemaPaths
import XsVerif.Model.PathEval
import XsVerif.Model.IdentScope
import XsVerif.Driver.LazyUtil
open Lean XsVerif.Driver XsVerif.Lazy XsVerif.SchemaPaths XsVerif.PathEval

namespace XsVerif.Driver.C20
open XsVerif.Driver.LazyUtil

structure Row where
  decl : Decl
  kids : List Nat

def parseRow (j : Json) : Except String Row := do
  let name := match j.getObjValAs? String "name" with
    | .ok s => some s
    | .error _ => none
  return { decl := { id := ← getNat j "id", name, subst := ← getStrList j "subst", wc := ← getStrList j "wc",
                     ty := ← getNat j "ty" },
           kids := ← natList (← j.getObjVal? "kids") }

def mkSchema (rows : List Row) (globals : List Nat) : Schema :=
  let get (i : Nat) : Option Decl := (rows.find? fun r => r.decl.id == i).map (·.decl)
  { globals := globals.filterMap get,
    kids := fun d => match rows.find? fun r => r.decl.id == d.id with
      | some r => r.kids.filterMap get
      | none => [] }

def parseStep (j : Json) : Except String Step := do
  let name := match j.getObjValAs? String "name" with
    | .ok s => some s
    | .error _ => none
  let pos := match j.getObjValAs? Nat "pos" with
    | .ok k => some k
    | .error _ => none
  return { desc := ← getBool j "desc", name, pos }

def handle (j : Json) : Except String Json := do
  let op ← getStr j "op"
  match op with
  | "select" =>
    -- resource.iterfind(path): ids of the selected elements in the order they are yielded, and whether every
    -- selected chain matches the path read as a pattern on tag chains (theorem sel_chain_matches: always)
    let t ← parseTree (← j.getObjVal? "tree")
    let abs ← getBool j "abs"
    let steps ← (← getArr j "steps").toList.mapM parseStep
    let sel := selC abs t steps
    let ok := sel.all fun c => if abs then matchesB steps c.1 else matchesRel t.tag steps c.1
    return Json.mkObj [("ids", natArr (sel.map (·.2.id))), ("chains_match", ok)]
  | "identloop" =>
    -- the loop of iter_errors(path=…) for one key/unique declared by the ancestor at index j of the chains
    let isKey ← getBool j "key"
    let jx ← getNat j "j"
    let evs ← (← getArr j "events").toList.mapM fun e => do
      let val : Option Int := match e.getObjValAs? Int "val" with
        | .ok v => some v
        | .error _ => none
      pure ({ chain := ← natList (← e.getObjVal? "chain"), node := ← getNat e "node", val } : XsVerif.IdentScope.EvC)
    let enc (out : List XsVerif.IdentScope.Err) : Json := Json.arr (out.map fun e => match e with
      | .dup n => Json.arr #["dup", toJson n]
      | .missing n => Json.arr #["missing", toJson n]).toArray
    return Json.mkObj [("errs", enc (XsVerif.IdentScope.loopC isKey jx [] [] evs)),
                       ("errs_repaired", enc (XsVerif.IdentScope.loopCFix isKey jx [] [] evs))]
  | "findallp" =>
    let rows ← (← getArr j "decls").toList.mapM parseRow
    let S := mkSchema rows (← natList (← j.getObjVal? "globals"))
    let steps ← (← getArr j "steps").toList.mapM parseStep
    return Json.mkObj [("ids", natArr ((findAllP S steps).map (·.id)))]
  | "findall" | "get_element" =>
    let rows ← (← getArr j "decls").toList.mapM parseRow
    let S := mkSchema rows (← natList (← j.getObjVal? "globals"))
    let steps ← getStrList j "steps"
    if op == "findall" then
      return Json.mkObj [("ids", natArr ((findAll S steps).map (·.id))),
                         ("gov", match gov S steps with | some d => toJson d.id | none => Json.null)]
    else
      let r := getElement S (← getStr j "tag") steps (← getBool j "star")
      return Json.mkObj [("id", match r with | some d => toJson d.id | none => Json.null)]
  | "part" =>
    let t ← parseTree (← j.getObjVal? "tree")
    let k ← getNat j "k"
    let d ← getNat j "root"
    let tb ← parseTables j
    let v := mkVal tb
    -- the declaration of a selected element: found by the schema path, else created for its xsi:type (schemas.py:1364-1367)
    let look : Tree → Option Nat := fun c => lazyPick (lookup tb.static) (lookup tb.created) none c
    let part := XsVerif.Lazy.chunkErrs v (fun _ c => look c) k [] (some d) t
    let deep := (eagerT v [] d t).filter (fun e => !decide (e.1.length < k))
    let loc := (chunkPairs v k [] (some d) t).all fun p => look p.2.2 == p.2.1
    return Json.mkObj [("part", natArr (part.map Prod.snd)), ("deep", natArr (deep.map Prod.snd)),
                       ("cut", natArr ((cutT v (if k == 0 then 1 else k) [] d t).map Prod.snd)),
                       ("local", loc)]
  | _ => throw s!"unknown op {op}"

end XsVerif.Driver.C20

def main : IO Unit := XsVerif.Driver.run XsVerif.Driver.C20.handle
