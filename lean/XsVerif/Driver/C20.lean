import XsVerif.Driver.Util
open Lean XsVerif.Driver

-- stub: replaced when the model of C20 lands
def main : IO Unit := XsVerif.Driver.run fun _ => .error "C20 driver not implemented"
