import XsVerif.Driver.Util
import XsVerif.Model.Converters
import XsVerif.Model.ContentOrder
import XsVerif.Model.DataElement
import XsVerif.Model.DefaultConv
open Lean XsVerif.Driver XsVerif.Conv

namespace XsVerif.Driver.C05

/-! JSON rendering of the model's data (canonical: constructor tags, insertion order kept because
    Python dicts are ordered and the converters depend on that order). -/

def pairsJson (f : α → Json) (l : List (String × α)) : Json :=
  Json.arr (l.map fun kv => Json.arr #[Json.str kv.1, f kv.2]).toArray

mutual
def jToJson : J → Json
  | .null => Json.null
  | .atom k s => Json.mkObj [("a", Json.arr #[Json.str k, Json.str s])]
  | .list xs => Json.mkObj [("l", Json.arr (jsToJson xs).toArray)]
  | .dict kvs => Json.mkObj [("d", Json.arr (kvsToJson kvs).toArray)]
  | .elem tag v atr kids tail x =>
      Json.mkObj [("e", Json.mkObj [("tag", tag), ("value", jToJson v),
        ("attrib", Json.arr (kvsToJson atr).toArray), ("kids", Json.arr (jsToJson kids).toArray),
        ("tail", jToJson tail),
        ("xmlns", pairsJson Json.str x)])]
def jsToJson : List J → List Json
  | [] => []
  | x :: r => jToJson x :: jsToJson r
def kvsToJson : List (String × J) → List Json
  | [] => []
  | (k, v) :: r => Json.arr #[Json.str k, jToJson v] :: kvsToJson r
end

def strPairs (j : Json) : Except String (List (String × String)) := do
  let a ← j.getArr?
  a.toList.mapM fun p => do
    let q ← p.getArr?
    if h : q.size = 2 then pure (← q[0].getStr?, ← q[1].getStr?) else throw "pair"

/-- fuel-bounded parser (Lean.Json is a nested type; the driver is not proof relevant) -/
def jOfJson : Nat → Json → Except String J
  | 0, _ => throw "json too deep"
  | _, .null => pure .null
  | n + 1, j => do
    if let .ok a := j.getObjVal? "a" then
      let q ← a.getArr?
      if h : q.size = 2 then return .atom (← q[0].getStr?) (← q[1].getStr?) else throw "atom"
    if let .ok l := j.getObjVal? "l" then
      let xs ← (← l.getArr?).toList.mapM (jOfJson n)
      return .list xs
    if let .ok d := j.getObjVal? "d" then
      let kvs ← (← d.getArr?).toList.mapM fun p => do
        let q ← p.getArr?
        if h : q.size = 2 then pure (← q[0].getStr?, ← jOfJson n q[1]) else throw "kv"
      return .dict kvs
    if let .ok e := j.getObjVal? "e" then
      let atr ← (← getArr e "attrib").toList.mapM fun p => do
        let q ← p.getArr?
        if h : q.size = 2 then pure (← q[0].getStr?, ← jOfJson n q[1]) else throw "kv"
      let kids ← (← getArr e "kids").toList.mapM (jOfJson n)
      return .elem (← getStr e "tag") (← jOfJson n (← e.getObjVal? "value")) atr kids
        (← jOfJson n (← e.getObjVal? "tail")) (← strPairs (← e.getObjVal? "xmlns"))
    throw "bad J"

def parseFacts (j : Json) : Except String Facts := do
  let ch ← (← getArr j "children").toList.mapM fun c => do
    pure ({ name := ← getStr c "name", ty := ← getNat c "ty", single := ← getBool c "single",
            isList := (getBool c "isList").toOption.getD false } : Child)
  pure { hasGroup := ← getBool j "hasGroup", simple := ← getBool j "simple", mixed := ← getBool j "mixed",
         emptyContent := ← getBool j "emptyContent", complex := ← getBool j "complex",
         singleGroup := ← getBool j "singleGroup", isList := ← getBool j "isList",
         anyType := ← getBool j "anyType", attrs := ← getStrList j "attrs", children := ch,
         isQName := (getBool j "isQName").toOption.getD false }

def parseHd (fuel : Nat) (j : Json) : Except String Hd := do
  let text ← match j.getObjVal? "text" with
    | .ok t => some <$> jOfJson fuel t
    | .error _ => pure none
  let attrs ← (← getArr j "attrs").toList.mapM fun p => do
    let q ← p.getArr?
    if h : q.size = 2 then pure (← q[0].getStr?, ← jOfJson fuel q[1]) else throw "attr"
  pure { tag := ← getStr j "tag", text, attrs, xmlns := ← strPairs (← j.getObjVal? "xmlns") }

def parseNode (sch : Array Facts) : Nat → Json → Except String Node
  | 0, _ => throw "node too deep"
  | n + 1, j => do
    let ty ← getNat j "ty"
    let some f := sch[ty]? | throw "ty"
    let hd ← parseHd 64 j
    let its ← (← getArr j "items").toList.mapM fun it => do
      if let .ok c := it.getObjVal? "c" then
        let q ← c.getArr?
        if h : q.size = 2 then pure (Item.cdata (← q[0].getNat?) (← jOfJson 64 q[1])) else throw "cdata"
      else
        let c ← it.getObjVal? "n"
        let q ← c.getArr?
        if h : q.size = 3 then
          pure (Item.child (← q[0].getStr?) (← q[1].getBool?) (← parseNode sch n q[2]))
        else throw "child"
    pure (.mk f hd (Items.ofList its))

def hdJson (hd : Hd) : List (String × Json) :=
  [("tag", Json.str hd.tag), ("attrs", Json.arr (kvsToJson hd.attrs).toArray), ("xmlns", pairsJson Json.str hd.xmlns)] ++
  (match hd.text with | some t => [("text", jToJson t)] | none => [])

mutual
def nodeJson : Node → Json
  | .mk _ hd items => Json.mkObj (hdJson hd ++ [("items", Json.arr (itemsJson items).toArray)])
def itemsJson : Items → List Json
  | .nil => []
  | .cdata i v r => Json.mkObj [("c", Json.arr #[i, jToJson v])] :: itemsJson r
  | .child nm _ n r => Json.mkObj [("n", Json.arr #[Json.str nm, nodeJson n])] :: itemsJson r
end

def itemsJ (its : List (Item J)) : Json :=
  Json.arr (its.map fun
    | .cdata i v => Json.mkObj [("c", Json.arr #[i, jToJson v])]
    | .child nm _ v => Json.mkObj [("n", Json.arr #[Json.str nm, jToJson v])]).toArray

def parseItemsJ (j : Json) : Except String (List (Item J)) := do
  (← j.getArr?).toList.mapM fun it => do
    if let .ok c := it.getObjVal? "c" then
      let q ← c.getArr?
      if h : q.size = 2 then pure (Item.cdata (← q[0].getNat?) (← jOfJson 64 q[1])) else throw "cdata"
    else
      let c ← it.getObjVal? "n"
      let q ← c.getArr?
      if h : q.size = 3 then
        pure (Item.child (← q[0].getStr?) (← q[1].getBool?) (← jOfJson 64 q[2]))
      else throw "child"

def errName : Err → String
  | .typeErr => "caught" | .valueErr => "caught" | .unmatchedTag => "caught" | .noChild => "nochild"
  | .leak => "leak" | .noType => "notype" | .fuel => "fuel" | .rawContent => "raw"

def lookupD (t : List (String × String)) (k : String) : String :=
  match t.find? (·.1 == k) with | some p => p.2 | none => k
def rlookupD (t : List (String × String)) (k : String) : String :=
  match t.find? (·.2 == k) with | some p => p.1 | none => k

/-- mapper tables: `tags`/`attrs` = [[extended, mapped]…]; unknown names map to themselves
    (namespaces.py:336-338, 384-386) -/
def parseMapper (j : Json) : Except String Mapper := do
  let tags ← strPairs (← j.getObjVal? "tags")
  let attrs ← strPairs (← j.getObjVal? "attrs")
  -- `kidsX` = [[extended, key, declarations]…]: what `unmap_qname(key, xmlns=declarations)` answered
  let kx ← match j.getObjVal? "kidsX" with
    | .ok a => (← a.getArr?).toList.mapM fun e => do
        let q ← e.getArr?
        if h : q.size = 3 then pure ((← q[0].getStr?), (← q[1].getStr?), (← strPairs q[2])) else throw "kidsX entry"
    | .error _ => pure []
  let um := rlookupD tags
  pure { mp := lookupD (tags ++ attrs), mpA := lookupD (attrs ++ tags), um, umA := rlookupD attrs,
         umX := fun x k => match kx.find? (fun e => e.2.1 == k && e.2.2 == x) with
           | some e => e.1
           | none => um k }

def optStr (j : Json) (k : String) (dflt : Option String) : Option String :=
  match j.getObjVal? k with
  | .ok .null => none
  | .ok (.str s) => some s
  | _ => dflt

/-- converter keyword arguments as the harness passed them to the real class -/
def parseOpts (j : Json) (useNs : Bool) : Dflt.Opts :=
  let o := (j.getObjVal? "opts").toOption.getD (Json.mkObj [])
  { textKey := optStr o "text_key" (some "$"), attrPrefix := optStr o "attr_prefix" (some "@"),
    cdataPrefix := optStr o "cdata_prefix" none,
    forceDict := (getBool o "force_dict").toOption.getD false,
    forceList := (getBool o "force_list").toOption.getD false, useNs }

def parseConv (j : Json) : Except String Conv := do
  let m ← parseMapper (← j.getObjVal? "mapper")
  let useNs ← getBool j "useNs"
  match ← getStr j "conv" with
  | "jsonml" => pure (JsonML.conv m useNs)
  | "dataelement" => pure (DE.conv m)
  | "default" => pure (Dflt.conv (parseOpts j useNs) m)
  | c => throw s!"unknown converter {c}"

def resJson (r : Except Err Node) : Json :=
  match r with
  | .ok n => Json.mkObj [("ok", nodeJson n)]
  | .error e => Json.mkObj [("error", errName e)]

def parseScript (j : Json) : Except String (List (Option (List String))) := do
  (← j.getArr?).toList.mapM fun e =>
    match e with
    | .null => pure none
    | e => do
      let names ← (← e.getArr?).toList.mapM (·.getStr?)
      pure (some names)

def itemsRes (r : Except Err (List (Item J))) : Json :=
  match r with
  | .ok its => Json.mkObj [("ok", itemsJ its)]
  | .error e => Json.mkObj [("error", errName e)]

/-- `iter_unordered_content` / `iter_collapsed_content` against a recorded visitor -/
def handleOrder (j : Json) : Except String Json := do
  let script ← parseScript (← j.getObjVal? "script")
  match ← getStr j "op" with
  | "unordered" =>
    let c ← (← getArr j "cdata").toList.mapM fun p => do
      let q ← p.getArr?
      if h : q.size = 2 then pure (← q[0].getNat?, ← jOfJson 64 q[1]) else throw "cdata"
    let b ← (← getArr j "buckets").toList.mapM fun p => do
      let q ← p.getArr?
      if h : q.size = 2 then
        pure (← q[0].getStr?, ← (← q[1].getArr?).toList.mapM (jOfJson 64))
      else throw "bucket"
    pure (itemsRes (Order.iterUnordered Order.scriptVisitor 4096 script c b))
  | _ =>
    let content ← parseItemsJ (← j.getObjVal? "content")
    pure (itemsRes (Order.iterCollapsed Order.scriptVisitor 4096 script content))

/-- `scopes` = [[declarations in scope (innermost first), mapper tables]…]: the name mapping that the real
    converter used in each lexical scope of the document (the harness has checked that it is one mapping per
    scope); a scope that is not listed maps every name to itself -/
def parseScopes (j : Json) : Except String (NsScope → Mapper) := do
  let tbl ← (← j.getArr?).toList.mapM fun e => do
    let q ← e.getArr?
    if h : q.size = 2 then pure ((← strPairs q[0]), (← parseMapper q[1])) else throw "scope entry"
  pure fun sc =>
    match tbl.find? (·.1 == sc) with
    | some p => p.2
    | none => { mp := id, um := id, umA := id }

/-- the document through the scoped recursion `decTreeS`/`encTreeS` (lossless converters, namespaces processed) -/
def handleScoped (j : Json) : Except String Json := do
  let m ← parseScopes (← j.getObjVal? "scopes")
  let sch := (← (← getArr j "sch").mapM parseFacts)
  let lookup : Nat → Option Facts := fun i => sch[i]?
  let c : SConv ← match ← getStr j "conv" with
    | "jsonml" => pure (JsonML.sconv m)
    | "dataelement" => pure (DE.sconv m)
    | c => throw s!"no scoped model of converter {c}"
  let root ← parseNode sch 64 (← j.getObjVal? "root")
  let .mk f hd _ := root
  let data := decTreeS c [] root
  let back := encTreeS c lookup 64 [] f hd.tag data
  pure (Json.mkObj [("dec", jToJson data), ("enc", resJson back)])

def handle (j : Json) : Except String Json := do
  if let .ok op := getStr j "op" then
    if op == "unordered" || op == "collapsed" then return ← handleOrder j
    if op == "rtS" then return ← handleScoped j
  let c ← parseConv j
  let sch := (← (← getArr j "sch").mapM parseFacts)
  let lookup : Nat → Option Facts := fun i => sch[i]?
  match ← getStr j "op" with
  | "rt" =>
    -- decode the captured ElementData tree, encode the result again
    let root ← parseNode sch 64 (← j.getObjVal? "root")
    let .mk f hd _ := root
    let data := decTree c root
    let back := encTree c lookup 64 f hd.tag data
    pure (Json.mkObj [("dec", jToJson data), ("enc", resJson back)])
  | "enc" =>
    let ty ← getNat j "ty"
    let some f := sch[ty]? | throw "ty"
    let obj ← jOfJson 64 (← j.getObjVal? "obj")
    pure (Json.mkObj [("enc", resJson (encTree c lookup 64 f (← getStr j "name") obj))])
  | "dec1" =>
    let ty ← getNat j "ty"
    let some f := sch[ty]? | throw "ty"
    let hd ← parseHd 64 (← j.getObjVal? "hd")
    let its ← parseItemsJ (← j.getObjVal? "items")
    pure (Json.mkObj [("v", jToJson (c.dec f hd its))])
  | "enc1" =>
    let ty ← getNat j "ty"
    let some f := sch[ty]? | throw "ty"
    let obj ← jOfJson 64 (← j.getObjVal? "obj")
    match c.enc f (← getStr j "name") obj with
    | .ok (hd, its) => pure (Json.mkObj [("enc", Json.mkObj [("ok", Json.mkObj (hdJson hd ++ [("items", itemsJ its)]))])])
    | .error e => pure (Json.mkObj [("enc", Json.mkObj [("error", errName e)])])
  | op => throw s!"unknown op {op}"

end XsVerif.Driver.C05

def main : IO Unit := XsVerif.Driver.run XsVerif.Driver.C05.handle
