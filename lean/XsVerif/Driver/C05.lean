import XsVerif.Driver.Util
open Lean XsVerif.Driver

-- stub: replaced when the model of C05 lands
def main : IO Unit := XsVerif.Driver.run fun _ => .error "C05 driver not implemented"
