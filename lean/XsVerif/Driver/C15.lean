import XsVerif.Driver.Util
open Lean XsVerif.Driver

-- stub: replaced when the model of C15 lands
def main : IO Unit := XsVerif.Driver.run fun _ => .error "C15 driver not implemented"
