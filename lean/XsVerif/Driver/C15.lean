import XsVerif.Driver.CMJson
import XsVerif.Model.Upa
import XsVerif.Model.CheckModel
open Lean XsVerif.Driver XsVerif.Wildcard XsVerif.CM XsVerif

namespace XsVerif.Driver.C15

def parseQT (j : Json) : Except String (QN × Nat) := do
  let a ← j.getArr?
  if h : a.size = 3 then
    return (⟨← a[0].getStr?, ← a[1].getStr?⟩, ← a[2].getNat?)
  else throw "qname+type"

def parseEInfo (j : Json) : Except String (Nat × EInfo) := do
  let id ← getNat j "id"
  let name ← parseQN (← j.getObjVal? "name")
  let ty ← getNat j "ty"
  let sgHead ← match j.getObjVal? "sg" with
    | .ok .null => pure none
    | .ok v => some <$> parseQN v
    | .error e => throw e
  let direct ← (← getArr j "direct").toList.mapM parseQN
  let subs ← (← getArr j "subs").toList.mapM parseQT
  let headOk := match j.getObjValAs? Bool "headOk" with | .ok b => b | .error _ => true
  return (id, { name, ty, sgHead, direct, subs, headOk })

def parseTypes (j : Json) : Except String (Nat × List (QN × Nat)) := do
  let a ← j.getArr?
  if h : a.size = 2 then
    return (← a[0].getNat?, ← (← a[1].getArr?).toList.mapM parseQT)
  else throw "type table entry"

def symJson (c : ASym) : Json := Json.arr #[c.1.ns, c.1.loc, c.2]

def errJson' : Option CMErr → List (String × Json)
  | none => [("res", "ok"), ("pair", Json.arr #[])]
  | some (.edc e pe) => [("res", "edc"), ("pair", Json.arr #[e, pe])]
  | some (.sameGroup pe e) => [("res", "group"), ("pair", Json.arr #[pe, e])]
  | some (.upa pe e) => [("res", "upa"), ("pair", Json.arr #[pe, e])]

/-- request: {"v11","n","model","smodel","einfo","defined","sigma","types","otypes","fuel","fx"}
    answer:  {"m": port of check_model, "o": proved oracle} -/
def handle (j : Json) : Except String Json := do
  let v11 ← getBool j "v11"
  let n ← getNat j "n"
  let (p, nodes) ← parseParticle (← j.getObjVal? "model")
  -- the same tree with occurrence ids (differs from `model` only when a particle object is shared by
  -- two places of the model): what S and O read
  let ps ← match j.getObjVal? "smodel" with
    | .ok sm => (·.1) <$> parseParticle sm
    | .error _ => pure p
  let infos ← (← getArr j "einfo").toList.mapM parseEInfo
  let defined ← (← getArr j "defined").toList.mapM parseQN
  let sigma ← (← getArr j "sigma").toList.mapM parseQN
  let types ← (← getArr j "types").toList.mapM parseTypes
  -- the same table keyed by object id (what `model` uses)
  let otypes ← match j.getObjVal? "otypes" with
    | .ok v => (← v.getArr?).toList.mapM parseTypes
    | .error _ => pure types
  let fuel ← getNat j "fuel"
  -- which repairs the tree under test contains (detected by the harness); absent = pinned algorithm
  let flag (k : String) : Bool := match j.getObjVal? "fx" with
    | .ok o => (match o.getObjValAs? Bool k with | .ok b => b | .error _ => false)
    | .error _ => false
  let fx : Fixes := { shared := flag "shared", repSeq := flag "repSeq", head10 := flag "head10", edc10 := flag "edc10", edcLoop := flag "edcLoop" }
  let M := mkCtx v11 n nodes infos defined fx
  let r := M.checkModel p
  let mJ := Json.mkObj (errJson' r.err ++ [
    ("precs", Json.arr (r.precs.map fun (w, e) => Json.arr #[w, e]).toArray),
    ("trace", Json.arr (r.trace.map fun (a, b, d) => Json.arr #[a, b, d]).toArray)])
  let oJ := match upaOracle sigma v11 ps fuel with
    | .cert S => Json.mkObj [("upa", "det"), ("states", S.length)]
    | .witness u c1 c2 => Json.mkObj [("upa", "nondet"),
        ("wit", Json.mkObj [("u", Json.arr (u.map symJson).toArray), ("c1", symJson c1), ("c2", symJson c2)])]
    | .unknown => Json.mkObj [("upa", "unknown")]
  return Json.mkObj [("m", mJ), ("o", oJ), ("edc", edcCheck types ps),
    ("tie", M.tableCovers otypes p), ("edc_p", edcCheck otypes p),
    ("nsyms", (symsOf sigma ps).length)]

end XsVerif.Driver.C15

def main : IO Unit := XsVerif.Driver.run XsVerif.Driver.C15.handle
