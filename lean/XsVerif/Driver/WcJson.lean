/- JSON (de)serialisation of wildcards and names, shared by several drivers. -/
import XsVerif.Driver.Util
import XsVerif.Model.Wildcard
open Lean XsVerif.Driver XsVerif.Wildcard

namespace XsVerif.Driver

def parseQN (j : Json) : Except String QN := do
  let a ← j.getArr?
  if h : a.size = 2 then
    return ⟨← a[0].getStr?, ← a[1].getStr?⟩
  else throw "qname"

def parseWc (j : Json) : Except String Wc := do
  let nsj ← j.getObjVal? "ns"
  let ns ← match nsj with
    | .str "any" => pure NsC.any
    | .str "other" => pure NsC.other
    | .arr a => NsC.set <$> a.toList.mapM (·.getStr?)
    | _ => throw "ns"
  let notNs ← getStrList j "notNs"
  let nq ← getArr j "notQ"
  let notQ ← nq.toList.mapM parseQN
  return { ns, notNs, notQ, notDefined := ← getBool j "nd", notSibling := ← getBool j "nsib",
           tns := ← getStr j "tns" }

def qnLt (a b : QN) : Bool := a.ns < b.ns || (a.ns == b.ns && a.loc < b.loc)

/-- canonical rendering: sets sorted and de-duplicated -/
def wcJson (w : Wc) : Json :=
  let ns := match w.ns with
    | .any => Json.str "any" | .other => Json.str "other"
    | .set l => Json.arr ((sortStrs (dedup l)).map Json.str).toArray
  let nq := (w.notQ.eraseDups.toArray.qsort qnLt).map fun q => Json.arr #[q.ns, q.loc]
  Json.mkObj [("ns", ns), ("notNs", Json.arr ((sortStrs (dedup w.notNs)).map Json.str).toArray),
    ("notQ", Json.arr nq), ("nd", w.notDefined), ("nsib", w.notSibling)]

end XsVerif.Driver
