/-
  Correctness of the derivative oracle:  accepts m r w = true ↔ Lang m r w.
-/
import XsVerif.Model.Rx

namespace XsVerif.Rx
variable {L σ : Type} (m : L → σ → Bool)

theorem flatten_eq_nil_iff' {ws : List (List σ)} : ws.flatten = [] ↔ ∀ x ∈ ws, x = [] := by
  induction ws with
  | nil => simp
  | cons a t ih => simp [ih]

theorem nullable_iff (r : Rx L) : nullable r = true ↔ Lang m r [] := by
  induction r with
  | empty => simp only [nullable, Lang]; simp
  | eps => simp only [nullable, Lang]
  | sym a => simp only [nullable, Lang]; simp
  | cat r s ihr ihs =>
    simp only [nullable, Lang, Bool.and_eq_true, ihr, ihs]
    constructor
    · rintro ⟨h1, h2⟩; exact ⟨[], [], rfl, h1, h2⟩
    · rintro ⟨u, v, h, h1, h2⟩
      obtain ⟨hu, hv⟩ := List.append_eq_nil_iff.mp h.symm
      subst hu hv; exact ⟨h1, h2⟩
  | alt r s ihr ihs => simp [nullable, Lang, ihr, ihs]
  | shuffle r s ihr ihs =>
    simp only [nullable, Lang, Bool.and_eq_true, ihr, ihs]
    constructor
    · rintro ⟨h1, h2⟩; exact ⟨[], [], .nil, h1, h2⟩
    · rintro ⟨u, v, h, h1, h2⟩
      cases h; exact ⟨h1, h2⟩
  | rep r lo hi ih =>
    simp only [nullable, Lang, Bool.and_eq_true, Bool.or_eq_true, beq_iff_eq]
    constructor
    · rintro ⟨hle, h0 | hn⟩
      · subst h0; exact ⟨[], rfl, Nat.le_refl _, by cases hi <;> simp [leHi], by simp⟩
      · refine ⟨List.replicate lo [], ?_, by simp, ?_, ?_⟩
        · symm; rw [flatten_eq_nil_iff']; intro x hx; exact (List.mem_replicate.mp hx).2
        · cases hi <;> simp_all [leHi, loLeHi]
        · intro x hx; rw [(List.mem_replicate.mp hx).2]; exact (ih.mp hn)
    · rintro ⟨ws, hf, hlo, hhi, hall⟩
      have hnil := flatten_eq_nil_iff'.mp hf.symm
      refine ⟨?_, ?_⟩
      · cases hi <;> simp_all [leHi, loLeHi]; omega
      · cases ws with
        | nil => left; simpa using hlo
        | cons x t =>
          right; apply ih.mpr
          have : x = [] := hnil x (by simp)
          subst this; exact hall [] (by simp)

theorem interleave_cons_iff {u v w : List σ} {c : σ} :
    Interleave u v (c :: w) ↔
      (∃ u', u = c :: u' ∧ Interleave u' v w) ∨ (∃ v', v = c :: v' ∧ Interleave u v' w) := by
  constructor
  · intro h
    cases h with
    | left _ h => exact .inl ⟨_, rfl, h⟩
    | right _ h => exact .inr ⟨_, rfl, h⟩
  · rintro (⟨u', rfl, h⟩ | ⟨v', rfl, h⟩)
    · exact .left c h
    · exact .right c h

/-- peel the first non-empty iteration off a non-empty flattening -/
theorem peel_first {r : Rx L} {c : σ} :
    ∀ (ws : List (List σ)) (w : List σ), c :: w = ws.flatten → (∀ x ∈ ws, Lang m r x) →
      ∃ (u : List σ) (rest : List (List σ)), w = u ++ rest.flatten ∧ Lang m r (c :: u) ∧
        rest.length + 1 = ws.length ∧
        ∀ x ∈ rest, Lang m r x := by
  intro ws
  induction ws with
  | nil => intro w h; simp at h
  | cons x t ih =>
    intro w h hall
    cases x with
    | nil =>
      simp only [List.flatten_cons, List.nil_append] at h
      obtain ⟨u, rest, h1, h2, h3, h4⟩ := ih w h (fun y hy => hall y (by simp [hy]))
      refine ⟨u, [] :: rest, by simpa using h1, h2, by simp [h3], ?_⟩
      intro y hy
      rcases List.mem_cons.mp hy with rfl | hy
      · exact hall [] (by simp)
      · exact h4 y hy
    | cons c' u =>
      simp only [List.flatten_cons, List.cons_append, List.cons.injEq] at h
      obtain ⟨rfl, rfl⟩ := h
      exact ⟨u, t, rfl, hall _ (by simp), by simp, fun y hy => hall y (by simp [hy])⟩

theorem deriv_iff (c : σ) (r : Rx L) : ∀ w, Lang m (deriv m c r) w ↔ Lang m r (c :: w) := by
  induction r with
  | empty => intro w; simp [deriv, Lang]
  | eps => intro w; simp [deriv, Lang]
  | sym a =>
    intro w
    simp only [deriv, Lang]
    split
    · rename_i h
      simp only [Lang]
      constructor
      · rintro rfl; exact ⟨c, rfl, h⟩
      · rintro ⟨c', h', _⟩; simp only [List.cons.injEq] at h'; exact h'.2
    · rename_i h
      simp only [Lang, false_iff]
      rintro ⟨c', h', hm⟩
      simp only [List.cons.injEq] at h'
      obtain ⟨rfl, _⟩ := h'
      exact h hm
  | alt r s ihr ihs => intro w; simp [deriv, Lang, ihr, ihs]
  | cat r s ihr ihs =>
    intro w
    have key : Lang m (.cat r s) (c :: w) ↔
        (∃ u v, w = u ++ v ∧ Lang m r (c :: u) ∧ Lang m s v) ∨ (Lang m r [] ∧ Lang m s (c :: w)) := by
      simp only [Lang]
      constructor
      · rintro ⟨u, v, h, h1, h2⟩
        cases u with
        | nil => right; simp at h; subst h; exact ⟨h1, h2⟩
        | cons c' u =>
          simp only [List.cons_append, List.cons.injEq] at h
          obtain ⟨rfl, rfl⟩ := h
          left; exact ⟨u, v, rfl, h1, h2⟩
      · rintro (⟨u, v, rfl, h1, h2⟩ | ⟨h1, h2⟩)
        · exact ⟨c :: u, v, rfl, h1, h2⟩
        · exact ⟨[], c :: w, rfl, h1, h2⟩
    rw [key]
    simp only [deriv]
    split
    · rename_i hn
      simp only [Lang, ihr, ihs]
      have := (nullable_iff m r).mp hn
      constructor
      · rintro (h | h)
        · exact .inl h
        · exact .inr ⟨this, h⟩
      · rintro (h | ⟨_, h⟩)
        · exact .inl h
        · exact .inr h
    · rename_i hn
      simp only [Lang, ihr]
      constructor
      · intro h; exact .inl h
      · rintro (h | ⟨h, _⟩)
        · exact h
        · exact absurd ((nullable_iff m r).mpr h) hn
  | shuffle r s ihr ihs =>
    intro w
    simp only [deriv, Lang, ihr, ihs, interleave_cons_iff]
    constructor
    · rintro (⟨u, v, h, h1, h2⟩ | ⟨u, v, h, h1, h2⟩)
      · exact ⟨c :: u, v, .inl ⟨u, rfl, h⟩, h1, h2⟩
      · exact ⟨u, c :: v, .inr ⟨v, rfl, h⟩, h1, h2⟩
    · rintro ⟨u, v, (⟨u', rfl, h⟩ | ⟨v', rfl, h⟩), h1, h2⟩
      · exact .inl ⟨u', v, h, h1, h2⟩
      · exact .inr ⟨u, v', h, h1, h2⟩
  | rep r lo hi ih =>
    intro w
    simp only [deriv]
    split
    · rename_i hc
      simp only [Bool.and_eq_true] at hc
      obtain ⟨hpos, hle⟩ := hc
      simp only [Lang, ih]
      constructor
      · rintro ⟨u, v, rfl, h1, ws, rfl, hlo, hhi, hall⟩
        refine ⟨(c :: u) :: ws, by simp, by simp; omega, ?_, ?_⟩
        · cases hi <;> simp_all [leHi, hiPred, hiPos]; omega
        · intro x hx
          rcases List.mem_cons.mp hx with rfl | hx
          · exact h1
          · exact hall x hx
      · rintro ⟨ws, hf, hlo, hhi, hall⟩
        obtain ⟨u, rest, h1, h2, h3, h4⟩ := peel_first m ws w hf hall
        refine ⟨u, rest.flatten, h1, h2, rest, rfl, by omega, ?_, h4⟩
        cases hi <;> simp_all [leHi, hiPred]; omega
    · rename_i hc
      simp only [Lang, false_iff]
      rintro ⟨ws, hf, hlo, hhi, hall⟩
      apply hc
      have hlen : 0 < ws.length := by
        cases ws with
        | nil => simp at hf
        | cons _ _ => simp
      cases hi <;> simp_all [leHi, hiPos, loLeHi] <;> omega

theorem isEmpty_sound (r : Rx L) : isEmpty r = true → ∀ w, ¬ Lang m r w := by
  induction r with
  | empty => intro _ w; simp [Lang]
  | eps => simp [isEmpty]
  | sym a => simp [isEmpty]
  | rep r lo hi ih => simp [isEmpty]
  | cat r s ihr ihs =>
    simp only [isEmpty, Bool.or_eq_true, Lang]
    rintro (h | h) w ⟨u, v, _, h1, h2⟩
    · exact ihr h u h1
    · exact ihs h v h2
  | alt r s ihr ihs =>
    simp only [isEmpty, Bool.and_eq_true, Lang]
    rintro ⟨h1, h2⟩ w (h | h)
    · exact ihr h1 w h
    · exact ihs h2 w h
  | shuffle r s ihr ihs =>
    simp only [isEmpty, Bool.or_eq_true, Lang]
    rintro (h | h) w ⟨u, v, _, h1, h2⟩
    · exact ihr h u h1
    · exact ihs h v h2

theorem prune_iff (r : Rx L) : ∀ w, Lang m (prune r) w ↔ Lang m r w := by
  induction r with
  | empty => intro w; simp [prune]
  | eps => intro w; simp [prune]
  | sym a => intro w; simp [prune]
  | rep r lo hi ih => intro w; simp [prune]
  | alt r s ihr ihs =>
    intro w
    simp only [prune]
    split
    · rename_i h; simp only [Lang, ihs]
      constructor
      · exact .inr
      · rintro (h' | h')
        · exact absurd h' (isEmpty_sound m r h w)
        · exact h'
    · split
      · rename_i h; simp only [Lang, ihr]
        constructor
        · exact .inl
        · rintro (h' | h')
          · exact h'
          · exact absurd h' (isEmpty_sound m s h w)
      · simp [Lang, ihr, ihs]
  | cat r s ihr ihs =>
    intro w
    simp only [prune]
    split
    · rename_i h
      simp only [Bool.or_eq_true] at h
      simp only [Lang, false_iff]
      rintro ⟨u, v, _, h1, h2⟩
      rcases h with h | h
      · exact isEmpty_sound m r h u h1
      · exact isEmpty_sound m s h v h2
    · simp [Lang, ihr]
  | shuffle r s ihr ihs =>
    intro w
    simp only [prune]
    split
    · rename_i h
      simp only [Bool.or_eq_true] at h
      simp only [Lang, false_iff]
      rintro ⟨u, v, _, h1, h2⟩
      rcases h with h | h
      · exact isEmpty_sound m r h u h1
      · exact isEmpty_sound m s h v h2
    · simp [Lang, ihr, ihs]

theorem derivs_iff (w : List σ) : ∀ (r : Rx L) (v : List σ),
    Lang m (derivs m r w) v ↔ Lang m r (w ++ v) := by
  induction w with
  | nil => intro r v; simp [derivs]
  | cons c w ih =>
    intro r v
    simp only [derivs, List.cons_append]
    rw [ih, prune_iff, deriv_iff]

/-- The oracle decides the language: for every expression and every word. -/
theorem accepts_iff (r : Rx L) (w : List σ) : accepts m r w = true ↔ Lang m r w := by
  unfold accepts
  rw [nullable_iff m, derivs_iff]
  simp

end XsVerif.Rx
