/-
  Stack discipline of `set_xmlns_context` under the validators' call pattern (C17): helper definitions and the
  mutual induction over trees.  The property theorems that use them are in Props/C17.lean.
-/
import XsVerif.Model.NsMapper
import XsVerif.Lemmas.NsMapper
set_option linter.unusedSimpArgs false
namespace XsVerif.NsMapper.Stack
open XsVerif.NsMapper XsVerif.NsMapper.Map

def Tree.id : Tree → Nat | .node i _ _ _ _ => i

mutual
/-- S: what a reader computes — the declarations in scope of each element are the fold of the xmlns
    declarations on the path root → element over the initial map (`Map.update` = dict.update); the xmlns an
    element hands to the converter are exactly its own declarations (`None` when it has none). -/
def specObs (ns0 : Map) : Tree → List (Nat × Map × Map × Option Xmlns)
  | .node id _ _ decl ch =>
    (id, Map.update ns0 decl, Map.update ns0 decl, if decl.isEmpty then none else some decl)
      :: specObsList (Map.update ns0 decl) ch
def specObsList (ns0 : Map) : List Tree → List (Nat × Map × Map × Option Xmlns)
  | [] => []
  | t :: ts => specObs ns0 t ++ specObsList ns0 ts
end

mutual
/-- sibling elements are distinct objects -/
def SibDistinct : Tree → Prop
  | .node _ _ _ _ ch => (ch.map Tree.id).Nodup ∧ SibDistinctList ch
def SibDistinctList : List Tree → Prop
  | [] => True
  | t :: ts => SibDistinct t ∧ SibDistinctList ts
end

def Below (L : Nat) (base : List Ctx) : Prop := ∀ c ∈ base, c.level < L

/-- the mapper is "at level L over `base`" with logical maps `(ns0, rev0)`: either they are the current maps,
    or they are saved in a context of an already visited sibling that the next call will pop. -/
def Ready (L : Nat) (base : List Ctx) (ns0 rev0 : Map) (seen : List Nat) (m : Mapper) : Prop :=
  (m.stack = base ∧ m.ns = ns0 ∧ m.rev = rev0) ∨
  (∃ c, m.stack = c :: base ∧ c.level = L ∧ c.ns = ns0 ∧ c.rev = rev0 ∧ c.obj ∈ seen)

theorem popLoop_below {obj L : Nat} {base : List Ctx} (hb : Below L base) (r : Option (Map × Map)) :
    popLoop obj L base r = (base, r, none) := by
  cases base with
  | nil => rfl
  | cons c rest =>
    have : L > c.level := hb c List.mem_cons_self
    simp [popLoop, this]

/-- state right after the first `set_xmlns_context(elem, L)` of an element -/
def entered (v : Variant) (ns0 rev0 : Map) (base : List Ctx) (id L : Nat) (decl : Xmlns) : Mapper :=
  if decl.isEmpty then { ns := ns0, rev := rev0, stack := base }
  else { ns := Map.update ns0 decl, rev := revUpdate L (repoint v ns0 rev0 decl) decl,
         stack := { obj := id, level := L, xmlns := decl, ns := ns0, rev := rev0 } :: base }

theorem entered_ns (v : Variant) (ns0 rev0 : Map) (base : List Ctx) (id L : Nat) (decl : Xmlns) :
    (entered v ns0 rev0 base id L decl).ns = Map.update ns0 decl := by
  unfold entered
  cases decl with
  | nil => rfl
  | cons d t => rfl

theorem enter_spec (v : Variant) {L : Nat} {base : List Ctx} {ns0 rev0 : Map} {seen : List Nat} {m : Mapper}
    (id : Nat) (decl : Xmlns) (hb : Below L base) (hr : Ready L base ns0 rev0 seen m) (hid : id ∉ seen) :
    (setContext v .stacked m id L decl).m = entered v ns0 rev0 base id L decl := by
  have hpop : popLoop id L m.stack none = (base, none, none) ∧ m.ns = ns0 ∧ m.rev = rev0 ∨
      popLoop id L m.stack none = (base, some (ns0, rev0), none) := by
    rcases hr with ⟨h1, h2, h3⟩ | ⟨c, h1, h2, h3, h4, h5⟩
    · left; rw [h1]; exact ⟨popLoop_below hb none, h2, h3⟩
    · right
      rw [h1]
      have hne : ¬ (c.obj = id) := fun e => hid (e ▸ h5)
      have hlt : ¬ (L > c.level) := by omega
      simp only [popLoop, hlt, if_false, hne, and_false]
      rw [popLoop_below hb, h3, h4]
  unfold setContext entered
  rcases hpop with ⟨hp, h2, h3⟩ | hp
  · rw [hp]; simp only [h2, h3]
    cases decl with
    | nil => simp
    | cons d t => simp
  · rw [hp]; simp only
    cases decl with
    | nil => simp
    | cons d t => simp

theorem entered_stack_below (v : Variant) {L : Nat} {base : List Ctx} (hb : Below L base) (ns0 rev0 : Map)
    (id : Nat) (decl : Xmlns) : Below (L + 1) (entered v ns0 rev0 base id L decl).stack := by
  unfold entered
  split
  · intro c hc; have := hb c hc; simp at hc ⊢; omega
  · intro c hc
    rcases List.mem_cons.mp hc with e | e
    · subst e; simp
    · have := hb c e; omega

/-- the purge call (elements.py:833) after the children: back to the entered state, exactly -/
theorem exit_spec (v : Variant) {L : Nat} {base : List Ctx} (ns0 rev0 : Map) {seen : List Nat} {m2 : Mapper}
    (id : Nat) (decl : Xmlns) (hb : Below L base)
    (hr : Ready (L + 1) (entered v ns0 rev0 base id L decl).stack (entered v ns0 rev0 base id L decl).ns
      (entered v ns0 rev0 base id L decl).rev seen m2) :
    (setContext v .stacked m2 id L decl).m = entered v ns0 rev0 base id L decl ∧
    (setContext v .stacked m2 id L decl).ret = (if decl.isEmpty then none else some decl) := by
  cases decl with
  | nil =>
    simp only [entered, List.isEmpty_nil, if_true] at hr ⊢
    unfold setContext
    rcases hr with ⟨h1, h2, h3⟩ | ⟨c, h1, h2, h3, h4, _⟩
    · rw [h1, popLoop_below hb]; simp [h2, h3]
    · rw [h1]
      have hlt : ¬ (L > c.level) := by omega
      have hne : ¬ (L = c.level) := by omega
      simp only [popLoop, hlt, if_false, hne, false_and]
      rw [popLoop_below hb]; simp [h3, h4]
  | cons d t =>
    simp only [entered, List.isEmpty_cons, Bool.false_eq_true, if_false] at hr ⊢
    unfold setContext
    rcases hr with ⟨h1, h2, h3⟩ | ⟨c, h1, h2, h3, h4, _⟩
    · rw [h1]; simp [popLoop, h2, h3]
    · rw [h1]
      have hlt : ¬ (L > c.level) := by omega
      have hne : ¬ (L = c.level) := by omega
      simp only [popLoop, hlt, if_false, hne, false_and]
      simp [popLoop, h3, h4]

theorem entered_ready (v : Variant) (ns0 rev0 : Map) (base : List Ctx) (id L : Nat) (decl : Xmlns)
    (seen : List Nat) : Ready L base ns0 rev0 (id :: seen) (entered v ns0 rev0 base id L decl) := by
  unfold entered
  split
  · exact Or.inl ⟨rfl, rfl, rfl⟩
  · exact Or.inr ⟨_, rfl, rfl, rfl, rfl, List.mem_cons_self⟩

theorem ready_mono {L : Nat} {base : List Ctx} {ns0 rev0 : Map} {seen seen' : List Nat} {m : Mapper}
    (h : Ready L base ns0 rev0 seen m) (hs : ∀ x ∈ seen, x ∈ seen') : Ready L base ns0 rev0 seen' m := by
  rcases h with h | ⟨c, h1, h2, h3, h4, h5⟩
  · exact Or.inl h
  · exact Or.inr ⟨c, h1, h2, h3, h4, hs _ h5⟩

def proj (o : Obs) : Nat × Map × Map × Option Xmlns := (o.id, o.nsAtKey, o.nsAtAttrs, o.ret)

mutual
theorem visit_spec (v : Variant) : ∀ (t : Tree), SibDistinct t → ∀ (L : Nat) (m : Mapper) (base : List Ctx)
    (ns0 rev0 : Map) (seen : List Nat), Below L base → Ready L base ns0 rev0 seen m → Tree.id t ∉ seen →
    Ready L base ns0 rev0 (Tree.id t :: seen) (visit v .stacked L t m).1 ∧
    (visit v .stacked L t m).2.map proj = specObs ns0 t
  | .node id tag attrs decl ch, hd, L, m, base, ns0, rev0, seen, hb, hr, hid => by
    simp only [SibDistinct] at hd
    simp only [Tree.id] at hid ⊢
    have h1 := enter_spec v id decl hb hr hid
    have hb1 := entered_stack_below v hb ns0 rev0 id decl
    have hch := visitList_spec v ch hd.2 hd.1 (L + 1) (setContext v .stacked m id L decl).m
      (entered v ns0 rev0 base id L decl).stack (entered v ns0 rev0 base id L decl).ns
      (entered v ns0 rev0 base id L decl).rev [] hb1 (by rw [h1]; exact Or.inl ⟨rfl, rfl, rfl⟩) (by simp)
    obtain ⟨hr2, ho2⟩ := hch
    have h3 := exit_spec v ns0 rev0 id decl hb hr2
    simp only [visit, specObs]
    refine ⟨?_, ?_⟩
    · rw [h3.1]; exact entered_ready v ns0 rev0 base id L decl seen
    · simp only [List.map_cons, proj]
      rw [h3.1, h3.2, ho2]
      simp only [h1, entered_ns]

theorem visitList_spec (v : Variant) : ∀ (ts : List Tree), SibDistinctList ts → (ts.map Tree.id).Nodup →
    ∀ (L : Nat) (m : Mapper) (base : List Ctx) (ns0 rev0 : Map) (seen : List Nat), Below L base →
    Ready L base ns0 rev0 seen m → (∀ t ∈ ts, Tree.id t ∉ seen) →
    Ready L base ns0 rev0 ((ts.map Tree.id).reverse ++ seen) (visitList v .stacked L ts m).1 ∧
    (visitList v .stacked L ts m).2.map proj = specObsList ns0 ts
  | [], _, _, L, m, base, ns0, rev0, seen, _, hr, _ => by
    simp only [visitList, specObsList, List.map_nil, List.reverse_nil, List.nil_append]
    exact ⟨hr, trivial⟩
  | t :: ts, hd, hn, L, m, base, ns0, rev0, seen, hb, hr, hs => by
    simp only [SibDistinctList] at hd
    simp only [List.map_cons, List.nodup_cons] at hn
    obtain ⟨hr1, ho1⟩ := visit_spec v t hd.1 L m base ns0 rev0 seen hb hr (hs t List.mem_cons_self)
    have hs' : ∀ t' ∈ ts, Tree.id t' ∉ Tree.id t :: seen := by
      intro t' ht' hm
      rcases List.mem_cons.mp hm with e | e
      · exact hn.1 (e ▸ List.mem_map.mpr ⟨t', ht', rfl⟩)
      · exact hs t' (List.mem_cons_of_mem _ ht') e
    obtain ⟨hr2, ho2⟩ := visitList_spec v ts hd.2 hn.2 L (visit v .stacked L t m).1 base ns0 rev0
      (Tree.id t :: seen) hb hr1 hs'
    simp only [visitList, specObsList, List.map_append, ho1, ho2, List.map_cons, List.reverse_cons,
      List.append_assoc, List.singleton_append]
    exact ⟨hr2, trivial⟩
end

end XsVerif.NsMapper.Stack
