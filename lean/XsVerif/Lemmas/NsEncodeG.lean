/-
  C17 — the flagged encoder call pattern `encVisitG` with the F10 mechanism switched off: the same stack
  discipline as `encVisit` (Lemmas/NsEncode.lean), the own-tag check of JsonML never fires, and the encoder
  restores exactly the names the data denotes (`encodeG_reads`), with the F9 mechanism on (under the attribute
  guard of `ReadableG true`) or off (no guard at all).
-/
import XsVerif.Model.NsMapper
import XsVerif.Lemmas.NsMapper
import XsVerif.Lemmas.NsStack
import XsVerif.Lemmas.NsSpec
import XsVerif.Lemmas.NsEncode
set_option linter.unusedSimpArgs false
namespace XsVerif.Props.C17
open XsVerif.NsMapper XsVerif.NsMapper.Map XsVerif.NsMapper.Stack

mutual
/-- The data is readable (read from scope `s`): every key denotes a name and an item that is not a mapping
    carries nothing.  With `guard9 = true` (the F9 mechanism is on) in addition an unprefixed attribute key occurs
    only where the element's type declares it unqualified (`sch`, looked up under the name the item's key
    denotes) or where the default namespace is unset. -/
def ReadableG (guard9 : Bool) (sch : EncSchema) (s : Scope) : Item → Prop
  | .node _ key isMap xmlns attrs ch =>
    (isMap = false → xmlns = [] ∧ attrs = [] ∧ ch = []) ∧
    readElem (s.bind xmlns) key ≠ none ∧
    (∀ k ∈ attrs, readAttr (s.bind xmlns) k ≠ none ∧
      (guard9 = true → ∀ l, k = .loc l →
        (∃ q, readElem (s.bind xmlns) key = some q ∧ sch.declared q = true ∧ sch.unq q l = true) ∨
        (s.bind xmlns) "" = none ∨ (s.bind xmlns) "" = some "")) ∧
    ReadableGList guard9 sch (s.bind xmlns) ch
def ReadableGList (guard9 : Bool) (sch : EncSchema) (s : Scope) : List Item → Prop
  | [] => True
  | i :: is => ReadableG guard9 sch s i ∧ ReadableGList guard9 sch s is
end

/-- projection of the flagged model's observations: items the converter refused are not in the produced tree -/
def encProjG (obs : List EncObs) : Names := (obs.filter (fun e => !e.dropped)).map encProj

/-! ### small facts -/

theorem f10Rename_off {fl : EncFlags} (hf : fl.f10 = false) (wp : Bool) (pns : Map) (t : Unmapped) :
    f10Rename fl wp pns t = t := by
  simp [f10Rename, hf]

theorem filter_all (obs : List EncObs) (h : ∀ e ∈ obs, e.dropped = false) :
    obs.filter (fun e => !e.dropped) = obs := by
  induction obs with
  | nil => rfl
  | cons e es ih =>
    have he := h e List.mem_cons_self
    have ih' := ih (fun e' he' => h e' (List.mem_cons_of_mem _ he'))
    simp [List.filter_cons, he, ih']

theorem encProjG_of_none_dropped (obs : List EncObs) (h : ∀ e ∈ obs, e.dropped = false) :
    encProjG obs = obs.map encProj := by
  unfold encProjG; rw [filter_all obs h]

/-- attribute keys resolved with the schema's table for the element encoded under `tag` -/
theorem attrs_readG {fl : EncFlags} {sch : EncSchema} {tag : Unmapped} {ns : Map} :
    ∀ (attrs : List PName),
    (∀ k ∈ attrs, readAttr ns.get k ≠ none ∧
      ∀ l, k = .loc l → attrInTableG fl sch tag k = true ∨ ns.get "" = none ∨ ns.get "" = some "") →
    (attrs.map fun k => unmapQName ns [] (attrInTableG fl sch tag k) k).map Unmapped.toOpt =
      attrs.map (readAttr ns.get)
  | [], _ => rfl
  | k :: ks, h => by
    have hk := h k List.mem_cons_self
    have ih := attrs_readG (fl := fl) (sch := sch) (tag := tag) (ns := ns) ks
      (fun k' hk' => h k' (List.mem_cons_of_mem _ hk'))
    simp only [List.map_cons, ih, List.cons.injEq, and_true]
    cases hq : readAttr ns.get k with
    | none => exact absurd hq hk.1
    | some q =>
      rw [unmap_attr_eq_read hq hk.2]; rfl

/-- the table lookup succeeds for an unprefixed key: F9 off, or the type of the element declares it -/
theorem attrInTableG_true {fl : EncFlags} {sch : EncSchema} {q : QN} {l : String}
    (h : fl.f9 = false ∨ (sch.declared q = true ∧ sch.unq q l = true)) :
    attrInTableG fl sch (.name q) (.loc l) = true := by
  rcases h with h | ⟨h1, h2⟩
  · simp [attrInTableG, h]
  · simp [attrInTableG, h1, h2]

/-! ### unfolding equations -/

theorem encVisitG_map_eq (v : Variant) (mode : Mode) (fl : EncFlags) (sch : EncSchema) (L : Nat) (tag : Unmapped)
    (id : Nat) (key : PName) (xmlns : Xmlns) (attrs : List PName) (ch : List Item) (m : Mapper) :
    encVisitG v mode fl sch L tag (.node id key true xmlns attrs ch) m =
      if (fl.ownTag && unmapQName (setContext v mode m id L xmlns).m.ns [] false key != tag) = true then
        ((setContext v mode m id L xmlns).m,
          [{ id := id, level := L, ns := (setContext v mode m id L xmlns).m.ns,
             rev := (setContext v mode m id L xmlns).m.rev, tag := tag, attrs := [], dropped := true }])
      else
      ((encVisitListG v mode fl sch (L + 1) (setContext v mode m id L xmlns).m.ns (!tagDeclared sch tag) ch
          (setContext v mode m id L xmlns).m).1,
       { id := id, level := L, ns := (setContext v mode m id L xmlns).m.ns,
         rev := (setContext v mode m id L xmlns).m.rev, tag := tag,
         attrs := attrs.map fun k =>
           unmapQName (setContext v mode m id L xmlns).m.ns [] (attrInTableG fl sch tag k) k } ::
        (encVisitListG v mode fl sch (L + 1) (setContext v mode m id L xmlns).m.ns (!tagDeclared sch tag) ch
          (setContext v mode m id L xmlns).m).2) := by
  simp only [encVisitG, if_true]

theorem encVisitG_nomap_eq (v : Variant) (mode : Mode) (fl : EncFlags) (sch : EncSchema) (L : Nat) (tag : Unmapped)
    (id : Nat) (key : PName) (xmlns : Xmlns) (attrs : List PName) (ch : List Item) (m : Mapper) :
    encVisitG v mode fl sch L tag (.node id key false xmlns attrs ch) m =
      (m, [{ id := id, level := L, ns := m.ns, rev := m.rev, tag := tag, attrs := [] }]) := by
  simp only [encVisitG, Bool.false_eq_true, if_false]

theorem encVisitListG_cons_eq (v : Variant) (mode : Mode) (fl : EncFlags) (sch : EncSchema) (L : Nat) (pns : Map)
    (wp : Bool) (c : Item) (cs : List Item) (m : Mapper) :
    encVisitListG v mode fl sch L pns wp (c :: cs) m =
      ((encVisitListG v mode fl sch L pns wp cs
          (encVisitG v mode fl sch L
            (f10Rename fl wp pns (unmapQName pns (Item.xmlns c) false (Item.key c))) c m).1).1,
       (encVisitG v mode fl sch L
            (f10Rename fl wp pns (unmapQName pns (Item.xmlns c) false (Item.key c))) c m).2 ++
       (encVisitListG v mode fl sch L pns wp cs
          (encVisitG v mode fl sch L
            (f10Rename fl wp pns (unmapQName pns (Item.xmlns c) false (Item.key c))) c m).1).2) := by
  simp only [encVisitListG]

/-- the tag the parent resolves for a child, as a name -/
theorem child_tagG {ns0 : Map} {xmlns : Xmlns} {key : PName} {q : QN}
    (hq : readElem (Scope.bind ns0.get xmlns) key = some q) :
    unmapQName ns0 xmlns false key = .name q := by
  rw [unmap_override, unmap_eq_read (q := q) (by rw [get_update_bind]; exact hq)]

/-! ### the stack discipline and the names, by mutual induction -/

mutual
theorem encVisitG_spec (v : Variant) (fl : EncFlags) (sch : EncSchema) (hf : fl.f10 = false) :
    ∀ (item : Item), ItemDistinct item →
    ∀ (L : Nat) (tag : Unmapped) (m : Mapper) (base : List Ctx) (ns0 rev0 : Map) (seen : List Nat),
    Below L base → At L base ns0 rev0 seen m → Item.id item ∉ seen →
    ReadableG fl.f9 sch ns0.get item →
    (∃ q, readElem (Scope.bind ns0.get (Item.xmlns item)) (Item.key item) = some q ∧ tag = .name q) →
    At L base ns0 rev0 (Item.id item :: seen) (encVisitG v .stacked fl sch L tag item m).1 ∧
    (∀ e ∈ (encVisitG v .stacked fl sch L tag item m).2, e.dropped = false) ∧
    (encVisitG v .stacked fl sch L tag item m).2.map encProj = readItem ns0.get item
  | .node id key isMap xmlns attrs ch, hd, L, tag, m, base, ns0, rev0, seen, hb, hr, hid, hR, ht => by
    simp only [ItemDistinct] at hd
    simp only [Item.id, Item.xmlns, Item.key] at hid ht ⊢
    obtain ⟨q, hq, htag⟩ := ht
    cases isMap with
    | false =>
      rw [encVisitG_nomap_eq]
      simp only [ReadableG] at hR
      obtain ⟨h1, h2, h3⟩ := hR.1 trivial
      subst h1; subst h2; subst h3
      simp only [bind_nil] at hq
      refine ⟨At_mono hr (fun x hx => List.mem_cons_of_mem _ hx), ?_, ?_⟩
      · intro e he
        simp only [List.mem_singleton] at he
        subst he; rfl
      · simp [readItem, readItems, encProj, htag, hq, bind_nil, Unmapped.toOpt]
    | true =>
      have h1 := enc_enter v id xmlns hb hr hid
      have hb1 := entered_stack_below v hb ns0 rev0 id xmlns
      have hget : (entered v ns0 rev0 base id L xmlns).ns.get = Scope.bind ns0.get xmlns := by
        rw [entered_ns, get_update_bind]
      have hown : unmapQName (entered v ns0 rev0 base id L xmlns).ns [] false key = tag := by
        rw [htag]; exact unmap_eq_read (by rw [hget]; exact hq)
      rw [encVisitG_map_eq, h1]
      simp only [hown, bne_self_eq_false, Bool.and_false, Bool.false_eq_true, if_false]
      simp only [ReadableG] at hR
      obtain ⟨_, _, hattrs, hch⟩ := hR
      rw [← hget] at hch
      obtain ⟨hA, hD, hN⟩ := encVisitListG_spec v fl sch hf ch hd.2 hd.1 (L + 1) (!tagDeclared sch tag)
        (entered v ns0 rev0 base id L xmlns)
        (entered v ns0 rev0 base id L xmlns).stack (entered v ns0 rev0 base id L xmlns).ns
        (entered v ns0 rev0 base id L xmlns).rev [] hb1 (At_init _ _) (by simp) hch
      have hattrs' : ∀ k ∈ attrs, readAttr (entered v ns0 rev0 base id L xmlns).ns.get k ≠ none ∧
          ∀ l, k = .loc l → attrInTableG fl sch tag k = true ∨
            (entered v ns0 rev0 base id L xmlns).ns.get "" = none ∨
            (entered v ns0 rev0 base id L xmlns).ns.get "" = some "" := by
        intro k hk
        rw [hget]
        refine ⟨(hattrs k hk).1, ?_⟩
        intro l e
        subst e
        cases h9 : fl.f9 with
        | false =>
          left; rw [htag]; exact attrInTableG_true (Or.inl h9)
        | true =>
          rcases (hattrs (.loc l) hk).2 h9 l rfl with ⟨q', hq', hd', hu'⟩ | h | h
          · rw [hq] at hq'
            simp only [Option.some.injEq] at hq'
            subst hq'
            left; rw [htag]; exact attrInTableG_true (Or.inr ⟨hd', hu'⟩)
          · exact Or.inr (Or.inl h)
          · exact Or.inr (Or.inr h)
      refine ⟨enc_after v ns0 rev0 seen id xmlns _ hA, ?_, ?_⟩
      · intro e he
        rcases List.mem_cons.mp he with e1 | e1
        · subst e1; rfl
        · exact hD e e1
      · simp only [List.map_cons, readItem, hN, encProj, hget]
        rw [← hget, attrs_readG attrs hattrs', htag, hget, hq]
        rfl

theorem encVisitListG_spec (v : Variant) (fl : EncFlags) (sch : EncSchema) (hf : fl.f10 = false) :
    ∀ (cs : List Item), ItemDistinctList cs → (cs.map Item.id).Nodup →
    ∀ (L : Nat) (wp : Bool) (m : Mapper) (base : List Ctx) (ns0 rev0 : Map) (seen : List Nat), Below L base →
    At L base ns0 rev0 seen m → (∀ c ∈ cs, Item.id c ∉ seen) →
    ReadableGList fl.f9 sch ns0.get cs →
    At L base ns0 rev0 ((cs.map Item.id).reverse ++ seen) (encVisitListG v .stacked fl sch L ns0 wp cs m).1 ∧
    (∀ e ∈ (encVisitListG v .stacked fl sch L ns0 wp cs m).2, e.dropped = false) ∧
    (encVisitListG v .stacked fl sch L ns0 wp cs m).2.map encProj = readItems ns0.get cs
  | [], _, _, L, wp, m, base, ns0, rev0, seen, _, hr, _, _ => by
    simp only [encVisitListG, readItems, List.map_nil, List.reverse_nil, List.nil_append]
    exact ⟨hr, (fun _ h => by cases h), trivial⟩
  | c :: cs, hd, hn, L, wp, m, base, ns0, rev0, seen, hb, hr, hs, hR => by
    simp only [ItemDistinctList] at hd
    simp only [List.map_cons, List.nodup_cons] at hn
    simp only [ReadableGList] at hR
    rw [encVisitListG_cons_eq, f10Rename_off hf]
    have hkey : readElem (Scope.bind ns0.get (Item.xmlns c)) (Item.key c) ≠ none := by
      cases c with
      | node id key isMap xmlns attrs ch =>
        have := hR.1
        simp only [ReadableG] at this
        exact this.2.1
    have htag : ∃ q, readElem (Scope.bind ns0.get (Item.xmlns c)) (Item.key c) = some q ∧
        unmapQName ns0 (Item.xmlns c) false (Item.key c) = .name q := by
      cases hq : readElem (Scope.bind ns0.get (Item.xmlns c)) (Item.key c) with
      | none => exact absurd hq hkey
      | some q => exact ⟨q, rfl, child_tagG hq⟩
    obtain ⟨hA1, hD1, hN1⟩ := encVisitG_spec v fl sch hf c hd.1 L
      (unmapQName ns0 (Item.xmlns c) false (Item.key c)) m base ns0 rev0 seen hb hr
      (hs c List.mem_cons_self) hR.1 htag
    have hs' : ∀ c' ∈ cs, Item.id c' ∉ Item.id c :: seen := by
      intro c' hc' hm
      rcases List.mem_cons.mp hm with e | e
      · exact hn.1 (e ▸ List.mem_map.mpr ⟨c', hc', rfl⟩)
      · exact hs c' (List.mem_cons_of_mem _ hc') e
    obtain ⟨hA2, hD2, hN2⟩ := encVisitListG_spec v fl sch hf cs hd.2 hn.2 L wp
      (encVisitG v .stacked fl sch L (unmapQName ns0 (Item.xmlns c) false (Item.key c)) c m).1 base ns0 rev0
      (Item.id c :: seen) hb hA1 hs' hR.2
    refine ⟨?_, ?_, ?_⟩
    · simpa only [List.map_cons, List.reverse_cons, List.append_assoc, List.singleton_append] using hA2
    · intro e he
      rcases List.mem_append.mp he with h | h
      · exact hD1 e h
      · exact hD2 e h
    · simp only [List.map_append, readItems, hN1, hN2]
end

/-! ### whole data trees -/

theorem encodeDocG_spec (v : Variant) (fl : EncFlags) (sch : EncSchema) (item : Item) (e0 : Mapper)
    (hf : fl.f10 = false) (h0 : e0.stack = []) (hd : ItemDistinct item)
    (hr : ReadableG fl.f9 sch e0.ns.get item) :
    (∀ e ∈ (encodeDocG v .stacked fl sch item e0).2, e.dropped = false) ∧
    (encodeDocG v .stacked fl sch item e0).2.map encProj = readItem e0.ns.get item := by
  have hA : At 0 [] e0.ns e0.rev [] e0 := by
    have := At_init 0 e0; rw [h0] at this; exact this
  have hb : Below 0 ([] : List Ctx) := fun _ h => by cases h
  cases item with
  | node id key isMap xmlns attrs ch =>
    have hR := hr
    simp only [ReadableG] at hR
    have hns : (if isMap = true then (setContext v .stacked e0 id 0 xmlns).m.ns else e0.ns) =
        Map.update e0.ns xmlns := by
      cases isMap with
      | true =>
        simp only [if_true]
        rw [enc_enter v id xmlns hb hA (by simp), entered_ns]
      | false =>
        obtain ⟨h1, _, _⟩ := hR.1 rfl
        subst h1; rfl
    have hkey : readElem (Scope.bind e0.ns.get xmlns) key ≠ none := hR.2.1
    have htag : ∃ q, readElem (Scope.bind e0.ns.get xmlns) key = some q ∧
        unmapQName (Map.update e0.ns xmlns) [] false key = .name q := by
      cases hq : readElem (Scope.bind e0.ns.get xmlns) key with
      | none => exact absurd hq hkey
      | some q =>
        refine ⟨q, rfl, ?_⟩
        have := child_tagG hq
        rw [unmap_override] at this; exact this
    simp only [encodeDocG]
    rw [hns]
    exact (encVisitG_spec v fl sch hf (.node id key isMap xmlns attrs ch) hd 0 _ e0 [] e0.ns e0.rev [] hb hA
      (by simp) hr htag).2

/-- nothing is refused when F10 is off -/
theorem encodeG_none_dropped (v : Variant) (fl : EncFlags) (sch : EncSchema) (item : Item) (e0 : Mapper)
    (hf : fl.f10 = false) (h0 : e0.stack = []) (hd : ItemDistinct item)
    (hr : ReadableG fl.f9 sch e0.ns.get item) :
    ∀ e ∈ (encodeDocG v .stacked fl sch item e0).2, e.dropped = false :=
  (encodeDocG_spec v fl sch item e0 hf h0 hd hr).1

/-- **With the F10 mechanism off the encoders restore exactly the names the data denotes** — whatever the schema
    oracle, with or without the own-tag check of JsonML (it never fires), and with the F9 mechanism on under the
    attribute guard of `ReadableG true`. -/
theorem encodeG_reads (v : Variant) (fl : EncFlags) (sch : EncSchema) (item : Item) (e0 : Mapper)
    (hf : fl.f10 = false) (h0 : e0.stack = []) (hd : ItemDistinct item)
    (hr : ReadableG fl.f9 sch e0.ns.get item) :
    encProjG (encodeDocG v .stacked fl sch item e0).2 = readItem e0.ns.get item := by
  have h := encodeDocG_spec v fl sch item e0 hf h0 hd hr
  rw [encProjG_of_none_dropped _ h.1]
  exact h.2

end XsVerif.Props.C17
