/-
  Helper lemmas for C08 (identity constraints).  Plain Lean core.
-/
import XsVerif.Model.Identity

namespace XsVerif.Identity

/-! ### ID / IDREF -/

def idsOf (evs : List IdEv) : List String := evs.filterMap fun | .id v => some v | _ => none
def refsOf (evs : List IdEv) : List String := evs.filterMap fun | .idref v => some v | _ => none

@[simp] theorem idsOf_nil : idsOf [] = [] := rfl
@[simp] theorem refsOf_nil : refsOf [] = [] := rfl
@[simp] theorem idsOf_cons_id (v r) : idsOf (.id v :: r) = v :: idsOf r := rfl
@[simp] theorem idsOf_cons_idref (v r) : idsOf (.idref v :: r) = idsOf r := rfl
@[simp] theorem refsOf_cons_id (v r) : refsOf (.id v :: r) = refsOf r := rfl
@[simp] theorem refsOf_cons_idref (v r) : refsOf (.idref v :: r) = v :: refsOf r := rfl

theorem idStep_id_mem {st : IdSt} {v : String} (h : v ∈ st.defd) :
    idStep st (.id v) = { st with errs := .dup v :: st.errs } := by
  simp [idStep, h]
theorem idStep_id_not_mem {st : IdSt} {v : String} (h : v ∉ st.defd) :
    idStep st (.id v) = { st with defd := v :: st.defd } := by
  simp [idStep, h]
theorem idStep_idref_known {st : IdSt} {v : String} (h : v ∈ st.defd ∨ v ∈ st.refd) :
    idStep st (.idref v) = st := by
  simp only [idStep]; rw [if_pos]; simpa using h
theorem idStep_idref_new {st : IdSt} {v : String} (h : ¬ (v ∈ st.defd ∨ v ∈ st.refd)) :
    idStep st (.idref v) = { st with refd := v :: st.refd } := by
  simp only [idStep]; rw [if_neg]; simpa using h

theorem idFold_errs (evs : List IdEv) (st : IdSt) :
    (evs.foldl idStep st).errs = [] ↔
      st.errs = [] ∧ (idsOf evs).Nodup ∧ ∀ x ∈ idsOf evs, x ∉ st.defd := by
  induction evs generalizing st with
  | nil => simp
  | cons e r ih =>
    rw [List.foldl_cons, ih]
    cases e with
    | id v =>
      by_cases h : v ∈ st.defd
      · rw [idStep_id_mem h]; simp; grind
      · rw [idStep_id_not_mem h]; simp; grind
    | idref v =>
      by_cases h : v ∈ st.defd ∨ v ∈ st.refd
      · rw [idStep_idref_known h]; simp
      · rw [idStep_idref_new h]; simp

theorem idFold_refs (evs : List IdEv) (st : IdSt) :
    (∀ v ∈ (evs.foldl idStep st).refd, v ∈ (evs.foldl idStep st).defd) ↔
      ∀ v, (v ∈ st.refd ∨ v ∈ refsOf evs) → (v ∈ st.defd ∨ v ∈ idsOf evs) := by
  induction evs generalizing st with
  | nil => simp
  | cons e r ih =>
    rw [List.foldl_cons, ih]
    cases e with
    | id v =>
      by_cases h : v ∈ st.defd
      · rw [idStep_id_mem h]; simp; grind
      · rw [idStep_id_not_mem h]; simp; grind
    | idref v =>
      by_cases h : v ∈ st.defd ∨ v ∈ st.refd
      · rw [idStep_idref_known h]; simp; grind
      · rw [idStep_idref_new h]; simp; grind

/-! ### ID occurrences with binders (XSD 1.1 `id_list`) -/

def bindsOf (evs : List BEv) : List (String × Nat) :=
  evs.filterMap fun | .id v b => some (v, b) | _ => none
def brefsOf (evs : List BEv) : List String := evs.filterMap fun | .idref v => some v | _ => none

/-- every ID value is bound to one element -/
def Consistent (bs : List (String × Nat)) : Prop := ∀ v b1 b2, (v, b1) ∈ bs → (v, b2) ∈ bs → b1 = b2

theorem Consistent.congr {l1 l2 : List (String × Nat)} (h : ∀ x, x ∈ l1 ↔ x ∈ l2) :
    Consistent l1 ↔ Consistent l2 := by
  unfold Consistent
  constructor
  · intro c v b1 b2 h1 h2; exact c v b1 b2 ((h _).mpr h1) ((h _).mpr h2)
  · intro c v b1 b2 h1 h2; exact c v b1 b2 ((h _).mp h1) ((h _).mp h2)

theorem lookB_some {v : String} {seen : List (String × Nat)} {b : Nat} (h : lookB v seen = some b) :
    (v, b) ∈ seen := by
  induction seen with
  | nil => simp [lookB] at h
  | cons p r ih =>
    obtain ⟨w, c⟩ := p
    simp only [lookB] at h
    split at h
    · next e => cases h; subst e; exact List.mem_cons_self
    · exact List.mem_cons_of_mem _ (ih h)

theorem lookB_none {v : String} {seen : List (String × Nat)} (h : lookB v seen = none) (b : Nat) :
    (v, b) ∉ seen := by
  induction seen with
  | nil => simp
  | cons p r ih =>
    obtain ⟨w, c⟩ := p
    simp only [lookB] at h
    split at h
    · cases h
    · next e =>
      intro hm
      rcases List.mem_cons.mp hm with hm | hm
      · cases hm; exact e rfl
      · exact ih h hm

theorem lookB_cons (x v : String) (b : Nat) (seen : List (String × Nat)) :
    lookB x ((v, b) :: seen) = none ↔ x ≠ v ∧ lookB x seen = none := by
  simp only [lookB]
  by_cases e : v = x
  · simp [e]
  · have e' : ¬ x = v := fun h => e h.symm
    simp [e, e']

theorem collapse_ids (evs : List BEv) (seen : List (String × Nat)) (hs : Consistent seen) :
    ((idsOf (collapseAux seen evs)).Nodup ∧ ∀ x ∈ idsOf (collapseAux seen evs), lookB x seen = none) ↔
      Consistent (seen ++ bindsOf evs) := by
  induction evs generalizing seen with
  | nil => simp [collapseAux, bindsOf, hs]
  | cons e r ih =>
    cases e with
    | idref v =>
      have : bindsOf (.idref v :: r) = bindsOf r := rfl
      simp only [collapseAux, idsOf_cons_idref, this]
      exact ih seen hs
    | id v b =>
      have hb : bindsOf (.id v b :: r) = (v, b) :: bindsOf r := rfl
      rw [hb]
      simp only [collapseAux]
      cases hl : lookB v seen with
      | some b0 =>
        have hm := lookB_some hl
        simp only
        by_cases e : b0 = b
        · subst e
          rw [if_pos rfl, ih seen hs]
          apply Consistent.congr
          intro x
          simp only [List.mem_append, List.mem_cons]
          constructor
          · rintro (h | h); exact Or.inl h; exact Or.inr (Or.inr h)
          · rintro (h | h | h); exact Or.inl h; exact Or.inl (h ▸ hm); exact Or.inr h
        · rw [if_neg e]
          constructor
          · intro ⟨_, h⟩
            have := h v (by simp)
            rw [hl] at this; cases this
          · intro c
            exact absurd (c v b0 b (by simp [hm]) (by simp)) e
      | none =>
        have hs' : Consistent ((v, b) :: seen) := by
          intro w b1 b2 h1 h2
          rcases List.mem_cons.mp h1 with h1 | h1 <;> rcases List.mem_cons.mp h2 with h2 | h2
          · cases h1; cases h2; rfl
          · cases h1; exact absurd h2 (lookB_none hl _)
          · cases h2; exact absurd h1 (lookB_none hl _)
          · exact hs w b1 b2 h1 h2
        have i := ih ((v, b) :: seen) hs'
        simp only [idsOf_cons_id, List.nodup_cons, List.mem_cons, forall_eq_or_imp, hl, true_and]
        have hc : Consistent (seen ++ (v, b) :: bindsOf r) ↔ Consistent (((v, b) :: seen) ++ bindsOf r) := by
          apply Consistent.congr
          intro x
          simp only [List.mem_append, List.mem_cons, List.cons_append]
          constructor
          · rintro (h | h | h); exact Or.inr (Or.inl h); exact Or.inl h; exact Or.inr (Or.inr h)
          · rintro (h | h | h); exact Or.inr (Or.inl h); exact Or.inl h; exact Or.inr (Or.inr h)
        rw [hc, ← i]
        simp only [lookB_cons]
        constructor
        · intro ⟨⟨h1, h2⟩, h3⟩
          exact ⟨h2, fun x hx => ⟨fun e => h1 (e ▸ hx), h3 x hx⟩⟩
        · intro ⟨h2, h3⟩
          exact ⟨⟨fun hx => (h3 v hx).1 rfl, h2⟩, fun x hx => (h3 x hx).2⟩

theorem collapse_refs (evs : List BEv) (seen : List (String × Nat)) :
    refsOf (collapseAux seen evs) = brefsOf evs := by
  induction evs generalizing seen with
  | nil => rfl
  | cons e r ih =>
    cases e with
    | idref v =>
      have : brefsOf (.idref v :: r) = v :: brefsOf r := rfl
      simp [collapseAux, this, ih]
    | id v b =>
      have : brefsOf (.id v b :: r) = brefsOf r := rfl
      simp only [collapseAux, this]
      cases lookB v seen with
      | some b0 => simp only; split <;> simp [ih]
      | none => simp [ih]

theorem collapse_mem (evs : List BEv) (seen : List (String × Nat)) (x : String) :
    (x ∈ idsOf (collapseAux seen evs) ∨ (lookB x seen).isSome = true) ↔
      ((∃ b, (x, b) ∈ bindsOf evs) ∨ (lookB x seen).isSome = true) := by
  induction evs generalizing seen with
  | nil => simp [collapseAux, bindsOf]
  | cons e r ih =>
    cases e with
    | idref v =>
      have : bindsOf (.idref v :: r) = bindsOf r := rfl
      simp only [collapseAux, idsOf_cons_idref, this]
      exact ih seen
    | id v b =>
      have hb : bindsOf (.id v b :: r) = (v, b) :: bindsOf r := rfl
      rw [hb]
      simp only [collapseAux]
      cases hl : lookB v seen with
      | some b0 =>
        simp only
        have hv : x = v → (lookB x seen).isSome = true := fun e => by rw [e, hl]; rfl
        split
        · rw [ih seen]
          simp only [List.mem_cons, Prod.mk.injEq]
          constructor
          · rintro (⟨b', h⟩ | h); exact Or.inl ⟨b', Or.inr h⟩; exact Or.inr h
          · rintro (⟨b', h | h⟩ | h); exact Or.inr (hv h.1); exact Or.inl ⟨b', h⟩; exact Or.inr h
        · simp only [idsOf_cons_id, List.mem_cons, Prod.mk.injEq]
          have := ih seen
          constructor
          · rintro ((h | h) | h)
            · exact Or.inr (hv h)
            · rcases this.mp (Or.inl h) with ⟨b', h'⟩ | h'
              · exact Or.inl ⟨b', Or.inr h'⟩
              · exact Or.inr h'
            · exact Or.inr h
          · rintro (⟨b', h | h⟩ | h)
            · exact Or.inr (hv h.1)
            · rcases this.mpr (Or.inl ⟨b', h⟩) with h' | h'
              · exact Or.inl (Or.inr h')
              · exact Or.inr h'
            · exact Or.inr h
      | none =>
        have i := ih ((v, b) :: seen)
        simp only [idsOf_cons_id, List.mem_cons, Prod.mk.injEq]
        have hx : (lookB x ((v, b) :: seen)).isSome = true ↔ (x = v ∨ (lookB x seen).isSome = true) := by
          simp only [lookB]
          by_cases e : v = x
          · simp [e]
          · simp [e]; intro h; exact absurd h.symm e
        rw [hx] at i
        constructor
        · rintro ((h | h) | h)
          · exact Or.inl ⟨b, Or.inl ⟨h, rfl⟩⟩
          · rcases i.mp (Or.inl h) with ⟨b', h'⟩ | h' | h'
            · exact Or.inl ⟨b', Or.inr h'⟩
            · exact Or.inl ⟨b, Or.inl ⟨h', rfl⟩⟩
            · exact Or.inr h'
          · exact Or.inr h
        · rintro (⟨b', h | h⟩ | h)
          · exact Or.inl (Or.inl h.1)
          · rcases i.mpr (Or.inl ⟨b', h⟩) with h' | h' | h'
            · exact Or.inl (Or.inr h')
            · exact Or.inl (Or.inl h')
            · exact Or.inr h'
          · exact Or.inr h

/-! ### field tuples and counters -/

def wrap (t : List Val) : Tuple := t.map some

theorem wrap_inj {a b : List Val} : wrap a = wrap b ↔ a = b := by
  unfold wrap
  constructor
  · intro h
    induction a generalizing b with
    | nil => cases b <;> simp_all
    | cons x a ih =>
      cases b with
      | nil => simp at h
      | cons y b =>
        simp only [List.map_cons, List.cons.injEq, Option.some.injEq] at h
        rw [h.1, ih h.2]
  · intro h; rw [h]

def toOpt : FRes Val → Option Val
  | .val v => some v
  | _ => none

theorem complete_some_map {r : List (FRes Val)} {t : List Val} (h : complete? r = some t) :
    r.map toOpt = wrap t := by
  induction r generalizing t with
  | nil => simp [complete?] at h; subst h; rfl
  | cons a r ih =>
    cases a with
    | absent => simp [complete?] at h
    | multi => simp [complete?] at h
    | val v =>
      simp only [complete?, Option.map_eq_some_iff] at h
      obtain ⟨t', ht', rfl⟩ := h
      have := ih ht'
      simp [toOpt, wrap] at this ⊢
      exact this

theorem complete_some_no_multi {r : List (FRes Val)} {t : List Val} (h : complete? r = some t) :
    FRes.multi ∉ r := by
  induction r generalizing t with
  | nil => simp
  | cons a r ih =>
    cases a with
    | absent => simp [complete?] at h
    | multi => simp [complete?] at h
    | val v =>
      simp only [complete?, Option.map_eq_some_iff] at h
      obtain ⟨t', ht', rfl⟩ := h
      simp [ih ht']

theorem tupleOf_complete (kind : Kind) {r : List (FRes Val)} {t : List Val} (i : Nat)
    (h : complete? r = some t) : tupleOf kind r i = .ok (wrap t) := by
  induction r generalizing t i with
  | nil => simp [complete?] at h; subst h; rfl
  | cons a r ih =>
    cases a with
    | absent => simp [complete?] at h
    | multi => simp [complete?] at h
    | val v =>
      simp only [complete?, Option.map_eq_some_iff] at h
      obtain ⟨t', ht', rfl⟩ := h
      simp [tupleOf, ih (i + 1) ht', wrap, Except.map]

theorem tupleOf_key_incomplete {r : List (FRes Val)} (i : Nat) (h : complete? r = none) :
    ∃ e, tupleOf .key r i = .error e := by
  induction r generalizing i with
  | nil => simp [complete?] at h
  | cons a r ih =>
    cases a with
    | absent => exact ⟨(false, i), by simp [tupleOf]⟩
    | multi => exact ⟨(true, i), by simp [tupleOf]⟩
    | val v =>
      simp only [complete?, Option.map_eq_none_iff] at h
      obtain ⟨e, he⟩ := ih (i + 1) h
      exact ⟨e, by simp [tupleOf, he, Except.map]⟩

theorem tupleOf_nokey_ok {kind : Kind} (hk : kind ≠ .key) {r : List (FRes Val)} (i : Nat)
    (h : FRes.multi ∉ r) : tupleOf kind r i = .ok (r.map toOpt) := by
  induction r generalizing i with
  | nil => rfl
  | cons a r ih =>
    have h' : FRes.multi ∉ r := fun hm => h (List.mem_cons_of_mem _ hm)
    cases a with
    | absent => simp [tupleOf, hk, ih (i + 1) h', Except.map, toOpt]
    | multi => simp at h
    | val v => simp [tupleOf, ih (i + 1) h', Except.map, toOpt]

theorem tupleOf_multi_err {kind : Kind} (hk : kind ≠ .key) {r : List (FRes Val)} (i : Nat)
    (h : FRes.multi ∈ r) : ∃ j, tupleOf kind r i = .error (true, j) := by
  induction r generalizing i with
  | nil => simp at h
  | cons a r ih =>
    cases a with
    | multi => exact ⟨i, by simp [tupleOf]⟩
    | absent =>
      have h' : FRes.multi ∈ r := by simpa using h
      obtain ⟨j, hj⟩ := ih (i + 1) h'
      exact ⟨j, by simp [tupleOf, hk, hj, Except.map]⟩
    | val v =>
      have h' : FRes.multi ∈ r := by simpa using h
      obtain ⟨j, hj⟩ := ih (i + 1) h'
      exact ⟨j, by simp [tupleOf, hj, Except.map]⟩

theorem count_one_iff {l : List Tuple} {x : Tuple} (h : l.Nodup) : l.count x = 1 ↔ x ∈ l := by
  have h1 := List.nodup_iff_count.mp h x
  have h2 := @List.count_pos_iff _ _ _ x l
  constructor
  · intro h; apply h2.mp; omega
  · intro h; have := h2.mpr h; omega

theorem complete_ne_nil {r : List (FRes Val)} {t : List Val} (h : complete? r = some t)
    (hr : r ≠ []) : t ≠ [] := by
  cases r with
  | nil => exact absurd rfl hr
  | cons a r =>
    cases a with
    | absent => simp [complete?] at h
    | multi => simp [complete?] at h
    | val v =>
      simp only [complete?, Option.map_eq_some_iff] at h
      obtain ⟨t', _, rfl⟩ := h
      simp

theorem wrap_any_some {t : List Val} (h : t ≠ []) : (wrap t).any Option.isSome = true := by
  cases t with
  | nil => exact absurd rfl h
  | cons a t => simp [wrap]

theorem wrap_any_none (t : List Val) : (wrap t).any Option.isNone = false := by
  induction t with
  | nil => rfl
  | cons a t ih => simp [wrap] at ih ⊢

/-- a complete row offered to a unique / key counter -/
theorem offer_complete {kind : Kind} (hk : kind ≠ .keyref) (table : List Tuple)
    {r : List (FRes Val)} {t : List Val} (h : complete? r = some t) (hr : r ≠ []) :
    offer kind table r =
      (wrap t :: table, if table.count (wrap t) = 1 then some .dup else none) := by
  simp [offer, tupleOf_complete kind 0 h, hk, wrap_any_some (complete_ne_nil h hr), wrap_any_none]

theorem offer_keyref_complete (table : List Tuple) {r : List (FRes Val)} {t : List Val}
    (h : complete? r = some t) : offer .keyref table r = (wrap t :: table, none) := by
  simp [offer, tupleOf_complete .keyref 0 h, wrap_any_none]

theorem offer_key_incomplete (table : List Tuple) {r : List (FRes Val)}
    (h : complete? r = none) : ∃ e, offer .key table r = (table, some e) := by
  obtain ⟨⟨b, i⟩, he⟩ := tupleOf_key_incomplete 0 h
  cases b
  · exact ⟨.missing i, by simp [offer, he]⟩
  · exact ⟨.multi i, by simp [offer, he]⟩

theorem offer_multi {kind : Kind} (hk : kind ≠ .key) (table : List Tuple) {r : List (FRes Val)}
    (h : FRes.multi ∈ r) : ∃ e, offer kind table r = (table, some e) := by
  obtain ⟨j, hj⟩ := tupleOf_multi_err hk 0 h
  exact ⟨.multi j, by simp [offer, hj]⟩

theorem complete_none_of_multi {r : List (FRes Val)} (h : FRes.multi ∈ r) : complete? r = none := by
  cases hc : complete? r with
  | none => rfl
  | some t => exact absurd h (complete_some_no_multi hc)

theorem map_toOpt_any_none {r : List (FRes Val)} (hm : FRes.multi ∉ r) (hc : complete? r = none) :
    (r.map toOpt).any Option.isNone = true := by
  induction r with
  | nil => simp [complete?] at hc
  | cons a r ih =>
    cases a with
    | absent => simp [toOpt]
    | multi => simp at hm
    | val v =>
      have hm' : FRes.multi ∉ r := fun h => hm (List.mem_cons_of_mem _ h)
      simp only [complete?, Option.map_eq_none_iff] at hc
      have := ih hm' hc
      simp [toOpt] at this ⊢
      exact this

/-- an incomplete row (no multi) leaves a keyref counter unchanged -/
theorem offer_keyref_incomplete (table : List Tuple) {r : List (FRes Val)}
    (hm : FRes.multi ∉ r) (hc : complete? r = none) : offer .keyref table r = (table, none) := by
  simp [offer, tupleOf_nokey_ok (kind := .keyref) (by decide) 0 hm, map_toOpt_any_none hm hc]

theorem allAbsent_any_some {r : List (FRes Val)} (h : ∀ x ∈ r, x = FRes.absent) :
    (r.map toOpt).any Option.isSome = false := by
  induction r with
  | nil => rfl
  | cons a r ih =>
    have ha := h a (List.mem_cons_self ..)
    subst ha
    have := ih (fun x hx => h x (List.mem_cons_of_mem _ hx))
    simp [toOpt] at this ⊢
    exact this

/-- a row without any field leaves a unique counter unchanged (elements.py:942) -/
theorem offer_unique_allAbsent (table : List Tuple) {r : List (FRes Val)}
    (h : ∀ x ∈ r, x = FRes.absent) : offer .unique table r = (table, none) := by
  have hm : FRes.multi ∉ r := fun hm => by have := h _ hm; cases this
  simp [offer, tupleOf_nokey_ok (kind := .unique) (by decide) 0 hm, allAbsent_any_some h]

/-- a row lacking a field (all of them, or only some: elements.py:939-942) leaves a unique counter
    unchanged and raises nothing -/
theorem offer_unique_incomplete (table : List Tuple) {r : List (FRes Val)}
    (hm : FRes.multi ∉ r) (hc : complete? r = none) : offer .unique table r = (table, none) := by
  have h1 := tupleOf_nokey_ok (kind := .unique) (by decide) 0 hm
  have h2 := map_toOpt_any_none hm hc
  by_cases h3 : (r.map toOpt).any Option.isSome = true
  · simp only [offer, h1, h2, h3]; simp
  · have h3' : (r.map toOpt).any Option.isSome = false := by simpa using h3
    simp only [offer, h1, h2, h3']; simp

/-! ### decimal normalisation -/


theorem pow_cancel (a b : Int) (k : Nat) (h : a * 10 ^ k = b * 10 ^ k) : a = b := by
  have : (10 : Int) ^ k ≠ 0 := by
    apply Int.pow_ne_zero; decide
  exact Int.eq_of_mul_eq_mul_right this h

theorem normDec_spec (s : Nat) (m : Int) :
    ∃ m' s', normDec s m = .num m' s' ∧ m * 10 ^ s' = m' * 10 ^ s ∧ (s' = 0 ∨ m' % 10 ≠ 0) := by
  induction s generalizing m with
  | zero => exact ⟨m, 0, rfl, rfl, Or.inl rfl⟩
  | succ s ih =>
    unfold normDec
    by_cases h : m % 10 = 0
    · rw [if_pos h]
      obtain ⟨m', s', h1, h2, h3⟩ := ih (m / 10)
      refine ⟨m', s', h1, ?_, h3⟩
      have hm : m = m / 10 * 10 := by omega
      rw [Int.pow_succ, ← Int.mul_assoc, ← h2]
      rw [Int.mul_right_comm]
      rw [← hm]
    · rw [if_neg h]
      exact ⟨m, s + 1, rfl, rfl, Or.inr h⟩

theorem normal_unique_lt (m1 m2 : Int) (s1 d : Nat)
    (h : m1 * 10 ^ (s1 + (d + 1)) = m2 * 10 ^ s1) : m2 % 10 = 0 := by
  have : m1 * 10 ^ (d + 1) * 10 ^ s1 = m2 * 10 ^ s1 := by
    rw [← h, Int.mul_assoc, ← Int.pow_add, Nat.add_comm]
  have h2 := pow_cancel _ _ _ this
  rw [← h2, Int.pow_succ, ← Int.mul_assoc]
  exact Int.mul_emod_left _ _

theorem normal_unique (m1 m2 : Int) (s1 s2 : Nat) (n1 : s1 = 0 ∨ m1 % 10 ≠ 0)
    (n2 : s2 = 0 ∨ m2 % 10 ≠ 0) (h : m1 * 10 ^ s2 = m2 * 10 ^ s1) : m1 = m2 ∧ s1 = s2 := by
  rcases Nat.lt_trichotomy s1 s2 with hlt | heq | hgt
  · obtain ⟨d, rfl⟩ : ∃ d, s2 = s1 + (d + 1) := ⟨s2 - s1 - 1, by omega⟩
    have := normal_unique_lt m1 m2 s1 d h
    rcases n2 with h0 | h0
    · omega
    · exact absurd this h0
  · subst heq
    exact ⟨pow_cancel _ _ _ h, rfl⟩
  · obtain ⟨d, rfl⟩ : ∃ d, s1 = s2 + (d + 1) := ⟨s1 - s2 - 1, by omega⟩
    have := normal_unique_lt m2 m1 s2 d h.symm
    rcases n1 with h0 | h0
    · omega
    · exact absurd this h0


/-! ### shapes of parsed values -/

def shape : Ty → Val → Prop
  | .integer, .num _ _ => True
  | .decimal, .num _ _ => True
  | .boolean, .bool _ => True
  | .string, .str _ => True
  | .qname, .str _ => True
  | _, _ => False

theorem normDec_isNum (s : Nat) (m : Int) : ∃ m' s', normDec s m = .num m' s' := by
  obtain ⟨m', s', h, _⟩ := normDec_spec s m
  exact ⟨m', s', h⟩

theorem shape_normDec (s : Nat) (m : Int) : shape .decimal (normDec s m) := by
  obtain ⟨m', s', h⟩ := normDec_isNum s m
  rw [h]; trivial

theorem valOf_shape (ns : NsMap) (t : Ty) (lex : String) (v : Val) (h : valOf ns t lex = some v) :
    shape t v := by
  cases t <;> simp only [valOf, parseInteger, parseDecimal, parseBoolean, parseQName] at h <;>
    (repeat' split at h) <;>
    first
      | (cases h; done)
      | (cases h; trivial)
      | (cases h; exact shape_normDec _ _)

/-! ### stack discipline of the namespace contexts (Model §2b) -/

/-- state right after `set_xmlns_context(i, L)` for an element met for the first time, the map in
    scope of its parent being `m` and the contexts of its ancestors `S` -/
def entered (m : NsMap) (S : List NsCtx) (i L : Nat) (xm : NsMap) : NsSt :=
  if xm.isEmpty then ⟨m, S⟩ else ⟨nsUpdate m xm, ⟨i, L, m⟩ :: S⟩

theorem entered_cur (m : NsMap) (S : List NsCtx) (i L : Nat) (xm : NsMap) :
    (entered m S i L xm).cur = nsUpdate m xm := by
  unfold entered
  cases xm with
  | nil => simp [nsUpdate]
  | cons a r => simp

theorem popCtx_below {obj L : Nat} {T : List NsCtx} (h : ∀ x ∈ T, x.level < L) (r : Option NsMap) :
    popCtx obj L T r = (T, r, false) := by
  cases T with
  | nil => rfl
  | cons c cs =>
    have : L > c.level := h c List.mem_cons_self
    simp [popCtx, this]

/-- the state between two children of an element at level `L` whose in-scope map is `c` and whose
    stack (own context included) is `T`: untouched, or with the context of an already visited
    child on top (which saved `c`) -/
def Residue (L : Nat) (c : NsMap) (T : List NsCtx) (seen : List Nat) (st : NsSt) : Prop :=
  (st.cur = c ∧ st.stack = T) ∨ (∃ j, j ∈ seen ∧ st.stack = ⟨j, L + 1, c⟩ :: T)

theorem setCtx_child {L : Nat} {c : NsMap} {T : List NsCtx} {seen : List Nat} {st : NsSt}
    (hT : ∀ x ∈ T, x.level < L + 1) (hr : Residue L c T seen st) (i : Nat) (hi : i ∉ seen)
    (xm : NsMap) : setCtx i (L + 1) xm st = entered c T i (L + 1) xm := by
  rcases hr with ⟨h1, h2⟩ | ⟨j, hj, h2⟩
  · unfold setCtx entered
    rw [h2, popCtx_below hT]
    simp [h1]
  · have hne : ¬ j = i := fun h => hi (h ▸ hj)
    unfold setCtx entered
    rw [h2]
    simp only [popCtx, Nat.lt_irrefl, gt_iff_lt, if_false, true_and, hne]
    rw [popCtx_below hT]
    simp

theorem setCtx_purge {L : Nat} {m : NsMap} {S : List NsCtx} {seen : List Nat} {st : NsSt}
    (i : Nat) (xm : NsMap) (hS : ∀ x ∈ S, x.level < L)
    (hr : Residue L (nsUpdate m xm) (entered m S i L xm).stack seen st) :
    setCtx i L xm st = entered m S i L xm := by
  have hnl : ¬ L > L + 1 := by omega
  have hne : ¬ L = L + 1 := by omega
  cases hx : xm.isEmpty with
  | true =>
    have hxe : xm = [] := List.isEmpty_iff.mp hx
    subst hxe
    simp only [entered, List.isEmpty_nil, if_true, nsUpdate, List.reverse_nil, List.nil_append] at hr ⊢
    rcases hr with ⟨h1, h2⟩ | ⟨j, _, h2⟩
    · unfold setCtx
      rw [h2, popCtx_below hS]
      simp [h1]
    · unfold setCtx
      rw [h2]
      simp only [popCtx, hnl, hne, if_false, false_and]
      rw [popCtx_below hS]
      simp
  | false =>
    simp only [entered, hx, Bool.false_eq_true, if_false] at hr ⊢
    rcases hr with ⟨h1, h2⟩ | ⟨j, _, h2⟩
    · unfold setCtx
      rw [h2]
      simp [popCtx, h1]
    · unfold setCtx
      rw [h2]
      simp [popCtx, hnl]

mutual
/-- walking an element returns the mapper to the state it was entered with, and every collect
    inside it reads the declarations in scope of its element -/
theorem nsWalk_spec : ∀ (n : Node) (L : Nat) (m : NsMap) (S : List NsCtx), n.sibOk = true →
    (∀ x ∈ S, x.level < L) →
    n.nsWalk L (entered m S n.id L n.xmlns) = (n.scopes m, entered m S n.id L n.xmlns)
  | .mk i d nm a t x ck xm kids, L, m, S, hs, hS => by
    simp only [Node.sibOk, Bool.and_eq_true, decide_eq_true_eq] at hs
    have hT : ∀ y ∈ (entered m S i L xm).stack, y.level < L + 1 := by
      intro y hy
      unfold entered at hy
      split at hy
      · exact Nat.lt_succ_of_lt (hS y hy)
      · rcases List.mem_cons.mp hy with rfl | hy
        · exact Nat.lt_succ_self _
        · exact Nat.lt_succ_of_lt (hS y hy)
    obtain ⟨e1, r1⟩ := nsWalkList_spec kids L (nsUpdate m xm) (entered m S i L xm).stack []
      (entered m S i L xm) hT (Or.inl ⟨entered_cur .., rfl⟩) hs.1 (by simp) hs.2
    simp only [Node.nsWalk, Node.id, Node.xmlns, Node.scopes]
    rw [e1]
    simp only [setCtx_purge i xm hS r1, entered_cur]
theorem nsWalkList_spec : ∀ (kids : List Node) (L : Nat) (c : NsMap) (T : List NsCtx)
    (seen : List Nat) (st : NsSt), (∀ x ∈ T, x.level < L + 1) → Residue L c T seen st →
    (kids.map Node.id).Nodup → (∀ k ∈ kids, k.id ∉ seen) → sibOkList kids = true →
    (nsWalkList (L + 1) kids st).1 = scopesList c kids ∧
      Residue L c T (seen ++ kids.map Node.id) (nsWalkList (L + 1) kids st).2
  | [], L, c, T, seen, st, _, hr, _, _, _ => by
    simpa [nsWalkList, scopesList] using hr
  | k :: ks, L, c, T, seen, st, hT, hr, hn, hd, hs => by
    simp only [sibOkList, Bool.and_eq_true] at hs
    simp only [List.map_cons, List.nodup_cons] at hn
    have hk : k.id ∉ seen := hd k List.mem_cons_self
    have e0 := setCtx_child hT hr k.id hk k.xmlns
    have e1 := nsWalk_spec k (L + 1) c T hs.1 hT
    have r1 : Residue L c T (seen ++ [k.id]) (entered c T k.id (L + 1) k.xmlns) := by
      unfold entered
      split
      · exact Or.inl ⟨rfl, rfl⟩
      · exact Or.inr ⟨k.id, by simp, rfl⟩
    obtain ⟨e2, r2⟩ := nsWalkList_spec ks L c T (seen ++ [k.id]) (entered c T k.id (L + 1) k.xmlns)
      hT r1 hn.2 (by
        intro k' hk' hmem
        rcases List.mem_append.mp hmem with h | h
        · exact hd k' (List.mem_cons_of_mem _ hk') h
        · simp only [List.mem_singleton] at h
          exact hn.1 (h ▸ List.mem_map_of_mem hk')) hs.2
    simp only [nsWalkList, e0, e1, scopesList]
    refine ⟨by rw [e2], ?_⟩
    simpa [List.append_assoc] using r2
end

/-- the root's first `set_xmlns_context(root, 0)` on an empty stack -/
theorem setCtx_root (ns0 : NsMap) (i : Nat) (xm : NsMap) :
    setCtx i 0 xm ⟨ns0, []⟩ = entered ns0 [] i 0 xm := by
  unfold setCtx entered
  simp [popCtx]

/-! ### the collect loop over the open constraints (elements.py:912-950) -/

theorem collectOne_ctrs (env : Env) (n : Nat) (st : St) (c c' : Nat) :
    (collectOne env n st c).ctrs c' =
      if c' = c then (collectRes env n c (st.ctrs c)).1 else st.ctrs c' := by
  unfold collectOne collectRes
  cases h : st.ctrs c with
  | none => by_cases hc : c' = c <;> simp [hc, h]
  | some k =>
    simp only
    split
    · by_cases hc : c' = c <;> simp [hc, h]
    · generalize offer (env.kind c) k.table (env.fields c n) = o
      obtain ⟨tb, e⟩ := o
      cases e with
      | none => by_cases hc : c' = c <;> simp [St.put, hc]
      | some e => cases e <;> by_cases hc : c' = c <;> simp [St.put, St.err, hc]

theorem collectOne_errs (env : Env) (n : Nat) (st : St) (c : Nat) :
    (collectOne env n st c).errs = (collectRes env n c (st.ctrs c)).2.toList ++ st.errs := by
  unfold collectOne collectRes
  cases h : st.ctrs c with
  | none => simp
  | some k =>
    simp only
    split
    · simp
    · generalize offer (env.kind c) k.table (env.fields c n) = o
      obtain ⟨tb, e⟩ := o
      cases e with
      | none => simp [St.put]
      | some e => cases e <;> simp [St.put, St.err, toErr]

theorem collectOne_order (env : Env) (n : Nat) (st : St) (c : Nat) :
    (collectOne env n st c).order = st.order := by
  unfold collectOne
  cases h : st.ctrs c with
  | none => rfl
  | some k =>
    simp only
    split
    · rfl
    · generalize offer (env.kind c) k.table (env.fields c n) = o
      obtain ⟨tb, e⟩ := o
      cases e with
      | none => simp [St.put, h]
      | some e => cases e <;> simp [St.put, St.err, h]

/-- the dict invariant: `order` lists exactly the constraints that have a counter, once each -/
structure OrderInv (st : St) : Prop where
  nodup : st.order.Nodup
  mem : ∀ c, c ∈ st.order ↔ (st.ctrs c).isSome = true

theorem OrderInv.init : OrderInv St.init := ⟨List.nodup_nil, by simp [St.init]⟩

theorem OrderInv.put {st : St} (h : OrderInv st) (c : Nat) (k : Ctr) : OrderInv (st.put c k) := by
  unfold St.put
  cases hc : (st.ctrs c).isSome with
  | true =>
    refine ⟨by simpa using h.nodup, fun c' => ?_⟩
    by_cases e : c' = c
    · subst e; simp [(h.mem c').mpr hc]
    · simp [e, h.mem c']
  | false =>
    have hn : c ∉ st.order := fun hm => by simp [(h.mem c).mp hm] at hc
    refine ⟨?_, fun c' => ?_⟩
    · simp only [Bool.false_eq_true, if_false]
      exact List.nodup_append.mpr ⟨h.nodup, by simp, by
        intro a ha b hb; simp at hb; subst hb; exact fun e => hn (e ▸ ha)⟩
    · by_cases e : c' = c
      · subst e; simp
      · simp [e, h.mem c']

theorem OrderInv.congr {st st' : St} (h : OrderInv st) (ho : st'.order = st.order)
    (hc : st'.ctrs = st.ctrs) : OrderInv st' :=
  ⟨ho ▸ h.nodup, fun c => by rw [ho, hc]; exact h.mem c⟩

theorem OrderInv.enterOne {st : St} (h : OrderInv st) (n c : Nat) : OrderInv (enterOne n st c) := by
  unfold _root_.XsVerif.Identity.enterOne
  have hp := h.put c ⟨n, true, []⟩
  cases st.ctrs c with
  | none => exact hp
  | some k =>
    simp only
    split
    · exact hp.congr rfl rfl
    · exact hp

theorem OrderInv.collectOne {st : St} (h : OrderInv st) (env : Env) (n c : Nat) :
    OrderInv (collectOne env n st c) := by
  refine ⟨by rw [collectOne_order]; exact h.nodup, fun c' => ?_⟩
  rw [collectOne_order, collectOne_ctrs, h.mem c']
  by_cases e : c' = c
  · subst e
    simp only [if_true]
    unfold collectRes
    cases st.ctrs c' with
    | none => simp
    | some k =>
      simp only
      split
      · simp
      · generalize offer (env.kind c') k.table (env.fields c' n) = o
        obtain ⟨tb, e⟩ := o
        simp
  · simp [e]

theorem OrderInv.ensureRefer {st : St} (h : OrderInv st) (n r : Nat) :
    OrderInv (ensureRefer n st r) := by
  unfold _root_.XsVerif.Identity.ensureRefer
  cases st.ctrs r with
  | none => exact h.put _ _
  | some _ => exact h

theorem OrderInv.leaveOne {st : St} (h : OrderInv st) (env : Env) (n c : Nat) :
    OrderInv (leaveOne env n st c) := by
  unfold _root_.XsVerif.Identity.leaveOne
  cases st.ctrs c with
  | none => exact h
  | some k =>
    simp only
    have hp := h.put c { k with enabled := false }
    split
    · cases env.refer c with
      | none => exact hp
      | some r => exact (hp.ensureRefer n r).congr rfl rfl
    · exact hp

theorem OrderInv.foldl {α : Type} {f : St → α → St} (hf : ∀ st a, OrderInv st → OrderInv (f st a))
    (l : List α) {st : St} (h : OrderInv st) : OrderInv (l.foldl f st) := by
  induction l generalizing st with
  | nil => exact h
  | cons a l ih => exact ih (hf st a h)

theorem OrderInv.step {st : St} (h : OrderInv st) (env : Env) (ev : Ev) : OrderInv (step env st ev) := by
  cases ev with
  | enter n cs => exact OrderInv.foldl (fun st c hs => hs.enterOne n c) cs h
  | collect n cs => exact OrderInv.foldl (fun st c hs => hs.collectOne env n c) cs h
  | collectOpen n => exact OrderInv.foldl (fun st c hs => hs.collectOne env n c) st.order h
  | leave n cs => exact OrderInv.foldl (fun st c hs => hs.leaveOne env n c) cs h

theorem filterMap_congr_mem {α β : Type} {f g : α → Option β} {l : List α}
    (h : ∀ a ∈ l, f a = g a) : l.filterMap f = l.filterMap g := by
  induction l with
  | nil => rfl
  | cons a l ih =>
    have h1 := h a List.mem_cons_self
    have h2 := ih fun b hb => h b (List.mem_cons_of_mem _ hb)
    simp only [List.filterMap_cons, h1, h2]

/-- the loop over ANY duplicate-free list of constraints: every item acts on its own counter as if
    it were alone, and the errors are the items' errors in the order of the list -/
theorem collect_fold_spec (env : Env) (n : Nat) (os : List Nat) (hn : os.Nodup) (st : St) :
    (∀ c, (os.foldl (collectOne env n) st).ctrs c =
        if c ∈ os then (collectRes env n c (st.ctrs c)).1 else st.ctrs c) ∧
    (os.foldl (collectOne env n) st).errs =
      (os.filterMap fun c => (collectRes env n c (st.ctrs c)).2).reverse ++ st.errs := by
  induction os generalizing st with
  | nil => simp
  | cons a os ih =>
    obtain ⟨ha, hn'⟩ := List.nodup_cons.mp hn
    obtain ⟨i1, i2⟩ := ih hn' (collectOne env n st a)
    have hrest : ∀ c ∈ os, (collectOne env n st a).ctrs c = st.ctrs c := by
      intro c hc
      have : c ≠ a := fun e => ha (e ▸ hc)
      rw [collectOne_ctrs]; simp [this]
    refine ⟨fun c => ?_, ?_⟩
    · rw [List.foldl_cons, i1 c]
      by_cases hc : c ∈ os
      · have : c ≠ a := fun e => ha (e ▸ hc)
        simp [hc, hrest c hc]
      · by_cases e : c = a
        · subst e; simp [hc, collectOne_ctrs]
        · simp [hc, e, collectOne_ctrs]
    · rw [List.foldl_cons, i2, collectOne_errs]
      have : (os.filterMap fun c => (collectRes env n c ((collectOne env n st a).ctrs c)).2) =
          os.filterMap fun c => (collectRes env n c (st.ctrs c)).2 := by
        apply filterMap_congr_mem
        intro c hc
        rw [hrest c hc]
      rw [this]
      cases h : (collectRes env n a (st.ctrs a)).2 <;> simp [h]

end XsVerif.Identity
