/-
  C01 (deepening): basic facts used by the exactness proofs of the ModelVisitor port on flat
  content models — counters (`Cnt`), arena look-ups (`mkArena`), the flat fragment of `Particle`.
  Nothing here is a property theorem; see Props/C01Exact.lean.
-/
import XsVerif.Model.Visitor

namespace XsVerif.CM
open XsVerif.Wildcard

/-! ### counters -/

theorem getD_setIfInBounds (a : Array Nat) (i j v : Nat) :
    (a.setIfInBounds i v).getD j 0 = if i = j ∧ i < a.size then v else a.getD j 0 := by
  simp only [Array.getD_eq_getD_getElem?, Array.getElem?_setIfInBounds]
  by_cases h : i = j
  · subst h
    by_cases h2 : i < a.size <;> simp [h2]
  · simp [h]

/-- both counter arrays have `n` slots -/
def Cnt.Sized (c : Cnt) (n : Nat) : Prop := c.occ.size = n ∧ c.oid.size = n

theorem Cnt.sized_zero (n : Nat) : (Cnt.zero n).Sized n := by simp [Cnt.zero, Cnt.Sized]
theorem Cnt.sized_set {c : Cnt} {n : Nat} (h : c.Sized n) (i v : Nat) : (c.set i v).Sized n := by
  simpa [Cnt.set, Cnt.Sized] using h
theorem Cnt.sized_setOid {c : Cnt} {n : Nat} (h : c.Sized n) (i v : Nat) : (c.setOid i v).Sized n := by
  simpa [Cnt.setOid, Cnt.Sized] using h

theorem Cnt.get_zero (n i : Nat) : (Cnt.zero n).get i = 0 := by
  simp only [Cnt.zero, Cnt.get, Array.getD_eq_getD_getElem?, Array.getElem?_replicate]
  split <;> rfl
theorem Cnt.getOid_zero (n i : Nat) : (Cnt.zero n).getOid i = 0 := by
  simp only [Cnt.zero, Cnt.getOid, Array.getD_eq_getD_getElem?, Array.getElem?_replicate]
  split <;> rfl

theorem Cnt.get_set {c : Cnt} {n : Nat} (h : c.Sized n) (i v j : Nat) (hi : i < n) :
    (c.set i v).get j = if i = j then v else c.get j := by
  simp only [Cnt.set, Cnt.get, getD_setIfInBounds, h.1, hi, and_true]
theorem Cnt.get_set_self {c : Cnt} {n : Nat} (h : c.Sized n) (i v : Nat) (hi : i < n) :
    (c.set i v).get i = v := by rw [Cnt.get_set h i v i hi]; simp
theorem Cnt.get_set_ne {c : Cnt} {n : Nat} (h : c.Sized n) (i v j : Nat) (hi : i < n) (hne : i ≠ j) :
    (c.set i v).get j = c.get j := by rw [Cnt.get_set h i v j hi]; simp [hne]
theorem Cnt.get_setOid (c : Cnt) (i v j : Nat) : (c.setOid i v).get j = c.get j := rfl
theorem Cnt.getOid_set (c : Cnt) (i v j : Nat) : (c.set i v).getOid j = c.getOid j := rfl
theorem Cnt.getOid_setOid {c : Cnt} {n : Nat} (h : c.Sized n) (i v j : Nat) (hi : i < n) :
    (c.setOid i v).getOid j = if i = j then v else c.getOid j := by
  simp only [Cnt.setOid, Cnt.getOid, getD_setIfInBounds, h.2, hi, and_true]

/-! ### arena look-ups -/

theorem size_foldl_set (l : List (Nat × Node)) : ∀ (a : Array Node),
    (l.foldl (fun a (x : Nat × Node) => a.setIfInBounds x.1 x.2) a).size = a.size := by
  induction l with
  | nil => intro a; rfl
  | cons x t ih => intro a; simp only [List.foldl_cons]; rw [ih]; simp

theorem mkArena_size (n : Nat) (l : List (Nat × Node)) : (mkArena n l).size = n := by
  unfold mkArena
  have := size_foldl_set l (Array.replicate n default)
  simpa using this

theorem getD_foldl_set_notin (l : List (Nat × Node)) (i : Nat) (hi : i ∉ l.map (·.1)) :
    ∀ (a : Array Node),
      (l.foldl (fun a (x : Nat × Node) => a.setIfInBounds x.1 x.2) a).getD i default = a.getD i default := by
  induction l with
  | nil => intro a; rfl
  | cons x t ih =>
    intro a
    simp only [List.map_cons, List.mem_cons, not_or] at hi
    simp only [List.foldl_cons]
    rw [ih hi.2]
    simp only [Array.getD_eq_getD_getElem?, Array.getElem?_setIfInBounds]
    have : x.1 ≠ i := fun h => hi.1 h.symm
    simp [this]

theorem getD_foldl_set_mem (l : List (Nat × Node)) (hnd : (l.map (·.1)).Nodup) (i : Nat) (nd : Node)
    (hmem : (i, nd) ∈ l) : ∀ (a : Array Node), i < a.size →
      (l.foldl (fun a (x : Nat × Node) => a.setIfInBounds x.1 x.2) a).getD i default = nd := by
  induction l with
  | nil => simp at hmem
  | cons x t ih =>
    intro a hsz
    simp only [List.map_cons, List.nodup_cons] at hnd
    simp only [List.foldl_cons]
    rcases List.mem_cons.mp hmem with h | h
    · subst h
      rw [getD_foldl_set_notin t _ hnd.1]
      simp [Array.getD_eq_getD_getElem?, hsz]
    · exact ih hnd.2 h _ (by simpa using hsz)

/-- the node stored under a key of a duplicate-free (id, node) list is found under that id -/
theorem mkArena_node (n : Nat) (l : List (Nat × Node)) (hnd : (l.map (·.1)).Nodup) (i : Nat) (nd : Node)
    (hmem : (i, nd) ∈ l) (hi : i < n) : (mkArena n l).node i = nd := by
  unfold mkArena Arena.node
  exact getD_foldl_set_mem l hnd i nd hmem _ (by simpa using hi)

/-! ### the flat fragment: one group of element leaves -/

/-- a leaf of a flat model: arena id, names (declared name + substitutes), occurrence range -/
structure LeafSpec where
  id : Nat
  names : List QN
  lo : Nat
  hi : Option Nat
  deriving Repr, DecidableEq, Inhabited

def LeafSpec.node (l : LeafSpec) : Node := { kind := .elem, lo := l.lo, hi := l.hi, names := l.names }
def LeafSpec.leaf (l : LeafSpec) : Leaf := .elem l.id l.names
def LeafSpec.particle (l : LeafSpec) : Particle := .leaf l.leaf l.lo l.hi

/-- the element leaves of a list of particles, `none` when some item is a group or a wildcard -/
def leafSpecs : Particles → Option (List LeafSpec)
  | .nil => some []
  | .cons (.leaf (.elem i names) lo hi) ps => (leafSpecs ps).map (⟨i, names, lo, hi⟩ :: ·)
  | .cons _ _ => none

def ofSpecs : List LeafSpec → Particles
  | [] => .nil
  | l :: t => .cons l.particle (ofSpecs t)

theorem leafSpecs_eq : ∀ (ps : Particles) (ls : List LeafSpec), leafSpecs ps = some ls → ps = ofSpecs ls := by
  intro ps
  induction ps using Particles.rec (motive_1 := fun _ => True) with
  | nil => intro ls h; simp only [leafSpecs, Option.some.injEq] at h; subst h; rfl
  | cons p ps _ ih =>
    intro ls h
    cases p with
    | group => simp [leafSpecs] at h
    | leaf l lo hi =>
      cases l with
      | any => simp [leafSpecs] at h
      | elem i names =>
        simp only [leafSpecs, Option.map_eq_some_iff] at h
        obtain ⟨t, ht, rfl⟩ := h
        rw [ih t ht]; rfl
  | leaf => trivial
  | group => trivial

/-- occurrence ranges are well formed: `lo ≤ hi` -/
def LeafSpec.okRange (l : LeafSpec) : Bool := Rx.loLeHi l.lo l.hi

/-- no name is claimed by two leaves -/
def disjointNames : List LeafSpec → Bool
  | [] => true
  | l :: t => t.all (fun l' => l.names.all fun q => !l'.names.contains q) && disjointNames t

/-- side conditions of a flat model with `n` arena slots -/
def wfFlat (n root : Nat) (ls : List LeafSpec) : Bool :=
  decide (root < n) && ls.all (fun l => decide (l.id < n)) && decide ((root :: ls.map (·.id)).Nodup) &&
    disjointNames ls && ls.all (·.okRange) && decide (ls.length + 1 ≤ n)

theorem ids_ofSpecs (ls : List LeafSpec) : (ofSpecs ls).ids = ls.map (·.id) := by
  induction ls with
  | nil => rfl
  | cons l t ih => simp [ofSpecs, Particles.ids, Particle.pid, LeafSpec.particle, LeafSpec.leaf, Leaf.id, ih]

theorem flatten_ofSpecs (ls : List LeafSpec) : (ofSpecs ls).flatten = ls.map fun l => (l.id, l.node) := by
  induction ls with
  | nil => rfl
  | cons l t ih =>
    simp [ofSpecs, Particles.flatten, LeafSpec.particle, LeafSpec.leaf, Particle.flatten, LeafSpec.node, ih]

def gkindNode : GKind → NKind | .seq => .seq | .choice => .choice | .all => .all

/-- what the visitor port needs to know about the arena of a flat model -/
structure FlatA (A : Arena) (n root : Nat) (k : NKind) (glo : Nat) (ghi : Option Nat) (ls : List LeafSpec) : Prop where
  size : A.size = n
  root_lt : root < n
  ids_lt : ∀ l ∈ ls, l.id < n
  nodup : (root :: ls.map (·.id)).Nodup
  root_node : A.node root = { kind := k, lo := glo, hi := ghi, content := ls.map (·.id) }
  leaf_node : ∀ l ∈ ls, A.node l.id = l.node

theorem flatA_of_wf (n root : Nat) (k : GKind) (glo : Nat) (ghi : Option Nat) (ls : List LeafSpec)
    (h : wfFlat n root ls = true) :
    FlatA (mkArena n (Particle.group root k glo ghi (ofSpecs ls)).flatten) n root (gkindNode k) glo ghi ls := by
  simp only [wfFlat, Bool.and_eq_true, decide_eq_true_eq, List.all_eq_true] at h
  obtain ⟨⟨⟨⟨⟨h1, h2⟩, h3⟩, _⟩, _⟩, _⟩ := h
  have hfl : (Particle.group root k glo ghi (ofSpecs ls)).flatten =
      (root, { kind := gkindNode k, lo := glo, hi := ghi, content := ls.map (·.id) }) ::
        ls.map fun l => (l.id, l.node) := by
    simp only [Particle.flatten, ids_ofSpecs, flatten_ofSpecs]
    cases k <;> rfl
  have hkeys : ((Particle.group root k glo ghi (ofSpecs ls)).flatten.map (·.1)) = root :: ls.map (·.id) := by
    rw [hfl]; simp [Function.comp_def]
  refine ⟨mkArena_size _ _, h1, h2, h3, ?_, ?_⟩
  · exact mkArena_node n _ (by rw [hkeys]; exact h3) root _ (by rw [hfl]; simp) h1
  · intro l hl
    exact mkArena_node n _ (by rw [hkeys]; exact h3) l.id _
      (by rw [hfl]; exact List.mem_cons_of_mem _ (List.mem_map.mpr ⟨l, hl, rfl⟩)) (h2 l hl)

end XsVerif.CM
