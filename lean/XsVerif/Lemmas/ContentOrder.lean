/-
  iter_unordered_content / iter_collapsed_content emit a permutation of their input (any visitor).
-/
import XsVerif.Model.ContentOrder

namespace XsVerif.Conv.Order
open XsVerif.Conv List

theorem flat_append (a b : Buckets) : flat (a ++ b) = flat a ++ flat b := by
  induction a with
  | nil => rfl
  | cons x a ih => obtain ⟨k, vs⟩ := x; simp [flat, ih]

theorem findB_eq {p : String → Bool} {b : Buckets} {k vs pre post}
    (h : findB p b = some (k, vs, pre, post)) : b = pre ++ (k, vs) :: post := by
  induction b generalizing pre with
  | nil => simp [findB] at h
  | cons x b ih =>
    obtain ⟨k', vs'⟩ := x
    simp only [findB] at h
    split at h
    · simp at h; obtain ⟨rfl, rfl, rfl, rfl⟩ := h; rfl
    · split at h
      · rename_i k2 vs2 pre2 post2 heq
        simp at h
        obtain ⟨rfl, rfl, rfl, rfl⟩ := h
        rw [ih heq]; rfl
      · simp at h

theorem popC_perm (c : List (Nat × J)) : (popC c).1 ++ cdataItems (popC c).2 = cdataItems c := by
  cases c <;> simp [popC, cdataItems]

theorem drain_perm (c : List (Nat × J)) (b : Buckets) : (drain c b).Perm (cdataItems c ++ flat b) := by
  fun_induction drain c b with
  | case1 c => simp [flat]
  | case2 c k r ih => simpa [flat] using ih
  | case3 c k v vs r ih =>
    simp only [flat, List.map_cons, List.cons_append] at ih ⊢
    have h1 : (cdataItems c ++ Item.child k false v :: (List.map (fun v => Item.child k false v) vs ++ flat r)).Perm
        (Item.child k false v :: (cdataItems c ++ (List.map (fun v => Item.child k false v) vs ++ flat r))) :=
      List.perm_middle
    refine Perm.trans (Perm.cons _ ?_) h1.symm
    rw [← popC_perm c, List.append_assoc]
    exact Perm.append_left _ ih

theorem unorderedLoop_perm {σ} (V : Visitor σ) (fuel : Nat) (s : σ) (c : List (Nat × J)) (b : Buckets)
    (out : List (Item J)) (h : unorderedLoop V fuel s c b = .ok out) :
    out.Perm (cdataItems c ++ flat b) := by
  induction fuel generalizing s c b out with
  | zero => simp [unorderedLoop] at h
  | succ fuel ih =>
    unfold unorderedLoop at h
    split at h
    · injection h with h; subst h; exact drain_perm _ _
    · rename_i x r
      split at h
      · injection h with h; subst h; exact drain_perm _ _
      · rename_i p hp
        split at h
        · exact ih _ _ _ _ h
        · simp at h
        · rename_i k v vs pre post hf
          dsimp only at h
          have hflat : (flat (if vs.isEmpty = true then pre ++ post else pre ++ (k, vs) :: post)).Perm
              (flat pre ++ (List.map (fun v => Item.child k false v) vs ++ flat post)) := by
            cases vs <;> simp [flat_append, flat]
          generalize (if vs.isEmpty = true then pre ++ post else pre ++ (k, vs) :: post) = b' at h hflat
          split at h
          · rename_i out' ho
            injection h with h; subst h
            have hb := findB_eq hf
            have ih' := ih _ _ _ _ ho
            rw [hb, flat_append]
            simp only [flat, List.map_cons, List.cons_append]
            have h2 : ((popC c).1 ++ out').Perm
                (cdataItems c ++ (flat pre ++ (List.map (fun v => Item.child k false v) vs ++ flat post))) := by
              rw [← popC_perm c, List.append_assoc]
              exact Perm.append_left _ (ih'.trans (Perm.append_left _ hflat))
            refine Perm.trans (Perm.cons _ h2) ?_
            have : (cdataItems c ++ (flat pre ++ Item.child k false v ::
                (List.map (fun v => Item.child k false v) vs ++ flat post))).Perm
                (Item.child k false v :: (cdataItems c ++ (flat pre ++
                (List.map (fun v => Item.child k false v) vs ++ flat post)))) := by
              rw [← List.append_assoc, ← List.append_assoc]
              exact List.perm_middle
            exact this.symm
          · simp at h

/-- **iter_unordered_content emits a permutation of its input** (no entry dropped or duplicated), whatever
    the model visitor does; `.fuel`/`.leak` are the only other outcomes. -/
theorem iterUnordered_perm {σ} (V : Visitor σ) (fuel : Nat) (s : σ) (c : List (Nat × J)) (b : Buckets)
    (out : List (Item J)) (h : iterUnordered V fuel s c b = .ok out) :
    out.Perm (cdataItems c ++ flat b) := by
  unfold iterUnordered at h
  split at h
  · rename_i o ho
    injection h with h; subst h
    rw [← popC_perm c, List.append_assoc]
    exact Perm.append_left _ (unorderedLoop_perm V fuel s _ b o ho)
  · simp at h

theorem bAppend_perm (u : Buckets) (k : String) (v : J) :
    (flat (bAppend u k v)).Perm (Item.child k false v :: flat u) := by
  induction u with
  | nil => simp [bAppend, flat]
  | cons x u ih =>
    obtain ⟨k', vs⟩ := x
    simp only [bAppend]
    split
    · rename_i hk
      have hk' : k' = k := by simpa using hk
      subst hk'
      simp only [flat, List.map_append, List.map_cons, List.map_nil, List.append_assoc, List.cons_append,
        List.nil_append]
      exact List.perm_middle
    · simp only [flat]
      refine Perm.trans (Perm.append_left _ ih) ?_
      exact List.perm_middle

/-- one entry: what is emitted plus what stays buffered = the entry plus what was buffered -/
theorem collapsedStep_perm {σ} (V : Visitor σ) (fuel : Nat) (st : CState σ) (name : String) (value : J)
    (o : List (Item J)) (st' : CState σ) (h : collapsedStep V fuel st name value = .ok (o, st')) :
    (o ++ flat st'.u).Perm (Item.child name false value :: flat st.u) := by
  induction fuel generalizing st o st' with
  | zero => simp [collapsedStep] at h
  | succ fuel ih =>
    unfold collapsedStep at h
    split at h
    · injection h with h; injection h with h1 h2; subst h1; subst h2; simp
    · split at h
      · injection h with h; injection h with h1 h2; subst h1; subst h2; simp
      · split at h
        · split at h
          · injection h with h; injection h with h1 h2; subst h1; subst h2
            simpa using bAppend_perm st.u name value
          · have := ih _ _ _ h
            simpa using this
        · rename_i k pre post hf
          have hb := findB_eq hf
          have := ih _ _ _ h
          rw [hb, flat_append]
          simpa [flat_append, flat] using this
        · rename_i k v vs pre post hf
          have hb := findB_eq hf
          split at h
          · rename_i out st2 ho
            injection h with h; injection h with h1 h2; subst h1; subst h2
            have := ih _ _ _ ho
            rw [hb, flat_append]
            simp only [flat, List.map_cons, List.cons_append, flat_append] at this ⊢
            refine Perm.trans (Perm.cons _ this) ?_
            refine Perm.trans (Perm.swap _ _ _) (Perm.cons _ ?_)
            exact List.perm_middle.symm
          · simp at h

/-- emitted children carry no `single` flag -/
def clear : Item J → Item J
  | .cdata i v => .cdata i v
  | .child nm _ v => .child nm false v

theorem collapsedLoop_perm {σ} (V : Visitor σ) (fuel : Nat) (st : CState σ) (content out : List (Item J))
    (h : collapsedLoop V fuel st content = .ok out) :
    out.Perm (content.map clear ++ flat st.u) := by
  induction content generalizing st out with
  | nil => simp [collapsedLoop] at h; subst h; simp
  | cons a content ih =>
    cases a with
    | cdata i v =>
      simp only [collapsedLoop] at h
      split at h
      · rename_i o ho
        injection h with h; subst h
        simpa [clear] using ih _ _ ho
      · simp at h
    | child name sg value =>
      simp only [collapsedLoop] at h
      split at h
      · split at h
        · rename_i o ho
          injection h with h; subst h
          simpa [clear] using ih _ _ ho
        · simp at h
      · split at h
        · simp at h
        · rename_i o st' hs
          split at h
          · rename_i out' ho
            injection h with h; subst h
            have h1 := collapsedStep_perm V fuel st name value o st' hs
            have h2 := ih _ _ ho
            simp only [List.map_cons, clear, List.cons_append]
            -- o ++ out' ~ o ++ (content' ++ flat st'.u) ~ content' ++ (o ++ flat st'.u) ~ content' ++ child :: flat st.u
            refine Perm.trans (Perm.append_left _ h2) ?_
            refine Perm.trans ?_ (List.perm_middle (a := Item.child name false value)
              (l₁ := List.map clear content) (l₂ := flat st.u))
            rw [← List.append_assoc]
            refine Perm.trans (Perm.append_right _ List.perm_append_comm) ?_
            rw [List.append_assoc]
            exact Perm.append_left _ h1
          · simp at h

/-- **iter_collapsed_content emits a permutation of its input** (children keep name and value; cdata parts
    keep their keys), whatever the model visitor does. -/
theorem iterCollapsed_perm {σ} (V : Visitor σ) (fuel : Nat) (s : σ) (content out : List (Item J))
    (h : iterCollapsed V fuel s content = .ok out) : out.Perm (content.map clear) := by
  have := collapsedLoop_perm V fuel _ content out h
  simpa [flat] using this

end XsVerif.Conv.Order
