/-
  C15, S side of the flat-sequence fragment: the attributed language of `sequence(e1 … en)` of plain
  element particles is the set of block words `e1^n1 … en^nk` (`SeqW`), a word determines its blocks,
  and two words that share a prefix and continue with the same child name attributed to two different
  particles exist iff there is a *bad pair*: an earlier particle that is not univocal (`lo < hi`) and a
  later particle of the same name with only emptiable particles in between (`BadS`).
-/
import XsVerif.Lemmas.CheckModelFlat

set_option linter.unusedSectionVars false

namespace XsVerif.CM
open XsVerif.Wildcard XsVerif.Rx

/-- the only symbol a plain element particle accepts -/
def FItem.sym (it : FItem) : ASym := (it.name, it.id)

theorem mm_item (it : FItem) (c : ASym) : mm it.leaf c = true ↔ c = it.sym := by
  obtain ⟨a, x⟩ := c
  simp only [mm, FItem.leaf, Leaf.id, Leaf.matches, FItem.sym, Bool.and_eq_true, beq_iff_eq,
    List.contains_cons, List.contains_nil, Bool.or_false, Prod.mk.injEq]
  constructor
  · rintro ⟨h1, h2⟩; exact ⟨h2, h1.symm⟩
  · rintro ⟨h1, h2⟩; exact ⟨h2.symm, h1⟩

/-- block words of a list of items -/
inductive SeqW : List FItem → List ASym → Prop
  | nil : SeqW [] []
  | cons {it : FItem} {rest : List FItem} {w : List ASym} (n : Nat) :
      it.lo ≤ n → leHi n it.hi → SeqW rest w → SeqW (it :: rest) (List.replicate n it.sym ++ w)

theorem lang_item_iff (it : FItem) (w : List ASym) :
    Lang mm it.particle.toRx w ↔ ∃ n, it.lo ≤ n ∧ leHi n it.hi ∧ w = List.replicate n it.sym := by
  simp only [FItem.particle, Particle.toRx, Lang]
  constructor
  · rintro ⟨ws, rfl, hlo, hhi, hall⟩
    refine ⟨ws.length, hlo, hhi, ?_⟩
    have : ws = List.replicate ws.length [it.sym] := by
      rw [List.eq_replicate_iff]
      refine ⟨rfl, ?_⟩
      intro x hx
      obtain ⟨c, rfl, hc⟩ := hall x hx
      rw [(mm_item it c).mp hc]
    rw [this, List.flatten_replicate_singleton, List.length_replicate]
  · rintro ⟨n, hlo, hhi, rfl⟩
    refine ⟨List.replicate n [it.sym], by rw [List.flatten_replicate_singleton], by simpa using hlo,
      by simpa using hhi, ?_⟩
    intro x hx
    rw [(List.mem_replicate.mp hx).2]
    exact ⟨it.sym, rfl, (mm_item it _).mpr rfl⟩

theorem lang_toSeq_iff : ∀ (items : List FItem) (w : List ASym),
    Lang mm (mkParticles items).toSeq w ↔ SeqW items w := by
  intro items
  induction items with
  | nil =>
    intro w
    simp only [mkParticles, Particles.toSeq, Lang]
    constructor
    · rintro rfl; exact .nil
    · intro h; cases h; rfl
  | cons it rest ih =>
    intro w
    simp only [mkParticles, Particles.toSeq, Lang]
    constructor
    · rintro ⟨u, v, rfl, hu, hv⟩
      obtain ⟨n, hlo, hhi, rfl⟩ := (lang_item_iff it u).mp hu
      exact .cons n hlo hhi ((ih v).mp hv)
    · intro h
      cases h with
      | cons n hlo hhi hr =>
        exact ⟨_, _, rfl, (lang_item_iff it _).mpr ⟨n, hlo, hhi, rfl⟩, (ih _).mpr hr⟩

theorem seqW_syms {items : List FItem} {w : List ASym} (h : SeqW items w) :
    ∀ c ∈ w, ∃ it ∈ items, c = it.sym := by
  induction h with
  | nil => intro c hc; cases hc
  | cons n _ _ _ ih =>
    intro c hc
    rcases List.mem_append.mp hc with hc | hc
    · exact ⟨_, by simp, (List.mem_replicate.mp hc).2⟩
    · obtain ⟨jt, hj, rfl⟩ := ih c hc
      exact ⟨jt, by simp [hj], rfl⟩

theorem seqW_append {l1 l2 : List FItem} {w1 w2 : List ASym} (h1 : SeqW l1 w1) (h2 : SeqW l2 w2) :
    SeqW (l1 ++ l2) (w1 ++ w2) := by
  induction h1 with
  | nil => simpa using h2
  | cons n hlo hhi _ ih =>
    rw [List.cons_append, List.append_assoc]
    exact .cons n hlo hhi ih

/-- the minimal word: every particle exactly `lo` times -/
def minW (items : List FItem) : List ASym := (items.map fun it => List.replicate it.lo it.sym).flatten

theorem seqW_minW : ∀ (items : List FItem), (∀ it ∈ items, loLeHi it.lo it.hi = true) → SeqW items (minW items) := by
  intro items
  induction items with
  | nil => intro _; exact .nil
  | cons it rest ih =>
    intro h
    have hle := h it (by simp)
    simp only [minW, List.map_cons, List.flatten_cons]
    refine .cons it.lo (Nat.le_refl _) ?_ (ih fun jt hj => h jt (by simp [hj]))
    cases hh : it.hi with
    | none => trivial
    | some k => simpa [hh, loLeHi, leHi] using hle

theorem minW_emptiable (items : List FItem) (h : ∀ m ∈ items, m.lo = 0) : minW items = [] := by
  induction items with
  | nil => rfl
  | cons it rest ih =>
    simp only [minW, List.map_cons, List.flatten_cons, h it (by simp), List.replicate_zero, List.nil_append]
    exact ih fun m hm => h m (by simp [hm])

/-! ### a word determines its blocks -/

section tw
variable {α : Type} (p : α → Bool)

theorem tw_app_all : ∀ (u t : List α), (∀ c ∈ u, p c = true) →
    (u ++ t).takeWhile p = u ++ t.takeWhile p ∧ (u ++ t).dropWhile p = t.dropWhile p := by
  intro u
  induction u with
  | nil => intro t _; exact ⟨rfl, rfl⟩
  | cons c u ih =>
    intro t h
    have hc := h c (by simp)
    obtain ⟨h1, h2⟩ := ih t fun d hd => h d (by simp [hd])
    simp [hc, h1, h2]

theorem tw_app_ex : ∀ (u t : List α), (∃ c ∈ u, p c = false) →
    (u ++ t).takeWhile p = u.takeWhile p ∧ (u ++ t).dropWhile p = u.dropWhile p ++ t := by
  intro u
  induction u with
  | nil => rintro t ⟨c, hc, _⟩; cases hc
  | cons c u ih =>
    intro t hex
    by_cases hc : p c = true
    · have hex' : ∃ d ∈ u, p d = false := by
        obtain ⟨d, hd, hpd⟩ := hex
        rcases List.mem_cons.mp hd with rfl | hd
        · rw [hc] at hpd; cases hpd
        · exact ⟨d, hd, hpd⟩
      obtain ⟨h1, h2⟩ := ih t hex'
      simp [hc, h1, h2]
    · simp [hc]

theorem tw_none : ∀ (w : List α), (∀ c ∈ w, p c = false) → w.takeWhile p = [] ∧ w.dropWhile p = w := by
  intro w h
  cases w with
  | nil => exact ⟨rfl, rfl⟩
  | cons c w => simp [h c (by simp)]

theorem tw_rep (s : α) (n : Nat) (w : List α) (hs : p s = true) (hw : ∀ c ∈ w, p c = false) :
    (List.replicate n s ++ w).takeWhile p = List.replicate n s ∧ (List.replicate n s ++ w).dropWhile p = w := by
  obtain ⟨h1, h2⟩ := tw_app_all p (List.replicate n s) w (fun c hc => by rw [(List.mem_replicate.mp hc).2]; exact hs)
  obtain ⟨h3, h4⟩ := tw_none p w hw
  rw [h1, h2, h3, h4]
  simp

end tw

/-! ### bad pairs -/

/-- an earlier non-univocal particle `it`, a later live particle `jt` of the same name, only emptiable
    particles in between -/
def BadS (items : List FItem) : Prop :=
  ∃ p1 it midl jt p2, items = p1 ++ it :: midl ++ jt :: p2 ∧ it.name = jt.name ∧ it.hi ≠ some it.lo ∧
    it.hi ≠ some 0 ∧ jt.hi ≠ some 0 ∧ ∀ m ∈ midl, m.lo = 0

theorem BadS.cons {items : List FItem} (h : BadS items) (it0 : FItem) : BadS (it0 :: items) := by
  obtain ⟨p1, it, midl, jt, p2, rfl, h1, h2, h3, h4, h5⟩ := h
  exact ⟨it0 :: p1, it, midl, jt, p2, by simp, h1, h2, h3, h4, h5⟩

/-- the first symbol of a block word belongs to a live particle preceded by emptiable particles only -/
theorem seqW_first {items : List FItem} {c : ASym} {v : List ASym} (h : SeqW items (c :: v)) :
    ∃ pre jt post, items = pre ++ jt :: post ∧ c = jt.sym ∧ jt.hi ≠ some 0 ∧ ∀ m ∈ pre, m.lo = 0 := by
  generalize hw : c :: v = w at h
  induction h with
  | nil => cases hw
  | @cons it rest w' n hlo hhi hr ih =>
    cases n with
    | zero =>
      simp only [List.replicate_zero, List.nil_append] at hw
      obtain ⟨pre, jt, post, rfl, hc, hj, hpre⟩ := ih hw
      refine ⟨it :: pre, jt, post, by simp, hc, hj, ?_⟩
      intro m hm
      rcases List.mem_cons.mp hm with rfl | hm
      · omega
      · exact hpre m hm
    | succ k =>
      simp only [List.replicate_succ, List.cons_append, List.cons.injEq] at hw
      refine ⟨[], it, rest, rfl, hw.1, ?_, fun m hm => nomatch hm⟩
      intro h0
      rw [h0] at hhi
      simp [leHi] at hhi

/-- one side of the main case: `x` is the head particle, `y` is not -/
theorem conflict_head {it : FItem} {rest : List FItem} {u v1 v2 w1 w2 : List ASym} {a : QN} {x y : Nat}
    {n1 n2 : Nat} (hrest : ∀ jt ∈ rest, jt.id ≠ it.id)
    (hu : ∀ c ∈ u, (c.2 == it.id) = true) (hx : x = it.id) (hy : y ≠ it.id)
    (hlo2 : it.lo ≤ n2) (hhi1 : leHi n1 it.hi)
    (e1 : u ++ (a, x) :: v1 = List.replicate n1 it.sym ++ w1) (e2 : u ++ (a, y) :: v2 = List.replicate n2 it.sym ++ w2)
    (r1 : SeqW rest w1) (r2 : SeqW rest w2) : BadS (it :: rest) := by
  let p : ASym → Bool := fun c => c.2 == it.id
  have hs : p it.sym = true := by simp [p, FItem.sym]
  have hw : ∀ {w}, SeqW rest w → ∀ c ∈ w, p c = false := by
    intro w hr c hc
    obtain ⟨jt, hj, rfl⟩ := seqW_syms hr c hc
    simpa [p, FItem.sym] using hrest jt hj
  have t1 := congrArg (List.takeWhile p) e1
  have t2 := congrArg (List.takeWhile p) e2
  have d2 := congrArg (List.dropWhile p) e2
  rw [(tw_rep p _ n1 w1 hs (hw r1)).1, (tw_app_all p u _ hu).1] at t1
  rw [(tw_rep p _ n2 w2 hs (hw r2)).1, (tw_app_all p u _ hu).1] at t2
  rw [(tw_rep p _ n2 w2 hs (hw r2)).2, (tw_app_all p u _ hu).2] at d2
  have hpx : p (a, x) = true := by simp [p, hx]
  have hpy : p (a, y) = false := by simpa [p] using hy
  simp only [List.takeWhile_cons, hpx, if_true] at t1
  simp only [List.takeWhile_cons, hpy, Bool.false_eq_true, if_false] at t2
  simp only [List.dropWhile_cons, hpy, Bool.false_eq_true, if_false] at d2
  have l1 := congrArg List.length t1
  have l2 := congrArg List.length t2
  simp only [List.length_append, List.length_cons, List.length_replicate, List.length_nil, Nat.add_zero] at l1 l2
  have hax : (a, x) = it.sym := by
    have : (a, x) ∈ List.replicate n1 it.sym := by rw [← t1]; simp
    exact (List.mem_replicate.mp this).2
  rw [← d2] at r2
  obtain ⟨pre, jt, post, rfl, hc, hj, hpre⟩ := seqW_first r2
  have hnm : it.name = jt.name := by
    have h1 := congrArg Prod.fst hax
    have h2 := congrArg Prod.fst hc
    simp only [FItem.sym] at h1 h2
    rw [← h1, h2]
  refine ⟨[], it, pre, jt, post, by simp, hnm, ?_, ?_, hj, hpre⟩
  · intro h
    rw [h] at hhi1
    simp only [leHi] at hhi1
    omega
  · intro h
    rw [h] at hhi1
    simp only [leHi] at hhi1
    omega

/-- **conflict ⇒ bad pair**: two block words that share the prefix `u` and continue with the same name
    attributed to two different particles -/
theorem seqW_conflict : ∀ (items : List FItem), items.Pairwise (fun a b => a.id ≠ b.id) →
    ∀ (u v1 v2 : List ASym) (a : QN) (x y : Nat), x ≠ y →
      SeqW items (u ++ (a, x) :: v1) → SeqW items (u ++ (a, y) :: v2) → BadS items := by
  intro items
  induction items with
  | nil =>
    intro _ u v1 v2 a x y _ h1 _
    generalize hU : u ++ (a, x) :: v1 = U at h1
    cases h1
    simp at hU
  | cons it rest ih =>
    intro hids u v1 v2 a x y hxy h1 h2
    obtain ⟨hhead, htail⟩ := List.pairwise_cons.mp hids
    have hrest : ∀ jt ∈ rest, jt.id ≠ it.id := fun jt hj => Ne.symm (hhead jt hj)
    generalize hU1 : u ++ (a, x) :: v1 = U1 at h1
    generalize hU2 : u ++ (a, y) :: v2 = U2 at h2
    cases h1 with
    | @cons _ _ w1 n1 hlo1 hhi1 r1 =>
    cases h2 with
    | @cons _ _ w2 n2 hlo2 hhi2 r2 =>
    let p : ASym → Bool := fun c => c.2 == it.id
    have hs : p it.sym = true := by simp [p, FItem.sym]
    have hw : ∀ {w}, SeqW rest w → ∀ c ∈ w, p c = false := by
      intro w hr c hc
      obtain ⟨jt, hj, rfl⟩ := seqW_syms hr c hc
      simpa [p, FItem.sym] using hrest jt hj
    by_cases hu : ∀ c ∈ u, p c = true
    · by_cases hx : x = it.id
      · exact conflict_head hrest hu hx (fun h => hxy (hx.trans h.symm)) hlo2 hhi1 hU1 hU2 r1 r2
      · by_cases hy : y = it.id
        · exact conflict_head hrest hu hy hx hlo1 hhi2 hU2 hU1 r2 r1
        · -- neither: both words leave the head block after `u`
          have d1 := congrArg (List.dropWhile p) hU1
          have d2 := congrArg (List.dropWhile p) hU2
          rw [(tw_rep p _ n1 w1 hs (hw r1)).2, (tw_app_all p u _ hu).2] at d1
          rw [(tw_rep p _ n2 w2 hs (hw r2)).2, (tw_app_all p u _ hu).2] at d2
          have hpx : p (a, x) = false := by simpa [p] using hx
          have hpy : p (a, y) = false := by simpa [p] using hy
          simp only [List.dropWhile_cons, hpx, Bool.false_eq_true, if_false] at d1
          simp only [List.dropWhile_cons, hpy, Bool.false_eq_true, if_false] at d2
          rw [← d1] at r1
          rw [← d2] at r2
          exact (ih htail [] v1 v2 a x y hxy (by simpa using r1) (by simpa using r2)).cons it
    · have hex : ∃ c ∈ u, p c = false := by
        apply Classical.byContradiction
        intro hne
        apply hu
        intro c hc
        cases hpc : p c with
        | true => rfl
        | false => exact absurd ⟨c, hc, hpc⟩ hne
      have d1 := congrArg (List.dropWhile p) hU1
      have d2 := congrArg (List.dropWhile p) hU2
      rw [(tw_rep p _ n1 w1 hs (hw r1)).2, (tw_app_ex p u _ hex).2] at d1
      rw [(tw_rep p _ n2 w2 hs (hw r2)).2, (tw_app_ex p u _ hex).2] at d2
      rw [← d1] at r1
      rw [← d2] at r2
      exact (ih htail _ v1 v2 a x y hxy r1 r2).cons it

theorem leHi_succ_of_ne {lo : Nat} {hi : Option Nat} (hle : loLeHi lo hi = true) (hne : hi ≠ some lo) :
    leHi (lo + 1) hi := by
  cases hi with
  | none => trivial
  | some k =>
    simp only [loLeHi, decide_eq_true_eq] at hle
    simp only [leHi]
    have : k ≠ lo := fun h => hne (by rw [h])
    omega

theorem leHi_max_one {lo : Nat} {hi : Option Nat} (hle : loLeHi lo hi = true) (hne : hi ≠ some 0) :
    leHi (lo - 1 + 1) hi := by
  cases hi with
  | none => trivial
  | some k =>
    simp only [loLeHi, decide_eq_true_eq] at hle
    simp only [leHi]
    have : k ≠ 0 := fun h => hne (by rw [h])
    omega

/-- **bad pair ⇒ conflict**: after every particle up to `it` was taken `lo` times, the next child of
    that name can be attributed to `it` (once more) or to `jt` (the particles in between are skipped) -/
theorem badS_conflict {items : List FItem} (hocc : ∀ it ∈ items, loLeHi it.lo it.hi = true)
    (hids : items.Pairwise (fun a b => a.id ≠ b.id)) (h : BadS items) :
    ∃ (u v1 v2 : List ASym) (a : QN) (x y : Nat), x ≠ y ∧
      SeqW items (u ++ (a, x) :: v1) ∧ SeqW items (u ++ (a, y) :: v2) := by
  obtain ⟨p1, it, midl, jt, p2, rfl, hnm, huni, hi0, hj0, hmid⟩ := h
  have occ : ∀ l : List FItem, (∀ m ∈ l, m ∈ p1 ++ it :: midl ++ jt :: p2) → SeqW l (minW l) :=
    fun l hl => seqW_minW l fun m hm => hocc m (hl m hm)
  have hp1 := occ p1 (fun m hm => by simp [hm])
  have hmidl := occ midl (fun m hm => by simp [hm])
  have hp2 := occ p2 (fun m hm => by simp [hm])
  have hjp2 := occ (jt :: p2) (fun m hm => by
    rcases List.mem_cons.mp hm with rfl | hm
    · simp
    · simp [hm])
  have hne : it.id ≠ jt.id := by
    exact (List.pairwise_append.mp hids).2.2 it (by simp) jt (by simp)
  refine ⟨minW p1 ++ List.replicate it.lo it.sym, minW midl ++ minW (jt :: p2),
    List.replicate (jt.lo - 1) jt.sym ++ minW p2, it.name, it.id, jt.id, hne, ?_, ?_⟩
  · have hit : SeqW (it :: (midl ++ jt :: p2)) (List.replicate (it.lo + 1) it.sym ++ (minW midl ++ minW (jt :: p2))) :=
      .cons (it.lo + 1) (Nat.le_succ _) (leHi_succ_of_ne (hocc it (by simp)) huni) (seqW_append hmidl hjp2)
    have := seqW_append hp1 hit
    rw [List.replicate_succ'] at this
    simpa [FItem.sym, List.append_assoc] using this
  · have hjt : SeqW (jt :: p2) (List.replicate (jt.lo - 1 + 1) jt.sym ++ minW p2) :=
      .cons (jt.lo - 1 + 1) (by omega) (leHi_max_one (hocc jt (by simp)) hj0) hp2
    have hm0 : minW midl = [] := minW_emptiable midl hmid
    have hmj := seqW_append hmidl hjt
    rw [hm0, List.nil_append] at hmj
    have hit : SeqW (it :: (midl ++ jt :: p2)) (List.replicate it.lo it.sym ++ (List.replicate (jt.lo - 1 + 1) jt.sym ++ minW p2)) :=
      .cons it.lo (Nat.le_refl _) (by
        have := hocc it (by simp)
        cases hh : it.hi with
        | none => trivial
        | some k => simpa [hh, loLeHi, leHi] using this) hmj
    have := seqW_append hp1 hit
    rw [List.replicate_succ] at this
    simpa [FItem.sym, hnm, List.append_assoc] using this

end XsVerif.CM
