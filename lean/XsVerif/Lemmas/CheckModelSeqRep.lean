/-
  C15: flat sequences with ANY root occurrence range, every variant of the algorithm (`Ctx.fx`): what a
  refusal of the port means (M side), and that it is a real violation (S side: the two words).
-/
import XsVerif.Lemmas.CheckModelErr

set_option linter.unusedSectionVars false

namespace XsVerif.CM
open XsVerif.Wildcard XsVerif.Rx

variable {M : Ctx} {r : Nat} {rhi : Option Nat} {items : List FItem}

/-- in-iteration conflict: `it` not univocal, only emptiable particles up to `jt` -/
def Bad1 (it : FItem) (midl : List FItem) : Prop := it.hi ≠ some it.lo ∧ ∀ m ∈ midl, m.lo = 0

/-- wrap-around conflict of a sequence that repeats: `jt` not univocal, only emptiable particles after `jt` and
    before `it` -/
def Bad2 (rhi : Option Nat) (p1 : List FItem) (jt : FItem) (p2 : List FItem) : Prop :=
  rhi ≠ some 1 ∧ jt.hi ≠ some jt.lo ∧ (∀ m ∈ p1, m.lo = 0) ∧ ∀ m ∈ p2, m.lo = 0

theorem any_nz_false {l : List FItem} (h : (l.any fun m => m.lo != 0) = false) : ∀ m ∈ l, m.lo = 0 := by
  intro m hm
  have := List.any_eq_false.mp h m hm
  simpa using this

/-- `distinguishable_paths` on two members of a flat sequence, any root occurrence range -/
theorem SeqCtxR.distinguishableR (h : SeqCtxR M r rhi items) (hr0 : rhi ≠ some 0) {p1 midl p2 : List FItem}
    {it jt : FItem} (hsplit : items = (p1 ++ it :: midl) ++ jt :: p2)
    (hd : M.distinguishable ([r] ++ [it.id]) ([r] ++ [jt.id]) = false) :
    Bad1 it midl ∨ Bad2 rhi p1 jt p2 := by
  have hit : it ∈ items := by rw [hsplit]; simp
  have hjt : jt ∈ items := by rw [hsplit]; simp
  have hids := h.ids
  rw [hsplit] at hids
  have hij : it.id ≠ jt.id := (List.pairwise_append.mp hids).2.2 it (by simp) jt (by simp)
  have hir : it.id ≠ r := h.rootId it hit
  have hcont : (M.node r).content = ((p1.map (·.id) ++ it.id :: midl.map (·.id)) ++ jt.id :: p2.map (·.id)) := by
    rw [h.content, hsplit]; simp
  have hi1 : it.id ∉ p1.map (·.id) := by
    intro hm
    obtain ⟨k, hk, hkid⟩ := List.mem_map.mp hm
    have h1 := (List.pairwise_append.mp hids).1
    exact (List.pairwise_append.mp h1).2.2 k hk it (by simp) hkid
  have hj1 : jt.id ∉ (p1.map (·.id) ++ it.id :: midl.map (·.id)) := by
    intro hm
    have : jt.id ∈ (p1 ++ it :: midl).map (·.id) := by simpa using hm
    obtain ⟨k, hk, hkid⟩ := List.mem_map.mp this
    exact (List.pairwise_append.mp hids).2.2 k hk jt (by simp) hkid
  have hidx1 : M.indexIn r it.id = p1.length := by
    rw [Ctx.indexIn, hcont, List.append_assoc, List.cons_append, idxOf_mid _ _ _ hi1]; simp
  have hidx2 : M.indexIn r jt.id = p1.length + 1 + midl.length := by
    rw [Ctx.indexIn, hcont, idxOf_mid _ _ _ hj1]; simp; omega
  have hmid : M.anyNonEmptiable (((M.node r).content.drop (p1.length + 1)).take (p1.length + 1 + midl.length - (p1.length + 1))) =
      midl.any (fun m => m.lo != 0) := by
    have := drop_take_mid (p1.map (·.id)) it.id (midl.map (·.id)) (jt.id :: p2.map (·.id))
    simp only [List.length_append, List.length_map, List.length_cons] at this
    rw [hcont]
    have e : p1.length + 1 + midl.length - (p1.length + 1) = p1.length + (midl.length + 1) - (p1.length + 1) := by omega
    rw [e, this]
    exact h.anyNonEmptiable midl fun m hm => by rw [hsplit]; simp [hm]
  have hbef : M.anyNonEmptiable ((M.node r).content.take p1.length) = p1.any (fun m => m.lo != 0) := by
    rw [hcont, List.append_assoc, List.take_left' (by simp)]
    exact h.anyNonEmptiable p1 fun m hm => by rw [hsplit]; simp [hm]
  have haft : M.anyNonEmptiable ((M.node r).content.drop (p1.length + 1 + midl.length + 1)) = p2.any (fun m => m.lo != 0) := by
    have e : (p1.map (·.id) ++ it.id :: midl.map (·.id)) ++ jt.id :: p2.map (·.id) =
        ((p1.map (·.id) ++ it.id :: midl.map (·.id)) ++ [jt.id]) ++ p2.map (·.id) := by simp
    rw [hcont, e, List.drop_left' (by simp; omega)]
    exact h.anyNonEmptiable p2 fun m hm => by rw [hsplit]; simp [hm]
  unfold Ctx.distinguishable at hd
  have hf : ([r] ++ [it.id]).findIdx? (fun e => !([r] ++ [jt.id]).contains e) = some 1 := by
    simp [List.findIdx?_cons, hij, hir]
  rw [hf] at hd
  have hr0' : (rhi == some 0) = false := by simpa using hr0
  simp only [Nat.sub_self, List.getD_cons_zero, List.cons_append, List.nil_append, List.getD_cons_succ,
    h.rootHi, h.rootSeq, hidx1, hidx2, hmid, hbef, haft, pairsFrom, List.drop_succ_cons, List.drop_zero, List.drop_nil,
    List.zip_nil_right, Ctx.walk, List.getLast?_cons_cons, List.getLast?_singleton, Option.getD_some, hr0',
    h.univocal hit, h.univocal hjt] at hd
  have key : ((it.hi == some it.lo) = false ∧ (midl.any fun m => m.lo != 0) = false) ∨
      ((rhi == some 1) = false ∧ (jt.hi == some jt.lo) = false ∧ (p1.any fun m => m.lo != 0) = false ∧
        (p2.any fun m => m.lo != 0) = false) := by
    generalize (midl.any fun m => m.lo != 0) = mid at hd
    generalize (p1.any fun m => m.lo != 0) = b1 at hd
    generalize (p2.any fun m => m.lo != 0) = a2 at hd
    generalize (it.hi == some it.lo) = u1 at hd
    generalize (jt.hi == some jt.lo) = u2 at hd
    generalize (rhi == some 1) = one at hd
    cases mid <;> cases b1 <;> cases a2 <;> cases u1 <;> cases u2 <;> cases one <;> simp_all
  rcases key with ⟨k1, k2⟩ | ⟨k1, k2, k3, k4⟩
  · exact .inl ⟨by simpa using k1, any_nz_false k2⟩
  · exact .inr ⟨by simpa using k1, by simpa using k2, any_nz_false k3, any_nz_false k4⟩

end XsVerif.CM
