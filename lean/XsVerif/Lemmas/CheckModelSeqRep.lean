/-
  C15: flat sequences with ANY root occurrence range, every variant of the algorithm (`Ctx.fx`): what a
  refusal of the port means (M side), and that it is a real violation (S side: the two words).
-/
import XsVerif.Lemmas.CheckModelErr

set_option linter.unusedSectionVars false

namespace XsVerif.CM
open XsVerif.Wildcard XsVerif.Rx

variable {M : Ctx} {r : Nat} {rhi : Option Nat} {items : List FItem}

/-- in-iteration conflict: `it` not univocal, only emptiable particles up to `jt` -/
def Bad1 (it : FItem) (midl : List FItem) : Prop := it.hi ≠ some it.lo ∧ ∀ m ∈ midl, m.lo = 0

/-- wrap-around conflict of a sequence that repeats: `jt` not univocal, only emptiable particles after `jt` and
    before `it` -/
def Bad2 (rhi : Option Nat) (p1 : List FItem) (jt : FItem) (p2 : List FItem) : Prop :=
  rhi ≠ some 1 ∧ jt.hi ≠ some jt.lo ∧ (∀ m ∈ p1, m.lo = 0) ∧ ∀ m ∈ p2, m.lo = 0

theorem any_nz_false {l : List FItem} (h : (l.any fun m => m.lo != 0) = false) : ∀ m ∈ l, m.lo = 0 := by
  intro m hm
  have := List.any_eq_false.mp h m hm
  simpa using this

/-- `distinguishable_paths` on two members of a flat sequence, any root occurrence range -/
theorem SeqCtxR.distinguishableR (h : SeqCtxR M r rhi items) (hr0 : rhi ≠ some 0) {p1 midl p2 : List FItem}
    {it jt : FItem} (hsplit : items = (p1 ++ it :: midl) ++ jt :: p2)
    (hd : M.distinguishable ([r] ++ [it.id]) ([r] ++ [jt.id]) = false) :
    Bad1 it midl ∨ Bad2 rhi p1 jt p2 := by
  have hit : it ∈ items := by rw [hsplit]; simp
  have hjt : jt ∈ items := by rw [hsplit]; simp
  have hids := h.ids
  rw [hsplit] at hids
  have hij : it.id ≠ jt.id := (List.pairwise_append.mp hids).2.2 it (by simp) jt (by simp)
  have hir : it.id ≠ r := h.rootId it hit
  have hcont : (M.node r).content = ((p1.map (·.id) ++ it.id :: midl.map (·.id)) ++ jt.id :: p2.map (·.id)) := by
    rw [h.content, hsplit]; simp
  have hi1 : it.id ∉ p1.map (·.id) := by
    intro hm
    obtain ⟨k, hk, hkid⟩ := List.mem_map.mp hm
    have h1 := (List.pairwise_append.mp hids).1
    exact (List.pairwise_append.mp h1).2.2 k hk it (by simp) hkid
  have hj1 : jt.id ∉ (p1.map (·.id) ++ it.id :: midl.map (·.id)) := by
    intro hm
    have : jt.id ∈ (p1 ++ it :: midl).map (·.id) := by simpa using hm
    obtain ⟨k, hk, hkid⟩ := List.mem_map.mp this
    exact (List.pairwise_append.mp hids).2.2 k hk jt (by simp) hkid
  have hidx1 : M.indexIn r it.id = p1.length := by
    rw [Ctx.indexIn, hcont, List.append_assoc, List.cons_append, idxOf_mid _ _ _ hi1]; simp
  have hidx2 : M.indexIn r jt.id = p1.length + 1 + midl.length := by
    rw [Ctx.indexIn, hcont, idxOf_mid _ _ _ hj1]; simp; omega
  have hmid : M.anyNonEmptiable (((M.node r).content.drop (p1.length + 1)).take (p1.length + 1 + midl.length - (p1.length + 1))) =
      midl.any (fun m => m.lo != 0) := by
    have := drop_take_mid (p1.map (·.id)) it.id (midl.map (·.id)) (jt.id :: p2.map (·.id))
    simp only [List.length_append, List.length_map, List.length_cons] at this
    rw [hcont]
    have e : p1.length + 1 + midl.length - (p1.length + 1) = p1.length + (midl.length + 1) - (p1.length + 1) := by omega
    rw [e, this]
    exact h.anyNonEmptiable midl fun m hm => by rw [hsplit]; simp [hm]
  have hbef : M.anyNonEmptiable ((M.node r).content.take p1.length) = p1.any (fun m => m.lo != 0) := by
    rw [hcont, List.append_assoc, List.take_left' (by simp)]
    exact h.anyNonEmptiable p1 fun m hm => by rw [hsplit]; simp [hm]
  have haft : M.anyNonEmptiable ((M.node r).content.drop (p1.length + 1 + midl.length + 1)) = p2.any (fun m => m.lo != 0) := by
    have e : (p1.map (·.id) ++ it.id :: midl.map (·.id)) ++ jt.id :: p2.map (·.id) =
        ((p1.map (·.id) ++ it.id :: midl.map (·.id)) ++ [jt.id]) ++ p2.map (·.id) := by simp
    rw [hcont, e, List.drop_left' (by simp; omega)]
    exact h.anyNonEmptiable p2 fun m hm => by rw [hsplit]; simp [hm]
  unfold Ctx.distinguishable at hd
  have hf : ([r] ++ [it.id]).findIdx? (fun e => !([r] ++ [jt.id]).contains e) = some 1 := by
    simp [List.findIdx?_cons, hij, hir]
  rw [hf] at hd
  have hr0' : (rhi == some 0) = false := by simpa using hr0
  simp only [Nat.sub_self, List.getD_cons_zero, List.cons_append, List.nil_append, List.getD_cons_succ,
    h.rootHi, h.rootSeq, hidx1, hidx2, hmid, hbef, haft, pairsFrom, List.drop_succ_cons, List.drop_zero, List.drop_nil,
    List.zip_nil_right, Ctx.walk, List.getLast?_cons_cons, List.getLast?_singleton, Option.getD_some, hr0',
    h.univocal hit, h.univocal hjt] at hd
  have key : ((it.hi == some it.lo) = false ∧ (midl.any fun m => m.lo != 0) = false) ∨
      ((rhi == some 1) = false ∧ (jt.hi == some jt.lo) = false ∧ (p1.any fun m => m.lo != 0) = false ∧
        (p2.any fun m => m.lo != 0) = false) := by
    generalize (midl.any fun m => m.lo != 0) = mid at hd
    generalize (p1.any fun m => m.lo != 0) = b1 at hd
    generalize (p2.any fun m => m.lo != 0) = a2 at hd
    generalize (it.hi == some it.lo) = u1 at hd
    generalize (jt.hi == some jt.lo) = u2 at hd
    generalize (rhi == some 1) = one at hd
    cases mid <;> cases b1 <;> cases a2 <;> cases u1 <;> cases u2 <;> cases one <;> simp_all
  rcases key with ⟨k1, k2⟩ | ⟨k1, k2, k3, k4⟩
  · exact .inl ⟨by simpa using k1, any_nz_false k2⟩
  · exact .inr ⟨by simpa using k1, by simpa using k2, any_nz_false k3, any_nz_false k4⟩

/-- a refusal of the port for one entry of `paths` on a flat sequence, any root range, any variant: the two
    particles have the same name and are in an in-iteration or a wrap-around conflict -/
theorem SeqCtxR.pairErr_some (h : SeqCtxR M r rhi items) (hr0 : rhi ≠ some 0) {p1 midl p2 : List FItem}
    {it jt : FItem} (hsplit : items = (p1 ++ it :: midl) ++ jt :: p2) {err : CMErr}
    (hp : M.pairErr jt.id [r] ⟨M.key it.id, it.id, [r]⟩ = some err) :
    it.name = jt.name ∧ (Bad1 it midl ∨ Bad2 rhi p1 jt p2) := by
  have hit : it ∈ items := by rw [hsplit]; simp
  have hjt : jt ∈ items := by rw [hsplit]; simp
  have hids := h.ids
  rw [hsplit] at hids
  have hij : it.id ≠ jt.id := (List.pairwise_append.mp hids).2.2 it (by simp) jt (by simp)
  unfold Ctx.pairErr at hp
  simp only [h.consistent hit hjt, Bool.not_true, Bool.false_eq_true, if_false, h.overlap hit hjt,
    beq_eq_false_iff_ne.mpr hij, Bool.and_false, Bool.false_or] at hp
  by_cases hn : it.name = jt.name
  · refine ⟨hn, ?_⟩
    simp only [hn, beq_self_eq_true, Bool.not_true, Bool.false_eq_true, if_false] at hp
    apply h.distinguishableR hr0 hsplit
    apply Classical.byContradiction
    intro hd
    have hd' : M.distinguishable [r, it.id] [r, jt.id] = true := by simpa using hd
    unfold Ctx.upaStep Ctx.stage1 at hp
    by_cases hc : (M.univocal it.id = true ∧ (M.fx.repSeq = false ∨ (M.node r).hi = some 1))
    · by_cases hs : M.fx.shared = true <;> simp [hs, hc, h.rootSeq] at hp
    · by_cases hs : M.fx.shared = true <;> simp [hs, hc, h.rootSeq, stage2_snd, Ctx.stage2Err, hd'] at hp
  · simp [hn] at hp

/-- every error of the outer loop is the verdict of a visited particle against an EARLIER visited one -/
theorem outer_err_split (M : Ctx) : ∀ (l : List (Nat × List Nat)) (d : List Entry) (acc : Acc)
    (seen : List (Nat × List Nat)) (err : CMErr),
    (∀ en ∈ d, (en.leaf, en.path) ∈ seen) → (M.outer l d acc).err = some err →
    ∃ l1 e cp l2 en, l = l1 ++ (e, cp) :: l2 ∧ (en.leaf, en.path) ∈ seen ++ l1 ∧ M.pairErr e cp en = some err := by
  intro l
  induction l with
  | nil => intro d acc seen err _ h; simp [Ctx.outer] at h
  | cons hd rest ih =>
    obtain ⟨e, cp⟩ := hd
    intro d acc seen err hd h
    unfold Ctx.outer at h
    cases hres : M.against e cp d acc with
    | mk acc' o =>
      have hs := against_snd M e cp d acc
      rw [hres] at h hs
      cases o with
      | some err' =>
        simp only [Option.some.injEq] at h
        subst h
        obtain ⟨en, hen, hp⟩ := List.exists_of_findSome?_eq_some hs.symm
        exact ⟨[], e, cp, rest, en, rfl, by simpa using hd en hen, hp⟩
      | none =>
        simp only [] at h
        obtain ⟨l1, e2, cp2, l2, en, hl, hm, hp⟩ := ih _ acc' (seen ++ [(e, cp)]) err (by
          intro en hen
          rcases (mem_dictSet _ _ _).mp hen with rfl | ⟨hen, _⟩
          · simp
          · simp [hd en hen]) h
        exact ⟨(e, cp) :: l1, e2, cp2, l2, en, by simp [hl], by simpa [List.append_assoc] using hm, hp⟩

theorem filter_split {p : FItem → Bool} {items L1 L2 : List FItem} {it jt : FItem}
    (h : items.filter p = L1 ++ jt :: L2) (hit : it ∈ L1) :
    ∃ p1 midl p2, items = (p1 ++ it :: midl) ++ jt :: p2 := by
  obtain ⟨A, B, rfl, hA, hB⟩ := List.filter_eq_append_iff.mp h
  obtain ⟨B1, B2, rfl, _, _, _⟩ := List.filter_eq_cons_iff.mp hB
  have : it ∈ A := by
    have : it ∈ A.filter p := by rw [hA]; exact hit
    exact (List.mem_filter.mp this).1
  obtain ⟨p1, q, rfl⟩ := List.append_of_mem this
  exact ⟨p1, q ++ B1, B2, by simp⟩

/-- **M on flat sequences, any root range, every variant**: a refused model contains two particles of one name in
    an in-iteration or a wrap-around conflict -/
theorem SeqCtxR.refused_bad (h : SeqCtxR M r rhi items) (hr0 : rhi ≠ some 0) (lo : Nat)
    (hacc : M.accepts (flatSeq r lo rhi items) = false) :
    ∃ p1 it midl jt p2, items = (p1 ++ it :: midl) ++ jt :: p2 ∧ it.hi ≠ some 0 ∧ jt.hi ≠ some 0 ∧
      it.name = jt.name ∧ (Bad1 it midl ∨ Bad2 rhi p1 jt p2) := by
  have hv : M.visited (flatSeq r lo rhi items) = (live items).map fun it => (it.id, [r]) := by
    simp [Ctx.visited, flatSeq, Particle.maxIsZero, Particle.leafPaths, leafPaths_mkParticles, live, hr0]
  have herr : ∃ err, (M.outer (M.visited (flatSeq r lo rhi items)) [] {}).err = some err := by
    simp only [Ctx.accepts, Ctx.checkModel] at hacc
    cases hh : (M.outer (M.visited (flatSeq r lo rhi items)) [] {}).err with
    | none => rw [hh] at hacc; simp at hacc
    | some err => exact ⟨err, rfl⟩
  obtain ⟨err, herr⟩ := herr
  obtain ⟨l1, e, cp, l2, en, hl, hm, hp⟩ := outer_err_split M _ [] {} [] err (fun en hen => nomatch hen) herr
  rw [hv] at hl
  obtain ⟨L1, L', hL, hl1, hl'⟩ := List.map_eq_append_iff.mp hl
  obtain ⟨jt, L2, rfl, hj, _⟩ := List.map_eq_cons_iff.mp hl'
  simp only [List.nil_append, ← hl1, List.mem_map] at hm
  obtain ⟨it, hit, hite⟩ := hm
  obtain ⟨p1, midl, p2, hsplit⟩ := filter_split (p := fun it => it.hi != some 0) hL hit
  have hitl : it.hi ≠ some 0 := by
    have : it ∈ live items := by rw [hL]; simp [hit]
    simpa [live] using (List.mem_filter.mp this).2
  have hjtl : jt.hi ≠ some 0 := by
    have : jt ∈ live items := by rw [hL]; simp
    simpa [live] using (List.mem_filter.mp this).2
  simp only [Prod.mk.injEq] at hj hite
  obtain ⟨rfl, rfl⟩ := hj
  have hp' : M.pairErr jt.id [r] ⟨M.key it.id, it.id, [r]⟩ = some err := by
    have : en.leaf = it.id ∧ en.path = [r] := ⟨hite.1.symm, hite.2.symm⟩
    unfold Ctx.pairErr at hp ⊢
    simpa only [this.1, this.2] using hp
  obtain ⟨hn, hb⟩ := h.pairErr_some hr0 hsplit hp'
  exact ⟨p1, it, midl, jt, p2, hsplit, hitl, hjtl, hn, hb⟩

/-! ### S side: the two words -/

theorem lang_flatSeq_of_iters {r lo : Nat} {rhi : Option Nat} {items : List FItem} (ws : List (List ASym))
    (hall : ∀ x ∈ ws, SeqW items x) (hlo : lo ≤ ws.length) (hhi : leHi ws.length rhi) :
    Lang mm (flatSeq r lo rhi items).toRx ws.flatten := by
  simp only [flatSeq, Particle.toRx, Lang]
  exact ⟨ws, rfl, hlo, hhi, fun x hx => (lang_toSeq_iff items x).mpr (hall x hx)⟩

theorem lang_flatSeq_syms {r lo : Nat} {rhi : Option Nat} {items : List FItem} {w : List ASym}
    (h : Lang mm (flatSeq r lo rhi items).toRx w) : ∀ c ∈ w, ∃ it ∈ items, c = it.sym := by
  simp only [flatSeq, Particle.toRx, Lang] at h
  obtain ⟨ws, rfl, _, _, hall⟩ := h
  intro c hc
  obtain ⟨x, hx, hcx⟩ := List.mem_flatten.mp hc
  exact seqW_syms ((lang_toSeq_iff items x).mp (hall x hx)) c hcx

theorem leHi_two {lo : Nat} {hi : Option Nat} (hle : loLeHi lo hi = true) (h0 : hi ≠ some 0) (h1 : hi ≠ some 1) :
    leHi (2 + (lo - 2)) hi := by
  cases hi with
  | none => trivial
  | some k =>
    simp only [loLeHi, decide_eq_true_eq] at hle
    simp only [leHi]
    have : k ≠ 0 := fun h => h0 (by rw [h])
    have : k ≠ 1 := fun h => h1 (by rw [h])
    omega

theorem leHi_of_loLeHi {lo : Nat} {hi : Option Nat} (hle : loLeHi lo hi = true) : leHi lo hi := by
  cases hi with
  | none => trivial
  | some k => simpa [loLeHi, leHi] using hle

/-- **bad pair ⇒ conflict**, any root occurrence range other than `maxOccurs = 0` -/
theorem flatSeq_conflict {r lo : Nat} {rhi : Option Nat} {items : List FItem}
    (hocc : ∀ it ∈ items, loLeHi it.lo it.hi = true) (hids : items.Pairwise (fun a b => a.id ≠ b.id))
    (hr0 : rhi ≠ some 0) (hro : loLeHi lo rhi = true) {p1 midl p2 : List FItem} {it jt : FItem}
    (hsplit : items = (p1 ++ it :: midl) ++ jt :: p2) (hil : it.hi ≠ some 0) (hjl : jt.hi ≠ some 0)
    (hn : it.name = jt.name) (hb : Bad1 it midl ∨ Bad2 rhi p1 jt p2) :
    ∃ (u v1 v2 : List ASym) (a : QN) (x y : Nat), x ≠ y ∧
      Lang mm (flatSeq r lo rhi items).toRx (u ++ (a, x) :: v1) ∧
      Lang mm (flatSeq r lo rhi items).toRx (u ++ (a, y) :: v2) := by
  have hmin : SeqW items (minW items) := seqW_minW items hocc
  rcases hb with ⟨hu, hm⟩ | ⟨h1, hu, hbef, haft⟩
  · obtain ⟨u, v1, v2, a, x, y, hxy, w1, w2⟩ := badS_conflict hocc hids
      ⟨p1, it, midl, jt, p2, hsplit, hn, hu, hil, hjl, hm⟩
    refine ⟨u, v1 ++ (List.replicate (lo - 1) (minW items)).flatten,
      v2 ++ (List.replicate (lo - 1) (minW items)).flatten, a, x, y, hxy, ?_, ?_⟩
    · have := lang_flatSeq_of_iters (r := r) (lo := lo) (rhi := rhi)
        ((u ++ (a, x) :: v1) :: List.replicate (lo - 1) (minW items))
        (by intro z hz; rcases List.mem_cons.mp hz with rfl | hz
            · exact w1
            · rw [(List.mem_replicate.mp hz).2]; exact hmin)
        (by simp; omega) (by simpa using leHi_max_one hro hr0)
      simpa [List.append_assoc] using this
    · have := lang_flatSeq_of_iters (r := r) (lo := lo) (rhi := rhi)
        ((u ++ (a, y) :: v2) :: List.replicate (lo - 1) (minW items))
        (by intro z hz; rcases List.mem_cons.mp hz with rfl | hz
            · exact w2
            · rw [(List.mem_replicate.mp hz).2]; exact hmin)
        (by simp; omega) (by simpa using leHi_max_one hro hr0)
      simpa [List.append_assoc] using this
  · -- wrap-around: `jt` once more, or a new iteration that starts with `it`
    have occ : ∀ l : List FItem, (∀ m ∈ l, m ∈ items) → SeqW l (minW l) :=
      fun l hl => seqW_minW l fun m hm => hocc m (hl m hm)
    have hpre := occ (p1 ++ it :: midl) (fun m hm => by rw [hsplit]; exact List.mem_append_left _ hm)
    have hp1 := occ p1 (fun m hm => by rw [hsplit]; simp [hm])
    have hp2 := occ p2 (fun m hm => by rw [hsplit]; simp [hm])
    have hrest := occ (midl ++ jt :: p2) (fun m hm => by
      rw [hsplit]
      rcases List.mem_append.mp hm with hm | hm
      · simp [hm]
      · rcases List.mem_cons.mp hm with rfl | hm
        · simp
        · simp [hm])
    have hp1e : minW p1 = [] := minW_emptiable p1 hbef
    have hp2e : minW p2 = [] := minW_emptiable p2 haft
    have hjocc := hocc jt (by rw [hsplit]; simp)
    have hiocc := hocc it (by rw [hsplit]; simp)
    have hne : jt.id ≠ it.id := by
      rw [hsplit] at hids
      exact Ne.symm ((List.pairwise_append.mp hids).2.2 it (by simp) jt (by simp))
    -- one iteration in which `jt` is taken `lo + 1` times
    have X1 : SeqW items ((minW (p1 ++ it :: midl) ++ List.replicate jt.lo jt.sym) ++ jt.sym :: minW p2) := by
      have hj : SeqW (jt :: p2) (List.replicate (jt.lo + 1) jt.sym ++ minW p2) :=
        .cons (jt.lo + 1) (Nat.le_succ _) (leHi_succ_of_ne hjocc hu) hp2
      have := seqW_append hpre hj
      rw [List.replicate_succ'] at this
      rw [hsplit]
      simpa [List.append_assoc] using this
    -- the iteration that stops after `jt` was taken `lo` times
    have Y1 : SeqW items (minW (p1 ++ it :: midl) ++ List.replicate jt.lo jt.sym) := by
      have hj : SeqW (jt :: p2) (List.replicate jt.lo jt.sym ++ minW p2) :=
        .cons jt.lo (Nat.le_refl _) (leHi_of_loLeHi hjocc) hp2
      have := seqW_append hpre hj
      rw [hp2e, List.append_nil] at this
      rw [hsplit]
      exact this
    -- the next iteration, which starts with `it`
    have Y2 : SeqW items (it.sym :: (List.replicate (it.lo - 1) it.sym ++ minW (midl ++ jt :: p2))) := by
      have hi : SeqW (it :: (midl ++ jt :: p2)) (List.replicate (it.lo - 1 + 1) it.sym ++ minW (midl ++ jt :: p2)) :=
        .cons (it.lo - 1 + 1) (by omega) (leHi_max_one hiocc hil) hrest
      have := seqW_append hp1 hi
      rw [hp1e, List.nil_append, List.replicate_succ] at this
      rw [hsplit]
      simpa [List.append_assoc] using this
    refine ⟨minW (p1 ++ it :: midl) ++ List.replicate jt.lo jt.sym,
      minW p2 ++ (List.replicate (lo - 1) (minW items)).flatten,
      (List.replicate (it.lo - 1) it.sym ++ minW (midl ++ jt :: p2)) ++ (List.replicate (lo - 2) (minW items)).flatten,
      jt.name, jt.id, it.id, hne, ?_, ?_⟩
    · have := lang_flatSeq_of_iters (r := r) (lo := lo) (rhi := rhi)
        (((minW (p1 ++ it :: midl) ++ List.replicate jt.lo jt.sym) ++ jt.sym :: minW p2) ::
          List.replicate (lo - 1) (minW items))
        (by intro z hz; rcases List.mem_cons.mp hz with rfl | hz
            · exact X1
            · rw [(List.mem_replicate.mp hz).2]; exact hmin)
        (by simp; omega) (by simpa using leHi_max_one hro hr0)
      simpa [FItem.sym, List.append_assoc] using this
    · have := lang_flatSeq_of_iters (r := r) (lo := lo) (rhi := rhi)
        ((minW (p1 ++ it :: midl) ++ List.replicate jt.lo jt.sym) ::
          (it.sym :: (List.replicate (it.lo - 1) it.sym ++ minW (midl ++ jt :: p2))) ::
          List.replicate (lo - 2) (minW items))
        (by intro z hz
            rcases List.mem_cons.mp hz with rfl | hz
            · exact Y1
            · rcases List.mem_cons.mp hz with rfl | hz
              · exact Y2
              · rw [(List.mem_replicate.mp hz).2]; exact hmin)
        (by simp; omega)
        (by
          have := leHi_two hro hr0 h1
          have e : (List.replicate (lo - 2) (minW items)).length + 1 + 1 = 2 + (lo - 2) := by simp; omega
          simp only [List.length_cons]
          rw [e]; exact this)
      simpa [FItem.sym, hn, List.append_assoc] using this

end XsVerif.CM
