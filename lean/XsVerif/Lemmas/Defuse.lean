/-
  Helper lemmas for C13: the DefusableReader model refines a plain byte list with a cursor.
-/
import XsVerif.Model.Defuse

namespace XsVerif.Defuse

/-- abstraction invariant: the buffer is a prefix of the stream `s`, and what the underlying
    stream still holds is `s` from the furthest point reached -/
def Inv (s : List Nat) (r : Reader) : Prop :=
  r.buf = s.take r.buf.length ∧ r.rest = s.drop (max r.pos r.buf.length)

theorem Inv.buf_le {s : List Nat} {r : Reader} (h : Inv s r) : r.buf.length ≤ s.length := by
  have := congrArg List.length h.1
  simp at this
  omega

theorem drop_add_min (s : List Nat) (p n : Nat) :
    s.drop (p + min n (s.length - p)) = s.drop (p + n) := by
  by_cases h : n ≤ s.length - p
  · rw [Nat.min_eq_left h]
  · rw [Nat.min_eq_right (by omega)]
    rw [List.drop_eq_nil_of_le (by omega), List.drop_eq_nil_of_le (by omega)]

theorem init_inv (size : Nat) (s : List Nat) : Inv s (Reader.init size s) := by
  unfold Inv Reader.init
  simp only [List.length_take]
  constructor
  · rw [List.take_eq_take_iff]; simp
  · generalize (if size < 8192 then 8192 else size) = b
    by_cases hb : b ≤ s.length
    · congr 1; omega
    · rw [List.drop_eq_nil_of_le (by omega), List.drop_eq_nil_of_le (by omega)]

theorem split_stream {s : List Nat} {r : Reader} (h : Inv s r) (hp : r.pos < r.buf.length) :
    s.drop r.pos = r.buf.drop r.pos ++ r.rest := by
  have hb := h.buf_le
  have h2 : r.rest = s.drop r.buf.length := by rw [h.2]; congr 1; omega
  have hs : s = r.buf ++ r.rest := by
    rw [h2]; conv => lhs; rw [← List.take_append_drop r.buf.length s]
    rw [← h.1]
  conv => lhs; rw [hs]
  rw [List.drop_append_of_le_length (by omega)]

/-- `read` returns exactly the bytes of the stream at the cursor and keeps the invariant -/
theorem read_refines {s : List Nat} {r : Reader} (h : Inv s r) (n : Option Nat) :
    (r.read n).1 = (match n with | some k => (s.drop r.pos).take k | none => s.drop r.pos) ∧
    Inv s (r.read n).2 ∧ (r.read n).2.pos = r.pos + (r.read n).1.length ∧
    (r.read n).2.buf = r.buf := by
  have hb := h.buf_le
  cases n with
  | some n =>
    unfold Reader.read
    by_cases hp : r.buf.length ≤ r.pos
    · have hr : r.rest = s.drop r.pos := by rw [h.2]; congr 1; omega
      simp only [hp, if_true]
      refine ⟨by rw [hr], ⟨h.1, ?_⟩, by simp, by simp⟩
      simp only [hr, List.drop_drop, List.length_take, List.length_drop]
      rw [show max (r.pos + min n (s.length - r.pos)) r.buf.length = r.pos + min n (s.length - r.pos) by omega]
      rw [drop_add_min]
    · have hp' : r.pos < r.buf.length := by omega
      have hs := split_stream h hp'
      have h2 : r.rest = s.drop r.buf.length := by rw [h.2]; congr 1; omega
      simp only [hp, if_false]
      by_cases hn : n ≤ (r.buf.drop r.pos).length
      · simp only [hn, if_true]
        refine ⟨by rw [hs, List.take_append_of_le_length hn], ⟨h.1, ?_⟩, by simp, by simp⟩
        simp only [List.length_take, List.length_drop] at hn ⊢
        rw [h.2]; congr 1; omega
      · simp only [hn, if_false]
        have hn' : (r.buf.drop r.pos).length ≤ n := by omega
        refine ⟨?_, ⟨h.1, ?_⟩, by simp, by simp⟩
        · rw [hs, List.take_append, List.take_of_length_le hn']
        · rw [h2, List.drop_drop]
          simp only [List.length_append, List.length_take, List.length_drop] at hn ⊢
          have e : max (r.pos + (r.buf.length - r.pos + min (n - (r.buf.length - r.pos)) (s.length - r.buf.length)))
              r.buf.length = r.buf.length + min (n - (r.buf.length - r.pos)) (s.length - r.buf.length) := by omega
          rw [e, drop_add_min]
  | none =>
    unfold Reader.read
    by_cases hp : r.buf.length ≤ r.pos
    · have hr : r.rest = s.drop r.pos := by rw [h.2]; congr 1; omega
      simp only [hp, if_true]
      refine ⟨hr, ⟨h.1, ?_⟩, by simp, by simp⟩
      simp only [hr, List.length_drop]
      rw [List.drop_eq_nil_of_le (by omega)]
    · have hp' : r.pos < r.buf.length := by omega
      have hs := split_stream h hp'
      have h2 : r.rest = s.drop r.buf.length := by rw [h.2]; congr 1; omega
      simp only [hp, if_false]
      refine ⟨hs.symm, ⟨h.1, ?_⟩, by simp, by simp⟩
      simp only [List.length_append, List.length_drop, h2]
      rw [List.drop_eq_nil_of_le (by omega)]

theorem seek_refines {s : List Nat} {r r' : Reader} {p : Nat} (h : Inv s r)
    (hs : r.seek p = some r') : Inv s r' ∧ r'.pos = p ∧ r'.buf = r.buf := by
  unfold Reader.seek at hs
  split at hs
  · cases hs
  · split at hs
    · cases hs
    · cases hs
      refine ⟨⟨h.1, ?_⟩, rfl, rfl⟩
      simp only
      rw [h.2]; congr 1; omega

/-! ### the scan as a reader script -/

theorem readBlocks_refines {s : List Nat} (k : Nat) :
    ∀ {r : Reader}, Inv s r → r.pos ≤ s.length →
      Inv s (r.readBlocks k) ∧ (r.readBlocks k).pos = min s.length (r.pos + k * blockSize) ∧
      (r.readBlocks k).buf = r.buf := by
  induction k with
  | zero => intro r h hp; exact ⟨h, by simp [Reader.readBlocks]; omega, rfl⟩
  | succ k ih =>
    intro r h hp
    obtain ⟨h1, h2, h3, h4⟩ := read_refines h (some blockSize)
    simp only at h1
    have hlen : (r.read (some blockSize)).1.length = min blockSize (s.length - r.pos) := by
      rw [h1]; simp
    have hp' : (r.read (some blockSize)).2.pos ≤ s.length := by rw [h3, hlen]; omega
    obtain ⟨i1, i2, i3⟩ := ih h2 hp'
    refine ⟨i1, ?_, by simp only [Reader.readBlocks]; rw [i3, h4]⟩
    simp only [Reader.readBlocks]
    rw [i2, h3, hlen]
    have : (k + 1) * blockSize = blockSize + k * blockSize := by
      rw [Nat.add_mul]; omega
    rw [this]
    omega

/-! ### traces of a build -/

/-- a `parsed` event of a resource for which defusing applies directly follows the `scanned`
    event of the same resource, and the resource is not one that must be refused -/
def parseOk (m : Mode) (prev : Option Ev) : Ev → Prop
  | .parsed r => isDefused m r.base = true → prev = some (.scanned r) ∧ r.mustRefuse = false
  | _ => True

def okFrom (m : Mode) : Option Ev → List Ev → Prop
  | _, [] => True
  | prev, e :: t => parseOk m prev e ∧ okFrom m (some e) t

def lastOr (prev : Option Ev) : List Ev → Option Ev
  | [] => prev
  | e :: t => lastOr (some e) t

theorem okFrom_append (m : Mode) (a b : List Ev) :
    ∀ prev, okFrom m prev (a ++ b) ↔ okFrom m prev a ∧ okFrom m (lastOr prev a) b := by
  induction a with
  | nil => intro prev; simp [okFrom, lastOr]
  | cons e t ih =>
    intro prev
    simp only [List.cons_append, okFrom, lastOr, ih (some e)]
    exact and_assoc.symm

/-- reading the invariant back as a statement about positions in the trace -/
theorem okFrom_spec (m : Mode) (r : Res) (post : List Ev) (hd : isDefused m r.base = true) :
    ∀ (pre : List Ev) (prev : Option Ev), okFrom m prev (pre ++ .parsed r :: post) →
      r.mustRefuse = false ∧ lastOr prev pre = some (.scanned r) := by
  intro pre
  induction pre with
  | nil =>
    intro prev h
    simp only [List.nil_append, okFrom, parseOk] at h
    exact ⟨(h.1 hd).2, (h.1 hd).1⟩
  | cons e t ih =>
    intro prev h
    simp only [List.cons_append, okFrom] at h
    exact ih (some e) h.2

theorem lastOr_some_iff (pre : List Ev) (e : Ev) (h : lastOr none pre = some e) :
    ∃ pre', pre = pre' ++ [e] := by
  have gen : ∀ (pre : List Ev) (prev : Option Ev), lastOr prev pre = some e →
      (pre = [] ∧ prev = some e) ∨ ∃ pre', pre = pre' ++ [e] := by
    intro pre
    induction pre with
    | nil => intro prev h; exact Or.inl ⟨rfl, h⟩
    | cons x t ih =>
      intro prev h
      rcases ih (some x) h with ⟨ht, hx⟩ | ⟨p', hp'⟩
      · cases hx; subst ht; exact Or.inr ⟨[], rfl⟩
      · exact Or.inr ⟨x :: p', by rw [hp']; rfl⟩
  rcases gen pre none h with ⟨-, hn⟩ | h'
  · cases hn
  · exact h'

theorem plan_ne_noDefuse (m : Mode) (b : BaseClass) (ch : Chan) (hd : isDefused m b = true) :
    plan m b ch ≠ .noDefuse := by
  unfold plan
  simp only [hd, Bool.not_true, Bool.false_eq_true, if_false]
  repeat' split
  all_goals simp

theorem resEvents_ok (m : Mode) (r : Res) : ∀ prev, okFrom m prev (resEvents m r) := by
  intro prev
  by_cases hd : isDefused m r.base = true
  · have hp : plan m r.base r.ch ≠ .noDefuse := plan_ne_noDefuse m r.base r.ch hd
    by_cases ho : resOutcome m r = .parsed
    · have hmr : r.mustRefuse = false := by
        unfold resOutcome outcomeDoc at ho
        cases hpl : plan m r.base r.ch <;> cases hm : r.mustRefuse <;> simp_all [outcome]
      have hnr : plan m r.base r.ch ≠ .refuse := by
        intro e
        unfold resOutcome outcomeDoc at ho
        simp [e, outcome] at ho
      unfold resEvents
      cases hpl : plan m r.base r.ch <;> simp_all [okFrom, parseOk]
    · unfold resEvents
      cases hpl : plan m r.base r.ch <;> simp_all [okFrom, parseOk]
  · have hd' : isDefused m r.base = false := by simpa using hd
    unfold resEvents
    cases hpl : plan m r.base r.ch <;> by_cases ho : resOutcome m r = .parsed <;>
      simp [okFrom, parseOk, hd', ho]

theorem build_ok (m : Mode) (f : Forest) : ∀ prev, okFrom m prev (build m f).1 := by
  induction f with
  | nil => intro prev; simp [build, okFrom]
  | cons r k c s ihc ihs =>
    intro prev
    have hr := resEvents_ok m r
    by_cases ho : resOutcome m r = .parsed
    · cases hc : (build m c).2 with
      | ok =>
        have e : (build m (.cons r k c s)).1 = (resEvents m r ++ (build m c).1) ++ (build m s).1 := by
          simp [build, ho, hc]
        rw [e, okFrom_append, okFrom_append]
        exact ⟨⟨hr _, ihc _⟩, ihs _⟩
      | raised o =>
        by_cases hs : swallowed k o = true
        · have e : (build m (.cons r k c s)).1 = (resEvents m r ++ (build m c).1) ++ (build m s).1 := by
            simp [build, ho, hc, hs]
          rw [e, okFrom_append, okFrom_append]
          exact ⟨⟨hr _, ihc _⟩, ihs _⟩
        · have e : (build m (.cons r k c s)).1 = resEvents m r ++ (build m c).1 := by
            simp [build, ho, hc, hs]
          rw [e, okFrom_append]
          exact ⟨hr _, ihc _⟩
    · by_cases hs : swallowed k (resOutcome m r) = true
      · have e : (build m (.cons r k c s)).1 = resEvents m r ++ (build m s).1 := by
          simp [build, ho, hs]
        rw [e, okFrom_append]
        exact ⟨hr _, ihs _⟩
      · have e : (build m (.cons r k c s)).1 = resEvents m r := by
          simp [build, ho, hs]
        rw [e]
        exact hr _

end XsVerif.Defuse
