/-
  Helper lemmas for C13: the DefusableReader model refines a plain byte list with a cursor.
-/
import XsVerif.Model.Defuse

namespace XsVerif.Defuse

/-- abstraction invariant: the buffer is a prefix of the stream `s`, what the underlying stream
    still holds is `s` from the furthest point reached, and a growing reader has never been beyond
    its buffer -/
def Inv (s : List Nat) (r : Reader) : Prop :=
  r.buf = s.take r.buf.length ∧ r.rest = s.drop (max r.pos r.buf.length) ∧
  (r.grow = true → r.pos ≤ r.buf.length)

theorem Inv.buf_le {s : List Nat} {r : Reader} (h : Inv s r) : r.buf.length ≤ s.length := by
  have := congrArg List.length h.1
  simp at this
  omega

theorem drop_add_min (s : List Nat) (p n : Nat) :
    s.drop (p + min n (s.length - p)) = s.drop (p + n) := by
  by_cases h : n ≤ s.length - p
  · rw [Nat.min_eq_left h]
  · rw [Nat.min_eq_right (by omega)]
    rw [List.drop_eq_nil_of_le (by omega), List.drop_eq_nil_of_le (by omega)]

theorem init_inv (g : Bool) (size : Nat) (s : List Nat) : Inv s (Reader.init g size s) := by
  unfold Inv Reader.init
  simp only [List.length_take]
  refine ⟨?_, ?_, fun _ => Nat.zero_le _⟩
  · rw [List.take_eq_take_iff]; simp
  · generalize (if size < 8192 then 8192 else size) = b
    by_cases hb : b ≤ s.length
    · congr 1; omega
    · rw [List.drop_eq_nil_of_le (by omega), List.drop_eq_nil_of_le (by omega)]

theorem split_stream {s : List Nat} {r : Reader} (h : Inv s r) (hp : r.pos < r.buf.length) :
    s.drop r.pos = r.buf.drop r.pos ++ r.rest := by
  have hb := h.buf_le
  have h2 : r.rest = s.drop r.buf.length := by rw [h.2.1]; congr 1; omega
  have hs : s = r.buf ++ r.rest := by
    rw [h2]; conv => lhs; rw [← List.take_append_drop r.buf.length s]
    rw [← h.1]
  conv => lhs; rw [hs]
  rw [List.drop_append_of_le_length (by omega)]

/-- appending the next piece of the stream to a prefix of it gives a prefix -/
theorem prefix_extend {s buf : List Nat} (h : buf = s.take buf.length) (k : Nat) :
    buf ++ (s.drop buf.length).take k = s.take (buf ++ (s.drop buf.length).take k).length := by
  have hb : buf.length ≤ s.length := by
    have := congrArg List.length h; simp at this; omega
  simp only [List.length_append, List.length_take, List.length_drop]
  conv => lhs; rw [h]
  rw [List.length_take, Nat.min_eq_left hb]
  by_cases hk : k ≤ s.length - buf.length
  · rw [Nat.min_eq_left hk, List.take_add]
  · rw [Nat.min_eq_right (by omega), List.take_add]
    congr 1
    rw [List.take_of_length_le (by simp; omega), List.take_of_length_le (by simp)]

/-- `read` returns exactly the bytes of the stream at the cursor and keeps the invariant -/
theorem read_refines {s : List Nat} {r : Reader} (h : Inv s r) (n : Option Nat) :
    (r.read n).1 = (match n with | some k => (s.drop r.pos).take k | none => s.drop r.pos) ∧
    Inv s (r.read n).2 ∧ (r.read n).2.pos = r.pos + (r.read n).1.length ∧
    (r.read n).2.grow = r.grow ∧
    (r.read n).2.buf.length = if r.grow then max r.buf.length (r.read n).2.pos else r.buf.length := by
  have hb := h.buf_le
  obtain ⟨hi1, hi2, hi3⟩ := h
  cases hg : r.grow with
  | false =>
    -- the reader of the tree without the repair: the buffer never changes
    cases n with
    | some n =>
      unfold Reader.read
      by_cases hp : r.buf.length ≤ r.pos
      · have hr : r.rest = s.drop r.pos := by rw [hi2]; congr 1; omega
        simp only [hp, if_true, hg, Bool.false_eq_true, if_false]
        refine ⟨by rw [hr], ⟨hi1, ?_, by simp [hg]⟩, by simp, by simp [hg], by simp⟩
        simp only [hr, List.drop_drop, List.length_take, List.length_drop]
        rw [show max (r.pos + min n (s.length - r.pos)) r.buf.length = r.pos + min n (s.length - r.pos) by omega]
        rw [drop_add_min]
      · have hp' : r.pos < r.buf.length := by omega
        have hs := split_stream ⟨hi1, hi2, hi3⟩ hp'
        have h2 : r.rest = s.drop r.buf.length := by rw [hi2]; congr 1; omega
        simp only [hp, if_false, hg, Bool.false_eq_true]
        by_cases hn : n ≤ (r.buf.drop r.pos).length
        · simp only [hn, if_true]
          refine ⟨by rw [hs, List.take_append_of_le_length hn], ⟨hi1, ?_, by simp [hg]⟩, by simp, by simp [hg], by simp⟩
          simp only [List.length_take, List.length_drop] at hn ⊢
          rw [hi2]; congr 1; omega
        · simp only [hn, if_false]
          have hn' : (r.buf.drop r.pos).length ≤ n := by omega
          refine ⟨?_, ⟨hi1, ?_, by simp [hg]⟩, by simp, by simp [hg], by simp⟩
          · rw [hs, List.take_append, List.take_of_length_le hn']
          · rw [h2, List.drop_drop]
            simp only [List.length_append, List.length_take, List.length_drop] at hn ⊢
            have e : max (r.pos + (r.buf.length - r.pos + min (n - (r.buf.length - r.pos)) (s.length - r.buf.length)))
                r.buf.length = r.buf.length + min (n - (r.buf.length - r.pos)) (s.length - r.buf.length) := by omega
            rw [e, drop_add_min]
    | none =>
      unfold Reader.read
      by_cases hp : r.buf.length ≤ r.pos
      · have hr : r.rest = s.drop r.pos := by rw [hi2]; congr 1; omega
        simp only [hp, if_true, hg, Bool.false_eq_true, if_false]
        refine ⟨hr, ⟨hi1, ?_, by simp [hg]⟩, by simp, by simp [hg], by simp⟩
        simp only [hr, List.length_drop]
        rw [List.drop_eq_nil_of_le (by omega)]
      · have hp' : r.pos < r.buf.length := by omega
        have hs := split_stream ⟨hi1, hi2, hi3⟩ hp'
        have h2 : r.rest = s.drop r.buf.length := by rw [hi2]; congr 1; omega
        simp only [hp, if_false, hg, Bool.false_eq_true]
        refine ⟨hs.symm, ⟨hi1, ?_, by simp [hg]⟩, by simp, by simp [hg], by simp⟩
        simp only [List.length_append, List.length_drop, h2]
        rw [List.drop_eq_nil_of_le (by omega)]
  | true =>
    -- the growing reader: everything read beyond the buffer is appended to it
    have hpb : r.pos ≤ r.buf.length := hi3 hg
    have h2 : r.rest = s.drop r.buf.length := by rw [hi2]; congr 1; omega
    cases n with
    | some n =>
      unfold Reader.read
      by_cases hp : r.buf.length ≤ r.pos
      · have hpe : r.pos = r.buf.length := by omega
        simp only [hp, if_true, hg, ↓reduceIte]
        have hpre := prefix_extend hi1 n
        refine ⟨by rw [h2, hpe], ⟨?_, ?_, ?_⟩, by simp, by simp [hg], ?_⟩
        · simp only [h2]; exact hpre
        · simp only [h2, List.drop_drop, List.length_append, List.length_take, List.length_drop, hpe]
          rw [show max (r.buf.length + min n (s.length - r.buf.length))
              (r.buf.length + min n (s.length - r.buf.length)) = r.buf.length + min n (s.length - r.buf.length) by omega]
          rw [drop_add_min]
        · intro _; simp [hpe]
        · simp [hpe]
      · have hp' : r.pos < r.buf.length := by omega
        have hs := split_stream ⟨hi1, hi2, hi3⟩ hp'
        simp only [hp, if_false, hg, ↓reduceIte]
        by_cases hn : n ≤ (r.buf.drop r.pos).length
        · simp only [hn, if_true]
          simp only [List.length_drop] at hn
          refine ⟨by rw [hs, List.take_append_of_le_length (by simpa using hn)], ⟨hi1, ?_, ?_⟩, by simp, by simp [hg], ?_⟩
          · simp only [List.length_take, List.length_drop]
            rw [hi2]; congr 1; omega
          · intro _; simp only [List.length_take, List.length_drop]; omega
          · simp only [List.length_take, List.length_drop, if_true]; omega
        · simp only [hn, if_false]
          have hn' : (r.buf.drop r.pos).length ≤ n := by omega
          have hpre := prefix_extend hi1 (n - (r.buf.drop r.pos).length)
          refine ⟨?_, ⟨?_, ?_, ?_⟩, by simp, by simp [hg], ?_⟩
          · rw [hs, List.take_append, List.take_of_length_le hn']
          · simp only [h2]; exact hpre
          · rw [h2, List.drop_drop]
            simp only [List.length_append, List.length_take, List.length_drop] at hn ⊢
            have e : max (r.pos + (r.buf.length - r.pos + min (n - (r.buf.length - r.pos)) (s.length - r.buf.length)))
                (r.buf.length + min (n - (r.buf.length - r.pos)) (s.length - r.buf.length)) =
                r.buf.length + min (n - (r.buf.length - r.pos)) (s.length - r.buf.length) := by omega
            rw [e, drop_add_min]
          · intro _
            simp only [List.length_append, List.length_take, List.length_drop]; omega
          · simp only [List.length_append, List.length_take, List.length_drop, if_true]; omega
    | none =>
      unfold Reader.read
      have hall : r.buf ++ r.rest = s := by
        rw [h2]; conv => rhs; rw [← List.take_append_drop r.buf.length s]
        rw [← hi1]
      by_cases hp : r.buf.length ≤ r.pos
      · have hpe : r.pos = r.buf.length := by omega
        simp only [hp, if_true, hg, ↓reduceIte]
        refine ⟨by rw [h2, hpe], ⟨?_, ?_, ?_⟩, by simp, by simp [hg], ?_⟩
        · simp only [hall]; simp
        · simp only [hall]; rw [List.drop_eq_nil_of_le (Nat.le_max_right _ _)]
        · intro _; simp only [hall, hpe]
          have := congrArg List.length hall; simp at this; omega
        · simp only [hall, hpe, if_true]
          have := congrArg List.length hall; simp at this; omega
      · have hp' : r.pos < r.buf.length := by omega
        have hs := split_stream ⟨hi1, hi2, hi3⟩ hp'
        simp only [hp, if_false, hg, ↓reduceIte]
        refine ⟨hs.symm, ⟨?_, ?_, ?_⟩, by simp, by simp [hg], ?_⟩
        · simp only [hall]; simp
        · simp only [hall]; rw [List.drop_eq_nil_of_le (Nat.le_max_right _ _)]
        · intro _; simp only [hall, List.length_append, List.length_drop]
          have := congrArg List.length hall; simp at this; omega
        · simp only [hall, List.length_append, List.length_drop, if_true]
          have := congrArg List.length hall; simp at this; omega

theorem seek_refines {s : List Nat} {r r' : Reader} {p : Nat} (h : Inv s r)
    (hs : r.seek p = some r') : Inv s r' ∧ r'.pos = p ∧ r'.buf = r.buf ∧ r'.grow = false := by
  unfold Reader.seek at hs
  split at hs
  · cases hs
  · split at hs
    · cases hs
    · cases hs
      refine ⟨⟨h.1, ?_, by simp⟩, rfl, rfl, rfl⟩
      simp only
      rw [h.2.1]; congr 1; omega

/-! ### the scan as a reader script -/

theorem readBlocks_refines {s : List Nat} (k : Nat) :
    ∀ {r : Reader}, Inv s r → r.pos ≤ s.length →
      Inv s (r.readBlocks k) ∧ (r.readBlocks k).pos = min s.length (r.pos + k * blockSize) ∧
      (r.readBlocks k).grow = r.grow ∧
      (r.readBlocks k).buf.length = if r.grow then max r.buf.length (r.readBlocks k).pos else r.buf.length := by
  induction k with
  | zero =>
    intro r h hp
    refine ⟨h, by simp [Reader.readBlocks]; omega, rfl, ?_⟩
    simp only [Reader.readBlocks]
    cases hg : r.grow
    · simp
    · have := h.2.2 hg; simp; omega
  | succ k ih =>
    intro r h hp
    obtain ⟨h1, h2, h3, h4, h5⟩ := read_refines h (some blockSize)
    simp only at h1
    have hlen : (r.read (some blockSize)).1.length = min blockSize (s.length - r.pos) := by
      rw [h1]; simp
    have hp' : (r.read (some blockSize)).2.pos ≤ s.length := by rw [h3, hlen]; omega
    obtain ⟨i1, i2, i3, i4⟩ := ih h2 hp'
    refine ⟨i1, ?_, by simp only [Reader.readBlocks]; rw [i3, h4], ?_⟩
    · simp only [Reader.readBlocks]
      rw [i2, h3, hlen]
      have : (k + 1) * blockSize = blockSize + k * blockSize := by
        rw [Nat.add_mul]; omega
      rw [this]
      omega
    · simp only [Reader.readBlocks]
      rw [i4, h4, h5]
      cases hg : r.grow
      · simp
      · simp only [if_true]
        have : (r.read (some blockSize)).2.pos ≤ ((r.read (some blockSize)).2.readBlocks k).pos := by
          rw [i2]; omega
        omega

/-- successive block reads deliver consecutive pieces of the stream -/
theorem readMany_refines {s : List Nat} (ns : List Nat) :
    ∀ {r : Reader}, Inv s r →
      (r.readMany ns).1 = (s.drop r.pos).take ns.sum ∧ Inv s (r.readMany ns).2 ∧
      (r.readMany ns).2.pos = r.pos + (r.readMany ns).1.length ∧ (r.readMany ns).2.grow = r.grow := by
  induction ns with
  | nil => intro r h; simp [Reader.readMany, h]
  | cons n ns ih =>
    intro r h
    obtain ⟨h1, h2, h3, h4, -⟩ := read_refines h (some n)
    simp only at h1
    obtain ⟨i1, i2, i3, i4⟩ := ih h2
    simp only [Reader.readMany, List.sum_cons]
    refine ⟨?_, i2, ?_, by rw [i4, h4]⟩
    · rw [i1, h1, h3, h1, List.take_add]
      congr 1
      simp only [List.length_take, List.length_drop, List.drop_drop]
      rw [drop_add_min]
    · rw [i3, h3]; simp only [List.length_append]; omega

/-- every history of operations that raised no OS error keeps the invariant -/
theorem exec_inv {s : List Nat} (ops : List Op) :
    ∀ {r r' : Reader}, Inv s r → Reader.exec ops r = some r' → Inv s r' := by
  induction ops with
  | nil => intro r r' h he; simp only [Reader.exec, Option.some.injEq] at he; exact he ▸ h
  | cons op ops ih =>
    intro r r' h he
    cases op with
    | read n => exact ih (read_refines h n).2.1 he
    | tell => exact ih h he
    | seek p =>
      simp only [Reader.exec] at he
      cases hs : r.seek p with
      | none => simp [hs] at he
      | some r1 =>
        simp only [hs] at he
        exact ih (seek_refines h hs).1 he

/-! ### traces of a build -/

/-- a `parsed` event of a resource for which defusing applies directly follows the `scanned`
    event of the same resource, and the resource is not one that must be refused -/
def parseOk (m : Mode) (prev : Option Ev) : Ev → Prop
  | .parsed r => isDefused m r.base = true → prev = some (.scanned r) ∧ r.mustRefuse = false
  | _ => True

def okFrom (m : Mode) : Option Ev → List Ev → Prop
  | _, [] => True
  | prev, e :: t => parseOk m prev e ∧ okFrom m (some e) t

def lastOr (prev : Option Ev) : List Ev → Option Ev
  | [] => prev
  | e :: t => lastOr (some e) t

theorem okFrom_append (m : Mode) (a b : List Ev) :
    ∀ prev, okFrom m prev (a ++ b) ↔ okFrom m prev a ∧ okFrom m (lastOr prev a) b := by
  induction a with
  | nil => intro prev; simp [okFrom, lastOr]
  | cons e t ih =>
    intro prev
    simp only [List.cons_append, okFrom, lastOr, ih (some e)]
    exact and_assoc.symm

/-- reading the invariant back as a statement about positions in the trace -/
theorem okFrom_spec (m : Mode) (r : Res) (post : List Ev) (hd : isDefused m r.base = true) :
    ∀ (pre : List Ev) (prev : Option Ev), okFrom m prev (pre ++ .parsed r :: post) →
      r.mustRefuse = false ∧ lastOr prev pre = some (.scanned r) := by
  intro pre
  induction pre with
  | nil =>
    intro prev h
    simp only [List.nil_append, okFrom, parseOk] at h
    exact ⟨(h.1 hd).2, (h.1 hd).1⟩
  | cons e t ih =>
    intro prev h
    simp only [List.cons_append, okFrom] at h
    exact ih (some e) h.2

theorem lastOr_some_iff (pre : List Ev) (e : Ev) (h : lastOr none pre = some e) :
    ∃ pre', pre = pre' ++ [e] := by
  have gen : ∀ (pre : List Ev) (prev : Option Ev), lastOr prev pre = some e →
      (pre = [] ∧ prev = some e) ∨ ∃ pre', pre = pre' ++ [e] := by
    intro pre
    induction pre with
    | nil => intro prev h; exact Or.inl ⟨rfl, h⟩
    | cons x t ih =>
      intro prev h
      rcases ih (some x) h with ⟨ht, hx⟩ | ⟨p', hp'⟩
      · cases hx; subst ht; exact Or.inr ⟨[], rfl⟩
      · exact Or.inr ⟨x :: p', by rw [hp']; rfl⟩
  rcases gen pre none h with ⟨-, hn⟩ | h'
  · cases hn
  · exact h'

theorem plan_ne_noDefuse (v : Variant) (m : Mode) (b : BaseClass) (ch : Chan) (hd : isDefused m b = true) :
    plan v m b ch ≠ .noDefuse := by
  unfold plan
  simp only [hd, Bool.not_true, Bool.false_eq_true, if_false]
  repeat' split
  all_goals simp

theorem resEvents_ok (v : Variant) (m : Mode) (r : Res) : ∀ prev, okFrom m prev (resEvents v m r) := by
  intro prev
  by_cases hd : isDefused m r.base = true
  · have hp : plan v m r.base r.ch ≠ .noDefuse := plan_ne_noDefuse v m r.base r.ch hd
    by_cases ho : resOutcome v m r = .parsed
    · have hmr : r.mustRefuse = false := by
        unfold resOutcome outcomeDoc at ho
        cases hpl : plan v m r.base r.ch <;> cases hm : r.mustRefuse <;> simp_all [outcome]
      have hnr : plan v m r.base r.ch ≠ .refuse := by
        intro e
        unfold resOutcome outcomeDoc at ho
        simp [e, outcome] at ho
      unfold resEvents
      cases hpl : plan v m r.base r.ch <;> simp_all [okFrom, parseOk]
    · unfold resEvents
      cases hpl : plan v m r.base r.ch <;> simp_all [okFrom, parseOk]
  · have hd' : isDefused m r.base = false := by simpa using hd
    unfold resEvents
    cases hpl : plan v m r.base r.ch <;> by_cases ho : resOutcome v m r = .parsed <;>
      simp [okFrom, parseOk, hd', ho]

theorem build_ok (v : Variant) (m : Mode) (f : Forest) : ∀ prev, okFrom m prev (build v m f).1 := by
  induction f with
  | nil => intro prev; simp [build, okFrom]
  | cons r k c s ihc ihs =>
    intro prev
    have hr := resEvents_ok v m r
    by_cases ho : resOutcome v m r = .parsed
    · cases hc : (build v m c).2 with
      | ok =>
        have e : (build v m (.cons r k c s)).1 = (resEvents v m r ++ (build v m c).1) ++ (build v m s).1 := by
          simp [build, ho, hc]
        rw [e, okFrom_append, okFrom_append]
        exact ⟨⟨hr _, ihc _⟩, ihs _⟩
      | raised o =>
        by_cases hs : swallowed k o = true
        · have e : (build v m (.cons r k c s)).1 = (resEvents v m r ++ (build v m c).1) ++ (build v m s).1 := by
            simp [build, ho, hc, hs]
          rw [e, okFrom_append, okFrom_append]
          exact ⟨⟨hr _, ihc _⟩, ihs _⟩
        · have e : (build v m (.cons r k c s)).1 = resEvents v m r ++ (build v m c).1 := by
            simp [build, ho, hc, hs]
          rw [e, okFrom_append]
          exact ⟨hr _, ihc _⟩
    · by_cases hs : swallowed k (resOutcome v m r) = true
      · have e : (build v m (.cons r k c s)).1 = resEvents v m r ++ (build v m s).1 := by
          simp [build, ho, hs]
        rw [e, okFrom_append]
        exact ⟨hr _, ihs _⟩
      · have e : (build v m (.cons r k c s)).1 = resEvents v m r := by
          simp [build, ho, hs]
        rw [e]
        exact hr _

end XsVerif.Defuse
