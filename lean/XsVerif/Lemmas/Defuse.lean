/-
  Helper lemmas for C13: the DefusableReader model refines a plain byte list with a cursor.
-/
import XsVerif.Model.Defuse

namespace XsVerif.Defuse

/-- abstraction invariant: the buffer is a prefix of the stream `s`, and what the underlying
    stream still holds is `s` from the furthest point reached -/
def Inv (s : List Nat) (r : Reader) : Prop :=
  r.buf = s.take r.buf.length ∧ r.rest = s.drop (max r.pos r.buf.length)

theorem Inv.buf_le {s : List Nat} {r : Reader} (h : Inv s r) : r.buf.length ≤ s.length := by
  have := congrArg List.length h.1
  simp at this
  omega

theorem drop_add_min (s : List Nat) (p n : Nat) :
    s.drop (p + min n (s.length - p)) = s.drop (p + n) := by
  by_cases h : n ≤ s.length - p
  · rw [Nat.min_eq_left h]
  · rw [Nat.min_eq_right (by omega)]
    rw [List.drop_eq_nil_of_le (by omega), List.drop_eq_nil_of_le (by omega)]

theorem init_inv (size : Nat) (s : List Nat) : Inv s (Reader.init size s) := by
  unfold Inv Reader.init
  simp only [List.length_take]
  constructor
  · rw [List.take_eq_take_iff]; simp
  · generalize (if size < 8192 then 8192 else size) = b
    by_cases hb : b ≤ s.length
    · congr 1; omega
    · rw [List.drop_eq_nil_of_le (by omega), List.drop_eq_nil_of_le (by omega)]

theorem split_stream {s : List Nat} {r : Reader} (h : Inv s r) (hp : r.pos < r.buf.length) :
    s.drop r.pos = r.buf.drop r.pos ++ r.rest := by
  have hb := h.buf_le
  have h2 : r.rest = s.drop r.buf.length := by rw [h.2]; congr 1; omega
  have hs : s = r.buf ++ r.rest := by
    rw [h2]; conv => lhs; rw [← List.take_append_drop r.buf.length s]
    rw [← h.1]
  conv => lhs; rw [hs]
  rw [List.drop_append_of_le_length (by omega)]

/-- `read` returns exactly the bytes of the stream at the cursor and keeps the invariant -/
theorem read_refines {s : List Nat} {r : Reader} (h : Inv s r) (n : Option Nat) :
    (r.read n).1 = (match n with | some k => (s.drop r.pos).take k | none => s.drop r.pos) ∧
    Inv s (r.read n).2 ∧ (r.read n).2.pos = r.pos + (r.read n).1.length ∧
    (r.read n).2.buf = r.buf := by
  have hb := h.buf_le
  cases n with
  | some n =>
    unfold Reader.read
    by_cases hp : r.buf.length ≤ r.pos
    · have hr : r.rest = s.drop r.pos := by rw [h.2]; congr 1; omega
      simp only [hp, if_true]
      refine ⟨by rw [hr], ⟨h.1, ?_⟩, by simp, by simp⟩
      simp only [hr, List.drop_drop, List.length_take, List.length_drop]
      rw [show max (r.pos + min n (s.length - r.pos)) r.buf.length = r.pos + min n (s.length - r.pos) by omega]
      rw [drop_add_min]
    · have hp' : r.pos < r.buf.length := by omega
      have hs := split_stream h hp'
      have h2 : r.rest = s.drop r.buf.length := by rw [h.2]; congr 1; omega
      simp only [hp, if_false]
      by_cases hn : n ≤ (r.buf.drop r.pos).length
      · simp only [hn, if_true]
        refine ⟨by rw [hs, List.take_append_of_le_length hn], ⟨h.1, ?_⟩, by simp, by simp⟩
        simp only [List.length_take, List.length_drop] at hn ⊢
        rw [h.2]; congr 1; omega
      · simp only [hn, if_false]
        have hn' : (r.buf.drop r.pos).length ≤ n := by omega
        refine ⟨?_, ⟨h.1, ?_⟩, by simp, by simp⟩
        · rw [hs, List.take_append, List.take_of_length_le hn']
        · rw [h2, List.drop_drop]
          simp only [List.length_append, List.length_take, List.length_drop] at hn ⊢
          have e : max (r.pos + (r.buf.length - r.pos + min (n - (r.buf.length - r.pos)) (s.length - r.buf.length)))
              r.buf.length = r.buf.length + min (n - (r.buf.length - r.pos)) (s.length - r.buf.length) := by omega
          rw [e, drop_add_min]
  | none =>
    unfold Reader.read
    by_cases hp : r.buf.length ≤ r.pos
    · have hr : r.rest = s.drop r.pos := by rw [h.2]; congr 1; omega
      simp only [hp, if_true]
      refine ⟨hr, ⟨h.1, ?_⟩, by simp, by simp⟩
      simp only [hr, List.length_drop]
      rw [List.drop_eq_nil_of_le (by omega)]
    · have hp' : r.pos < r.buf.length := by omega
      have hs := split_stream h hp'
      have h2 : r.rest = s.drop r.buf.length := by rw [h.2]; congr 1; omega
      simp only [hp, if_false]
      refine ⟨hs.symm, ⟨h.1, ?_⟩, by simp, by simp⟩
      simp only [List.length_append, List.length_drop, h2]
      rw [List.drop_eq_nil_of_le (by omega)]

theorem seek_refines {s : List Nat} {r r' : Reader} {p : Nat} (h : Inv s r)
    (hs : r.seek p = some r') : Inv s r' ∧ r'.pos = p ∧ r'.buf = r.buf := by
  unfold Reader.seek at hs
  split at hs
  · cases hs
  · split at hs
    · cases hs
    · cases hs
      refine ⟨⟨h.1, ?_⟩, rfl, rfl⟩
      simp only
      rw [h.2]; congr 1; omega

end XsVerif.Defuse
